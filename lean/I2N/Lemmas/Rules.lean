/-
Helper lemmas for property C10 (engine `rules`): the counting invariant of the `run_test_node` state
machine ("every execution leaves exactly one more result than it found") and injectivity of the retry
identifier.
-/
import I2N.Model.Rules
import Std.Data.String.ToNat
namespace I2N.Lemmas.Rules
open I2N.Rules I2N.Extracted.Rules

/-- the static part (name, prefix) of the copies -/
def statics (cs : List Copy) : List (String × String) := cs.map (fun c => (c.name, c.pfx))

theorem statics_updCopy (cs : List Copy) (i : Nat) (f : Copy → Copy)
    (hf : ∀ c, (f c).name = c.name ∧ (f c).pfx = c.pfx) : statics (updCopy cs i f) = statics cs := by
  induction cs generalizing i with
  | nil => rfl
  | cons c rest ih =>
    cases i with
    | zero => simp [updCopy, statics, hf c]
    | succ i => simp only [updCopy, statics, List.map_cons] at *; rw [ih]

theorem sharedLen_updCopy_ge (cs : List Copy) (i : Nat) (f : Copy → Copy)
    (hf : ∀ c0, cs[i]? = some c0 → c0.results.length ≤ (f c0).results.length) :
    sharedLen cs ≤ sharedLen (updCopy cs i f) := by
  induction cs generalizing i with
  | nil => simp [updCopy]
  | cons c rest ih =>
    cases i with
    | zero => have := hf c (by simp); simp only [updCopy, sharedLen, List.map_cons, List.sum_cons]; omega
    | succ i =>
      have := ih i (fun c0 h => hf c0 (by simpa using h))
      simp only [updCopy, sharedLen, List.map_cons, List.sum_cons] at *; omega

theorem sharedLen_updCopy_succ (cs : List Copy) (i : Nat) (f : Copy → Copy) (c0 : Copy) (h0 : cs[i]? = some c0)
    (hf : ∀ c, (f c).results.length = c.results.length + 1) : sharedLen (updCopy cs i f) = sharedLen cs + 1 := by
  induction cs generalizing i with
  | nil => simp at h0
  | cons c rest ih =>
    cases i with
    | zero => have := hf c; simp only [updCopy, sharedLen, List.map_cons, List.sum_cons]; omega
    | succ i =>
      have := ih i (by simpa using h0)
      simp only [updCopy, sharedLen, List.map_cons, List.sum_cons] at *; omega

theorem mem_statics_of_getElem? {cs : List Copy} {i : Nat} {c : Copy} (h : cs[i]? = some c) :
    (c.name, c.pfx) ∈ statics cs := by
  have := List.mem_of_getElem? h
  exact List.mem_map.mpr ⟨c, this, rfl⟩

/-- `uidOf` is injective in the retry counter -/
theorem uidOf_inj (p : String) {k k' : Nat} (h : uidOf p k = uidOf p k') : k = k' := by
  unfold uidOf at h
  have hpos : 0 < retryInfix.length := by decide
  have hlen : ∀ n : Nat, (p ++ retryInfix ++ toString n).length = p.length + retryInfix.length + (toString n).length := by
    intro n; simp only [String.length_append]
  by_cases hk : k > 0 <;> by_cases hk' : k' > 0
  · simp only [hk, hk', if_true] at h
    have h2 : (p ++ retryInfix ++ toString k).toList = (p ++ retryInfix ++ toString k').toList := by rw [h]
    simp only [String.toList_append, List.append_assoc] at h2
    have h3 := List.append_cancel_left (List.append_cancel_left h2)
    have h4 : toString k = toString k' := String.ext_iff.mpr h3
    exact Nat.repr_inj.mp h4
  · simp only [hk, hk', if_true, if_false] at h
    have := congrArg String.length h; rw [hlen] at this; omega
  · simp only [hk, hk', if_true, if_false] at h
    have := congrArg String.length h; rw [hlen] at this; omega
  · omega


/-- copies of one class either differ in their names (one copy per worker) or share the prefix -/
def ClassOK (cs : List Copy) : Prop :=
  ∀ p ∈ statics cs, ∀ q ∈ statics cs, p.1 = q.1 → p.2 = q.2

/-- "every execution leaves exactly one more result than it found": the retry counters handed out so far
are pairwise distinct and below the current number of shared results -/
structure CountInv (s : St) : Prop where
  kLt : ∀ e ∈ s.issued, e.k < sharedLen s.copies
  kDistinct : s.issued.Pairwise (fun a b => a.k ≠ b.k)
  issuedStatic : ∀ e ∈ s.issued, ∃ p, (e.name, p) ∈ statics s.copies ∧ e.uid = uidOf p e.k

theorem settle_length {results : List Result} {job : List JobRes} {name uid : String} {o : Outcome} {r : Settled}
    (h : settle results job name uid o = .ok r) : r.results.length = results.length := by
  have hrec : ∀ (job : List JobRes) (x : JobRes) (r : Settled), record results job name uid x = .ok r →
      r.results.length = results.length := by
    intro job x r hr
    unfold record at hr
    simp only at hr
    split at hr
    · cases hr
      rename_i hc
      have hmem : unknownOf name ∈ results ++ [{ name := name, status := durationStatus results x, time := some x.time }] := by
        simpa using hc
      simp only [List.length_erase_of_mem hmem, List.length_append, List.length_cons, List.length_nil]
      omega
    · cases hr
  unfold settle at h
  simp only at h
  split at h
  · rename_i x hx
    generalize (if (o.delay == 0) = true then arrive job name uid o else job) = job0 at h hx
    cases hr : record results job0 name uid x with
    | error e => rw [hr] at h; cases h
    | ok r0 =>
      rw [hr] at h
      simp only [Except.map] at h
      cases h
      have := hrec _ _ _ hr
      split <;> exact this
  · split at h
    · split at h
      · exact hrec _ _ _ h
      · cases h; rfl
    · cases h; rfl


theorem CountInv.mono {s s' : St} (h : CountInv s) (hi : s'.issued = s.issued)
    (hs : statics s'.copies = statics s.copies) (hl : sharedLen s.copies ≤ sharedLen s'.copies) : CountInv s' := by
  refine ⟨?_, ?_, ?_⟩
  · intro e he; rw [hi] at he; exact Nat.lt_of_lt_of_le (h.kLt e he) hl
  · rw [hi]; exact h.kDistinct
  · intro e he; rw [hi] at he; rw [hs]; exact h.issuedStatic e he

theorem beginExec_countInv (s : St) (i : Nat) (c : Copy) (hc : s.copies[i]? = some c) (h : CountInv s) :
    CountInv (beginExec s i c).1 := by
  have hst : statics (updCopy s.copies i fun c => { c with results := c.results ++ [unknownOf c.name] }) =
      statics s.copies := statics_updCopy _ _ _ (fun _ => ⟨rfl, rfl⟩)
  have hlen := sharedLen_updCopy_succ s.copies i
    (fun c => { c with results := c.results ++ [unknownOf c.name] }) c hc (fun c => by simp)
  simp only [beginExec]
  refine ⟨?_, ?_, ?_⟩
  · intro e he
    simp only [List.mem_cons] at he
    simp only [hlen]
    rcases he with rfl | he
    · exact Nat.lt_succ_self _
    · exact Nat.lt_succ_of_lt (h.kLt e he)
  · simp only [List.pairwise_cons]
    refine ⟨?_, h.kDistinct⟩
    intro a ha
    have := h.kLt a ha
    omega
  · intro e he
    simp only [List.mem_cons] at he
    simp only [hst]
    rcases he with rfl | he
    · exact ⟨c.pfx, mem_statics_of_getElem? hc, rfl⟩
    · exact h.issuedStatic e he

theorem step_countInv (s : St) (ev : Event) (h : CountInv s) : CountInv (step s ev).1 := by
  cases ev with
  | start i =>
    simp only [step, start]
    cases hc : s.copies[i]? with
    | none => exact h
    | some c =>
      simp only
      split
      · exact h
      · exact beginExec_countInv s i c hc h
  | finish j o =>
    simp only [step, finish]
    cases hp : s.pending[j]? with
    | none => exact h
    | some e =>
      simp only
      cases hc : s.copies[e.copy]? with
      | none => exact h
      | some c =>
        simp only
        cases hs : settle c.results s.job e.name e.uid o with
        | error err => exact h
        | ok r =>
          simp only
          refine h.mono rfl (statics_updCopy _ _ _ (fun _ => ⟨rfl, rfl⟩)) ?_
          apply sharedLen_updCopy_ge
          intro c0 h0
          rw [hc] at h0; cases h0
          simp only [settle_length hs]; exact Nat.le_refl _
  | replay i prev =>
    simp only [step, replayStep]
    cases hc : s.copies[i]? with
    | none => exact h
    | some c =>
      simp only
      split
      · refine h.mono rfl (statics_updCopy _ _ _ (fun _ => ⟨rfl, rfl⟩)) ?_
        apply sharedLen_updCopy_ge
        intro c0 _; simp
      · exact h
  | create i o =>
    simp only [step, createStep]
    cases hc : s.copies[i]? with
    | none => exact h
    | some c =>
      simp only
      split
      · exact h
      · cases hs : settle (c.results ++ [unknownOf c.preName]) s.job c.preName (uidOf c.prePfx c.results.length) o with
        | error err => exact h
        | ok r =>
          simp only
          split
          · exact beginExec_countInv _ i c hc (h.mono rfl rfl (Nat.le_refl _))
          · refine h.mono rfl (statics_updCopy _ _ _ (fun _ => ⟨rfl, rfl⟩)) ?_
            apply sharedLen_updCopy_ge
            intro c0 _; simp

theorem run_countInv (s : St) (evs : List Event) (h : CountInv s) : CountInv (run s evs).1 := by
  induction evs generalizing s with
  | nil => exact h
  | cons e es ih => simp only [run]; exact ih _ (step_countInv s e h)

theorem statics_beginExec (s : St) (i : Nat) (c : Copy) : statics (beginExec s i c).1.copies = statics s.copies :=
  statics_updCopy _ _ _ (fun _ => ⟨rfl, rfl⟩)

theorem statics_step (s : St) (ev : Event) : statics (step s ev).1.copies = statics s.copies := by
  cases ev with
  | start i =>
    simp only [step, start]
    cases hc : s.copies[i]? with
    | none => rfl
    | some c => simp only; split; rfl; exact statics_beginExec s i c
  | finish j o =>
    simp only [step, finish]
    cases hp : s.pending[j]? with
    | none => rfl
    | some e =>
      simp only
      cases hc : s.copies[e.copy]? with
      | none => rfl
      | some c =>
        simp only
        cases hs : settle c.results s.job e.name e.uid o with
        | error err => rfl
        | ok r => exact statics_updCopy _ _ _ (fun _ => ⟨rfl, rfl⟩)
  | replay i prev =>
    simp only [step, replayStep]
    cases hc : s.copies[i]? with
    | none => rfl
    | some c => simp only; split; exact statics_updCopy _ _ _ (fun _ => ⟨rfl, rfl⟩); rfl
  | create i o =>
    simp only [step, createStep]
    cases hc : s.copies[i]? with
    | none => rfl
    | some c =>
      simp only
      split
      · rfl
      · cases hs : settle (c.results ++ [unknownOf c.preName]) s.job c.preName (uidOf c.prePfx c.results.length) o with
        | error err => rfl
        | ok r =>
          simp only
          split
          · exact statics_beginExec _ i c
          · exact statics_updCopy _ _ _ (fun _ => ⟨rfl, rfl⟩)

theorem statics_run (s : St) (evs : List Event) : statics (run s evs).1.copies = statics s.copies := by
  induction evs generalizing s with
  | nil => rfl
  | cons e es ih => simp only [run]; rw [ih, statics_step]

/-- distinct retry counters give distinct (name, uid) pairs within a well-formed class -/
theorem ids_nodup_of_countInv {s : St} (h : CountInv s) (hc : ClassOK s.copies) :
    (s.issued.map (fun e => (e.name, e.uid))).Nodup := by
  rw [List.Nodup, List.pairwise_map]
  refine List.Pairwise.imp_of_mem ?_ h.kDistinct
  intro a b ha hb hk heq
  obtain ⟨p, hp, hu⟩ := h.issuedStatic a ha
  obtain ⟨q, hq, hv⟩ := h.issuedStatic b hb
  simp only [Prod.mk.injEq] at heq
  have hpq : p = q := hc _ hp _ hq heq.1
  subst hpq
  rw [hu, hv] at heq
  exact hk (uidOf_inj p heq.2)

theorem anyOk_spec (name : String) (l : List JobRes) (hv : ∀ t ∈ l, (statusOk t.status).isSome = true) :
    ∃ b, anyOk name l = .ok b ∧
      (b = true ↔ ∃ r ∈ l, r.name = name ∧ statusOk r.status = some true) := by
  induction l with
  | nil => exact ⟨false, rfl, by simp⟩
  | cons t ts ih =>
    obtain ⟨b, hb, hiff⟩ := ih (fun x hx => hv x (List.mem_cons_of_mem _ hx))
    have ht := hv t List.mem_cons_self
    unfold anyOk
    by_cases hn : (t.name == name) = true
    · have hn' : t.name = name := by simpa using hn
      simp only [hn, if_true]
      cases hs : statusOk t.status with
      | none => rw [hs] at ht; cases ht
      | some v =>
        cases v with
        | true => exact ⟨true, rfl, by simp only [true_iff]; exact ⟨t, List.mem_cons_self, hn', hs⟩⟩
        | false =>
          refine ⟨b, hb, hiff.trans ?_⟩
          constructor
          · intro ⟨r, hr, h1, h2⟩; exact ⟨r, List.mem_cons_of_mem _ hr, h1, h2⟩
          · intro ⟨r, hr, h1, h2⟩
            rcases List.mem_cons.mp hr with rfl | hr
            · rw [hs] at h2; cases h2
            · exact ⟨r, hr, h1, h2⟩
    · have hn' : t.name ≠ name := by simpa using hn
      simp only [hn, Bool.false_eq_true, if_false]
      refine ⟨b, hb, hiff.trans ?_⟩
      constructor
      · intro ⟨r, hr, h1, h2⟩; exact ⟨r, List.mem_cons_of_mem _ hr, h1, h2⟩
      · intro ⟨r, hr, h1, h2⟩
        rcases List.mem_cons.mp hr with rfl | hr
        · exact absurd h1 hn'
        · exact ⟨r, hr, h1, h2⟩

theorem allOkLoop_spec (all rest : List JobRes) (hv : ∀ t ∈ all, (statusOk t.status).isSome = true) :
    ∃ b, allOkLoop all rest = .ok b ∧
      (b = true ↔ ∀ t ∈ rest, ∃ r ∈ all, r.name = t.name ∧ statusOk r.status = some true) := by
  induction rest with
  | nil => exact ⟨true, rfl, by simp⟩
  | cons t ts ih =>
    obtain ⟨b, hb, hiff⟩ := ih
    obtain ⟨a, ha, haiff⟩ := anyOk_spec t.name all hv
    unfold allOkLoop
    rw [ha]
    cases a with
    | false =>
      refine ⟨false, rfl, ?_⟩
      constructor
      · intro h; cases h
      · intro h
        have := haiff.mpr (h t List.mem_cons_self)
        cases this
    | true =>
      refine ⟨b, hb, hiff.trans ?_⟩
      constructor
      · intro h x hx
        rcases List.mem_cons.mp hx with rfl | hx
        · exact haiff.mp rfl
        · exact h x hx
      · intro h x hx; exact h x (List.mem_cons_of_mem _ hx)

theorem lookup_append_fresh (job : List JobRes) (name uid st : String) (t : Nat)
    (hfresh : ∀ x ∈ job, ¬ (x.name = name ∧ x.uid = uid)) :
    lookupJob (job ++ [{ name := name, uid := uid, status := st, time := t }]) name uid =
      some { name := name, uid := uid, status := st, time := t } := by
  unfold lookupJob
  rw [List.find?_append]
  have : job.find? (fun x => x.name == name && x.uid == uid) = none := by
    rw [List.find?_eq_none]
    intro x hx h
    simp only [Bool.and_eq_true, beq_iff_eq] at h
    exact hfresh x hx h
  rw [this]
  simp

theorem lookup_fresh_none (job : List JobRes) (name uid : String)
    (hfresh : ∀ x ∈ job, ¬ (x.name = name ∧ x.uid = uid)) : lookupJob job name uid = none := by
  unfold lookupJob
  rw [List.find?_eq_none]
  intro x hx h
  simp only [Bool.and_eq_true, beq_iff_eq] at h
  exact hfresh x hx h

theorem contains_append_false {l1 l2 : List String} {a : String}
    (h1 : l1.contains a = false) (h2 : l2.contains a = false) : (l1 ++ l2).contains a = false := by
  rw [Bool.eq_false_iff] at *
  simp only [ne_eq, List.contains_iff_mem, List.mem_append] at *
  rintro (h | h); exact h1 h; exact h2 h

/-! ### per-copy facts: static projections and own result counts along steps -/

theorem map_updCopy {α : Type} (g : Copy → α) (cs : List Copy) (i : Nat) (f : Copy → Copy)
    (hf : ∀ c, g (f c) = g c) : (updCopy cs i f).map g = cs.map g := by
  induction cs generalizing i with
  | nil => rfl
  | cons c rest ih =>
    cases i with
    | zero => simp [updCopy, hf c]
    | succ i => simp only [updCopy, List.map_cons]; rw [ih]

/-- any projection of the copies that ignores `results` is constant along steps -/
theorem map_step {α : Type} (g : Copy → α) (hg : ∀ (c : Copy) (rs : List Result), g { c with results := rs } = g c)
    (s : St) (ev : Event) : (step s ev).1.copies.map g = s.copies.map g := by
  cases ev with
  | start i =>
    simp only [step, start]
    cases hc : s.copies[i]? with
    | none => rfl
    | some c => simp only; split; rfl; exact map_updCopy g _ _ _ (fun c => hg c _)
  | finish j o =>
    simp only [step, finish]
    cases hp : s.pending[j]? with
    | none => rfl
    | some e =>
      simp only
      cases hc : s.copies[e.copy]? with
      | none => rfl
      | some c =>
        simp only
        cases hs : settle c.results s.job e.name e.uid o with
        | error err => rfl
        | ok r => exact map_updCopy g _ _ _ (fun c => hg c _)
  | replay i prev =>
    simp only [step, replayStep]
    cases hc : s.copies[i]? with
    | none => rfl
    | some c => simp only; split; exact map_updCopy g _ _ _ (fun c => hg c _); rfl
  | create i o =>
    simp only [step, createStep]
    cases hc : s.copies[i]? with
    | none => rfl
    | some c =>
      simp only
      split
      · rfl
      · cases hs : settle (c.results ++ [unknownOf c.preName]) s.job c.preName (uidOf c.prePfx c.results.length) o with
        | error err => rfl
        | ok r =>
          simp only
          split
          · exact map_updCopy g _ _ _ (fun c => hg c _)
          · exact map_updCopy g _ _ _ (fun c => hg c _)

theorem map_run {α : Type} (g : Copy → α) (hg : ∀ (c : Copy) (rs : List Result), g { c with results := rs } = g c)
    (s : St) (evs : List Event) : (run s evs).1.copies.map g = s.copies.map g := by
  induction evs generalizing s with
  | nil => rfl
  | cons e es ih => simp only [run]; rw [ih, map_step g hg]

theorem getElem?_updCopy_ne (cs : List Copy) (i j : Nat) (f : Copy → Copy) (h : j ≠ i) :
    (updCopy cs i f)[j]? = cs[j]? := by
  induction cs generalizing i j with
  | nil => rfl
  | cons c rest ih =>
    cases i with
    | zero =>
      cases j with
      | zero => exact absurd rfl h
      | succ j => simp [updCopy]
    | succ i =>
      cases j with
      | zero => simp [updCopy]
      | succ j => simp only [updCopy, List.getElem?_cons_succ]; exact ih i j (by omega)

theorem getElem?_updCopy_eq (cs : List Copy) (i : Nat) (f : Copy → Copy) :
    (updCopy cs i f)[i]? = cs[i]?.map f := by
  induction cs generalizing i with
  | nil => rfl
  | cons c rest ih =>
    cases i with
    | zero => simp [updCopy]
    | succ i => simp only [updCopy, List.getElem?_cons_succ]; exact ih i

/-- own result count of copy `j` -/
def lenAt (cs : List Copy) (j : Nat) : Option Nat := cs[j]?.map (fun c => c.results.length)

def LenMono (cs cs' : List Copy) : Prop := ∀ j n, lenAt cs j = some n → ∃ n', lenAt cs' j = some n' ∧ n ≤ n'

theorem LenMono.refl (cs : List Copy) : LenMono cs cs := fun _ n h => ⟨n, h, Nat.le_refl _⟩

theorem LenMono.trans {a b c : List Copy} (h1 : LenMono a b) (h2 : LenMono b c) : LenMono a c := by
  intro j n h
  obtain ⟨n1, h3, h4⟩ := h1 j n h
  obtain ⟨n2, h5, h6⟩ := h2 j n1 h3
  exact ⟨n2, h5, Nat.le_trans h4 h6⟩

theorem lenMono_updCopy (cs : List Copy) (i : Nat) (f : Copy → Copy)
    (hf : ∀ c0, cs[i]? = some c0 → c0.results.length ≤ (f c0).results.length) : LenMono cs (updCopy cs i f) := by
  intro j n h
  unfold lenAt at *
  by_cases hj : j = i
  · subst hj
    rw [getElem?_updCopy_eq]
    cases hc : cs[j]? with
    | none => rw [hc] at h; cases h
    | some c0 =>
      rw [hc] at h; simp only [Option.map_some, Option.some.injEq] at h
      exact ⟨(f c0).results.length, rfl, by have := hf c0 hc; omega⟩
  · rw [getElem?_updCopy_ne _ _ _ _ hj]; exact ⟨n, h, Nat.le_refl _⟩

theorem lenMono_step (s : St) (ev : Event) : LenMono s.copies (step s ev).1.copies := by
  cases ev with
  | start i =>
    simp only [step, start]
    cases hc : s.copies[i]? with
    | none => exact LenMono.refl _
    | some c =>
      simp only; split
      · exact LenMono.refl _
      · exact lenMono_updCopy _ _ _ (fun c0 _ => by simp)
  | finish j o =>
    simp only [step, finish]
    cases hp : s.pending[j]? with
    | none => exact LenMono.refl _
    | some e =>
      simp only
      cases hc : s.copies[e.copy]? with
      | none => exact LenMono.refl _
      | some c =>
        simp only
        cases hs : settle c.results s.job e.name e.uid o with
        | error err => exact LenMono.refl _
        | ok r =>
          apply lenMono_updCopy
          intro c0 h0; rw [hc] at h0; cases h0
          simp only [settle_length hs]; exact Nat.le_refl _
  | replay i prev =>
    simp only [step, replayStep]
    cases hc : s.copies[i]? with
    | none => exact LenMono.refl _
    | some c =>
      simp only; split
      · exact lenMono_updCopy _ _ _ (fun c0 _ => by simp)
      · exact LenMono.refl _
  | create i o =>
    simp only [step, createStep]
    cases hc : s.copies[i]? with
    | none => exact LenMono.refl _
    | some c =>
      simp only; split
      · exact LenMono.refl _
      · cases hs : settle (c.results ++ [unknownOf c.preName]) s.job c.preName (uidOf c.prePfx c.results.length) o with
        | error err => exact LenMono.refl _
        | ok r =>
          simp only; split
          · exact lenMono_updCopy _ _ _ (fun c0 _ => by simp)
          · exact lenMono_updCopy _ _ _ (fun c0 _ => by simp)


/-! ### creation pre-steps -/

def preStatics (cs : List Copy) : List (String × String) := cs.map (fun c => (c.preName, c.prePfx))

/-- the pre-steps of one copy were started with strictly fewer own results than the copy holds now, and
with pairwise different own result counts -/
structure PreInv (s : St) : Prop where
  bound : ∀ e ∈ s.preIssued, (∃ n, lenAt s.copies e.copy = some n ∧ e.k < n) ∧
            ∃ p, (preStatics s.copies)[e.copy]? = some (e.name, p) ∧ e.uid = uidOf p e.k
  distinct : s.preIssued.Pairwise (fun a b => a.copy = b.copy → a.k ≠ b.k)

theorem preStatics_step (s : St) (ev : Event) : preStatics (step s ev).1.copies = preStatics s.copies :=
  map_step _ (fun _ _ => rfl) s ev

theorem PreInv.mono {s s' : St} (h : PreInv s) (hp : s'.preIssued = s.preIssued)
    (hst : preStatics s'.copies = preStatics s.copies) (hl : LenMono s.copies s'.copies) : PreInv s' := by
  refine ⟨?_, by rw [hp]; exact h.distinct⟩
  intro e he; rw [hp] at he
  obtain ⟨⟨n, hn, hk⟩, hs⟩ := h.bound e he
  obtain ⟨n', hn', hle⟩ := hl _ _ hn
  exact ⟨⟨n', hn', by omega⟩, by rw [hst]; exact hs⟩

/-- what a creation attempt does to the ghost list and to the own result count of its copy -/
theorem createStep_spec (s : St) (i : Nat) (o : Outcome) :
    (createStep s i o).1.preIssued = s.preIssued ∨
    ∃ c, s.copies[i]? = some c ∧
      (createStep s i o).1.preIssued =
        { copy := i, k := c.results.length, name := c.preName, uid := uidOf c.prePfx c.results.length } :: s.preIssued ∧
      lenAt (createStep s i o).1.copies i = some (c.results.length + 1) := by
  simp only [createStep]
  cases hc : s.copies[i]? with
  | none => exact Or.inl rfl
  | some c =>
    simp only
    split
    · exact Or.inl rfl
    · cases hs : settle (c.results ++ [unknownOf c.preName]) s.job c.preName (uidOf c.prePfx c.results.length) o with
      | error err => exact Or.inl rfl
      | ok r =>
        right
        refine ⟨c, rfl, ?_⟩
        have hlen : r.results.length = c.results.length + 1 := by
          rw [settle_length hs]; simp
        simp only
        split
        · refine ⟨rfl, ?_⟩
          simp only [beginExec, lenAt, getElem?_updCopy_eq, hc, Option.map_some, List.length_append,
            List.length_cons, List.length_nil]
        · refine ⟨rfl, ?_⟩
          simp only [lenAt, getElem?_updCopy_eq, hc, Option.map_some, List.length_append, List.length_drop, hlen]
          congr 1; omega

theorem step_preInv (s : St) (ev : Event) (h : PreInv s) : PreInv (step s ev).1 := by
  have hst := preStatics_step s ev
  have hl := lenMono_step s ev
  cases ev with
  | start i =>
    refine h.mono ?_ hst hl
    simp only [step, start]
    cases hc : s.copies[i]? with
    | none => rfl
    | some c => simp only; split <;> rfl
  | finish j o =>
    refine h.mono ?_ hst hl
    simp only [step, finish]
    cases hp : s.pending[j]? with
    | none => rfl
    | some e =>
      simp only
      cases hc : s.copies[e.copy]? with
      | none => rfl
      | some c =>
        simp only
        cases hs : settle c.results s.job e.name e.uid o with
        | error err => rfl
        | ok r => rfl
  | replay i prev =>
    refine h.mono ?_ hst hl
    simp only [step, replayStep]
    cases hc : s.copies[i]? with
    | none => rfl
    | some c => simp only; split <;> rfl
  | create i o =>
    simp only [step] at hst hl ⊢
    rcases createStep_spec s i o with hp | ⟨c, hc, hp, hlen⟩
    · exact h.mono hp hst hl
    · refine ⟨?_, ?_⟩
      · intro e he
        rw [hp] at he
        rcases List.mem_cons.mp he with rfl | he
        · refine ⟨⟨_, hlen, Nat.lt_succ_self _⟩, c.prePfx, ?_, rfl⟩
          rw [hst]; simp only [preStatics, List.getElem?_map, hc, Option.map_some]
        · obtain ⟨⟨n, hn, hk⟩, hs⟩ := h.bound e he
          obtain ⟨n', hn', hle⟩ := hl _ _ hn
          exact ⟨⟨n', hn', by omega⟩, by rw [hst]; exact hs⟩
      · rw [hp, List.pairwise_cons]
        refine ⟨?_, h.distinct⟩
        intro a ha hcopy
        obtain ⟨⟨n, hn, hk⟩, _⟩ := h.bound a ha
        simp only at hcopy
        rw [← hcopy] at hn
        simp only [lenAt, hc, Option.map_some, Option.some.injEq] at hn
        simp only; omega

theorem run_preInv (s : St) (evs : List Event) (h : PreInv s) : PreInv (run s evs).1 := by
  induction evs generalizing s with
  | nil => exact h
  | cons e es ih => simp only [run]; exact ih _ (step_preInv s e h)

theorem preStatics_run (s : St) (evs : List Event) : preStatics (run s evs).1.copies = preStatics s.copies :=
  map_run _ (fun _ _ => rfl) s evs

/-- the pre-nodes of different copies (different workers) have different names -/
def PreNamesInj (cs : List Copy) : Prop :=
  ∀ (i j : Nat) (p q : String × String), (preStatics cs)[i]? = some p → (preStatics cs)[j]? = some q → p.1 = q.1 → i = j

theorem pre_ids_nodup_of_preInv {s : St} (h : PreInv s) (hn : PreNamesInj s.copies) :
    (s.preIssued.map (fun e => (e.name, e.uid))).Nodup := by
  rw [List.Nodup, List.pairwise_map]
  refine List.Pairwise.imp_of_mem ?_ h.distinct
  intro a b ha hb hk heq
  obtain ⟨_, p, hp, hu⟩ := h.bound a ha
  obtain ⟨_, q, hq, hv⟩ := h.bound b hb
  simp only [Prod.mk.injEq] at heq
  have hcopy : a.copy = b.copy := hn _ _ _ _ hp hq heq.1
  rw [hcopy] at hp
  rw [hp] at hq
  simp only [Option.some.injEq, Prod.mk.injEq] at hq
  rw [hu, hv, hq.2] at heq
  exact hk hcopy (uidOf_inj q heq.2)

/-! ### no pending execution has a job record yet -/

def IdIn (job : List JobRes) (n u : String) : Prop := ∃ y ∈ job, y.name = n ∧ y.uid = u

theorem warnFirst_ids (n u : String) (job : List JobRes) (x : JobRes) (hx : x ∈ warnFirst n u job) :
    IdIn job x.name x.uid := by
  induction job with
  | nil => simp [warnFirst] at hx
  | cons y ys ih =>
    unfold warnFirst at hx
    split at hx
    · rcases List.mem_cons.mp hx with rfl | hx
      · exact ⟨y, List.mem_cons_self, rfl, rfl⟩
      · exact ⟨x, List.mem_cons_of_mem _ hx, rfl, rfl⟩
    · rcases List.mem_cons.mp hx with rfl | hx
      · exact ⟨x, List.mem_cons_self, rfl, rfl⟩
      · obtain ⟨z, hz, h1, h2⟩ := ih hx
        exact ⟨z, List.mem_cons_of_mem _ hz, h1, h2⟩

theorem arrive_ids (job : List JobRes) (n u : String) (o : Outcome) (x : JobRes) (hx : x ∈ arrive job n u o) :
    IdIn job x.name x.uid ∨ (x.name = n ∧ x.uid = u) := by
  cases o with
  | never => exact Or.inl ⟨x, hx, rfl, rfl⟩
  | reported st t d =>
    simp only [arrive, List.mem_append, List.mem_singleton] at hx
    rcases hx with hx | rfl
    · exact Or.inl ⟨x, hx, rfl, rfl⟩
    · exact Or.inr ⟨rfl, rfl⟩

theorem record_ids {results : List Result} {job : List JobRes} {n u : String} {y : JobRes} {r : Settled}
    (h : record results job n u y = .ok r) (x : JobRes) (hx : x ∈ r.job) : IdIn job x.name x.uid := by
  unfold record at h
  simp only at h
  split at h
  · cases h
    simp only at hx
    split at hx
    · exact warnFirst_ids _ _ _ _ hx
    · exact ⟨x, hx, rfl, rfl⟩
  · cases h

/-- the job records after the polling part carry identifiers of earlier records or of this very execution -/
theorem settle_ids {results : List Result} {job : List JobRes} {n u : String} {o : Outcome} {r : Settled}
    (h : settle results job n u o = .ok r) (x : JobRes) (hx : x ∈ r.job) :
    IdIn job x.name x.uid ∨ (x.name = n ∧ x.uid = u) := by
  have lift : ∀ {j : List JobRes} {a b : String}, IdIn (arrive job n u o) a b →
      IdIn job a b ∨ (a = n ∧ b = u) := by
    intro j a b ⟨y, hy, h1, h2⟩
    rcases arrive_ids job n u o y hy with ⟨z, hz, h3, h4⟩ | ⟨h3, h4⟩
    · exact Or.inl ⟨z, hz, h3.trans h1, h4.trans h2⟩
    · exact Or.inr ⟨h1 ▸ h3, h2 ▸ h4⟩
  unfold settle at h
  simp only at h
  split at h
  · rename_i y hy
    by_cases hd : (o.delay == 0) = true
    · simp only [hd, if_true] at h
      cases hr : record results (arrive job n u o) n u y with
      | error e => rw [hr] at h; cases h
      | ok r0 =>
        rw [hr] at h; simp only [Except.map] at h; cases h
        exact lift (j := job) (record_ids hr x hx)
    · simp only [hd, Bool.false_eq_true, if_false] at h
      cases hr : record results job n u y with
      | error e => rw [hr] at h; cases h
      | ok r0 =>
        rw [hr] at h; simp only [Except.map] at h; cases h
        simp only at hx
        rcases arrive_ids r0.job n u o x hx with ⟨z, hz, h1, h2⟩ | h'
        · obtain ⟨w, hw, h3, h4⟩ := record_ids hr z hz
          exact Or.inl ⟨w, hw, h3.trans h1, h4.trans h2⟩
        · exact Or.inr h'
  · split at h
    · split at h
      · exact lift (j := job) (record_ids h x hx)
      · cases h; exact arrive_ids job n u o x hx
    · cases h; exact arrive_ids job n u o x hx

def copyNames (cs : List Copy) : List String := cs.map (fun c => c.name)
def preNames (cs : List Copy) : List String := cs.map (fun c => c.preName)
/-- the pre-nodes are named differently from the nodes of the class -/
def PreSep (cs : List Copy) : Prop := ∀ p ∈ preNames cs, p ∉ copyNames cs

structure ReadInv (s : St) : Prop where
  count : CountInv s
  pendIssued : ∀ e ∈ s.pending, e ∈ s.issued
  pendK : s.pending.Pairwise (fun a b => a.k ≠ b.k)
  jobIds : ∀ x ∈ s.job, (∃ e ∈ s.issued, e.name = x.name ∧ e.uid = x.uid) ∨ x.name ∈ preNames s.copies
  pendFresh : ∀ e ∈ s.pending, ¬ IdIn s.job e.name e.uid

theorem issued_name_mem {s : St} (h : CountInv s) {e : Exec} (he : e ∈ s.issued) : e.name ∈ copyNames s.copies := by
  obtain ⟨p, hp, _⟩ := h.issuedStatic e he
  simp only [statics, List.mem_map] at hp
  obtain ⟨c, hc, heq⟩ := hp
  simp only [Prod.mk.injEq] at heq
  exact List.mem_map.mpr ⟨c, hc, heq.1⟩

theorem beginExec_readInv (s : St) (i : Nat) (c : Copy) (hc : s.copies[i]? = some c)
    (hcl : ClassOK s.copies) (hsep : PreSep s.copies) (h : ReadInv s) : ReadInv (beginExec s i c).1 := by
  have hcount := beginExec_countInv s i c hc h.count
  have hpre : preNames (beginExec s i c).1.copies = preNames s.copies := map_updCopy _ _ _ _ (fun _ => rfl)
  have hnod := ids_nodup_of_countInv hcount (by unfold ClassOK; rw [statics_beginExec]; exact hcl)
  refine ⟨hcount, ?_, ?_, ?_, ?_⟩
  · intro e he
    simp only [beginExec, List.mem_append, List.mem_singleton] at he
    simp only [beginExec, List.mem_cons]
    rcases he with he | rfl
    · exact Or.inr (h.pendIssued e he)
    · exact Or.inl rfl
  · simp only [beginExec]
    refine List.pairwise_append.mpr ⟨h.pendK, List.pairwise_singleton _ _, ?_⟩
    intro a ha b hb
    rw [List.mem_singleton] at hb; subst hb
    have := h.count.kLt a (h.pendIssued a ha)
    simp only; omega
  · intro x hx
    rw [hpre]
    rcases h.jobIds x hx with ⟨e, he, h1, h2⟩ | hp
    · exact Or.inl ⟨e, by simp only [beginExec, List.mem_cons]; exact Or.inr he, h1, h2⟩
    · exact Or.inr hp
  · intro e he
    simp only [beginExec, List.mem_append, List.mem_singleton] at he
    rcases he with he | rfl
    · exact h.pendFresh e he
    · rintro ⟨y, hy, h1, h2⟩
      simp only [beginExec] at hy
      rcases h.jobIds y hy with ⟨e0, he0, h3, h4⟩ | hp
      · simp only [beginExec, List.map_cons, List.nodup_cons] at hnod
        apply hnod.1
        exact List.mem_map.mpr ⟨e0, he0, by rw [h3, h4, h1, h2]⟩
      · apply hsep _ hp
        rw [h1]
        exact List.mem_map.mpr ⟨c, List.mem_of_getElem? hc, rfl⟩

theorem ids_ne_of_k_ne {s : St} (h : CountInv s) (hcl : ClassOK s.copies) {a b : Exec} (ha : a ∈ s.issued)
    (hb : b ∈ s.issued) (hk : a.k ≠ b.k) : ¬ (a.name = b.name ∧ a.uid = b.uid) := by
  intro ⟨hn, hu⟩
  obtain ⟨p, hp, hpu⟩ := h.issuedStatic a ha
  obtain ⟨q, hq, hqu⟩ := h.issuedStatic b hb
  have hpq : p = q := hcl _ hp _ hq hn
  subst hpq
  rw [hpu, hqu] at hu
  exact hk (uidOf_inj p hu)

theorem pairwise_getElem?_ne {α : Type} {R : α → α → Prop} (hsym : ∀ a b, R a b → R b a) {l : List α}
    (h : l.Pairwise R) {i j : Nat} {a b : α} (hi : l[i]? = some a) (hj : l[j]? = some b) (hne : i ≠ j) : R a b := by
  obtain ⟨hi', rfl⟩ := List.getElem?_eq_some_iff.mp hi
  obtain ⟨hj', rfl⟩ := List.getElem?_eq_some_iff.mp hj
  rw [List.pairwise_iff_getElem] at h
  rcases Nat.lt_or_gt_of_ne hne with hlt | hgt
  · exact h i j hi' hj' hlt
  · exact hsym _ _ (h j i hj' hi' hgt)

theorem ReadInv.mono {s s' : St} (h : ReadInv s) (hc : CountInv s') (hi : s'.issued = s.issued)
    (hp : s'.pending = s.pending) (hj : s'.job = s.job) (hn : preNames s'.copies = preNames s.copies) : ReadInv s' := by
  refine ⟨hc, ?_, ?_, ?_, ?_⟩
  · rw [hp, hi]; exact h.pendIssued
  · rw [hp]; exact h.pendK
  · rw [hj, hi, hn]; exact h.jobIds
  · rw [hp, hj]; exact h.pendFresh

theorem preNames_step (s : St) (ev : Event) : preNames (step s ev).1.copies = preNames s.copies :=
  map_step _ (fun _ _ => rfl) s ev

theorem copyNames_step (s : St) (ev : Event) : copyNames (step s ev).1.copies = copyNames s.copies :=
  map_step _ (fun _ _ => rfl) s ev

theorem step_readInv (s : St) (ev : Event) (hcl : ClassOK s.copies) (hsep : PreSep s.copies) (h : ReadInv s) :
    ReadInv (step s ev).1 := by
  have hcount := step_countInv s ev h.count
  have hpn := preNames_step s ev
  cases ev with
  | start i =>
    simp only [step, start] at hcount hpn ⊢
    cases hc : s.copies[i]? with
    | none => exact h
    | some c =>
      simp only
      split
      · exact h
      · exact beginExec_readInv s i c hc hcl hsep h
  | replay i prev =>
    simp only [step, replayStep] at hcount hpn ⊢
    cases hc : s.copies[i]? with
    | none => exact h
    | some c =>
      simp only [hc] at hcount hpn ⊢
      split
      · rename_i he; simp only [he, if_true] at hcount hpn
        exact h.mono hcount rfl rfl rfl hpn
      · exact h
  | finish j o =>
    simp only [step, finish] at hcount hpn ⊢
    cases hp : s.pending[j]? with
    | none => exact h
    | some e =>
      simp only [hp] at hcount hpn ⊢
      cases hc : s.copies[e.copy]? with
      | none => exact h
      | some c =>
        simp only [hc] at hcount hpn ⊢
        cases hs : settle c.results s.job e.name e.uid o with
        | error err => exact h
        | ok r =>
          simp only [hs] at hcount hpn ⊢
          have he : e ∈ s.pending := List.mem_of_getElem? hp
          refine ⟨hcount, ?_, ?_, ?_, ?_⟩
          · intro e' he'; exact h.pendIssued e' (List.mem_of_mem_eraseIdx he')
          · exact List.Pairwise.sublist (List.eraseIdx_sublist _ _) h.pendK
          · intro x hx
            simp only at hx
            rw [hpn]
            rcases settle_ids hs x hx with ⟨y, hy, h1, h2⟩ | ⟨h1, h2⟩
            · rcases h.jobIds y hy with ⟨e0, he0, h3, h4⟩ | hp'
              · exact Or.inl ⟨e0, he0, h3.trans h1, h4.trans h2⟩
              · exact Or.inr (h1 ▸ hp')
            · exact Or.inl ⟨e, h.pendIssued e he, h1.symm, h2.symm⟩
          · intro e' he' ⟨y, hy, h1, h2⟩
            simp only at hy
            have he'p : e' ∈ s.pending := List.mem_of_mem_eraseIdx he'
            rcases settle_ids hs y hy with ⟨z, hz, h3, h4⟩ | ⟨h3, h4⟩
            · exact h.pendFresh e' he'p ⟨z, hz, h3.trans h1, h4.trans h2⟩
            · obtain ⟨i, hij, hi⟩ := List.mem_eraseIdx_iff_getElem?.mp he'
              have hk : e'.k ≠ e.k := pairwise_getElem?_ne (fun _ _ hab => Ne.symm hab) h.pendK hi hp hij
              exact ids_ne_of_k_ne h.count hcl (h.pendIssued e' he'p) (h.pendIssued e he) hk
                ⟨h1.symm.trans h3, h2.symm.trans h4⟩
  | create i o =>
    simp only [step, createStep] at hcount hpn ⊢
    cases hc : s.copies[i]? with
    | none => exact h
    | some c =>
      simp only [hc] at hcount hpn ⊢
      split
      · exact h
      · rename_i hbusy
        simp only [hbusy, Bool.false_eq_true, if_false] at hcount hpn
        cases hs : settle (c.results ++ [unknownOf c.preName]) s.job c.preName (uidOf c.prePfx c.results.length) o with
        | error err => exact h
        | ok r =>
          simp only [hs] at hcount hpn ⊢
          have hcmem : c ∈ s.copies := List.mem_of_getElem? hc
          -- the state after the pre-step alone
          have h1 : ReadInv ({ s with job := r.job, preIssued := (⟨i, c.results.length, c.preName,
              uidOf c.prePfx c.results.length⟩ : Exec) :: s.preIssued } : St) := by
            refine ⟨h.count.mono rfl rfl (Nat.le_refl _), h.pendIssued, h.pendK, ?_, ?_⟩
            · intro x hx
              simp only at hx
              rcases settle_ids hs x hx with ⟨y, hy, h1, h2⟩ | ⟨h1, _⟩
              · rcases h.jobIds y hy with ⟨e0, he0, h3, h4⟩ | hp'
                · exact Or.inl ⟨e0, he0, h3.trans h1, h4.trans h2⟩
                · exact Or.inr (h1 ▸ hp')
              · exact Or.inr (by rw [h1]; exact List.mem_map.mpr ⟨c, hcmem, rfl⟩)
            · intro e' he' ⟨y, hy, h1, h2⟩
              simp only at hy
              rcases settle_ids hs y hy with ⟨z, hz, h3, h4⟩ | ⟨h3, _⟩
              · exact h.pendFresh e' he' ⟨z, hz, h3.trans h1, h4.trans h2⟩
              · apply hsep c.preName (List.mem_map.mpr ⟨c, hcmem, rfl⟩)
                rw [← h3, h1]
                exact issued_name_mem h.count (h.pendIssued e' he')
          split
          · exact beginExec_readInv _ i c hc hcl hsep h1
          · rename_i hst; simp only [hst, Bool.false_eq_true, if_false] at hcount hpn
            exact h1.mono hcount rfl rfl rfl hpn

theorem run_readInv (s : St) (evs : List Event) (hcl : ClassOK s.copies) (hsep : PreSep s.copies) (h : ReadInv s) :
    ReadInv (run s evs).1 := by
  induction evs generalizing s with
  | nil => exact h
  | cons e es ih =>
    simp only [run]
    refine ih _ ?_ ?_ (step_readInv s e hcl hsep h)
    · unfold ClassOK; rw [statics_step]; exact hcl
    · unfold PreSep; rw [preNames_step, copyNames_step]; exact hsep

end I2N.Lemmas.Rules
