import I2N.Model.Transfer
/-!
Helper lemmas and spec predicates for C14 (core Lean only).
  * file-system primitives (`write`, `copy`, `unlink`, `symlink`)
  * the inductive invariant of the lock protocol
  * the declarative reading of the monitor state (`holdsR`)
-/
namespace I2N.Transfer

/-! ## File system -/

@[simp] theorem write_same (fs : FS) (p : Path) (n : Node) : write fs p n p = n := by
  simp [write]

theorem write_other (fs : FS) (p q : Path) (n : Node) (h : q ≠ p) : write fs p n q = fs q := by
  simp [write, h]

theorem resolve_of_not_link {fs : FS} {p : Path} (h : islink fs p = false) : resolve fs p = p := by
  unfold islink at h; unfold resolve; split <;> simp_all

theorem resolve_of_link {fs : FS} {p t : Path} (h : fs p = .link t) : resolve fs p = t := by
  unfold resolve; simp [h]

theorem islink_iff {fs : FS} {p : Path} : islink fs p = true ↔ ∃ t, fs p = .link t := by
  unfold islink; split <;> simp_all

theorem copy_ok {fs fs' : FS} {src dst : Path} (h : copy fs src dst = .ok fs') :
    ∃ d, read fs src = some d ∧ resolve fs src ≠ resolve fs dst ∧ fs' = write fs (resolve fs dst) (.file d) := by
  unfold copy at h
  split at h
  · cases h
  · rename_i d hd
    split at h
    · cases h
    · rename_i hne
      refine ⟨d, hd, hne, ?_⟩
      cases h; rfl

theorem unlink_ok {fs fs' : FS} {p : Path} (h : unlink fs p = .ok fs') :
    fs p ≠ .absent ∧ fs' = write fs p .absent := by
  unfold unlink at h
  split at h
  · cases h
  · rename_i hne
    refine ⟨fun h' => hne h', ?_⟩
    cases h; rfl

theorem symlink_ok {fs fs' : FS} {t p : Path} (h : symlink fs t p = .ok fs') :
    fs p = .absent ∧ fs' = write fs p (.link t) := by
  unfold symlink at h
  split at h
  · rename_i ha
    refine ⟨ha, ?_⟩
    cases h; rfl
  · cases h

/-- reading a path after a file was written where `dst` resolves to -/
theorem read_after_write_dst (fs : FS) (dst : Path) (d : Data) :
    read (write fs (resolve fs dst) (.file d)) dst = some d := by
  by_cases hl : islink fs dst = true
  · obtain ⟨t, ht⟩ := islink_iff.mp hl
    have hr : resolve fs dst = t := resolve_of_link ht
    rw [hr]
    by_cases hdt : dst = t
    · subst hdt
      simp [read, resolve, write]
    · have h1 : write fs t (.file d) dst = .link t := by rw [write_other _ _ _ _ hdt]; exact ht
      simp [read, resolve, h1]
  · have hl' : islink fs dst = false := by simpa using hl
    rw [resolve_of_not_link hl']
    simp [read, resolve, write]

/-- reading a path that neither is nor resolves to the written one is unaffected -/
theorem read_after_write_other (fs : FS) (w q : Path) (n : Node)
    (h1 : q ≠ w) (h2 : resolve fs q ≠ w) : read (write fs w n) q = read fs q := by
  have hq : write fs w n q = fs q := write_other _ _ _ _ h1
  have hr : resolve (write fs w n) q = resolve fs q := by unfold resolve; rw [hq]
  unfold read
  rw [hr, write_other _ _ _ _ h2]

/-! ## Lock protocol: the inductive invariant -/

/-- whoever is inside a critical section owns the lock of its pool path -/
def InvCS (jobs : Nat → Job) (s : State) : Prop :=
  ∀ p i, s.pc p = .inCS i → s.owner (jobs p).pool = some p

/-- a lock cell is only ever owned by a live process that is inside its critical section on that path -/
def InvOwner (jobs : Nat → Job) (s : State) : Prop :=
  ∀ path p, s.owner path = some p → (∃ i, s.pc p = .inCS i) ∧ (jobs p).pool = path

def Inv (jobs : Nat → Job) (s : State) : Prop := InvCS jobs s ∧ InvOwner jobs s

theorem inv_init (jobs : Nat → Job) (fs : FS) : Inv jobs (State.init fs) := by
  constructor
  · intro p i h; simp [State.init] at h
  · intro path p h; simp [State.init] at h

theorem setPc_same (s : State) (p : Nat) (c : PC) : setPc s p c p = c := by simp [setPc]
theorem setPc_other (s : State) (p q : Nat) (c : PC) (h : q ≠ p) : setPc s p c q = s.pc q := by
  simp [setPc, h]
theorem setOwner_same (s : State) (x : Path) (o : Option Nat) : setOwner s x o x = o := by simp [setOwner]
theorem setOwner_other (s : State) (x y : Path) (o : Option Nat) (h : y ≠ x) :
    setOwner s x o y = s.owner y := by simp [setOwner, h]

/-- a process that is not inside its critical section only changes its own program counter -/
theorem inv_setPc_outside {jobs : Nat → Job} {s : State} (hinv : Inv jobs s) (p : Nat) (c : PC)
    (hnot : ∀ i, s.pc p ≠ .inCS i) (hc : ∀ i, c ≠ .inCS i) (fs : FS) (hist : List Event) :
    Inv jobs { s with pc := setPc s p c, fs := fs, hist := hist } := by
  obtain ⟨h1, h2⟩ := hinv
  constructor
  · intro q i hq
    by_cases hqp : q = p
    · subst hqp; simp [setPc] at hq; exact absurd hq (hc i)
    · simp [setPc, hqp] at hq; exact h1 q i hq
  · intro path q hq
    have := h2 path q hq
    obtain ⟨⟨i, hi⟩, hp⟩ := this
    refine ⟨⟨i, ?_⟩, hp⟩
    by_cases hqp : q = p
    · subst hqp; exact absurd hi (hnot i)
    · simp [setPc, hqp]; exact hi

/-- a process inside its critical section stays inside (another step of the body) -/
theorem inv_step_inside {jobs : Nat → Job} {s : State} (hinv : Inv jobs s) (p i i' : Nat)
    (hp : s.pc p = .inCS i) (fs : FS) (hist : List Event) :
    Inv jobs { s with pc := setPc s p (.inCS i'), fs := fs, hist := hist } := by
  obtain ⟨h1, h2⟩ := hinv
  constructor
  · intro q k hq
    by_cases hqp : q = p
    · subst hqp; exact h1 q i hp
    · simp [setPc, hqp] at hq; exact h1 q k hq
  · intro path q hq
    obtain ⟨⟨k, hk⟩, hpath⟩ := h2 path q hq
    refine ⟨?_, hpath⟩
    by_cases hqp : q = p
    · subst hqp; exact ⟨i', by simp [setPc]⟩
    · exact ⟨k, by simp [setPc, hqp]; exact hk⟩

/-- leaving the critical section in any way clears the lock cell and keeps the invariant -/
theorem inv_release {jobs : Nat → Job} {s : State} (hinv : Inv jobs s) (p i : Nat)
    (hp : s.pc p = .inCS i) (c : PC) (hc : ∀ k, c ≠ .inCS k) (e : Event) :
    Inv jobs (release s p (jobs p).pool c e) := by
  obtain ⟨h1, h2⟩ := hinv
  have hown : s.owner (jobs p).pool = some p := h1 p i hp
  constructor
  · intro q k hq
    by_cases hqp : q = p
    · subst hqp; simp [release, setPc] at hq; exact absurd hq (hc k)
    · simp [release, setPc, hqp] at hq
      have hq' := h1 q k hq
      have hne : (jobs q).pool ≠ (jobs p).pool := by
        intro heq
        rw [heq, hown] at hq'
        exact hqp (Option.some.inj hq').symm
      simp [release, setOwner, hne]; exact hq'
  · intro path q hq
    by_cases hpath : path = (jobs p).pool
    · subst hpath; simp [release, setOwner] at hq
    · simp [release, setOwner, hpath] at hq
      obtain ⟨⟨k, hk⟩, hpq⟩ := h2 path q hq
      have hqp : q ≠ p := by
        intro heq; subst heq; exact hpath hpq.symm
      exact ⟨⟨k, by simp [release, setPc, hqp]; exact hk⟩, hpq⟩

/-- taking a free lock keeps the invariant -/
theorem inv_acquire {jobs : Nat → Job} {s : State} (hinv : Inv jobs s) (p : Nat)
    (hnot : ∀ i, s.pc p ≠ .inCS i) (hfree : s.owner (jobs p).pool = none) (hist : List Event) :
    Inv jobs { s with pc := setPc s p (.inCS 0), owner := setOwner s (jobs p).pool (some p), hist := hist } := by
  obtain ⟨h1, h2⟩ := hinv
  constructor
  · intro q k hq
    by_cases hqp : q = p
    · subst hqp; simp [setOwner]
    · simp [setPc, hqp] at hq
      have hq' := h1 q k hq
      have hne : (jobs q).pool ≠ (jobs p).pool := by
        intro heq; rw [heq, hfree] at hq'; cases hq'
      simp [setOwner, hne]; exact hq'
  · intro path q hq
    by_cases hpath : path = (jobs p).pool
    · subst hpath
      simp [setOwner] at hq
      subst hq
      exact ⟨⟨0, by simp [setPc]⟩, rfl⟩
    · simp [setOwner, hpath] at hq
      obtain ⟨⟨k, hk⟩, hpq⟩ := h2 path q hq
      have hqp : q ≠ p := by
        intro heq; subst heq; exact hpath hpq.symm
      exact ⟨⟨k, by simp [setPc, hqp]; exact hk⟩, hpq⟩

theorem inv_stepAct {limit : Nat} {jobs : Nat → Job} {s s' : State} {p : Nat} {a : Act}
    (hinv : Inv jobs s) (h : stepAct limit jobs s p a = some s') : Inv jobs s' := by
  unfold stepAct at h
  split at h
  · -- start
    rename_i hpc
    have hnot : ∀ i, s.pc p ≠ .inCS i := by intro i; rw [hpc]; simp
    split at h <;> (cases h; exact inv_setPc_outside hinv p _ hnot (by intro i; simp) s.fs s.hist)
  · -- tryLock
    rename_i k hpc
    have hnot : ∀ i, s.pc p ≠ .inCS i := by intro i; rw [hpc]; simp
    split at h
    · split at h
      · rename_i hfree
        cases h
        exact inv_acquire hinv p hnot hfree _
      · cases h
        exact inv_setPc_outside hinv p _ hnot (by intro i; simp) s.fs s.hist
    · cases h
      exact inv_setPc_outside hinv p _ hnot (by intro i; simp) s.fs _
  · -- step
    rename_i i hpc
    split at h
    · split at h
      · cases h
        exact inv_step_inside hinv p i _ hpc _ _
      · cases h
        exact inv_release hinv p i hpc _ (by intro k; simp) _
    · cases h
  · -- unlock
    rename_i i hpc
    split at h
    · cases h
      exact inv_release hinv p i hpc _ (by intro k; simp) _
    · cases h
  · -- raise
    rename_i i hpc
    cases h
    exact inv_release hinv p i hpc _ (by intro k; simp) _
  · -- crash in CS
    rename_i i hpc
    cases h
    exact inv_release hinv p i hpc _ (by intro k; simp) _
  · rename_i k hpc
    have hnot : ∀ i, s.pc p ≠ .inCS i := by intro i; rw [hpc]; simp
    cases h
    exact inv_setPc_outside hinv p _ hnot (by intro i; simp) s.fs _
  · rename_i hpc
    have hnot : ∀ i, s.pc p ≠ .inCS i := by intro i; rw [hpc]; simp
    cases h
    exact inv_setPc_outside hinv p _ hnot (by intro i; simp) s.fs _
  · cases h

theorem inv_reachable {limit : Nat} {jobs : Nat → Job} {fs0 : FS} {s : State}
    (h : Reachable limit jobs fs0 s) : Inv jobs s := by
  induction h with
  | init => exact inv_init jobs fs0
  | step p a _ hstep ih => exact inv_stepAct ih hstep

/-! ## Monitor: the declarative reading of "who holds what" -/

/-- how one event changes "does `p` hold `path`" -/
def holdUpd (e : Event) (p : Nat) (path : Path) (b : Bool) : Bool :=
  if e = .acq p path then true
  else if e = .rel p path ∨ e = .crash p then false
  else b

/-- on the REVERSED prefix (newest event first), starting from `b` before the oldest event -/
def holdsRB (b : Bool) : List Event → Nat → Path → Bool
  | [], _, _ => b
  | e :: older, p, path => holdUpd e p path (holdsRB b older p path)

/-- `p` holds the lock of `path` iff the most recent of its acquire / release / death events about
    `path` is an acquire (newest event first) -/
def holdsR (r : List Event) (p : Nat) (path : Path) : Bool := holdsRB false r p path

def heldOf (h : Held) (u : List Event) : Held := u.foldl heldAfter h

theorem monitorFrom_append (h : Held) (u v : List Event) :
    monitorFrom h (u ++ v) = (monitorFrom h u && monitorFrom (heldOf h u) v) := by
  induction u generalizing h with
  | nil => simp [monitorFrom, heldOf]
  | cons e u ih => simp [monitorFrom, heldOf, ih, Bool.and_assoc]

theorem holdsBy_iff (h : Held) (p : Nat) (path : Path) : holdsBy h p path = true ↔ (p, path) ∈ h := by
  simp only [holdsBy, List.any_eq_true, Bool.and_eq_true, beq_iff_eq]
  constructor
  · rintro ⟨⟨a, b⟩, hx, h1, h2⟩
    simp only at h1 h2
    subst h1; subst h2; exact hx
  · intro hx
    exact ⟨(p, path), hx, rfl, rfl⟩

theorem holdsBy_heldAfter (h : Held) (e : Event) (p : Nat) (path : Path) :
    holdsBy (heldAfter h e) p path = holdUpd e p path (holdsBy h p path) := by
  rw [Bool.eq_iff_iff, holdsBy_iff]
  cases e with
  | acq q x =>
    simp only [heldAfter, holdUpd, List.mem_cons, Prod.mk.injEq, Event.acq.injEq, reduceCtorEq, false_or]
    by_cases hqx : q = p ∧ x = path
    · obtain ⟨h1, h2⟩ := hqx
      simp [h1, h2]
    · have h' : ¬ (p = q ∧ path = x) := fun ⟨a, b⟩ => hqx ⟨a.symm, b.symm⟩
      simp [hqx, h', holdsBy_iff]
  | rel q x =>
    simp only [heldAfter, holdUpd, List.mem_filter, Event.rel.injEq, reduceCtorEq, or_false, if_false]
    by_cases hqx : q = p ∧ x = path
    · obtain ⟨h1, h2⟩ := hqx
      simp [h1, h2]
    · have h' : ¬ (p = q ∧ path = x) := fun ⟨a, b⟩ => hqx ⟨a.symm, b.symm⟩
      simp [hqx, holdsBy_iff]
      intro _
      by_cases hp : p = q
      · right; intro hx; exact h' ⟨hp, hx⟩
      · left; exact hp
  | crash q =>
    simp only [heldAfter, holdUpd, List.mem_filter, Event.crash.injEq, reduceCtorEq, false_or, if_false]
    by_cases hq : q = p
    · simp [hq]
    · have h' : ¬ p = q := fun a => hq a.symm
      simp [hq, h', holdsBy_iff]
  | fsop q x => simp [heldAfter, holdUpd, holdsBy_iff]
  | timeout q => simp [heldAfter, holdUpd, holdsBy_iff]

theorem holdsRB_snoc (b : Bool) (r : List Event) (e : Event) (p : Nat) (path : Path) :
    holdsRB b (r ++ [e]) p path = holdsRB (holdUpd e p path b) r p path := by
  induction r with
  | nil => simp [holdsRB]
  | cons x r ih => simp [holdsRB, ih]

theorem holdsBy_heldOf_gen (u : List Event) (h : Held) (p : Nat) (path : Path) :
    holdsBy (heldOf h u) p path = holdsRB (holdsBy h p path) u.reverse p path := by
  induction u generalizing h with
  | nil => simp [heldOf, holdsRB]
  | cons e u ih =>
    have : heldOf h (e :: u) = heldOf (heldAfter h e) u := by simp [heldOf]
    rw [this, ih, List.reverse_cons, holdsRB_snoc, holdsBy_heldAfter]

theorem holdsBy_heldOf (u : List Event) (p : Nat) (path : Path) :
    holdsBy (heldOf [] u) p path = holdsR u.reverse p path := by
  rw [holdsBy_heldOf_gen]; simp [holdsR, holdsBy]

theorem holdsAny_false {h : Held} {path : Path} (hh : holdsAny h path = false) (p : Nat) :
    holdsBy h p path = false := by
  cases hb : holdsBy h p path with
  | false => rfl
  | true =>
    have hm := (holdsBy_iff h p path).mp hb
    have : holdsAny h path = true := by
      simp only [holdsAny, List.any_eq_true, beq_iff_eq]
      exact ⟨(p, path), hm, rfl⟩
    rw [hh] at this; cases this

theorem holdsSome_false {h : Held} {p : Nat} (hh : holdsSome h p = false) (path : Path) :
    holdsBy h p path = false := by
  cases hb : holdsBy h p path with
  | false => rfl
  | true =>
    have hm := (holdsBy_iff h p path).mp hb
    have : holdsSome h p = true := by
      simp only [holdsSome, List.any_eq_true, beq_iff_eq]
      exact ⟨(p, path), hm, rfl⟩
    rw [hh] at this; cases this

/-- if the newest-first history contains an acquisition by `p` that is no longer in force, a release or a
    death of `p` came after it -/
theorem released_after_acq (r1 r2 : List Event) (p : Nat) (path : Path)
    (h : holdsR (r1 ++ .acq p path :: r2) p path = false) : .rel p path ∈ r1 ∨ .crash p ∈ r1 := by
  induction r1 with
  | nil => simp [holdsR, holdsRB, holdUpd] at h
  | cons e r1 ih =>
    simp only [holdsR, List.cons_append, holdsRB, holdUpd] at h
    split at h
    · cases h
    · split at h
      · rename_i _ hor
        rcases hor with h1 | h1
        · left; simp [h1]
        · right; simp [h1]
      · rcases ih h with h1 | h1
        · left; simp [h1]
        · right; simp [h1]

/-- if `p` holds according to the newest-first history, its acquisition is in it with no release or death after -/
theorem acq_of_holdsR (r : List Event) (p : Nat) (path : Path) (h : holdsR r p path = true) :
    ∃ r1 r2, r = r1 ++ .acq p path :: r2 ∧ .rel p path ∉ r1 ∧ .crash p ∉ r1 := by
  induction r with
  | nil => simp [holdsR, holdsRB] at h
  | cons e r ih =>
    simp only [holdsR, holdsRB, holdUpd] at h
    split at h
    · rename_i he
      exact ⟨[], r, by simp [he], by simp, by simp⟩
    · split at h
      · cases h
      · rename_i hne hnor
        obtain ⟨r1, r2, hr, h1, h2⟩ := ih h
        refine ⟨e :: r1, r2, by simp [hr], ?_, ?_⟩
        · intro hm
          rcases List.mem_cons.mp hm with h' | h'
          · exact hnor (Or.inl h'.symm)
          · exact h1 h'
        · intro hm
          rcases List.mem_cons.mp hm with h' | h'
          · exact hnor (Or.inr h'.symm)
          · exact h2 h'

/-! ## The histories of the protocol machine are accepted by the monitor -/

theorem holdsAny_true {h : Held} {path : Path} (hh : holdsAny h path = true) :
    ∃ q, holdsBy h q path = true := by
  simp only [holdsAny, List.any_eq_true, beq_iff_eq] at hh
  obtain ⟨⟨q, x⟩, hm, hx⟩ := hh
  simp only at hx
  subst hx
  exact ⟨q, (holdsBy_iff h q x).mpr hm⟩

theorem holdsSome_true {h : Held} {p : Nat} (hh : holdsSome h p = true) :
    ∃ path, holdsBy h p path = true := by
  simp only [holdsSome, List.any_eq_true, beq_iff_eq] at hh
  obtain ⟨⟨q, x⟩, hm, hx⟩ := hh
  simp only at hx
  subst hx
  exact ⟨x, (holdsBy_iff h q x).mpr hm⟩

theorem mutexTrace_snoc (u : List Event) (e : Event) :
    mutexTrace (u ++ [e]) = (mutexTrace u && okEvent (heldOf [] u) e) := by
  simp [mutexTrace, monitorFrom_append, monitorFrom]

theorem heldOf_snoc (u : List Event) (e : Event) : heldOf [] (u ++ [e]) = heldAfter (heldOf [] u) e := by
  simp [heldOf]

/-- the monitor accepts the history so far and its `held` set is exactly the lock cells of the state -/
def TraceInv (s : State) : Prop :=
  mutexTrace s.hist.reverse = true ∧
  ∀ p path, holdsBy (heldOf [] s.hist.reverse) p path = true ↔ s.owner path = some p

theorem traceInv_push {s : State} (ht : TraceInv s) (e : Event) (pc' : Nat → PC) (owner' : Path → Option Nat)
    (fs' : FS) (hok : okEvent (heldOf [] s.hist.reverse) e = true)
    (hiff : ∀ p path, holdUpd e p path (holdsBy (heldOf [] s.hist.reverse) p path) = true ↔ owner' path = some p) :
    TraceInv { pc := pc', owner := owner', fs := fs', hist := e :: s.hist } := by
  obtain ⟨h1, _⟩ := ht
  constructor
  · simp only [List.reverse_cons]
    rw [mutexTrace_snoc, h1, hok]; rfl
  · intro p path
    simp only [List.reverse_cons]
    rw [heldOf_snoc, holdsBy_heldAfter]
    exact hiff p path

theorem traceInv_keep {s : State} (ht : TraceInv s) (pc' : Nat → PC) (fs' : FS) :
    TraceInv { pc := pc', owner := s.owner, fs := fs', hist := s.hist } := ht

theorem holdUpd_true_iff (e : Event) (p : Nat) (path : Path) (b : Bool) :
    holdUpd e p path b = true ↔ (e = .acq p path ∨ (¬ (e = .rel p path ∨ e = .crash p) ∧ b = true)) := by
  unfold holdUpd
  split
  · simp_all
  · split <;> simp_all

theorem traceInv_release {jobs : Nat → Job} {s : State} (hinv : Inv jobs s) (ht : TraceInv s) (p i : Nat)
    (hp : s.pc p = .inCS i) (c : PC) (e : Event) (he : e = .rel p (jobs p).pool ∨ e = .crash p) :
    TraceInv (release s p (jobs p).pool c e) := by
  obtain ⟨h1, h2⟩ := hinv
  have hown : s.owner (jobs p).pool = some p := h1 p i hp
  have hheld := (ht.2 p (jobs p).pool).mpr hown
  unfold release
  apply traceInv_push ht
  · rcases he with he | he <;> subst he <;> simp [okEvent, hheld]
  · intro q x
    rw [holdUpd_true_iff, ht.2 q x]
    have hpool : ∀ y, s.owner y = some p → y = (jobs p).pool := fun y hy => (h2 y p hy).2.symm
    by_cases hx : x = (jobs p).pool
    · subst hx
      simp only [setOwner, if_true]
      constructor
      · rintro (h' | ⟨hn, h'⟩)
        · rcases he with he | he <;> subst he <;> cases h'
        · rw [hown] at h'
          have hq : p = q := Option.some.inj h'
          subst hq
          rcases he with he | he <;> subst he
          · exact absurd (Or.inl rfl) hn
          · exact absurd (Or.inr rfl) hn
      · intro h'; cases h'
    · simp only [setOwner, hx, if_false]
      constructor
      · rintro (h' | ⟨_, h'⟩)
        · rcases he with he | he <;> subst he <;> cases h'
        · exact h'
      · intro h'
        right
        refine ⟨?_, h'⟩
        have hqp : q ≠ p := by
          intro heq; subst heq; exact hx (hpool x h')
        rcases he with he | he <;> subst he
        · rintro (h'' | h'')
          · injection h'' with a b; exact hqp a.symm
          · cases h''
        · rintro (h'' | h'')
          · cases h''
          · injection h'' with a; exact hqp a.symm

theorem traceInv_crash_outside {jobs : Nat → Job} {s : State} (hinv : Inv jobs s) (ht : TraceInv s) (p : Nat)
    (hnot : ∀ i, s.pc p ≠ .inCS i) (pc' : Nat → PC) :
    TraceInv { s with pc := pc', hist := .crash p :: s.hist } := by
  apply traceInv_push ht
  · simp [okEvent]
  · intro q x
    rw [holdUpd_true_iff, ht.2 q x]
    constructor
    · rintro (h' | ⟨_, h'⟩)
      · cases h'
      · exact h'
    · intro h'
      right
      refine ⟨?_, h'⟩
      rintro (h'' | h'')
      · cases h''
      · injection h'' with a
        subst a
        obtain ⟨⟨i, hi⟩, _⟩ := hinv.2 x p h'
        exact absurd hi (hnot i)

theorem traceInv_stepAct {limit : Nat} {jobs : Nat → Job} {s s' : State} {p : Nat} {a : Act}
    (hinv : Inv jobs s) (ht : TraceInv s) (h : stepAct limit jobs s p a = some s') : TraceInv s' := by
  unfold stepAct at h
  split at h
  · split at h <;> (cases h; exact traceInv_keep ht _ _)
  · rename_i k hpc
    have hnot : ∀ i, s.pc p ≠ .inCS i := by intro i; rw [hpc]; simp
    split at h
    · split at h
      · rename_i hfree
        cases h
        apply traceInv_push ht
        · simp only [okEvent, Bool.not_eq_true']
          cases hany : holdsAny (heldOf [] s.hist.reverse) (jobs p).pool with
          | false => rfl
          | true =>
            obtain ⟨q, hq⟩ := holdsAny_true hany
            rw [ht.2 q _, hfree] at hq; cases hq
        · intro q x
          rw [holdUpd_true_iff, ht.2 q x]
          by_cases hx : x = (jobs p).pool
          · subst hx
            simp only [setOwner, if_true]
            constructor
            · rintro (h' | ⟨_, h'⟩)
              · injection h' with a b; rw [a]
              · rw [hfree] at h'; cases h'
            · intro h'
              left
              have := Option.some.inj h'
              rw [this]
          · simp only [setOwner, hx, if_false]
            constructor
            · rintro (h' | ⟨_, h'⟩)
              · injection h' with a b; exact absurd b.symm hx
              · exact h'
            · intro h'
              right
              refine ⟨?_, h'⟩
              rintro (h'' | h'') <;> cases h''
      · cases h; exact traceInv_keep ht _ _
    · cases h
      apply traceInv_push ht
      · simp only [okEvent, Bool.not_eq_true']
        cases hany : holdsSome (heldOf [] s.hist.reverse) p with
        | false => rfl
        | true =>
          obtain ⟨x, hx⟩ := holdsSome_true hany
          rw [ht.2 p x] at hx
          obtain ⟨⟨i, hi⟩, _⟩ := hinv.2 x p hx
          exact absurd hi (hnot i)
      · intro q x
        rw [holdUpd_true_iff, ht.2 q x]
        constructor
        · rintro (h' | ⟨_, h'⟩)
          · cases h'
          · exact h'
        · intro h'
          exact Or.inr ⟨(by rintro (h'' | h'') <;> cases h''), h'⟩
  · rename_i i hpc
    split at h
    · split at h
      · cases h
        apply traceInv_push ht
        · simp only [okEvent]
          exact (ht.2 p _).mpr (hinv.1 p i hpc)
        · intro q x
          rw [holdUpd_true_iff, ht.2 q x]
          constructor
          · rintro (h' | ⟨_, h'⟩)
            · cases h'
            · exact h'
          · intro h'
            exact Or.inr ⟨(by rintro (h'' | h'') <;> cases h''), h'⟩
      · cases h
        exact traceInv_release hinv ht p i hpc _ _ (Or.inl rfl)
    · cases h
  · rename_i i hpc
    split at h
    · cases h; exact traceInv_release hinv ht p i hpc _ _ (Or.inl rfl)
    · cases h
  · rename_i i hpc
    cases h; exact traceInv_release hinv ht p i hpc _ _ (Or.inl rfl)
  · rename_i i hpc
    cases h; exact traceInv_release hinv ht p i hpc _ _ (Or.inr rfl)
  · rename_i k hpc
    have hnot : ∀ i, s.pc p ≠ .inCS i := by intro i; rw [hpc]; simp
    cases h; exact traceInv_crash_outside hinv ht p hnot _
  · rename_i hpc
    have hnot : ∀ i, s.pc p ≠ .inCS i := by intro i; rw [hpc]; simp
    cases h; exact traceInv_crash_outside hinv ht p hnot _
  · cases h

theorem traceInv_reachable {limit : Nat} {jobs : Nat → Job} {fs0 : FS} {s : State}
    (h : Reachable limit jobs fs0 s) : TraceInv s := by
  induction h with
  | init =>
    constructor
    · simp [State.init, mutexTrace, monitorFrom]
    · intro p path; simp [State.init, heldOf, holdsBy]
  | step p a hr hstep ih => exact traceInv_stepAct (inv_reachable hr) ih hstep

end I2N.Transfer
