import I2N.Lemmas.PolicyGenPush
/-! Equality of the regenerated `_state_check_chain` (one definition per value of its parameter `do`) with the atom
`chainM` the generated `get_states` / `set_states` / `unset_states` iterations call: same result, same dictionary
(`state_params` is rewritten in place and the caller goes on reading it), same store and backend calls. -/
set_option linter.unusedSimpArgs false
set_option linter.unusedVariables false
namespace I2N.PolicyGen
open I2N.Policy I2N.PolicyM I2N.Extracted.Policy I2N.Extracted.GenPolicy

theorem lit_get_set : ("get" == "set") = false := by decide
theorem lit_set_set : ("set" == "set") = true := by decide
theorem lit_unset_set : ("unset" == "set") = false := by decide

/-- the restriction written with the translator's splitter -/
theorem restrictWith_def (ty name : String) (sp : Params) :
    (List.foldl (fun acc tn => acc.set tn.1 tn.2) sp ((pySplitChar '/' ty).zip (pySplitChar '/' name))).set
      "states_chain" ((pySplitChar '/' ty).getLast?.getD "") = restrictWith ty name sp := by
  simp only [restrictWith, splitSlash, pySplitChar]

theorem M.bindF_pure {α : Type} (r : Except Err α × PS) : M.bindF r (fun a => (pure a : M α)) = r := by
  rcases r with ⟨e | a, s⟩ <;> rfl

set_option hygiene false in
local macro "chain_tac" lk:str : tactic => `(tactic| (
  obtain ⟨sp, rp, st⟩ := s
  simp only [chainM, chainParamsWith, midP, Do.stateKey, Do.locKey, reduceCtorEq, if_true, if_false]
  rcases ht : (sp.set "check_state" _).truthy $lk with _ | l
  · m_simp [ht, lit_get_set, lit_set_set, lit_unset_set, checkStatesM, restrictWith_def]
    exact M.bindF_pure _
  · m_simp [ht, lit_get_set, lit_set_set, lit_unset_set, checkStatesM, restrictWith_def, truthy_getD ht]
    exact M.bindF_pure _))

theorem chainGet_eq (B : Backends) (ty name : String) (s : PS) :
    (genChainGet B ty name).run s = chainM B .get ty name s := by
  rw [M.run_ap]
  unfold genChainGet
  chain_tac "get_location"

theorem chainSet_eq (B : Backends) (ty name : String) (s : PS) :
    (genChainSet B ty name).run s = chainM B .set ty name s := by
  rw [M.run_ap]
  unfold genChainSet
  chain_tac "set_location"

theorem chainUnset_eq (B : Backends) (ty name : String) (s : PS) :
    (genChainUnset B ty name).run s = chainM B .unset ty name s := by
  rw [M.run_ap]
  unfold genChainUnset
  chain_tac "unset_location"

/-- with the type and the name of the dictionary itself (what all callers pass) the rewriting is the hand model's
`chainParams` -/
theorem chainParamsWith_self (d : Do) (sp : Params) :
    chainParamsWith d (sp.getD "object_type" "") (sp.getD "object_name" "") sp = chainParams d sp := by
  unfold chainParamsWith
  rw [chainParams_mid]
  unfold restrict restrictWith typeOf
  rw [midP_getD _ _ _ _ (by decide), midP_getD _ _ _ _ (by decide)]

end I2N.PolicyGen
