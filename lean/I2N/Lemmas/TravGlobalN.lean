import I2N.Lemmas.TravGlobal
/-!
Progress ACROSS suspensions for ANY number of workers (property C02).

`Lemmas/TravGlobal.lean` treats one worker.  With several workers a run can be arbitrarily long — a worker may sleep at an
occupied node as long as the holder keeps running — but that is the ONLY way:

1. `cntN = 24·(number of results) + Σ_workers q(pc)` (`q` = the wait counter inside a test, 12 in the loop or the back-off
   sleep, 13 once over) never falls, and strictly grows with every step of a worker that is inside a test, and with every
   step of a worker in the loop / waking up from a back-off sleep that does not end in a back-off sleep again
   (`resume_shape`, `run_cntN`).  The number of results is bounded by the retry budgets of C03 for every number of workers
   (`total_le_resultBoundN`: the copy with results is seen by the worker that cares for it), as long as no
   `max_concurrent_tries` is bumped.  Hence the number of such "productive" steps of a whole run is at most
   `24·resultBound g + |workers|` (`productive_le`).
2. A worker whose step ends in the back-off sleep has seen a `started` mark, which belongs to ANOTHER worker that is inside a
   test or dead (`resume_quiet`, contrapositive): when all the others are done, the remaining worker never sleeps, and its
   traversal ends within `24·resultBound g + 13·|workers|` steps (`last_worker_over`).

Everything lives in the namespace `I2N.Trav.GlobalN`.
-/
namespace I2N.Trav.GlobalN
open I2N.Trav I2N.Trav.Global

/-! ## how a block of any worker can end -/

/-- the program counters a block that ends by itself can end with -/
def pcEnd : Pc → Bool
  | .loop => false
  | _ => true

theorem pcEnd_of_isTest {pc : Pc} (h : pc.isTest = true) : pcEnd pc = true := by
  cases pc <;> first | rfl | cases h

/-- how an iteration of worker `w` ends when it suspends or leaves the loop -/
structure IterEnd (w : Nat) (r : Step) : Prop where
  susp : isSuspend r.2.2 = true → (r.1.wd w).pc.isTest = true ∨ (r.1.wd w).pc = .bounce
  exit : r.2.2.isExit = true → (r.1.wd w).pc = .done

theorem IterEnd.quiet (w : Nat) (s' : State) (e : List Event) (f : Flow) (h1 : isSuspend f = false) (h2 : f.isExit = false) :
    IterEnd w (s', e, f) :=
  ⟨fun hs => (by rw [h1] at hs; cases hs), fun he => (by rw [h2] at he; cases he)⟩

theorem iter_end (gv : Graph) (s : State) (w : Nat) (hw : w < s.workers.length) : IterEnd w (iter gv s w) := by
  have htrav : ∀ next prev dir, IterEnd w (traverseNode gv s w next prev dir) := by
    intro next prev dir
    refine ⟨fun hs => Or.inl ?_, fun he => ?_⟩
    · obtain ⟨s1, ph, h1, h2⟩ := traverseNode_suspend gv s w _ prev dir hs
      rw [h1, startTest_pc gv s1 _ w ph dir (by rw [h2]; exact hw)]; rfl
    · rw [traverseNode_not_exit] at he; cases he
  unfold iter
  dsimp only
  split
  · split
    · refine ⟨fun hs => (by cases hs), fun _ => ?_⟩
      show ((s.setWd w _).wd w).pc = .done
      rw [wd_setWd_eq s w _ hw]
    · exact IterEnd.quiet w _ _ _ rfl rfl
  · cases hl : (s.wd w).path.getLast? with
    | none => exact IterEnd.quiet w _ _ _ rfl rfl
    | some next =>
      dsimp only
      split
      · cases hp : pickChild gv s next w with
        | none => exact IterEnd.quiet w _ _ _ rfl rfl
        | some r =>
          obtain ⟨c, s2⟩ := r
          exact IterEnd.quiet w _ _ _ rfl rfl
      · split
        · -- the back-off branch
          refine ⟨fun _ => Or.inr ?_, fun he => (by cases he)⟩
          dsimp only
          rw [wd_setWd_eq _ w _ ?_]
          split
          · rw [workers_length_setWd]
            split
            · exact hw
            · exact hw
          · rw [workers_length_setWd]; exact hw
        · split
          · split
            · exact htrav _ _ .up
            · cases hp : pickParent gv s next w with
              | none => exact IterEnd.quiet w _ _ _ rfl rfl
              | some r =>
                obtain ⟨c, s2⟩ := r
                exact IterEnd.quiet w _ _ _ rfl rfl
          · split
            · split
              · cases hp : pickParent gv s next w with
                | none => exact IterEnd.quiet w _ _ _ rfl rfl
                | some r =>
                  obtain ⟨c, s2⟩ := r
                  exact IterEnd.quiet w _ _ _ rfl rfl
              · exact htrav _ _ .down
            · exact IterEnd.quiet w _ _ _ rfl rfl

theorem iterL_end (g : Graph) (s : State) (w : Nat) (hw : w < s.workers.length) : IterEnd w (iterL g s w) := by
  unfold iterL
  split
  · exact iter_end (vis g s) s w hw
  · dsimp only
    obtain ⟨_, h2, _, _⟩ := prepare_frame g s w
    exact iter_end (vis g (prepare g s w)) (prepare g s w) w (by rw [h2]; exact hw)

/-- a block that ends by itself leaves the worker inside a test, in the back-off sleep, done or dead -/
theorem runLoopO_pcEnd (g : Graph) (hwf : GraphWF g) (w fuel : Nat) (s : State) (evs : List Event) (r : State × List Event)
    (hw : w < s.workers.length) (hpath : ∀ x ∈ (s.wd w).path, x < g.nodes.length)
    (h : Term.runLoopO g w fuel s evs = some r) : pcEnd (r.1.wd w).pc = true := by
  induction fuel generalizing s evs with
  | zero => simp [Term.runLoopO] at h
  | succ fuel ih =>
    unfold Term.runLoopO at h
    dsimp only at h
    have h0 : Silent g w s (s.setWd w (fun d => { d with pc := .loop })) := silent_setPc g w s .loop rfl
    have hw0 : w < (s.setWd w (fun d => { d with pc := .loop })).workers.length := by rw [h0.workersLen]; exact hw
    have hp0 := h0.path hpath
    have he := iterL_eff g hwf _ w hp0
    have hit := iterL_end g _ w hw0
    split at h
    · next s1 e heq =>
      rw [heq] at he
      rcases he with he | ⟨_, hf⟩
      · exact ih s1 _ (by rw [he.workersLen]; exact hw0) (he.path hp0) h
      · cases hf
    · next s1 e heq =>
      rw [heq] at hit
      simp only [Option.some.injEq] at h
      subst h
      rcases hit.susp rfl with h' | h'
      · exact pcEnd_of_isTest h'
      · show pcEnd (s1.wd w).pc = true
        rw [h']; rfl
    · next s1 e heq =>
      rw [heq] at hit
      simp only [Option.some.injEq] at h
      subst h
      show pcEnd (s1.wd w).pc = true
      rw [show (s1.wd w).pc = .done from hit.exit rfl]; rfl
    · next s1 e what heq =>
      rw [heq] at he
      simp only [Option.some.injEq] at h
      subst h
      rcases he with he | ⟨_, hf⟩
      · show pcEnd ((s1.setWd w _).wd w).pc = true
        rw [wd_setWd_eq s1 w _ (by rw [he.workersLen]; exact hw0)]; rfl
      · cases hf

/-! ## the global counter -/

/-- weight of a program counter: the wait counter inside a test (`≤ 10`), 12 in the loop or the back-off sleep, 13 once the
traversal of the worker is over -/
def q : Pc → Nat
  | .test _ _ _ _ _ wait => wait
  | .loop => 12
  | .bounce => 12
  | .done => 13
  | .failed => 13

def qsum (g : Graph) (s : State) : Nat := ((List.range g.workers.length).map (fun v => q (s.wd v).pc)).sum

/-- the global step counter -/
def cntN (g : Graph) (s : State) : Nat := 24 * total g s + qsum g s

theorem q_nonTest {pc : Pc} (h : pc.isTest = false) : 12 ≤ q pc := by
  cases pc <;> first | (cases h; done) | simp [q]

theorem q_over {pc : Pc} (h1 : pc.isTest = false) (h2 : pcEnd pc = true) (h3 : pc ≠ .bounce) : q pc = 13 := by
  cases pc <;> first | (cases h1; done) | (cases h2; done) | rfl | exact absurd rfl h3

theorem q_le {pc : Pc} (h : ∀ n ph dir uid tag wait, pc = .test n ph dir uid tag wait → wait ≤ 10) : q pc ≤ 13 := by
  cases pc with
  | test n ph dir uid tag wait => exact Nat.le_trans (h n ph dir uid tag wait rfl) (by omega)
  | _ => simp [q]

theorem q_test_le {pc : Pc} (h : ∀ n ph dir uid tag wait, pc = .test n ph dir uid tag wait → wait ≤ 10)
    (ht : pc.isTest = true) : q pc ≤ 10 := by
  cases pc with
  | test n ph dir uid tag wait => exact h n ph dir uid tag wait rfl
  | _ => cases ht

/-- only the summand of the stepping worker changes -/
theorem qsum_step {g : Graph} {s s' : State} {w : Nat} (hw : w < g.workers.length)
    (hoth : ∀ v, v ≠ w → s'.wd v = s.wd v) : qsum g s' + q (s.wd w).pc = qsum g s + q (s'.wd w).pc := by
  unfold qsum
  have hm : w ∈ List.range g.workers.length := List.mem_range.mpr hw
  rw [← sum_map_split _ List.nodup_range w hm (fun v => q (s'.wd v).pc),
    ← sum_map_split _ List.nodup_range w hm (fun v => q (s.wd v).pc)]
  have : (((List.range g.workers.length).filter (· != w)).map (fun v => q (s'.wd v).pc)).sum =
      (((List.range g.workers.length).filter (· != w)).map (fun v => q (s.wd v).pc)).sum := by
    apply sum_map_congr
    intro j hj
    have hjw : j ≠ w := by simpa using (List.mem_filter.mp hj).2
    rw [hoth j hjw]
  omega

theorem sum_map_const_le (l : List Nat) (f : Nat → Nat) (c : Nat) (h : ∀ j ∈ l, f j ≤ c) : (l.map f).sum ≤ c * l.length := by
  induction l with
  | nil => simp
  | cons a r ih =>
    have h1 := h a List.mem_cons_self
    have h2 := ih (fun j hj => h j (List.mem_cons_of_mem _ hj))
    simp only [List.map_cons, List.sum_cons, List.length_cons]
    rw [Nat.mul_succ]
    omega

theorem sum_map_const_ge (l : List Nat) (f : Nat → Nat) (c : Nat) (h : ∀ j ∈ l, c ≤ f j) : c * l.length ≤ (l.map f).sum := by
  induction l with
  | nil => simp
  | cons a r ih =>
    have h1 := h a List.mem_cons_self
    have h2 := ih (fun j hj => h j (List.mem_cons_of_mem _ hj))
    simp only [List.map_cons, List.sum_cons, List.length_cons]
    rw [Nat.mul_succ]
    omega

/-! ## the shape of a step of any worker (graphs without object roots) -/

theorem contEff_shape {g : Graph} (hnr : ∀ n, (g.node n).objectRoot = false) {w n : Nat} {dir : Dir} {sc s' : State}
    {ok : Bool} (h : ContEff g w n .plain dir sc ok s') (hlen : sc.nodes.length = g.nodes.length)
    (hw : w < sc.workers.length) :
    (total g s' = total g sc ∧ (s'.wd w).pc.isTest = false) ∨ (total g s' = total g sc + 1 ∧ q (s'.wd w).pc = 0) := by
  rcases h with ⟨h, _⟩ | ⟨_, ⟨a, hp⟩ | ⟨s1, a, hs⟩⟩
  · cases h
  · simp only [reduceCtorEq, if_false] at a
    exact Or.inl ⟨total_congr a.results, hp⟩
  · simp only [reduceCtorEq, if_false] at a
    right
    refine ⟨by rw [startFrom_total hnr hs (by rw [a.nodesLen]; exact hlen), total_congr a.results], ?_⟩
    obtain ⟨n', ph', dir', uid', tag', e⟩ := startFrom_pc hs (by rw [a.workersLen]; exact hw)
    rw [e]; rfl

/-- **the shape of a step**: nothing is appended and the worker ends outside a test; or one placeholder is appended and
the worker ends in a fresh test; or the step is a tick of the result wait -/
theorem resume_shape (g : Graph) (hwf : GraphWF g) (hnr : ∀ n, (g.node n).objectRoot = false) (s : State) (b : Basic g s All)
    (w : Nat) (hw : w < g.workers.length) (out : Outcome) (fuel : Nat) (hf : 0 < fuel) :
    (total g (resume g s w out fuel).1 = total g s ∧ ((resume g s w out fuel).1.wd w).pc.isTest = false) ∨
    (total g (resume g s w out fuel).1 = total g s + 1 ∧ q ((resume g s w out fuel).1.wd w).pc = 0) ∨
    ((s.wd w).pc.isTest = true ∧ total g (resume g s w out fuel).1 = total g s ∧
      q ((resume g s w out fuel).1.wd w).pc = q (s.wd w).pc + 1) := by
  have hws : w < s.workers.length := by rw [b.workersLen]; exact hw
  rcases resume_eff g hwf s w out fuel hf hws (b.paths w) with ⟨hnt, h⟩ | ⟨n, ph, dir, uid, tag, wait, hpc, sa, hrep, h⟩
  · rcases h with ⟨a, hp⟩ | ⟨s1, a, hs⟩
    · exact Or.inl ⟨total_congr a.results, hp⟩
    · right; left
      refine ⟨by rw [startFrom_total hnr hs (by rw [a.nodesLen]; exact b.nodesLen), total_congr a.results], ?_⟩
      obtain ⟨n', ph', dir', uid', tag', e⟩ := startFrom_pc hs (by rw [a.workersLen]; exact hws)
      rw [e]; rfl
  · have hok := b.pcOK w n ph dir uid tag wait trivial hpc
    have hph : ph = .plain := hok.2.2.2.1.mp (hnr n)
    subst hph
    have hsb : SameBook s sa := by
      rcases hrep with ⟨h, _⟩ | ⟨_, _, _, h, _⟩
      · rw [h]; exact ⟨rfl, rfl, rfl⟩
      · exact h
    have ba : Basic g sa All := b.sameBook hsb
    have hpca : (sa.wd w).pc = .test n .plain dir uid tag wait := by rw [hsb.wd]; exact hpc
    have hta : total g sa = total g s := total_congr (fun m => by rw [hsb.nd])
    have hwa : w < sa.workers.length := by rw [ba.workersLen]; exact hw
    rcases h with ⟨e, _, sb, res, ok, hsab, _, ⟨hres, _⟩, hc⟩ | ⟨_, h | hc⟩
    · have bb : Basic g sb All := ba.sameBook hsab
      have hpcb : (sb.wd w).pc = .test n .plain dir uid tag wait := by rw [hsab.wd]; exact hpca
      have htb : total g sb = total g sa := total_congr (fun m => by rw [hsab.nd])
      simp only [reduceCtorEq, if_false] at hc
      have h1 := contEff_shape hnr hc (by unfold settleNd; rw [nodes_length_setNd]; exact bb.nodesLen)
        (by unfold settleNd; show w < sb.workers.length; rw [bb.workersLen]; exact hw)
      rw [total_settle bb hpcb (by decide) (hnr n) res hres, htb, hta] at h1
      rcases h1 with h1 | h1
      · exact Or.inl h1
      · exact Or.inr (Or.inl h1)
    · right; right
      refine ⟨by rw [hpc]; rfl, ?_, ?_⟩
      · rw [h]
        exact (total_congr (fun m => rfl)).trans hta
      · rw [h, wd_setWd_eq sa w _ hwa, hpc]; rfl
    · have h1 := contEff_shape hnr hc ba.nodesLen hwa
      rw [hta] at h1
      rcases h1 with h1 | h1
      · exact Or.inl h1
      · exact Or.inr (Or.inl h1)

/-! ## runs of several workers -/

/-- static hypotheses: a pre-parsed (`noFlatB`: no flat node but the shared root) acyclic graph with edges recorded at
both ends and within range, registers for every class; any number of workers -/
structure StaticN (g : Graph) (ncls : Nat) : Prop where
  ranked : Term.rankedB g = true
  sym : edgeSymB g = true
  flat : Term.noFlatB g = true
  wf : graphWF g = true
  cls : ∀ n, n < g.nodes.length → (g.node n).cls < ncls

/-- a scheduler step: the worker that is resumed, the outcome of the test it awaited (if any), the fuel of the block -/
abbrev StepN := Nat × Outcome × Nat

def stepN (g : Graph) (s : State) (st : StepN) : State := (resume g s st.1 st.2.1 st.2.2).1

/-- the run: one `resume` per entry, any interleaving -/
def runStepsN (g : Graph) (s : State) (steps : List StepN) : State := steps.foldl (stepN g) s

/-- no worker steps after it has waited at occupied nodes for longer than the node's `timeout · max(max_tries, 1)`
(so no `max_concurrent_tries` is ever bumped, `resume_bump_eq`) -/
def Patient (g : Graph) : State → List StepN → Prop
  | _, [] => True
  | s, st :: r => ¬ overWaited g s st.1 ∧ Patient g (stepN g s st) r

/-- the invariant of the runs -/
structure GInvN (g : Graph) (ncls : Nat) (store : List (String × List (String × String))) (s : State) : Prop where
  reachR : ReachableR g ncls store s
  reachF : ReachableF g ncls store s
  noBump : NoBump s
  wait : ∀ v n ph dir uid tag wait, (s.wd v).pc = .test n ph dir uid tag wait → wait ≤ 10

theorem init_wd (g : Graph) (ncls : Nat) (store : List (String × List (String × String))) (v : Nat)
    (hv : v < g.workers.length) : (initState g ncls store []).wd v = { path := [g.root] } := by
  unfold initState State.wd
  simp only [List.getD_eq_getElem?_getD, List.getElem?_map, List.getElem?_eq_getElem hv]
  rfl

theorem init_pc (g : Graph) (ncls : Nat) (store : List (String × List (String × String))) (v : Nat) :
    ((initState g ncls store []).wd v).pc = .loop := by
  by_cases hv : v < g.workers.length
  · rw [init_wd g ncls store v hv]
  · rw [wd_default_of_ge _ v (by simpa [initState] using hv)]

theorem ginvN_init (g : Graph) (ncls : Nat) (store : List (String × List (String × String))) :
    GInvN g ncls store (initState g ncls store []) := by
  refine ⟨.init [], .init [], (ReachableP.init (g := g) (ncls := ncls) (store := store) []).noBump, ?_⟩
  intro v n ph dir uid tag wait e
  rw [init_pc] at e; cases e

/-- what a step of a real worker with positive fuel does to the other workers: nothing -/
theorem resume_others {g : Graph} {ncls : Nat} (st : StaticN g ncls) {store : List (String × List (String × String))}
    {s : State} (h : ReachableF g ncls store s) (w : Nat) (hw : w < g.workers.length) (out : Outcome) (fuel : Nat)
    (hf : 0 < fuel) (v : Nat) (hv : v ≠ w) : (resume g s w out fuel).1.wd v = s.wd v := by
  have hsym := edgeSymB_sound st.sym
  have hr := Term.rankedB_sound st.ranked
  exact (Term.resume_loc g (Term.depth g) hr hsym s w out fuel hf hw (h.pinv hsym) (Term.reachable_tinv hr hsym st.cls h)).others v hv

theorem ginvN_step {g : Graph} {ncls : Nat} (st : StaticN g ncls) {store : List (String × List (String × String))} {s : State}
    (h : GInvN g ncls store s) (w : Nat) (hw : w < g.workers.length) (out : Outcome) (fuel : Nat) (hf : 0 < fuel)
    (hb : ∀ i, ((resume g s w out fuel).1.nd i).bump = (s.nd i).bump) : GInvN g ncls store (resume g s w out fuel).1 := by
  have b := h.reachR.basic st.wf
  refine ⟨.step w out fuel h.reachR hw hf, .step s w out fuel h.reachF hw hf, fun i => (hb i).trans (h.noBump i), ?_⟩
  intro v
  by_cases hv : v = w
  · subst hv
    exact resume_wait g (GraphWF.of_bool st.wf) s v out fuel hf (by rw [b.workersLen]; exact hw) (b.paths v) (h.wait v)
  · rw [resume_others st h.reachF w hw out fuel hf v hv]
    exact h.wait v

/-- a step of a worker whose traversal is over changes nothing -/
theorem resume_overN (g : Graph) (s : State) (w : Nat) (out : Outcome) (fuel : Nat) (h : isOver (s.wd w).pc = true) :
    (resume g s w out fuel).1 = s := by
  unfold resume
  split
  · next heq => rw [heq] at h; cases h
  · next heq => rw [heq] at h; cases h
  · next heq => rw [heq] at h; cases h
  · rfl
  · rfl

/-- a step of a worker that is in the loop or wakes up from a back-off sleep ends — with `fuel ≥ bound g` — inside a test,
in a back-off sleep, done or dead: the block does not run out of fuel -/
theorem resume_loop_pcEnd {g : Graph} {ncls : Nat} (st : StaticN g ncls) {store : List (String × List (String × String))}
    {s : State} (h : GInvN g ncls store s) (w : Nat) (hw : w < g.workers.length) (out : Outcome) (fuel : Nat)
    (hf : Term.bound g ≤ fuel) (hpc : (s.wd w).pc = .loop ∨ (s.wd w).pc = .bounce) :
    pcEnd ((resume g s w out fuel).1.wd w).pc = true := by
  have hsym := edgeSymB_sound st.sym
  have hr := Term.rankedB_sound st.ranked
  have b := h.reachR.basic st.wf
  have hg : Term.Good g (Term.depth g) w s :=
    Term.reachable_good hr hsym st.cls h.reachF (Term.explored_of_noFlat st.flat s) w
  obtain ⟨r, h2, h3⟩ := Term.runLoop_terminates g (Term.depth g) hr hsym w s [] hg fuel hf
  have he : resume g s w out fuel = runLoop g w fuel s [] := by
    unfold resume
    rcases hpc with e | e <;> rw [e]
  rw [he, h3]
  exact runLoopO_pcEnd g (GraphWF.of_bool st.wf) w (Term.bound g) s [] r (by rw [b.workersLen]; exact hw) (b.paths w) h2

/-! ## productive steps -/

/-- a step is productive unless it is a back-off wake-up that ends in a back-off sleep again, or a step of a worker whose
traversal is over: `before`/`after` = the program counter of the stepping worker before and after the step -/
def productive (before after : Pc) : Bool :=
  match before with
  | .test .. => true
  | .loop | .bounce => (match after with | .bounce => false | _ => true)
  | .done | .failed => false

/-- number of productive steps of a run -/
def productiveSteps (g : Graph) : State → List StepN → Nat
  | _, [] => 0
  | s, st :: r =>
    (if productive (s.wd st.1).pc ((stepN g s st).wd st.1).pc then 1 else 0) + productiveSteps g (stepN g s st) r

/-- the counter never falls and grows with every productive step -/
theorem step_cntN {g : Graph} {ncls : Nat} (st : StaticN g ncls) (hnr : noRootsB g = true)
    {store : List (String × List (String × String))} {s : State} (h : GInvN g ncls store s) (w : Nat)
    (hw : w < g.workers.length) (out : Outcome) (fuel : Nat) (hf : Term.bound g ≤ fuel) :
    cntN g s + (if productive (s.wd w).pc ((resume g s w out fuel).1.wd w).pc then 1 else 0) ≤
      cntN g (resume g s w out fuel).1 := by
  have hf0 : 0 < fuel := Nat.lt_of_lt_of_le (bound_pos g) hf
  by_cases hov : isOver (s.wd w).pc = true
  · rw [resume_overN g s w out fuel hov]
    have : productive (s.wd w).pc (s.wd w).pc = false := by
      cases hpc : (s.wd w).pc <;> rw [hpc] at hov <;> first | (cases hov; done) | rfl
    rw [this]; simp
  · have b := h.reachR.basic st.wf
    have hq := qsum_step (g := g) hw (resume_others st h.reachF w hw out fuel hf0)
    have hsh := resume_shape g (GraphWF.of_bool st.wf) (noRoots_spec hnr) s b w hw out fuel hf0
    have hwt := h.wait w
    unfold cntN
    generalize hs' : (resume g s w out fuel).1 = s' at hq hsh ⊢
    cases hpc : (s.wd w).pc with
    | done => rw [hpc] at hov; exact absurd rfl hov
    | failed => rw [hpc] at hov; exact absurd rfl hov
    | test n ph dir uid tag wait =>
      have hw10 := hwt n ph dir uid tag wait hpc
      rw [hpc] at hq hsh
      have hprod : productive (.test n ph dir uid tag wait) (s'.wd w).pc = true := rfl
      rw [hprod]
      rw [show q (Pc.test n ph dir uid tag wait) = wait from rfl] at hq hsh
      simp only [if_true]
      rcases hsh with ⟨h1, h2⟩ | ⟨h1, h2⟩ | ⟨_, h1, h2⟩
      · have := q_nonTest h2; omega
      · omega
      · omega
    | loop =>
      have hend := resume_loop_pcEnd st h w hw out fuel hf (Or.inl hpc)
      rw [hs'] at hend
      rw [hpc] at hq hsh
      rw [show q Pc.loop = 12 from rfl] at hq
      rcases hsh with ⟨h1, h2⟩ | ⟨h1, h2⟩ | ⟨h0, _, _⟩
      · have h12 := q_nonTest h2
        by_cases hbn : (s'.wd w).pc = .bounce
        · rw [hbn] at hq ⊢
          have hqb : q Pc.bounce = 12 := rfl
          simp only [productive, Bool.false_eq_true, if_false]; omega
        · have := q_over h2 hend hbn
          split <;> omega
      · split <;> omega
      · cases h0
    | bounce =>
      have hend := resume_loop_pcEnd st h w hw out fuel hf (Or.inr hpc)
      rw [hs'] at hend
      rw [hpc] at hq hsh
      rw [show q Pc.bounce = 12 from rfl] at hq
      rcases hsh with ⟨h1, h2⟩ | ⟨h1, h2⟩ | ⟨h0, _, _⟩
      · have h12 := q_nonTest h2
        by_cases hbn : (s'.wd w).pc = .bounce
        · rw [hbn] at hq ⊢
          have hqb : q Pc.bounce = 12 := rfl
          simp only [productive, Bool.false_eq_true, if_false]; omega
        · have := q_over h2 hend hbn
          split <;> omega
      · split <;> omega
      · cases h0

theorem runStepsN_cons (g : Graph) (s : State) (a : StepN) (r : List StepN) :
    runStepsN g s (a :: r) = runStepsN g (stepN g s a) r := rfl

/-- along every patient run: the invariant holds and the counter has grown by at least the number of productive steps -/
theorem run_cntN {g : Graph} {ncls : Nat} (st : StaticN g ncls) (hnr : noRootsB g = true)
    {store : List (String × List (String × String))} (steps : List StepN) (s : State) (h : GInvN g ncls store s)
    (hreal : ∀ x ∈ steps, x.1 < g.workers.length) (hfuel : ∀ x ∈ steps, Term.bound g ≤ x.2.2)
    (hpat : Patient g s steps) :
    GInvN g ncls store (runStepsN g s steps) ∧
      cntN g s + productiveSteps g s steps ≤ cntN g (runStepsN g s steps) := by
  induction steps generalizing s with
  | nil => exact ⟨h, Nat.le_refl _⟩
  | cons a r ih =>
    have hw := hreal a List.mem_cons_self
    have hf := hfuel a List.mem_cons_self
    have hf0 : 0 < a.2.2 := Nat.lt_of_lt_of_le (bound_pos g) hf
    have h1 : GInvN g ncls store (stepN g s a) :=
      ginvN_step st h a.1 hw a.2.1 a.2.2 hf0 (resume_bump_eq g s a.1 a.2.1 a.2.2 hpat.1)
    have c1 := step_cntN st hnr h a.1 hw a.2.1 a.2.2 hf
    obtain ⟨y1, y2⟩ := ih (stepN g s a) h1 (fun x hx => hreal x (List.mem_cons_of_mem _ hx))
      (fun x hx => hfuel x (List.mem_cons_of_mem _ hx)) hpat.2
    rw [runStepsN_cons]
    refine ⟨y1, ?_⟩
    have e : productiveSteps g s (a :: r) =
        (if productive (s.wd a.1).pc ((stepN g s a).wd a.1).pc then 1 else 0) + productiveSteps g (stepN g s a) r := rfl
    rw [e]
    unfold stepN at y2 ⊢
    omega

/-! ## the number of results is bounded by the retry budgets, for any number of workers -/

/-- a copy of a setup class that has results is counted by the worker that cares for it -/
theorem len_le_scopedLen {g : Graph} {c : Nat} {M : Option Int} {sh : Shape} (hC : BClass g c M sh) {s : State}
    (b : BInv g c M sh s All) (n : Nat) (hn : n < g.nodes.length) (hc : (g.node n).cls = c)
    (hne : (s.nd n).results ≠ []) :
    ∃ u, u < g.workers.length ∧ (s.nd n).results.length ≤ scopedLen g s c sh u := by
  have key : ∃ u, u < g.workers.length ∧ g.idIn u n = true := by
    rcases b.p1 n hn hc hne with ⟨u, tag, _, ⟨ph, dir, uid, wait, hpc, _⟩, _⟩ | ⟨u, hu, hid, _⟩
    · obtain ⟨_, _, hid, _⟩ := b.infl u trivial n ph dir uid tag wait hpc hc
      have hu : u < s.workers.length := lt_of_isTest s u (by rw [hpc]; rfl)
      rw [b.workersLen] at hu
      exact ⟨u, hu, hid⟩
    · exact ⟨u, hu, hid⟩
  obtain ⟨u, hu, hid⟩ := key
  refine ⟨u, hu, ?_⟩
  have hseen : seen g sh u n = true := by
    rw [hC.scope n hn hc u u hu hu hid]; exact inScopeOf_self sh g u
  have := Term.le_sum_of_mem (g.classNodes c) (fun j => if seen g sh u j then (s.nd j).results.length else 0) n
    ((mem_classNodes g c n).mpr ⟨hn, hc⟩)
  simp only [hseen, if_true] at this
  exact this

/-- **the number of results never exceeds `resultBound g = Σ_n max(max_tries n, 1)`** in a reachable state without bumps,
whatever the number of workers -/
theorem total_le_resultBoundN {g : Graph} (hwf : graphWF g = true) (hcl : classesOKB g = true) {ncls : Nat}
    {store : List (String × List (String × String))} {s : State} (hR : ReachableR g ncls store s) (hnb : NoBump s) :
    total g s ≤ resultBound g := by
  refine sum_map_le _ _ _ (fun n hn => ?_)
  have hn' : n < g.nodes.length := List.mem_range.mp hn
  unfold classesOKB at hcl
  rw [List.all_eq_true] at hcl
  have hc := hcl n hn
  rw [Bool.or_eq_true, Bool.and_eq_true] at hc
  rcases hc with hc | ⟨hc, hm⟩
  · have hle : (s.nd n).results.length ≤ classLen g s (g.node n).cls :=
      Term.le_sum_of_mem (g.classNodes (g.node n).cls) (fun j => (s.nd j).results.length) n
        ((mem_classNodes g _ n).mpr ⟨hn', rfl⟩)
    have := hR.budget hwf (g.node n).cls (g.node n).maxTries hc
    omega
  · have hC := statefulClass_spec hc
    have b := hR.binv hwf hC
    by_cases hne : (s.nd n).results = []
    · rw [hne]; exact Nat.zero_le _
    · obtain ⟨u, hu, h1⟩ := len_le_scopedLen hC b n hn' rfl hne
      have h2 := b.budget u hu [] List.nodup_nil (fun v hv => by cases hv)
      have h3 := classLimit_le_of_mctWithin hC hm s hnb
      simp only [List.length_nil, Nat.add_zero] at h2
      omega

theorem qsum_le {g : Graph} {s : State}
    (h : ∀ v n ph dir uid tag wait, (s.wd v).pc = .test n ph dir uid tag wait → wait ≤ 10) :
    qsum g s ≤ 13 * g.workers.length := by
  have := sum_map_const_le (List.range g.workers.length) (fun v => q (s.wd v).pc) 13 (fun v _ => q_le (h v))
  rwa [List.length_range] at this

/-- **the number of productive steps of a patient run is at most `24·resultBound g + |workers|`** -/
theorem productive_le {g : Graph} {ncls : Nat} (st : StaticN g ncls) (hnr : noRootsB g = true) (hcl : classesOKB g = true)
    (store : List (String × List (String × String))) (steps : List StepN)
    (hreal : ∀ x ∈ steps, x.1 < g.workers.length) (hfuel : ∀ x ∈ steps, Term.bound g ≤ x.2.2)
    (hpat : Patient g (initState g ncls store []) steps) :
    productiveSteps g (initState g ncls store []) steps ≤ 24 * resultBound g + g.workers.length := by
  obtain ⟨y, c⟩ := run_cntN st hnr steps _ (ginvN_init g ncls store) hreal hfuel hpat
  have h1 := total_le_resultBoundN st.wf hcl y.reachR y.noBump
  have h2 := qsum_le (g := g) y.wait
  have h3 : 12 * g.workers.length ≤ qsum g (initState g ncls store []) := by
    have := sum_map_const_ge (List.range g.workers.length) (fun v => q ((initState g ncls store []).wd v).pc) 12
      (fun v _ => by rw [init_pc]; exact Nat.le_refl _)
    rwa [List.length_range] at this
  unfold cntN at c
  omega

/-- what a step that is not counted looks like: a step of a worker whose traversal is over (nothing changes), or a worker in
the loop / waking up from a back-off sleep goes to sleep (again) -/
theorem unproductive_step (g : Graph) (s : State) (w : Nat) (out : Outcome) (fuel : Nat)
    (h : productive (s.wd w).pc ((resume g s w out fuel).1.wd w).pc = false) :
    (isOver (s.wd w).pc = true ∧ (resume g s w out fuel).1 = s) ∨
    (((s.wd w).pc = .loop ∨ (s.wd w).pc = .bounce) ∧ ((resume g s w out fuel).1.wd w).pc = .bounce) := by
  cases hpc : (s.wd w).pc with
  | test n ph dir uid tag wait => rw [hpc] at h; cases h
  | done => exact Or.inl ⟨rfl, resume_overN g s w out fuel (by rw [hpc]; rfl)⟩
  | failed => exact Or.inl ⟨rfl, resume_overN g s w out fuel (by rw [hpc]; rfl)⟩
  | loop =>
    rw [hpc] at h
    right
    refine ⟨Or.inl rfl, ?_⟩
    cases hpc' : ((resume g s w out fuel).1.wd w).pc <;> rw [hpc'] at h <;> first | rfl | cases h
  | bounce =>
    rw [hpc] at h
    right
    refine ⟨Or.inr rfl, ?_⟩
    cases hpc' : ((resume g s w out fuel).1.wd w).pc <;> rw [hpc'] at h <;> first | rfl | cases h

end I2N.Trav.GlobalN
