import I2N.Lemmas.TravGlobal
/-!
Progress ACROSS suspensions for ANY number of workers (property C02).

`Lemmas/TravGlobal.lean` treats one worker.  With several workers a run can be arbitrarily long — a worker may sleep at an
occupied node as long as the holder keeps running — but that is the ONLY way:

1. `cntN = 24·(number of results) + Σ_workers q(pc)` (`q` = the wait counter inside a test, 12 in the loop or the back-off
   sleep, 13 once over) never falls, and strictly grows with every step of a worker that is inside a test, and with every
   step of a worker in the loop / waking up from a back-off sleep that does not end in a back-off sleep again
   (`resume_shape`, `run_cntN`).  The number of results is bounded by the retry budgets of C03 for every number of workers
   (`total_le_resultBoundN`: the copy with results is seen by the worker that cares for it), as long as no
   `max_concurrent_tries` is bumped.  Hence the number of such "productive" steps of a whole run is at most
   `24·resultBound g + |workers|` (`productive_le`).
2. A worker whose step ends in the back-off sleep has seen a `started` mark, which belongs to ANOTHER worker that is inside a
   test or dead (`resume_quiet`, contrapositive): when all the others are done, the remaining worker never sleeps, and its
   traversal ends within `24·resultBound g + 13·|workers|` steps (`last_worker_over`).

Everything lives in the namespace `I2N.Trav.GlobalN`.
-/
namespace I2N.Trav.GlobalN
open I2N.Trav I2N.Trav.Global

/-! ## how a block of any worker can end -/

/-- the program counters a block that ends by itself can end with -/
def pcEnd : Pc → Bool
  | .loop => false
  | _ => true

theorem pcEnd_of_isTest {pc : Pc} (h : pc.isTest = true) : pcEnd pc = true := by
  cases pc <;> first | rfl | cases h

/-- how an iteration of worker `w` ends when it suspends or leaves the loop -/
structure IterEnd (w : Nat) (r : Step) : Prop where
  susp : isSuspend r.2.2 = true → (r.1.wd w).pc.isTest = true ∨ (r.1.wd w).pc = .bounce
  exit : r.2.2.isExit = true → (r.1.wd w).pc = .done

theorem IterEnd.quiet (w : Nat) (s' : State) (e : List Event) (f : Flow) (h1 : isSuspend f = false) (h2 : f.isExit = false) :
    IterEnd w (s', e, f) :=
  ⟨fun hs => (by rw [h1] at hs; cases hs), fun he => (by rw [h2] at he; cases he)⟩

theorem iter_end (gv : Graph) (s : State) (w : Nat) (hw : w < s.workers.length) : IterEnd w (iter gv s w) := by
  have htrav : ∀ next prev dir, IterEnd w (traverseNode gv s w next prev dir) := by
    intro next prev dir
    refine ⟨fun hs => Or.inl ?_, fun he => ?_⟩
    · obtain ⟨s1, ph, h1, h2⟩ := traverseNode_suspend gv s w _ prev dir hs
      rw [h1, startTest_pc gv s1 _ w ph dir (by rw [h2]; exact hw)]; rfl
    · rw [traverseNode_not_exit] at he; cases he
  unfold iter
  dsimp only
  split
  · split
    · refine ⟨fun hs => (by cases hs), fun _ => ?_⟩
      show ((s.setWd w _).wd w).pc = .done
      rw [wd_setWd_eq s w _ hw]
    · exact IterEnd.quiet w _ _ _ rfl rfl
  · cases hl : (s.wd w).path.getLast? with
    | none => exact IterEnd.quiet w _ _ _ rfl rfl
    | some next =>
      dsimp only
      split
      · cases hp : pickChild gv s next w with
        | none => exact IterEnd.quiet w _ _ _ rfl rfl
        | some r =>
          obtain ⟨c, s2⟩ := r
          exact IterEnd.quiet w _ _ _ rfl rfl
      · split
        · -- the back-off branch
          refine ⟨fun _ => Or.inr ?_, fun he => (by cases he)⟩
          dsimp only
          rw [wd_setWd_eq _ w _ ?_]
          split
          · rw [workers_length_setWd]
            split
            · exact hw
            · exact hw
          · rw [workers_length_setWd]; exact hw
        · split
          · split
            · exact htrav _ _ .up
            · cases hp : pickParent gv s next w with
              | none => exact IterEnd.quiet w _ _ _ rfl rfl
              | some r =>
                obtain ⟨c, s2⟩ := r
                exact IterEnd.quiet w _ _ _ rfl rfl
          · split
            · split
              · cases hp : pickParent gv s next w with
                | none => exact IterEnd.quiet w _ _ _ rfl rfl
                | some r =>
                  obtain ⟨c, s2⟩ := r
                  exact IterEnd.quiet w _ _ _ rfl rfl
              · exact htrav _ _ .down
            · exact IterEnd.quiet w _ _ _ rfl rfl

theorem iterL_end (g : Graph) (s : State) (w : Nat) (hw : w < s.workers.length) : IterEnd w (iterL g s w) := by
  unfold iterL
  split
  · exact iter_end (vis g s) s w hw
  · dsimp only
    obtain ⟨_, h2, _, _⟩ := prepare_frame g s w
    exact iter_end (vis g (prepare g s w)) (prepare g s w) w (by rw [h2]; exact hw)

/-- a block that ends by itself leaves the worker inside a test, in the back-off sleep, done or dead -/
theorem runLoopO_pcEnd (g : Graph) (hwf : GraphWF g) (w fuel : Nat) (s : State) (evs : List Event) (r : State × List Event)
    (hw : w < s.workers.length) (hpath : ∀ x ∈ (s.wd w).path, x < g.nodes.length)
    (h : Term.runLoopO g w fuel s evs = some r) : pcEnd (r.1.wd w).pc = true := by
  induction fuel generalizing s evs with
  | zero => simp [Term.runLoopO] at h
  | succ fuel ih =>
    unfold Term.runLoopO at h
    dsimp only at h
    have h0 : Silent g w s (s.setWd w (fun d => { d with pc := .loop })) := silent_setPc g w s .loop rfl
    have hw0 : w < (s.setWd w (fun d => { d with pc := .loop })).workers.length := by rw [h0.workersLen]; exact hw
    have hp0 := h0.path hpath
    have he := iterL_eff g hwf _ w hp0
    have hit := iterL_end g _ w hw0
    split at h
    · next s1 e heq =>
      rw [heq] at he
      rcases he with he | ⟨_, hf⟩
      · exact ih s1 _ (by rw [he.workersLen]; exact hw0) (he.path hp0) h
      · cases hf
    · next s1 e heq =>
      rw [heq] at hit
      simp only [Option.some.injEq] at h
      subst h
      rcases hit.susp rfl with h' | h'
      · exact pcEnd_of_isTest h'
      · show pcEnd (s1.wd w).pc = true
        rw [h']; rfl
    · next s1 e heq =>
      rw [heq] at hit
      simp only [Option.some.injEq] at h
      subst h
      show pcEnd (s1.wd w).pc = true
      rw [show (s1.wd w).pc = .done from hit.exit rfl]; rfl
    · next s1 e what heq =>
      rw [heq] at he
      simp only [Option.some.injEq] at h
      subst h
      rcases he with he | ⟨_, hf⟩
      · show pcEnd ((s1.setWd w _).wd w).pc = true
        rw [wd_setWd_eq s1 w _ (by rw [he.workersLen]; exact hw0)]; rfl
      · cases hf

/-! ## the global counter -/

/-- weight of a program counter: the wait counter inside a test (`≤ 10`), 12 in the loop or the back-off sleep, 13 once the
traversal of the worker is over -/
def q : Pc → Nat
  | .test _ _ _ _ _ wait => wait
  | .loop => 12
  | .bounce => 12
  | .done => 13
  | .failed => 13

def qsum (g : Graph) (s : State) : Nat := ((List.range g.workers.length).map (fun v => q (s.wd v).pc)).sum

/-- the global step counter -/
def cntN (g : Graph) (s : State) : Nat := 24 * total g s + qsum g s

theorem q_nonTest {pc : Pc} (h : pc.isTest = false) : 12 ≤ q pc := by
  cases pc <;> first | (cases h; done) | simp [q]

theorem q_over {pc : Pc} (h1 : pc.isTest = false) (h2 : pcEnd pc = true) (h3 : pc ≠ .bounce) : q pc = 13 := by
  cases pc <;> first | (cases h1; done) | (cases h2; done) | rfl | exact absurd rfl h3

theorem q_le {pc : Pc} (h : ∀ n ph dir uid tag wait, pc = .test n ph dir uid tag wait → wait ≤ 10) : q pc ≤ 13 := by
  cases pc with
  | test n ph dir uid tag wait => exact Nat.le_trans (h n ph dir uid tag wait rfl) (by omega)
  | _ => simp [q]

theorem q_test_le {pc : Pc} (h : ∀ n ph dir uid tag wait, pc = .test n ph dir uid tag wait → wait ≤ 10)
    (ht : pc.isTest = true) : q pc ≤ 10 := by
  cases pc with
  | test n ph dir uid tag wait => exact h n ph dir uid tag wait rfl
  | _ => cases ht

/-- only the summand of the stepping worker changes -/
theorem qsum_step {g : Graph} {s s' : State} {w : Nat} (hw : w < g.workers.length)
    (hoth : ∀ v, v ≠ w → s'.wd v = s.wd v) : qsum g s' + q (s.wd w).pc = qsum g s + q (s'.wd w).pc := by
  unfold qsum
  have hm : w ∈ List.range g.workers.length := List.mem_range.mpr hw
  rw [← sum_map_split _ List.nodup_range w hm (fun v => q (s'.wd v).pc),
    ← sum_map_split _ List.nodup_range w hm (fun v => q (s.wd v).pc)]
  have : (((List.range g.workers.length).filter (· != w)).map (fun v => q (s'.wd v).pc)).sum =
      (((List.range g.workers.length).filter (· != w)).map (fun v => q (s.wd v).pc)).sum := by
    apply sum_map_congr
    intro j hj
    have hjw : j ≠ w := by simpa using (List.mem_filter.mp hj).2
    rw [hoth j hjw]
  omega

theorem sum_map_const_le (l : List Nat) (f : Nat → Nat) (c : Nat) (h : ∀ j ∈ l, f j ≤ c) : (l.map f).sum ≤ c * l.length := by
  induction l with
  | nil => simp
  | cons a r ih =>
    have h1 := h a List.mem_cons_self
    have h2 := ih (fun j hj => h j (List.mem_cons_of_mem _ hj))
    simp only [List.map_cons, List.sum_cons, List.length_cons]
    rw [Nat.mul_succ]
    omega

theorem sum_map_const_ge (l : List Nat) (f : Nat → Nat) (c : Nat) (h : ∀ j ∈ l, c ≤ f j) : c * l.length ≤ (l.map f).sum := by
  induction l with
  | nil => simp
  | cons a r ih =>
    have h1 := h a List.mem_cons_self
    have h2 := ih (fun j hj => h j (List.mem_cons_of_mem _ hj))
    simp only [List.map_cons, List.sum_cons, List.length_cons]
    rw [Nat.mul_succ]
    omega

/-! ## the shape of a step of any worker (graphs without object roots) -/

theorem contEff_shape {g : Graph} (hnr : ∀ n, (g.node n).objectRoot = false) {w n : Nat} {dir : Dir} {sc s' : State}
    {ok : Bool} (h : ContEff g w n .plain dir sc ok s') (hlen : sc.nodes.length = g.nodes.length)
    (hw : w < sc.workers.length) :
    (total g s' = total g sc ∧ (s'.wd w).pc.isTest = false) ∨ (total g s' = total g sc + 1 ∧ q (s'.wd w).pc = 0) := by
  rcases h with ⟨h, _⟩ | ⟨_, ⟨a, hp⟩ | ⟨s1, a, hs⟩⟩
  · cases h
  · simp only [reduceCtorEq, if_false] at a
    exact Or.inl ⟨total_congr a.results, hp⟩
  · simp only [reduceCtorEq, if_false] at a
    right
    refine ⟨by rw [startFrom_total hnr hs (by rw [a.nodesLen]; exact hlen), total_congr a.results], ?_⟩
    obtain ⟨n', ph', dir', uid', tag', e⟩ := startFrom_pc hs (by rw [a.workersLen]; exact hw)
    rw [e]; rfl

/-- **the shape of a step**: nothing is appended and the worker ends outside a test; or one placeholder is appended and
the worker ends in a fresh test; or the step is a tick of the result wait -/
theorem resume_shape (g : Graph) (hwf : GraphWF g) (hnr : ∀ n, (g.node n).objectRoot = false) (s : State) (b : Basic g s All)
    (w : Nat) (hw : w < g.workers.length) (out : Outcome) (fuel : Nat) (hf : 0 < fuel) :
    (total g (resume g s w out fuel).1 = total g s ∧ ((resume g s w out fuel).1.wd w).pc.isTest = false) ∨
    (total g (resume g s w out fuel).1 = total g s + 1 ∧ q ((resume g s w out fuel).1.wd w).pc = 0) ∨
    ((s.wd w).pc.isTest = true ∧ total g (resume g s w out fuel).1 = total g s ∧
      q ((resume g s w out fuel).1.wd w).pc = q (s.wd w).pc + 1) := by
  have hws : w < s.workers.length := by rw [b.workersLen]; exact hw
  rcases resume_eff g hwf s w out fuel hf hws (b.paths w) with ⟨hnt, h⟩ | ⟨n, ph, dir, uid, tag, wait, hpc, sa, hrep, h⟩
  · rcases h with ⟨a, hp⟩ | ⟨s1, a, hs⟩
    · exact Or.inl ⟨total_congr a.results, hp⟩
    · right; left
      refine ⟨by rw [startFrom_total hnr hs (by rw [a.nodesLen]; exact b.nodesLen), total_congr a.results], ?_⟩
      obtain ⟨n', ph', dir', uid', tag', e⟩ := startFrom_pc hs (by rw [a.workersLen]; exact hws)
      rw [e]; rfl
  · have hok := b.pcOK w n ph dir uid tag wait trivial hpc
    have hph : ph = .plain := hok.2.2.2.1.mp (hnr n)
    subst hph
    have hsb : SameBook s sa := by
      rcases hrep with ⟨h, _⟩ | ⟨_, _, _, h, _⟩
      · rw [h]; exact ⟨rfl, rfl, rfl⟩
      · exact h
    have ba : Basic g sa All := b.sameBook hsb
    have hpca : (sa.wd w).pc = .test n .plain dir uid tag wait := by rw [hsb.wd]; exact hpc
    have hta : total g sa = total g s := total_congr (fun m => by rw [hsb.nd])
    have hwa : w < sa.workers.length := by rw [ba.workersLen]; exact hw
    rcases h with ⟨e, _, sb, res, ok, hsab, _, ⟨hres, _⟩, hc⟩ | ⟨_, h | hc⟩
    · have bb : Basic g sb All := ba.sameBook hsab
      have hpcb : (sb.wd w).pc = .test n .plain dir uid tag wait := by rw [hsab.wd]; exact hpca
      have htb : total g sb = total g sa := total_congr (fun m => by rw [hsab.nd])
      simp only [reduceCtorEq, if_false] at hc
      have h1 := contEff_shape hnr hc (by unfold settleNd; rw [nodes_length_setNd]; exact bb.nodesLen)
        (by unfold settleNd; show w < sb.workers.length; rw [bb.workersLen]; exact hw)
      rw [total_settle bb hpcb (by decide) (hnr n) res hres, htb, hta] at h1
      rcases h1 with h1 | h1
      · exact Or.inl h1
      · exact Or.inr (Or.inl h1)
    · right; right
      refine ⟨by rw [hpc]; rfl, ?_, ?_⟩
      · rw [h]
        exact (total_congr (fun m => rfl)).trans hta
      · rw [h, wd_setWd_eq sa w _ hwa, hpc]; rfl
    · have h1 := contEff_shape hnr hc ba.nodesLen hwa
      rw [hta] at h1
      rcases h1 with h1 | h1
      · exact Or.inl h1
      · exact Or.inr (Or.inl h1)

/-! ## runs of several workers -/

/-- static hypotheses: a pre-parsed (`noFlatB`: no flat node but the shared root) acyclic graph with edges recorded at
both ends and within range, registers for every class; any number of workers -/
structure StaticN (g : Graph) (ncls : Nat) : Prop where
  ranked : Term.rankedB g = true
  sym : edgeSymB g = true
  flat : Term.noFlatB g = true
  wf : graphWF g = true
  cls : ∀ n, n < g.nodes.length → (g.node n).cls < ncls

/-- a scheduler step: the worker that is resumed, the outcome of the test it awaited (if any), the fuel of the block -/
abbrev StepN := Nat × Outcome × Nat

def stepN (g : Graph) (s : State) (st : StepN) : State := (resume g s st.1 st.2.1 st.2.2).1

/-- the run: one `resume` per entry, any interleaving -/
def runStepsN (g : Graph) (s : State) (steps : List StepN) : State := steps.foldl (stepN g) s

/-- no worker steps after it has waited at occupied nodes for longer than the node's `timeout · max(max_tries, 1)`
(so no `max_concurrent_tries` is ever bumped, `resume_bump_eq`) -/
def Patient (g : Graph) : State → List StepN → Prop
  | _, [] => True
  | s, st :: r => ¬ overWaited g s st.1 ∧ Patient g (stepN g s st) r

/-- the invariant of the runs -/
structure GInvN (g : Graph) (ncls : Nat) (store : List (String × List (String × String))) (s : State) : Prop where
  reachR : ReachableR g ncls store s
  reachF : ReachableF g ncls store s
  noBump : NoBump s
  wait : ∀ v n ph dir uid tag wait, (s.wd v).pc = .test n ph dir uid tag wait → wait ≤ 10

theorem init_wd (g : Graph) (ncls : Nat) (store : List (String × List (String × String))) (v : Nat)
    (hv : v < g.workers.length) : (initState g ncls store []).wd v = { path := [g.root] } := by
  unfold initState State.wd
  simp only [List.getD_eq_getElem?_getD, List.getElem?_map, List.getElem?_eq_getElem hv]
  rfl

theorem init_pc (g : Graph) (ncls : Nat) (store : List (String × List (String × String))) (v : Nat) :
    ((initState g ncls store []).wd v).pc = .loop := by
  by_cases hv : v < g.workers.length
  · rw [init_wd g ncls store v hv]
  · rw [wd_default_of_ge _ v (by simpa [initState] using hv)]

theorem ginvN_init (g : Graph) (ncls : Nat) (store : List (String × List (String × String))) :
    GInvN g ncls store (initState g ncls store []) := by
  refine ⟨.init [], .init [], (ReachableP.init (g := g) (ncls := ncls) (store := store) []).noBump, ?_⟩
  intro v n ph dir uid tag wait e
  rw [init_pc] at e; cases e

/-- what a step of a real worker with positive fuel does to the other workers: nothing -/
theorem resume_others {g : Graph} {ncls : Nat} (st : StaticN g ncls) {store : List (String × List (String × String))}
    {s : State} (h : ReachableF g ncls store s) (w : Nat) (hw : w < g.workers.length) (out : Outcome) (fuel : Nat)
    (hf : 0 < fuel) (v : Nat) (hv : v ≠ w) : (resume g s w out fuel).1.wd v = s.wd v := by
  have hsym := edgeSymB_sound st.sym
  have hr := Term.rankedB_sound st.ranked
  exact (Term.resume_loc g (Term.depth g) hr hsym s w out fuel hf hw (h.pinv hsym) (Term.reachable_tinv hr hsym st.cls h)).others v hv

theorem ginvN_step {g : Graph} {ncls : Nat} (st : StaticN g ncls) {store : List (String × List (String × String))} {s : State}
    (h : GInvN g ncls store s) (w : Nat) (hw : w < g.workers.length) (out : Outcome) (fuel : Nat) (hf : 0 < fuel)
    (hb : ∀ i, ((resume g s w out fuel).1.nd i).bump = (s.nd i).bump) : GInvN g ncls store (resume g s w out fuel).1 := by
  have b := h.reachR.basic st.wf
  refine ⟨.step w out fuel h.reachR hw hf, .step s w out fuel h.reachF hw hf, fun i => (hb i).trans (h.noBump i), ?_⟩
  intro v
  by_cases hv : v = w
  · subst hv
    exact resume_wait g (GraphWF.of_bool st.wf) s v out fuel hf (by rw [b.workersLen]; exact hw) (b.paths v) (h.wait v)
  · rw [resume_others st h.reachF w hw out fuel hf v hv]
    exact h.wait v

/-- a step of a worker whose traversal is over changes nothing -/
theorem resume_overN (g : Graph) (s : State) (w : Nat) (out : Outcome) (fuel : Nat) (h : isOver (s.wd w).pc = true) :
    (resume g s w out fuel).1 = s := by
  unfold resume
  split
  · next heq => rw [heq] at h; cases h
  · next heq => rw [heq] at h; cases h
  · next heq => rw [heq] at h; cases h
  · rfl
  · rfl

/-- a step of a worker that is in the loop or wakes up from a back-off sleep ends — with `fuel ≥ bound g` — inside a test,
in a back-off sleep, done or dead: the block does not run out of fuel -/
theorem resume_loop_pcEnd {g : Graph} {ncls : Nat} (st : StaticN g ncls) {store : List (String × List (String × String))}
    {s : State} (h : GInvN g ncls store s) (w : Nat) (hw : w < g.workers.length) (out : Outcome) (fuel : Nat)
    (hf : Term.bound g ≤ fuel) (hpc : (s.wd w).pc = .loop ∨ (s.wd w).pc = .bounce) :
    pcEnd ((resume g s w out fuel).1.wd w).pc = true := by
  have hsym := edgeSymB_sound st.sym
  have hr := Term.rankedB_sound st.ranked
  have b := h.reachR.basic st.wf
  have hg : Term.Good g (Term.depth g) w s :=
    Term.reachable_good hr hsym st.cls h.reachF (Term.explored_of_noFlat st.flat s) w
  obtain ⟨r, h2, h3⟩ := Term.runLoop_terminates g (Term.depth g) hr hsym w s [] hg fuel hf
  have he : resume g s w out fuel = runLoop g w fuel s [] := by
    unfold resume
    rcases hpc with e | e <;> rw [e]
  rw [he, h3]
  exact runLoopO_pcEnd g (GraphWF.of_bool st.wf) w (Term.bound g) s [] r (by rw [b.workersLen]; exact hw) (b.paths w) h2

/-! ## productive steps -/

/-- a step is productive unless it is a back-off wake-up that ends in a back-off sleep again, or a step of a worker whose
traversal is over: `before`/`after` = the program counter of the stepping worker before and after the step -/
def productive (before after : Pc) : Bool :=
  match before with
  | .test .. => true
  | .loop | .bounce => (match after with | .bounce => false | _ => true)
  | .done | .failed => false

/-- number of productive steps of a run -/
def productiveSteps (g : Graph) : State → List StepN → Nat
  | _, [] => 0
  | s, st :: r =>
    (if productive (s.wd st.1).pc ((stepN g s st).wd st.1).pc then 1 else 0) + productiveSteps g (stepN g s st) r

/-- the counter never falls and grows with every productive step -/
theorem step_cntN {g : Graph} {ncls : Nat} (st : StaticN g ncls) (hnr : noRootsB g = true)
    {store : List (String × List (String × String))} {s : State} (h : GInvN g ncls store s) (w : Nat)
    (hw : w < g.workers.length) (out : Outcome) (fuel : Nat) (hf : Term.bound g ≤ fuel) :
    cntN g s + (if productive (s.wd w).pc ((resume g s w out fuel).1.wd w).pc then 1 else 0) ≤
      cntN g (resume g s w out fuel).1 := by
  have hf0 : 0 < fuel := Nat.lt_of_lt_of_le (bound_pos g) hf
  by_cases hov : isOver (s.wd w).pc = true
  · rw [resume_overN g s w out fuel hov]
    have : productive (s.wd w).pc (s.wd w).pc = false := by
      cases hpc : (s.wd w).pc <;> rw [hpc] at hov <;> first | (cases hov; done) | rfl
    rw [this]; simp
  · have b := h.reachR.basic st.wf
    have hq := qsum_step (g := g) hw (resume_others st h.reachF w hw out fuel hf0)
    have hsh := resume_shape g (GraphWF.of_bool st.wf) (noRoots_spec hnr) s b w hw out fuel hf0
    have hwt := h.wait w
    unfold cntN
    generalize hs' : (resume g s w out fuel).1 = s' at hq hsh ⊢
    cases hpc : (s.wd w).pc with
    | done => rw [hpc] at hov; exact absurd rfl hov
    | failed => rw [hpc] at hov; exact absurd rfl hov
    | test n ph dir uid tag wait =>
      have hw10 := hwt n ph dir uid tag wait hpc
      rw [hpc] at hq hsh
      have hprod : productive (.test n ph dir uid tag wait) (s'.wd w).pc = true := rfl
      rw [hprod]
      rw [show q (Pc.test n ph dir uid tag wait) = wait from rfl] at hq hsh
      simp only [if_true]
      rcases hsh with ⟨h1, h2⟩ | ⟨h1, h2⟩ | ⟨_, h1, h2⟩
      · have := q_nonTest h2; omega
      · omega
      · omega
    | loop =>
      have hend := resume_loop_pcEnd st h w hw out fuel hf (Or.inl hpc)
      rw [hs'] at hend
      rw [hpc] at hq hsh
      rw [show q Pc.loop = 12 from rfl] at hq
      rcases hsh with ⟨h1, h2⟩ | ⟨h1, h2⟩ | ⟨h0, _, _⟩
      · have h12 := q_nonTest h2
        by_cases hbn : (s'.wd w).pc = .bounce
        · rw [hbn] at hq ⊢
          have hqb : q Pc.bounce = 12 := rfl
          simp only [productive, Bool.false_eq_true, if_false]; omega
        · have := q_over h2 hend hbn
          split <;> omega
      · split <;> omega
      · cases h0
    | bounce =>
      have hend := resume_loop_pcEnd st h w hw out fuel hf (Or.inr hpc)
      rw [hs'] at hend
      rw [hpc] at hq hsh
      rw [show q Pc.bounce = 12 from rfl] at hq
      rcases hsh with ⟨h1, h2⟩ | ⟨h1, h2⟩ | ⟨h0, _, _⟩
      · have h12 := q_nonTest h2
        by_cases hbn : (s'.wd w).pc = .bounce
        · rw [hbn] at hq ⊢
          have hqb : q Pc.bounce = 12 := rfl
          simp only [productive, Bool.false_eq_true, if_false]; omega
        · have := q_over h2 hend hbn
          split <;> omega
      · split <;> omega
      · cases h0

theorem runStepsN_cons (g : Graph) (s : State) (a : StepN) (r : List StepN) :
    runStepsN g s (a :: r) = runStepsN g (stepN g s a) r := rfl

/-- along every patient run: the invariant holds and the counter has grown by at least the number of productive steps -/
theorem run_cntN {g : Graph} {ncls : Nat} (st : StaticN g ncls) (hnr : noRootsB g = true)
    {store : List (String × List (String × String))} (steps : List StepN) (s : State) (h : GInvN g ncls store s)
    (hreal : ∀ x ∈ steps, x.1 < g.workers.length) (hfuel : ∀ x ∈ steps, Term.bound g ≤ x.2.2)
    (hpat : Patient g s steps) :
    GInvN g ncls store (runStepsN g s steps) ∧
      cntN g s + productiveSteps g s steps ≤ cntN g (runStepsN g s steps) := by
  induction steps generalizing s with
  | nil => exact ⟨h, Nat.le_refl _⟩
  | cons a r ih =>
    have hw := hreal a List.mem_cons_self
    have hf := hfuel a List.mem_cons_self
    have hf0 : 0 < a.2.2 := Nat.lt_of_lt_of_le (bound_pos g) hf
    have h1 : GInvN g ncls store (stepN g s a) :=
      ginvN_step st h a.1 hw a.2.1 a.2.2 hf0 (resume_bump_eq g s a.1 a.2.1 a.2.2 hpat.1)
    have c1 := step_cntN st hnr h a.1 hw a.2.1 a.2.2 hf
    obtain ⟨y1, y2⟩ := ih (stepN g s a) h1 (fun x hx => hreal x (List.mem_cons_of_mem _ hx))
      (fun x hx => hfuel x (List.mem_cons_of_mem _ hx)) hpat.2
    rw [runStepsN_cons]
    refine ⟨y1, ?_⟩
    have e : productiveSteps g s (a :: r) =
        (if productive (s.wd a.1).pc ((stepN g s a).wd a.1).pc then 1 else 0) + productiveSteps g (stepN g s a) r := rfl
    rw [e]
    unfold stepN at y2 ⊢
    omega

/-! ## the number of results is bounded by the retry budgets, for any number of workers -/

/-- a copy of a setup class that has results is counted by the worker that cares for it -/
theorem len_le_scopedLen {g : Graph} {c : Nat} {M : Option Int} {sh : Shape} (hC : BClass g c M sh) {s : State}
    (b : BInv g c M sh s All) (n : Nat) (hn : n < g.nodes.length) (hc : (g.node n).cls = c)
    (hne : (s.nd n).results ≠ []) :
    ∃ u, u < g.workers.length ∧ (s.nd n).results.length ≤ scopedLen g s c sh u := by
  have key : ∃ u, u < g.workers.length ∧ g.idIn u n = true := by
    rcases b.p1 n hn hc hne with ⟨u, tag, _, ⟨ph, dir, uid, wait, hpc, _⟩, _⟩ | ⟨u, hu, hid, _⟩
    · obtain ⟨_, _, hid, _⟩ := b.infl u trivial n ph dir uid tag wait hpc hc
      have hu : u < s.workers.length := lt_of_isTest s u (by rw [hpc]; rfl)
      rw [b.workersLen] at hu
      exact ⟨u, hu, hid⟩
    · exact ⟨u, hu, hid⟩
  obtain ⟨u, hu, hid⟩ := key
  refine ⟨u, hu, ?_⟩
  have hseen : seen g sh u n = true := by
    rw [hC.scope n hn hc u u hu hu hid]; exact inScopeOf_self sh g u
  have := Term.le_sum_of_mem (g.classNodes c) (fun j => if seen g sh u j then (s.nd j).results.length else 0) n
    ((mem_classNodes g c n).mpr ⟨hn, hc⟩)
  simp only [hseen, if_true] at this
  exact this

/-- **the number of results never exceeds `resultBound g = Σ_n max(max_tries n, 1)`** in a reachable state without bumps,
whatever the number of workers -/
theorem total_le_resultBoundN {g : Graph} (hwf : graphWF g = true) (hcl : classesOKB g = true) {ncls : Nat}
    {store : List (String × List (String × String))} {s : State} (hR : ReachableR g ncls store s) (hnb : NoBump s) :
    total g s ≤ resultBound g := by
  refine sum_map_le _ _ _ (fun n hn => ?_)
  have hn' : n < g.nodes.length := List.mem_range.mp hn
  unfold classesOKB at hcl
  rw [List.all_eq_true] at hcl
  have hc := hcl n hn
  rw [Bool.or_eq_true, Bool.and_eq_true] at hc
  rcases hc with hc | ⟨hc, hm⟩
  · have hle : (s.nd n).results.length ≤ classLen g s (g.node n).cls :=
      Term.le_sum_of_mem (g.classNodes (g.node n).cls) (fun j => (s.nd j).results.length) n
        ((mem_classNodes g _ n).mpr ⟨hn', rfl⟩)
    have := hR.budget hwf (g.node n).cls (g.node n).maxTries hc
    omega
  · have hC := statefulClass_spec hc
    have b := hR.binv hwf hC
    by_cases hne : (s.nd n).results = []
    · rw [hne]; exact Nat.zero_le _
    · obtain ⟨u, hu, h1⟩ := len_le_scopedLen hC b n hn' rfl hne
      have h2 := b.budget u hu [] List.nodup_nil (fun v hv => by cases hv)
      have h3 := classLimit_le_of_mctWithin hC hm s hnb
      simp only [List.length_nil, Nat.add_zero] at h2
      omega

theorem qsum_le {g : Graph} {s : State}
    (h : ∀ v n ph dir uid tag wait, (s.wd v).pc = .test n ph dir uid tag wait → wait ≤ 10) :
    qsum g s ≤ 13 * g.workers.length := by
  have := sum_map_const_le (List.range g.workers.length) (fun v => q (s.wd v).pc) 13 (fun v _ => q_le (h v))
  rwa [List.length_range] at this

/-- **the number of productive steps of a patient run is at most `24·resultBound g + |workers|`** -/
theorem productive_le {g : Graph} {ncls : Nat} (st : StaticN g ncls) (hnr : noRootsB g = true) (hcl : classesOKB g = true)
    (store : List (String × List (String × String))) (steps : List StepN)
    (hreal : ∀ x ∈ steps, x.1 < g.workers.length) (hfuel : ∀ x ∈ steps, Term.bound g ≤ x.2.2)
    (hpat : Patient g (initState g ncls store []) steps) :
    productiveSteps g (initState g ncls store []) steps ≤ 24 * resultBound g + g.workers.length := by
  obtain ⟨y, c⟩ := run_cntN st hnr steps _ (ginvN_init g ncls store) hreal hfuel hpat
  have h1 := total_le_resultBoundN st.wf hcl y.reachR y.noBump
  have h2 := qsum_le (g := g) y.wait
  have h3 : 12 * g.workers.length ≤ qsum g (initState g ncls store []) := by
    have := sum_map_const_ge (List.range g.workers.length) (fun v => q ((initState g ncls store []).wd v).pc) 12
      (fun v _ => by rw [init_pc]; exact Nat.le_refl _)
    rwa [List.length_range] at this
  unfold cntN at c
  omega

/-- what a step that is not counted looks like: a step of a worker whose traversal is over (nothing changes), or a worker in
the loop / waking up from a back-off sleep goes to sleep (again) -/
theorem unproductive_step (g : Graph) (s : State) (w : Nat) (out : Outcome) (fuel : Nat)
    (h : productive (s.wd w).pc ((resume g s w out fuel).1.wd w).pc = false) :
    (isOver (s.wd w).pc = true ∧ (resume g s w out fuel).1 = s) ∨
    (((s.wd w).pc = .loop ∨ (s.wd w).pc = .bounce) ∧ ((resume g s w out fuel).1.wd w).pc = .bounce) := by
  cases hpc : (s.wd w).pc with
  | test n ph dir uid tag wait => rw [hpc] at h; cases h
  | done => exact Or.inl ⟨rfl, resume_overN g s w out fuel (by rw [hpc]; rfl)⟩
  | failed => exact Or.inl ⟨rfl, resume_overN g s w out fuel (by rw [hpc]; rfl)⟩
  | loop =>
    rw [hpc] at h
    right
    refine ⟨Or.inl rfl, ?_⟩
    cases hpc' : ((resume g s w out fuel).1.wd w).pc <;> rw [hpc'] at h <;> first | rfl | cases h
  | bounce =>
    rw [hpc] at h
    right
    refine ⟨Or.inr rfl, ?_⟩
    cases hpc' : ((resume g s w out fuel).1.wd w).pc <;> rw [hpc'] at h <;> first | rfl | cases h

/-! ## a back-off sleep needs a runner: the walk -/

/-- every worker but `w` is neither inside a test nor dead -/
def Quiet (w : Nat) (s : State) : Prop := ∀ v, v ≠ w → (s.wd v).pc.node? = none ∧ (s.wd v).pc ≠ .failed

theorem Quiet.of_eq {w : Nat} {s s' : State} (h : Quiet w s) (e : ∀ v, v ≠ w → (s'.wd v).pc = (s.wd v).pc) : Quiet w s' :=
  fun v hv => by rw [e v hv]; exact h v hv

/-- when the others are quiet, nobody holds a mark while `w` is in its loop -/
theorem noMarks_of_quiet {g : Graph} {s : State} {w : Nat} (ho : PInvO g s w) (hq : Quiet w s) :
    ∀ i, (s.nd i).started = none := by
  intro i
  cases h : (s.nd i).started with
  | none => rfl
  | some v =>
    exfalso
    obtain ⟨hv, hpc⟩ := ho.markPc i v h
    obtain ⟨h1, h2⟩ := hq v hv
    rcases hpc with h' | h'
    · rw [h1] at h'; cases h'
    · exact h2 h'

/-- an iteration that neither suspends nor leaves the loop nor raises keeps the program counter -/
theorem traverseNode_contPc (gv : Graph) (hsym : EdgeSym gv) (s : State) (w next prev : Nat) (dir : Dir)
    (hw : w < s.workers.length) (hlast : (s.wd w).path.getLast? = some next) (hlen : 2 ≤ (s.wd w).path.length)
    (hc : (traverseNode gv s w next prev dir).2.2 = .cont) :
    ((traverseNode gv s w next prev dir).1.wd w).pc = (s.wd w).pc := by
  unfold traverseNode at hc ⊢
  by_cases hocc : isOccupied gv s next w = true
  · simp only [hocc, if_true]
    exact (afterTraverse_ok gv hsym s w next prev dir hw hlast hlen).2.1
  · simp only [hocc, Bool.false_eq_true, if_false] at hc ⊢
    have qE : Qt w (some next) s (s.setNd next (fun d => { d with started := some w })) := qt_enter w s next
    have qP0 : Qt w none (s.setNd next (fun d => { d with started := some w }))
        (pullLocations gv (s.setNd next (fun d => { d with started := some w })) next) := qt_pullLocations w none gv _ next
    cases hd : runDecision gv (pullLocations gv (s.setNd next (fun d => { d with started := some w })) next) next w with
    | error e => rw [hd] at hc; cases hc
    | ok r =>
      obtain ⟨run, s1, evs⟩ := r
      have q10 : Qt w none (s.setNd next (fun d => { d with started := some w })) s1 :=
        qP0.trans (qt_runDecision w none gv _ next w run s1 evs hd)
      rw [hd] at hc
      dsimp only at hc ⊢
      by_cases hrun : run = true
      · subst hrun
        exfalso
        simp only [if_true] at hc
        by_cases hroot : (gv.node next).objectRoot = true
        · simp only [hroot, if_true, startTest_flow] at hc; cases hc
        · simp only [hroot, Bool.false_eq_true, if_false, startTest_flow] at hc; cases hc
      · simp only [hrun, Bool.false_eq_true, if_false] at hc ⊢
        have qF : Qt w none s (finishTraverse s1 next w) := enter_finish_qt w s s1 next q10
        have hwF : w < (finishTraverse s1 next w).workers.length := by rw [qF.workers]; exact hw
        have b := (afterTraverse_ok gv hsym (finishTraverse s1 next w) w next prev dir hwF
          (by rw [qF.wd w]; exact hlast) (by rw [qF.wd w]; exact hlen)).2.1
        rw [qF.wd w] at b
        exact b

theorem iter_contPc (gv : Graph) (hsym : EdgeSym gv) (s : State) (w : Nat) (hc : (iter gv s w).2.2 = .cont) :
    ((iter gv s w).1.wd w).pc = (s.wd w).pc := by
  unfold iter at hc ⊢
  dsimp only at hc ⊢
  split at hc
  · split at hc <;> cases hc
  · rename_i hroot
    simp only [hroot]
    cases hl : (s.wd w).path.getLast? with
    | none => rw [hl] at hc; cases hc
    | some next =>
      have hne : (s.wd w).path ≠ [] := by intro h; rw [h] at hl; simp at hl
      have hw : w < s.workers.length := lt_of_path_ne_nil s w hne
      rw [hl] at hc
      dsimp only at hc ⊢
      have push : ∀ (s1 : State) (c : Nat), Qt w none s s1 → ((pushPath s1 w c).wd w).pc = (s.wd w).pc := by
        intro s1 c q1
        unfold pushPath
        rw [q1.eff.wd_setWd hw, q1.wd w]
      split at hc
      · rename_i h1
        simp only [h1, if_true]
        cases hp : pickChild gv s next w with
        | none => rw [hp] at hc; cases hc
        | some r =>
          obtain ⟨c, s1⟩ := r
          exact push s1 c (pickChild_qt w none gv s next w c s1 hp)
      · rename_i hlen1
        simp only [hlen1]
        have hlen : 2 ≤ (s.wd w).path.length := by
          have h0 : 0 < (s.wd w).path.length := List.length_pos_iff.mpr hne
          have h1 : (s.wd w).path.length ≠ 1 := by simpa using hlen1
          omega
        split at hc
        · cases hc
        · rename_i hocc
          simp only [hocc]
          split at hc
          · rename_i hcl
            simp only [hcl, if_true]
            split at hc
            · rename_i hsr
              simp only [hsr, if_true]
              exact traverseNode_contPc gv hsym s w next _ .up hw hl hlen hc
            · rename_i hsr
              simp only [hsr]
              cases hp : pickParent gv s next w with
              | none => rw [hp] at hc; cases hc
              | some r =>
                obtain ⟨c, s1⟩ := r
                exact push s1 c (pickParent_qt w none gv s next w c s1 hp)
          · rename_i hcl
            simp only [hcl]
            split at hc
            · rename_i hsu
              simp only [hsu, if_true]
              split at hc
              · rename_i hsr
                simp only [hsr, if_true]
                cases hp : pickParent gv s next w with
                | none => rw [hp] at hc; cases hc
                | some r =>
                  obtain ⟨c, s1⟩ := r
                  exact push s1 c (pickParent_qt w none gv s next w c s1 hp)
              · rename_i hsr
                simp only [hsr]
                exact traverseNode_contPc gv hsym s w next _ .down hw hl hlen hc
            · cases hc

theorem iterL_contPc (g : Graph) (hsym : EdgeSym g) (s : State) (w : Nat) (hc : (iterL g s w).2.2 = .cont) :
    ((iterL g s w).1.wd w).pc = (s.wd w).pc := by
  unfold iterL at hc ⊢
  split at hc
  · rename_i h1
    simp only [h1, if_true]
    exact iter_contPc (vis g s) (edgeSym_vis g s hsym) s w hc
  · rename_i h1
    simp only [h1, Bool.false_eq_true, if_false]
    dsimp only at hc ⊢
    rw [iter_contPc (vis g (prepare g s w)) (edgeSym_vis g _ hsym) (prepare g s w) w hc]
    exact ((prepare_frame g s w).2.2.1 w).2

/-- an iteration of `w` leaves the program counters of the others alone -/
theorem iterL_others_pc (g : Graph) (hsym : EdgeSym g) (s : State) (w v : Nat) (hv : v ≠ w) :
    ((iterL g s w).1.wd v).pc = (s.wd v).pc := by
  obtain ⟨s1, hs1, _, hok⟩ := iterL_ok g hsym s w
  have h1 : (s1.wd v).pc = (s.wd v).pc := by
    rcases hs1 with h | h
    · rw [h]
    · rw [h]; exact ((prepare_frame g s w).2.2.1 v).2
  rcases hok with ⟨he, _⟩ | ⟨_, _, _, he, _⟩
  · rw [he.others v hv, h1]
  · rw [he.others v hv, h1]

/-- the loop of `w` while the others are quiet: it never ends in the back-off sleep, bumps nothing and leaves the back-off
record alone -/
theorem runLoop_quiet (g : Graph) (hsym : EdgeSym g) (w fuel : Nat) (s : State) (evs : List Event) (ho : PInvO g s w)
    (hp : PathOK (Adj (vis g s)) (fun x => relevant g w x = true) g.root (s.wd w).path)
    (hw : w < s.workers.length) (hq : Quiet w s) (hpc : fuel = 0 → (s.wd w).pc ≠ .bounce) :
    ((runLoop g w fuel s evs).1.wd w).pc ≠ .bounce ∧ Calm w s (runLoop g w fuel s evs).1 := by
  induction fuel generalizing s evs with
  | zero => exact ⟨hpc rfl, Calm.refl w s⟩
  | succ fuel ih =>
    unfold runLoop
    dsimp only
    have e0 : Eff w none s (s.setWd w (fun d => { d with pc := .loop })) := eff_setWd w none s _
    have c0 : Calm w s (s.setWd w (fun d => { d with pc := .loop })) := calm_setWd w s w _ (fun _ => rfl) (fun _ => rfl)
    have hwd := wd_setWd_eq s w (fun d => { d with pc := .loop }) hw
    have ho0 : PInvO g (s.setWd w (fun d => { d with pc := .loop })) w :=
      ho.transfer e0.workersLen (fun x hx => by rw [← e0.hidden]; exact hx)
        (fun v hv => by rw [e0.others v hv]; exact ⟨rfl, rfl⟩) (fun i => Or.inl rfl)
    have hp0 : PathOK (Adj (vis g (s.setWd w (fun d => { d with pc := .loop })))) (fun x => relevant g w x = true) g.root
        ((s.setWd w (fun d => { d with pc := .loop })).wd w).path := by
      rw [hwd]
      exact hp.mono (fun a b => adj_vis_mono g s _ (fun x hx => by rw [← e0.hidden]; exact hx) a b)
    have hw0 : w < (s.setWd w (fun d => { d with pc := .loop })).workers.length := by rw [e0.workersLen]; exact hw
    have hq0 : Quiet w (s.setWd w (fun d => { d with pc := .loop })) := hq.of_eq (fun v hv => by rw [e0.others v hv])
    obtain ⟨hl, hcont, _, _⟩ := iterL_inv g hsym _ w ho0 hp0 (by rw [hwd]; rfl)
    have hit := iterL_noMarks g _ w hw0 (noMarks_of_quiet ho0 hq0)
    have hoth := iterL_others_pc g hsym (s.setWd w (fun d => { d with pc := .loop })) w
    have hcp := iterL_contPc g hsym (s.setWd w (fun d => { d with pc := .loop })) w
    split
    · next s1 e heq =>
      rw [heq] at hcont hl hit hoth hcp
      obtain ⟨a, b, _⟩ := hcont rfl
      have hpc1 : (s1.wd w).pc ≠ .bounce := by
        have := hcp rfl
        dsimp only at this
        rw [this, hwd]; simp
      obtain ⟨q1, q2⟩ := ih s1 _ a b (by rw [hl]; exact hw0) (hq0.of_eq (fun v hv => hoth v hv)) (fun _ => hpc1)
      exact ⟨q1, (c0.trans hit.calm).trans q2⟩
    · next s1 e heq =>
      rw [heq] at hit
      refine ⟨?_, c0.trans hit.calm⟩
      have := hit.susp rfl
      dsimp only at this ⊢
      intro hb; rw [hb] at this; cases this
    · next s1 e heq =>
      rw [heq] at hit
      refine ⟨?_, c0.trans hit.calm⟩
      have := hit.exit rfl
      dsimp only at this ⊢
      rw [this]; simp
    · next s1 e what heq =>
      rw [heq] at hit hl
      refine ⟨?_, (c0.trans hit.calm).trans (calm_setWd w s1 w _ (fun _ => rfl) (fun _ => rfl))⟩
      show ((s1.setWd w _).wd w).pc ≠ .bounce
      rw [wd_setWd_eq s1 w _ (by rw [hl]; exact hw0)]; simp

theorem continueAfter_quiet (g : Graph) (hsym : EdgeSym g) (w n : Nat) (phase : Phase) (dir : Dir) (fuel : Nat)
    (hf : 0 < fuel) (s : State) (ok : Bool) (evs : List Event) (h : PInv g s) (hpcw : (s.wd w).pc.node? = some n)
    (hq : Quiet w s) :
    ((resumeTest.continueAfter g w n phase dir fuel s ok evs).1.wd w).pc ≠ .bounce ∧
      Calm w s (resumeTest.continueAfter g w n phase dir fuel s ok evs).1 := by
  obtain ⟨hid, hlast, hlen⟩ := h.testOwn w n hpcw
  have hw : w < s.workers.length := lt_of_path_ne_nil s w (by intro h0; rw [h0] at hlen; simp at hlen)
  unfold resumeTest.continueAfter
  dsimp only
  split
  · refine ⟨?_, calm_startTest w g s n w .main dir⟩
    show ((startTest g s n w .main dir).1.wd w).pc ≠ .bounce
    rw [startTest_pc g s n w .main dir hw]; simp
  · have q2 : Qt w none s (if (phase == Phase.pre) = true then
          s.setNd n (fun d => { d with results := d.results ++ (s.wd w).preResults.drop d.results.length })
        else s) := by
      split
      · refine qt_setNd w none s n _ ?_
        intro d; exact Or.inl rfl
      · exact Qt.refl _ _ _
    have c2 : Calm w s (if (phase == Phase.pre) = true then
          s.setNd n (fun d => { d with results := d.results ++ (s.wd w).preResults.drop d.results.length })
        else s) := by
      split
      · exact calm_setNd w s n _ (fun _ => rfl)
      · exact Calm.refl w s
    obtain ⟨hoF, hpF, hlF, hnF, hwF, _⟩ := h.finish hpcw q2
    have qF := q2.trans (qt_finishTraverse w none _ n w)
    have cF := c2.trans (calm_finishTraverse w _ n w)
    generalize hsF : finishTraverse (if (phase == Phase.pre) = true then
          s.setNd n (fun d => { d with results := d.results ++ (s.wd w).preResults.drop d.results.length })
        else s) n w = sF at hoF hpF hlF hnF hwF qF cF
    have hqF : Quiet w sF := hq.of_eq (fun v _ => by rw [qF.wd v])
    obtain ⟨a, b, c, _⟩ := afterTraverse_ok (vis g sF) (edgeSym_vis g sF hsym) sF w n
      ((s.wd w).path.getD ((s.wd w).path.length - 2) 0) dir hwF hlF hnF
    have cA := cF.trans (calm_afterTraverse w (vis g sF) sF w n ((s.wd w).path.getD ((s.wd w).path.length - 2) 0) dir)
    generalize afterTraverse (vis g sF) sF w n ((s.wd w).path.getD ((s.wd w).path.length - 2) 0) dir = r at a b c cA
    have hhid : ∀ x, x ∈ r.1.hidden → x ∈ sF.hidden := by intro x hx; rw [← a.hidden]; exact hx
    have ho' : PInvO g r.1 w := hoF.transfer a.workersLen hhid (fun v hv => by rw [a.others v hv]; exact ⟨rfl, rfl⟩)
      (fun i => by
        rcases a.marks i with h' | h' | h'
        · exact Or.inl h'
        · exact Or.inr h'
        · exact absurd h'.1 (by simp))
    have hp' := pathOK_eff g sF r.1 w _ _ hhid hpF c
    have hw' : w < r.1.workers.length := by rw [a.workersLen]; exact hwF
    have hq' : Quiet w r.1 := hqF.of_eq (fun v hv => by rw [a.others v hv])
    obtain ⟨s1, e2, fl⟩ := r
    have loopCase : ∀ evs', ((runLoop g w fuel s1 evs').1.wd w).pc ≠ .bounce ∧ Calm w s (runLoop g w fuel s1 evs').1 := by
      intro evs'
      obtain ⟨x1, x2⟩ := runLoop_quiet g hsym w fuel s1 evs' ho' hp' hw' hq' (fun h0 => by omega)
      exact ⟨x1, cA.trans x2⟩
    cases fl with
    | raise what =>
      dsimp only
      refine ⟨?_, cA.trans (calm_setWd w s1 w _ (fun _ => rfl) (fun _ => rfl))⟩
      rw [wd_setWd_eq s1 w _ hw']; simp
    | cont => exact loopCase _
    | suspend => exact loopCase _
    | exit => exact loopCase _

theorem resumeTest_quiet (g : Graph) (hsym : EdgeSym g) (s : State) (w n : Nat) (phase : Phase) (dir : Dir) (uid : String)
    (tag wait : Nat) (out : Outcome) (fuel : Nat) (hf : 0 < fuel) (h : PInv g s) (hpcw : (s.wd w).pc.node? = some n)
    (hq : Quiet w s) :
    ((resumeTest g s w n phase dir uid tag wait out fuel).1.wd w).pc ≠ .bounce ∧
      Calm w s (resumeTest g s w n phase dir uid tag wait out fuel).1 := by
  rw [resumeTest_eq]
  obtain ⟨r1, r2, r3⟩ := reportOutcome_frame g s w n phase uid wait out
  have bA : BookOnly s (reportOutcome g s w n phase uid wait out).1 :=
    ⟨by rw [r2], r3, fun v => by unfold State.wd; rw [r2]; exact ⟨rfl, rfl⟩, fun i => by unfold State.nd; rw [r1]⟩
  have hA := h.bookOnly bA
  have cA : Calm w s (reportOutcome g s w n phase uid wait out).1 := Calm.quiet r1 r2
  have hpcA : ((reportOutcome g s w n phase uid wait out).1.wd w).pc.node? = some n := by rw [(bA.wd w).2]; exact hpcw
  have hqA : Quiet w (reportOutcome g s w n phase uid wait out).1 := hq.of_eq (fun v _ => (bA.wd v).2)
  generalize (reportOutcome g s w n phase uid wait out).1 = sa at hA hpcA bA cA hqA
  have hwA : w < sa.workers.length := by
    obtain ⟨_, _, hlen⟩ := hA.testOwn w n hpcA
    exact lt_of_path_ne_nil sa w (by intro h0; rw [h0] at hlen; simp at hlen)
  have waitCase : ∀ k, ((sa.setWd w (fun d => { d with pc := .test n phase dir uid tag k })).wd w).pc ≠ .bounce ∧
      Calm w s (sa.setWd w (fun d => { d with pc := .test n phase dir uid tag k })) := by
    intro k
    refine ⟨?_, cA.trans (calm_setWd w sa w _ (fun _ => rfl) (fun _ => rfl))⟩
    rw [wd_setWd_eq sa w _ hwA]; simp
  split
  · next st0 dur _ =>
    have bB := recordResult_frame sa w n phase (if (phase == Phase.pre) = true then (s.wd w).preName else (g.node n).name) uid tag st0 dur
    have cB := calm_recordResult w sa w n phase (if (phase == Phase.pre) = true then (s.wd w).preName else (g.node n).name) uid tag st0 dur
    obtain ⟨x1, x2⟩ := continueAfter_quiet g hsym w n phase dir fuel hf _
      (recordResult sa w n phase (if (phase == Phase.pre) = true then (s.wd w).preName else (g.node n).name) uid tag st0 dur).2
      (reportOutcome g s w n phase uid wait out).2
      (hA.bookOnly bB) (by rw [(bB.wd w).2]; exact hpcA) (hqA.of_eq (fun v _ => (bB.wd v).2))
    exact ⟨x1, (cA.trans cB).trans x2⟩
  · split
    · exact waitCase _
    · split
      · exact waitCase _
      · obtain ⟨x1, x2⟩ := continueAfter_quiet g hsym w n phase dir fuel hf sa false
          (reportOutcome g s w n phase uid wait out).2 hA hpcA hqA
        exact ⟨x1, cA.trans x2⟩

/-- **A step that ends in the back-off sleep needs a runner** (contrapositive form): in a state satisfying the progress
invariant `PInv`, if every worker but `w` is neither inside a test nor dead, a step of `w` with positive fuel does not end
in the back-off sleep; it bumps nothing and leaves `w`'s back-off record as it is. -/
theorem resume_quiet (g : Graph) (hsym : EdgeSym g) (s : State) (w : Nat) (out : Outcome) (fuel : Nat) (hf : 0 < fuel)
    (hw : w < g.workers.length) (h : PInv g s) (hq : Quiet w s) :
    ((resume g s w out fuel).1.wd w).pc ≠ .bounce ∧ Calm w s (resume g s w out fuel).1 := by
  have hws : w < s.workers.length := by rw [h.wlen]; exact hw
  have loopCase : (s.wd w).pc.node? = none → (s.wd w).pc ≠ .failed → (s.wd w).pc ≠ .done →
      ((runLoop g w fuel s []).1.wd w).pc ≠ .bounce ∧ Calm w s (runLoop g w fuel s []).1 := by
    intro h2 h3 h4
    refine runLoop_quiet g hsym w fuel s [] (h.toO h2 h3) ?_ hws hq (fun h0 => by omega)
    rcases h.path w hws with h' | h'
    · exact absurd h'.2 h4
    · exact h'
  unfold resume
  split
  · next heq => exact loopCase (by rw [heq]; rfl) (by rw [heq]; simp) (by rw [heq]; simp)
  · next heq => exact loopCase (by rw [heq]; rfl) (by rw [heq]; simp) (by rw [heq]; simp)
  · next n phase dir uid tag wait heq =>
    exact resumeTest_quiet g hsym s w n phase dir uid tag wait out fuel hf h (by rw [heq]; rfl) hq
  · next heq => exact ⟨by rw [heq]; simp, Calm.refl w s⟩
  · next heq => exact ⟨by rw [heq]; simp, Calm.refl w s⟩

/-- a worker that is inside a test or dead is a real worker -/
theorem real_of_runner {s : State} {v : Nat} (h : (s.wd v).pc.node? ≠ none ∨ (s.wd v).pc = .failed) :
    v < s.workers.length := by
  by_cases hl : v < s.workers.length
  · exact hl
  · exfalso
    rw [wd_default_of_ge s v hl] at h
    rcases h with h | h
    · exact h rfl
    · cases h

/-- **a step that ends in the back-off sleep needs a runner**: some OTHER real worker is inside a test or dead -/
theorem bounce_has_runner (g : Graph) (hsym : EdgeSym g) (s : State) (w : Nat) (out : Outcome) (fuel : Nat) (hf : 0 < fuel)
    (hw : w < g.workers.length) (h : PInv g s) (hb : ((resume g s w out fuel).1.wd w).pc = .bounce) :
    ∃ v, v ≠ w ∧ v < g.workers.length ∧ ((∃ m, (s.wd v).pc.node? = some m) ∨ (s.wd v).pc = .failed) := by
  by_cases hq : Quiet w s
  · exact absurd hb (resume_quiet g hsym s w out fuel hf hw h hq).1
  · unfold Quiet at hq
    obtain ⟨v, hx0⟩ := Classical.not_forall.mp hq
    have hv : v ≠ w := fun e => hx0 (fun h => absurd e h)
    have hx : ¬ ((s.wd v).pc.node? = none ∧ (s.wd v).pc ≠ .failed) := fun hh => hx0 (fun _ => hh)
    have hr : (s.wd v).pc.node? ≠ none ∨ (s.wd v).pc = .failed := by
      by_cases h1 : (s.wd v).pc.node? = none
      · right
        by_cases h2 : (s.wd v).pc = .failed
        · exact h2
        · exact absurd ⟨h1, h2⟩ hx
      · exact Or.inl h1
    refine ⟨v, hv, by rw [← h.wlen]; exact real_of_runner hr, ?_⟩
    rcases hr with h1 | h1
    · left
      cases hn : (s.wd v).pc.node? with
      | none => exact absurd hn h1
      | some m => exact ⟨m, rfl⟩
    · exact Or.inr h1

/-! ## the last worker -/

/-- every real worker but `w` has left the loop through the shared root -/
def OthersDone (g : Graph) (w : Nat) (s : State) : Prop := ∀ v, v ≠ w → v < g.workers.length → (s.wd v).pc = .done

theorem quiet_of_othersDone {g : Graph} {w : Nat} {s : State} (hlen : s.workers.length = g.workers.length)
    (h : OthersDone g w s) : Quiet w s := by
  intro v hv
  by_cases hl : v < g.workers.length
  · rw [h v hv hl]; exact ⟨rfl, by simp⟩
  · rw [wd_default_of_ge s v (by rw [hlen]; exact hl)]; exact ⟨rfl, by simp⟩

/-- the steps of one worker `w`: (outcome, fuel) per step -/
def runW (g : Graph) (w : Nat) (s : State) (steps : List (Outcome × Nat)) : State :=
  steps.foldl (fun s st => (resume g s w st.1 st.2).1) s

theorem productive_of_not_bounce {pc pc' : Pc} (h1 : isOver pc = false) (h2 : pc' ≠ .bounce) : productive pc pc' = true := by
  cases pc with
  | test n ph dir uid tag wait => rfl
  | done => cases h1
  | failed => cases h1
  | loop => cases pc' <;> first | rfl | exact absurd rfl h2
  | bounce => cases pc' <;> first | rfl | exact absurd rfl h2

/-- a step of the last worker: the invariant is kept (nothing is bumped although the worker may have over-waited before),
the others stay done, the step does not end in the back-off sleep, and the counter grows unless the worker was over -/
theorem lastWorker_step {g : Graph} {ncls : Nat} (st : StaticN g ncls) (hnr : noRootsB g = true)
    {store : List (String × List (String × String))} {s : State} (h : GInvN g ncls store s) (w : Nat)
    (hw : w < g.workers.length) (hd : OthersDone g w s) (out : Outcome) (fuel : Nat) (hf : Term.bound g ≤ fuel) :
    GInvN g ncls store (resume g s w out fuel).1 ∧ OthersDone g w (resume g s w out fuel).1 ∧
      ((resume g s w out fuel).1.wd w).pc ≠ .bounce ∧
      (isOver (s.wd w).pc = false → cntN g s + 1 ≤ cntN g (resume g s w out fuel).1) := by
  have hf0 : 0 < fuel := Nat.lt_of_lt_of_le (bound_pos g) hf
  have hsym := edgeSymB_sound st.sym
  have hp := h.reachF.pinv hsym
  obtain ⟨x1, x2⟩ := resume_quiet g hsym s w out fuel hf0 hw hp (quiet_of_othersDone hp.wlen hd)
  refine ⟨ginvN_step st h w hw out fuel hf0 x2.bump, ?_, x1, fun hov => ?_⟩
  · intro v hv hvl
    rw [resume_others st h.reachF w hw out fuel hf0 v hv]
    exact hd v hv hvl
  · have c := step_cntN st hnr h w hw out fuel hf
    rw [productive_of_not_bounce hov x1] at c
    simpa using c

theorem runW_cons (g : Graph) (w : Nat) (s : State) (a : Outcome × Nat) (r : List (Outcome × Nat)) :
    runW g w s (a :: r) = runW g w (resume g s w a.1 a.2).1 r := rfl

theorem runW_over (g : Graph) (w : Nat) (steps : List (Outcome × Nat)) (s : State) (h : isOver (s.wd w).pc = true) :
    runW g w s steps = s := by
  induction steps with
  | nil => rfl
  | cons a r ih => rw [runW_cons, resume_overN g s w a.1 a.2 h]; exact ih

/-- along the steps of the last worker: invariant, the others stay done, never asleep after a step, and while it is not
over the counter has grown by the number of steps -/
theorem lastWorker_run {g : Graph} {ncls : Nat} (st : StaticN g ncls) (hnr : noRootsB g = true)
    {store : List (String × List (String × String))} (w : Nat) (hw : w < g.workers.length)
    (steps : List (Outcome × Nat)) (s : State) (h : GInvN g ncls store s) (hd : OthersDone g w s)
    (hfuel : ∀ x ∈ steps, Term.bound g ≤ x.2) :
    GInvN g ncls store (runW g w s steps) ∧ OthersDone g w (runW g w s steps) ∧
      (steps ≠ [] → ((runW g w s steps).wd w).pc ≠ .bounce) ∧
      (isOver ((runW g w s steps).wd w).pc = false → cntN g s + steps.length ≤ cntN g (runW g w s steps)) := by
  induction steps generalizing s with
  | nil => exact ⟨h, hd, fun h0 => absurd rfl h0, fun _ => Nat.le_refl _⟩
  | cons a r ih =>
    obtain ⟨x1, x2, x3, x4⟩ := lastWorker_step st hnr h w hw hd a.1 a.2 (hfuel a List.mem_cons_self)
    obtain ⟨y1, y2, y3, y4⟩ := ih _ x1 x2 (fun x hx => hfuel x (List.mem_cons_of_mem _ hx))
    rw [runW_cons]
    refine ⟨y1, y2, fun _ => ?_, fun hno => ?_⟩
    · cases r with
      | nil => exact x3
      | cons b r' => exact y3 (by simp)
    · by_cases hov : isOver (s.wd w).pc = true
      · exfalso
        rw [resume_overN g s w a.1 a.2 hov, runW_over g w r s hov, hov] at hno
        cases hno
      · have c1 := x4 (by simpa using hov)
        have c2 := y4 hno
        simp only [List.length_cons]
        omega

/-- **the last worker terminates**: once all the other workers are done, the remaining worker never sleeps at an occupied
node again and is done or dead after any `24·resultBound g + 13·|workers| + 1` of its steps -/
theorem lastWorker_over {g : Graph} {ncls : Nat} (st : StaticN g ncls) (hnr : noRootsB g = true) (hcl : classesOKB g = true)
    {store : List (String × List (String × String))} (w : Nat) (hw : w < g.workers.length)
    (steps : List (Outcome × Nat)) (s : State) (h : GInvN g ncls store s) (hd : OthersDone g w s)
    (hfuel : ∀ x ∈ steps, Term.bound g ≤ x.2) (hlen : 24 * resultBound g + 13 * g.workers.length + 1 ≤ steps.length) :
    isOver ((runW g w s steps).wd w).pc = true := by
  cases hov : isOver ((runW g w s steps).wd w).pc with
  | true => rfl
  | false =>
    exfalso
    obtain ⟨y, _, _, c⟩ := lastWorker_run st hnr w hw steps s h hd hfuel
    have c' := c hov
    have h1 := total_le_resultBoundN st.wf hcl y.reachR y.noBump
    have h2 := qsum_le (g := g) y.wait
    unfold cntN at c'
    omega

end I2N.Trav.GlobalN
