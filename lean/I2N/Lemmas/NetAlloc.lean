import I2N.Lemmas.NetArith
/-! Helper lemmas for C18: range allocation and address translation. -/
namespace I2N.Net

/-- offsets of the range map that were not handed out yet, in insertion order -/
def freeOffsets (r : List (Nat × Bool)) : List Nat := (r.filter (fun p => !p.2)).map (·.1)

theorem allocRange_none (r : List (Nat × Bool)) : allocRange r = none ↔ freeOffsets r = [] := by
  induction r with
  | nil => simp [allocRange, freeOffsets]
  | cons p r ih =>
    obtain ⟨o, t⟩ := p
    cases t <;> simp_all [allocRange, freeOffsets]

theorem allocRange_some (r : List (Nat × Bool)) (o : Nat) (r' : List (Nat × Bool)) (h : allocRange r = some (o, r')) :
    freeOffsets r = o :: freeOffsets r' ∧ r'.map (·.1) = r.map (·.1) := by
  induction r generalizing r' with
  | nil => simp [allocRange] at h
  | cons p r ih =>
    obtain ⟨o1, t⟩ := p
    cases t with
    | false =>
      simp only [allocRange, Bool.false_eq_true, if_false, Option.some.injEq, Prod.mk.injEq] at h
      obtain ⟨rfl, rfl⟩ := h
      simp [freeOffsets]
    | true =>
      simp only [allocRange, if_true, Option.map_eq_some_iff] at h
      obtain ⟨⟨a, q⟩, hq, heq⟩ := h
      simp only [Prod.mk.injEq] at heq
      obtain ⟨rfl, rfl⟩ := heq
      have := ih q hq
      simp_all [freeOffsets]

theorem allocate_error (c : Netconfig) (h : freeOffsets c.range = []) : allocate c = .error .indexError := by
  unfold allocate
  rw [(allocRange_none c.range).2 h]

theorem allocate_ok (c : Netconfig) (o : Nat) (l : List Nat) (h : freeOffsets c.range = o :: l)
    (hb : c.netIp + o < ipSpace) :
    ∃ c', allocate c = .ok (c.netIp + o, c') ∧ freeOffsets c'.range = l ∧ c'.netIp = c.netIp ∧
      c'.netmask = c.netmask ∧ c'.ifs = c.ifs ∧ c'.host = c.host ∧ c'.range.map (·.1) = c.range.map (·.1) := by
  unfold allocate
  cases hr : allocRange c.range with
  | none => rw [(allocRange_none c.range).1 hr] at h; cases h
  | some p =>
    obtain ⟨o', r'⟩ := p
    have ⟨h1, h2⟩ := allocRange_some c.range o' r' hr
    rw [h] at h1
    simp only [List.cons.injEq] at h1
    obtain ⟨rfl, rfl⟩ := h1
    have : ¬ (c.netIp + o ≥ ipSpace) := by omega
    simp only [this, if_false]
    exact ⟨_, rfl, rfl, rfl, rfl, rfl, rfl, h2⟩

/-- any successful allocation hands out the first free offset -/
theorem allocate_inv (c c' : Netconfig) (a : Nat) (h : allocate c = .ok (a, c')) :
    ∃ o l, freeOffsets c.range = o :: l ∧ a = c.netIp + o ∧ freeOffsets c'.range = l ∧ c'.netIp = c.netIp ∧
      c'.netmask = c.netmask ∧ c'.ifs = c.ifs ∧ c'.host = c.host ∧ a < ipSpace := by
  unfold allocate at h
  cases hr : allocRange c.range with
  | none => rw [hr] at h; cases h
  | some p =>
    obtain ⟨o, r'⟩ := p
    rw [hr] at h
    simp only at h
    split at h
    · cases h
    · rename_i hlt
      simp only [Except.ok.injEq, Prod.mk.injEq] at h
      obtain ⟨rfl, rfl⟩ := h
      have ⟨h1, _⟩ := allocRange_some c.range o r' hr
      exact ⟨o, _, h1, rfl, rfl, rfl, rfl, rfl, rfl, by omega⟩

theorem allocateN_all (l : List Nat) : ∀ (c : Netconfig), freeOffsets c.range = l →
    (∀ o ∈ l, c.netIp + o < ipSpace) →
    (allocateN c l.length).1 = l.map (c.netIp + ·) ∧ freeOffsets (allocateN c l.length).2.range = [] := by
  induction l with
  | nil => intro c h _; simp [allocateN, h]
  | cons o l ih =>
    intro c h hb
    obtain ⟨c', hc, hfree, hip, _⟩ := allocate_ok c o l h (hb o (by simp))
    have := ih c' hfree (by intro o' ho'; rw [hip]; exact hb o' (by simp [ho']))
    simp only [List.length_cons, allocateN, hc, List.map_cons, List.cons.injEq, true_and]
    rw [hip] at this
    exact this

theorem freeOffsets_mkRange (lo hi : Nat) : freeOffsets (mkRange lo hi) = List.range' lo (hi + 1 - lo) := by
  unfold freeOffsets mkRange
  rw [List.filter_map]
  simp [Function.comp_def]

/-! translation -/

theorem translate_in_subnet (c : Netconfig) (ip nat : Nat) (hnat : nat < ipSpace)
    (hal : networkIp c.netIp c.bits = c.netIp) (hin : inNet c ip = true) :
    ∃ r, translate c ip nat = .ok r ∧ c.netIp ≤ ip ∧ networkIp nat c.bits ≤ r ∧
      r - networkIp nat c.bits = ip - c.netIp ∧ networkIp r c.bits = networkIp nat c.bits ∧ r < ipSpace := by
  simp only [inNet, beq_iff_eq, hal] at hin
  have h1 : c.netIp ≤ ip := by rw [← hin]; exact networkIp_le ip c.bits
  have h2 : ip < c.netIp + 2 ^ (32 - c.bits) := by rw [← hin]; exact lt_networkIp_add ip c.bits
  have hT := networkIp_mod nat c.bits
  have hTle := networkIp_le nat c.bits
  have hfit := block_fits (networkIp nat c.bits) c.bits (by unfold ipSpace at hnat; omega) hT
  refine ⟨ip + networkIp nat c.bits - c.netIp, ?_, h1, by omega, by omega, ?_, by unfold ipSpace; omega⟩
  · unfold translate
    have : ¬ (ip + networkIp nat c.bits < c.netIp ∨ ip + networkIp nat c.bits - c.netIp ≥ ipSpace) := by
      unfold ipSpace; omega
    simp only [this, if_false]
  · exact networkIp_eq_of _ _ _ hT (by omega) (by omega)

theorem fromInterface_aligned (f : Iface) :
    networkIp (fromInterface f).netIp (fromInterface f).bits = (fromInterface f).netIp := by
  simp only [fromInterface, Netconfig.bits]
  exact networkIp_idem _ _

end I2N.Net
