import I2N.Model.Tunnel
/-! Helper lemmas for C19: dictionaries, sequences of assignments, `object_params`, and the shape of the
results of the parts of `VMTunnel.__init__`. -/
namespace I2N.Tunnel

/-! ## `Except` -/

theorem bind_ok {α β : Type} (e : Except Err α) (f : α → Except Err β) (b : β) :
    (e >>= f) = .ok b ↔ ∃ a, e = .ok a ∧ f a = .ok b := by
  cases e with
  | error e => simp [bind, Except.bind]
  | ok a => simp [bind, Except.bind]

theorem bind_error {α β : Type} (e : Except Err α) (f : α → Except Err β) (x : Err) (h : e = .error x) :
    (e >>= f) = .error x := by
  subst h; rfl

theorem bind_ok' {α β : Type} (e : Except Err α) (f : α → Except Err β) (a : α) (h : e = .ok a) :
    (e >>= f) = f a := by
  subst h; rfl

theorem pure_ok {α : Type} (a b : α) : (pure a : Except Err α) = .ok b ↔ a = b := by
  simp [pure, Except.pure]

theorem throw_ne_ok {α : Type} (e : Err) (b : α) : (throw e : Except Err α) = .ok b ↔ False := by
  simp [throw, throwThe, MonadExceptOf.throw]

/-! ## dictionaries -/

theorem SDict.get?_set (d : SDict) (k v k' : String) :
    (d.set k v).get? k' = if k = k' then some v else d.get? k' := by
  induction d with
  | nil => simp [SDict.set, SDict.get?]
  | cons p r ih =>
    obtain ⟨a, b⟩ := p
    by_cases h : a = k
    · subst h
      by_cases h2 : a = k' <;> simp [SDict.set, SDict.get?, h2]
    · simp only [SDict.set, h, if_false, SDict.get?, ih]
      by_cases h2 : a = k'
      · subst h2; simp [Ne.symm h]
      · simp [h2]

theorem SDict.getItem_ok (d : SDict) (k v : String) : d.getItem k = .ok v ↔ d.get? k = some v := by
  unfold SDict.getItem; cases d.get? k <;> simp

theorem Dict.get?_set (d : Dict) (k : Key) (v : String) (k' : Key) :
    (d.set k v).get? k' = if k = k' then some v else d.get? k' := by
  induction d with
  | nil => simp [Dict.set, Dict.get?]
  | cons p r ih =>
    obtain ⟨a, b⟩ := p
    by_cases h : a = k
    · subst h
      by_cases h2 : a = k' <;> simp [Dict.set, Dict.get?, h2]
    · simp only [Dict.set, h, if_false, Dict.get?, ih]
      by_cases h2 : a = k'
      · subst h2; simp [Ne.symm h]
      · simp [h2]

theorem Dict.get?_eq_none (d : Dict) (k : Key) : d.get? k = none ↔ ∀ p ∈ d, p.1 ≠ k := by
  induction d with
  | nil => simp [Dict.get?]
  | cons p r ih =>
    obtain ⟨a, b⟩ := p
    by_cases h : a = k
    · subst h; simp [Dict.get?]
    · simp [Dict.get?, h, ih]

theorem Dict.mem_of_get?_some (d : Dict) (k : Key) (v : String) (h : d.get? k = some v) :
    ∃ p ∈ d, p.1 = k := by
  induction d with
  | nil => simp [Dict.get?] at h
  | cons p r ih =>
    obtain ⟨a, b⟩ := p
    by_cases hk : a = k
    · exact ⟨(a, b), List.mem_cons_self .., hk⟩
    · simp only [Dict.get?, hk, if_false] at h
      obtain ⟨q, hq, hqe⟩ := ih h
      exact ⟨q, List.mem_cons_of_mem _ hq, hqe⟩

theorem Dict.getItem_ok (d : Dict) (k : Key) (v : String) : d.getItem k = .ok v ↔ d.get? k = some v := by
  unfold Dict.getItem; cases d.get? k <;> simp

/-- the value of the last assignment to `k` in a sequence of assignments -/
def lastVal : Assignments → Key → Option String
  | [], _ => none
  | (k', v) :: r, k => (lastVal r k).or (if k' = k then some v else none)

theorem lastVal_append (a b : Assignments) (k : Key) :
    lastVal (a ++ b) k = (lastVal b k).or (lastVal a k) := by
  induction a with
  | nil => simp [lastVal]
  | cons p r ih => obtain ⟨k', v⟩ := p; simp [lastVal, ih, Option.or_assoc]

theorem lastVal_eq_none (a : Assignments) (k : Key) : lastVal a k = none ↔ ∀ p ∈ a, p.1 ≠ k := by
  induction a with
  | nil => simp [lastVal]
  | cons p r ih =>
    obtain ⟨k', v⟩ := p
    by_cases h : k' = k <;> simp [lastVal, ih, h]

theorem get?_assign (d : Dict) (l : Assignments) (k : Key) :
    (assign d l).get? k = (lastVal l k).or (d.get? k) := by
  induction l generalizing d with
  | nil => simp [assign, lastVal]
  | cons p r ih =>
    obtain ⟨k', v⟩ := p
    have : assign d ((k', v) :: r) = assign (d.set k' v) r := rfl
    rw [this, ih, Dict.get?_set, lastVal]
    by_cases h : k' = k <;> simp [h]

theorem get?_assign_nil (l : Assignments) (k : Key) : (assign [] l).get? k = lastVal l k := by
  rw [get?_assign]; simp [Dict.get?]

theorem get?_update_of_not_mem (d e : Dict) (k : Key) (h : ∀ p ∈ e, p.1 ≠ k) :
    (d.update e).get? k = d.get? k := by
  unfold Dict.update
  rw [get?_assign, (lastVal_eq_none e k).2 h]; rfl

/-! ## `object_params` on structured keys -/

theorem dropLast_append_of_getLast? : ∀ (l : List String) (a : String), l.getLast? = some a → l.dropLast ++ [a] = l
  | [], a, h => by simp at h
  | [x], a, h => by simp at h; simp [h]
  | x :: y :: r, a, h => by
    have := dropLast_append_of_getLast? (y :: r) a (by simpa [List.getLast?_cons_cons] using h)
    simp only [List.dropLast_cons_cons, List.cons_append, this]

theorem Key.eq_of_endsWith_dropLast {k : Key} {obj : String} {t : Key}
    (h : k.endsWith obj = true) (hd : k.dropLast = t) : k = ⟨t.stem, t.quals ++ [obj]⟩ := by
  obtain ⟨s, q⟩ := k
  subst hd
  simp only [Key.endsWith, beq_iff_eq] at h
  simp only [Key.dropLast, Key.mk.injEq, true_and]
  exact (dropLast_append_of_getLast? q obj h).symm

/-- keys that nothing is copied onto keep their value -/
theorem foldl_objStep_frame (obj : String) (t : Key) (l : List (Key × String)) (acc : Dict)
    (h : ∀ p ∈ l, p.1.endsWith obj = true → p.1.dropLast ≠ t) :
    (l.foldl (objStep obj) acc).get? t = acc.get? t := by
  induction l generalizing acc with
  | nil => rfl
  | cons p r ih =>
    rw [List.foldl_cons, ih _ (fun q hq => h q (List.mem_cons_of_mem _ hq))]
    unfold objStep
    by_cases he : p.1.endsWith obj = true
    · have := h p (List.mem_cons_self ..) he
      simp [he, Dict.get?_set, this]
    · simp [he]

/-- a key whose suffixed variant exists receives the value of the suffixed variant (unless the suffixed
variant is itself overwritten from a doubly suffixed one) -/
theorem foldl_objStep_hit (obj : String) (t : Key) (v : String) (l : List (Key × String)) (acc : Dict)
    (hsrc : acc.get? ⟨t.stem, t.quals ++ [obj]⟩ = some v)
    (h2 : ∀ p ∈ l, p.1 ≠ ⟨t.stem, t.quals ++ [obj, obj]⟩)
    (h : acc.get? t = some v ∨ ∃ p ∈ l, p.1 = ⟨t.stem, t.quals ++ [obj]⟩) :
    (l.foldl (objStep obj) acc).get? t = some v := by
  induction l generalizing acc with
  | nil => simpa using h
  | cons p r ih =>
    rw [List.foldl_cons]
    have h2r : ∀ q ∈ r, q.1 ≠ ⟨t.stem, t.quals ++ [obj, obj]⟩ := fun q hq => h2 q (List.mem_cons_of_mem _ hq)
    by_cases he : p.1.endsWith obj = true
    · -- the step writes `p.1.dropLast`
      have hstep : objStep obj acc p = acc.set p.1.dropLast ((acc.get? p.1).getD p.2) := by
        simp [objStep, he]
      have hne : p.1.dropLast ≠ ⟨t.stem, t.quals ++ [obj]⟩ := by
        intro hd
        have := Key.eq_of_endsWith_dropLast he hd
        simp only [List.append_assoc, List.cons_append, List.nil_append] at this
        exact h2 p (List.mem_cons_self ..) this
      have hsrc' : (objStep obj acc p).get? ⟨t.stem, t.quals ++ [obj]⟩ = some v := by
        rw [hstep, Dict.get?_set]; simp [hne, hsrc]
      apply ih _ hsrc' h2r
      by_cases hd : p.1.dropLast = t
      · left
        have hp := Key.eq_of_endsWith_dropLast he hd
        rw [hstep, Dict.get?_set, hd]; simp [hp, hsrc]
      · rcases h with h | ⟨q, hq, hqe⟩
        · left; rw [hstep, Dict.get?_set]; simp [hd, h]
        · rcases List.mem_cons.1 hq with rfl | hq
          · exfalso; apply hd; rw [hqe]; simp [Key.dropLast]
          · right; exact ⟨q, hq, hqe⟩
    · have hstep : objStep obj acc p = acc := by simp [objStep, he]
      rw [hstep]
      apply ih _ hsrc h2r
      rcases h with h | ⟨q, hq, hqe⟩
      · left; exact h
      · rcases List.mem_cons.1 hq with rfl | hq
        · exfalso; apply he; rw [hqe]; simp [Key.endsWith]
        · right; exact ⟨q, hq, hqe⟩

/-- `object_params(obj)[t]`: the value of `t_obj` when there is one, else the value of `t` -/
theorem objectParams_get? (d : Dict) (obj : String) (t : Key)
    (h2 : d.get? ⟨t.stem, t.quals ++ [obj, obj]⟩ = none) :
    (objectParams d obj).get? t = (d.get? ⟨t.stem, t.quals ++ [obj]⟩).or (d.get? t) := by
  unfold objectParams
  have h2' := (Dict.get?_eq_none d _).1 h2
  cases hs : d.get? ⟨t.stem, t.quals ++ [obj]⟩ with
  | some v =>
    rw [foldl_objStep_hit obj t v d d hs h2']
    · rfl
    · right
      exact Dict.mem_of_get?_some d _ v hs
  | none =>
    have hs' := (Dict.get?_eq_none d _).1 hs
    rw [foldl_objStep_frame obj t d d]
    · rfl
    · intro p hp he hd
      exact hs' p hp (Key.eq_of_endsWith_dropLast he hd)

end I2N.Tunnel
