import I2N.Lemmas.TravExcl
import I2N.Lemmas.TravResults
/-!
The retry budget of STATEFUL (setup) classes of the traversal model (property C03): in every reachable state the
number of results — placeholders of executions in flight included — a class has within one reuse scope is at most
`max(max_tries, 1, largest threshold of is_occupied the class has had)`.

Why it holds.  A stateful test is started (a) on the scan path — nobody of the scope has finished the class — or
(b) by the rerun rule, which counts the results in scope.  While nobody of the scope has finished the class, every
result in scope is the placeholder of an execution in flight whose worker still holds the `started` mark of its
copy (`BInv.p1`); the worker that starts on the scan path has just been let in by `is_occupied`, so the marks in
its scope numbered less than the threshold (`room_of_not_occupied`).  Once somebody of the scope has finished, the
scan path is closed for the whole scope (`finished` marks are never taken back) and (b) alone adds results.

Object roots (classes whose copies are created in two phases) are covered when `max_tries ≤ 1`: the creation pre-step
keeps its placeholder on a copy of the results private to the worker, so a creation in flight is counted as a
result-to-be (`InCre`, the list `P` in `BInv.budget`); its success turns it into the placeholder of the test proper
(`main_start_b`), its failure into the one result filed at the root (`pre_fail_b`).  With `max_tries ≤ 1` the rerun rule
(b) never fires; with `max_tries ≥ 2` the bound is false for object roots (Props/C03 `root_creation_hidden`).

Technique as in `TravResults.lean` / `TravReady.lean`: a reflexive-transitive frame relation `Fr` for the pieces of
a step that do not start a test of the class, the invariant `BInv` is preserved along it, and one walk through
`afterTraverse`, `traverseNode`, `iter`, `iterL`, `runLoop`, `resumeTest`, `resume`.
-/
namespace I2N.Trav

/-! ## vocabulary -/

/-- the filter string of `shared_filtered_results` for observer `v` -/
def scopeFilter (g : Graph) (sh : Shape) (v : Nat) : String :=
  match sh with
  | .own => (g.worker v).swarm ++ "." ++ (g.worker v).id
  | .swarm => (g.worker v).swarm
  | .global => ""

/-- does observer `v` count the results of copy `j` -/
def seen (g : Graph) (sh : Shape) (v j : Nat) : Bool := strIn (scopeFilter g sh v) (g.node j).name

theorem sharedFilteredResults_eq (g : Graph) (s : State) (n v : Nat) :
    sharedFilteredResults g s n (some v) =
      (sharedResults g s n).filter (fun r => strIn (scopeFilter g (g.node n).shape v) r.name) := by
  unfold sharedFilteredResults scopeFilter
  cases (g.node n).shape <;> rfl

/-- number of results of class `c` observer `v` counts (when results carry the names of their copies) -/
def scopedLen (g : Graph) (s : State) (c : Nat) (sh : Shape) (v : Nat) : Nat :=
  ((g.classNodes c).map (fun j => if seen g sh v j then (s.nd j).results.length else 0)).sum

/-- somebody within `v`'s scope has finished (traversed) a copy of class `c` -/
def FinIn (g : Graph) (s : State) (c : Nat) (sh : Shape) (v : Nat) : Prop :=
  ∃ j u, j < g.nodes.length ∧ (g.node j).cls = c ∧ (s.nd j).finished = some u ∧ inScopeOf sh g v u = true

/-- Static hypotheses on a class `c` of stateful tests proper (all decidable, see `budgetClassB`): the copies are
parsed, no object roots, have set states, agree on `max_tries = M` and on the scope shape `sh`; the root is not of
the class; every copy is cared for by at most one worker; and the scope filter on result names agrees with the
scope of `is_started` / `is_finished`: observer `v` counts the results of `u`'s copy iff `u` is in `v`'s scope. -/
structure BClass (g : Graph) (c : Nat) (M : Option Int) (sh : Shape) : Prop where
  rootNot : (g.node g.root).cls ≠ c
  node : ∀ j, j < g.nodes.length → (g.node j).cls = c →
    (g.node j).flat = false ∧ ((g.node j).objectRoot = false ∨ M.getD 1 ≤ 1) ∧ (g.node j).sets.isEmpty = false ∧
    (g.node j).maxTries = M ∧ (g.node j).shape = sh
  uniq : ∀ j, j < g.nodes.length → (g.node j).cls = c → ∀ u v, u < g.workers.length → v < g.workers.length →
    g.idIn u j = true → g.idIn v j = true → u = v
  scope : ∀ j, j < g.nodes.length → (g.node j).cls = c → ∀ u v, u < g.workers.length → v < g.workers.length →
    g.idIn u j = true → seen g sh v j = inScopeOf sh g v u
  /-- the results a failed creation pre-step files at an object root carry the name of the pre-step: an observer
  whose filter matches that name also sees the copy -/
  preScope : ∀ j, j < g.nodes.length → (g.node j).cls = c → (g.node j).objectRoot = true → ∀ u v, u < g.workers.length →
    v < g.workers.length → g.idIn u j = true → strIn (scopeFilter g sh v) (preNameOf g j u) = true → seen g sh v j = true

/-- a result name that the scope filter of no observer treats differently from the name of copy `j`: the name of the
copy itself, or (object roots) a name that only observers of the copy count -/
def NameOK (g : Graph) (sh : Shape) (j : Nat) (nm : String) : Prop :=
  nm = (g.node j).name ∨
  ((g.node j).objectRoot = true ∧
    ∀ v, v < g.workers.length → strIn (scopeFilter g sh v) nm = true → seen g sh v j = true)

/-- worker `u` is inside the creation pre-step of a copy of class `c` that observer `v` sees: a result-to-be -/
def InCre (g : Graph) (s : State) (c : Nat) (sh : Shape) (v u : Nat) : Prop :=
  ∃ j dir uid tag wait, (s.wd u).pc = .test j .pre dir uid tag wait ∧ (g.node j).cls = c ∧ seen g sh v j = true

theorem InCre.of_wd_eq {g : Graph} {s s' : State} {c : Nat} {sh : Shape} {v u : Nat} (h : s'.wd u = s.wd u)
    (a : InCre g s' c sh v u) : InCre g s c sh v u := by
  obtain ⟨j, dir, uid, tag, wait, h1, h2, h3⟩ := a
  exact ⟨j, dir, uid, tag, wait, by rw [← h]; exact h1, h2, h3⟩

/-! ## lists -/

theorem sum_map_le_add (l : List Nat) (hl : l.Nodup) (n : Nat) (f f' : Nat → Nat) (k : Nat) (h1 : f' n ≤ f n + k)
    (h2 : ∀ j ∈ l, j ≠ n → f' j ≤ f j) : (l.map f').sum ≤ (l.map f).sum + k := by
  induction l with
  | nil => simp
  | cons a r ih =>
    simp only [List.map_cons, List.sum_cons]
    rw [List.nodup_cons] at hl
    by_cases ha : a = n
    · subst ha
      have : (r.map f').sum ≤ (r.map f).sum :=
        sum_map_le r f' f (fun j hj => h2 j (List.mem_cons_of_mem _ hj) (fun e => hl.1 (e ▸ hj)))
      omega
    · have := ih hl.2 (fun j hj => h2 j (List.mem_cons_of_mem _ hj))
      have := h2 a List.mem_cons_self ha
      omega

theorem sum_le_count (l : List Nat) (f : Nat → Nat) (h : ∀ j ∈ l, f j ≤ 1) :
    (l.map f).sum ≤ (l.filter (fun j => f j != 0)).length := by
  induction l with
  | nil => simp
  | cons a r ih =>
    have h1 := h a List.mem_cons_self
    have ih' := ih (fun j hj => h j (List.mem_cons_of_mem _ hj))
    simp only [List.map_cons, List.sum_cons, List.filter_cons]
    by_cases ha : f a = 0
    · simp [ha]; exact ih'
    · have : (f a != 0) = true := by simpa using ha
      simp only [this, if_true, List.length_cons]
      omega

theorem nodup_map_on {α β} [DecidableEq β] (l : List α) (f : α → β) (hl : l.Nodup)
    (hinj : ∀ x ∈ l, ∀ y ∈ l, f x = f y → x = y) : (l.map f).Nodup := by
  induction l with
  | nil => simp
  | cons a r ih =>
    rw [List.nodup_cons] at hl
    simp only [List.map_cons, List.nodup_cons, List.mem_map, not_exists, not_and]
    refine ⟨fun x hx he => ?_, ih hl.2 (fun x hx y hy => hinj x (List.mem_cons_of_mem _ hx) y (List.mem_cons_of_mem _ hy))⟩
    have := hinj x (List.mem_cons_of_mem _ hx) a List.mem_cons_self he
    rw [this] at hx
    exact hl.1 hx

theorem inScopeOf_symm (sh : Shape) (g : Graph) (v w : Nat) : inScopeOf sh g v w = inScopeOf sh g w v := by
  cases sh
  · simp only [inScopeOf]; rw [Bool.eq_iff_iff]; simp only [beq_iff_eq]; exact eq_comm
  · simp only [inScopeOf]; rw [Bool.eq_iff_iff]; simp only [beq_iff_eq]; exact eq_comm
  · rfl

/-! ## what `shared_filtered_results` counts -/

theorem filter_all_or_nothing (l : List Result) (flt nm : String) (h : ∀ r ∈ l, r.name = nm) :
    (l.filter (fun r => strIn flt r.name)).length = if strIn flt nm then l.length else 0 := by
  by_cases hs : strIn flt nm = true
  · rw [if_pos hs, List.filter_eq_self.mpr]
    intro r hr; rw [h r hr]; exact hs
  · rw [if_neg hs, List.filter_eq_nil_iff.mpr]
    · rfl
    · intro r hr; rw [h r hr]; exact hs

/-- when the results of the copies of the class carry the names of their copies, the results `should_rerun` counts
for observer `v` number `scopedLen` -/
theorem sfr_length (g : Graph) (s : State) (c : Nat) (sh : Shape) (n v : Nat) (hn : n < g.nodes.length)
    (hflat : (g.node n).flat = false) (hc : (g.node n).cls = c) (hsh : (g.node n).shape = sh)
    (hres : ∀ j, j < g.nodes.length → (g.node j).cls = c → ∀ r ∈ (s.nd j).results, r.name = (g.node j).name) :
    (sharedFilteredResults g s n (some v)).length = scopedLen g s c sh v := by
  rw [sharedFilteredResults_eq, hsh]
  unfold sharedResults Graph.copies scopedLen
  simp only [hflat, Bool.false_eq_true, if_false, List.filter_flatMap, List.length_flatMap, List.map_cons, List.sum_cons]
  rw [hc]
  have hmem : n ∈ g.classNodes c := (mem_classNodes g c n).mpr ⟨hn, hc⟩
  rw [sum_map_split _ (nodup_classNodes g c) n hmem
    (fun j => ((s.nd j).results.filter (fun r => strIn (scopeFilter g sh v) r.name)).length)]
  apply sum_map_congr
  intro j hj
  obtain ⟨hj1, hj2⟩ := (mem_classNodes g c j).mp hj
  exact filter_all_or_nothing _ _ _ (hres j hj1 hj2)

/-- … and when they carry names no observer's filter tells from the names of their copies, at most `scopedLen` -/
theorem sfr_length_le (g : Graph) (s : State) (c : Nat) (sh : Shape) (n v : Nat) (hn : n < g.nodes.length)
    (hflat : (g.node n).flat = false) (hc : (g.node n).cls = c) (hsh : (g.node n).shape = sh) (hv : v < g.workers.length)
    (hres : ∀ j, j < g.nodes.length → (g.node j).cls = c → ∀ r ∈ (s.nd j).results, NameOK g sh j r.name) :
    (sharedFilteredResults g s n (some v)).length ≤ scopedLen g s c sh v := by
  rw [sharedFilteredResults_eq, hsh]
  unfold sharedResults Graph.copies scopedLen
  simp only [hflat, Bool.false_eq_true, if_false, List.filter_flatMap, List.length_flatMap, List.map_cons, List.sum_cons]
  rw [hc]
  have hmem : n ∈ g.classNodes c := (mem_classNodes g c n).mpr ⟨hn, hc⟩
  rw [sum_map_split _ (nodup_classNodes g c) n hmem
    (fun j => ((s.nd j).results.filter (fun r => strIn (scopeFilter g sh v) r.name)).length)]
  apply sum_map_le
  intro j hj
  obtain ⟨hj1, hj2⟩ := (mem_classNodes g c j).mp hj
  by_cases hs : seen g sh v j = true
  · rw [if_pos hs]; exact List.length_filter_le _ _
  · rw [if_neg hs, List.filter_eq_nil_iff.mpr]
    · exact Nat.le_refl _
    · intro r hr hin
      rcases hres j hj1 hj2 r hr with h | ⟨_, h⟩
      · rw [h] at hin; exact hs hin
      · exact hs (h v hv hin)

/-! ## `is_finished` with threshold 1 -/

theorem mem_sharedFinished (g : Graph) (s : State) (n v : Nat) :
    v ∈ sharedFinished g s n ↔ ∃ i, i ∈ g.copies n ∧ (s.nd i).finished = some v := by
  unfold sharedFinished
  rw [mem_dedupNat]
  simp [List.mem_filterMap]

/-- a scan (`is_finished(worker, 1)` false) means nobody within the worker's scope has finished the class -/
theorem not_finIn_of_not_finished (g : Graph) (s : State) (n w : Nat) (hn : n < g.nodes.length)
    (hflat : (g.node n).flat = false) (h : isFinished g s n w 1 = false) :
    ¬ FinIn g s (g.node n).cls (g.node n).shape w := by
  rintro ⟨j, u, hj, hjc, hfin, hsc⟩
  have hmem : u ∈ sharedFinished g s n :=
    (mem_sharedFinished g s n u).mpr ⟨j, (mem_copies g n j hn hflat).mpr ⟨hj, hjc⟩, hfin⟩
  unfold isFinished scopeCount at h
  simp only [hflat, Bool.false_eq_true, if_false] at h
  cases hsh : (g.node n).shape
  · simp only [hsh, inScopeOf, beq_iff_eq] at h hsc
    rw [hsc] at hmem
    have : (sharedFinished g s n).contains w = true := by simpa using hmem
    rw [this] at h; cases h
  · simp only [hsh, inScopeOf] at h hsc
    have h1 : ((1 : Int) == -1) = false := by decide
    simp only [h1, Bool.false_eq_true, if_false, decide_eq_false_iff_not, Int.not_le] at h
    have : u ∈ (sharedFinished g s n).filter (fun v => (g.worker v).swarm == (g.worker w).swarm) :=
      List.mem_filter.mpr ⟨hmem, hsc⟩
    have := List.length_pos_of_mem this
    omega
  · simp only [hsh] at h
    have h1 : ((1 : Int) == -1) = false := by decide
    simp only [h1, Bool.false_eq_true, if_false, decide_eq_false_iff_not, Int.not_le] at h
    have := List.length_pos_of_mem hmem
    omega

/-! ## the invariant -/

/-- the path of worker `v` consists of nodes of the graph, and the copies of class `c` on it are `v`'s own -/
def PathC (g : Graph) (c v : Nat) (s : State) : Prop :=
  ∀ x ∈ (s.wd v).path, x < g.nodes.length ∧ ((g.node x).cls = c → g.idIn v x = true)

/-- the program counter is not inside a test of class `c` -/
def NotInC (g : Graph) (c : Nat) (pc : Pc) : Prop :=
  ∀ n ph dir uid tag wait, pc = .test n ph dir uid tag wait → (g.node n).cls ≠ c

/-- The budget invariant of class `c`; the clauses about a worker's pc are required for the workers in `L` only
(inside a step the stepping worker is exempt). -/
structure BInv (g : Graph) (c : Nat) (M : Option Int) (sh : Shape) (s : State) (L : Nat → Prop) : Prop where
  nodesLen : s.nodes.length = g.nodes.length
  workersLen : s.workers.length = g.workers.length
  path : ∀ v, PathC g c v s
  /-- `finished` of a copy is only ever written with the worker that cares for the copy -/
  finOwn : ∀ j u, j < g.nodes.length → (g.node j).cls = c → (s.nd j).finished = some u →
    u < g.workers.length ∧ g.idIn u j = true
  /-- a worker executing a copy of the class executes its own copy and holds its `started` mark -/
  infl : ∀ u, L u → ∀ n ph dir uid tag wait, (s.wd u).pc = .test n ph dir uid tag wait → (g.node n).cls = c →
    n < g.nodes.length ∧
    (ph = .pre → (g.node n).objectRoot = true ∧ (s.wd u).preResults.length ≤ (s.nd n).results.length + 1 ∧
      ∀ r ∈ (s.wd u).preResults, NameOK g sh n r.name) ∧
    g.idIn u n = true ∧ (s.nd n).started = some u
  /-- results carry the name of the copy they are filed at (or, at an object root, the name of its creation pre-step) -/
  resOwn : ∀ j, j < g.nodes.length → (g.node j).cls = c → ∀ r ∈ (s.nd j).results, NameOK g sh j r.name
  /-- until somebody of the owner's scope has finished the class, a copy has no result but the placeholder of the
  execution (test proper) in flight on it -/
  p1 : ∀ j, j < g.nodes.length → (g.node j).cls = c → (s.nd j).results ≠ [] →
    (∃ u tag, L u ∧ (∃ ph dir uid wait, (s.wd u).pc = .test j ph dir uid tag wait ∧ ph ≠ .pre) ∧
      (s.nd j).results = [phOf (g.node j).name tag]) ∨
    (∃ u, u < g.workers.length ∧ g.idIn u j = true ∧ FinIn g s c sh u)
  /-- the results observer `v` counts, together with the creations in flight (of workers in `L`) on copies it sees -/
  budget : ∀ v, v < g.workers.length → ∀ P : List Nat, P.Nodup → (∀ u ∈ P, L u ∧ InCre g s c sh v u) →
    ((scopedLen g s c sh v + P.length : Nat) : Int) ≤ max (max (M.getD 1) 1) (classLimit g s c)

/-! ## the frame of a piece of a step of worker `w` that starts no test of the class -/

structure Fr (g : Graph) (c w : Nat) (s s' : State) : Prop where
  nodesLen : s'.nodes.length = s.nodes.length
  workersLen : s'.workers.length = s.workers.length
  others : ∀ v, v ≠ w → s'.wd v = s.wd v
  results : ∀ m, (g.node m).cls = c → (s'.nd m).results = (s.nd m).results
  bump : ∀ m, (s.nd m).bump ≤ (s'.nd m).bump
  started : ∀ m, (g.node m).cls = c → (s'.nd m).started = (s.nd m).started ∨ g.idIn w m = true
  finished : ∀ m, (g.node m).cls = c →
    (s'.nd m).finished = (s.nd m).finished ∨ (g.idIn w m = true ∧ (s'.nd m).finished = some w)
  path : PathC g c w s → PathC g c w s'
  pc : NotInC g c (s.wd w).pc → NotInC g c (s'.wd w).pc

theorem Fr.refl (g : Graph) (c w : Nat) (s : State) : Fr g c w s s :=
  ⟨rfl, rfl, fun _ _ => rfl, fun _ _ => rfl, fun _ => Nat.le_refl _, fun _ _ => Or.inl rfl, fun _ _ => Or.inl rfl,
    fun h => h, fun h => h⟩

theorem Fr.trans {g : Graph} {c w : Nat} {s s1 s2 : State} (a : Fr g c w s s1) (b : Fr g c w s1 s2) : Fr g c w s s2 where
  nodesLen := b.nodesLen.trans a.nodesLen
  workersLen := b.workersLen.trans a.workersLen
  others := fun v hv => (b.others v hv).trans (a.others v hv)
  results := fun m hm => (b.results m hm).trans (a.results m hm)
  bump := fun m => Nat.le_trans (a.bump m) (b.bump m)
  started := fun m hm => by
    rcases b.started m hm with h | h
    · rcases a.started m hm with h' | h'
      · exact Or.inl (h.trans h')
      · exact Or.inr h'
    · exact Or.inr h
  finished := fun m hm => by
    rcases b.finished m hm with h | h
    · rcases a.finished m hm with h' | ⟨h1, h2⟩
      · exact Or.inl (h.trans h')
      · exact Or.inr ⟨h1, h.trans h2⟩
    · exact Or.inr h
  path := fun h => b.path (a.path h)
  pc := fun h => b.pc (a.pc h)

theorem nd_of_nodes_eq' {s s' : State} (h : s'.nodes = s.nodes) (m : Nat) : s'.nd m = s.nd m := by
  unfold State.nd; rw [h]

theorem wd_of_workers_eq {s s' : State} (h : s'.workers = s.workers) (v : Nat) : s'.wd v = s.wd v := by
  unfold State.wd; rw [h]

/-- neither node records nor worker records change -/
theorem Fr.quiet {g : Graph} {c w : Nat} {s s' : State} (hn : s'.nodes = s.nodes) (hw : s'.workers = s.workers) :
    Fr g c w s s' := by
  have hnd := nd_of_nodes_eq' hn
  have hwd := wd_of_workers_eq hw
  refine ⟨by rw [hn], by rw [hw], fun v _ => hwd v, fun m _ => by rw [hnd], fun m => by rw [hnd]; exact Nat.le_refl _,
    fun m _ => Or.inl (by rw [hnd]), fun m _ => Or.inl (by rw [hnd]), fun h => ?_, fun h => by rw [hwd]; exact h⟩
  unfold PathC; rw [hwd]; exact h

theorem fr_setCr (g : Graph) (c w : Nat) (s : State) (cc : Nat) (f : ClassRegs → ClassRegs) : Fr g c w s (s.setCr cc f) :=
  Fr.quiet rfl rfl

/-- an update of a node record -/
theorem fr_setNd (g : Graph) (c w : Nat) (s : State) (m : Nat) (f : NodeD → NodeD)
    (hres : (g.node m).cls = c → ∀ d, (f d).results = d.results) (hb : ∀ d, d.bump ≤ (f d).bump)
    (hst : (g.node m).cls = c → (∀ d, (f d).started = d.started) ∨ g.idIn w m = true)
    (hfin : (g.node m).cls = c → (∀ d, (f d).finished = d.finished) ∨ (g.idIn w m = true ∧ ∀ d, (f d).finished = some w)) :
    Fr g c w s (s.setNd m f) := by
  refine ⟨nodes_length_setNd s m f, rfl, fun _ _ => rfl, fun i hi => ?_, fun i => ?_, fun i hi => ?_, fun i hi => ?_,
    fun h => h, fun h => h⟩
  · rcases nd_setNd_cases s m f i with h | ⟨h1, _, h⟩
    · rw [h]
    · rw [h, hres (h1 ▸ hi)]
  · rcases nd_setNd_cases s m f i with h | ⟨h1, _, h⟩
    · rw [h]; exact Nat.le_refl _
    · rw [h]; exact hb _
  · rcases nd_setNd_cases s m f i with h | ⟨h1, _, h⟩
    · rw [h]; exact Or.inl rfl
    · rcases hst (h1 ▸ hi) with h' | h'
      · rw [h, h']; exact Or.inl rfl
      · exact Or.inr (h1 ▸ h')
  · rcases nd_setNd_cases s m f i with h | ⟨h1, _, h⟩
    · rw [h]; exact Or.inl rfl
    · rcases hfin (h1 ▸ hi) with h' | ⟨h', h''⟩
      · rw [h, h']; exact Or.inl rfl
      · exact Or.inr ⟨h1 ▸ h', by rw [h, h'']⟩

/-- an update of the stepping worker's own record -/
theorem fr_setWd (g : Graph) (c w : Nat) (s : State) (f : WorkerD → WorkerD)
    (hpath : ∀ d, (∀ x ∈ d.path, x < g.nodes.length ∧ ((g.node x).cls = c → g.idIn w x = true)) →
      ∀ x ∈ (f d).path, x < g.nodes.length ∧ ((g.node x).cls = c → g.idIn w x = true))
    (hpc : ∀ d, NotInC g c d.pc → NotInC g c (f d).pc) : Fr g c w s (s.setWd w f) := by
  refine ⟨rfl, workers_length_setWd s w f, fun v hv => wd_setWd_ne s w v f hv, fun _ _ => rfl, fun _ => Nat.le_refl _,
    fun _ _ => Or.inl rfl, fun _ _ => Or.inl rfl, fun h => ?_, fun h => ?_⟩
  · unfold PathC
    rcases wd_setWd_cases s w f with ⟨h', _⟩ | ⟨_, h'⟩
    · rw [h']; exact h
    · rw [h']; exact hpath _ h
  · rcases wd_setWd_cases s w f with ⟨h', _⟩ | ⟨_, h'⟩
    · rw [h']; exact h
    · rw [h']; exact hpc _ h

theorem fr_foldl {β} (g : Graph) (c w : Nat) (f : State → β → State) (h : ∀ s b, Fr g c w s (f s b))
    (l : List β) (s : State) : Fr g c w s (l.foldl f s) := by
  induction l generalizing s with
  | nil => exact Fr.refl g c w s
  | cons a r ih => simp only [List.foldl_cons]; exact (h s a).trans (ih _)

/-! ## the invariant is preserved along the frame -/

theorem scopedLen_congr (g : Graph) (s s' : State) (c : Nat) (sh : Shape) (v : Nat)
    (h : ∀ m, (g.node m).cls = c → (s'.nd m).results = (s.nd m).results) : scopedLen g s' c sh v = scopedLen g s c sh v := by
  unfold scopedLen
  apply sum_map_congr
  intro j hj
  rw [h j ((mem_classNodes g c j).mp hj).2]

theorem FinIn.fr {g : Graph} {c w : Nat} {M : Option Int} {sh : Shape} {s s' : State} {L : Nat → Prop} {u : Nat}
    (hc : BClass g c M sh) (hw : w < g.workers.length) (b : BInv g c M sh s L) (a : Fr g c w s s')
    (h : FinIn g s c sh u) : FinIn g s' c sh u := by
  obtain ⟨j, u', hj, hjc, hfin, hsc⟩ := h
  refine ⟨j, u', hj, hjc, ?_, hsc⟩
  rcases a.finished j hjc with h' | ⟨h1, h2⟩
  · rw [h', hfin]
  · obtain ⟨hu', hid⟩ := b.finOwn j u' hj hjc hfin
    rw [h2, hc.uniq j hj hjc u' w hu' hw hid h1]

theorem BInv.fr {g : Graph} {c w : Nat} {M : Option Int} {sh : Shape} {s s' : State}
    (hc : BClass g c M sh) (hw : w < g.workers.length) (b : BInv g c M sh s (Ex w)) (a : Fr g c w s s') :
    BInv g c M sh s' (Ex w) where
  nodesLen := a.nodesLen.trans b.nodesLen
  workersLen := a.workersLen.trans b.workersLen
  path := fun v => by
    by_cases hv : v = w
    · subst hv; exact a.path (b.path v)
    · unfold PathC; rw [a.others v hv]; exact b.path v
  finOwn := fun j u hj hjc h => by
    rcases a.finished j hjc with h' | ⟨h1, h2⟩
    · rw [h'] at h; exact b.finOwn j u hj hjc h
    · rw [h2] at h; cases h; exact ⟨hw, h1⟩
  infl := fun u hu n ph dir uid tag wait hpc hn => by
    rw [a.others u hu] at hpc
    obtain ⟨h1, h2, h3, h4⟩ := b.infl u hu n ph dir uid tag wait hpc hn
    refine ⟨h1, ?_, h3, ?_⟩
    · rw [a.others u hu, a.results n hn]; exact h2
    rcases a.started n hn with h' | h'
    · rw [h', h4]
    · have hul : u < g.workers.length := by
        rw [← b.workersLen]; exact lt_of_isTest s u (by rw [hpc]; rfl)
      exact absurd (hc.uniq n h1 hn u w hul hw h3 h') hu
  resOwn := fun j hj hjc r hr => by rw [a.results j hjc] at hr; exact b.resOwn j hj hjc r hr
  p1 := fun j hj hjc hne => by
    rw [a.results j hjc] at hne ⊢
    rcases b.p1 j hj hjc hne with ⟨u, tag, hu, ⟨ph, dir, uid, wait, hpc⟩, hres⟩ | ⟨u, hu, hid, hf⟩
    · exact Or.inl ⟨u, tag, hu, ⟨ph, dir, uid, wait, by rw [a.others u hu]; exact hpc⟩, hres⟩
    · exact Or.inr ⟨u, hu, hid, hf.fr hc hw b a⟩
  budget := fun v hv P hP hPm => by
    rw [scopedLen_congr g s s' c sh v a.results]
    have := b.budget v hv P hP (fun u hu => ⟨(hPm u hu).1, (hPm u hu).2.of_wd_eq (a.others u (hPm u hu).1)⟩)
    have h2 := classLimit_mono g s s' c a.bump
    omega

/-! ## the functions of the loop that start nothing -/

theorem SameNodes.idIn {gv g : Graph} (h : SameNodes gv g) (w n : Nat) : gv.idIn w n = g.idIn w n := by
  unfold Graph.idIn; rw [h.worker, h.name]

theorem SameNodes.shape' {gv g : Graph} (h : SameNodes gv g) (n : Nat) : (gv.node n).shape = (g.node n).shape := by
  have := congrArg Node.shape (h.node n); exact this

theorem SameNodes.mct' {gv g : Graph} (h : SameNodes gv g) (n : Nat) : (gv.node n).mct = (g.node n).mct := by
  have := congrArg Node.mct (h.node n); exact this

theorem SameNodes.sameStatic {gv g : Graph} (h : SameNodes gv g) : SameStatic g gv :=
  ⟨h.len, h.workers, h.cls, h.shape', h.flat, h.mct', h.maxTries⟩

/-- a class-`c` node the walk may step on is the worker's own copy -/
theorem rel_of_relevant {g gv : Graph} {c : Nat} {M : Option Int} {sh : Shape} (hc : BClass g c M sh) (hgv : SameNodes gv g)
    {w x : Nat} (hx : x < g.nodes.length) (h : relevant gv w x = true) : (g.node x).cls = c → g.idIn w x = true := by
  intro hxc
  unfold relevant at h
  rw [hgv.flat, (hc.node x hx hxc).1, hgv.idIn] at h
  simpa using h

theorem pickChild_pick (g : Graph) (s : State) (n w c : Nat) (s' : State) (h : pickChild g s n w = some (c, s')) :
    c ∈ (g.node n).cleanup.map (·.1) ∧ relevant g w c = true ∧ ∃ cc f, s' = s.setCr cc f := by
  unfold pickChild at h
  dsimp only at h
  split at h
  · simp at h
  · rename_i c' rest heq
    simp only [Option.some.injEq, Prod.mk.injEq] at h
    have : c' ∈ stableSort (fun a b => keyLe (pickKey g s false a) (pickKey g s false b))
        (((g.node n).cleanup.map (·.1)).filter (fun c =>
          relevant g w c && !(regWorkers (s.cr (g.node n).cls).droppedCleanup (some (g.node c).cls)).contains w)) := by
      rw [heq]; exact List.mem_cons_self
    have := List.mem_filter.mp (mem_stableSort _ _ _ this)
    rw [Bool.and_eq_true] at this
    rw [← h.1]
    exact ⟨this.1, this.2.1, _, _, h.2.symm⟩

theorem pickParent_pick (g : Graph) (s : State) (n w c : Nat) (s' : State) (h : pickParent g s n w = some (c, s')) :
    c ∈ (g.node n).setup.map (·.1) ∧ relevant g w c = true ∧ ∃ cc f, s' = s.setCr cc f := by
  unfold pickParent at h
  dsimp only at h
  split at h
  · simp at h
  · rename_i c' rest heq
    simp only [Option.some.injEq, Prod.mk.injEq] at h
    have : c' ∈ stableSort (fun a b => keyLe (pickKey g s true a) (pickKey g s true b))
        (((g.node n).setup.map (·.1)).filter (fun p =>
          relevant g w p && !(regWorkers (s.cr (g.node n).cls).droppedSetup (some (g.node p).cls)).contains w)) := by
      rw [heq]; exact List.mem_cons_self
    have := List.mem_filter.mp (mem_stableSort _ _ _ this)
    rw [Bool.and_eq_true] at this
    rw [← h.1]
    exact ⟨this.1, this.2.1, _, _, h.2.symm⟩

theorem fr_popPath (g : Graph) (c w : Nat) (s : State) : Fr g c w s (popPath s w) :=
  fr_setWd g c w s _ (fun _ h x hx => h x (List.dropLast_subset _ hx)) (fun _ h => h)

theorem fr_pushPath (g : Graph) (c w : Nat) (s : State) (m : Nat) (hm : m < g.nodes.length)
    (hrel : (g.node m).cls = c → g.idIn w m = true) : Fr g c w s (pushPath s w m) :=
  fr_setWd g c w s _ (fun _ h x hx => by
    rcases List.mem_append.mp hx with hx | hx
    · exact h x hx
    · rw [List.mem_singleton.mp hx]; exact ⟨hm, hrel⟩) (fun _ h => h)

/-- back to the root -/
theorem fr_pathRoot {g : Graph} {c : Nat} {M : Option Int} {sh : Shape} (hc : BClass g c M sh) (hroot : g.root < g.nodes.length)
    (w : Nat) (s : State) (f : WorkerD → WorkerD) (hp : ∀ d, (f d).path = [g.root])
    (hpc : ∀ d, NotInC g c d.pc → NotInC g c (f d).pc) : Fr g c w s (s.setWd w f) :=
  fr_setWd g c w s f (fun d _ x hx => by
    rw [hp] at hx
    rw [List.mem_singleton.mp hx]
    exact ⟨hroot, fun h => absurd h hc.rootNot⟩) hpc

theorem fr_pickChild {g gv : Graph} {c : Nat} {M : Option Int} {sh : Shape} (hc : BClass g c M sh) (hgv : SameNodes gv g)
    (hwf : GraphWF gv) (s : State) (n w x : Nat) (s' : State) (h : pickChild gv s n w = some (x, s')) :
    Fr g c w s (pushPath s' w x) := by
  obtain ⟨hm, hrel, cc, f, hs⟩ := pickChild_pick gv s n w x s' h
  obtain ⟨p, hp, hpx⟩ := List.mem_map.mp hm
  have hlt : x < g.nodes.length := by rw [← hpx, ← hgv.len]; exact hwf.cleanup_lt n p hp
  rw [hs]
  exact (fr_setCr g c w s cc f).trans (fr_pushPath g c w _ x hlt (rel_of_relevant hc hgv hlt hrel))

theorem fr_pickParent {g gv : Graph} {c : Nat} {M : Option Int} {sh : Shape} (hc : BClass g c M sh) (hgv : SameNodes gv g)
    (hwf : GraphWF gv) (s : State) (n w x : Nat) (s' : State) (h : pickParent gv s n w = some (x, s')) :
    Fr g c w s (pushPath s' w x) := by
  obtain ⟨hm, hrel, cc, f, hs⟩ := pickParent_pick gv s n w x s' h
  obtain ⟨p, hp, hpx⟩ := List.mem_map.mp hm
  have hlt : x < g.nodes.length := by rw [← hpx, ← hgv.len]; exact hwf.setup_lt n p hp
  rw [hs]
  exact (fr_setCr g c w s cc f).trans (fr_pushPath g c w _ x hlt (rel_of_relevant hc hgv hlt hrel))

theorem fr_disableRerun (g : Graph) (c w : Nat) (s : State) (n : Nat) : Fr g c w s (disableRerun s n) :=
  fr_setNd g c w s n _ (fun _ _ => rfl) (fun _ => Nat.le_refl _) (fun _ => Or.inl (fun _ => rfl)) (fun _ => Or.inl (fun _ => rfl))

theorem fr_runDecision (g : Graph) (c w : Nat) (gv : Graph) (s : State) (n v : Nat) (b : Bool) (s1 : State) (e1 : List Event)
    (h : runDecision gv s n v = .ok (b, s1, e1)) : Fr g c w s s1 := by
  rcases runDecision_state gv s n v b s1 e1 h with h | h
  · rw [h]; exact Fr.refl g c w s
  · rw [h]; exact fr_disableRerun g c w s n

theorem fr_pullLocations (g : Graph) (c w : Nat) (gv : Graph) (s : State) (n : Nat) : Fr g c w s (pullLocations gv s n) := by
  unfold pullLocations
  split
  · exact Fr.refl g c w s
  · apply fr_foldl
    rintro s ⟨p, vms⟩
    apply fr_foldl
    intro s loc
    apply fr_foldl
    intro s vm
    exact fr_setNd g c w s n _ (fun _ _ => rfl) (fun _ => Nat.le_refl _) (fun _ => Or.inl (fun _ => rfl)) (fun _ => Or.inl (fun _ => rfl))

theorem fr_syncStates (g : Graph) (c w : Nat) (gv : Graph) (s : State) (n v : Nat) (rv : Option (List String)) :
    Fr g c w s (syncStates gv s n v rv).1 := by
  unfold syncStates
  dsimp only
  split
  · exact Fr.refl g c w s
  · split <;> exact Fr.quiet rfl rfl

theorem fr_mark (g : Graph) (c w : Nat) (s : State) (n : Nat) (o : Option Nat) (hrel : (g.node n).cls = c → g.idIn w n = true) :
    Fr g c w s (s.setNd n (fun d => { d with started := o })) :=
  fr_setNd g c w s n _ (fun _ _ => rfl) (fun _ => Nat.le_refl _) (fun h => Or.inr (hrel h)) (fun _ => Or.inl (fun _ => rfl))

theorem fr_finishTraverse (g : Graph) (c w : Nat) (s : State) (n : Nat) (hrel : (g.node n).cls = c → g.idIn w n = true) :
    Fr g c w s (finishTraverse s n w) :=
  fr_setNd g c w s n _ (fun _ _ => rfl) (fun _ => Nat.le_refl _) (fun h => Or.inr (hrel h))
    (fun h => Or.inr ⟨hrel h, fun _ => rfl⟩)

theorem fr_reverseNode (g : Graph) (c w : Nat) (gv : Graph) (s : State) (n : Nat) (s' : State) (evs : List Event)
    (hrel : (g.node n).cls = c → g.idIn w n = true) (h : reverseNode gv s n w = .ok (s', evs)) : Fr g c w s s' := by
  unfold reverseNode at h
  by_cases hocc : isOccupied gv s n w = true
  · simp only [hocc, if_true, Except.ok.injEq, Prod.mk.injEq] at h
    rw [← h.1]; exact Fr.refl g c w s
  · simp only [hocc, Bool.false_eq_true, if_false, ite_self] at h
    have h0 : Fr g c w s (s.setNd n (fun d => { d with started := some w })) := fr_mark g c w s n (some w) hrel
    cases hd : cleanDecision gv (s.setNd n (fun d => { d with started := some w })) n w with
    | error e => simp [hd] at h
    | ok clean =>
      simp only [hd, Except.ok.injEq, Prod.mk.injEq] at h
      rw [← h.1]
      refine h0.trans (Fr.trans ?_ (fr_mark g c w _ n none hrel))
      split
      · exact fr_syncStates g c w gv _ n w none
      · exact Fr.refl g c w _

theorem fr_dropChildren (g : Graph) (c w : Nat) (gv : Graph) (s : State) (next v : Nat) (l : List (Nat × List String)) :
    Fr g c w s (l.foldl (fun s (p, _) => dropChild gv s p next v) s) := by
  apply fr_foldl
  rintro s ⟨p, _⟩
  exact fr_setCr g c w s _ _

theorem afterTraverse_fr {g gv : Graph} {c : Nat} {M : Option Int} {sh : Shape} (hc : BClass g c M sh) (hgv : SameNodes gv g)
    (hwf : GraphWF gv) (s : State) (w next prev : Nat) (dir : Dir)
    (hrel : (g.node next).cls = c → g.idIn w next = true) : Fr g c w s (afterTraverse gv s w next prev dir).1 := by
  unfold afterTraverse
  cases hd : runDecision gv s next w with
  | error e => exact Fr.refl g c w s
  | ok r =>
    obtain ⟨run, s1, evs⟩ := r
    have h1 : Fr g c w s s1 := fr_runDecision g c w gv s next w run s1 evs hd
    cases dir with
    | up =>
      dsimp only
      refine h1.trans (Fr.trans ?_ (fr_popPath g c w _))
      split
      · exact fr_setCr g c w s1 _ _
      · exact Fr.refl g c w s1
    | down =>
      dsimp only
      by_cases hrun : run = true
      · simp only [hrun, if_true]
        exact h1.trans (fr_popPath g c w _)
      · simp only [hrun, Bool.false_eq_true, if_false]
        by_cases hcr : isCleanupReady gv s1 next w = true
        · simp only [hcr, if_true]
          by_cases hpp : (!(gv.node next).flat && (s1.wd w).unexplored) = true
          · simp only [hpp, if_true]
            refine h1.trans (fr_pathRoot hc (by rw [← hgv.root, ← hgv.len]; exact hwf.root_lt) w s1 _ (fun _ => ?_) (fun _ h => h))
            rw [hgv.root]
          simp only [hpp, Bool.false_eq_true, if_false]
          have h2 := fr_dropChildren g c w gv s1 next w (gv.node next).setup
          cases hr : reverseNode gv (List.foldl (fun s x => dropChild gv s x.1 next w) s1 (gv.node next).setup) next w with
          | error e => exact h1.trans h2
          | ok r =>
            obtain ⟨s2, evs2⟩ := r
            exact h1.trans (h2.trans ((fr_reverseNode g c w gv _ next s2 evs2 hrel hr).trans (fr_popPath g c w _)))
        · simp only [hcr, Bool.false_eq_true, if_false]
          cases hp : pickChild gv s1 next w with
          | none => exact h1
          | some r =>
            obtain ⟨x, s2⟩ := r
            exact h1.trans (fr_pickChild hc hgv hwf s1 next w x s2 hp)

/-! ## counting on the scan path -/

/-- an owner of a copy that has results -/
theorem BInv.owner {g : Graph} {c : Nat} {M : Option Int} {sh : Shape} {s : State} {L : Nat → Prop}
    (b : BInv g c M sh s L) (j : Nat) (hj : j < g.nodes.length) (hjc : (g.node j).cls = c) (hne : (s.nd j).results ≠ []) :
    ∃ u, u < g.workers.length ∧ g.idIn u j = true := by
  rcases b.p1 j hj hjc hne with ⟨u, tag, hu, ⟨ph, dir, uid, wait, hpc, _⟩, _⟩ | ⟨u, hu, hid, _⟩
  · have hul : u < g.workers.length := by rw [← b.workersLen]; exact lt_of_isTest s u (by rw [hpc]; rfl)
    exact ⟨u, hul, (b.infl u hu j ph dir uid tag wait hpc hjc).2.2.1⟩
  · exact ⟨u, hu, hid⟩

/-- two observers in one scope count the same results -/
theorem scopedLen_scope_eq {g : Graph} {c : Nat} {M : Option Int} {sh : Shape} {s : State} {L : Nat → Prop}
    (hc : BClass g c M sh) (b : BInv g c M sh s L) (v w : Nat) (hv : v < g.workers.length) (hw : w < g.workers.length)
    (hvw : inScopeOf sh g v w = true) : scopedLen g s c sh v = scopedLen g s c sh w := by
  unfold scopedLen
  apply sum_map_congr
  intro j hj
  obtain ⟨hj1, hj2⟩ := (mem_classNodes g c j).mp hj
  by_cases hne : (s.nd j).results = []
  · simp [hne]
  · obtain ⟨u, hu, hid⟩ := b.owner j hj1 hj2 hne
    rw [hc.scope j hj1 hj2 u v hu hv hid, hc.scope j hj1 hj2 u w hu hw hid, inScopeOf_trans sh g v w u hvw]

/-- While nobody of `w`'s scope has finished the class, the results an observer `v` that sees `w`'s copy `n` counts
are placeholders of executions (tests proper) in flight of distinct workers of `w`'s scope, each holding the `started`
mark of its copy; the creations in flight `P` on copies `v` sees belong to further distinct workers of the scope holding
marks: together they number at most `scopedCount`. (`s0`: the state in which `w` asked `is_occupied`; `s1`: with `w`'s
own mark on `n`.) -/
theorem scan_count {g : Graph} {c : Nat} {M : Option Int} {sh : Shape} (hc : BClass g c M sh) {s0 s1 : State} {w n v : Nat}
    (hw : w < g.workers.length) (hv : v < g.workers.length) (b : BInv g c M sh s1 (Ex w))
    (hn : n < g.nodes.length) (hnc : (g.node n).cls = c) (hid : g.idIn w n = true)
    (hmarks : ∀ j, j ≠ n → (s1.nd j).started = (s0.nd j).started)
    (hnf : ¬ FinIn g s1 c sh w) (hseen : seen g sh v n = true)
    (P : List Nat) (hP : P.Nodup) (hPm : ∀ u ∈ P, Ex w u ∧ InCre g s1 c sh v u) :
    scopedLen g s1 c sh v + P.length ≤ scopedCount g s0 n w := by
  have hvw : inScopeOf sh g v w = true := by rw [← hc.scope n hn hnc w v hw hv hid]; exact hseen
  have hnode := hc.node n hn hnc
  -- every counted copy is being executed by a worker of the scope that holds its mark
  have hA : ∀ j ∈ g.classNodes c, (if seen g sh v j then (s1.nd j).results.length else 0) ≠ 0 →
      ∃ u, (∃ ph dir uid tag wait, (s1.wd u).pc = .test j ph dir uid tag wait ∧ ph ≠ .pre) ∧ (s1.nd j).results.length = 1 ∧
        (s0.nd j).started = some u ∧ inScopeOf sh g w u = true := by
    intro j hj hne
    obtain ⟨hj1, hj2⟩ := (mem_classNodes g c j).mp hj
    have hs : seen g sh v j = true := by
      by_cases h : seen g sh v j = true
      · exact h
      · simp [h] at hne
    have hr : (s1.nd j).results ≠ [] := by
      intro h; simp [h] at hne
    rcases b.p1 j hj1 hj2 hr with ⟨u, tag, hu, ⟨ph, dir, uid, wait, hpc, hph⟩, hres⟩ | ⟨u, hu, hidu, hf⟩
    · obtain ⟨_, _, hidu, hst⟩ := b.infl u hu j ph dir uid tag wait hpc hj2
      have hul : u < g.workers.length := by rw [← b.workersLen]; exact lt_of_isTest s1 u (by rw [hpc]; rfl)
      have hjn : j ≠ n := by
        intro e; subst e
        exact hu (hc.uniq j hj1 hj2 u w hul hw hidu hid)
      refine ⟨u, ⟨ph, dir, uid, tag, wait, hpc, hph⟩, by rw [hres]; rfl, by rw [← hmarks j hjn]; exact hst, ?_⟩
      rw [← inScopeOf_trans sh g v w u hvw, ← hc.scope j hj1 hj2 u v hul hv hidu]; exact hs
    · exfalso
      apply hnf
      obtain ⟨j', u', h1, h2, h3, h4⟩ := hf
      refine ⟨j', u', h1, h2, h3, ?_⟩
      have hwu : inScopeOf sh g w u = true := by
        rw [← inScopeOf_trans sh g v w u hvw, ← hc.scope j hj1 hj2 u v hu hv hidu]; exact hs
      rw [inScopeOf_trans sh g w u u' hwu]; exact h4
  -- every creation in flight belongs to a worker of the scope that holds the mark of the copy it creates
  have hB : ∀ u ∈ P, (∃ j dir uid tag wait, (s1.wd u).pc = .test j .pre dir uid tag wait ∧ j ∈ g.copies n ∧
      (s0.nd j).started = some u) ∧ inScopeOf sh g w u = true := by
    intro u hu
    obtain ⟨huw, j, dir, uid, tag, wait, hpc, hjc, hs⟩ := hPm u hu
    obtain ⟨hj1, _, hidu, hst⟩ := b.infl u huw j .pre dir uid tag wait hpc hjc
    have hul : u < g.workers.length := by rw [← b.workersLen]; exact lt_of_isTest s1 u (by rw [hpc]; rfl)
    have hjn : j ≠ n := by
      intro e; subst e
      exact huw (hc.uniq j hj1 hjc u w hul hw hidu hid)
    refine ⟨⟨j, dir, uid, tag, wait, hpc, (mem_copies g n j hn hnode.1).mpr ⟨hj1, by rw [hjc, hnc]⟩,
      by rw [← hmarks j hjn]; exact hst⟩, ?_⟩
    rw [← inScopeOf_trans sh g v w u hvw, ← hc.scope j hj1 hjc u v hul hv hidu]; exact hs
  unfold scopedLen
  refine Nat.le_trans (Nat.add_le_add_right (sum_le_count _ _ (fun j hj => ?_)) _) ?_
  · by_cases h0 : (if seen g sh v j then (s1.nd j).results.length else 0) = 0
    · omega
    · obtain ⟨u, _, h1, _⟩ := hA j hj h0
      split <;> omega
  · -- the counted copies, mapped to the holders of their marks, and the creating workers
    let A := (g.classNodes c).filter (fun j => (if seen g sh v j then (s1.nd j).results.length else 0) != 0)
    have hAmem : ∀ j ∈ A, j ∈ g.classNodes c ∧ (if seen g sh v j then (s1.nd j).results.length else 0) ≠ 0 := by
      intro j hj
      have := List.mem_filter.mp hj
      exact ⟨this.1, by simpa using this.2⟩
    have hnd : (A.map (fun j => ((s0.nd j).started).getD 0)).Nodup := by
      apply nodup_map_on
      · exact List.Nodup.sublist List.filter_sublist (nodup_classNodes g c)
      · intro x hx y hy hxy
        obtain ⟨ux, ⟨ph, dir, uid, tag, wait, hpx, _⟩, _, hsx, _⟩ := hA x (hAmem x hx).1 (hAmem x hx).2
        obtain ⟨uy, ⟨ph', dir', uid', tag', wait', hpy, _⟩, _, hsy, _⟩ := hA y (hAmem y hy).1 (hAmem y hy).2
        simp only [hsx, hsy, Option.getD_some] at hxy
        subst hxy
        rw [hpx] at hpy
        cases hpy; rfl
    have hnd2 : (A.map (fun j => ((s0.nd j).started).getD 0) ++ P).Nodup := by
      rw [List.nodup_append]
      refine ⟨hnd, hP, fun a ha b hb hab => ?_⟩
      subst hab
      obtain ⟨j, hj, hju⟩ := List.mem_map.mp ha
      obtain ⟨u', ⟨ph, dir, uid, tag, wait, hpc, hph⟩, _, hs, _⟩ := hA j (hAmem j hj).1 (hAmem j hj).2
      rw [hs] at hju
      simp only [Option.getD_some] at hju
      subst hju
      obtain ⟨⟨j', dir', uid', tag', wait', hpc', _⟩, _⟩ := hB u' hb
      rw [hpc] at hpc'
      cases hpc'
      exact hph rfl
    have hsub : ∀ u ∈ A.map (fun j => ((s0.nd j).started).getD 0) ++ P,
        u ∈ (sharedStarted g s0 n).filter (inScopeOf (g.node n).shape g w) := by
      intro u hu
      rcases List.mem_append.mp hu with hu | hu
      · obtain ⟨j, hj, hju⟩ := List.mem_map.mp hu
        obtain ⟨u', _, _, hs, hsc⟩ := hA j (hAmem j hj).1 (hAmem j hj).2
        rw [hs] at hju
        simp only [Option.getD_some] at hju
        subst hju
        obtain ⟨hj1, hj2⟩ := (mem_classNodes g c j).mp (hAmem j hj).1
        refine List.mem_filter.mpr ⟨(mem_sharedStarted g s0 n u').mpr ⟨j, ?_, hs⟩, by rw [hnode.2.2.2.2]; exact hsc⟩
        exact (mem_copies g n j hn hnode.1).mpr ⟨hj1, by rw [hj2, hnc]⟩
      · obtain ⟨⟨j, _, _, _, _, _, hjc, hs⟩, hsc⟩ := hB u hu
        exact List.mem_filter.mpr ⟨(mem_sharedStarted g s0 n u).mpr ⟨j, hjc, hs⟩, by rw [hnode.2.2.2.2]; exact hsc⟩
    have := length_le_of_nodup_subset hnd2 hsub
    rw [List.length_append, List.length_map] at this
    exact this

/-! ## the guarded start of a test of the class -/

theorem sharedFilteredResults_sameNodes {gv g : Graph} (h : SameNodes gv g) (s : State) (n : Nat) (sw : Option Nat) :
    sharedFilteredResults gv s n sw = sharedFilteredResults g s n sw := by
  unfold sharedFilteredResults
  simp only [sharedResults_sameNodes h, h.shape', h.worker]

theorem FinIn.of_finished_eq {g : Graph} {c : Nat} {sh : Shape} {s s' : State} {u : Nat}
    (h : ∀ j, (s'.nd j).finished = (s.nd j).finished) (hf : FinIn g s c sh u) : FinIn g s' c sh u := by
  obtain ⟨j, u', h1, h2, h3, h4⟩ := hf
  exact ⟨j, u', h1, h2, by rw [h j]; exact h3, h4⟩

theorem scopedLen_start {g : Graph} {c : Nat} {sh : Shape} {s s' : State} {n : Nat} (hn : n < g.nodes.length)
    (hnc : (g.node n).cls = c) (h1 : (s'.nd n).results.length = (s.nd n).results.length + 1)
    (h2 : ∀ j, j ≠ n → (s'.nd j).results = (s.nd j).results) (v : Nat) :
    scopedLen g s' c sh v = scopedLen g s c sh v + (if seen g sh v n then 1 else 0) := by
  unfold scopedLen
  by_cases hs : seen g sh v n = true
  · simp only [hs, if_true]
    apply sum_map_succ _ (nodup_classNodes g c) n ((mem_classNodes g c n).mpr ⟨hn, hnc⟩)
    · simp only [hs, if_true]; exact h1
    · intro j _ hj; rw [h2 j hj]
  · simp only [hs, Bool.false_eq_true, if_false, Nat.add_zero]
    apply sum_map_congr
    intro j _
    by_cases hj : j = n
    · subst hj; simp [hs]
    · rw [h2 j hj]

/-- with retries configured (`max_tries ≥ 2`) the class has no object roots: results carry the names of their copies -/
theorem BInv.noRoots_names {g : Graph} {c : Nat} {M : Option Int} {sh : Shape} {s : State} {L : Nat → Prop}
    (hc : BClass g c M sh) (b : BInv g c M sh s L) (hM : 2 ≤ M.getD 1) :
    ∀ j, j < g.nodes.length → (g.node j).cls = c → ∀ r ∈ (s.nd j).results, r.name = (g.node j).name := by
  intro j hj hjc r hr
  rcases b.resOwn j hj hjc r hr with h | ⟨h, _⟩
  · exact h
  · rcases (hc.node j hj hjc).2.1 with h' | h'
    · rw [h] at h'; cases h'
    · omega

/-- … and nobody is inside a creation -/
theorem BInv.noRoots_P {g : Graph} {c : Nat} {M : Option Int} {sh : Shape} {s : State} {L : Nat → Prop}
    (hc : BClass g c M sh) (b : BInv g c M sh s L) (hM : 2 ≤ M.getD 1) {v : Nat} (P : List Nat)
    (hPm : ∀ u ∈ P, L u ∧ InCre g s c sh v u) : P = [] := by
  cases P with
  | nil => rfl
  | cons u r =>
    exfalso
    obtain ⟨hu, j, dir, uid, tag, wait, hpc, hjc, _⟩ := hPm u List.mem_cons_self
    obtain ⟨hj, h2, _, _⟩ := b.infl u hu j .pre dir uid tag wait hpc hjc
    rcases (hc.node j hj hjc).2.1 with h' | h'
    · rw [(h2 rfl).1] at h'; cases h'
    · omega

/-- The common prefix of a guarded start: worker `w` has found its copy `n` of the class not occupied (state `s0`),
marked it, pulled the locations and decided to run (state `s1`).  Either nobody of `w`'s scope has finished the class
and the marks in scope numbered less than the threshold (scan path), or the rerun rule counted the results in scope. -/
theorem enter_prefix {g gv : Graph} {c : Nat} {M : Option Int} {sh : Shape} (hc : BClass g c M sh) (hgv : SameNodes gv g)
    {s0 s1 : State} {w n : Nat} {evs : List Event} (hw : w < g.workers.length)
    (b0 : BInv g c M sh s0 (Ex w)) (hn : n < g.nodes.length) (hnc : (g.node n).cls = c) (hid : g.idIn w n = true)
    (hocc : isOccupied gv s0 n w = false)
    (hdec : runDecision gv (pullLocations gv (s0.setNd n (fun d => { d with started := some w })) n) n w = .ok (true, s1, evs)) :
    BInv g c M sh s1 (Ex w) ∧ (s1.nd n).started = some w ∧ (∀ j, j ≠ n → (s1.nd j).started = (s0.nd j).started) ∧
    classLimit g s0 c ≤ classLimit g s1 c ∧
    ((¬ FinIn g s1 c sh w ∧ scopedCount g s0 n w < classLimit g s0 c) ∨
     (((sharedFilteredResults g s1 n (some w)).length : Int) < M.getD 1 ∧ M.getD 1 ≠ 1)) := by
  have hnode := hc.node n hn hnc
  have hrel : (g.node n).cls = c → g.idIn w n = true := fun _ => hid
  -- the silent prefix
  have fr1 : Fr g c w s0 s1 :=
    ((fr_mark g c w s0 n (some w) hrel).trans (fr_pullLocations g c w gv _ n)).trans (fr_runDecision g c w gv _ n w true s1 evs hdec)
  have b1 : BInv g c M sh s1 (Ex w) := b0.fr hc hw fr1
  have hns0 : n < s0.nodes.length := by rw [b0.nodesLen]; exact hn
  -- node records of `s1` against `s0`
  have hnd1 : ∀ {α} (P : NodeD → α), (∀ d, P { d with rerunDisabled := true } = P d) → ∀ j,
      P (s1.nd j) = P ((pullLocations gv (s0.setNd n (fun d => { d with started := some w })) n).nd j) := by
    intro α P hP j
    rcases runDecision_state gv _ n w true s1 evs hdec with h | h
    · rw [h]
    · rw [h]; exact nd_disableRerun_proj P hP _ n j
  have hst1 : ∀ j, (s1.nd j).started = ((s0.setNd n (fun d => { d with started := some w })).nd j).started := by
    intro j; rw [hnd1 (·.started) (fun _ => rfl) j, started_pullLocations]
  have hstn : (s1.nd n).started = some w := by rw [hst1 n, nd_setNd_eq s0 n _ hns0]
  have hsto : ∀ j, j ≠ n → (s1.nd j).started = (s0.nd j).started := by
    intro j hj; rw [hst1 j, nd_setNd_ne s0 n j _ hj]
  -- the decision
  have hsets : (gv.node n).sets.isEmpty = false := by rw [hgv.sets]; exact hnode.2.2.1
  have hdecide := runDecision_true_stateful gv _ n w s1 evs hsets hdec
  refine ⟨b1, hstn, hsto, classLimit_mono g _ _ c fr1.bump, ?_⟩
  rcases hdecide with ⟨hnotfin, _⟩ | ⟨hcount, hne1⟩
  · -- scan path: fewer marks in scope than the threshold
    left
    have hnf : ¬ FinIn g s1 c sh w := by
      intro hf
      have hflat : (gv.node n).flat = false := by rw [hgv.flat]; exact hnode.1
      apply not_finIn_of_not_finished gv _ n w (by rw [hgv.len]; exact hn) hflat hnotfin
      obtain ⟨j, u', h1, h2, h3, h4⟩ := hf
      refine ⟨j, u', by rw [hgv.len]; exact h1, by rw [hgv.cls, hgv.cls, h2, hnc], ?_, ?_⟩
      · rw [← hnd1 (·.finished) (fun _ => rfl) j]; exact h3
      · rw [hgv.shape', hnode.2.2.2.2, ← (hgv.sameStatic).inScopeOf_eq] at *; exact h4
    have h2 := room_of_not_occupied gv s0 n w (by rw [hgv.flat]; exact hnode.1) hocc
    rw [(hgv.sameStatic).scopedCount_eq, (hgv.sameStatic).limit_eq] at h2
    have h3 := Nat.le_trans (limit_le_peakLimit g s0 n) (peakLimit_le_classLimit g s0 n hn)
    rw [hnc] at h3
    exact ⟨hnf, by omega⟩
  · -- rerun rule: the results in scope number less than `max_tries`
    right
    have hcr : countedResults gv s1 n w = sharedFilteredResults g s1 n (some w) := by
      unfold countedResults scopeWorker
      rw [hsets, hstn]
      simp only [Bool.false_eq_true, if_false]
      exact sharedFilteredResults_sameNodes hgv s1 n _
    rw [hcr, hgv.maxTries, hnode.2.2.2.1] at hcount
    rw [hgv.maxTries, hnode.2.2.2.1] at hne1
    exact ⟨hcount, hne1⟩

/-- THE step: worker `w` has found its copy `n` of the class not occupied (state `s0`), marked it, pulled the
locations, decided to run, and starts the test.  The invariant holds afterwards, for all workers. -/
theorem enter_start {g gv : Graph} {c : Nat} {M : Option Int} {sh : Shape} (hc : BClass g c M sh) (hgv : SameNodes gv g)
    {s0 s1 : State} {w n : Nat} {evs : List Event} (dir : Dir) (hw : w < g.workers.length)
    (b0 : BInv g c M sh s0 (Ex w)) (hn : n < g.nodes.length) (hnc : (g.node n).cls = c) (hid : g.idIn w n = true)
    (hocc : isOccupied gv s0 n w = false)
    (hdec : runDecision gv (pullLocations gv (s0.setNd n (fun d => { d with started := some w })) n) n w = .ok (true, s1, evs)) :
    BInv g c M sh (startTest gv s1 n w .plain dir).1 All := by
  have hnode := hc.node n hn hnc
  obtain ⟨b1, hstn, hsto, hlim01, hpath⟩ := enter_prefix hc hgv hw b0 hn hnc hid hocc hdec
  -- the state after the start
  have hns1 : n < s1.nodes.length := by rw [b1.nodesLen]; exact hn
  have hws1 : w < s1.workers.length := by rw [b1.workersLen]; exact hw
  have hfst := startTest_nonpre_fst gv s1 n w .plain dir (by decide)
  have hndn : ((startTest gv s1 n w .plain dir).1.nd n) =
      { s1.nd n with results := (s1.nd n).results ++ [phOf (gv.node n).name s1.nextTag] } := by
    rw [hfst, nd_setWd]
    exact nd_setNd_eq ({ s1 with nextTag := s1.nextTag + 1 }) n _ hns1
  have hndo : ∀ j, j ≠ n → (startTest gv s1 n w .plain dir).1.nd j = s1.nd j := by
    intro j hj
    rw [hfst, nd_setWd]
    exact nd_setNd_ne ({ s1 with nextTag := s1.nextTag + 1 }) n j _ hj
  have hwdo : ∀ v, v ≠ w → (startTest gv s1 n w .plain dir).1.wd v = s1.wd v :=
    fun v hv => startTest_wd_ne gv s1 n w .plain dir v hv
  have hwdw : ((startTest gv s1 n w .plain dir).1.wd w) =
      { s1.wd w with pc := .test n .plain dir (uidOf (gv.node n).pfx (sharedResults gv s1 n).length) s1.nextTag 0 } := by
    rw [hfst]
    exact wd_setWd_eq _ w _ (by exact hws1)
  have hproj : ∀ {α} (P : NodeD → α), (∀ d r, P { d with results := r } = P d) → ∀ j,
      P ((startTest gv s1 n w .plain dir).1.nd j) = P (s1.nd j) := by
    intro α P hP j
    by_cases hj : j = n
    · subst hj; rw [hndn]; exact hP _ _
    · rw [hndo j hj]
  have hfin : ∀ j, ((startTest gv s1 n w .plain dir).1.nd j).finished = (s1.nd j).finished :=
    hproj (·.finished) (fun _ _ => rfl)
  have hbump : ∀ j, ((startTest gv s1 n w .plain dir).1.nd j).bump = (s1.nd j).bump := hproj (·.bump) (fun _ _ => rfl)
  have hsta : ∀ j, ((startTest gv s1 n w .plain dir).1.nd j).started = (s1.nd j).started :=
    hproj (·.started) (fun _ _ => rfl)
  have hgrow : ∀ j, (s1.nd j).results.length ≤ ((startTest gv s1 n w .plain dir).1.nd j).results.length := by
    intro j
    by_cases hj : j = n
    · subst hj; rw [hndn]; simp
    · rw [hndo j hj]; exact Nat.le_refl _
  refine ⟨?_, ?_, fun v => ?_, fun j u hj hjc h => ?_, fun u _ n' ph dir' uid tag wait hpc hn' => ?_,
    fun j hj hjc r hr => ?_, fun j hj hjc hne => ?_, fun v hv P hP hPm => ?_⟩
  · rw [hfst]; simp only [State.setWd, State.setNd, List.length_modify]; exact b1.nodesLen
  · rw [hfst]; simp only [State.setWd, State.setNd, List.length_modify]; exact b1.workersLen
  · unfold PathC
    by_cases hvw : v = w
    · subst hvw; rw [hwdw]; exact b1.path v
    · rw [hwdo v hvw]; exact b1.path v
  · rw [hfin] at h; exact b1.finOwn j u hj hjc h
  · by_cases huw : u = w
    · subst huw
      rw [hwdw] at hpc
      cases hpc
      exact ⟨hn, (fun h => by cases h), hid, by rw [hsta]; exact hstn⟩
    · rw [hwdo u huw] at hpc ⊢
      obtain ⟨h1, h2, h3, h4⟩ := b1.infl u huw n' ph dir' uid tag wait hpc hn'
      refine ⟨h1, fun hp => ?_, h3, by rw [hsta]; exact h4⟩
      obtain ⟨a1, a2, a3⟩ := h2 hp
      exact ⟨a1, Nat.le_trans a2 (Nat.add_le_add_right (hgrow n') 1), a3⟩
  · by_cases hjn : j = n
    · subst hjn
      rw [hndn] at hr
      rcases List.mem_append.mp hr with hr | hr
      · exact b1.resOwn j hj hjc r hr
      · rw [List.mem_singleton.mp hr]; exact Or.inl (hgv.name j)
    · rw [hndo j hjn] at hr; exact b1.resOwn j hj hjc r hr
  · by_cases hjn : j = n
    · subst hjn
      by_cases hres : (s1.nd j).results = []
      · left
        refine ⟨w, s1.nextTag, trivial, ⟨.plain, dir, _, 0, by rw [hwdw], by decide⟩, ?_⟩
        rw [hndn, hres, hgv.name]; rfl
      · right
        rcases b1.p1 j hj hjc hres with ⟨u, tag, hu, ⟨ph, dir', uid, wait, hpc, _⟩, _⟩ | ⟨u, hu, hidu, hf⟩
        · exfalso
          have hul : u < g.workers.length := by rw [← b1.workersLen]; exact lt_of_isTest s1 u (by rw [hpc]; rfl)
          exact hu (hc.uniq j hj hjc u w hul hw (b1.infl u hu j ph dir' uid tag wait hpc hjc).2.2.1 hid)
        · exact ⟨u, hu, hidu, hf.of_finished_eq hfin⟩
    · rw [hndo j hjn] at hne ⊢
      rcases b1.p1 j hj hjc hne with ⟨u, tag, hu, ⟨ph, dir', uid, wait, hpc, hph⟩, hres⟩ | ⟨u, hu, hidu, hf⟩
      · exact Or.inl ⟨u, tag, trivial, ⟨ph, dir', uid, wait, by rw [hwdo u hu]; exact hpc, hph⟩, hres⟩
      · exact Or.inr ⟨u, hu, hidu, hf.of_finished_eq hfin⟩
  · -- the budget
    have hlen : ((startTest gv s1 n w .plain dir).1.nd n).results.length = (s1.nd n).results.length + 1 := by
      rw [hndn]; simp
    rw [scopedLen_start hn hnc hlen (fun j hj => by rw [hndo j hj]) v]
    -- the creations in flight are those of the other workers
    have hPw : ∀ u ∈ P, Ex w u ∧ InCre g s1 c sh v u := by
      intro u hu
      have huw : u ≠ w := by
        intro e; subst e
        obtain ⟨_, j, dir', uid, tag, wait, hpc, _⟩ := hPm u hu
        rw [hwdw] at hpc; cases hpc
      exact ⟨huw, (hPm u hu).2.of_wd_eq (hwdo u huw)⟩
    have hb1 := b1.budget v hv P hP hPw
    have hlim1 : classLimit g s1 c ≤ classLimit g (startTest gv s1 n w .plain dir).1 c :=
      classLimit_mono g _ _ c (fun i => by rw [hbump]; exact Nat.le_refl _)
    by_cases hseen : seen g sh v n = true
    · simp only [hseen, if_true]
      rcases hpath with ⟨hnf, hroom⟩ | ⟨hcount, hne1⟩
      · have h1 := scan_count hc hw hv b1 hn hnc hid hsto hnf hseen P hP hPw
        omega
      · have hM : 2 ≤ M.getD 1 := by omega
        have hvw : inScopeOf sh g v w = true := by rw [← hc.scope n hn hnc w v hw hv hid]; exact hseen
        have heq := scopedLen_scope_eq hc b1 v w hv hw hvw
        rw [sfr_length g s1 c sh n w hn hnode.1 hnc hnode.2.2.2.2 (b1.noRoots_names hc hM)] at hcount
        rw [b1.noRoots_P hc hM P hPw]
        simp only [List.length_nil]
        omega
    · simp only [hseen, Bool.false_eq_true, if_false]
      omega

/-- … the same step at an object root: the creation pre-step starts on a copy of the results kept by the worker.
No result is filed yet; the creation is counted as a result-to-be. -/
theorem enter_start_pre {g gv : Graph} {c : Nat} {M : Option Int} {sh : Shape} (hc : BClass g c M sh) (hgv : SameNodes gv g)
    {s0 s1 : State} {w n : Nat} {evs : List Event} (dir : Dir) (hw : w < g.workers.length)
    (b0 : BInv g c M sh s0 (Ex w)) (hn : n < g.nodes.length) (hnc : (g.node n).cls = c) (hid : g.idIn w n = true)
    (hroot : (g.node n).objectRoot = true) (hocc : isOccupied gv s0 n w = false)
    (hdec : runDecision gv (pullLocations gv (s0.setNd n (fun d => { d with started := some w })) n) n w = .ok (true, s1, evs)) :
    BInv g c M sh (startTest gv (s1.setWd w (fun d => { d with preResults := (s1.nd n).results, preName := preNameOf gv n w }))
      n w .pre dir).1 All := by
  have hnode := hc.node n hn hnc
  obtain ⟨b1, hstn, hsto, hlim01, hpath⟩ := enter_prefix hc hgv hw b0 hn hnc hid hocc hdec
  have hM : M.getD 1 ≤ 1 := by
    rcases hnode.2.1 with h | h
    · rw [hroot] at h; cases h
    · exact h
  have hws1 : w < s1.workers.length := by rw [b1.workersLen]; exact hw
  -- the state after the start
  generalize hF : (startTest gv (s1.setWd w (fun d => { d with preResults := (s1.nd n).results, preName := preNameOf gv n w }))
      n w .pre dir).1 = F
  rw [startTest_pre_fst] at hF
  have hSw : (s1.setWd w (fun d => { d with preResults := (s1.nd n).results, preName := preNameOf gv n w })).wd w =
      { s1.wd w with preResults := (s1.nd n).results, preName := preNameOf gv n w } := wd_setWd_eq s1 w _ hws1
  have hSo : ∀ v, v ≠ w →
      (s1.setWd w (fun d => { d with preResults := (s1.nd n).results, preName := preNameOf gv n w })).wd v = s1.wd v :=
    fun v hv => wd_setWd_ne s1 w v _ hv
  have hSl : (s1.setWd w (fun d => { d with preResults := (s1.nd n).results, preName := preNameOf gv n w })).workers.length =
      s1.workers.length := workers_length_setWd _ _ _
  have hSn : ∀ j, (s1.setWd w (fun d => { d with preResults := (s1.nd n).results, preName := preNameOf gv n w })).nd j =
      s1.nd j := fun _ => rfl
  have hSt : (s1.setWd w (fun d => { d with preResults := (s1.nd n).results, preName := preNameOf gv n w })).nextTag =
      s1.nextTag := rfl
  have hSnl : (s1.setWd w (fun d => { d with preResults := (s1.nd n).results, preName := preNameOf gv n w })).nodes.length =
      s1.nodes.length := rfl
  generalize s1.setWd w (fun d => { d with preResults := (s1.nd n).results, preName := preNameOf gv n w }) = S
    at hF hSw hSo hSl hSn hSt hSnl
  have hnd : ∀ j, F.nd j = s1.nd j := fun j => by rw [← hF, nd_setWd]; exact hSn j
  have hwdo : ∀ v, v ≠ w → F.wd v = s1.wd v := by
    intro v hv
    rw [← hF, wd_setWd_ne _ w v _ hv]
    exact hSo v hv
  have hwdw : (F.wd w).pc = .test n .pre dir (uidOf "0" (S.wd w).preResults.length) s1.nextTag 0 ∧
      (F.wd w).preResults = (s1.nd n).results ++ [phOf (preNameOf gv n w) s1.nextTag] ∧ (F.wd w).path = (s1.wd w).path := by
    rw [← hF]
    have hl : w < ({ S with nextTag := S.nextTag + 1 } : State).workers.length := by
      show w < S.workers.length
      rw [hSl]; exact hws1
    rw [wd_setWd_eq _ w _ hl]
    refine ⟨by rw [hSt], ?_, ?_⟩
    · show (S.wd w).preResults ++ [phOf (S.wd w).preName S.nextTag] = _
      rw [hSw, hSt]
    · show (S.wd w).path = _
      rw [hSw]
  obtain ⟨hpcw, hprw, hpaw⟩ := hwdw
  have hfin : ∀ u, FinIn g s1 c sh u → FinIn g F c sh u := fun u hf => hf.of_finished_eq (fun j => by rw [hnd])
  -- on the scan path the root has no result yet
  have hscan : ¬ FinIn g s1 c sh w ∧ scopedCount g s0 n w < classLimit g s0 c := by
    rcases hpath with h | ⟨h1, h2⟩
    · exact h
    · exfalso; omega
  have hres0 : (s1.nd n).results = [] := by
    apply Classical.byContradiction
    intro hne
    rcases b1.p1 n hn hnc hne with ⟨u, tag, hu, ⟨ph, dir', uid, wait, hpc, _⟩, _⟩ | ⟨u, hu, hidu, hf⟩
    · have hul : u < g.workers.length := by rw [← b1.workersLen]; exact lt_of_isTest s1 u (by rw [hpc]; rfl)
      exact hu (hc.uniq n hn hnc u w hul hw (b1.infl u hu n ph dir' uid tag wait hpc hnc).2.2.1 hid)
    · rw [hc.uniq n hn hnc u w hu hw hidu hid] at hf
      exact hscan.1 hf
  refine ⟨?_, ?_, fun v => ?_, fun j u hj hjc h => ?_, fun u _ n' ph dir' uid tag wait hpc hn' => ?_,
    fun j hj hjc r hr => ?_, fun j hj hjc hne => ?_, fun v hv P hP hPm => ?_⟩
  · rw [← hF]; show S.nodes.length = _; rw [hSnl]; exact b1.nodesLen
  · rw [← hF, workers_length_setWd]; show S.workers.length = _; rw [hSl]; exact b1.workersLen
  · unfold PathC
    by_cases hvw : v = w
    · subst hvw; rw [hpaw]; exact b1.path v
    · rw [hwdo v hvw]; exact b1.path v
  · rw [hnd] at h; exact b1.finOwn j u hj hjc h
  · by_cases huw : u = w
    · subst huw
      rw [hpcw] at hpc
      cases hpc
      refine ⟨hn, fun _ => ⟨hroot, ?_, ?_⟩, hid, by rw [hnd]; exact hstn⟩
      · rw [hprw, hnd]; simp
      · intro r hr
        rw [hprw] at hr
        rcases List.mem_append.mp hr with hr | hr
        · exact b1.resOwn n hn hnc r hr
        · rw [List.mem_singleton.mp hr]
          right
          refine ⟨hroot, fun v hv hin => ?_⟩
          have hin' : strIn (scopeFilter g sh v) (preNameOf g n u) = true := by
            rw [← preNameOf_sameNodes hgv]; exact hin
          exact hc.preScope n hn hnc hroot u v hw hv hid hin'
    · rw [hwdo u huw] at hpc ⊢
      rw [hnd]
      exact b1.infl u huw n' ph dir' uid tag wait hpc hn'
  · rw [hnd] at hr; exact b1.resOwn j hj hjc r hr
  · rw [hnd] at hne ⊢
    rcases b1.p1 j hj hjc hne with ⟨u, tag, hu, ⟨ph, dir', uid, wait, hpc, hph⟩, hres⟩ | ⟨u, hu, hidu, hf⟩
    · exact Or.inl ⟨u, tag, trivial, ⟨ph, dir', uid, wait, by rw [hwdo u hu]; exact hpc, hph⟩, hres⟩
    · exact Or.inr ⟨u, hu, hidu, hfin u hf⟩
  · -- the budget: the new creation is one more result-to-be
    have hsl : scopedLen g F c sh v = scopedLen g s1 c sh v := scopedLen_congr g s1 F c sh v (fun m _ => by rw [hnd])
    have hlim1 : classLimit g s1 c ≤ classLimit g F c := classLimit_mono g _ _ c (fun i => by rw [hnd]; exact Nat.le_refl _)
    rw [hsl]
    have hPe : ∀ u ∈ P.erase w, Ex w u ∧ InCre g s1 c sh v u := by
      intro u hu
      have huw : u ≠ w := ((List.Nodup.mem_erase_iff hP).mp hu).1
      have hup : u ∈ P := List.mem_of_mem_erase hu
      exact ⟨huw, (hPm u hup).2.of_wd_eq (hwdo u huw)⟩
    have hPn : (P.erase w).Nodup := hP.erase w
    by_cases hwP : w ∈ P
    · have hlen : (P.erase w).length + 1 = P.length := by
        rw [List.length_erase_of_mem hwP]
        have := List.length_pos_of_mem hwP
        omega
      have hseen : seen g sh v n = true := by
        obtain ⟨_, j, dir', uid, tag, wait, hpc, _, hs⟩ := hPm w hwP
        rw [hpcw] at hpc; cases hpc; exact hs
      have h1 := scan_count hc hw hv b1 hn hnc hid hsto hscan.1 hseen (P.erase w) hPn hPe
      omega
    · have hb1 := b1.budget v hv P hP (fun u hu => by
        have huw : u ≠ w := fun e => hwP (e ▸ hu)
        exact ⟨huw, (hPm u hu).2.of_wd_eq (hwdo u huw)⟩)
      omega

/-! ## the walk through the loop -/

theorem notInC_test {g : Graph} {c n : Nat} (h : (g.node n).cls ≠ c) (ph : Phase) (dir : Dir) (uid : String) (tag wait : Nat) :
    NotInC g c (.test n ph dir uid tag wait) := by
  intro n' ph' dir' uid' tag' wait' e
  cases e; exact h

/-- the start of a test of another class is invisible to the invariant of class `c` -/
theorem fr_startOther (g : Graph) (c w : Nat) (gv : Graph) (s : State) (n : Nat) (ph : Phase) (dir : Dir)
    (hne : (g.node n).cls ≠ c) : Fr g c w s (startTest gv s n w ph dir).1 := by
  have a1 : Fr g c w s { s with nextTag := s.nextTag + 1 } := Fr.quiet rfl rfl
  by_cases hph : ph = .pre
  · subst hph
    rw [startTest_pre_fst]
    have a2 : Fr g c w { s with nextTag := s.nextTag + 1 } (({ s with nextTag := s.nextTag + 1 } : State).setWd w (fun d => { d with
        preResults := d.preResults ++ [phOf (s.wd w).preName s.nextTag],
        pc := .test n .pre dir (uidOf "0" (s.wd w).preResults.length) s.nextTag 0 })) :=
      fr_setWd g c w _ _ (fun _ h => h) (fun _ _ => notInC_test hne _ _ _ _ _)
    exact a1.trans a2
  · rw [startTest_nonpre_fst gv s n w ph dir hph]
    have a2 : Fr g c w { s with nextTag := s.nextTag + 1 } (({ s with nextTag := s.nextTag + 1 } : State).setNd n
        (fun d => { d with results := d.results ++ [phOf (gv.node n).name s.nextTag] })) :=
      fr_setNd g c w _ n _ (fun h => absurd h hne) (fun _ => Nat.le_refl _) (fun h => absurd h hne) (fun h => absurd h hne)
    have a3 : Fr g c w (({ s with nextTag := s.nextTag + 1 } : State).setNd n
        (fun d => { d with results := d.results ++ [phOf (gv.node n).name s.nextTag] }))
        ((({ s with nextTag := s.nextTag + 1 } : State).setNd n
        (fun d => { d with results := d.results ++ [phOf (gv.node n).name s.nextTag] })).setWd w
        (fun d => { d with pc := .test n ph dir (uidOf (gv.node n).pfx (sharedResults gv s n).length) s.nextTag 0 })) :=
      fr_setWd g c w _ _ (fun _ h => h) (fun _ _ => notInC_test hne _ _ _ _ _)
    exact (a1.trans a2).trans a3

/-- outcome of a piece of the loop: it started no test of the class, or the invariant holds for all workers and
the worker is suspended in the test it started -/
def WalkOK (g : Graph) (c : Nat) (M : Option Int) (sh : Shape) (w : Nat) (s : State) (r : Step) : Prop :=
  Fr g c w s r.1 ∨ (BInv g c M sh r.1 All ∧ r.2.2 = Flow.suspend)

theorem traverseNode_b {g gv : Graph} {c : Nat} {M : Option Int} {sh : Shape} (hc : BClass g c M sh) (hgv : SameNodes gv g)
    (hwf : GraphWF gv) (s : State) (w next prev : Nat) (dir : Dir) (hw : w < g.workers.length)
    (b : BInv g c M sh s (Ex w)) (hnext : next < g.nodes.length)
    (hrel : (g.node next).cls = c → g.idIn w next = true) :
    WalkOK g c M sh w s (traverseNode gv s w next prev dir) := by
  unfold traverseNode
  by_cases hocc : isOccupied gv s next w = true
  · simp only [hocc, if_true]
    exact Or.inl (afterTraverse_fr hc hgv hwf s w next prev dir hrel)
  · simp only [hocc, Bool.false_eq_true, if_false]
    have hocc' : isOccupied gv s next w = false := by simpa using hocc
    have h0 : Fr g c w s (pullLocations gv (s.setNd next (fun d => { d with started := some w })) next) :=
      (fr_mark g c w s next (some w) hrel).trans (fr_pullLocations g c w gv _ next)
    cases hd : runDecision gv (pullLocations gv (s.setNd next (fun d => { d with started := some w })) next) next w with
    | error e => exact Or.inl h0
    | ok r =>
      obtain ⟨run, s1, evs⟩ := r
      have h1 : Fr g c w s s1 := h0.trans (fr_runDecision g c w gv _ next w run s1 evs hd)
      dsimp only
      by_cases hrun : run = true
      · subst hrun
        simp only [if_true]
        by_cases hroot : (gv.node next).objectRoot = true
        · simp only [hroot, if_true]
          by_cases hcls : (g.node next).cls = c
          · right
            exact ⟨enter_start_pre hc hgv dir hw b hnext hcls (hrel hcls) (by rw [← hgv.objectRoot]; exact hroot) hocc' hd,
              by simp only [startTest_flow]⟩
          left
          show Fr g c w s (startTest gv _ next w .pre dir).1
          refine h1.trans (Fr.trans ?_ (fr_startOther g c w gv _ next .pre dir hcls))
          apply fr_setWd
          · exact fun _ h => h
          · exact fun _ h => h
        · simp only [hroot, Bool.false_eq_true, if_false]
          by_cases hcls : (g.node next).cls = c
          · right
            exact ⟨enter_start hc hgv dir hw b hnext hcls (hrel hcls) hocc' hd, by simp only [startTest_flow]⟩
          · left
            show Fr g c w s (startTest gv s1 next w .plain dir).1
            exact h1.trans (fr_startOther g c w gv s1 next .plain dir hcls)
      · simp only [hrun, Bool.false_eq_true, if_false]
        exact Or.inl (h1.trans ((fr_finishTraverse g c w s1 next hrel).trans (afterTraverse_fr hc hgv hwf _ w next prev dir hrel)))

theorem iter_b {g gv : Graph} {c : Nat} {M : Option Int} {sh : Shape} (hc : BClass g c M sh) (hgv : SameNodes gv g)
    (hwf : GraphWF gv) (s : State) (w : Nat) (hw : w < g.workers.length) (b : BInv g c M sh s (Ex w)) :
    WalkOK g c M sh w s (iter gv s w) := by
  have hrootlt : g.root < g.nodes.length := by rw [← hgv.root, ← hgv.len]; exact hwf.root_lt
  unfold iter
  dsimp only
  split
  · split
    · exact Or.inl (fr_setWd g c w s _ (fun _ _ x hx => by simp at hx) (fun _ _ => by intro _ _ _ _ _ _ e; cases e))
    · exact Or.inl (Fr.refl g c w s)
  · cases hl : (s.wd w).path.getLast? with
    | none => exact Or.inl (Fr.refl g c w s)
    | some next =>
      obtain ⟨hnext, hrel⟩ := b.path w next (List.mem_of_getLast? hl)
      dsimp only
      split
      · cases hp : pickChild gv s next w with
        | none => exact Or.inl (Fr.refl g c w s)
        | some r => obtain ⟨x, s2⟩ := r; exact Or.inl (fr_pickChild hc hgv hwf s next w x s2 hp)
      · split
        · -- bounce
          left
          dsimp only
          refine Fr.trans ?_ (fr_pathRoot hc hrootlt w _ _ (fun _ => by rw [hgv.root]) (fun _ _ => by intro _ _ _ _ _ _ e; cases e))
          split
          · refine Fr.trans ?_ (fr_setWd g c w _ _ (fun _ h => h) (fun _ h => h))
            split
            · exact fr_setNd g c w s next _ (fun _ _ => rfl) (fun _ => Nat.le_succ _) (fun _ => Or.inl (fun _ => rfl))
                (fun _ => Or.inl (fun _ => rfl))
            · exact Fr.refl g c w s
          · exact fr_setWd g c w _ _ (fun _ h => h) (fun _ h => h)
        · split
          · split
            · exact traverseNode_b hc hgv hwf s w next _ .up hw b hnext hrel
            · cases hp : pickParent gv s next w with
              | none => exact Or.inl (Fr.refl g c w s)
              | some r => obtain ⟨x, s2⟩ := r; exact Or.inl (fr_pickParent hc hgv hwf s next w x s2 hp)
          · split
            · split
              · cases hp : pickParent gv s next w with
                | none => exact Or.inl (Fr.refl g c w s)
                | some r => obtain ⟨x, s2⟩ := r; exact Or.inl (fr_pickParent hc hgv hwf s next w x s2 hp)
              · exact traverseNode_b hc hgv hwf s w next _ .down hw b hnext hrel
            · exact Or.inl (Fr.refl g c w s)

theorem fr_reveal (g : Graph) (c w : Nat) (s : State) (f v : Nat) : Fr g c w s (reveal g s f v) := by
  unfold reveal
  dsimp only
  split <;> exact Fr.quiet rfl rfl

theorem fr_prepare (g : Graph) (c w : Nat) (s : State) : Fr g c w s (prepare g s w) := by
  unfold prepare
  dsimp only
  cases (s.wd w).path.getLast? with
  | none => exact Fr.refl g c w s
  | some next =>
    dsimp only
    have h0 : Fr g c w s (s.setWd w (fun d => { d with unexplored := !(unexploredNodes (vis g s) s).isEmpty })) :=
      fr_setWd g c w s _ (fun _ h => h) (fun _ h => h)
    split
    · exact h0.trans (fr_reveal g c w _ next w)
    · exact h0

theorem iterL_b {g : Graph} {c : Nat} {M : Option Int} {sh : Shape} (hc : BClass g c M sh) (hwf : GraphWF g)
    (s : State) (w : Nat) (hw : w < g.workers.length) (b : BInv g c M sh s (Ex w)) :
    WalkOK g c M sh w s (iterL g s w) := by
  unfold iterL
  split
  · exact iter_b hc (sameNodes_vis g s) (hwf.vis s) s w hw b
  · dsimp only
    have h0 := fr_prepare g c w s
    rcases iter_b hc (sameNodes_vis g (prepare g s w)) (hwf.vis _) (prepare g s w) w hw (b.fr hc hw h0) with h | h
    · exact Or.inl (h0.trans h)
    · exact Or.inr h

/-- a worker outside the tests of the class needs no exemption -/
theorem BInv.close {g : Graph} {c w : Nat} {M : Option Int} {sh : Shape} {s : State} (b : BInv g c M sh s (Ex w))
    (h : NotInC g c (s.wd w).pc) : BInv g c M sh s All where
  nodesLen := b.nodesLen
  workersLen := b.workersLen
  path := b.path
  finOwn := b.finOwn
  infl := fun u _ n ph dir uid tag wait hpc hn => by
    by_cases hu : u = w
    · subst hu; exact absurd hn (h n ph dir uid tag wait hpc)
    · exact b.infl u hu n ph dir uid tag wait hpc hn
  resOwn := b.resOwn
  p1 := fun j hj hjc hne => by
    rcases b.p1 j hj hjc hne with ⟨u, tag, _, hpc, hres⟩ | h'
    · exact Or.inl ⟨u, tag, trivial, hpc, hres⟩
    · exact Or.inr h'
  budget := fun v hv P hP hPm => b.budget v hv P hP (fun u hu => by
    refine ⟨?_, (hPm u hu).2⟩
    intro e; subst e
    obtain ⟨j, dir, uid, tag, wait, hpc, hjc, _⟩ := (hPm u hu).2
    exact h j .pre dir uid tag wait hpc hjc)

theorem BInv.open {g : Graph} {c : Nat} {M : Option Int} {sh : Shape} {s : State} (b : BInv g c M sh s All) (w : Nat)
    (h : NotInC g c (s.wd w).pc) : BInv g c M sh s (Ex w) where
  nodesLen := b.nodesLen
  workersLen := b.workersLen
  path := b.path
  finOwn := b.finOwn
  infl := fun u _ n ph dir uid tag wait hpc hn => b.infl u trivial n ph dir uid tag wait hpc hn
  resOwn := b.resOwn
  p1 := fun j hj hjc hne => by
    rcases b.p1 j hj hjc hne with ⟨u, tag, _, ⟨ph, dir, uid, wait, hpc, hph⟩, hres⟩ | h'
    · refine Or.inl ⟨u, tag, ?_, ⟨ph, dir, uid, wait, hpc, hph⟩, hres⟩
      intro hu; subst hu
      exact h j ph dir uid tag wait hpc hjc
    · exact Or.inr h'
  budget := fun v hv P hP hPm => b.budget v hv P hP (fun u hu => ⟨trivial, (hPm u hu).2⟩)

theorem notInC_of_nonTest {g : Graph} {c : Nat} {pc : Pc} (h : pc.isTest = false) : NotInC g c pc := by
  intro n ph dir uid tag wait e
  rw [e] at h; cases h

theorem runLoop_b {g : Graph} {c : Nat} {M : Option Int} {sh : Shape} (hc : BClass g c M sh) (hwf : GraphWF g)
    (w : Nat) (hw : w < g.workers.length) (fuel : Nat) (s : State) (evs : List Event) (b : BInv g c M sh s (Ex w))
    (h : NotInC g c (s.wd w).pc ∨ 0 < fuel) : BInv g c M sh (runLoop g w fuel s evs).1 All := by
  induction fuel generalizing s evs with
  | zero =>
    rcases h with h | h
    · exact b.close h
    · omega
  | succ fuel ih =>
    unfold runLoop
    dsimp only
    have h0 : Fr g c w s (s.setWd w (fun d => { d with pc := .loop })) :=
      fr_setWd g c w s _ (fun _ h => h) (fun _ _ => notInC_of_nonTest rfl)
    have b0 := b.fr hc hw h0
    have hpc0 : NotInC g c ((s.setWd w (fun d => { d with pc := .loop })).wd w).pc := by
      rcases wd_setWd_cases s w (fun d => { d with pc := .loop }) with ⟨h', hl⟩ | ⟨_, h'⟩
      · rw [h', wd_default_of_ge s w hl]; exact notInC_of_nonTest rfl
      · rw [h']; exact notInC_of_nonTest rfl
    have hw0 := iterL_b hc hwf _ w hw b0
    split
    · next s1 e heq =>
      rw [heq] at hw0
      rcases hw0 with h1 | ⟨_, h1⟩
      · exact ih s1 _ (b0.fr hc hw h1) (Or.inl (h1.pc hpc0))
      · cases h1
    · next s1 e heq =>
      rw [heq] at hw0
      rcases hw0 with h1 | ⟨h1, _⟩
      · exact (b0.fr hc hw h1).close (h1.pc hpc0)
      · exact h1
    · next s1 e heq =>
      rw [heq] at hw0
      rcases hw0 with h1 | ⟨_, h1⟩
      · exact (b0.fr hc hw h1).close (h1.pc hpc0)
      · cases h1
    · next s1 e what heq =>
      rw [heq] at hw0
      rcases hw0 with h1 | ⟨_, h1⟩
      · have h2 : Fr g c w s1 (s1.setWd w (fun d => { d with pc := .failed })) :=
          fr_setWd g c w s1 _ (fun _ h => h) (fun _ _ => notInC_of_nonTest rfl)
        exact ((b0.fr hc hw h1).fr hc hw h2).close (h2.pc (h1.pc hpc0))
      · cases h1

/-! ## the resumption part of a step -/

/-- the invariant reads node and worker records only -/
theorem BInv.quiet {g : Graph} {c : Nat} {M : Option Int} {sh : Shape} {s s' : State} {L : Nat → Prop}
    (b : BInv g c M sh s L) (hn : s'.nodes = s.nodes) (hw : s'.workers = s.workers) : BInv g c M sh s' L := by
  have hnd := nd_of_nodes_eq' hn
  have hwd := wd_of_workers_eq hw
  have hfin : ∀ u, FinIn g s c sh u → FinIn g s' c sh u := fun u hf => hf.of_finished_eq (fun j => by rw [hnd])
  refine ⟨by rw [hn]; exact b.nodesLen, by rw [hw]; exact b.workersLen, fun v => ?_, fun j u hj hjc h => ?_,
    fun u hu n ph dir uid tag wait hpc hnc => ?_, fun j hj hjc r hr => ?_, fun j hj hjc hne => ?_, fun v hv P hP hPm => ?_⟩
  · unfold PathC; rw [hwd]; exact b.path v
  · rw [hnd] at h; exact b.finOwn j u hj hjc h
  · rw [hwd] at hpc ⊢; rw [hnd]; exact b.infl u hu n ph dir uid tag wait hpc hnc
  · rw [hnd] at hr; exact b.resOwn j hj hjc r hr
  · rw [hnd] at hne ⊢
    rcases b.p1 j hj hjc hne with ⟨u, tag, hu, ⟨ph, dir, uid, wait, hpc, hph⟩, hres⟩ | ⟨u, hu, hid, hf⟩
    · exact Or.inl ⟨u, tag, hu, ⟨ph, dir, uid, wait, by rw [hwd]; exact hpc, hph⟩, hres⟩
    · exact Or.inr ⟨u, hu, hid, hfin u hf⟩
  · rw [scopedLen_congr g s s' c sh v (fun m _ => by rw [hnd])]
    have := b.budget v hv P hP (fun u hu => ⟨(hPm u hu).1, (hPm u hu).2.of_wd_eq (hwd u)⟩)
    have h2 := classLimit_mono g s s' c (fun i => by rw [hnd]; exact Nat.le_refl _)
    omega

/-- one more round of the result wait -/
theorem BInv.rewait {g : Graph} {c : Nat} {M : Option Int} {sh : Shape} {s : State} (b : BInv g c M sh s All)
    {w n : Nat} {ph : Phase} {dir : Dir} {uid : String} {tag wait : Nat} (hpc : (s.wd w).pc = .test n ph dir uid tag wait)
    (wait' : Nat) : BInv g c M sh (s.setWd w (fun d => { d with pc := .test n ph dir uid tag wait' })) All := by
  have hws : w < s.workers.length := lt_of_isTest s w (by rw [hpc]; rfl)
  have hww := wd_setWd_eq s w (fun d => { d with pc := .test n ph dir uid tag wait' }) hws
  have hwo : ∀ v, v ≠ w → (s.setWd w (fun d => { d with pc := .test n ph dir uid tag wait' })).wd v = s.wd v :=
    fun v hv => wd_setWd_ne s w v _ hv
  have hfin : ∀ u, FinIn g s c sh u → FinIn g (s.setWd w (fun d => { d with pc := .test n ph dir uid tag wait' })) c sh u :=
    fun u hf => hf.of_finished_eq (fun j => rfl)
  refine ⟨b.nodesLen, by rw [workers_length_setWd]; exact b.workersLen, fun v => ?_, fun j u hj hjc h => b.finOwn j u hj hjc h,
    fun u _ n' ph' dir' uid' tag' wt hpc' hnc => ?_, fun j hj hjc r hr => b.resOwn j hj hjc r hr, fun j hj hjc hne => ?_,
    fun v hv P hP hPm => ?_⟩
  · unfold PathC
    by_cases hv : v = w
    · subst hv; rw [hww]; exact b.path v
    · rw [hwo v hv]; exact b.path v
  · by_cases hu : u = w
    · subst hu
      rw [hww] at hpc' ⊢
      cases hpc'
      exact b.infl u trivial _ _ _ _ _ _ hpc hnc
    · rw [hwo u hu] at hpc' ⊢
      exact b.infl u trivial n' ph' dir' uid' tag' wt hpc' hnc
  · rcases b.p1 j hj hjc hne with ⟨u, tg, _, ⟨ph', dir', uid', wt, hpc', hph'⟩, hres⟩ | ⟨u, hu, hid, hf⟩
    · left
      by_cases hu : u = w
      · subst hu
        rw [hpc] at hpc'
        cases hpc'
        exact ⟨u, _, trivial, ⟨_, _, _, wait', by rw [hww], hph'⟩, hres⟩
      · exact ⟨u, tg, trivial, ⟨ph', dir', uid', wt, by rw [hwo u hu]; exact hpc', hph'⟩, hres⟩
    · exact Or.inr ⟨u, hu, hid, hfin u hf⟩
  · refine b.budget v hv P hP (fun u hu => ⟨trivial, ?_⟩)
    obtain ⟨j, dir', uid', tag', wt, hpc', hjc, hs⟩ := (hPm u hu).2
    by_cases huw : u = w
    · subst huw
      rw [hww] at hpc'
      cases hpc'
      exact ⟨_, _, _, _, wait, hpc, hjc, hs⟩
    · rw [hwo u huw] at hpc'
      exact ⟨j, dir', uid', tag', wt, hpc', hjc, hs⟩

/-- The end of an execution of a copy of the class (test proper, or a failed creation pre-step): the result list of
the copy has not grown (test proper: the placeholder is replaced) or has grown by what the creation in flight stood for
(failed pre-step), and the copy gets the `finished` mark of its worker.  From here on the worker's scope is past the
scan path. -/
theorem finish_b {g : Graph} {c : Nat} {M : Option Int} {sh : Shape} (hc : BClass g c M sh) {s sc : State} {w n : Nat}
    {ph : Phase} {dir : Dir} {uid : String} {tag wait : Nat} (hw : w < g.workers.length) (b : BInv g c M sh s All)
    (hpc : (s.wd w).pc = .test n ph dir uid tag wait) (hnc : (g.node n).cls = c)
    (hwl : sc.workers.length = s.workers.length) (hwo : ∀ v, v ≠ w → sc.wd v = s.wd v)
    (hpa : (sc.wd w).path = (s.wd w).path)
    (hnl : sc.nodes.length = s.nodes.length) (ho : ∀ j, j ≠ n → sc.nd j = s.nd j)
    (hfi : (sc.nd n).finished = (s.nd n).finished) (hbu : (sc.nd n).bump = (s.nd n).bump)
    (hlen : (sc.nd n).results.length ≤ (s.nd n).results.length + (if ph = .pre then 1 else 0))
    (hname : ∀ r ∈ (sc.nd n).results, NameOK g sh n r.name) :
    BInv g c M sh (finishTraverse sc n w) (Ex w) := by
  obtain ⟨hn, _, hid, _⟩ := b.infl w trivial n ph dir uid tag wait hpc hnc
  have hnsc : n < sc.nodes.length := by rw [hnl, b.nodesLen]; exact hn
  have hndn : (finishTraverse sc n w).nd n = { sc.nd n with finished := some w, started := none } :=
    nd_setNd_eq sc n _ hnsc
  have hndo : ∀ j, j ≠ n → (finishTraverse sc n w).nd j = s.nd j := by
    intro j hj
    unfold finishTraverse
    rw [nd_setNd_ne sc n j _ hj, ho j hj]
  have hwd : ∀ v, v ≠ w → (finishTraverse sc n w).wd v = s.wd v := fun v hv => hwo v hv
  have hfin : ∀ u, FinIn g s c sh u → FinIn g (finishTraverse sc n w) c sh u := by
    rintro u ⟨j, u', h1, h2, h3, h4⟩
    refine ⟨j, u', h1, h2, ?_, h4⟩
    by_cases hj : j = n
    · subst hj
      obtain ⟨hu', hidu'⟩ := b.finOwn j u' h1 h2 h3
      rw [hndn, hc.uniq j h1 h2 u' w hu' hw hidu' hid]
    · rw [hndo j hj]; exact h3
  -- another worker in flight is on another copy
  have hother : ∀ u, u ≠ w → ∀ n' ph' dir' uid' tag' wt, (s.wd u).pc = .test n' ph' dir' uid' tag' wt →
      (g.node n').cls = c → n' ≠ n := by
    intro u hu n' ph' dir' uid' tag' wt hpc' hnc' e
    subst e
    obtain ⟨h1, _, h3, _⟩ := b.infl u trivial n' ph' dir' uid' tag' wt hpc' hnc'
    have hul : u < g.workers.length := by rw [← b.workersLen]; exact lt_of_isTest s u (by rw [hpc']; rfl)
    exact hu (hc.uniq n' h1 hnc' u w hul hw h3 hid)
  refine ⟨?_, by rw [← b.workersLen, ← hwl]; rfl, fun v => ?_, fun j u hj hjc h => ?_,
    fun u hu n' ph' dir' uid' tag' wt hpc' hnc' => ?_, fun j hj hjc r hr => ?_, fun j hj hjc hne => ?_,
    fun v hv P hP hPm => ?_⟩
  · unfold finishTraverse; rw [nodes_length_setNd, hnl]; exact b.nodesLen
  · unfold PathC
    by_cases hv : v = w
    · subst hv
      show ∀ x ∈ (sc.wd v).path, _
      rw [hpa]; exact b.path v
    · rw [hwd v hv]; exact b.path v
  · by_cases hjn : j = n
    · subst hjn
      rw [hndn] at h
      cases h
      exact ⟨hw, hid⟩
    · rw [hndo j hjn] at h; exact b.finOwn j u hj hjc h
  · rw [hwd u hu] at hpc' ⊢
    obtain ⟨h1, h2, h3, h4⟩ := b.infl u trivial n' ph' dir' uid' tag' wt hpc' hnc'
    have hn' : n' ≠ n := hother u hu n' ph' dir' uid' tag' wt hpc' hnc'
    rw [hndo n' hn']
    exact ⟨h1, h2, h3, h4⟩
  · by_cases hjn : j = n
    · subst hjn
      rw [hndn] at hr
      exact hname r hr
    · rw [hndo j hjn] at hr; exact b.resOwn j hj hjc r hr
  · by_cases hjn : j = n
    · subst hjn
      exact Or.inr ⟨w, hw, hid, j, w, hj, hjc, by rw [hndn], inScopeOf_self sh g w⟩
    · rw [hndo j hjn] at hne ⊢
      rcases b.p1 j hj hjc hne with ⟨u, tg, _, ⟨ph', dir', uid', wt, hpc', hph'⟩, hres⟩ | ⟨u, hu, hidu, hf⟩
      · have huw : u ≠ w := by
          intro hu; subst hu
          rw [hpc] at hpc'
          cases hpc'
          exact hjn rfl
        exact Or.inl ⟨u, tg, huw, ⟨ph', dir', uid', wt, by rw [hwd u huw]; exact hpc', hph'⟩, hres⟩
      · exact Or.inr ⟨u, hu, hidu, hfin u hf⟩
  · have h2 : classLimit g s c ≤ classLimit g (finishTraverse sc n w) c := by
      apply classLimit_mono
      intro j
      by_cases hjn : j = n
      · subst hjn; rw [hndn]; show (s.nd j).bump ≤ (sc.nd j).bump; rw [hbu]; exact Nat.le_refl _
      · rw [hndo j hjn]; exact Nat.le_refl _
    have hPs : ∀ u ∈ P, All u ∧ InCre g s c sh v u :=
      fun u hu => ⟨trivial, (hPm u hu).2.of_wd_eq (hwd u (hPm u hu).1)⟩
    by_cases hcre : ph = .pre ∧ seen g sh v n = true
    · -- the creation in flight that failed was counted as a result-to-be
      obtain ⟨hph, hseen⟩ := hcre
      subst hph
      have h1 : scopedLen g (finishTraverse sc n w) c sh v ≤ scopedLen g s c sh v + 1 := by
        unfold scopedLen
        apply sum_map_le_add _ (nodup_classNodes g c) n
        · rw [hndn]
          simp only [hseen, if_true] at hlen ⊢
          exact hlen
        · intro j _ hjn
          rw [hndo j hjn]; exact Nat.le_refl _
      have hwP : w ∉ P := fun h => (hPm w h).1 rfl
      have := b.budget v hv (w :: P) (List.nodup_cons.mpr ⟨hwP, hP⟩) (fun u hu => by
        rcases List.mem_cons.mp hu with e | hu
        · rw [e]; exact ⟨trivial, n, dir, uid, tag, wait, hpc, hnc, hseen⟩
        · exact hPs u hu)
      simp only [List.length_cons] at this
      omega
    · have h1 : scopedLen g (finishTraverse sc n w) c sh v ≤ scopedLen g s c sh v := by
        unfold scopedLen
        apply sum_map_le
        intro j _
        by_cases hjn : j = n
        · subst hjn
          rw [hndn]
          by_cases hseen : seen g sh v j = true
          · simp only [hseen, if_true]
            have : ¬ ph = .pre := fun h => hcre ⟨h, hseen⟩
            simp only [this, if_false, Nat.add_zero] at hlen
            exact hlen
          · simp only [hseen, Bool.false_eq_true, if_false]; exact Nat.le_refl _
        · rw [hndo j hjn]; exact Nat.le_refl _
      have := b.budget v hv P hP hPs
      omega

/-- A successful creation pre-step: the test proper starts at once on the object root, without a decision; the creation
in flight turns into the placeholder it stood for. -/
theorem main_start_b {g : Graph} {c : Nat} {M : Option Int} {sh : Shape} (hc : BClass g c M sh) {s sc : State} {w n : Nat}
    {dir : Dir} {uid : String} {tag wait : Nat} (hw : w < g.workers.length) (b : BInv g c M sh s All)
    (hpc : (s.wd w).pc = .test n .pre dir uid tag wait) (hnc : (g.node n).cls = c)
    (hwl : sc.workers.length = s.workers.length) (hwo : ∀ v, v ≠ w → sc.wd v = s.wd v)
    (hpa : (sc.wd w).path = (s.wd w).path) (hnodes : sc.nodes = s.nodes) :
    BInv g c M sh (startTest g sc n w .main dir).1 All := by
  obtain ⟨hn, _, hid, hstn⟩ := b.infl w trivial n .pre dir uid tag wait hpc hnc
  have hscnd : ∀ j, sc.nd j = s.nd j := nd_of_nodes_eq' hnodes
  have hnsc : n < sc.nodes.length := by rw [hnodes, b.nodesLen]; exact hn
  have hwsc : w < sc.workers.length := by rw [hwl, b.workersLen]; exact hw
  have hfst := startTest_nonpre_fst g sc n w .main dir (by decide)
  have hndn : ((startTest g sc n w .main dir).1.nd n) =
      { s.nd n with results := (s.nd n).results ++ [phOf (g.node n).name sc.nextTag] } := by
    rw [hfst, nd_setWd, nd_setNd_eq ({ sc with nextTag := sc.nextTag + 1 }) n _ hnsc]
    have : ({ sc with nextTag := sc.nextTag + 1 } : State).nd n = s.nd n := hscnd n
    rw [this]
  have hndo : ∀ j, j ≠ n → (startTest g sc n w .main dir).1.nd j = s.nd j := by
    intro j hj
    rw [hfst, nd_setWd, nd_setNd_ne ({ sc with nextTag := sc.nextTag + 1 }) n j _ hj]
    exact hscnd j
  have hwdo : ∀ v, v ≠ w → (startTest g sc n w .main dir).1.wd v = s.wd v :=
    fun v hv => (startTest_wd_ne g sc n w .main dir v hv).trans (hwo v hv)
  have hwdw : ((startTest g sc n w .main dir).1.wd w) =
      { sc.wd w with pc := .test n .main dir (uidOf (g.node n).pfx (sharedResults g sc n).length) sc.nextTag 0 } := by
    rw [hfst]
    exact wd_setWd_eq _ w _ (by exact hwsc)
  have hproj : ∀ {α} (P : NodeD → α), (∀ d r, P { d with results := r } = P d) → ∀ j,
      P ((startTest g sc n w .main dir).1.nd j) = P (s.nd j) := by
    intro α P hP j
    by_cases hj : j = n
    · subst hj; rw [hndn]; exact hP _ _
    · rw [hndo j hj]
  have hfin : ∀ j, ((startTest g sc n w .main dir).1.nd j).finished = (s.nd j).finished :=
    hproj (·.finished) (fun _ _ => rfl)
  have hbump : ∀ j, ((startTest g sc n w .main dir).1.nd j).bump = (s.nd j).bump := hproj (·.bump) (fun _ _ => rfl)
  have hsta : ∀ j, ((startTest g sc n w .main dir).1.nd j).started = (s.nd j).started :=
    hproj (·.started) (fun _ _ => rfl)
  have hgrow : ∀ j, (s.nd j).results.length ≤ ((startTest g sc n w .main dir).1.nd j).results.length := by
    intro j
    by_cases hj : j = n
    · subst hj; rw [hndn]; simp
    · rw [hndo j hj]; exact Nat.le_refl _
  refine ⟨?_, ?_, fun v => ?_, fun j u hj hjc h => ?_, fun u _ n' ph dir' uid' tag' wt hpc' hn' => ?_,
    fun j hj hjc r hr => ?_, fun j hj hjc hne => ?_, fun v hv P hP hPm => ?_⟩
  · rw [hfst]; simp only [State.setWd, State.setNd, List.length_modify]; rw [hnodes]; exact b.nodesLen
  · rw [hfst]; simp only [State.setWd, State.setNd, List.length_modify]; rw [hwl]; exact b.workersLen
  · unfold PathC
    by_cases hvw : v = w
    · subst hvw; rw [hwdw]; show ∀ x ∈ (sc.wd v).path, _; rw [hpa]; exact b.path v
    · rw [hwdo v hvw]; exact b.path v
  · rw [hfin] at h; exact b.finOwn j u hj hjc h
  · by_cases huw : u = w
    · subst huw
      rw [hwdw] at hpc'
      cases hpc'
      exact ⟨hn, (fun h => by cases h), hid, by rw [hsta]; exact hstn⟩
    · rw [hwdo u huw] at hpc' ⊢
      obtain ⟨h1, h2, h3, h4⟩ := b.infl u trivial n' ph dir' uid' tag' wt hpc' hn'
      refine ⟨h1, fun hp => ?_, h3, by rw [hsta]; exact h4⟩
      obtain ⟨a1, a2, a3⟩ := h2 hp
      exact ⟨a1, Nat.le_trans a2 (Nat.add_le_add_right (hgrow n') 1), a3⟩
  · by_cases hjn : j = n
    · subst hjn
      rw [hndn] at hr
      rcases List.mem_append.mp hr with hr | hr
      · exact b.resOwn j hj hjc r hr
      · rw [List.mem_singleton.mp hr]; exact Or.inl rfl
    · rw [hndo j hjn] at hr; exact b.resOwn j hj hjc r hr
  · by_cases hjn : j = n
    · subst hjn
      by_cases hres : (s.nd j).results = []
      · left
        refine ⟨w, sc.nextTag, trivial, ⟨.main, dir, _, 0, by rw [hwdw], by decide⟩, ?_⟩
        rw [hndn, hres]; rfl
      · right
        rcases b.p1 j hj hjc hres with ⟨u, tg, _, ⟨ph, dir', uid', wt, hpc', hph⟩, _⟩ | ⟨u, hu, hidu, hf⟩
        · exfalso
          have hul : u < g.workers.length := by rw [← b.workersLen]; exact lt_of_isTest s u (by rw [hpc']; rfl)
          have := hc.uniq j hj hjc u w hul hw (b.infl u trivial j ph dir' uid' tg wt hpc' hjc).2.2.1 hid
          subst this
          rw [hpc] at hpc'
          cases hpc'
          exact hph rfl
        · exact ⟨u, hu, hidu, hf.of_finished_eq hfin⟩
    · rw [hndo j hjn] at hne ⊢
      rcases b.p1 j hj hjc hne with ⟨u, tg, _, ⟨ph, dir', uid', wt, hpc', hph⟩, hres⟩ | ⟨u, hu, hidu, hf⟩
      · have huw : u ≠ w := by
          intro e; subst e
          rw [hpc] at hpc'
          cases hpc'
          exact hph rfl
        exact Or.inl ⟨u, tg, trivial, ⟨ph, dir', uid', wt, by rw [hwdo u huw]; exact hpc', hph⟩, hres⟩
      · exact Or.inr ⟨u, hu, hidu, hf.of_finished_eq hfin⟩
  · -- the budget: one creation in flight less, one placeholder more
    have hlen : ((startTest g sc n w .main dir).1.nd n).results.length = (s.nd n).results.length + 1 := by
      rw [hndn]; simp
    rw [scopedLen_start hn hnc hlen (fun j hj => by rw [hndo j hj]) v]
    have hwP : w ∉ P := by
      intro h
      obtain ⟨_, j, dir', uid', tag', wt, hpc', _⟩ := hPm w h
      rw [hwdw] at hpc'; cases hpc'
    have hPs : ∀ u ∈ P, All u ∧ InCre g s c sh v u := by
      intro u hu
      have huw : u ≠ w := fun e => hwP (e ▸ hu)
      exact ⟨trivial, (hPm u hu).2.of_wd_eq (hwdo u huw)⟩
    have hlim1 : classLimit g s c ≤ classLimit g (startTest g sc n w .main dir).1 c :=
      classLimit_mono g _ _ c (fun i => by rw [hbump]; exact Nat.le_refl _)
    by_cases hseen : seen g sh v n = true
    · simp only [hseen, if_true]
      have := b.budget v hv (w :: P) (List.nodup_cons.mpr ⟨hwP, hP⟩) (fun u hu => by
        rcases List.mem_cons.mp hu with e | hu
        · rw [e]; exact ⟨trivial, n, dir, uid, tag, wait, hpc, hnc, hseen⟩
        · exact hPs u hu)
      simp only [List.length_cons] at this
      omega
    · simp only [hseen, Bool.false_eq_true, if_false]
      have := b.budget v hv P hP hPs
      omega

theorem reportOutcome_same (g : Graph) (s : State) (w n : Nat) (phase : Phase) (uid : String) (wait : Nat) (out : Outcome) :
    (reportOutcome g s w n phase uid wait out).1.nodes = s.nodes ∧ (reportOutcome g s w n phase uid wait out).1.workers = s.workers := by
  unfold reportOutcome
  dsimp only
  split
  · split
    · split <;> exact ⟨rfl, rfl⟩
    · exact ⟨rfl, rfl⟩
  · exact ⟨rfl, rfl⟩

/-- filing the result of a test proper: job records aside, the placeholder of the execution is replaced -/
theorem recordResult_nonpre (s : State) (w n : Nat) (phase : Phase) (hph : phase ≠ .pre) (name uid : String) (tag : Nat)
    (st0 : String) (dur : Nat) :
    ∃ (sJ : State) (st : String), sJ.nodes = s.nodes ∧ sJ.workers = s.workers ∧
      (recordResult s w n phase name uid tag st0 dur).1 = sJ.setNd n (fun d => { d with
        results := (d.results ++ [({ name := name, status := st, uid := uid, dur := dur } : Result)]).filter
          (fun r => !(r.status == "UNKNOWN" && r.tag == tag)) }) := by
  have hp : (phase == Phase.pre) = false := by cases phase <;> first | rfl | exact absurd rfl hph
  have hX : ∀ (b : Bool) (jr : List (String × String × String × Nat)),
      (if b = true then { s with jobResults := jr } else s).nodes = s.nodes ∧
      (if b = true then { s with jobResults := jr } else s).workers = s.workers := by
    intro b jr
    cases b <;> exact ⟨rfl, rfl⟩
  unfold recordResult
  simp only [hp, Bool.false_eq_true, if_false]
  exact ⟨_, _, (hX _ _).1, (hX _ _).2, rfl⟩

theorem fr_recordResult_other (g : Graph) (c : Nat) (s : State) (w n : Nat) (phase : Phase) (name uid : String) (tag : Nat)
    (st0 : String) (dur : Nat) (hne : (g.node n).cls ≠ c) : Fr g c w s (recordResult s w n phase name uid tag st0 dur).1 := by
  unfold recordResult
  dsimp only
  have hX : ∀ (b : Bool) (jr : List (String × String × String × Nat)),
      Fr g c w s (if b = true then { s with jobResults := jr } else s) := by
    intro b jr
    cases b
    · exact Fr.refl g c w s
    · exact Fr.quiet rfl rfl
  by_cases hp : (phase == Phase.pre) = true
  · simp only [hp, if_true]
    exact (hX _ _).trans (fr_setWd g c w _ _ (fun _ h => h) (fun _ h => h))
  · simp only [hp, Bool.false_eq_true, if_false]
    exact (hX _ _).trans (fr_setNd g c w _ n _ (fun h => absurd h hne) (fun _ => Nat.le_refl _) (fun h => absurd h hne)
      (fun h => absurd h hne))

/-- filing the result of a creation pre-step: job records aside, the placeholder on the worker's copy is replaced -/
theorem recordResult_pre (s : State) (w n : Nat) (name uid : String) (tag : Nat) (st0 : String) (dur : Nat) :
    ∃ (sJ : State) (st : String), sJ.nodes = s.nodes ∧ sJ.workers = s.workers ∧
      (recordResult s w n .pre name uid tag st0 dur).1 = sJ.setWd w (fun d => { d with
        preResults := (d.preResults ++ [({ name := name, status := st, uid := uid, dur := dur } : Result)]).filter
          (fun r => !(r.status == "UNKNOWN" && r.tag == tag)) }) := by
  have hp : (Phase.pre == Phase.pre) = true := rfl
  have hX : ∀ (b : Bool) (jr : List (String × String × String × Nat)),
      (if b = true then { s with jobResults := jr } else s).nodes = s.nodes ∧
      (if b = true then { s with jobResults := jr } else s).workers = s.workers := by
    intro b jr
    cases b <;> exact ⟨rfl, rfl⟩
  unfold recordResult
  simp only [hp, if_true]
  exact ⟨_, _, (hX _ _).1, (hX _ _).2, rfl⟩

/-- A failed creation pre-step (result found and bad, or never found): what the worker's copy of the results has gained
is filed at the object root — at most the one result the creation in flight stood for — and the root is finished. -/
theorem pre_fail_b {g : Graph} {c : Nat} {M : Option Int} {sh : Shape} (hc : BClass g c M sh) {s sc : State} {w n : Nat}
    {dir : Dir} {uid : String} {tag wait : Nat} (hw : w < g.workers.length) (b : BInv g c M sh s All)
    (hpc : (s.wd w).pc = .test n .pre dir uid tag wait) (hnc : (g.node n).cls = c)
    (hwl : sc.workers.length = s.workers.length) (hwo : ∀ v, v ≠ w → sc.wd v = s.wd v)
    (hpa : (sc.wd w).path = (s.wd w).path) (hnodes : sc.nodes = s.nodes)
    (hplen : (sc.wd w).preResults.length ≤ (s.nd n).results.length + 1)
    (hpname : ∀ r ∈ (sc.wd w).preResults, NameOK g sh n r.name) :
    BInv g c M sh (finishTraverse (appendPre sc n w) n w) (Ex w) := by
  obtain ⟨hn, _, _, _⟩ := b.infl w trivial n .pre dir uid tag wait hpc hnc
  have hscnd : ∀ j, sc.nd j = s.nd j := nd_of_nodes_eq' hnodes
  have hnsc : n < sc.nodes.length := by rw [hnodes, b.nodesLen]; exact hn
  have hndn : (appendPre sc n w).nd n =
      { s.nd n with results := (s.nd n).results ++ (sc.wd w).preResults.drop (s.nd n).results.length } := by
    unfold appendPre
    rw [nd_setNd_eq sc n _ hnsc, hscnd]
  refine finish_b hc hw b hpc hnc hwl hwo hpa ?_ (fun j hj => ?_) ?_ ?_ ?_ ?_
  · unfold appendPre; rw [nodes_length_setNd, hnodes]
  · unfold appendPre; rw [nd_setNd_ne sc n j _ hj]; exact hscnd j
  · rw [hndn]
  · rw [hndn]
  · rw [hndn]
    simp only [List.length_append, List.length_drop, if_true]
    omega
  · intro r hr
    rw [hndn] at hr
    rcases List.mem_append.mp hr with h | h
    · exact b.resOwn n hn hnc r h
    · exact hpname r (List.mem_of_mem_drop h)

/-- the continuation after the awaited test: given either a node of another class, or the copy of the class with
its `finished` mark already accounted for, or (creation pre-step) the two outcomes -/
theorem continueAfter_b {g : Graph} {c : Nat} {M : Option Int} {sh : Shape} (hc : BClass g c M sh) (hwf : GraphWF g)
    (w n : Nat) (phase : Phase) (dir : Dir) (fuel : Nat) (hw : w < g.workers.length) (hf : 0 < fuel)
    (sc : State) (ok : Bool) (evs : List Event)
    (h : ((g.node n).cls ≠ c ∧ BInv g c M sh sc (Ex w)) ∨
         ((g.node n).cls = c ∧ phase ≠ .pre ∧ g.idIn w n = true ∧ BInv g c M sh (finishTraverse sc n w) (Ex w)) ∨
         ((g.node n).cls = c ∧ phase = .pre ∧ g.idIn w n = true ∧
           (ok = true → BInv g c M sh (startTest g sc n w .main dir).1 All) ∧
           (ok = false → BInv g c M sh (finishTraverse (appendPre sc n w) n w) (Ex w)))) :
    BInv g c M sh (resumeTest.continueAfter g w n phase dir fuel sc ok evs).1 All := by
  -- the common tail: `afterTraverse`, then failure or the loop
  have tail : ∀ (s2 : State) (prev : Nat) (evs : List Event), BInv g c M sh s2 (Ex w) →
      ((g.node n).cls = c → g.idIn w n = true) →
      BInv g c M sh (match afterTraverse (vis g s2) s2 w n prev dir with
        | (s, e2, .raise what) =>
          (s.setWd w (fun d => { d with pc := .failed }), evs ++ e2 ++ [Event.raise (g.worker w).id what])
        | (s, e2, _) => runLoop g w fuel s (evs ++ e2)).1 All := by
    intro s2 prev evs b2 hrel
    have hfr := afterTraverse_fr hc (sameNodes_vis g s2) (hwf.vis s2) s2 w n prev dir hrel
    split
    · next s1 e2 what heq =>
      have h3 := congrArg Prod.fst heq
      dsimp only at h3
      rw [h3] at hfr
      have h2 : Fr g c w s1 (s1.setWd w (fun d => { d with pc := .failed })) :=
        fr_setWd g c w s1 _ (fun _ h => h) (fun _ _ => notInC_of_nonTest rfl)
      refine ((b2.fr hc hw hfr).fr hc hw h2).close ?_
      rcases wd_setWd_cases s1 w (fun d => { d with pc := .failed }) with ⟨h', hl⟩ | ⟨_, h'⟩
      · rw [h', wd_default_of_ge s1 w hl]; exact notInC_of_nonTest rfl
      · rw [h']; exact notInC_of_nonTest rfl
    · next s1 e2 f _ heq =>
      have h3 := congrArg Prod.fst heq
      dsimp only at h3
      rw [h3] at hfr
      exact runLoop_b hc hwf w hw fuel s1 _ (b2.fr hc hw hfr) (Or.inr hf)
  unfold resumeTest.continueAfter
  dsimp only
  rcases h with ⟨hne, b⟩ | ⟨hnc, hph, hid, b2⟩ | ⟨hnc, hph, hid, hok, hbad⟩
  · split
    · have hfr := fr_startOther g c w g sc n .main dir hne
      refine (b.fr hc hw hfr).close ?_
      by_cases hws : w < sc.workers.length
      · rw [startTest_pc g sc n w .main dir hws]; exact notInC_test hne _ _ _ _ _
      · have hge : ¬ w < (startTest g sc n w .main dir).1.workers.length := by rw [hfr.workersLen]; exact hws
        rw [wd_default_of_ge _ w hge]; exact notInC_of_nonTest rfl
    · refine tail _ _ _ ?_ (fun h => absurd h hne)
      refine b.fr hc hw (Fr.trans ?_ (fr_finishTraverse g c w _ n (fun h => absurd h hne)))
      split
      · exact fr_setNd g c w sc n _ (fun h => absurd h hne) (fun _ => Nat.le_refl _) (fun h => absurd h hne)
          (fun h => absurd h hne)
      · exact Fr.refl g c w sc
  · have hp : (phase == Phase.pre) = false := by cases phase <;> first | rfl | exact absurd rfl hph
    simp only [hp, Bool.false_and, Bool.false_eq_true, if_false]
    exact tail _ _ _ b2 (fun _ => hid)
  · subst hph
    have hp : (Phase.pre == Phase.pre) = true := rfl
    cases ok with
    | true =>
      simp only [hp, Bool.and_self, if_true]
      exact hok rfl
    | false =>
      simp only [hp, Bool.and_false, Bool.false_eq_true, if_false, if_true]
      exact tail _ _ _ (hbad rfl) (fun _ => hid)

theorem resumeTest_b {g : Graph} {c : Nat} {M : Option Int} {sh : Shape} (hc : BClass g c M sh) (hwf : GraphWF g)
    (s : State) (w n : Nat) (phase : Phase) (dir : Dir) (uid : String) (tag wait : Nat) (out : Outcome) (fuel : Nat)
    (hw : w < g.workers.length) (hf : 0 < fuel) (b : BInv g c M sh s All) (bas : Basic g s All)
    (hpc : (s.wd w).pc = .test n phase dir uid tag wait) :
    BInv g c M sh (resumeTest g s w n phase dir uid tag wait out fuel).1 All := by
  rw [resumeTest_eq]
  obtain ⟨hrn, hrw⟩ := reportOutcome_same g s w n phase uid wait out
  have br : BInv g c M sh (reportOutcome g s w n phase uid wait out).1 All := b.quiet hrn hrw
  have hpcr : ((reportOutcome g s w n phase uid wait out).1.wd w).pc = .test n phase dir uid tag wait := by
    rw [wd_of_workers_eq hrw]; exact hpc
  have hndr : ∀ j, (reportOutcome g s w n phase uid wait out).1.nd j = s.nd j := nd_of_nodes_eq' hrn
  have hwdr : ∀ v, (reportOutcome g s w n phase uid wait out).1.wd v = s.wd v := wd_of_workers_eq hrw
  have hws : w < s.workers.length := by rw [b.workersLen]; exact hw
  -- the exhausted wait and the found result, for a copy of the class, go through `finish_b`
  have hother : (g.node n).cls ≠ c → BInv g c M sh (reportOutcome g s w n phase uid wait out).1 (Ex w) := by
    intro hnc
    apply br.open w
    rw [hpcr]; exact notInC_test hnc _ _ _ _ _
  split
  · next st0 dur _ =>
    by_cases hnc : (g.node n).cls = c
    · obtain ⟨hn, hpre, hid, _⟩ := b.infl w trivial n phase dir uid tag wait hpc hnc
      have hok := bas.pcOK w n phase dir uid tag wait trivial hpc
      by_cases hph : phase = .pre
      · -- the creation pre-step: the result replaces the placeholder on the worker's copy
        subst hph
        obtain ⟨hroot, hplen, hpname⟩ := hpre rfl
        have hp : (Phase.pre == Phase.pre) = true := rfl
        simp only [hp, if_true]
        obtain ⟨sJ, st, hJn, hJw, hrec⟩ := recordResult_pre (reportOutcome g s w n .pre uid wait out).1 w n
          (s.wd w).preName uid tag st0 dur
        rw [hrec]
        have hJwd : ∀ v, sJ.wd v = s.wd v := fun v => (wd_of_workers_eq hJw v).trans (hwdr v)
        have hwJ : w < sJ.workers.length := by rw [hJw, hrw]; exact hws
        have hmem := (bas.placeholder w n .pre dir uid tag wait trivial hpc).2 rfl
        have hscw := wd_setWd_eq sJ w (fun d => { d with
          preResults := (d.preResults ++ [({ name := (s.wd w).preName, status := st, uid := uid, dur := dur } : Result)]).filter
            (fun r => !(r.status == "UNKNOWN" && r.tag == tag)) }) hwJ
        have hwl : (sJ.setWd w (fun d => { d with
            preResults := (d.preResults ++ [({ name := (s.wd w).preName, status := st, uid := uid, dur := dur } : Result)]).filter
              (fun r => !(r.status == "UNKNOWN" && r.tag == tag)) })).workers.length = s.workers.length := by
          rw [workers_length_setWd, hJw, hrw]
        have hwo : ∀ v, v ≠ w → (sJ.setWd w (fun d => { d with
            preResults := (d.preResults ++ [({ name := (s.wd w).preName, status := st, uid := uid, dur := dur } : Result)]).filter
              (fun r => !(r.status == "UNKNOWN" && r.tag == tag)) })).wd v = s.wd v :=
          fun v hv => (wd_setWd_ne sJ w v _ hv).trans (hJwd v)
        have hnodes : (sJ.setWd w (fun d => { d with
            preResults := (d.preResults ++ [({ name := (s.wd w).preName, status := st, uid := uid, dur := dur } : Result)]).filter
              (fun r => !(r.status == "UNKNOWN" && r.tag == tag)) })).nodes = s.nodes := by
          show sJ.nodes = _
          rw [hJn, hrn]
        generalize sJ.setWd w (fun d => { d with
            preResults := (d.preResults ++ [({ name := (s.wd w).preName, status := st, uid := uid, dur := dur } : Result)]).filter
              (fun r => !(r.status == "UNKNOWN" && r.tag == tag)) }) = sc at hscw hwl hwo hnodes ⊢
        have hpa : (sc.wd w).path = (s.wd w).path := by rw [hscw, hJwd]
        have hpr : (sc.wd w).preResults = ((s.wd w).preResults ++
            [({ name := (s.wd w).preName, status := st, uid := uid, dur := dur } : Result)]).filter (fun r => !isPh tag r) := by
          rw [hscw, hJwd]; rfl
        refine continueAfter_b hc hwf w n .pre dir fuel hw hf _ _ _ (Or.inr (Or.inr ⟨hnc, rfl, hid, fun _ => ?_, fun _ => ?_⟩))
        · exact main_start_b hc hw b hpc hnc hwl hwo hpa hnodes
        · refine pre_fail_b hc hw b hpc hnc hwl hwo hpa hnodes ?_ ?_
          · rw [hpr]
            have h1 := settle_len (s.wd w).preResults ({ name := (s.wd w).preName, status := st, uid := uid, dur := dur } : Result) tag
              (isPh_res_false _ tag rfl hok.2.1)
            have h2 : 0 < ((s.wd w).preResults.filter (isPh tag)).length :=
              List.length_pos_of_mem (List.mem_filter.mpr ⟨hmem, by rw [isPh_phOf]; simp⟩)
            omega
          · intro r hr
            rw [hpr] at hr
            rcases List.mem_append.mp (List.mem_filter.mp hr).1 with h' | h'
            · exact hpname r h'
            · rw [List.mem_singleton.mp h']
              right
              refine ⟨hroot, fun v hv hin => ?_⟩
              have hin' : strIn (scopeFilter g sh v) (preNameOf g n w) = true := by
                rw [← hok.2.2.2.2 rfl]; exact hin
              exact hc.preScope n hn hnc hroot w v hw hv hid hin'
      · -- a test proper: the result replaces the placeholder on the copy
        have hp : (phase == Phase.pre) = false := by cases phase <;> first | rfl | exact absurd rfl hph
        simp only [hp, Bool.false_eq_true, if_false]
        obtain ⟨sJ, st, hJn, hJw, hrec⟩ := recordResult_nonpre (reportOutcome g s w n phase uid wait out).1 w n phase hph
          (g.node n).name uid tag st0 dur
        refine continueAfter_b hc hwf w n phase dir fuel hw hf _ _ _ (Or.inr (Or.inl ⟨hnc, hph, hid, ?_⟩))
        rw [hrec]
        have hnJ : n < sJ.nodes.length := by rw [hJn, hrn, b.nodesLen]; exact hn
        have hJnd : ∀ j, sJ.nd j = s.nd j := fun j => (nd_of_nodes_eq' hJn j).trans (hndr j)
        have hJwd : ∀ v, sJ.wd v = s.wd v := fun v => (wd_of_workers_eq hJw v).trans (hwdr v)
        have hmem := (bas.placeholder w n phase dir uid tag wait trivial hpc).1 hph
        refine finish_b hc hw b hpc hnc (by show sJ.workers.length = _; rw [hJw, hrw]) (fun v _ => hJwd v) (hJwd w ▸ rfl)
          ?_ (fun j hj => ?_) ?_ ?_ ?_ ?_
        · rw [nodes_length_setNd, hJn, hrn]
        · rw [nd_setNd_ne sJ n j _ hj]; exact hJnd j
        · rw [nd_setNd_eq sJ n _ hnJ, hJnd]
        · rw [nd_setNd_eq sJ n _ hnJ, hJnd]
        · rw [nd_setNd_eq sJ n _ hnJ, hJnd]
          have h1 := settle_len (s.nd n).results ({ name := (g.node n).name, status := st, uid := uid, dur := dur } : Result) tag
            (isPh_res_false _ tag rfl hok.2.1)
          have h2 : 0 < ((s.nd n).results.filter (isPh tag)).length :=
            List.length_pos_of_mem (List.mem_filter.mpr ⟨hmem, by rw [isPh_phOf]; simp⟩)
          simp only [hph, if_false, Nat.add_zero]
          show (((s.nd n).results ++ [_]).filter (fun r => !isPh tag r)).length ≤ _
          omega
        · intro r hr
          rw [nd_setNd_eq sJ n _ hnJ, hJnd] at hr
          rcases List.mem_append.mp (List.mem_filter.mp hr).1 with h' | h'
          · exact b.resOwn n hn hnc r h'
          · rw [List.mem_singleton.mp h']; exact Or.inl rfl
    · refine continueAfter_b hc hwf w n phase dir fuel hw hf _ _ _ (Or.inl ⟨hnc, ?_⟩)
      exact (hother hnc).fr hc hw (fr_recordResult_other g c _ w n phase _ uid tag st0 dur hnc)
  · have hexh : BInv g c M sh (resumeTest.continueAfter g w n phase dir fuel (reportOutcome g s w n phase uid wait out).1 false
        (reportOutcome g s w n phase uid wait out).2).1 All := by
      by_cases hnc : (g.node n).cls = c
      · obtain ⟨hn, hpre, hid, _⟩ := b.infl w trivial n phase dir uid tag wait hpc hnc
        by_cases hph : phase = .pre
        · subst hph
          obtain ⟨hroot, hplen, hpname⟩ := hpre rfl
          refine continueAfter_b hc hwf w n .pre dir fuel hw hf _ _ _
            (Or.inr (Or.inr ⟨hnc, rfl, hid, (fun h => by cases h), fun _ => ?_⟩))
          exact pre_fail_b hc hw b hpc hnc (by rw [hrw]) (fun v _ => hwdr v) (by rw [hwdr]) hrn (by rw [hwdr]; exact hplen)
            (by rw [hwdr]; exact hpname)
        · refine continueAfter_b hc hwf w n phase dir fuel hw hf _ _ _ (Or.inr (Or.inl ⟨hnc, hph, hid, ?_⟩))
          refine finish_b hc hw b hpc hnc (by rw [hrw]) (fun v _ => hwdr v) (by rw [hwdr]) (by rw [hrn]) (fun j _ => hndr j)
            (by rw [hndr]) (by rw [hndr]) (by rw [hndr]; omega) (fun r hr => ?_)
          rw [hndr] at hr
          exact b.resOwn n hn hnc r hr
      · exact continueAfter_b hc hwf w n phase dir fuel hw hf _ _ _ (Or.inl ⟨hnc, hother hnc⟩)
    split
    · exact br.rewait hpcr (wait + 1)
    · split
      · exact br.rewait hpcr (wait + 1)
      · exact hexh

/-- one scheduler step of a real worker with fuel preserves the invariant -/
theorem resume_b {g : Graph} {c : Nat} {M : Option Int} {sh : Shape} (hc : BClass g c M sh) (hwf : GraphWF g)
    (s : State) (w : Nat) (out : Outcome) (fuel : Nat) (hw : w < g.workers.length) (hf : 0 < fuel)
    (b : BInv g c M sh s All) (bas : Basic g s All) : BInv g c M sh (resume g s w out fuel).1 All := by
  unfold resume
  split
  · next hpc => exact runLoop_b hc hwf w hw fuel s [] (b.open w (by rw [hpc]; exact notInC_of_nonTest rfl)) (Or.inr hf)
  · next hpc => exact runLoop_b hc hwf w hw fuel s [] (b.open w (by rw [hpc]; exact notInC_of_nonTest rfl)) (Or.inr hf)
  · next n phase dir uid tag wait hpc => exact resumeTest_b hc hwf s w n phase dir uid tag wait out fuel hw hf b bas hpc
  · exact b
  · exact b

theorem binv_init {g : Graph} {c : Nat} {M : Option Int} {sh : Shape} (hc : BClass g c M sh) (hwf : GraphWF g) (ncls : Nat)
    (store : List (String × List (String × String))) (hidden : List Nat) :
    BInv g c M sh (initState g ncls store hidden) All := by
  have hnd : ∀ m, (initState g ncls store hidden).nd m = {} := by
    intro m
    unfold initState State.nd
    simp only [List.getD_eq_getElem?_getD, List.getElem?_map]
    cases g.nodes[m]? <;> rfl
  have hwd : ∀ v, ((initState g ncls store hidden).wd v) = { path := [g.root] } ∨ ((initState g ncls store hidden).wd v) = {} := by
    intro v
    unfold initState State.wd
    simp only [List.getD_eq_getElem?_getD, List.getElem?_map]
    cases g.workers[v]?
    · right; rfl
    · left; rfl
  refine ⟨by simp [initState], by simp [initState], fun v x hx => ?_, fun j u _ _ h => ?_,
    fun u _ n ph dir uid tag wait hpc _ => ?_, fun j _ _ r hr => ?_, fun j _ _ hne => ?_, fun v _ P _ hPm => ?_⟩
  · rcases hwd v with h | h
    · rw [h] at hx
      have : x = g.root := by simpa using hx
      rw [this]
      exact ⟨hwf.root_lt, fun h => absurd h hc.rootNot⟩
    · rw [h] at hx; simp at hx
  · rw [hnd] at h; cases h
  · rcases hwd u with h | h <;> rw [h] at hpc <;> cases hpc
  · rw [hnd] at hr; simp at hr
  · rw [hnd] at hne; exact absurd rfl hne
  · have : scopedLen g (initState g ncls store hidden) c sh v = 0 := by
      unfold scopedLen
      have h0 : ∀ j ∈ g.classNodes c,
          (if seen g sh v j then ((initState g ncls store hidden).nd j).results.length else 0) = 0 := by
        intro j _; rw [hnd]; simp
      rw [sum_map_congr _ _ (fun _ => 0) h0]
      generalize g.classNodes c = l
      induction l with
      | nil => rfl
      | cons a r ih => simp only [List.map_cons, List.sum_cons, ih]
    have hP : P = [] := by
      cases P with
      | nil => rfl
      | cons u r =>
        exfalso
        obtain ⟨_, j, dir, uid, tag, wait, hpc, _⟩ := hPm u List.mem_cons_self
        rcases hwd u with h | h <;> rw [h] at hpc <;> cases hpc
    rw [this, hP]
    simp only [List.length_nil]
    omega

theorem ReachableR.binv {g : Graph} (hwf : graphWF g = true) {c : Nat} {M : Option Int} {sh : Shape} (hc : BClass g c M sh)
    {ncls : Nat} {store : List (String × List (String × String))} {s : State} (h : ReachableR g ncls store s) :
    BInv g c M sh s All := by
  induction h with
  | init hidden => exact binv_init hc (GraphWF.of_bool hwf) ncls store hidden
  | step w out fuel hr hw hf ih => exact resume_b hc (GraphWF.of_bool hwf) _ w out fuel hw hf ih (hr.basic hwf)

/-! ## the decidable form of the hypotheses, and the run-level bound -/

/-- decidable form of `BClass` for classes without object roots (any `max_tries`) -/
def statefulClass (g : Graph) (c : Nat) (M : Option Int) (sh : Shape) : Bool :=
  !((g.node g.root).cls == c) &&
  (g.classNodes c).all (fun j =>
    !(g.node j).flat && !(g.node j).objectRoot && !(g.node j).sets.isEmpty && decide ((g.node j).maxTries = M) &&
    decide ((g.node j).shape = sh) &&
    (List.range g.workers.length).all (fun u => !g.idIn u j ||
      (List.range g.workers.length).all (fun v => (!g.idIn v j || u == v) && (seen g sh v j == inScopeOf sh g v u))))

theorem statefulClass_spec {g : Graph} {c : Nat} {M : Option Int} {sh : Shape} (h : statefulClass g c M sh = true) :
    BClass g c M sh := by
  unfold statefulClass at h
  simp only [Bool.and_eq_true, Bool.not_eq_true', beq_eq_false_iff_ne, ne_eq, List.all_eq_true, decide_eq_true_eq,
    List.mem_range, Bool.or_eq_true, beq_iff_eq] at h
  obtain ⟨hroot, hall⟩ := h
  have hj : ∀ j, j < g.nodes.length → (g.node j).cls = c → _ := fun j h1 h2 => hall j ((mem_classNodes g c j).mpr ⟨h1, h2⟩)
  refine ⟨hroot, fun j h1 h2 => ?_, fun j h1 h2 u v hu hv hiu hiv => ?_, fun j h1 h2 u v hu hv hiu => ?_,
    fun j h1 h2 hr => ?_⟩
  · obtain ⟨⟨⟨⟨⟨a1, a2⟩, a3⟩, a4⟩, a5⟩, _⟩ := hj j h1 h2
    exact ⟨a1, Or.inl a2, a3, a4, a5⟩
  · obtain ⟨_, a6⟩ := hj j h1 h2
    rcases a6 u hu with h' | h'
    · rw [hiu] at h'; cases h'
    · rcases (h' v hv).1 with h'' | h''
      · rw [hiv] at h''; cases h''
      · exact h''
  · obtain ⟨_, a6⟩ := hj j h1 h2
    rcases a6 u hu with h' | h'
    · rw [hiu] at h'; cases h'
    · exact (h' v hv).2
  · obtain ⟨⟨⟨⟨⟨_, a2⟩, _⟩, _⟩, _⟩, _⟩ := hj j h1 h2
    rw [hr] at a2; cases a2

/-- decidable form of `BClass` for classes that may contain object roots: `max_tries` is unset or at most 1 (so that
the rerun rule never fires — with `max_tries ≥ 2` the bound is false for object roots, `root_creation_hidden`), and an
observer whose filter matches the name of the creation pre-step of a root also sees the root (a failed pre-step files
its result, named like the pre-step, at the root).  The last clause is evaluated only for object roots the observer does
not see anyway. -/
def statefulClassRoots (g : Graph) (c : Nat) (M : Option Int) (sh : Shape) : Bool :=
  decide (M.getD 1 ≤ 1) && !((g.node g.root).cls == c) &&
  (g.classNodes c).all (fun j =>
    !(g.node j).flat && !(g.node j).sets.isEmpty && decide ((g.node j).maxTries = M) &&
    decide ((g.node j).shape = sh) &&
    (List.range g.workers.length).all (fun u => !g.idIn u j ||
      (List.range g.workers.length).all (fun v => (!g.idIn v j || u == v) && (seen g sh v j == inScopeOf sh g v u) &&
        (!(g.node j).objectRoot || seen g sh v j || !strIn (scopeFilter g sh v) (preNameOf g j u)))))

theorem statefulClassRoots_spec {g : Graph} {c : Nat} {M : Option Int} {sh : Shape} (h : statefulClassRoots g c M sh = true) :
    BClass g c M sh ∧ M.getD 1 ≤ 1 := by
  unfold statefulClassRoots at h
  simp only [Bool.and_eq_true, Bool.not_eq_true', beq_eq_false_iff_ne, ne_eq, List.all_eq_true, decide_eq_true_eq,
    List.mem_range, Bool.or_eq_true, beq_iff_eq] at h
  obtain ⟨⟨hM, hroot⟩, hall⟩ := h
  have hj : ∀ j, j < g.nodes.length → (g.node j).cls = c → _ := fun j h1 h2 => hall j ((mem_classNodes g c j).mpr ⟨h1, h2⟩)
  refine ⟨⟨hroot, fun j h1 h2 => ?_, fun j h1 h2 u v hu hv hiu hiv => ?_, fun j h1 h2 u v hu hv hiu => ?_,
    fun j h1 h2 hr u v hu hv hiu hin => ?_⟩, hM⟩
  · obtain ⟨⟨⟨⟨a1, a3⟩, a4⟩, a5⟩, _⟩ := hj j h1 h2
    exact ⟨a1, Or.inr hM, a3, a4, a5⟩
  · obtain ⟨_, a6⟩ := hj j h1 h2
    rcases a6 u hu with h' | h'
    · rw [hiu] at h'; cases h'
    · rcases (h' v hv).1.1 with h'' | h''
      · rw [hiv] at h''; cases h''
      · exact h''
  · obtain ⟨_, a6⟩ := hj j h1 h2
    rcases a6 u hu with h' | h'
    · rw [hiu] at h'; cases h'
    · exact (h' v hv).1.2
  · obtain ⟨_, a6⟩ := hj j h1 h2
    rcases a6 u hu with h' | h'
    · rw [hiu] at h'; cases h'
    · rcases (h' v hv).2 with (h'' | h'') | h''
      · rw [hr] at h''; cases h''
      · exact h''
      · rw [hin] at h''; cases h''

/-- `max_concurrent_tries` is unset or at most `max(max_tries, 1)` on every copy of the class -/
def mctWithin (g : Graph) (c : Nat) (M : Option Int) : Bool :=
  (g.classNodes c).all (fun j => match (g.node j).mct with | none => true | some k => decide (k ≤ max (M.getD 1) 1))

theorem classLimit_le_of_mctWithin {g : Graph} {c : Nat} {M : Option Int} {sh : Shape} (hc : BClass g c M sh)
    (hm : mctWithin g c M = true) (s : State) (hb : NoBump s) : (classLimit g s c : Int) ≤ max (M.getD 1) 1 := by
  have h := classLimit_noBump_le g s c (max (M.getD 1) 1).toNat hb (fun m hm1 hm2 => by
    unfold mctWithin at hm
    rw [List.all_eq_true] at hm
    have hm' := hm m ((mem_classNodes g c m).mpr ⟨hm1, hm2⟩)
    unfold limit0
    rw [(hc.node m hm1 hm2).2.2.2.1]
    cases hk : (g.node m).mct with
    | none => simp only [Option.getD_none]; exact Nat.le_refl _
    | some k =>
      rw [hk] at hm'
      simp only [decide_eq_true_eq] at hm'
      simp only [Option.getD_some]
      omega)
  omega

/-- the workers inside the creation pre-step of a copy of class `c` that observer `v` sees: results-to-be -/
def creationsInFlight (g : Graph) (s : State) (c : Nat) (sh : Shape) (v : Nat) : List Nat :=
  (List.range g.workers.length).filter (fun u =>
    match (s.wd u).pc with
    | .test j .pre _ _ _ _ => (g.node j).cls == c && seen g sh v j
    | _ => false)

theorem inCre_of_mem_creationsInFlight {g : Graph} {s : State} {c : Nat} {sh : Shape} {v u : Nat}
    (h : u ∈ creationsInFlight g s c sh v) : InCre g s c sh v u := by
  unfold creationsInFlight at h
  have h2 := (List.mem_filter.mp h).2
  split at h2
  · next j dir uid tag wait hpc =>
    rw [Bool.and_eq_true, beq_iff_eq] at h2
    exact ⟨j, dir, uid, tag, wait, hpc, h2.1, h2.2⟩
  · cases h2

/-- **The budget of a stateful class along every run**, creations in flight counted as results-to-be. -/
theorem ReachableR.budgetB {g : Graph} (hwf : graphWF g = true) {c : Nat} {M : Option Int} {sh : Shape}
    (hC : BClass g c M sh) {ncls : Nat} {store : List (String × List (String × String))} {s : State}
    (h : ReachableR g ncls store s) (n : Nat) (hn : n < g.nodes.length) (hnc : (g.node n).cls = c) (v : Nat)
    (hv : v < g.workers.length) :
    (((sharedFilteredResults g s n (some v)).length + (creationsInFlight g s c sh v).length : Nat) : Int) ≤
      max (max (M.getD 1) 1) (classLimit g s c) := by
  have b := h.binv hwf hC
  have hnode := hC.node n hn hnc
  have h1 := sfr_length_le g s c sh n v hn hnode.1 hnc hnode.2.2.2.2 hv b.resOwn
  have h2 := b.budget v hv (creationsInFlight g s c sh v) (List.Nodup.sublist List.filter_sublist List.nodup_range)
    (fun u hu => ⟨trivial, inCre_of_mem_creationsInFlight hu⟩)
  omega

/-- … for classes without object roots (no creations) -/
theorem ReachableR.budgetStateful {g : Graph} (hwf : graphWF g = true) {c : Nat} {M : Option Int} {sh : Shape}
    (hc : statefulClass g c M sh = true) {ncls : Nat} {store : List (String × List (String × String))} {s : State}
    (h : ReachableR g ncls store s) (n : Nat) (hn : n < g.nodes.length) (hnc : (g.node n).cls = c) (v : Nat)
    (hv : v < g.workers.length) :
    ((sharedFilteredResults g s n (some v)).length : Int) ≤ max (max (M.getD 1) 1) (classLimit g s c) := by
  have := h.budgetB hwf (statefulClass_spec hc) n hn hnc v hv
  omega

/-- … for classes with object roots and `max_tries ≤ 1` -/
theorem ReachableR.budgetStatefulRoots {g : Graph} (hwf : graphWF g = true) {c : Nat} {M : Option Int} {sh : Shape}
    (hc : statefulClassRoots g c M sh = true) {ncls : Nat} {store : List (String × List (String × String))} {s : State}
    (h : ReachableR g ncls store s) (n : Nat) (hn : n < g.nodes.length) (hnc : (g.node n).cls = c) (v : Nat)
    (hv : v < g.workers.length) :
    (((sharedFilteredResults g s n (some v)).length + (creationsInFlight g s c sh v).length : Nat) : Int) ≤
      max 1 (classLimit g s c) := by
  obtain ⟨hC, hM⟩ := statefulClassRoots_spec hc
  have := h.budgetB hwf hC n hn hnc v hv
  omega

end I2N.Trav
