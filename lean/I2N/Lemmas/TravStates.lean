import I2N.Lemmas.TravReady
import I2N.Lemmas.TravLoc
/-!
The semantic core of C01 in a restricted setting: under explicit hypotheses on the graph (`SemHyp`) and on the initial
store (`InitShared`), a test is started only when every state it gets from a parsed producer is in the shared pool, in
the pool of a worker it is told (`get_location`), or the producing class has a result that did not pass.

Structure: `Frame` (a piece of a step that touches neither the store, nor a result list, nor a `finished` mark),
`Sem` = `Prov` (every state in a pool was there initially or was produced by the pool's worker on a copy that has a
result) ∧ `FinSrc` (the states set by a traversed parsed copy are sourced: shared pool, pool of a listed worker, or a
non-passing result of the class), preservation of `Sem` along all functions of the loop, and the provenance of `start`
events (`StartSem`).
-/
namespace I2N.Trav

/-! ## the store -/

theorem find?_map_key {β} (st : List (String × β)) (upd : String × β → String × β) (hk : ∀ e, (upd e).1 = e.1) (loc : String) :
    (st.map upd).find? (·.1 == loc) = (st.find? (·.1 == loc)).map upd := by
  induction st with
  | nil => rfl
  | cons a r ih =>
    simp only [List.map_cons, List.find?_cons, hk]
    cases h : (a.1 == loc)
    · simp only [ih]
    · rfl

theorem storeGet_storeSet (st : List (String × List (String × String))) (loc : String) (l : List (String × String))
    (loc' : String) : storeGet (storeSet st loc l) loc' = if loc' = loc then l else storeGet st loc' := by
  unfold storeGet storeSet
  by_cases hany : st.any (·.1 == loc) = true
  · simp only [hany, if_true]
    rw [find?_map_key st (fun e => if e.1 == loc then (loc, l) else e) (by intro e; by_cases h : e.1 = loc <;> simp [h])]
    by_cases hl : loc' = loc
    · subst hl
      simp only [if_true]
      rw [List.any_eq_true] at hany
      obtain ⟨e, he, hk⟩ := hany
      cases hf : st.find? (·.1 == loc') with
      | none =>
        rw [List.find?_eq_none] at hf
        exact absurd hk (hf e he)
      | some e' =>
        have := List.find?_some hf
        simp only [Option.map_some, this, if_true]
    · simp only [hl, if_false]
      cases hf : st.find? (·.1 == loc') with
      | none => rfl
      | some e' =>
        have h1 := List.find?_some hf
        simp only [beq_iff_eq] at h1
        have : ¬ e'.1 = loc := by rw [h1]; exact hl
        simp [this]
  · simp only [hany, Bool.false_eq_true, if_false, List.find?_append]
    have hnone : st.find? (·.1 == loc) = none := by
      rw [List.find?_eq_none]
      intro e he hk
      exact hany (List.any_eq_true.mpr ⟨e, he, hk⟩)
    by_cases hl : loc' = loc
    · subst hl
      simp [hnone]
    · simp only [hl, if_false]
      have : (loc == loc') = false := by simpa using (Ne.symm hl)
      cases hf : st.find? (·.1 == loc') <;> simp [List.find?, this]

/-- what `produce` adds: the set states of the node, to the own pool of the worker the copy was parsed for (`netOf`) -/
theorem mem_storeGet_produce (g : Graph) (s : State) (n w : Nat) (loc : String) (vs : String × String) :
    vs ∈ storeGet (produce g s n w).store loc ↔
      vs ∈ storeGet s.store loc ∨ (loc = (g.worker (g.netOf n w)).id ∧ vs ∈ (g.node n).sets) := by
  unfold produce
  dsimp only
  rw [storeGet_storeSet]
  by_cases hl : loc = (g.worker (g.netOf n w)).id
  · subst hl
    simp only [if_true, List.mem_append, List.mem_filter, true_and]
    constructor
    · rintro (h | ⟨h, _⟩)
      · exact Or.inl h
      · exact Or.inr h
    · rintro (h | h)
      · exact Or.inl h
      · by_cases hin : vs ∈ storeGet s.store (g.worker (g.netOf n w)).id
        · exact Or.inl hin
        · exact Or.inr ⟨h, by simpa using hin⟩
  · simp [hl]

/-- the initial store has entries under the location `shared` only (excludes finding F5) -/
def InitShared (store : List (String × List (String × String))) : Prop := ∀ e ∈ store, e.1 = "shared"

instance (store : List (String × List (String × String))) : Decidable (InitShared store) := by
  unfold InitShared; infer_instance

theorem InitShared.get {store : List (String × List (String × String))} (h : InitShared store) (loc : String)
    (vs : String × String) (hv : vs ∈ storeGet store loc) : loc = "shared" := by
  unfold storeGet at hv
  cases hf : store.find? (·.1 == loc) with
  | none => rw [hf] at hv; simp at hv
  | some e =>
    have h1 := List.find?_some hf
    simp only [beq_iff_eq] at h1
    rw [← h1]; exact h e (List.mem_of_find?_eq_some hf)

/-! ## no removal: `sync_states` does nothing -/

/-- the node asks for no removal and no copy while backing out -/
def NodeNR (nd : Node) : Prop :=
  (nd.poolFilter = "reuse" ∨ nd.poolFilter = "block") ∧ ∀ e ∈ nd.unsetMode, e.2.toList.head? ≠ some 'f'

instance (nd : Node) : Decidable (NodeNR nd) := by unfold NodeNR; infer_instance

theorem NodeNR.mode {nd : Node} (h : NodeNR nd) (vm : String) : (unsetModeOf nd vm).toList.head? ≠ some 'f' := by
  unfold unsetModeOf
  cases hf : nd.unsetMode.find? (·.1 == vm) with
  | none => simp only; decide
  | some e => exact h.2 e (List.mem_of_find?_eq_some hf)

theorem syncStep_noop (nd : Node) (h : NodeNR nd) (rv : Option (List String)) (acc : SyncAcc) (vs : String × String)
    (ha : acc.1 = false) : (syncStep nd rv acc vs).1 = false := by
  unfold syncStep
  dsimp only
  have hm := h.mode vs.1
  split
  · exact ha
  · split
    · exact ha
    · split
      · exact ha
      · split
        · rename_i hc
          exact absurd (by simpa using hc) hm
        · split
          · rfl
          · rename_i hc
            exfalso; apply hc
            rcases h.1 with h1 | h1 <;> simp [h1]

theorem syncStates_noop (g : Graph) (s : State) (n w : Nat) (rv : Option (List String)) (h : NodeNR (g.node n)) :
    syncStates g s n w rv = (s, []) := by
  have hacc : (syncAcc (g.node n) rv).1 = false := by
    unfold syncAcc
    have : ∀ (l : List (String × String)) acc, acc.1 = false → (l.foldl (syncStep (g.node n) rv) acc).1 = false := by
      intro l
      induction l with
      | nil => intro acc h; exact h
      | cons a r ih => intro acc ha; exact ih _ (syncStep_noop _ h rv acc a ha)
    exact this _ _ rfl
  unfold syncStates
  simp [hacc]

/-! ## pieces of a step that touch neither the store, nor a result list, nor a `finished` mark -/

structure Frame (s s' : State) : Prop where
  store : s'.store = s.store
  results : ∀ m, (s'.nd m).results = (s.nd m).results
  fin : ∀ m, (s'.nd m).finished = (s.nd m).finished

theorem Frame.refl (s : State) : Frame s s := ⟨rfl, fun _ => rfl, fun _ => rfl⟩

theorem Frame.trans {s s1 s2 : State} (a : Frame s s1) (b : Frame s1 s2) : Frame s s2 :=
  ⟨b.store.trans a.store, fun m => (b.results m).trans (a.results m), fun m => (b.fin m).trans (a.fin m)⟩

theorem frame_setNd (s : State) (m : Nat) (f : NodeD → NodeD) (hr : ∀ d, (f d).results = d.results)
    (hf : ∀ d, (f d).finished = d.finished) : Frame s (s.setNd m f) :=
  ⟨rfl, fun i => nd_setNd_proj (·.results) s m f hr i, fun i => nd_setNd_proj (·.finished) s m f hf i⟩

theorem frame_setWd (s : State) (w : Nat) (f : WorkerD → WorkerD) : Frame s (s.setWd w f) := ⟨rfl, fun _ => rfl, fun _ => rfl⟩
theorem frame_setCr (s : State) (c : Nat) (f : ClassRegs → ClassRegs) : Frame s (s.setCr c f) := ⟨rfl, fun _ => rfl, fun _ => rfl⟩

theorem frame_foldl {β} (f : State → β → State) (h : ∀ s b, Frame s (f s b)) (l : List β) (s : State) : Frame s (l.foldl f s) := by
  induction l generalizing s with
  | nil => exact Frame.refl s
  | cons a r ih => simp only [List.foldl_cons]; exact (h s a).trans (ih _)

theorem frame_pullLocations (g : Graph) (s : State) (n : Nat) : Frame s (pullLocations g s n) := by
  unfold pullLocations
  split
  · exact Frame.refl s
  · apply frame_foldl
    rintro s ⟨p, vms⟩
    apply frame_foldl
    intro s loc
    apply frame_foldl
    intro s vm
    exact frame_setNd s n _ (fun _ => rfl) (fun _ => rfl)

theorem frame_runDecision (g : Graph) (s : State) (n v : Nat) (b : Bool) (s1 : State) (e1 : List Event)
    (h : runDecision g s n v = .ok (b, s1, e1)) : Frame s s1 := by
  rcases runDecision_state g s n v b s1 e1 h with h | h
  · rw [h]; exact Frame.refl s
  · rw [h]; exact frame_setNd s n _ (fun _ => rfl) (fun _ => rfl)

theorem frame_reverseNode (g : Graph) (s : State) (n v : Nat) (s' : State) (evs : List Event) (hnr : NodeNR (g.node n))
    (h : reverseNode g s n v = .ok (s', evs)) : Frame s s' := by
  unfold reverseNode at h
  by_cases hocc : isOccupied g s n v = true
  · simp only [hocc, if_true, Except.ok.injEq, Prod.mk.injEq] at h
    rw [← h.1]; exact Frame.refl s
  · simp only [hocc, Bool.false_eq_true, if_false, ite_self] at h
    have h0 : Frame s (s.setNd n (fun d => { d with started := some v })) := frame_setNd s n _ (fun _ => rfl) (fun _ => rfl)
    cases hd : cleanDecision g (s.setNd n (fun d => { d with started := some v })) n v with
    | error e => simp [hd] at h
    | ok clean =>
      simp only [hd, syncStates_noop g _ n v none hnr, ite_self, Except.ok.injEq, Prod.mk.injEq] at h
      rw [← h.1]
      exact h0.trans (frame_setNd _ n _ (fun _ => rfl) (fun _ => rfl))

theorem reverseNode_events_nil (g : Graph) (s : State) (n v : Nat) (s' : State) (evs : List Event) (hnr : NodeNR (g.node n))
    (h : reverseNode g s n v = .ok (s', evs)) : evs = [] := by
  unfold reverseNode at h
  by_cases hocc : isOccupied g s n v = true
  · simp only [hocc, if_true, Except.ok.injEq, Prod.mk.injEq] at h
    exact h.2.symm
  · simp only [hocc, Bool.false_eq_true, if_false, ite_self] at h
    cases hd : cleanDecision g (s.setNd n (fun d => { d with started := some v })) n v with
    | error e => simp [hd] at h
    | ok clean =>
      simp only [hd, syncStates_noop g _ n v none hnr, ite_self, Except.ok.injEq, Prod.mk.injEq] at h
      exact h.2.symm

theorem frame_pickChild (g : Graph) (s : State) (n w c : Nat) (s' : State) (h : pickChild g s n w = some (c, s')) :
    Frame s (pushPath s' w c) := by
  obtain ⟨_, _, hs⟩ := pickChild_rel g s n w c s' h
  rw [hs]; exact (frame_setCr s _ _).trans (frame_setWd _ w _)

theorem frame_pickParent (g : Graph) (s : State) (n w c : Nat) (s' : State) (h : pickParent g s n w = some (c, s')) :
    Frame s (pushPath s' w c) := by
  obtain ⟨_, _, hs⟩ := pickParent_rel g s n w c s' h
  rw [hs]; exact (frame_setCr s _ _).trans (frame_setWd _ w _)

/-- the rest of the loop body after `traverse_node` changes neither store, results nor `finished` marks -/
theorem frame_afterTraverse (g : Graph) (s : State) (w next prev : Nat) (dir : Dir) (hnr : NodeNR (g.node next)) :
    Frame s (afterTraverse g s w next prev dir).1 := by
  unfold afterTraverse
  cases hd : runDecision g s next w with
  | error e => exact Frame.refl s
  | ok r =>
    obtain ⟨run, s1, evs⟩ := r
    have h1 : Frame s s1 := frame_runDecision g s next w run s1 evs hd
    cases dir with
    | up =>
      dsimp only
      refine h1.trans (Frame.trans ?_ (frame_setWd _ w _))
      split
      · exact frame_setCr s1 _ _
      · exact Frame.refl s1
    | down =>
      dsimp only
      by_cases hrun : run = true
      · simp only [hrun, if_true]
        exact h1.trans (frame_setWd _ w _)
      · simp only [hrun, Bool.false_eq_true, if_false]
        by_cases hc : isCleanupReady g s1 next w = true
        · simp only [hc, if_true]
          by_cases hpp : (!(g.node next).flat && (s1.wd w).unexplored) = true
          · simp only [hpp, if_true]
            exact h1.trans (frame_setWd _ w _)
          simp only [hpp, Bool.false_eq_true, if_false]
          have h2 : Frame s1 (List.foldl (fun s x => dropChild g s x.1 next w) s1 (g.node next).setup) :=
            frame_foldl _ (fun s x => frame_setCr s _ _) _ _
          cases hr : reverseNode g (List.foldl (fun s x => dropChild g s x.1 next w) s1 (g.node next).setup) next w with
          | error e => exact h1.trans h2
          | ok r =>
            obtain ⟨s2, evs2⟩ := r
            exact h1.trans (h2.trans ((frame_reverseNode g _ next w s2 evs2 hnr hr).trans (frame_setWd _ w _)))
        · simp only [hc, Bool.false_eq_true, if_false]
          cases hp : pickChild g s1 next w with
          | none => exact h1
          | some r =>
            obtain ⟨c, s2⟩ := r
            exact h1.trans (frame_pickChild g s1 next w c s2 hp)

theorem frame_reveal (g : Graph) (s : State) (f v : Nat) : Frame s (reveal g s f v) := by
  unfold reveal
  dsimp only
  split <;> exact ⟨rfl, fun _ => rfl, fun _ => rfl⟩

theorem frame_prepare (g : Graph) (s : State) (w : Nat) : Frame s (prepare g s w) := by
  unfold prepare
  dsimp only
  cases (s.wd w).path.getLast? with
  | none => exact Frame.refl s
  | some next =>
    dsimp only
    split
    · exact (frame_setWd s w _).trans (frame_reveal g _ next w)
    · exact frame_setWd s w _

/-- … and emits neither a start nor an `unset` request (under `NodeNR` the reversal sends nothing at all) -/
theorem afterTraverse_plain (g : Graph) (s : State) (w next prev : Nat) (dir : Dir) (hnr : NodeNR (g.node next)) :
    ∀ e ∈ (afterTraverse g s w next prev dir).2.1, Plain e := by
  unfold afterTraverse
  cases hd : runDecision g s next w with
  | error e => intro e he; simp at he
  | ok r =>
    obtain ⟨run, s1, evs⟩ := r
    have hev := (runDecision_events g s next w run s1 evs hd).1
    cases dir with
    | up => exact hev
    | down =>
      dsimp only
      by_cases hrun : run = true
      · simp only [hrun, if_true]; exact hev
      · simp only [hrun, Bool.false_eq_true, if_false]
        by_cases hc : isCleanupReady g s1 next w = true
        · simp only [hc, if_true]
          by_cases hpp : (!(g.node next).flat && (s1.wd w).unexplored) = true
          · simp only [hpp, if_true]; exact hev
          simp only [hpp, Bool.false_eq_true, if_false]
          cases hr : reverseNode g (List.foldl (fun s x => dropChild g s x.1 next w) s1 (g.node next).setup) next w with
          | error e => exact hev
          | ok r =>
            obtain ⟨s2, evs2⟩ := r
            rw [reverseNode_events_nil g _ next w s2 evs2 hnr hr]
            simpa using hev
        · simp only [hc, Bool.false_eq_true, if_false]
          cases hp : pickChild g s1 next w with
          | none => exact hev
          | some r => exact hev

/-! ## hypotheses on the graph (all decidable) -/

/-- every parsed node shares its results and setup globally and may use its own and the shared pool
(excludes finding F10 and the scope-narrowing configurations) -/
def FullScope (g : Graph) : Prop :=
  ∀ n, n < g.nodes.length → (g.node n).flat = false →
    (g.node n).shape = .global ∧ (g.node n).scope.contains "own" = true ∧ (g.node n).scope.contains "shared" = true ∧
      (g.node n).scope.contains "swarm" = true ∧ (g.node n).scope.contains "cluster" = true

/-- parsed nodes are ordinary tests: not the shared root, no dry run, no clone source, no object root
(modelling gaps: the creation of objects and cloning are not covered by the statement) -/
def PlainNodes (g : Graph) : Prop :=
  ∀ n, n < g.nodes.length → (g.node n).flat = false →
    (g.node n).sharedRoot = false ∧ (g.node n).dryRun = false ∧ (g.node n).cloneSource = false ∧ (g.node n).objectRoot = false

/-- no node removes or copies states while backing out (C05's concern, excluded here) -/
def NoRemoval (g : Graph) : Prop := ∀ n, n < g.nodes.length → NodeNR (g.node n)

/-- a parsed parent sets what its child gets through the edge (C07's job on real graphs) -/
def ProducerSetsAt (g : Graph) (n : Nat) : Prop :=
  ∀ e ∈ (g.node n).setup, ∀ vs ∈ (g.node n).gets, (g.node e.1).flat = false → vs.1 ∈ e.2 → vs ∈ (g.node e.1).sets

instance (g : Graph) (n : Nat) : Decidable (ProducerSetsAt g n) := by unfold ProducerSetsAt; infer_instance

def ProducerSets (g : Graph) : Prop := ∀ n, n < g.nodes.length → ProducerSetsAt g n

/-- a state is set by the copies of one class only (otherwise a worker may skip a producer because it holds the state
from another class, and nobody is told its pool) -/
def UniqueProducerAt (g : Graph) (q p : Nat) : Prop :=
  ∀ vs ∈ (g.node q).sets, (g.node q).flat = false → (g.node p).flat = false → vs ∈ (g.node p).sets →
    (g.node q).cls = (g.node p).cls

instance (g : Graph) (q p : Nat) : Decidable (UniqueProducerAt g q p) := by unfold UniqueProducerAt; infer_instance

def UniqueProducer (g : Graph) : Prop :=
  ∀ q, q < g.nodes.length → ∀ p, p < g.nodes.length → UniqueProducerAt g q p

/-- the copies of a class set the same states -/
def SetsClass (g : Graph) : Prop :=
  ∀ q, q < g.nodes.length → ∀ p, p < g.nodes.length → (g.node q).cls = (g.node p).cls → (g.node q).sets = (g.node p).sets

/-- owners are workers of the run -/
def OwnersReal (g : Graph) : Prop :=
  ∀ n, n < g.nodes.length → (g.node n).owner.all (fun u => decide (u < g.workers.length)) = true

instance (g : Graph) : Decidable (FullScope g) := by unfold FullScope; infer_instance
instance (g : Graph) : Decidable (PlainNodes g) := by unfold PlainNodes; infer_instance
instance (g : Graph) : Decidable (NoRemoval g) := by unfold NoRemoval; infer_instance
instance (g : Graph) : Decidable (ProducerSets g) := by unfold ProducerSets; infer_instance
instance (g : Graph) : Decidable (UniqueProducer g) := by unfold UniqueProducer; infer_instance
instance (g : Graph) : Decidable (SetsClass g) := by unfold SetsClass; infer_instance
instance (g : Graph) : Decidable (OwnersReal g) := by unfold OwnersReal; infer_instance

structure SemHyp (g : Graph) : Prop where
  fullScope : FullScope g
  plainNodes : PlainNodes g
  noRemoval : NoRemoval g
  producerSets : ProducerSets g
  uniqueProducer : UniqueProducer g
  setsClass : SetsClass g
  ownersReal : OwnersReal g

theorem OwnersReal.lt {g : Graph} (h : OwnersReal g) {n u : Nat} (hn : n < g.nodes.length) (ho : (g.node n).owner = some u) :
    u < g.workers.length := by
  have := h n hn
  rw [ho] at this
  simpa using this

/-! ## results, listed workers, classes -/

theorem mem_dedup' (l : List Nat) (a : Nat) : a ∈ dedupNat l ↔ a ∈ l := by
  induction l with
  | nil => simp [dedupNat]
  | cons b l ih =>
    unfold dedupNat
    by_cases h : l.contains b = true
    · simp only [h, if_true, ih, List.mem_cons]
      constructor
      · exact Or.inr
      · rintro (rfl | h')
        · simpa using h
        · exact h'
    · simp only [h, Bool.false_eq_true, if_false, List.mem_cons, ih]

/-- the workers `pull_locations` names for parent `p`: first worker (in swarm order) whose id occurs in the name of a
passing result of the class -/
theorem mem_listed (g : Graph) (s : State) (p v : Nat) :
    v ∈ sharedResultWorkerIds g s p ↔
      ∃ r ∈ sharedResults g s p, r.status = "PASS" ∧
        (List.range g.workers.length).find? (fun w => strIn (g.worker w).id r.name) = some v := by
  unfold sharedResultWorkerIds
  rw [mem_dedup', List.mem_filterMap]
  constructor
  · rintro ⟨r, hr, h⟩
    by_cases hp : r.status = "PASS"
    · simp only [hp, bne_self_eq_false, Bool.false_eq_true, if_false] at h
      exact ⟨r, hr, hp, h⟩
    · have : (r.status != "PASS") = true := by simpa using hp
      simp [this] at h
  · rintro ⟨r, hr, hp, h⟩
    refine ⟨r, hr, ?_⟩
    simp [hp, h]

theorem find?_range_unique (p : Nat → Bool) (n u : Nat) (hu : u < n) (hp : p u = true)
    (huniq : ∀ x, x < n → p x = true → x = u) : (List.range n).find? p = some u := by
  cases h : (List.range n).find? p with
  | none =>
    rw [List.find?_eq_none] at h
    exact absurd hp (h u (List.mem_range.mpr hu))
  | some x =>
    have h1 := List.find?_some h
    have h2 := List.mem_range.mp (List.mem_of_find?_eq_some h)
    rw [huniq x h2 h1]

/-- a passing result under the name of a parsed copy lists the owner of the copy -/
theorem listed_of_pass {g : Graph} (hO : OwnerNames g) (hR : OwnersReal g) {s : State} {p q u : Nat} {r : Result}
    (hq : q < g.nodes.length) (hfq : (g.node q).flat = false) (ho : (g.node q).owner = some u)
    (hr : r ∈ sharedResults g s p) (hn : r.name = (g.node q).name) (hs : r.status = "PASS") :
    u ∈ sharedResultWorkerIds g s p := by
  rw [mem_listed]
  refine ⟨r, hr, hs, ?_⟩
  rw [hn]
  refine find?_range_unique (fun w => g.idIn w q) _ u (hR.lt hq ho) ((hO u q hq hfq).mpr ho) ?_
  intro x _ hx
  have := (hO x q hq hfq).mp hx
  rw [ho] at this
  exact (Option.some.inj this).symm

theorem mem_copies_iff (g : Graph) (p i : Nat) (hp : p < g.nodes.length) (hf : (g.node p).flat = false) :
    i ∈ g.copies p ↔ i < g.nodes.length ∧ (g.node i).cls = (g.node p).cls := by
  constructor
  · intro h
    unfold Graph.copies at h
    simp only [hf, Bool.false_eq_true, if_false, List.mem_cons, List.mem_filter] at h
    rcases h with rfl | ⟨h, _⟩
    · exact ⟨hp, rfl⟩
    · exact (mem_classNodes g _ i).mp h
  · intro h
    exact mem_copies_of_cls g i p h.1 hf h.2

theorem mem_sharedResults_iff (g : Graph) (s : State) (p : Nat) (r : Result) :
    r ∈ sharedResults g s p ↔ ∃ i ∈ g.copies p, r ∈ (s.nd i).results := by
  unfold sharedResults
  rw [List.mem_flatMap]

theorem mem_sharedFinished (g : Graph) (s : State) (n v : Nat) :
    v ∈ sharedFinished g s n ↔ ∃ i, i ∈ g.copies n ∧ (s.nd i).finished = some v := by
  unfold sharedFinished
  rw [mem_dedup']
  simp [List.mem_filterMap]

/-- the shared results of two parsed copies of one class are the same (as sets) -/
theorem sharedResults_class (g : Graph) (s : State) (p p' : Nat) (hp : p < g.nodes.length) (hp' : p' < g.nodes.length)
    (hf : (g.node p).flat = false) (hf' : (g.node p').flat = false) (hc : (g.node p).cls = (g.node p').cls) (r : Result)
    (h : r ∈ sharedResults g s p) : r ∈ sharedResults g s p' := by
  rw [mem_sharedResults_iff] at h ⊢
  obtain ⟨i, hi, hr⟩ := h
  rw [mem_copies_iff g p i hp hf] at hi
  exact ⟨i, (mem_copies_iff g p' i hp' hf').mpr ⟨hi.1, hi.2.trans hc⟩, hr⟩

/-! ## the semantic invariant -/

/-- the parsed copy `q` has a result (or a placeholder) under its own name -/
def HasRes (g : Graph) (s : State) (q : Nat) : Prop := ∃ r ∈ (s.nd q).results, r.name = (g.node q).name

/-- provenance of the pools: what is in a pool was there initially or was produced by the pool's worker on one of its
own parsed copies, which has a result -/
def Prov (g : Graph) (store0 : List (String × List (String × String))) (s : State) : Prop :=
  ∀ loc vs, vs ∈ storeGet s.store loc → vs ∈ storeGet store0 loc ∨
    ∃ u q, loc = (g.worker u).id ∧ q < g.nodes.length ∧ (g.node q).flat = false ∧ (g.node q).owner = some u ∧
      vs ∈ (g.node q).sets ∧ HasRes g s q

/-- the state `vs` of the class of `p` is sourced: it is in the shared pool, or in the pool of a worker that
`pull_locations` names for `p`, or the class has a result that did not pass -/
def Src (g : Graph) (s : State) (p : Nat) (vs : String × String) : Prop :=
  vs ∈ storeGet s.store "shared" ∨
  (∃ u ∈ sharedResultWorkerIds g s p, vs ∈ storeGet s.store (g.worker u).id) ∨
  (∃ r ∈ sharedResults g s p, r.status ≠ "PASS")

/-- the states set by a traversed parsed copy are sourced -/
def FinSrc (g : Graph) (s : State) : Prop :=
  ∀ p, p < g.nodes.length → (g.node p).flat = false → (s.nd p).finished.isSome = true → ∀ vs ∈ (g.node p).sets, Src g s p vs

structure Sem (g : Graph) (store0 : List (String × List (String × String))) (s : State) : Prop where
  prov : Prov g store0 s
  fin : FinSrc g s

theorem Src.congr {g : Graph} {s : State} {p p' : Nat} {vs : String × String} (hp : p < g.nodes.length)
    (hp' : p' < g.nodes.length) (hf : (g.node p).flat = false) (hf' : (g.node p').flat = false)
    (hc : (g.node p).cls = (g.node p').cls) (h : Src g s p vs) : Src g s p' vs := by
  rcases h with h | ⟨u, hu, h⟩ | ⟨r, hr, h⟩
  · exact Or.inl h
  · refine Or.inr (Or.inl ⟨u, ?_, h⟩)
    rw [mem_listed] at hu ⊢
    obtain ⟨r, hr, h1, h2⟩ := hu
    exact ⟨r, sharedResults_class g s p p' hp hp' hf hf' hc r hr, h1, h2⟩
  · exact Or.inr (Or.inr ⟨r, sharedResults_class g s p p' hp hp' hf hf' hc r hr, h⟩)

/-- same store, same `finished` marks, result lists only gain members -/
structure Grow (s s' : State) : Prop where
  store : s'.store = s.store
  fin : ∀ m, (s'.nd m).finished = (s.nd m).finished
  results : ∀ m r, r ∈ (s.nd m).results → r ∈ (s'.nd m).results

theorem Frame.grow {s s' : State} (a : Frame s s') : Grow s s' :=
  ⟨a.store, a.fin, fun m r h => by rw [a.results m]; exact h⟩

theorem Grow.sharedResults {s s' : State} (a : Grow s s') (g : Graph) (p : Nat) (r : Result)
    (h : r ∈ sharedResults g s p) : r ∈ sharedResults g s' p := by
  rw [mem_sharedResults_iff] at h ⊢
  obtain ⟨i, hi, hr⟩ := h
  exact ⟨i, hi, a.results i r hr⟩

theorem Grow.src {s s' : State} (a : Grow s s') {g : Graph} {p : Nat} {vs : String × String} (h : Src g s p vs) :
    Src g s' p vs := by
  rcases h with h | ⟨u, hu, h⟩ | ⟨r, hr, h⟩
  · exact Or.inl (by rw [a.store]; exact h)
  · refine Or.inr (Or.inl ⟨u, ?_, by rw [a.store]; exact h⟩)
    rw [mem_listed] at hu ⊢
    obtain ⟨r, hr, h1, h2⟩ := hu
    exact ⟨r, a.sharedResults g p r hr, h1, h2⟩
  · exact Or.inr (Or.inr ⟨r, a.sharedResults g p r hr, h⟩)

theorem Sem.grow {g : Graph} {store0 : List (String × List (String × String))} {s s' : State} (j : Sem g store0 s)
    (a : Grow s s') : Sem g store0 s' := by
  refine ⟨fun loc vs h => ?_, fun p hp hf hfin vs hvs => ?_⟩
  · rw [a.store] at h
    rcases j.prov loc vs h with h' | ⟨u, q, h1, h2, h3, h4, h5, r, hr, hn⟩
    · exact Or.inl h'
    · exact Or.inr ⟨u, q, h1, h2, h3, h4, h5, r, a.results q r hr, hn⟩
  · rw [a.fin] at hfin
    exact a.src (j.fin p hp hf hfin vs hvs)

theorem Sem.frame {g : Graph} {store0 : List (String × List (String × String))} {s s' : State} (j : Sem g store0 s)
    (a : Frame s s') : Sem g store0 s' := j.grow a.grow

/-- the end of `traverse_node` on a copy whose set states are sourced -/
theorem Sem.finish {g : Graph} {store0 : List (String × List (String × String))} {s : State} (j : Sem g store0 s)
    (p w : Nat) (hsrc : p < g.nodes.length → (g.node p).flat = false → ∀ vs ∈ (g.node p).sets, Src g s p vs) :
    Sem g store0 (finishTraverse s p w) := by
  have hres : ∀ m, ((finishTraverse s p w).nd m).results = (s.nd m).results := fun m =>
    nd_setNd_proj (·.results) s p (fun d => { d with finished := some w, started := none }) (fun _ => rfl) m
  have hg : ∀ {q vs}, Src g s q vs → Src g (finishTraverse s p w) q vs := by
    intro q vs h
    rcases h with h | ⟨u, hu, h⟩ | ⟨r, hr, h⟩
    · exact Or.inl h
    · refine Or.inr (Or.inl ⟨u, ?_, h⟩)
      rw [sharedResultWorkerIds_congr g s _ q hres]; exact hu
    · exact Or.inr (Or.inr ⟨r, by rw [sharedResults_congr g s _ q hres]; exact hr, h⟩)
  refine ⟨fun loc vs h => ?_, fun q hq hf hfin vs hvs => ?_⟩
  · rcases j.prov loc vs h with h' | ⟨u, q, h1, h2, h3, h4, h5, r, hr, hn⟩
    · exact Or.inl h'
    · exact Or.inr ⟨u, q, h1, h2, h3, h4, h5, r, by rw [hres]; exact hr, hn⟩
  · by_cases hqp : q = p
    · subst hqp; exact hg (hsrc hq hf vs hvs)
    · have : ((finishTraverse s p w).nd q).finished = (s.nd q).finished := by
        unfold finishTraverse; rw [nd_setNd_ne s p q _ hqp]
      rw [this] at hfin
      exact hg (j.fin q hq hf hfin vs hvs)

/-! ## the run decision does not read edges -/

theorem SameNodes.fld {gv g : Graph} (h : SameNodes gv g) {α} (F : Node → α) (hF : ∀ nd, F nd = F nd.noEdges) (n : Nat) :
    F (gv.node n) = F (g.node n) := by rw [hF, h.node, ← hF]

theorem SameNodes.scope {gv g : Graph} (h : SameNodes gv g) (n : Nat) : (gv.node n).scope = (g.node n).scope :=
  h.fld Node.scope (fun _ => rfl) n
theorem SameNodes.sharedRoot {gv g : Graph} (h : SameNodes gv g) (n : Nat) : (gv.node n).sharedRoot = (g.node n).sharedRoot :=
  h.fld Node.sharedRoot (fun _ => rfl) n
theorem SameNodes.dryRun {gv g : Graph} (h : SameNodes gv g) (n : Nat) : (gv.node n).dryRun = (g.node n).dryRun :=
  h.fld Node.dryRun (fun _ => rfl) n
theorem SameNodes.cloneSource {gv g : Graph} (h : SameNodes gv g) (n : Nat) : (gv.node n).cloneSource = (g.node n).cloneSource :=
  h.fld Node.cloneSource (fun _ => rfl) n
theorem SameNodes.rerunStatus {gv g : Graph} (h : SameNodes gv g) (n : Nat) : (gv.node n).rerunStatus = (g.node n).rerunStatus :=
  h.fld Node.rerunStatus (fun _ => rfl) n
theorem SameNodes.stopStatus {gv g : Graph} (h : SameNodes gv g) (n : Nat) : (gv.node n).stopStatus = (g.node n).stopStatus :=
  h.fld Node.stopStatus (fun _ => rfl) n

theorem sharedFilteredResults_sameNodes {gv g : Graph} (h : SameNodes gv g) (s : State) (n : Nat) (sw : Option Nat) :
    sharedFilteredResults gv s n sw = sharedFilteredResults g s n sw := by
  unfold sharedFilteredResults
  simp only [sharedResults_sameNodes h, h.shape, h.worker]

theorem shouldRerun_sameNodes {gv g : Graph} (h : SameNodes gv g) (s : State) (n w : Nat) :
    shouldRerun gv s n w = shouldRerun g s n w := by
  unfold shouldRerun
  simp only [h.dryRun, h.flat, h.cloneSource, idIn_sameNodes h, h.rerunStatus, h.maxTries, h.sets, h.stopStatus,
    sharedResults_sameNodes h, sharedFilteredResults_sameNodes h]

theorem netOf_sameNodes {gv g : Graph} (h : SameNodes gv g) (n w : Nat) : gv.netOf n w = g.netOf n w := by
  unfold Graph.netOf; rw [h.owner]

theorem scanStates_sameNodes {gv g : Graph} (h : SameNodes gv g) (s : State) (n w : Nat) :
    scanStates gv s n w = scanStates g s n w := by
  unfold scanStates
  simp only [h.sets, h.scope, h.worker, netOf_sameNodes h]

theorem runDecision_sameNodes {gv g : Graph} (h : SameNodes gv g) (s : State) (n w : Nat) :
    runDecision gv s n w = runDecision g s n w := by
  unfold runDecision runDecisionStateless runDecisionStateful runDecisionStatefulCore
  simp only [h.sharedRoot, h.dryRun, h.flat, h.cloneSource, idIn_sameNodes h, h.sets, sharedResults_sameNodes h,
    shouldRerun_sameNodes h, scanStates_sameNodes h, isFinished_sameNodes h, sharedFilteredResults_sameNodes h]

theorem sharedResultWorkerIds_sameNodes {gv g : Graph} (h : SameNodes gv g) (s : State) (n : Nat) :
    sharedResultWorkerIds gv s n = sharedResultWorkerIds g s n := by
  unfold sharedResultWorkerIds
  simp only [sharedResults_sameNodes h, h.workers, h.worker]

/-! ## a negative run decision on a parsed stateful copy: its states are sourced -/

theorem runDecision_false_src (g : Graph) (hy : SemHyp g) (hO : OwnerNames g) (hF : FlatClass g)
    {store0 : List (String × List (String × String))} (hI : InitShared store0) (s : State) (j : Sem g store0 s)
    (p w : Nat) (hp : p < g.nodes.length) (hf : (g.node p).flat = false) (s1 : State) (evs : List Event)
    (h : runDecision g s p w = .ok (false, s1, evs)) : ∀ vs ∈ (g.node p).sets, Src g s p vs := by
  obtain ⟨p1, p2, p3, _⟩ := hy.plainNodes p hp hf
  obtain ⟨hshape, hown, hshared, _, _⟩ := hy.fullScope p hp hf
  intro vs hvs
  unfold runDecision at h
  simp only [p1, p2, p3, hf, Bool.false_eq_true, if_false] at h
  have hid : g.idIn w p = true := by
    by_cases hid : g.idIn w p = true
    · exact hid
    · simp [hid] at h
  have hne : (g.node p).sets.isEmpty = false := by
    cases hl : (g.node p).sets with
    | nil => rw [hl] at hvs; simp at hvs
    | cons a r => rfl
  simp only [hid, Bool.not_true, Bool.false_eq_true, if_false, hne] at h
  unfold runDecisionStateful runDecisionStatefulCore at h
  by_cases hfin : isFinished g s p w 1 = true
  · -- some copy of the class was traversed before: its states are sourced
    unfold isFinished scopeCount at hfin
    simp only [hf, Bool.false_eq_true, if_false, hshape] at hfin
    have hlen : 1 ≤ (sharedFinished g s p).length := by
      have : ((1 : Int) == -1) = false := by decide
      simp only [this, Bool.false_eq_true, if_false, decide_eq_true_eq, ge_iff_le] at hfin
      omega
    obtain ⟨x, hx⟩ := List.exists_mem_of_length_pos (by omega : 0 < (sharedFinished g s p).length)
    obtain ⟨i, hi, hfi⟩ := (mem_sharedFinished g s p x).mp hx
    obtain ⟨hil, hic⟩ := (mem_copies_iff g p i hp hf).mp hi
    have hfli : (g.node i).flat = false := by rw [hF i hil p hp hic]; exact hf
    have := j.fin i hil hfli (by rw [hfi]; rfl) vs (by rw [hy.setsClass i hil p hp hic]; exact hvs)
    exact this.congr hil hp hfli hf hic
  · -- nobody has traversed the class: the scan found every state in the own or in the shared pool
    have hfin' : isFinished g s p w 1 = false := by simpa using hfin
    simp only [hfin', Bool.not_false, Bool.true_and, if_true] at h
    by_cases hsc : (scanStates g s p w).1 = true
    · simp only [hsc, if_true, Except.ok.injEq, Prod.mk.injEq] at h
      exact absurd h.1 (by simp)
    · have hsc' : (scanStates g s p w).1 = false := by simpa using hsc
      unfold scanStates at hsc'
      simp only [hne, Bool.false_eq_true, if_false, Bool.not_eq_false'] at hsc'
      rw [List.all_eq_true] at hsc'
      have := hsc' vs hvs
      simp only [hown, hshared, Bool.true_and, Bool.or_eq_true, List.contains_iff_mem] at this
      rcases this with hin | hin
      · -- in the worker's own pool: by provenance it was shared initially or produced by the class
        rcases j.prov _ vs hin with h0 | ⟨u, q, hloc, hq, hfq, hoq, hsq, r, hr, hrn⟩
        · left
          rw [← hI.get _ vs h0]; exact hin
        · have hc : (g.node q).cls = (g.node p).cls := hy.uniqueProducer q hq p hp vs hsq hfq hf hvs
          have hrs : r ∈ sharedResults g s p := mem_sharedResults g s q p r hq hf hc hr
          by_cases hst : r.status = "PASS"
          · exact Or.inr (Or.inl ⟨u, listed_of_pass hO hy.ownersReal hq hfq hoq hrs hrn hst, by rw [← hloc]; exact hin⟩)
          · exact Or.inr (Or.inr ⟨r, hrs, hst⟩)
      · exact Or.inl hin

/-! ## the start of a test -/

structure SemCtx (g : Graph) (store0 : List (String × List (String × String))) : Prop where
  hy : SemHyp g
  hO : OwnerNames g
  hF : FlatClass g
  hI : InitShared store0

/-- what C01 asks for at the start of `n` by `w` in state `sd`, for the setup edges of `n` in `gv`: every state `n` gets
through an edge from a parsed parent relevant to `w` is in the shared pool, or in the pool of a worker whose location is
contained in the `get_location` entry of its vm, or the parent's class has a result that did not pass -/
def Avail (g gv : Graph) (sd : State) (w n : Nat) : Prop :=
  ∀ e ∈ (gv.node n).setup, (g.node e.1).flat = false → relevant g w e.1 = true →
    ∀ vs ∈ (g.node n).gets, vs.1 ∈ e.2 →
      vs ∈ storeGet sd.store "shared" ∨
      (∃ u, vs ∈ storeGet sd.store (g.worker u).id ∧ HasLoc (sd.nd n).getLoc vs.1 (workerLoc g u)) ∨
      (∃ r ∈ sharedResults g sd e.1, r.status ≠ "PASS")

/-- provenance of a `start` event of worker `w`: the test proper of an own node `n`, started in a state `sd` that
satisfies both invariants, told the locations `(sd.nd n).getLoc`, with `Avail` on the graph visible then -/
def StartSem (g : Graph) (H0 : List Nat) (store0 : List (String × List (String × String))) (w : Nat) (e : Event) : Prop :=
  ∀ wid cname uid locs k, e = .start wid cname uid locs k →
    ∃ n sd hid, cname = clsName g n .plain ∧ locs = (sd.nd n).getLoc ∧ n < g.nodes.length ∧ g.idIn w n = true ∧
      (g.node n).flat = false ∧ (∀ h ∈ sd.hidden, h ∈ hid) ∧ (∀ h ∈ hid, h ∈ H0) ∧ Trv g H0 sd ∧ Sem g store0 sd ∧ Avail g (visH g hid) sd w n

theorem StartSem.of_plain {g : Graph} {H0 : List Nat} {store0 : List (String × List (String × String))} {w : Nat} {e : Event}
    (h : Plain e) : StartSem g H0 store0 w e :=
  fun wid cname uid locs k he => absurd he (h.2 wid cname uid locs k)

theorem grow_startTest (g : Graph) (s : State) (n w : Nat) (ph : Phase) (dir : Dir) : Grow s (startTest g s n w ph dir).1 := by
  refine ⟨?_, fun m => ?_, fun m r hr => ?_⟩
  · unfold startTest; dsimp only; split <;> rfl
  · by_cases hph : ph = .pre
    · subst hph; rfl
    · rw [startTest_nonpre_fst g s n w ph dir hph]
      refine nd_setNd_proj (·.finished) { s with nextTag := s.nextTag + 1 } n _ ?_ m
      exact fun _ => rfl
  · rcases startTest_results g s n w ph dir m with h | ⟨_, _, _, h⟩
    · rw [h]; exact hr
    · rw [h]; exact List.mem_append_left _ hr

theorem startTest_plain_event (g : Graph) (s : State) (n w : Nat) (dir : Dir) :
    ∀ e ∈ (startTest g s n w .plain dir).2.1,
      ∃ uid k, e = .start (g.worker w).id (clsName g n .plain) uid (s.nd n).getLoc k := by
  intro e he
  unfold startTest at he
  have e1 : (Phase.plain == Phase.pre) = false := rfl
  simp only [e1, Bool.false_eq_true, if_false, List.mem_singleton] at he
  have hgl : ∀ (f : NodeD → NodeD) (f' : WorkerD → WorkerD), (∀ d, (f d).getLoc = d.getLoc) →
      ((({ s with nextTag := s.nextTag + 1 }.setNd n f).setWd w f').nd n).getLoc = (s.nd n).getLoc :=
    fun f f' hf => nd_setNd_proj (·.getLoc) { s with nextTag := s.nextTag + 1 } n f hf n
  rw [he, hgl]
  · exact ⟨_, _, rfl⟩
  · exact fun _ => rfl

/-- `traverse_node` (entered on a free, setup-ready node of the worker's path) keeps `Sem`, and a start it emits has
everything it gets from traversed parents at hand -/
theorem traverseNode_sem (g : Graph) (H0 hid0 : List Nat) (ctx : Ctx g H0 hid0)
    {store0 : List (String × List (String × String))} (sc : SemCtx g store0) (w : Nat) (s : State) (next prev : Nat)
    (dir : Dir) (hsub : ∀ h ∈ s.hidden, h ∈ hid0) (hlen : s.nodes.length = g.nodes.length)
    (hn : next < g.nodes.length) (hrel : relevant g w next = true)
    (hocc : isOccupied (visH g hid0) s next w = false) (hready : isSetupReady (visH g hid0) s next w = true)
    (t : Trv g H0 s) (j : Sem g store0 s) :
    Sem g store0 (traverseNode (visH g hid0) s w next prev dir).1 ∧
      ∀ e ∈ (traverseNode (visH g hid0) s w next prev dir).2.1, StartSem g H0 store0 w e := by
  have hsn := sameNodes_visH g hid0
  have hnr : NodeNR ((visH g hid0).node next) := by
    have := sc.hy.noRemoval next hn
    unfold NodeNR at this ⊢
    rw [hsn.poolFilter, hsn.unsetMode]; exact this
  unfold traverseNode
  simp only [hocc, Bool.false_eq_true, if_false]
  have hA : Upd g H0 w s (pullLocations (visH g hid0) (s.setNd next (fun d => { d with started := some w })) next) :=
    (upd_setNd g H0 w s next (fun d => { d with started := some w }) (fun _ => rfl)).trans (upd_pullLocations g H0 w _ _ next)
  have fA : Frame s (s.setNd next (fun d => { d with started := some w })) := frame_setNd s next _ (fun _ => rfl) (fun _ => rfl)
  have fB : Frame s (pullLocations (visH g hid0) (s.setNd next (fun d => { d with started := some w })) next) :=
    fA.trans (frame_pullLocations _ _ next)
  cases hd : runDecision (visH g hid0) (pullLocations (visH g hid0) (s.setNd next (fun d => { d with started := some w })) next) next w with
  | error e => exact ⟨j.frame fB, fun e he => by simp at he⟩
  | ok r =>
    obtain ⟨run, s1, evs⟩ := r
    have h1 : Upd g H0 w s s1 := hA.trans (upd_runDecision g H0 w _ _ next w run s1 evs hd)
    have f1 : Frame s s1 := fB.trans (frame_runDecision _ _ next w run s1 evs hd)
    have hrd := runDecision_events _ _ next w run s1 evs hd
    have j1 : Sem g store0 s1 := j.frame f1
    have hlen1 : s1.nodes.length = g.nodes.length := h1.nodesLen.trans hlen
    have hevs : ∀ e ∈ evs, StartSem g H0 store0 w e := fun e he => StartSem.of_plain (hrd.1 e he)
    dsimp only
    by_cases hrun : run = true
    · subst hrun
      simp only [if_true]
      obtain ⟨hflat, hid⟩ := hrd.2 rfl
      have hflat' : (g.node next).flat = false := by rw [← hsn.flat]; exact hflat
      have hid' : g.idIn w next = true := by rw [← idIn_sameNodes hsn]; exact hid
      have hroot : ((visH g hid0).node next).objectRoot = false := by
        rw [hsn.objectRoot]; exact (sc.hy.plainNodes next hn hflat').2.2.2
      simp only [hroot, Bool.false_eq_true, if_false]
      have g3 := grow_startTest (visH g hid0) s1 next w .plain dir
      have e3 := startTest_plain_event (visH g hid0) s1 next w dir
      rcases hst : startTest (visH g hid0) s1 next w .plain dir with ⟨s2, evs2, f⟩
      rw [hst] at g3 e3
      refine ⟨j1.grow g3, fun e he => ?_⟩
      rcases List.mem_append.mp he with he | he
      · exact hevs e he
      · obtain ⟨uid, k, hek⟩ := e3 e he
        intro wid cname uid' locs k' hev
        rw [hek] at hev
        cases hev
        refine ⟨next, s1, hid0, clsName_sameNodes hsn next .plain, rfl, hn, hid', hflat', fun h hh => hsub h (h1.hidden h hh),
          ctx.sub0, t.upd sc.hO.uniq h1, j1, ?_⟩
        -- availability
        intro e hemem hfp hrelp vs hvs hvm
        have heg : e ∈ (g.node next).setup := visH_setup_sub g hid0 next e hemem
        have hpl : e.1 < g.nodes.length := ctx.wf.setup_lt next e heg
        have hsets : vs ∈ (g.node e.1).sets := sc.hy.producerSets next hn e heg vs hvs hfp hvm
        -- the worker dropped the parent class: its copy is traversed
        have hdrop := (setup_ready_iff' (visH g hid0) s next w).mp hready e hemem (by rw [relevant_sameNodes hsn]; exact hrelp)
        rw [hsn.cls, hsn.cls] at hdrop
        obtain ⟨p', hp'l, hp'c, hp'r, hp'f⟩ := t.dropS _ _ w hdrop
        have hp'flat : (g.node p').flat = false := by rw [sc.hF p' hp'l e.1 hpl hp'c]; exact hfp
        have hsrc : Src g s e.1 vs :=
          (j.fin p' hp'l hp'flat (by rw [hp'f hp'flat]; rfl) vs
            (by rw [sc.hy.setsClass p' hp'l e.1 hpl hp'c]; exact hsets)).congr hp'l hpl hp'flat hfp hp'c
        have hsrcA : Src g (s.setNd next (fun d => { d with started := some w })) e.1 vs := fA.grow.src hsrc
        rcases hsrcA with h | ⟨u, hu, h⟩ | ⟨r, hr, h⟩
        · left
          rw [f1.store, ← fA.store]; exact h
        · right; left
          refine ⟨u, by rw [f1.store, ← fA.store]; exact h, ?_⟩
          have hloc : workerLoc (visH g hid0) u ∈ locsOf (visH g hid0) (s.setNd next (fun d => { d with started := some w })) e.1 := by
            unfold locsOf
            rw [sharedResultWorkerIds_sameNodes hsn]
            exact List.mem_cons_of_mem _ (List.mem_map.mpr ⟨u, hu, rfl⟩)
          have hc := pullLocations_complete (visH g hid0) (s.setNd next (fun d => { d with started := some w })) next hflat
            (by rw [nodes_length_setNd, hlen]; exact hn) e.1 e.2 hemem vs.1 hvm _ hloc
          have hwl : workerLoc (visH g hid0) u = workerLoc g u := by unfold workerLoc; rw [hsn.worker]
          rw [hwl] at hc
          have hgl : (s1.nd next).getLoc =
              ((pullLocations (visH g hid0) (s.setNd next (fun d => { d with started := some w })) next).nd next).getLoc := by
            rcases runDecision_state _ _ next w true s1 evs hd with h' | h'
            · rw [h']
            · rw [h']; exact nd_disableRerun_proj (·.getLoc) (fun _ => rfl) _ next next
          rw [hgl]; exact hc
        · right; right
          refine ⟨r, ?_, h⟩
          rw [sharedResults_congr g s s1 e.1 f1.results, ← sharedResults_congr g s _ e.1 fA.results]
          exact hr
    · simp only [hrun, Bool.false_eq_true, if_false]
      have hrunf : run = false := by simpa using hrun
      subst hrunf
      have jB : Sem g store0 (pullLocations (visH g hid0) (s.setNd next (fun d => { d with started := some w })) next) := j.frame fB
      have hsrc : next < g.nodes.length → (g.node next).flat = false → ∀ vs ∈ (g.node next).sets, Src g s1 next vs := by
        intro _ hfl vs hvs
        rw [runDecision_sameNodes hsn] at hd
        exact (frame_runDecision g _ next w false s1 evs hd).grow.src
          (runDecision_false_src g sc.hy sc.hO sc.hF sc.hI _ jB next w hn hfl s1 evs hd vs hvs)
      have j2 : Sem g store0 (finishTraverse s1 next w) := j1.finish next w hsrc
      have f3 := frame_afterTraverse (visH g hid0) (finishTraverse s1 next w) w next prev dir hnr
      have e3 := afterTraverse_plain (visH g hid0) (finishTraverse s1 next w) w next prev dir hnr
      rcases hat : afterTraverse (visH g hid0) (finishTraverse s1 next w) w next prev dir with ⟨s2, evs2, f⟩
      rw [hat] at f3 e3
      refine ⟨j2.frame f3, fun e he => ?_⟩
      rcases List.mem_append.mp he with he | he
      · exact hevs e he
      · exact StartSem.of_plain (e3 e he)

theorem sem_silent {g : Graph} {H0 : List Nat} {store0 : List (String × List (String × String))} {w : Nat} {s s' : State}
    (j : Sem g store0 s) (a : Frame s s') :
    Sem g store0 s' ∧ ∀ e ∈ ([] : List Event), StartSem g H0 store0 w e :=
  ⟨j.frame a, fun e he => by simp at he⟩

theorem sem_single {g : Graph} {H0 : List Nat} {store0 : List (String × List (String × String))} {w : Nat} {s s' : State}
    {e : Event} (j : Sem g store0 s) (a : Frame s s') (h : Plain e) :
    Sem g store0 s' ∧ ∀ e' ∈ [e], StartSem g H0 store0 w e' :=
  ⟨j.frame a, fun e' he => by rw [List.mem_singleton.mp he]; exact StartSem.of_plain h⟩

/-- one iteration of the loop on the graph visible with `hid0` hidden -/
theorem iter_sem (g : Graph) (H0 hid0 : List Nat) (ctx : Ctx g H0 hid0)
    {store0 : List (String × List (String × String))} (sc : SemCtx g store0) (w : Nat) (s : State)
    (hsub : ∀ h ∈ s.hidden, h ∈ hid0) (t : Trv g H0 s) (j : Sem g store0 s) :
    Sem g store0 (iter (visH g hid0) s w).1 ∧ ∀ e ∈ (iter (visH g hid0) s w).2.1, StartSem g H0 store0 w e := by
  have hlen := t.nodesLen
  have hpath := t.path w
  unfold iter
  dsimp only
  split
  · split
    · exact sem_single j (frame_setWd s w _) (plain_exit _)
    · exact sem_silent j (Frame.refl s)
  · cases hl : (s.wd w).path.getLast? with
    | none => exact sem_silent j (Frame.refl s)
    | some next =>
      obtain ⟨hnext, hrel⟩ := hpath next (List.mem_of_getLast? hl)
      dsimp only
      split
      · cases hp : pickChild (visH g hid0) s next w with
        | none => exact sem_silent j (Frame.refl s)
        | some r => obtain ⟨c, s2⟩ := r; exact sem_silent j (frame_pickChild _ s next w c s2 hp)
      · by_cases hocc : isOccupied (visH g hid0) s next w = true
        · simp only [hocc, if_true]
          refine sem_single j (Frame.trans ?_ (frame_setWd _ w _)) (plain_sleep _ _)
          split
          · refine Frame.trans ?_ (frame_setWd _ w _)
            split
            · exact frame_setNd s next _ (fun _ => rfl) (fun _ => rfl)
            · exact Frame.refl s
          · exact frame_setWd s w _
        · have hocc' : isOccupied (visH g hid0) s next w = false := by simpa using hocc
          simp only [hocc', Bool.false_eq_true, if_false]
          by_cases hready : isSetupReady (visH g hid0) s next w = true
          · simp only [hready, if_true, Bool.not_true, Bool.false_eq_true, if_false]
            split
            · exact traverseNode_sem g H0 hid0 ctx sc w s next _ .up hsub hlen hnext hrel hocc' hready t j
            · split
              · exact traverseNode_sem g H0 hid0 ctx sc w s next _ .down hsub hlen hnext hrel hocc' hready t j
              · exact sem_silent j (Frame.refl s)
          · have hready' : isSetupReady (visH g hid0) s next w = false := by simpa using hready
            simp only [hready', Bool.false_eq_true, if_false, Bool.not_false, if_true]
            split
            · cases hp : pickParent (visH g hid0) s next w with
              | none => exact sem_silent j (Frame.refl s)
              | some r => obtain ⟨c, s2⟩ := r; exact sem_silent j (frame_pickParent _ s next w c s2 hp)
            · split
              · cases hp : pickParent (visH g hid0) s next w with
                | none => exact sem_silent j (Frame.refl s)
                | some r => obtain ⟨c, s2⟩ := r; exact sem_silent j (frame_pickParent _ s next w c s2 hp)
              · exact sem_silent j (Frame.refl s)

/-- one iteration including the lazy expansion step -/
theorem iterL_sem (g : Graph) (H0 : List Nat) (hwf : GraphWF g) (hroot : (g.node g.root).flat = true)
    {store0 : List (String × List (String × String))} (sc : SemCtx g store0) (w : Nat) (s : State)
    (t : Trv g H0 s) (j : Sem g store0 s) :
    Sem g store0 (iterL g s w).1 ∧ ∀ e ∈ (iterL g s w).2.1, StartSem g H0 store0 w e := by
  unfold iterL
  split
  · rw [vis_eq_visH]
    exact iter_sem g H0 s.hidden ⟨hwf, hroot, t.hidden⟩ sc w s (fun _ h => h) t j
  · dsimp only
    have h0 := upd_prepare g H0 w s
    have t0 := t.upd sc.hO.uniq h0
    rw [vis_eq_visH]
    exact iter_sem g H0 (prepare g s w).hidden ⟨hwf, hroot, t0.hidden⟩ sc w _ (fun _ h => h) t0 (j.frame (frame_prepare g s w))

/-- the loop up to the next suspension -/
theorem runLoop_sem (g : Graph) (H0 : List Nat) (hwf : GraphWF g) (hroot : (g.node g.root).flat = true)
    {store0 : List (String × List (String × String))} (sc : SemCtx g store0) (w : Nat) (fuel : Nat)
    (s : State) (evs : List Event) (t : Trv g H0 s) (j : Sem g store0 s) :
    Sem g store0 (runLoop g w fuel s evs).1 ∧ ∀ e ∈ (runLoop g w fuel s evs).2, e ∈ evs ∨ StartSem g H0 store0 w e := by
  induction fuel generalizing s evs with
  | zero =>
    unfold runLoop
    refine ⟨j, fun e he => ?_⟩
    rcases List.mem_append.mp he with he | he
    · exact Or.inl he
    · rw [List.mem_singleton.mp he]; exact Or.inr (StartSem.of_plain (plain_raise _ _))
  | succ fuel ih =>
    unfold runLoop
    dsimp only
    have h0 : Upd g H0 w s (s.setWd w (fun d => { d with pc := .loop })) := upd_setPc g H0 w s .loop rfl
    have t0 := t.upd sc.hO.uniq h0
    have j0 : Sem g store0 (s.setWd w (fun d => { d with pc := .loop })) := j.frame (frame_setWd s w _)
    have he := iterL_sem g H0 hwf hroot sc w _ t0 j0
    have hu := iterL_ok g H0 hwf hroot w _ t0.hidden t0.nodesLen (t0.path w)
    rcases hi : iterL g (s.setWd w (fun d => { d with pc := .loop })) w with ⟨s1, e, f⟩
    rw [hi] at he hu
    have t1 : Trv g H0 s1 := t0.upd sc.hO.uniq hu.1
    have hev : ∀ x ∈ evs ++ e, x ∈ evs ∨ StartSem g H0 store0 w x := by
      intro x hx
      rcases List.mem_append.mp hx with hx | hx
      · exact Or.inl hx
      · exact Or.inr (he.2 x hx)
    cases f with
    | cont =>
      dsimp only
      obtain ⟨h2, h3⟩ := ih s1 (evs ++ e) t1 he.1
      refine ⟨h2, fun x hx => ?_⟩
      rcases h3 x hx with hx | hx
      · exact hev x hx
      · exact Or.inr hx
    | suspend => exact ⟨he.1, hev⟩
    | exit => exact ⟨he.1, hev⟩
    | raise what =>
      dsimp only
      refine ⟨he.1.frame (frame_setWd s1 w _), fun x hx => ?_⟩
      rcases List.mem_append.mp hx with hx | hx
      · exact hev x hx
      · rw [List.mem_singleton.mp hx]; exact Or.inr (StartSem.of_plain (plain_raise _ _))

/-! ## the end of a test: report, record, continue -/

/-- the abstract effect of "the stub reports, the result replaces the placeholder" on `Sem`: the store gains the set
states of `n` in `w`'s pool iff `produced`; the placeholder `tag` of `n` is replaced by `res`, which passes only if
`produced`.  Afterwards `Sem` holds again and the set states of `n` are sourced. -/
theorem Sem.record {g : Graph} {store0 : List (String × List (String × String))} {s sb : State} (sc : SemCtx g store0)
    (j : Sem g store0 s) (w n tag : Nat) (res : Result) (produced : Prop)
    (hn : n < g.nodes.length) (hf : (g.node n).flat = false) (ho : (g.node n).owner = some w) (htag : 1 ≤ tag)
    (hstore : ∀ loc vs, vs ∈ storeGet sb.store loc ↔
      vs ∈ storeGet s.store loc ∨ (produced ∧ loc = (g.worker w).id ∧ vs ∈ (g.node n).sets))
    (hfin : ∀ m, (sb.nd m).finished = (s.nd m).finished)
    (hres : ∀ m, m ≠ n → (sb.nd m).results = (s.nd m).results)
    (hresn : (sb.nd n).results = ((s.nd n).results ++ [res]).filter (fun r => !(r.status == "UNKNOWN" && r.tag == tag)))
    (hname : res.name = (g.node n).name) (hrtag : res.tag = 0) (hpass : res.status = "PASS" → produced) :
    Sem g store0 sb ∧ ∀ vs ∈ (g.node n).sets, Src g sb n vs := by
  have hresmem : res ∈ (sb.nd n).results := by
    rw [hresn]
    refine List.mem_filter.mpr ⟨List.mem_append_right _ (List.mem_singleton.mpr rfl), ?_⟩
    have : (res.tag == tag) = false := by rw [hrtag]; simp; omega
    simp [this]
  have hresS : res ∈ sharedResults g sb n := mem_sharedResults g sb n n res hn hf rfl hresmem
  have hsrcn : ∀ vs ∈ (g.node n).sets, Src g sb n vs := by
    intro vs hvs
    by_cases hst : res.status = "PASS"
    · exact Or.inr (Or.inl ⟨w, listed_of_pass sc.hO sc.hy.ownersReal hn hf ho hresS hname hst,
        (hstore _ vs).mpr (Or.inr ⟨hpass hst, rfl, hvs⟩)⟩)
    · exact Or.inr (Or.inr ⟨res, hresS, hst⟩)
  have hhas : ∀ q, HasRes g s q → HasRes g sb q := by
    intro q ⟨r, hr, hrn⟩
    by_cases hq : q = n
    · subst hq; exact ⟨res, hresmem, hname⟩
    · exact ⟨r, by rw [hres q hq]; exact hr, hrn⟩
  refine ⟨⟨fun loc vs h => ?_, fun p hp hfp hfinp vs hvs => ?_⟩, hsrcn⟩
  · rcases (hstore loc vs).mp h with h | ⟨_, h1, h2⟩
    · rcases j.prov loc vs h with h' | ⟨u, q, h1, h2, h3, h4, h5, h6⟩
      · exact Or.inl h'
      · exact Or.inr ⟨u, q, h1, h2, h3, h4, h5, hhas q h6⟩
    · exact Or.inr ⟨w, n, h1, hn, hf, ho, h2, res, hresmem, hname⟩
  · by_cases hc : (g.node n).cls = (g.node p).cls
    · exact (hsrcn vs (by rw [sc.hy.setsClass n hn p hp hc]; exact hvs)).congr hn hp hf hfp hc
    · rw [hfin] at hfinp
      have hsame : ∀ r, r ∈ sharedResults g s p → r ∈ sharedResults g sb p := by
        intro r hr
        rw [mem_sharedResults_iff] at hr ⊢
        obtain ⟨i, hi, hri⟩ := hr
        have hin : i ≠ n := by
          intro hin
          rw [hin] at hi
          exact hc ((mem_copies_iff g p n hp hfp).mp hi).2
        exact ⟨i, hi, by rw [hres i hin]; exact hri⟩
      rcases j.fin p hp hfp hfinp vs hvs with h | ⟨u, hu, h⟩ | ⟨r, hr, h⟩
      · exact Or.inl ((hstore _ vs).mpr (Or.inl h))
      · refine Or.inr (Or.inl ⟨u, ?_, (hstore _ vs).mpr (Or.inl h)⟩)
        rw [mem_listed] at hu ⊢
        obtain ⟨r, hr, h1, h2⟩ := hu
        exact ⟨r, hsame r hr, h1, h2⟩
      · exact Or.inr (Or.inr ⟨r, hsame r hr, h⟩)

/-- what recording does to the fields `Sem` reads -/
theorem recordResultR_eff (sa : State) (w n : Nat) (name uid : String) (tag : Nat) (st0 : String) (dur : Nat)
    (hn : n < sa.nodes.length) :
    ∃ res : Result, res.name = name ∧ res.tag = 0 ∧ (res.status = "PASS" → st0 = "PASS") ∧
      (recordResultR sa w n .plain name uid tag st0 dur).1.store = sa.store ∧
      (recordResultR sa w n .plain name uid tag st0 dur).1.hidden = sa.hidden ∧
      (∀ m, ((recordResultR sa w n .plain name uid tag st0 dur).1.nd m).finished = (sa.nd m).finished) ∧
      (∀ m, m ≠ n → ((recordResultR sa w n .plain name uid tag st0 dur).1.nd m).results = (sa.nd m).results) ∧
      ((recordResultR sa w n .plain name uid tag st0 dur).1.nd n).results =
        ((sa.nd n).results ++ [res]).filter (fun r => !(r.status == "UNKNOWN" && r.tag == tag)) := by
  unfold recordResultR
  have e1 : (Phase.plain == Phase.pre) = false := rfl
  simp only [e1, Bool.false_eq_true, if_false]
  generalize hst : (if (st0 == "PASS" && decide (4 * dur > 5 * _)) = true then "WARN" else st0) = st'
  have hw : ∀ c : Bool, (if c = true then "WARN" else st0) = "PASS" → st0 = "PASS" := by
    intro c h
    cases c
    · simpa using h
    · simp at h
  have hpass : st' = "PASS" → st0 = "PASS" := by
    intro h
    rw [← hst] at h
    exact hw _ h
  generalize hX : (if (st' != st0) = true then
      { sa with jobResults := sa.jobResults.map (fun r => if (r.1 == name && r.2.1 == uid) = true then (r.1, r.2.1, st', r.2.2.2) else r) }
    else sa) = X
  have hXs : X.store = sa.store ∧ X.hidden = sa.hidden ∧ X.nodes = sa.nodes := by
    rw [← hX]; split <;> exact ⟨rfl, rfl, rfl⟩
  have hXnd : ∀ m, X.nd m = sa.nd m := fun m => by unfold State.nd; rw [hXs.2.2]
  refine ⟨{ name := name, status := st', uid := uid, dur := dur }, rfl, rfl, hpass, hXs.1, hXs.2.1, fun m => ?_, fun m hm => ?_, ?_⟩
  · rw [← hXnd m]
    refine nd_setNd_proj (·.finished) X n _ ?_ m
    exact fun _ => rfl
  · rw [← hXnd m]
    show ((X.setNd n _).nd m).results = _
    rw [nd_setNd_ne X n m _ hm]
  · show ((X.setNd n _).nd n).results = _
    rw [nd_setNd_eq X n _ (by rw [hXs.2.2]; exact hn), hXnd n]

/-- what the report of status `st` at `wait = 0` does to the fields `Sem` reads -/
theorem reportOutcomeR_eff (g : Graph) (s : State) (w n : Nat) (uid st : String) (dur : Nat)
    (ho : (g.node n).owner = some w) :
    (reportOutcomeR g s w n .plain uid 0 ⟨some st, dur⟩).1.nodes = s.nodes ∧
    (reportOutcomeR g s w n .plain uid 0 ⟨some st, dur⟩).1.hidden = s.hidden ∧
    (reportOutcomeR g s w n .plain uid 0 ⟨some st, dur⟩).1.jobResults = s.jobResults ++ [((g.node n).name, uid, st, dur)] ∧
    ∀ loc vs, vs ∈ storeGet (reportOutcomeR g s w n .plain uid 0 ⟨some st, dur⟩).1.store loc ↔
      vs ∈ storeGet s.store loc ∨ (((st == "PASS" || st == "WARN") = true) ∧ loc = (g.worker w).id ∧ vs ∈ (g.node n).sets) := by
  unfold reportOutcomeR
  have e1 : (Phase.plain == Phase.pre) = false := rfl
  have e2 : (Phase.plain != Phase.pre) = true := rfl
  simp only [e1, e2, Bool.false_eq_true, if_false, BEq.rfl, if_true, Bool.and_true]
  by_cases hp : (st == "PASS" || st == "WARN") = true
  · simp only [hp, if_true, true_and]
    refine ⟨rfl, rfl, rfl, fun loc vs => ?_⟩
    have hnet : g.netOf n w = w := by unfold Graph.netOf; rw [ho]; rfl
    have := mem_storeGet_produce g { s with jobResults := s.jobResults ++ [((g.node n).name, uid, st, dur)] } n w loc vs
    rw [hnet] at this
    exact this
  · simp only [hp, Bool.false_eq_true, if_false]
    exact ⟨trivial, trivial, trivial, fun loc vs => ⟨Or.inl, fun h => h.elim id (fun h' => h'.1.elim)⟩⟩

/-- the continuation after the awaited test proper on `n`, whose set states are sourced -/
theorem continueAfter_sem (g : Graph) (H0 : List Nat) (hwf : GraphWF g) (hroot : (g.node g.root).flat = true)
    {store0 : List (String × List (String × String))} (sc : SemCtx g store0) (w n : Nat) (dir : Dir) (fuel : Nat)
    (s : State) (ok : Bool) (evs : List Event) (t : Trv g H0 s) (j : Sem g store0 s) (hr : ReadyAt g H0 s w n)
    (hsrc : ∀ vs ∈ (g.node n).sets, Src g s n vs) :
    Sem g store0 (resumeTest.continueAfter g w n .plain dir fuel s ok evs).1 ∧
      ∀ e ∈ (resumeTest.continueAfter g w n .plain dir fuel s ok evs).2, e ∈ evs ∨ StartSem g H0 store0 w e := by
  unfold resumeTest.continueAfter
  have e1 : (Phase.plain == Phase.pre) = false := rfl
  simp only [e1, Bool.false_and, Bool.false_eq_true, if_false]
  have hn := hr.1
  have hrel : relevant g w n = true := relevant_of_idIn hr.2.1
  have hf : Upd g H0 w s (finishTraverse s n w) := upd_finishTraverse g H0 w s n hn hrel
  have tf := t.upd sc.hO.uniq hf
  have jf : Sem g store0 (finishTraverse s n w) := j.finish n w (fun _ _ => hsrc)
  have hfin : ((finishTraverse s n w).nd n).finished = some w := by
    unfold finishTraverse; rw [nd_setNd_eq s n _ (by rw [t.nodesLen]; exact hn)]
  have hsn := sameNodes_vis g (finishTraverse s n w)
  have hnr : NodeNR ((vis g (finishTraverse s n w)).node n) := by
    have := sc.hy.noRemoval n hn
    unfold NodeNR at this ⊢
    rw [hsn.poolFilter, hsn.unsetMode]; exact this
  have h3 := afterTraverse_ok g H0 (finishTraverse s n w).hidden ⟨hwf, hroot, tf.hidden⟩ w (finishTraverse s n w) n
    ((s.wd w).path.getD ((s.wd w).path.length - 2) 0) dir (fun _ h => h) tf.nodesLen hn hrel (fun _ => hfin)
  rw [← vis_eq_visH g (finishTraverse s n w)] at h3
  have f3 := frame_afterTraverse (vis g (finishTraverse s n w)) (finishTraverse s n w) w n
    ((s.wd w).path.getD ((s.wd w).path.length - 2) 0) dir hnr
  have e3 := afterTraverse_plain (vis g (finishTraverse s n w)) (finishTraverse s n w) w n
    ((s.wd w).path.getD ((s.wd w).path.length - 2) 0) dir hnr
  rcases hat : afterTraverse (vis g (finishTraverse s n w)) (finishTraverse s n w) w n
    ((s.wd w).path.getD ((s.wd w).path.length - 2) 0) dir with ⟨s2, e2, f⟩
  rw [hat] at h3 f3 e3
  have t2 : Trv g H0 s2 := tf.upd sc.hO.uniq h3.1
  have j2 : Sem g store0 s2 := jf.frame f3
  have hev : ∀ x ∈ evs ++ e2, x ∈ evs ∨ StartSem g H0 store0 w x := by
    intro x hx
    rcases List.mem_append.mp hx with hx | hx
    · exact Or.inl hx
    · exact Or.inr (StartSem.of_plain (e3 x hx))
  have hloop : Sem g store0 (runLoop g w fuel s2 (evs ++ e2)).1 ∧
      ∀ e ∈ (runLoop g w fuel s2 (evs ++ e2)).2, e ∈ evs ∨ StartSem g H0 store0 w e := by
    obtain ⟨h4, h5⟩ := runLoop_sem g H0 hwf hroot sc w fuel s2 (evs ++ e2) t2 j2
    refine ⟨h4, fun x hx => ?_⟩
    rcases h5 x hx with hx | hx
    · exact hev x hx
    · exact Or.inr hx
  cases f with
  | raise what =>
    dsimp only
    refine ⟨j2.frame (frame_setWd s2 w _), fun x hx => ?_⟩
    rcases List.mem_append.mp hx with hx | hx
    · exact hev x hx
    · rw [List.mem_singleton.mp hx]; exact Or.inr (StartSem.of_plain (plain_raise _ _))
  | cont => exact hloop
  | suspend => exact hloop
  | exit => exact hloop

theorem good_of_plain {g : Graph} (hy : SemHyp g) (hF : FlatClass g) {n : Nat} (hn : n < g.nodes.length)
    (hf : (g.node n).flat = false) : good g n = true := by
  unfold good goodClass
  simp only [hn, decide_true, hf, Bool.not_false, Bool.true_and, List.all_eq_true, Bool.not_eq_true']
  intro j hj
  obtain ⟨hjl, hjc⟩ := (mem_classNodes g _ j).mp hj
  have hfj : (g.node j).flat = false := by rw [hF j hjl n hn hjc]; exact hf
  exact (hy.plainNodes j hjl hfj).2.2.2

theorem reportOutcomeR_idle (g : Graph) (s : State) (w n : Nat) (ph : Phase) (uid : String) (wait : Nat) (out : Outcome)
    (h : ¬ (wait = 0 ∧ ∃ st, out.status = some st)) : (reportOutcomeR g s w n ph uid wait out).1 = s := by
  unfold reportOutcomeR
  dsimp only
  by_cases hw : wait = 0
  · subst hw
    cases hst : out.status with
    | none => simp
    | some st => exact absurd ⟨rfl, st, hst⟩ h
  · have : (wait == 0) = false := by simpa using hw
    simp [this]

/-- the second half of `run_test_node` for a test proper, from a state with the bookkeeping and identifier invariants
of C03 (`Basic`, `Uids`: the awaited test has not been reported yet, so the record read is the one reported now) -/
theorem resumeTest_sem (g : Graph) (H0 : List Nat) (hwf : GraphWF g) (hroot : (g.node g.root).flat = true)
    {store0 : List (String × List (String × String))} (sc : SemCtx g store0) (s : State) (w n : Nat) (dir : Dir)
    (uid : String) (tag wait : Nat) (out : Outcome) (fuel : Nat) (b : Basic g s All) (u : Uids g s All)
    (t : Trv g H0 s) (j : Sem g store0 s) (hpc : (s.wd w).pc = .test n .plain dir uid tag wait) :
    Sem g store0 (resumeTest g s w n .plain dir uid tag wait out fuel).1 ∧
      ∀ e ∈ (resumeTest g s w n .plain dir uid tag wait out fuel).2, StartSem g H0 store0 w e := by
  have hr : ReadyAt g H0 s w n := t.pc w n .plain dir uid tag wait hpc
  obtain ⟨hn, hid, hfl, _⟩ := hr
  have ho : (g.node n).owner = some w := (sc.hO w n hn hfl).mp hid
  have htag : 1 ≤ tag := (b.pcOK w n .plain dir uid tag wait trivial hpc).2.1
  have hph : phOf (g.node n).name tag ∈ (s.nd n).results := (b.placeholder w n .plain dir uid tag wait trivial hpc).1 (by simp)
  have hunrep := u.unreported w n dir uid tag wait trivial hpc (good_of_plain sc.hy sc.hF hn hfl)
  have hnone : s.jobResults.find? (fun r => r.1 == (g.node n).name && r.2.1 == uid) = none := by
    rw [List.find?_eq_none]
    intro x hx hp
    simp only [Bool.and_eq_true, beq_iff_eq] at hp
    apply hunrep
    unfold keys
    exact List.mem_map.mpr ⟨x, hx, by rw [hp.1, hp.2]⟩
  rw [resumeTest_eqR]
  have e1 : (Phase.plain == Phase.pre) = false := rfl
  simp only [e1, Bool.false_eq_true, if_false]
  obtain ⟨ha, hea⟩ := reportOutcomeR_ok g H0 s w n .plain uid wait out
  -- the continuation, from a state `sb` that `w` produced and in which the set states of `n` are sourced
  have hcont : ∀ sb ok, Upd g H0 w s sb → Sem g store0 sb → (∀ vs ∈ (g.node n).sets, Src g sb n vs) →
      Sem g store0 (resumeTest.continueAfter g w n .plain dir fuel sb ok (reportOutcomeR g s w n .plain uid wait out).2).1 ∧
      ∀ e ∈ (resumeTest.continueAfter g w n .plain dir fuel sb ok (reportOutcomeR g s w n .plain uid wait out).2).2,
        StartSem g H0 store0 w e := by
    intro sb ok hb jb hsrc
    obtain ⟨h1, h2⟩ := continueAfter_sem g H0 hwf hroot sc w n dir fuel sb ok (reportOutcomeR g s w n .plain uid wait out).2
      (t.upd sc.hO.uniq hb) jb ((t.pc w n .plain dir uid tag wait hpc).mono hb.hidden hb.monoS) hsrc
    refine ⟨h1, fun e he => ?_⟩
    rcases h2 e he with he | he
    · exact StartSem.of_plain (hea e he)
    · exact he
  by_cases hrep : wait = 0 ∧ ∃ st, out.status = some st
  · -- reported now: the record found is the one just appended
    obtain ⟨hw0, st, hst⟩ := hrep
    subst hw0
    obtain ⟨ost, odur⟩ := out
    simp only at hst
    subst hst
    obtain ⟨hnodes, _, hjob, hstore⟩ := reportOutcomeR_eff g s w n uid st odur ho
    have hfind : (reportOutcomeR g s w n .plain uid 0 ⟨some st, odur⟩).1.jobResults.find?
        (fun r => r.1 == (g.node n).name && r.2.1 == uid) = some ((g.node n).name, uid, st, odur) := by
      rw [hjob, List.find?_append, hnone]
      simp
    rw [hfind]
    dsimp only
    have hnd : ∀ m, (reportOutcomeR g s w n .plain uid 0 ⟨some st, odur⟩).1.nd m = s.nd m := fun m => by
      unfold State.nd; rw [hnodes]
    obtain ⟨res, hname, hrtag, hpass, hst2, _, hfin2, hres2, hresn2⟩ :=
      recordResultR_eff (reportOutcomeR g s w n .plain uid 0 ⟨some st, odur⟩).1 w n (g.node n).name uid tag st odur
        (by rw [hnodes, b.nodesLen]; exact hn)
    have hb : Upd g H0 w s (recordResultR (reportOutcomeR g s w n .plain uid 0 ⟨some st, odur⟩).1 w n .plain
        (g.node n).name uid tag st odur).1 := ha.trans (upd_recordResultR g H0 _ w n .plain _ uid tag st odur)
    obtain ⟨jb, hsrc⟩ := Sem.record sc j w n tag res ((st == "PASS" || st == "WARN") = true) hn hfl ho htag
      (fun loc vs => by rw [hst2]; exact hstore loc vs)
      (fun m => by rw [hfin2, hnd]) (fun m hm => by rw [hres2 m hm, hnd]) (by rw [hresn2, hnd]) hname hrtag
      (fun h => by rw [hpass h]; rfl)
    exact hcont _ _ hb jb hsrc
  · -- nothing reported now: no record, the placeholder stays
    have hsa : (reportOutcomeR g s w n .plain uid wait out).1 = s := reportOutcomeR_idle g s w n .plain uid wait out hrep
    rw [hsa, hnone]
    dsimp only
    have hwait : Sem g store0 (s.setWd w (fun d => { d with pc := .test n .plain dir uid tag (wait + 1) })) ∧
        ∀ e ∈ (reportOutcomeR g s w n .plain uid wait out).2 ++ [Event.sleep (g.worker w).id 3000], StartSem g H0 store0 w e := by
      refine ⟨j.frame (frame_setWd s w _), fun e he => ?_⟩
      rcases List.mem_append.mp he with he | he
      · exact StartSem.of_plain (hea e he)
      · rw [List.mem_singleton.mp he]; exact StartSem.of_plain (plain_sleep _ _)
    split
    · exact hwait
    · split
      · exact hwait
      · refine hcont s false (Upd.refl g H0 w s) j (fun vs _ => ?_)
        exact Or.inr (Or.inr ⟨phOf (g.node n).name tag, mem_sharedResults g s n n _ hn hfl rfl hph, by show "UNKNOWN" ≠ "PASS"; decide⟩)

/-- one scheduler step from a state with the invariants of C03 (`Basic`, `Uids`), `Trv` and `Sem` -/
theorem resume_sem (g : Graph) (H0 : List Nat) (hwf : GraphWF g) (hroot : (g.node g.root).flat = true)
    {store0 : List (String × List (String × String))} (sc : SemCtx g store0) (s : State) (w : Nat) (out : Outcome)
    (fuel : Nat) (b : Basic g s All) (u : Uids g s All) (t : Trv g H0 s) (j : Sem g store0 s) :
    Sem g store0 (resume g s w out fuel).1 ∧ ∀ e ∈ (resume g s w out fuel).2, StartSem g H0 store0 w e := by
  have hloop : Sem g store0 (runLoop g w fuel s []).1 ∧ ∀ e ∈ (runLoop g w fuel s []).2, StartSem g H0 store0 w e := by
    obtain ⟨h1, h2⟩ := runLoop_sem g H0 hwf hroot sc w fuel s [] t j
    refine ⟨h1, fun e he => ?_⟩
    rcases h2 e he with he | he
    · simp at he
    · exact he
  unfold resume
  split
  · exact hloop
  · exact hloop
  · next n ph dir uid tag wait hpc =>
    obtain ⟨hn, _, hfl, _⟩ := t.pc w n ph dir uid tag wait hpc
    have hph : ph = .plain :=
      (b.pcOK w n ph dir uid tag wait trivial hpc).2.2.2.1.mp (sc.hy.plainNodes n hn hfl).2.2.2
    subst hph
    exact resumeTest_sem g H0 hwf hroot sc s w n dir uid tag wait out fuel b u t j hpc
  · exact ⟨j, fun e he => by simp at he⟩
  · exact ⟨j, fun e he => by simp at he⟩

theorem Sem.init (g : Graph) (ncls : Nat) (store : List (String × List (String × String))) (H0 : List Nat) :
    Sem g store (initState g ncls store H0) := by
  refine ⟨fun loc vs h => Or.inl h, fun p _ _ hfin => ?_⟩
  have : ((initState g ncls store H0).nd p).finished = none := by
    unfold initState State.nd
    simp only [List.getD_eq_getElem?_getD, List.getElem?_map]
    cases g.nodes[p]? <;> rfl
  rw [this] at hfin
  cases hfin

/-! ## reachability with real workers and fuel (what the identifier invariant of C03 needs) -/

/-- `ReachH` restricted to steps of workers of the run with positive fuel (= `ReachableR` of `TravResults.lean` with the
initially hidden set recorded) -/
inductive ReachS (g : Graph) (ncls : Nat) (store : List (String × List (String × String))) (H0 : List Nat) : State → Prop
  | init : ReachS g ncls store H0 (initState g ncls store H0)
  | step (s : State) (w : Nat) (out : Outcome) (fuel : Nat) :
      ReachS g ncls store H0 s → w < g.workers.length → 0 < fuel → ReachS g ncls store H0 (resume g s w out fuel).1

theorem ReachS.reachH {g : Graph} {ncls : Nat} {store : List (String × List (String × String))} {H0 : List Nat} {s : State}
    (h : ReachS g ncls store H0 s) : ReachH g ncls store H0 s := by
  induction h with
  | init => exact ReachH.init
  | step s w out fuel _ _ _ ih => exact ReachH.step s w out fuel ih

theorem ReachS.reachR {g : Graph} {ncls : Nat} {store : List (String × List (String × String))} {H0 : List Nat} {s : State}
    (h : ReachS g ncls store H0 s) : ReachableR g ncls store s := by
  induction h with
  | init => exact ReachableR.init H0
  | step s w out fuel _ hw hf ih => exact ReachableR.step w out fuel ih hw hf

theorem ReachS.sem {g : Graph} (hwf : graphWF g = true) (hroot : (g.node g.root).flat = true) {ncls : Nat}
    {store : List (String × List (String × String))} (sc : SemCtx g store) (hN : NamesInj g) (hP : PreNamesFresh g)
    {H0 : List Nat} {s : State} (h : ReachS g ncls store H0 s) : Sem g store s := by
  induction h with
  | init => exact Sem.init g ncls store H0
  | step s w out fuel hs _ _ ih =>
    exact (resume_sem g H0 (GraphWF.of_bool hwf) hroot sc s w out fuel (hs.reachR.basic hwf) (hs.reachR.uids hwf hN hP)
      (hs.reachH.trv (GraphWF.of_bool hwf) hroot sc.hO.uniq) ih).1

theorem runSched_reachS (g : Graph) (ncls : Nat) (store : List (String × List (String × String))) (H0 : List Nat) (fuel : Nat)
    (hf : 0 < fuel) (l : List (Nat × Outcome)) (hl : ∀ p ∈ l, p.1 < g.workers.length) (s : State)
    (h : ReachS g ncls store H0 s) : ReachS g ncls store H0 (runSched g fuel s l) := by
  induction l generalizing s with
  | nil => exact h
  | cons p l ih =>
    exact ih (fun q hq => hl q (List.mem_cons_of_mem _ hq)) _ (ReachS.step s p.1 p.2 fuel h (hl p List.mem_cons_self) hf)

/-- may worker `w`, running its copy `n`, fetch from the pool of worker `v` under the node's pool scope -/
def mayUse (g : Graph) (n w v : Nat) : Bool :=
  if v == w then (g.node n).scope.contains "own"
  else if (g.worker v).swarm == (g.worker w).swarm then (g.node n).scope.contains "swarm"
  else (g.node n).scope.contains "cluster"

theorem mayUse_full {g : Graph} (h : FullScope g) {n : Nat} (hn : n < g.nodes.length) (hf : (g.node n).flat = false)
    (w v : Nat) : mayUse g n w v = true := by
  obtain ⟨_, h1, _, h3, h4⟩ := h n hn hf
  unfold mayUse
  split
  · exact h1
  · split
    · exact h3
    · exact h4

/-! ## instances for `Props/C01.lean`: test `a` sets `vm1/a` (copies for both workers), test `b` of net2 gets it -/

def exStGraph (scope : List String) : Graph :=
  { workers := [{ id := "net1", swarm := "localhost" }, { id := "net2", swarm := "localhost" }],
    nodes := [
      { cls := 0, owner := some 0, name := "a.net1", pfx := "1a1", objs := ["vm1"],
        sets := [("vm1", "a")], scope := scope, setup := [(3, ["vm1"])] },
      { cls := 0, owner := some 1, name := "a.net2", pfx := "1a1", objs := ["vm1"],
        sets := [("vm1", "a")], scope := scope, setup := [(3, ["vm1"])], cleanup := [(2, ["vm1"])] },
      { cls := 1, owner := some 1, name := "b.net2", pfx := "2a1", objs := ["vm1"],
        gets := [("vm1", "a")], scope := scope, setup := [(1, ["vm1"])] },
      { cls := 2, owner := none, name := "noop", pfx := "1", flat := true, sharedRoot := true,
        cleanup := [(0, ["vm1"]), (1, ["vm1"])] }],
    root := 3 }

/-- all four scopes enabled -/
def exSt : Graph := exStGraph ["own", "swarm", "cluster", "shared"]
/-- the `swarm` scope disabled (finding F10) -/
def exSt10 : Graph := exStGraph ["own", "shared"]
/-- the state exists initially, in net1's own pool only (finding F5) -/
def exStore5 : List (String × List (String × String)) := [("net1", [("vm1", "a")])]

/-- net1 ran `a` and passed -/
def exSt2 : State := runSched exSt 100 (initState exSt 3 [] []) [(0, exNoOut), (0, exPass)]
def exSt10_2 : State := runSched exSt10 100 (initState exSt10 3 [] []) [(0, exNoOut), (0, exPass)]
/-- net1 found the state in its own pool and skipped `a` -/
def exSt5_1 : State := runSched exSt 100 (initState exSt 3 exStore5 []) [(0, exNoOut)]

end I2N.Trav
