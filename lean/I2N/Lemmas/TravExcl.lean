import I2N.Lemmas.TravBasic
import Batteries.Data.List.Perm
/-!
Mutual exclusion of the traversal model (property C04): the number of workers within one reuse scope
that hold the `started` mark of a class never exceeds the class' threshold.  This file contains the
specification vocabulary (`scopedCount`, `limit`, `classLimit`, `Inv`), the bridge between
`isOccupied` and the count, and the preservation of `Inv` by every function of the worker loop.
-/
namespace I2N.Trav

/-! ## vocabulary -/

/-- is worker `v` within the reuse scope of observer `w` for a node of scope shape `sh`
(`own`: only `w` itself, `swarm`: the workers of `w`'s swarm, `global`: everybody) -/
def inScopeOf (sh : Shape) (g : Graph) (w v : Nat) : Bool :=
  match sh with
  | .own => v == w
  | .swarm => (g.worker v).swarm == (g.worker w).swarm
  | .global => true

/-- the number `is_started` compares with its threshold for node `n` and worker `w`: the workers within
`w`'s scope that have some copy of `n`'s class started -/
def scopedCount (g : Graph) (s : State) (n w : Nat) : Nat :=
  ((sharedStarted g s n).filter (inScopeOf (g.node n).shape g w)).length

/-- the static threshold of `is_occupied` for copy `n` (no bump) -/
def limit0 (g : Graph) (n : Nat) : Nat :=
  (max ((g.node n).mct.getD ((g.node n).maxTries.getD 1)) 1).toNat

/-- the threshold of `is_occupied` currently in force for copy `n` (includes the re-entrancy bumps) -/
def limit (g : Graph) (s : State) (n : Nat) : Nat := (max (mctOf g s n) 1).toNat

/-- the largest threshold that has been in force for copy `n` so far.  The threshold of a copy runs through
`limit0, mct₀+1, mct₀+2, …` (`mct₀` = the configured `max_concurrent_tries` or 0): the first bump *lowers*
it when `max_concurrent_tries` is unset and `max_tries > 1`, so the current `limit` is not monotone;
`peakLimit` is. Without a bump and whenever `max_concurrent_tries` is configured, `peakLimit = limit`. -/
def peakLimit (g : Graph) (s : State) (n : Nat) : Nat := max (limit0 g n) (limit g s n)

/-- the maximum of the thresholds over all copies of class `c` -/
def classLimit (g : Graph) (s : State) (c : Nat) : Nat :=
  ((g.classNodes c).map (peakLimit g s)).foldr max 0

/-- the copies of one class agree on the scope shape, and flat nodes are not bridged with parsed ones -/
def Homog (g : Graph) : Prop :=
  ∀ n, n < g.nodes.length → ∀ m, m < g.nodes.length → (g.node n).cls = (g.node m).cls →
    (g.node n).shape = (g.node m).shape ∧ (g.node n).flat = (g.node m).flat

instance (g : Graph) : Decidable (Homog g) := by unfold Homog; infer_instance

/-- the exclusion invariant: for every parsed copy and every observer, the number of workers in the
observer's scope holding the class started is at most the class threshold -/
def Inv (g : Graph) (s : State) : Prop :=
  ∀ n, n < g.nodes.length → (g.node n).flat = false → ∀ w, scopedCount g s n w ≤ classLimit g s (g.node n).cls

/-! ## lists -/

theorem mem_dedupNat (l : List Nat) (a : Nat) : a ∈ dedupNat l ↔ a ∈ l := by
  induction l with
  | nil => simp [dedupNat]
  | cons b l ih =>
    unfold dedupNat
    by_cases h : l.contains b = true
    · simp only [h, if_true, ih, List.mem_cons]
      constructor
      · exact Or.inr
      · rintro (rfl | h')
        · simpa using h
        · exact h'
    · simp only [h, Bool.false_eq_true, if_false, List.mem_cons, ih]

theorem nodup_dedupNat (l : List Nat) : (dedupNat l).Nodup := by
  induction l with
  | nil => simp [dedupNat]
  | cons b l ih =>
    unfold dedupNat
    by_cases h : l.contains b = true
    · simp only [h, if_true]; exact ih
    · simp only [h, Bool.false_eq_true, if_false, List.nodup_cons]
      refine ⟨?_, ih⟩
      rw [mem_dedupNat]
      simpa using h

/-- a duplicate-free list contained in another is no longer -/
theorem length_le_of_nodup_subset {l l' : List Nat} (hd : l.Nodup) (hs : ∀ x ∈ l, x ∈ l') : l.length ≤ l'.length :=
  (List.subperm_of_subset hd hs).length_le

theorem le_foldr_max (l : List Nat) (a : Nat) (h : a ∈ l) : a ≤ l.foldr max 0 := by
  induction l with
  | nil => simp at h
  | cons b l ih =>
    simp only [List.foldr_cons]
    rcases List.mem_cons.mp h with rfl | h'
    · exact Nat.le_max_left _ _
    · exact Nat.le_trans (ih h') (Nat.le_max_right _ _)

theorem foldr_max_mono {α} (l : List α) (f f' : α → Nat) (h : ∀ x ∈ l, f x ≤ f' x) :
    (l.map f).foldr max 0 ≤ (l.map f').foldr max 0 := by
  induction l with
  | nil => simp
  | cons b l ih =>
    simp only [List.map_cons, List.foldr_cons]
    have h1 := h b (List.mem_cons_self ..)
    have h2 := ih (fun x hx => h x (List.mem_cons_of_mem _ hx))
    omega

/-! ## copies, started sets -/

theorem mem_sharedStarted (g : Graph) (s : State) (n v : Nat) :
    v ∈ sharedStarted g s n ↔ ∃ i, i ∈ g.copies n ∧ (s.nd i).started = some v := by
  unfold sharedStarted
  rw [mem_dedupNat]
  simp [List.mem_filterMap]

theorem nodup_sharedStarted (g : Graph) (s : State) (n : Nat) : (sharedStarted g s n).Nodup := nodup_dedupNat _

theorem peakLimit_le_classLimit (g : Graph) (s : State) (n : Nat) (hn : n < g.nodes.length) :
    peakLimit g s n ≤ classLimit g s (g.node n).cls := by
  unfold classLimit
  apply le_foldr_max
  exact List.mem_map.mpr ⟨n, (mem_classNodes g _ n).mpr ⟨hn, rfl⟩, rfl⟩

theorem one_le_limit (g : Graph) (s : State) (n : Nat) : 1 ≤ limit g s n := by
  unfold limit; omega

theorem limit_le_peakLimit (g : Graph) (s : State) (n : Nat) : limit g s n ≤ peakLimit g s n := Nat.le_max_right _ _

/-! ## the bridge between `isOccupied` and the count -/

theorem isOccupied_iff (g : Graph) (s : State) (n w : Nat) :
    isOccupied g s n w = true ↔
      (g.node n).flat = false ∧
        (match (g.node n).shape with
         | .own => w ∈ sharedStarted g s n
         | .swarm => limit g s n ≤ scopedCount g s n w
         | .global => limit g s n ≤ scopedCount g s n w) := by
  unfold isOccupied isStarted scopeCount scopedCount limit
  cases hf : (g.node n).flat
  · simp only [Bool.false_eq_true, if_false, true_and]
    have h1 : (max (mctOf g s n) 1 == -1) = false := by
      simp only [beq_eq_false_iff_ne, ne_eq]; omega
    cases hs : (g.node n).shape
    · simp
    · have h2 : inScopeOf Shape.swarm g w = fun v => (g.worker v).swarm == (g.worker w).swarm := rfl
      simp only [h1, Bool.false_eq_true, if_false, decide_eq_true_eq, h2, ge_iff_le]
      rw [Int.toNat_le]
    · have h2 : inScopeOf Shape.global g w = fun _ => true := rfl
      have h3 : ∀ l : List Nat, l.filter (fun _ => true) = l := fun l => by simp
      simp only [h1, Bool.false_eq_true, if_false, decide_eq_true_eq, h2, ge_iff_le, h3]
      rw [Int.toNat_le]
  · simp

/-- a node found not occupied has room for one more worker in the scope of the entering worker -/
theorem room_of_not_occupied (g : Graph) (s : State) (n w : Nat) (hf : (g.node n).flat = false)
    (h : isOccupied g s n w = false) : scopedCount g s n w < limit g s n := by
  have h' : ¬ (isOccupied g s n w = true) := by simp [h]
  rw [isOccupied_iff] at h'
  simp only [hf, true_and] at h'
  cases hs : (g.node n).shape
  · simp only [hs] at h'
    have : scopedCount g s n w = 0 := by
      unfold scopedCount
      simp only [hs, inScopeOf, List.length_eq_zero_iff, List.filter_eq_nil_iff, beq_iff_eq]
      intro a ha hc; exact h' (hc ▸ ha)
    have := one_le_limit g s n
    omega
  · simp only [hs] at h'; omega
  · simp only [hs] at h'; omega

/-! ## the order "fewer marks, more bumps" and the guarded entry -/

/-- `s'` holds no mark that `s` does not hold, and no copy has been bumped less often -/
def Le (s s' : State) : Prop :=
  ∀ i, ((s'.nd i).started = (s.nd i).started ∨ (s'.nd i).started = none) ∧ (s.nd i).bump ≤ (s'.nd i).bump

theorem Le.refl (s : State) : Le s s := fun _ => ⟨Or.inl rfl, Nat.le_refl _⟩

theorem Le.trans {s s' s'' : State} (h1 : Le s s') (h2 : Le s' s'') : Le s s'' := by
  intro i
  obtain ⟨a1, b1⟩ := h1 i
  obtain ⟨a2, b2⟩ := h2 i
  refine ⟨?_, Nat.le_trans b1 b2⟩
  rcases a2 with a2 | a2
  · rcases a1 with a1 | a1
    · exact Or.inl (a2.trans a1)
    · exact Or.inr (a2.trans a1)
  · exact Or.inr a2

theorem Le.of_nd_eq {s s' : State} (h : ∀ i, s'.nd i = s.nd i) : Le s s' := by
  intro i; rw [h i]; exact ⟨Or.inl rfl, Nat.le_refl _⟩

theorem Le.setNd (s : State) (m : Nat) (f : NodeD → NodeD)
    (hf : ∀ d, ((f d).started = d.started ∨ (f d).started = none) ∧ d.bump ≤ (f d).bump) : Le s (s.setNd m f) := by
  intro i
  rcases nd_setNd_cases s m f i with h | ⟨_, _, h⟩
  · rw [h]; exact ⟨Or.inl rfl, Nat.le_refl _⟩
  · rw [h]; exact hf _

theorem Le.foldl {β} (f : State → β → State) (h : ∀ s b, Le s (f s b)) (l : List β) (s : State) : Le s (l.foldl f s) := by
  induction l generalizing s with
  | nil => exact Le.refl s
  | cons a r ih => simp only [List.foldl_cons]; exact (h s a).trans (ih _)

theorem peakLimit_mono (g : Graph) (s s' : State) (n : Nat) (h : (s.nd n).bump ≤ (s'.nd n).bump) :
    peakLimit g s n ≤ peakLimit g s' n := by
  unfold peakLimit limit limit0 mctOf
  dsimp only
  split <;> split <;> omega

theorem classLimit_mono (g : Graph) (s s' : State) (c : Nat) (h : ∀ i, (s.nd i).bump ≤ (s'.nd i).bump) :
    classLimit g s c ≤ classLimit g s' c := by
  unfold classLimit
  exact foldr_max_mono _ _ _ (fun n _ => peakLimit_mono g s s' n (h n))

theorem inScopeOf_trans (sh : Shape) (g : Graph) (v w x : Nat) (h : inScopeOf sh g v w = true) :
    inScopeOf sh g v x = inScopeOf sh g w x := by
  cases sh
  · simp only [inScopeOf, beq_iff_eq] at h ⊢; rw [h]
  · simp only [inScopeOf, beq_iff_eq] at h ⊢; rw [h]
  · rfl

/-- the one step that can raise a count: worker `w` marks `next` after having found it not occupied;
everything else may only remove marks and raise bumps -/
theorem inv_enter_abs (g : Graph) (s s' : State) (next w : Nat) (hH : Homog g) (hI : Inv g s)
    (hocc : isOccupied g s next w = false)
    (hst : ∀ i, (s'.nd i).started = (s.nd i).started ∨ (s'.nd i).started = none ∨
      (i = next ∧ (s'.nd i).started = some w))
    (hb : ∀ i, (s.nd i).bump ≤ (s'.nd i).bump) : Inv g s' := by
  intro n hn hf v
  have hcl := classLimit_mono g s s' (g.node n).cls hb
  have hInv := hI n hn hf v
  -- the old members
  have hold : ∀ x, x ∈ sharedStarted g s' n → x ∈ sharedStarted g s n ∨
      (x = w ∧ next < g.nodes.length ∧ (g.node next).cls = (g.node n).cls) := by
    intro x hx
    rw [mem_sharedStarted] at hx
    obtain ⟨i, hi, hs⟩ := hx
    rcases hst i with h | h | ⟨h1, h2⟩
    · left; rw [mem_sharedStarted]; exact ⟨i, hi, h ▸ hs⟩
    · rw [h] at hs; cases hs
    · right
      rw [h2] at hs
      rw [mem_copies g n i hn hf] at hi
      exact ⟨(Option.some.inj hs).symm, h1 ▸ hi.1, h1 ▸ hi.2⟩
  by_cases hv : inScopeOf (g.node n).shape g v w = true ∧ next < g.nodes.length ∧ (g.node next).cls = (g.node n).cls
  · obtain ⟨hv, hnl, hc⟩ := hv
    obtain ⟨hsh, hfl⟩ := hH next hnl n hn hc
    rw [hf] at hfl
    have hroom := room_of_not_occupied g s next w hfl hocc
    have h1 : scopedCount g s' n v ≤ (w :: (sharedStarted g s next).filter (inScopeOf (g.node next).shape g w)).length := by
      unfold scopedCount
      apply length_le_of_nodup_subset ((nodup_sharedStarted g s' n).filter _)
      intro x hx
      rw [List.mem_filter] at hx
      rcases hold x hx.1 with h | ⟨h, _⟩
      · apply List.mem_cons_of_mem
        rw [List.mem_filter]
        refine ⟨?_, ?_⟩
        · rw [mem_sharedStarted] at h ⊢
          obtain ⟨i, hi, hs⟩ := h
          refine ⟨i, ?_, hs⟩
          rw [mem_copies g n i hn hf] at hi
          rw [mem_copies g next i hnl hfl]
          exact ⟨hi.1, hi.2.trans hc.symm⟩
        · rw [hsh, ← inScopeOf_trans _ g v w x hv]; exact hx.2
      · rw [h]; exact List.mem_cons_self ..
    have h2 := peakLimit_le_classLimit g s next hnl
    have h3 := limit_le_peakLimit g s next
    rw [hc] at h2
    simp only [List.length_cons] at h1
    unfold scopedCount at hroom
    omega
  · have h1 : scopedCount g s' n v ≤ scopedCount g s n v := by
      unfold scopedCount
      apply length_le_of_nodup_subset ((nodup_sharedStarted g s' n).filter _)
      intro x hx
      rw [List.mem_filter] at hx ⊢
      rcases hold x hx.1 with h | ⟨h, h'⟩
      · exact ⟨h, hx.2⟩
      · exfalso; apply hv; exact ⟨h ▸ hx.2, h'⟩
    omega

theorem inv_le (g : Graph) (s s' : State) (hI : Inv g s) (h : Le s s') : Inv g s' := by
  intro n hn hf v
  have hcl := classLimit_mono g s s' (g.node n).cls (fun i => (h i).2)
  have hInv := hI n hn hf v
  have h1 : scopedCount g s' n v ≤ scopedCount g s n v := by
    unfold scopedCount
    apply length_le_of_nodup_subset ((nodup_sharedStarted g s' n).filter _)
    intro x hx
    rw [List.mem_filter] at hx ⊢
    refine ⟨?_, hx.2⟩
    have := hx.1
    rw [mem_sharedStarted] at this ⊢
    obtain ⟨i, hi, hs⟩ := this
    rcases (h i).1 with h' | h'
    · exact ⟨i, hi, h' ▸ hs⟩
    · rw [h'] at hs; cases hs
  omega

/-- entering: the `started := w` of `traverse_node` / `reverse_node` behind the occupation guard -/
theorem inv_enter (g : Graph) (s : State) (next w : Nat) (hH : Homog g) (hI : Inv g s)
    (hocc : isOccupied g s next w = false) :
    Inv g (s.setNd next (fun d => { d with started := some w })) := by
  apply inv_enter_abs g s _ next w hH hI hocc
  · intro i
    rcases nd_setNd_cases s next (fun d => { d with started := some w }) i with h | ⟨h1, _, h2⟩
    · rw [h]; exact Or.inl rfl
    · rw [h2]; exact Or.inr (Or.inr ⟨h1, rfl⟩)
  · intro i
    exact Nat.le_of_eq (nd_setNd_proj (·.bump) s next (fun d => { d with started := some w }) (fun _ => rfl) i).symm

/-! ## the visible graph has the same classes, shapes and thresholds -/

/-- two graphs that differ at most in their edges (and other fields the invariant does not read) -/
structure SameStatic (g g' : Graph) : Prop where
  len : g'.nodes.length = g.nodes.length
  workers : g'.workers = g.workers
  cls : ∀ i, (g'.node i).cls = (g.node i).cls
  shape : ∀ i, (g'.node i).shape = (g.node i).shape
  flat : ∀ i, (g'.node i).flat = (g.node i).flat
  mct : ∀ i, (g'.node i).mct = (g.node i).mct
  maxTries : ∀ i, (g'.node i).maxTries = (g.node i).maxTries

theorem sameStatic_vis (g : Graph) (s : State) : SameStatic g (vis g s) where
  len := by unfold vis; split <;> simp
  workers := by unfold vis; split <;> rfl
  cls i := by obtain ⟨su, cl, h, _⟩ := vis_node g s i; rw [h]
  shape i := by obtain ⟨su, cl, h, _⟩ := vis_node g s i; rw [h]
  flat i := by obtain ⟨su, cl, h, _⟩ := vis_node g s i; rw [h]
  mct i := by obtain ⟨su, cl, h, _⟩ := vis_node g s i; rw [h]
  maxTries i := by obtain ⟨su, cl, h, _⟩ := vis_node g s i; rw [h]

namespace SameStatic
variable {g g' : Graph} (h : SameStatic g g')
include h

theorem classNodes_eq (c : Nat) : g'.classNodes c = g.classNodes c := by
  unfold Graph.classNodes
  rw [h.len]
  apply List.filter_congr
  intro i _
  rw [h.cls]

theorem copies_eq (n : Nat) : g'.copies n = g.copies n := by
  unfold Graph.copies
  rw [h.flat, h.cls, h.classNodes_eq]

theorem sharedStarted_eq (s : State) (n : Nat) : sharedStarted g' s n = sharedStarted g s n := by
  unfold sharedStarted
  rw [h.copies_eq]

theorem inScopeOf_eq (sh : Shape) (w : Nat) : inScopeOf sh g' w = inScopeOf sh g w := by
  funext v
  unfold inScopeOf Graph.worker
  rw [h.workers]

theorem scopedCount_eq (s : State) (n w : Nat) : scopedCount g' s n w = scopedCount g s n w := by
  unfold scopedCount
  rw [h.sharedStarted_eq, h.shape, h.inScopeOf_eq]

theorem peakLimit_eq (s : State) (n : Nat) : peakLimit g' s n = peakLimit g s n := by
  unfold peakLimit limit limit0 mctOf
  simp only [h.mct, h.maxTries]

theorem limit_eq (s : State) (n : Nat) : limit g' s n = limit g s n := by
  unfold limit mctOf
  simp only [h.mct, h.maxTries]

theorem classLimit_eq (s : State) (c : Nat) : classLimit g' s c = classLimit g s c := by
  unfold classLimit
  rw [h.classNodes_eq]
  congr 1
  apply List.map_congr_left
  intro n _
  exact h.peakLimit_eq s n

theorem inv_iff (s : State) : Inv g' s ↔ Inv g s := by
  unfold Inv
  simp only [h.len, h.flat, h.cls, h.scopedCount_eq, h.classLimit_eq]

theorem homog_iff : Homog g' ↔ Homog g := by
  unfold Homog
  simp only [h.len, h.flat, h.cls, h.shape]

end SameStatic

theorem inv_vis (g : Graph) (s' s : State) : Inv (vis g s') s ↔ Inv g s := (sameStatic_vis g s').inv_iff s
theorem homog_vis (g : Graph) (s' : State) : Homog (vis g s') ↔ Homog g := (sameStatic_vis g s').homog_iff

/-! ## the helpers of the loop only remove marks -/

theorem le_pullLocations (g : Graph) (s : State) (n : Nat) : Le s (pullLocations g s n) := by
  unfold pullLocations
  split
  · exact Le.refl s
  · apply Le.foldl
    rintro s ⟨p, vms⟩
    apply Le.foldl
    intro s loc
    apply Le.foldl
    intro s vm
    exact Le.setNd s n _ (fun d => ⟨Or.inl rfl, Nat.le_refl _⟩)

theorem le_disableRerun (s : State) (n : Nat) : Le s (disableRerun s n) :=
  Le.setNd s n _ (fun _ => ⟨Or.inl rfl, Nat.le_refl _⟩)

theorem le_runDecision (g : Graph) (s : State) (n w : Nat) (b : Bool) (s1 : State) (e1 : List Event)
    (h : runDecision g s n w = .ok (b, s1, e1)) : Le s s1 := by
  rcases runDecision_state g s n w b s1 e1 h with h | h
  · rw [h]; exact Le.refl s
  · rw [h]; exact le_disableRerun s n

theorem le_syncStates (g : Graph) (s : State) (n w : Nat) (r : Option (List String)) : Le s (syncStates g s n w r).1 := by
  unfold syncStates
  dsimp only
  split
  · exact Le.refl s
  · split <;> exact Le.of_nd_eq (fun _ => rfl)

theorem le_produce (g : Graph) (s : State) (n w : Nat) : Le s (produce g s n w) := Le.of_nd_eq (fun _ => rfl)

theorem le_finishTraverse (s : State) (n w : Nat) : Le s (finishTraverse s n w) :=
  Le.setNd s n _ (fun _ => ⟨Or.inr rfl, Nat.le_refl _⟩)

theorem le_startTest (g : Graph) (s : State) (n w : Nat) (ph : Phase) (dir : Dir) : Le s (startTest g s n w ph dir).1 := by
  unfold startTest
  dsimp only
  split
  · exact Le.of_nd_eq (fun _ => rfl)
  · refine Le.trans (s' := { s with nextTag := s.nextTag + 1 }) (Le.of_nd_eq (fun _ => rfl)) ?_
    refine Le.trans (Le.setNd _ n (fun d => { d with results := d.results ++
      [{ name := (g.node n).name, status := "UNKNOWN", uid := "", tag := s.nextTag }] })
      (fun _ => ⟨Or.inl rfl, Nat.le_refl _⟩)) ?_
    exact Le.of_nd_eq (fun _ => rfl)

theorem le_pickChild (g : Graph) (s : State) (n w c : Nat) (s' : State) (h : pickChild g s n w = some (c, s')) : Le s s' :=
  Le.of_nd_eq (started_pickChild g s n w c s' h)

theorem le_pickParent (g : Graph) (s : State) (n w p : Nat) (s' : State) (h : pickParent g s n w = some (p, s')) : Le s s' :=
  Le.of_nd_eq (started_pickParent g s n w p s' h)

theorem le_setWd (s : State) (w : Nat) (f : WorkerD → WorkerD) : Le s (s.setWd w f) := Le.of_nd_eq (fun _ => rfl)

/-! ## the functions of the loop preserve the invariant -/

theorem inv_reverseNode (g : Graph) (s : State) (n w : Nat) (s' : State) (evs : List Event) (hH : Homog g) (hI : Inv g s)
    (h : reverseNode g s n w = .ok (s', evs)) : Inv g s' := by
  unfold reverseNode at h
  by_cases hocc : isOccupied g s n w = true
  · simp only [hocc, if_true, Except.ok.injEq, Prod.mk.injEq] at h
    rw [← h.1]; exact hI
  · have hocc' : isOccupied g s n w = false := by simpa using hocc
    have hI1 := inv_enter g s n w hH hI hocc'
    simp only [hocc, Bool.false_eq_true, if_false, ite_self] at h
    split at h
    · cases h
    · next clean hcd =>
      by_cases hc : (clean && !(g.node n).sets.isEmpty) = true
      · simp only [hc, if_true, Except.ok.injEq, Prod.mk.injEq] at h
        rw [← h.1]
        exact inv_le g _ _ hI1 ((le_syncStates g _ n w none).trans (Le.setNd _ n _ (fun _ => ⟨Or.inr rfl, Nat.le_refl _⟩)))
      · simp only [hc, Bool.false_eq_true, if_false, Except.ok.injEq, Prod.mk.injEq] at h
        rw [← h.1]
        exact inv_le g _ _ hI1 (Le.setNd _ n _ (fun _ => ⟨Or.inr rfl, Nat.le_refl _⟩))

theorem inv_afterTraverse (g : Graph) (s : State) (w next prev : Nat) (dir : Dir) (hH : Homog g) (hI : Inv g s) :
    Inv g (afterTraverse g s w next prev dir).1 := by
  unfold afterTraverse
  cases hrd : runDecision g s next w with
  | error e => exact hI
  | ok r =>
    obtain ⟨run, s1, evs⟩ := r
    have hI1 : Inv g s1 := inv_le g s s1 hI (le_runDecision g s next w run s1 evs hrd)
    cases dir with
    | up =>
      dsimp only
      apply inv_le g s1 _ hI1
      apply Le.of_nd_eq
      intro i
      cases run <;> rfl
    | down =>
      dsimp only
      by_cases hrun : run = true
      · simp only [hrun, if_true]
        exact inv_le g s1 _ hI1 (le_setWd _ _ _)
      · simp only [hrun, Bool.false_eq_true, if_false]
        by_cases hc : isCleanupReady g s1 next w = true
        · simp only [hc, if_true]
          have hI2 : Inv g ((g.node next).setup.foldl (fun s x => dropChild g s x.1 next w) s1) :=
            inv_le g s1 _ hI1 (Le.foldl (fun s (x : Nat × List String) => dropChild g s x.1 next w)
              (fun _ _ => Le.of_nd_eq (fun _ => rfl)) _ _)
          split
          · exact inv_le g s1 _ hI1 (le_setWd _ _ _)
          · split
            · exact hI2
            · next s3 e3 hrev =>
              exact inv_le g s3 _ (inv_reverseNode g _ next w s3 e3 hH hI2 hrev) (le_setWd _ _ _)
        · simp only [hc, Bool.false_eq_true, if_false]
          split
          · exact hI1
          · next c s3 hp =>
            exact inv_le g s1 _ hI1 ((le_pickChild g s1 next w c s3 hp).trans (le_setWd _ _ _))

/-- the same on the visible graph of any state -/
theorem inv_afterTraverse_vis (g : Graph) (sv s : State) (w next prev : Nat) (dir : Dir) (hH : Homog g) (hI : Inv g s) :
    Inv g (afterTraverse (vis g sv) s w next prev dir).1 :=
  (inv_vis g sv _).mp (inv_afterTraverse (vis g sv) s w next prev dir ((homog_vis g sv).mpr hH) ((inv_vis g sv s).mpr hI))

theorem inv_startTest (g : Graph) (s : State) (n w : Nat) (ph : Phase) (dir : Dir) (hI : Inv g s) :
    Inv g (startTest g s n w ph dir).1 := inv_le g s _ hI (le_startTest g s n w ph dir)

theorem inv_traverseNode (g : Graph) (s : State) (w next prev : Nat) (dir : Dir) (hH : Homog g) (hI : Inv g s) :
    Inv g (traverseNode g s w next prev dir).1 := by
  unfold traverseNode
  by_cases hocc : isOccupied g s next w = true
  · simp only [hocc, if_true]
    exact inv_afterTraverse g s w next prev dir hH hI
  · have hocc' : isOccupied g s next w = false := by simpa using hocc
    have hI1 := inv_enter g s next w hH hI hocc'
    have hI2 := inv_le g _ _ hI1 (le_pullLocations g (s.setNd next (fun d => { d with started := some w })) next)
    simp only [hocc, Bool.false_eq_true, if_false]
    split
    · exact hI2
    · next run s1 evs hrd =>
      have hI3 : Inv g s1 := inv_le g _ s1 hI2 (le_runDecision g _ next w run s1 evs hrd)
      split
      · split
        · exact inv_startTest g _ next w .pre dir (inv_le g s1 _ hI3 (le_setWd s1 w _))
        · exact inv_startTest g s1 next w .plain dir hI3
      · exact inv_afterTraverse g (finishTraverse s1 next w) w next prev dir hH (inv_le g s1 _ hI3 (le_finishTraverse s1 next w))

theorem inv_iter (g : Graph) (s : State) (w : Nat) (hH : Homog g) (hI : Inv g s) : Inv g (iter g s w).1 := by
  unfold iter
  dsimp only
  split
  · split
    · exact inv_le g s _ hI (le_setWd _ _ _)
    · exact hI
  · split
    · exact hI
    · next nxt hlast =>
      split
      · split
        · exact hI
        · next c s1 hp => exact inv_le g s _ hI ((le_pickChild g s nxt w c s1 hp).trans (le_setWd _ _ _))
      · split
        · -- the bounce: the only place where `bump` is written
          apply inv_le g s _ hI
          refine Le.trans ?_ (le_setWd _ _ _)
          split
          · refine Le.trans ?_ (le_setWd _ _ _)
            split
            · exact Le.setNd _ _ _ (fun d => ⟨Or.inl rfl, Nat.le_succ _⟩)
            · exact Le.refl _
          · exact le_setWd _ _ _
        · split
          · split
            · exact inv_traverseNode g s w nxt _ .up hH hI
            · split
              · exact hI
              · next p s1 hp => exact inv_le g s _ hI ((le_pickParent g s nxt w p s1 hp).trans (le_setWd _ _ _))
          · split
            · split
              · split
                · exact hI
                · next p s1 hp => exact inv_le g s _ hI ((le_pickParent g s nxt w p s1 hp).trans (le_setWd _ _ _))
              · exact inv_traverseNode g s w nxt _ .down hH hI
            · exact hI

theorem le_reveal (g : Graph) (s : State) (f w : Nat) : Le s (reveal g s f w) := by
  unfold reveal
  dsimp only
  split <;> exact Le.of_nd_eq (fun _ => rfl)

/-- the lazy expansion step changes `hidden`, `incompatible` and a worker flag only -/
theorem le_prepare (g : Graph) (s : State) (w : Nat) : Le s (prepare g s w) := by
  unfold prepare
  dsimp only
  split
  · exact Le.refl s
  · split
    · exact (le_setWd s w _).trans (le_reveal g _ _ w)
    · exact le_setWd s w _

/-- an iteration with the lazy expansion step: `iter` on the visible graph, which has the same classes, shapes and
thresholds as the full one -/
theorem inv_iterL (g : Graph) (s : State) (w : Nat) (hH : Homog g) (hI : Inv g s) : Inv g (iterL g s w).1 := by
  unfold iterL
  split
  · exact (inv_vis g s _).mp (inv_iter (vis g s) s w ((homog_vis g s).mpr hH) ((inv_vis g s s).mpr hI))
  · dsimp only
    have hI1 := inv_le g s _ hI (le_prepare g s w)
    exact (inv_vis g (prepare g s w) _).mp
      (inv_iter (vis g (prepare g s w)) (prepare g s w) w ((homog_vis g _).mpr hH) ((inv_vis g _ _).mpr hI1))

theorem inv_runLoop (g : Graph) (w : Nat) (hH : Homog g) (fuel : Nat) (s : State) (evs : List Event) (hI : Inv g s) :
    Inv g (runLoop g w fuel s evs).1 := by
  induction fuel generalizing s evs with
  | zero => exact hI
  | succ fuel ih =>
    unfold runLoop
    dsimp only
    have hI1 := inv_iterL g _ w hH (inv_le g s _ hI (le_setWd s w (fun d => { d with pc := .loop })))
    split
    · next s1 e heq => rw [heq] at hI1; exact ih s1 _ hI1
    · next s1 e heq => rw [heq] at hI1; exact hI1
    · next s1 e heq => rw [heq] at hI1; exact hI1
    · next s1 e what heq => rw [heq] at hI1; exact inv_le g s1 _ hI1 (le_setWd _ _ _)

/-! ## the second half of `run_test_node`

`resumeTest` is factored (definitionally, `resumeTest_eq` is `rfl`; the model itself is unchanged) into the stub's
report, the replacement of the placeholder by the found result, and the continuation. -/

/-- first block of the second half of `run_test_node`: the stub's report -/
def reportOutcome (g : Graph) (s : State) (w n : Nat) (phase : Phase) (uid : String) (wait : Nat) (out : Outcome) :
    State × List Event :=
  let wid := (g.worker w).id
  let name := if phase == .pre then (s.wd w).preName else (g.node n).name
  if wait == 0 then
    match out.status with
    | some st =>
      let s := { s with jobResults := s.jobResults ++ [(name, uid, st, out.dur)] }
      let s := if (st == "PASS" || st == "WARN") && phase != .pre then produce g s n w else s
      (s, [Event.finish wid (clsName g n phase) uid st])
    | none => (s, [Event.finish wid (clsName g n phase) uid "NONE"])
  else (s, [])

/-- the found result replaces the placeholder; returns the state and whether the status counts as success -/
def recordResult (s : State) (w n : Nat) (phase : Phase) (name uid : String) (tag : Nat) (st0 : String) (dur : Nat) :
    State × Bool :=
  let prior := if phase == .pre then (s.wd w).preResults else (s.nd n).results
  let maxAllowed := ((prior.filter (·.status == "PASS")).map (·.dur)).foldl max 0
  let maxAllowed := if (prior.filter (·.status == "PASS")).isEmpty then dur else maxAllowed
  let st := if st0 == "PASS" && 4 * dur > 5 * maxAllowed then "WARN" else st0
  let s := if st != st0 then
      { s with jobResults := s.jobResults.map (fun r => if r.1 == name && r.2.1 == uid then (r.1, r.2.1, st, r.2.2.2) else r) }
    else s
  let res : Result := { name := name, status := st, uid := uid, dur := dur }
  let s :=
    if phase == .pre then
      s.setWd w (fun d => { d with preResults := (d.preResults ++ [res]).filter (fun r => !(r.status == "UNKNOWN" && r.tag == tag)) })
    else
      s.setNd n (fun d => { d with results := (d.results ++ [res]).filter (fun r => !(r.status == "UNKNOWN" && r.tag == tag)) })
  (s, !(lower st == "error" || lower st == "fail"))

theorem resumeTest_eq (g : Graph) (s : State) (w n : Nat) (phase : Phase) (dir : Dir) (uid : String) (tag wait : Nat)
    (out : Outcome) (fuel : Nat) :
    resumeTest g s w n phase dir uid tag wait out fuel =
      (match (reportOutcome g s w n phase uid wait out).1.jobResults.find?
          (fun r => r.1 == (if phase == .pre then (s.wd w).preName else (g.node n).name) && r.2.1 == uid) with
       | some (_, _, st0, dur) =>
         resumeTest.continueAfter g w n phase dir fuel
           (recordResult (reportOutcome g s w n phase uid wait out).1 w n phase
             (if phase == .pre then (s.wd w).preName else (g.node n).name) uid tag st0 dur).1
           (recordResult (reportOutcome g s w n phase uid wait out).1 w n phase
             (if phase == .pre then (s.wd w).preName else (g.node n).name) uid tag st0 dur).2
           (reportOutcome g s w n phase uid wait out).2
       | none =>
         if wait + 1 < 10 then
           ((reportOutcome g s w n phase uid wait out).1.setWd w (fun d => { d with pc := .test n phase dir uid tag (wait + 1) }),
            (reportOutcome g s w n phase uid wait out).2 ++ [Event.sleep (g.worker w).id 3000])
         else if wait + 1 == 10 then
           ((reportOutcome g s w n phase uid wait out).1.setWd w (fun d => { d with pc := .test n phase dir uid tag (wait + 1) }),
            (reportOutcome g s w n phase uid wait out).2 ++ [Event.sleep (g.worker w).id 3000])
         else resumeTest.continueAfter g w n phase dir fuel (reportOutcome g s w n phase uid wait out).1 false
           (reportOutcome g s w n phase uid wait out).2) := rfl

theorem le_reportOutcome (g : Graph) (s : State) (w n : Nat) (phase : Phase) (uid : String) (wait : Nat) (out : Outcome) :
    Le s (reportOutcome g s w n phase uid wait out).1 := by
  unfold reportOutcome
  dsimp only
  split
  · split
    · split <;> exact Le.of_nd_eq (fun _ => rfl)
    · exact Le.refl s
  · exact Le.refl s

theorem le_recordResult (s : State) (w n : Nat) (phase : Phase) (name uid : String) (tag : Nat) (st0 : String) (dur : Nat) :
    Le s (recordResult s w n phase name uid tag st0 dur).1 := by
  unfold recordResult
  dsimp only
  have hX : ∀ (c : Bool) (jr : List (String × String × String × Nat)),
      Le s (if c = true then { s with jobResults := jr } else s) := by
    intro c jr
    cases c
    · exact Le.refl s
    · exact Le.of_nd_eq (fun _ => rfl)
  by_cases hp : (phase == Phase.pre) = true
  · simp only [hp, if_true]
    exact (hX _ _).trans (le_setWd _ _ _)
  · simp only [hp, Bool.false_eq_true, if_false]
    exact (hX _ _).trans (Le.setNd _ n _ (fun _ => ⟨Or.inl rfl, Nat.le_refl _⟩))

theorem inv_continueAfter (g : Graph) (w n : Nat) (phase : Phase) (dir : Dir) (fuel : Nat) (s : State) (ok : Bool)
    (evs : List Event) (hH : Homog g) (hI : Inv g s) :
    Inv g (resumeTest.continueAfter g w n phase dir fuel s ok evs).1 := by
  unfold resumeTest.continueAfter
  dsimp only
  split
  · exact inv_startTest g s n w .main dir hI
  · have hI1 : Inv g (if (phase == Phase.pre) = true then
          s.setNd n (fun d => { d with results := d.results ++ (s.wd w).preResults.drop d.results.length })
        else s) := by
      split
      · exact inv_le g s _ hI (Le.setNd _ n _ (fun _ => ⟨Or.inl rfl, Nat.le_refl _⟩))
      · exact hI
    have hI2 : ∀ sv, Inv g (afterTraverse (vis g sv) (finishTraverse (if (phase == Phase.pre) = true then
          s.setNd n (fun d => { d with results := d.results ++ (s.wd w).preResults.drop d.results.length })
        else s) n w) w n ((s.wd w).path.getD ((s.wd w).path.length - 2) 0) dir).1 := fun sv =>
      inv_afterTraverse_vis g sv _ w n _ dir hH (inv_le g _ _ hI1 (le_finishTraverse _ n w))
    split
    · next s1 e2 what heq =>
      have h3 := congrArg Prod.fst heq
      dsimp only at h3
      rw [← h3]
      exact inv_le g _ _ (hI2 _) (le_setWd _ _ _)
    · next s1 e2 f _ heq =>
      have h3 := congrArg Prod.fst heq
      dsimp only at h3
      rw [← h3]
      exact inv_runLoop g w hH fuel _ _ (hI2 _)

theorem inv_resumeTest (g : Graph) (s : State) (w n : Nat) (phase : Phase) (dir : Dir) (uid : String) (tag wait : Nat)
    (out : Outcome) (fuel : Nat) (hH : Homog g) (hI : Inv g s) :
    Inv g (resumeTest g s w n phase dir uid tag wait out fuel).1 := by
  rw [resumeTest_eq]
  have hI1 := inv_le g s _ hI (le_reportOutcome g s w n phase uid wait out)
  split
  · next st0 dur _ =>
    exact inv_continueAfter g w n phase dir fuel _ _ _ hH (inv_le g _ _ hI1 (le_recordResult _ w n phase _ uid tag st0 dur))
  · split
    · exact inv_le g _ _ hI1 (le_setWd _ _ _)
    · split
      · exact inv_le g _ _ hI1 (le_setWd _ _ _)
      · exact inv_continueAfter g w n phase dir fuel _ _ _ hH hI1

/-- one scheduler step: worker `w` runs from its suspension point to the next one -/
theorem inv_resume (g : Graph) (s : State) (w : Nat) (out : Outcome) (fuel : Nat) (hH : Homog g) (hI : Inv g s) :
    Inv g (resume g s w out fuel).1 := by
  unfold resume
  split
  · exact inv_runLoop g w hH fuel s [] hI
  · exact inv_runLoop g w hH fuel s [] hI
  · exact inv_resumeTest g s w _ _ _ _ _ _ out fuel hH hI
  · exact hI
  · exact hI

theorem sharedStarted_initState (g : Graph) (ncls : Nat) (store : List (String × List (String × String)))
    (hidden : List Nat) (n : Nat) : sharedStarted g (initState g ncls store hidden) n = [] := by
  have h : ∀ i, ((initState g ncls store hidden).nd i).started = none := by
    intro i
    unfold initState State.nd
    simp only [List.getD_eq_getElem?_getD, List.getElem?_map]
    cases g.nodes[i]? <;> rfl
  unfold sharedStarted
  have : (g.copies n).filterMap (fun i => ((initState g ncls store hidden).nd i).started) = [] := by
    simp [List.filterMap_eq_nil_iff, h]
  rw [this]; rfl

theorem inv_initState (g : Graph) (ncls : Nat) (store : List (String × List (String × String))) (hidden : List Nat) :
    Inv g (initState g ncls store hidden) := by
  intro n _ _ w
  unfold scopedCount
  rw [sharedStarted_initState]
  exact Nat.zero_le _

/-! ## reachability and the corollaries' vocabulary -/

/-- the states the scheduler can produce: an initial state (with any set of not yet parsed `hidden` nodes; `[]` for a
pre-parsed graph) followed by any finite sequence of `resume` steps of any workers with any outcomes (and any fuel) -/
inductive Reachable (g : Graph) (ncls : Nat) (store : List (String × List (String × String))) : State → Prop
  | init (hidden : List Nat) : Reachable g ncls store (initState g ncls store hidden)
  | step (s : State) (w : Nat) (out : Outcome) (fuel : Nat) :
      Reachable g ncls store s → Reachable g ncls store (resume g s w out fuel).1

/-- running a schedule: a list of (worker, outcome of the awaited test) -/
def runSchedule (g : Graph) (fuel : Nat) (s : State) (l : List (Nat × Outcome)) : State :=
  l.foldl (fun s p => (resume g s p.1 p.2 fuel).1) s

theorem reachable_runSchedule (g : Graph) (ncls : Nat) (store : List (String × List (String × String))) (fuel : Nat)
    (l : List (Nat × Outcome)) (s : State) (h : Reachable g ncls store s) : Reachable g ncls store (runSchedule g fuel s l) := by
  induction l generalizing s with
  | nil => exact h
  | cons p l ih => exact ih _ (Reachable.step s p.1 p.2 fuel h)

/-- no copy has been bumped (no bounce outlasted the budget of the node it waited for) -/
def NoBump (s : State) : Prop := ∀ i, (s.nd i).bump = 0

/-- the threshold of every copy can only grow: `max_concurrent_tries` is configured or `max_tries ≤ 1` -/
def MonoLimits (g : Graph) : Prop :=
  ∀ n, n < g.nodes.length → (g.node n).mct.isSome = true ∨ (g.node n).maxTries.getD 1 ≤ 1

instance (g : Graph) : Decidable (MonoLimits g) := by unfold MonoLimits; infer_instance

/-- the maximum over the copies of class `c` of the thresholds currently in force -/
def classLimitNow (g : Graph) (s : State) (c : Nat) : Nat :=
  ((g.classNodes c).map (limit g s)).foldr max 0

theorem foldr_max_le {α} (l : List α) (f : α → Nat) (B : Nat) (h : ∀ x ∈ l, f x ≤ B) : (l.map f).foldr max 0 ≤ B := by
  induction l with
  | nil => simp
  | cons b l ih =>
    simp only [List.map_cons, List.foldr_cons]
    have h1 := h b (List.mem_cons_self ..)
    have h2 := ih (fun x hx => h x (List.mem_cons_of_mem _ hx))
    omega

theorem peakLimit_noBump (g : Graph) (s : State) (n : Nat) (h : (s.nd n).bump = 0) : peakLimit g s n = limit0 g n := by
  unfold peakLimit limit limit0 mctOf
  simp [h]

theorem peakLimit_mono_limits (g : Graph) (s : State) (n : Nat)
    (h : (g.node n).mct.isSome = true ∨ (g.node n).maxTries.getD 1 ≤ 1) : peakLimit g s n = limit g s n := by
  unfold peakLimit limit limit0 mctOf
  dsimp only
  cases hm : (g.node n).mct with
  | some m => simp only [Option.getD_some]; split <;> omega
  | none =>
    simp only [hm, Option.isSome_none, Bool.false_eq_true, false_or] at h
    simp only [Option.getD_none]
    split <;> omega

theorem classLimit_noBump_le (g : Graph) (s : State) (c B : Nat) (hb : NoBump s)
    (h : ∀ m, m < g.nodes.length → (g.node m).cls = c → limit0 g m ≤ B) : classLimit g s c ≤ B := by
  unfold classLimit
  apply foldr_max_le
  intro m hm
  rw [mem_classNodes] at hm
  rw [peakLimit_noBump g s m (hb m)]
  exact h m hm.1 hm.2

theorem classLimit_eq_now (g : Graph) (s : State) (c : Nat) (h : MonoLimits g) : classLimit g s c = classLimitNow g s c := by
  unfold classLimit classLimitNow
  congr 1
  apply List.map_congr_left
  intro m hm
  rw [mem_classNodes] at hm
  exact peakLimit_mono_limits g s m (h m hm.1)

theorem inScopeOf_self (sh : Shape) (g : Graph) (w : Nat) : inScopeOf sh g w w = true := by
  cases sh <;> simp [inScopeOf]

/-- a count of at most one means: two marks of the class held within one scope belong to the same worker -/
theorem same_worker_of_count_le_one (g : Graph) (s : State) (n i j v v' : Nat)
    (h : scopedCount g s n v ≤ 1) (hi : i ∈ g.copies n) (hj : j ∈ g.copies n)
    (hv : (s.nd i).started = some v) (hv' : (s.nd j).started = some v')
    (hsc : inScopeOf (g.node n).shape g v v' = true) : v = v' := by
  apply Classical.byContradiction
  intro hne
  have : [v, v'].length ≤ ((sharedStarted g s n).filter (inScopeOf (g.node n).shape g v)).length := by
    apply length_le_of_nodup_subset
    · simp [hne]
    · intro x hx
      simp only [List.mem_cons, List.not_mem_nil, or_false] at hx
      rw [List.mem_filter]
      rcases hx with rfl | rfl
      · exact ⟨(mem_sharedStarted g s n x).mpr ⟨i, hi, hv⟩, inScopeOf_self _ g x⟩
      · exact ⟨(mem_sharedStarted g s n x).mpr ⟨j, hj, hv'⟩, hsc⟩
  unfold scopedCount at h
  simp only [List.length_cons, List.length_nil] at this
  omega

end I2N.Trav
