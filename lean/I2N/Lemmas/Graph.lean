import I2N.Model.Graph
/-!
Prop-level statement of C06 (`WF`) over an extracted graph and the soundness of every clause of the checker
`Graph.wellFormed` of `I2N/Model/Graph.lean`.
-/
namespace I2N.Graph

/-- `c` depends on `p`: some entry of `c._setup_nodes` names `p` -/
def Graph.IsEdge (g : Graph) (c p : Nat) : Prop := ∃ e ∈ g.setup, e.child = c ∧ e.parent = p

/-- `a` is a proper ancestor of `c` (a setup path of any positive length) -/
inductive Graph.Reach (g : Graph) : Nat → Nat → Prop
  | edge {c p : Nat} : g.IsEdge c p → g.Reach c p
  | step {c p a : Nat} : g.IsEdge c p → g.Reach p a → g.Reach c a

/-- Prop form of `producerOK` -/
def ProducerOK (w : String) (o : Obj) (p : Node) : Prop :=
  p.flat = false ∧ p.worker = w ∧
  ∃ po, p.obj? o.oid = some po ∧ po.setState ≠ "" ∧
    (po.setState = o.getState ∨ o.getState = "0root" ∨ p.objectRoot = o.oid)

/-- The parsed dependency graph is well formed (property C06, clause by clause). -/
structure WF (g : Graph) : Prop where
  /-- no two nodes with the same identity -/
  ids_nodup : (g.nodes.map (·.id)).Nodup
  /-- every dependency connects two nodes of the graph, never a node with itself -/
  in_range : ∀ e ∈ g.setup, e.child < g.size ∧ e.parent < g.size ∧ e.child ≠ e.parent
  /-- every dependency is recorded on both of its ends -/
  symmetric : ∀ e, e ∈ g.setup ↔ e ∈ g.cleanup
  /-- acyclic: no node is its own proper ancestor, for paths of any length -/
  acyclic : ∀ n, ¬ g.Reach n n
  /-- exactly one starting node (a node without setup), it is the one shared root, and every other node
      reaches it — i.e. (edges being symmetric) every node is reachable from it -/
  single_root : ∃ r, r < g.size ∧ (∀ i, i < g.size → (g.parents i = [] ↔ i = r)) ∧
      (∀ i, i < g.size → i ≠ r → g.Reach i r) ∧
      (∀ i n, g.nodes[i]? = some n → (n.sharedRoot = true ↔ i = r))
  /-- for each object state a (composite, runnable) test requires there is exactly one parent, of the same
      worker and with the same object variant, producing exactly that state (or the object's creation node) -/
  unique_producer : ∀ c n, g.nodes[c]? = some n → n.flat = false → n.cloneSource = false →
      ∀ o ∈ n.objs, o.get ≠ "" →
        ∃ p pn, g.parentsVia c o.oid = [p] ∧ g.nodes[p]? = some pn ∧ ProducerOK n.worker o pn
  /-- every dependency on a composite parent goes through an object both ends have, within one worker, and the
      parent provides a state for it -/
  edge_objects : ∀ e ∈ g.setup, ∀ c p, g.nodes[e.child]? = some c → g.nodes[e.parent]? = some p → p.flat = false →
      c.flat = false ∧ c.worker = p.worker ∧ (c.obj? e.obj).isSome = true ∧
      ∃ po, p.obj? e.obj = some po ∧ po.setState ≠ ""
  /-- a test uses exactly one network object and the vms its parameters name -/
  one_net : ∀ n ∈ g.nodes, n.flat = false →
      ∃ net, n.nets = [net] ∧ n.paramNets = [net] ∧ sortStrings n.vms = n.paramVms
  /-- sources of clones are never runnable, and the clone relation agrees with the flag -/
  clone_sources : (∀ n ∈ g.nodes, n.cloneSource = true → n.mayRun = false) ∧
      (∀ sc ∈ g.clones, ∃ s c, g.nodes[sc.1]? = some s ∧ g.nodes[sc.2]? = some c ∧ s.cloneSource = true ∧
         s.mayRun = false ∧ c.flat = false ∧ c.worker = s.worker)

/-! ## clause by clause -/

theorem idsNodup_sound : ∀ l : List String, idsNodup l = true → l.Nodup
  | [], _ => List.nodup_nil
  | x :: xs, h => by
    simp only [idsNodup, Bool.and_eq_true, Bool.not_eq_true', List.contains_eq_mem,
      decide_eq_false_iff_not] at h
    exact List.nodup_cons.mpr ⟨h.1, idsNodup_sound xs h.2⟩

theorem findDuplicateId_sound : ∀ (l : List String) (x : String), findDuplicateId l = some x → ¬ l.Nodup
  | [], _, h => by simp [findDuplicateId] at h
  | y :: ys, x, h => by
    simp only [findDuplicateId] at h
    split at h
    · rename_i hc
      simp only [List.contains_eq_mem, decide_eq_true_eq] at hc
      intro hn
      exact (List.nodup_cons.mp hn).1 hc
    · intro hn
      exact findDuplicateId_sound ys x h (List.nodup_cons.mp hn).2

theorem checkRange_sound (g : Graph) (h : g.checkRange = true) :
    ∀ e ∈ g.setup, e.child < g.size ∧ e.parent < g.size ∧ e.child ≠ e.parent := by
  intro e he
  simp only [Graph.checkRange, Bool.and_eq_true, List.all_eq_true, decide_eq_true_eq, bne_iff_ne] at h
  have := h.1 e he
  exact ⟨this.1.1, this.1.2, this.2⟩

theorem checkSymmetric_sound (g : Graph) (h : g.checkSymmetric = true) :
    ∀ e, e ∈ g.setup ↔ e ∈ g.cleanup := by
  simp only [Graph.checkSymmetric, Bool.and_eq_true, List.all_eq_true, List.contains_eq_mem,
    decide_eq_true_eq] at h
  exact fun e => ⟨h.1 e, h.2 e⟩

/-! ### acyclicity -/

theorem rank_decreases (g : Graph) (rank : List Nat) (h : g.rankOK rank = true) :
    ∀ c a, g.Reach c a → rank.getD a 0 < rank.getD c 0 := by
  simp only [Graph.rankOK, List.all_eq_true, decide_eq_true_eq] at h
  intro c a hr
  induction hr with
  | edge he =>
    obtain ⟨e, hm, hc, hp⟩ := he
    have := h e hm
    rw [hc, hp] at this
    exact this
  | step he _ ih =>
    obtain ⟨e, hm, hc, hp⟩ := he
    have := h e hm
    rw [hc, hp] at this
    exact Nat.lt_trans ih this

/-- A strictly decreasing rank along every edge excludes cycles of every length. -/
theorem rankOK_acyclic (g : Graph) (rank : List Nat) (h : g.rankOK rank = true) : ∀ n, ¬ g.Reach n n :=
  fun n hr => Nat.lt_irrefl _ (rank_decreases g rank h n n hr)

theorem isEdge_iff (g : Graph) (c p : Nat) : g.isEdge c p = true ↔ g.IsEdge c p := by
  simp only [Graph.isEdge, List.any_eq_true, Bool.and_eq_true, beq_iff_eq, Graph.IsEdge]

theorem mem_parents (g : Graph) (c p : Nat) : p ∈ g.parents c ↔ g.IsEdge c p := by
  simp only [Graph.parents, List.mem_map, List.mem_filter, beq_iff_eq, Graph.IsEdge]
  constructor
  · rintro ⟨e, ⟨hm, hc⟩, hp⟩; exact ⟨e, hm, hc, hp⟩
  · rintro ⟨e, hm, hc, hp⟩; exact ⟨e, ⟨hm, hc⟩, hp⟩

/-- the witness side: a checked closed walk is a cycle -/
theorem isWalk_reach (g : Graph) : ∀ (l : List Nat) (a b : Nat), g.isWalk (a :: l ++ [b]) = true →
    g.Reach a b
  | [], a, b, h => by
    simp only [List.nil_append, List.cons_append, Graph.isWalk, Bool.and_eq_true] at h
    exact .edge ((isEdge_iff g a b).mp h.1)
  | x :: l, a, b, h => by
    simp only [List.cons_append, Graph.isWalk, Bool.and_eq_true] at h
    exact .step ((isEdge_iff g a x).mp h.1) (isWalk_reach g l x b (by simpa [Graph.isWalk] using h.2))

/-! ### the root -/

theorem mem_roots (g : Graph) (i : Nat) : i ∈ g.roots ↔ i < g.size ∧ g.parents i = [] := by
  simp only [Graph.roots, List.mem_filter, List.mem_range, List.isEmpty_iff]

theorem reach_root (g : Graph) (rank : List Nat) (hrank : g.rankOK rank = true)
    (hrange : ∀ e ∈ g.setup, e.child < g.size ∧ e.parent < g.size ∧ e.child ≠ e.parent)
    (r : Nat) (hroot : ∀ i, i < g.size → (g.parents i = [] ↔ i = r)) :
    ∀ k i, rank.getD i 0 ≤ k → i < g.size → i ≠ r → g.Reach i r := by
  intro k
  induction k with
  | zero =>
    intro i hk hi hne
    have hp : g.parents i ≠ [] := fun h => hne ((hroot i hi).mp h)
    obtain ⟨p, hp⟩ := List.exists_mem_of_ne_nil _ hp
    have he := (mem_parents g i p).mp hp
    have := rank_decreases g rank hrank i p (.edge he)
    omega
  | succ k ih =>
    intro i hk hi hne
    have hp : g.parents i ≠ [] := fun h => hne ((hroot i hi).mp h)
    obtain ⟨p, hp⟩ := List.exists_mem_of_ne_nil _ hp
    have he := (mem_parents g i p).mp hp
    have hlt := rank_decreases g rank hrank i p (.edge he)
    obtain ⟨e, hm, hc, hpp⟩ := he
    have hps : p < g.size := by have := (hrange e hm).2.1; rw [hpp] at this; exact this
    by_cases hpr : p = r
    · subst hpr; exact .edge ⟨e, hm, hc, hpp⟩
    · exact .step ⟨e, hm, hc, hpp⟩ (ih p (by omega) hps hpr)

theorem checkRoot_sound (g : Graph) (h : g.checkRoot = true) :
    ∃ r, g.roots = [r] ∧ (∀ i n, g.nodes[i]? = some n → (n.sharedRoot = true ↔ i = r)) := by
  unfold Graph.checkRoot at h
  split at h
  · rename_i r hr
    refine ⟨r, hr, ?_⟩
    simp only [Bool.and_eq_true, List.all_eq_true, List.mem_range, Bool.or_eq_true, beq_iff_eq,
      Bool.not_eq_true'] at h
    intro i n hn
    have hi : i < g.size := by
      have := (List.getElem?_eq_some_iff.mp hn).1; exact this
    constructor
    · intro hs
      rcases h.2 i hi with h1 | h1
      · exact h1
      · rw [hn] at h1; simp [hs] at h1
    · intro hir
      subst hir
      have := h.1
      rw [hn] at this
      simpa using this
  · exact absurd h (by simp)

/-! ### producers -/

theorem producerOK_iff (w : String) (o : Obj) (p : Node) : producerOK w o p = true ↔ ProducerOK w o p := by
  unfold producerOK ProducerOK
  cases hpo : p.obj? o.oid with
  | none => simp
  | some po =>
    simp only [Bool.and_eq_true, Bool.not_eq_true', beq_iff_eq, bne_iff_ne, ne_eq, Bool.or_eq_true,
      Option.some.injEq, exists_eq_left']
    constructor
    · rintro ⟨⟨h1, h2⟩, h3, h4⟩
      exact ⟨h1, h2, h3, by rcases h4 with (h4 | h4) | h4 <;> simp [h4]⟩
    · rintro ⟨h1, h2, h3, h4⟩
      exact ⟨⟨h1, h2⟩, h3, by rcases h4 with h4 | h4 | h4 <;> simp [h4]⟩

theorem allIdx_get {α : Type} (f : Nat → α → Bool) : ∀ (l : List α) (k : Nat), allIdx f k l = true →
    ∀ i x, l[i]? = some x → f (k + i) x = true
  | [], _, _, i, x, hx => by simp at hx
  | y :: ys, k, h, i, x, hx => by
    simp only [allIdx, Bool.and_eq_true] at h
    cases i with
    | zero => simp only [List.getElem?_cons_zero, Option.some.injEq] at hx; subst hx; simpa using h.1
    | succ i =>
      simp only [List.getElem?_cons_succ] at hx
      have := allIdx_get f ys (k + 1) h.2 i x hx
      rw [show k + (i + 1) = k + 1 + i by omega]; exact this

theorem checkProducers_sound (g : Graph) (h : g.checkProducers = true) :
    ∀ c n, g.nodes[c]? = some n → n.flat = false → n.cloneSource = false →
      ∀ o ∈ n.objs, o.get ≠ "" →
        ∃ p pn, g.parentsVia c o.oid = [p] ∧ g.nodes[p]? = some pn ∧ ProducerOK n.worker o pn := by
  intro c n hn hf hs o ho hg
  have := allIdx_get g.checkProducersOf g.nodes 0 h c n hn
  simp only [Nat.zero_add, Graph.checkProducersOf, hf, hs, Bool.false_or, List.all_eq_true] at this
  have := this o ho
  simp only [Bool.or_eq_true, beq_iff_eq, hg, false_or] at this
  split at this
  · rename_i p hp
    cases hpn : g.nodes[p]? with
    | none => rw [hpn] at this; simp at this
    | some pn =>
      rw [hpn] at this
      simp only [Option.map_some, Option.getD_some] at this
      exact ⟨p, pn, hp, hpn, (producerOK_iff _ _ _).mp this⟩
  · exact absurd this (by simp)

theorem checkEdgeObjects_sound (g : Graph) (h : g.checkEdgeObjects = true) :
    ∀ e ∈ g.setup, ∀ c p, g.nodes[e.child]? = some c → g.nodes[e.parent]? = some p → p.flat = false →
      c.flat = false ∧ c.worker = p.worker ∧ (c.obj? e.obj).isSome = true ∧
      ∃ po, p.obj? e.obj = some po ∧ po.setState ≠ "" := by
  intro e he c p hc hp hpf
  simp only [Graph.checkEdgeObjects, List.all_eq_true] at h
  have := h e he
  rw [hc, hp] at this
  simp only [hpf, Bool.false_or, Bool.and_eq_true, Bool.not_eq_true', beq_iff_eq] at this
  obtain ⟨⟨⟨h1, h2⟩, h3⟩, h4⟩ := this
  refine ⟨h1, h2, h3, ?_⟩
  cases hpo : p.obj? e.obj with
  | none => rw [hpo] at h4; simp at h4
  | some po =>
    rw [hpo] at h4
    simp only [Option.map_some, Option.getD_some, bne_iff_ne, ne_eq] at h4
    exact ⟨po, rfl, h4⟩

theorem checkObjects_sound (g : Graph) (h : g.checkObjects = true) :
    ∀ n ∈ g.nodes, n.flat = false →
      ∃ net, n.nets = [net] ∧ n.paramNets = [net] ∧ sortStrings n.vms = n.paramVms := by
  intro n hn hf
  simp only [Graph.checkObjects, List.all_eq_true] at h
  have := h n hn
  simp only [Node.checkObjects, hf, Bool.false_or, Bool.and_eq_true, beq_iff_eq] at this
  obtain ⟨h1, h2⟩ := this
  split at h1
  · rename_i net hnet
    simp only [Bool.and_eq_true, beq_iff_eq] at h1
    exact ⟨net, hnet, h1.1, h2⟩
  · exact absurd h1 (by simp)

theorem checkClones_sound (g : Graph) (h : g.checkClones = true) :
    (∀ n ∈ g.nodes, n.cloneSource = true → n.mayRun = false) ∧
    (∀ sc ∈ g.clones, ∃ s c, g.nodes[sc.1]? = some s ∧ g.nodes[sc.2]? = some c ∧ s.cloneSource = true ∧
       s.mayRun = false ∧ c.flat = false ∧ c.worker = s.worker) := by
  constructor
  · intro n _ hs
    simp [Node.mayRun, hs]
  · intro sc hsc
    simp only [Graph.checkClones, Bool.and_eq_true, List.all_eq_true] at h
    have := h.1 sc hsc
    split at this
    · rename_i s c hs hc
      simp only [Bool.and_eq_true, Bool.not_eq_true', beq_iff_eq] at this
      exact ⟨s, c, hs, hc, this.1.1.1.1, this.1.1.1.2, this.1.1.2, this.1.2⟩
    · exact absurd this (by simp)

/-! ## the checker is sound -/

theorem wellFormed_sound (g : Graph) (h : g.wellFormed = true) : WF g := by
  simp only [Graph.wellFormed, Bool.and_eq_true] at h
  obtain ⟨⟨⟨⟨⟨⟨⟨⟨hid, hrg⟩, hsym⟩, hac⟩, hroot⟩, hprod⟩, hedge⟩, hobj⟩, hcl⟩ := h
  have hrange := checkRange_sound g hrg
  obtain ⟨r, hr, hshared⟩ := checkRoot_sound g hroot
  have hrootiff : ∀ i, i < g.size → (g.parents i = [] ↔ i = r) := by
    intro i hi
    have := mem_roots g i
    rw [hr] at this
    simp only [List.mem_singleton] at this
    constructor
    · intro hp; exact this.mpr ⟨hi, hp⟩
    · intro hir; exact (this.mp hir).2
  have hrs : r < g.size := by
    have := (mem_roots g r).mp (by rw [hr]; simp)
    exact this.1
  exact {
    ids_nodup := idsNodup_sound _ hid
    in_range := hrange
    symmetric := checkSymmetric_sound g hsym
    acyclic := rankOK_acyclic g g.rank hac
    single_root := ⟨r, hrs, hrootiff,
      fun i hi hne => reach_root g g.rank hac hrange r hrootiff _ i (Nat.le_refl _) hi hne, hshared⟩
    unique_producer := checkProducers_sound g hprod
    edge_objects := checkEdgeObjects_sound g hedge
    one_net := checkObjects_sound g hobj
    clone_sources := checkClones_sound g hcl }


/-! ## bridging (C09) -/

/-- Equivalent tests of different workers are linked to each other symmetrically and share their visit
bookkeeping; nobody else shares it. -/
structure BridgesOK (g : Graph) : Prop where
  /-- a bridge is recorded on both of its ends -/
  symmetric : ∀ a b, (a, b) ∈ g.bridged → (b, a) ∈ g.bridged
  /-- bridged nodes are two different composite nodes of one class, of different workers -/
  equivalent : ∀ a b, (a, b) ∈ g.bridged → ∃ na nb, g.nodes[a]? = some na ∧ g.nodes[b]? = some nb ∧
      a ≠ b ∧ na.flat = false ∧ nb.flat = false ∧ na.cls = nb.cls ∧ na.worker ≠ nb.worker
  /-- bridged nodes reference the very same four register objects -/
  shared : ∀ a b, (a, b) ∈ g.bridged → g.regsOf a = g.regsOf b ∧ (g.regsOf a).length = 4
  /-- every two composite nodes of one class and different workers are bridged -/
  complete : ∀ i j a b, g.nodes[i]? = some a → g.nodes[j]? = some b → i ≠ j → a.flat = false → b.flat = false →
      a.cls = b.cls → a.worker ≠ b.worker → (i, j) ∈ g.bridged
  /-- a register object is referenced only within one class -/
  exclusive : ∀ i j a b, g.nodes[i]? = some a → g.nodes[j]? = some b → i ≠ j → a.flat = false → b.flat = false →
      (∃ r, r ∈ g.regsOf i ∧ r ∈ g.regsOf j) → a.cls = b.cls

/-- consecutive members of the list are bridged -/
def Graph.BridgeChain (g : Graph) : List Nat → Prop
  | a :: b :: rest => (a, b) ∈ g.bridged ∧ g.BridgeChain (b :: rest)
  | _ => True

theorem checkBridgePairs_sound (g : Graph) (h : g.checkBridgePairs = true) (a b : Nat)
    (hab : (a, b) ∈ g.bridged) :
    (b, a) ∈ g.bridged ∧ (∃ na nb, g.nodes[a]? = some na ∧ g.nodes[b]? = some nb ∧
      a ≠ b ∧ na.flat = false ∧ nb.flat = false ∧ na.cls = nb.cls ∧ na.worker ≠ nb.worker) ∧
    g.regsOf a = g.regsOf b ∧ (g.regsOf a).length = 4 := by
  simp only [Graph.checkBridgePairs, List.all_eq_true] at h
  have := h (a, b) hab
  simp only at this
  split at this
  · rename_i na nb hna hnb
    simp only [Bool.and_eq_true, bne_iff_ne, ne_eq, Bool.not_eq_true', beq_iff_eq, Graph.isBridged,
      List.contains_eq_mem, decide_eq_true_eq] at this
    obtain ⟨⟨⟨⟨⟨⟨⟨h1, h2⟩, h3⟩, h4⟩, h5⟩, h6⟩, h7⟩, h8⟩ := this
    exact ⟨h6, ⟨na, nb, hna, hnb, h1, h2, h3, h4, h5⟩, h7, h8⟩
  · exact absurd this (by simp)

theorem checkBridgeClasses_sound (g : Graph) (h : g.checkBridgeClasses = true) (i j : Nat) (a b : Node)
    (ha : g.nodes[i]? = some a) (hb : g.nodes[j]? = some b) (hij : i ≠ j) (haf : a.flat = false)
    (hbf : b.flat = false) :
    (a.cls = b.cls → a.worker ≠ b.worker → (i, j) ∈ g.bridged) ∧
    ((∃ r, r ∈ g.regsOf i ∧ r ∈ g.regsOf j) → a.cls = b.cls) := by
  have h1 := allIdx_get _ g.nodes 0 h i a ha
  simp only [Nat.zero_add] at h1
  have h2 := allIdx_get _ g.nodes 0 h1 j b hb
  simp only [Nat.zero_add, haf, hbf, Bool.or_false, Bool.or_eq_true, beq_iff_eq, hij, false_or,
    Bool.and_eq_true, Bool.not_eq_true', Bool.and_eq_false_iff, bne_eq_false_iff_eq, beq_eq_false_iff_ne,
    ne_eq, Graph.isBridged, List.contains_eq_mem, decide_eq_true_eq, List.any_eq_false] at h2
  constructor
  · intro hc hw
    rcases h2.1 with (h3 | h3) | h3
    · exact absurd hc h3
    · exact absurd h3 hw
    · exact h3
  · rintro ⟨r, hr1, hr2⟩
    rcases h2.2 with h3 | h3
    · exact absurd hr2 (by simpa using h3 r hr1)
    · exact h3

theorem checkBridges_sound (g : Graph) (h : g.checkBridges = true) : BridgesOK g := by
  simp only [Graph.checkBridges, Bool.and_eq_true] at h
  exact {
    symmetric := fun a b hab => (checkBridgePairs_sound g h.1 a b hab).1
    equivalent := fun a b hab => (checkBridgePairs_sound g h.1 a b hab).2.1
    shared := fun a b hab => (checkBridgePairs_sound g h.1 a b hab).2.2
    complete := fun i j a b ha hb hij haf hbf hc hw =>
      (checkBridgeClasses_sound g h.2 i j a b ha hb hij haf hbf).1 hc hw
    exclusive := fun i j a b ha hb hij haf hbf hr =>
      (checkBridgeClasses_sound g h.2 i j a b ha hb hij haf hbf).2 hr }

end I2N.Graph
