import I2N.Extracted.GenLazy
import I2N.Extracted.GenInvolved

/-! Closed forms of the definitions `harness/pygen_pxloc.py` generates from `TestNode.is_unrolled`, `should_parse`,
`is_flat`, `is_shared_root`, `is_object_root`, `get_stateful_objects`, `shared_involved_workers`
(`Extracted/GenLazy.lean`, `Extracted/GenInvolved.lean`).  The equalities with the hand written model are in
`Props/C02.lean` and `Props/C05.lean`. -/
namespace I2N.GenLazy
open I2N.Trav
open I2N.Extracted.GenLazy
open I2N.Extracted.GenInvolved

/-- a search loop whose every `return` gives the same value -/
theorem findSome_const {α β : Type} (l : List α) (p : α → Bool) (v : β) :
    l.findSome? (fun x => if p x then some v else none) = if l.any p then some v else none := by
  induction l with
  | nil => rfl
  | cons a l ih =>
    by_cases h : p a = true
    · simp [h]
    · simp [h, ih]

/-- the workers recorded as incompatible for the flat node `f` -/
def incompatOf (s : State) (f : Nat) : List Nat := (s.incompatible.filter (·.1 == f)).map (·.2)

theorem incompatOf_contains (s : State) (f w : Nat) :
    (incompatOf s f).contains w = s.incompatible.contains (f, w) := by
  rw [Bool.eq_iff_iff]
  simp only [incompatOf, List.contains_iff_mem, List.mem_map, List.mem_filter, beq_iff_eq]
  constructor
  · rintro ⟨⟨a1, a2⟩, ⟨hm, rfl⟩, rfl⟩; exact hm
  · intro h; exact ⟨(f, w), ⟨h, rfl⟩, rfl⟩

theorem filter_isEmpty {α : Type} (l : List α) (p : α → Bool) : (l.filter p).isEmpty = !l.any p := by
  induction l with
  | nil => rfl
  | cons a l ih => cases h : p a <;> simp [h, ih]

theorem incompatOf_isEmpty (s : State) (f : Nat) :
    (!(incompatOf s f).isEmpty) = s.incompatible.any (·.1 == f) := by
  unfold incompatOf
  induction s.incompatible with
  | nil => rfl
  | cons a l ih =>
    cases h : a.1 == f <;> simp [h] at ih ⊢
    exact ih

/-- the search loop of `is_unrolled` for a given worker (normal form of the generated lambda) -/
theorem findSome_worker {α : Type} (l : List α) (p q : α → Bool) :
    l.findSome? (fun x => if p x = true then if q x = true then some true else if false = true then some true else none
      else none) = if l.any (fun x => p x && q x) then some true else none := by
  have h : (fun x => if p x = true then if q x = true then some true else if false = true then some true else none
      else none) = (fun x => if (p x && q x) then some true else none) := by
    funext x; cases p x <;> cases q x <;> simp
  rw [h, findSome_const]

/-- the search loop of `is_unrolled` without a worker -/
theorem findSome_any {α : Type} (l : List α) (p : α → Bool) :
    l.findSome? (fun x => if p x = true then if false = true then some true else if True then some true else none
      else none) = if l.any p then some true else none := by
  have h : (fun x => if p x = true then if false = true then some true else if True then some true else none
      else none) = (fun x => if p x then some true else none) := by
    funext x; cases p x <;> simp
  rw [h, findSome_const]

/-- closed form of the generated `is_unrolled` -/
theorem genIsUnrolled_eq (sharedRoot flat : Bool) (worker : Option Nat) (incompat cleanup : List Nat) (setless : String)
    (nodeId workerId : Nat → String) :
    genIsUnrolled sharedRoot flat worker incompat cleanup setless nodeId workerId =
      if sharedRoot then .ok true else if !flat then .error "RuntimeError" else
      .ok (match worker with
        | some w => incompat.contains w ||
            (cleanup.filter (fun c => strIn setless (nodeId c))).any (fun c => strIn (workerId w) (nodeId c))
        | none => !incompat.isEmpty || !(cleanup.filter (fun c => strIn setless (nodeId c))).isEmpty) := by
  cases sharedRoot
  · cases flat
    · rfl
    · cases worker with
      | none =>
        simp only [genIsUnrolled, Option.isSome_none, Option.isNone_none, Bool.true_and, Bool.false_and, findSome_any,
          filter_isEmpty]
        generalize incompat.isEmpty = b1
        generalize cleanup.any _ = b2
        cases b1 <;> cases b2 <;> rfl
      | some w =>
        simp only [genIsUnrolled, Option.isSome_some, Option.getD_some, Option.isNone_some, Bool.true_and,
          Bool.false_and, findSome_worker, List.any_filter]
        generalize incompat.contains w = b1
        generalize cleanup.any _ = b2
        cases b1 <;> cases b2 <;> rfl
  · rfl

theorem len_eq_zero {α : Type} (l : List α) : ((Int.ofNat l.length) == (0 : Int)) = l.isEmpty := by
  cases l with
  | nil => rfl
  | cons a l =>
    simp only [List.length_cons, List.isEmpty_cons, beq_eq_false_iff_ne, ne_eq]
    intro h
    have h' : ((l.length + 1 : Nat) : Int) = 0 := h
    omega

/-- closed form of the generated `should_parse` -/
theorem genShouldParse_eq (involved : List Nat) (unrolled cleanupReady : Nat → Bool) (restrs : Nat → List String) :
    genShouldParse involved unrolled cleanupReady restrs =
      !involved.any (fun v => unrolled v && cleanupReady v && (restrs v).isEmpty) := by
  simp only [genShouldParse, findSome_const, len_eq_zero]
  generalize involved.any _ = b
  cases b <;> rfl

/-- closed forms of the generated one-liners -/
theorem genIsFlat_eq (objects : List String) : genIsFlat objects = objects.isEmpty := by
  simp only [genIsFlat, len_eq_zero]; rfl

theorem genIsSharedRoot_eq (getBoolean : String → Bool → Bool) :
    genIsSharedRoot getBoolean = getBoolean "shared_root" false := rfl

theorem genIsObjectRoot_eq (paramKeys : List String) : genIsObjectRoot paramKeys = paramKeys.contains "object_root" := rfl

theorem foldl_filter_append {α : Type} (l : List α) (p : α → Bool) (init : List α) :
    l.foldl (fun acc x => if p x = true then acc ++ [x] else acc) init = init ++ l.filter p := by
  induction l generalizing init with
  | nil => simp
  | cons a l ih => cases h : p a <;> simp [List.foldl_cons, ih, h]

/-- closed form of the generated `get_stateful_objects`: the objects with a state of kind `do`, in object order -/
theorem genGetStatefulObjects_eq (kind : String) (objects : List Nat) (hasState : String → Nat → Bool) :
    genGetStatefulObjects kind objects hasState = objects.filter (hasState kind) := by
  simp only [genGetStatefulObjects]
  exact (foldl_filter_append objects (hasState kind) []).trans (List.nil_append _)

theorem flatMap_filter {α : Type} (ls : List (List α)) (p : α → Bool) :
    ls.flatMap (fun s => (s.filter p).map (fun w => w)) = ls.flatten.filter p := by
  induction ls with
  | nil => rfl
  | cons a l ih =>
    rw [List.flatMap_cons, ih, List.flatten_cons, List.filter_append, List.map_id']

/-- closed form of the generated `shared_involved_workers` -/
theorem genSharedInvolvedWorkers_eq (bySetup byCleanup : List Nat) (swarms : List (List Nat)) :
    genSharedInvolvedWorkers bySetup byCleanup swarms =
      swarms.flatten.filter (fun w => (bySetup ++ byCleanup).contains w) := by
  simp only [genSharedInvolvedWorkers]
  exact flatMap_filter swarms _

end I2N.GenLazy
