/-!
# List facts behind the loop / set translations of `harness/pygen.py`

The translator prints Python's accumulation loops as `List.foldl`, set differences / intersections as `List.filter` and
their emptiness tests as `isEmpty`.  The hand written models use `filter`, `all`, `any`.  These lemmas connect the two.
-/
namespace I2N.PyGen

/-- `for x in l: if p(x): acc += [x]` is `acc + [x for x in l if p(x)]` -/
theorem foldl_append_if {α} (p : α → Bool) (l init : List α) :
    l.foldl (fun acc x => if p x then acc ++ [x] else acc) init = init ++ l.filter p := by
  induction l generalizing init with
  | nil => simp
  | cons a l ih =>
    simp only [List.foldl_cons, ih, List.filter_cons]
    cases h : p a <;> simp

theorem filter_not_isEmpty {α} (p : α → Bool) (l : List α) :
    (l.filter (fun x => !(p x))).isEmpty = l.all p := by
  induction l with
  | nil => rfl
  | cons a l ih =>
    simp only [List.filter_cons, List.all_cons]
    cases h : p a <;> simp [ih]

theorem filter_isEmpty {α} (p : α → Bool) (l : List α) :
    (l.filter p).isEmpty = !(l.any p) := by
  induction l with
  | nil => rfl
  | cons a l ih =>
    simp only [List.filter_cons, List.any_cons]
    cases h : p a <;> simp [ih]

/-- `len({*l} - {*A}) > 0` negated: every element of `l` is in `A` -/
theorem diff_isEmpty (l A : List String) :
    (l.filter (fun x => !(A.contains x))).isEmpty = l.all (fun x => A.contains x) :=
  filter_not_isEmpty (fun x => A.contains x) l

/-- `len({*l} & {*A}) > 0`: some element of `l` is in `A` -/
theorem inter_isEmpty (l A : List String) :
    (l.filter (fun x => A.contains x)).isEmpty = !(l.any (fun x => A.contains x)) :=
  filter_isEmpty (fun x => A.contains x) l

/-! ### the `Except` monad of the generated `do` blocks -/

theorem throw_bind {ε α β} (e : ε) (f : α → Except ε β) : ((throw e : Except ε α) >>= f) = throw e := rfl
theorem pure_bind {ε α β} (a : α) (f : α → Except ε β) : ((pure a : Except ε α) >>= f) = f a := rfl

/-- `if p: return True` / `return False` is `return p` -/
theorem ite_pure_bool {ε} (p : Prop) [Decidable p] :
    (if p then (pure true : Except ε Bool) else pure false) = Except.ok (decide p) := by
  by_cases h : p <;> simp [h] <;> rfl

end I2N.PyGen
