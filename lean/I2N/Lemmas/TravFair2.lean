import I2N.Lemmas.TravFair
import I2N.Lemmas.TravGlobalR
/-!
Termination ACROSS suspensions for ANY number of workers, second part (property C02):

1. **object roots** (`RInvN`, `step_cntRN`, `lively_run_over2`): the invariant `RInv` of `TravGlobalR` (one worker) is lifted
   to any number of workers.  A step of `w` changes the result list of an object root `m` only when `w` is inside a test
   of `m` (`resume_root_results`); a worker inside a test of `m` cares for `m` (`PInv.testOwn`); a root is cared for by at
   most one worker (`RootsOwned`, which follows from the class hypotheses `classesOKRB`) — so the creation copy of a
   worker inside a pre-step stays `results ++ [placeholder]` while the others step.  Counter
   `cntRN = 24·total + Σ_v qR(pc v)`.
2. The development is independent of `BumpFree`: the invariant `GInv2` does not contain `NoBump`, the only place where a
   bound on the number of results is needed is the END of the run (`lively_run_over2` takes the bound as a hypothesis).
3. **bumps** (`BCap`, `resume_bcap`): in every reachable state the bump counter of copy `n` is at most
   `max(1, |workers| + 1 - max_concurrent_tries₀)`: a bump needs an occupied node, i.e. at least `threshold` DIFFERENT workers
   holding marks, and after the first bump the threshold is `max_concurrent_tries₀ + bump`.
4. the sleeps of the result wait (`resume_tick_sleep`): a step that ends inside the same test with the wait counter raised
   announces a sleep of 3000 hundredths as its last event.

Everything lives in the namespace `I2N.Trav.Fair2`.
-/
namespace I2N.Trav.Fair2
open I2N.Trav I2N.Trav.Global I2N.Trav.GlobalN I2N.Trav.GlobalR I2N.Trav.Fair

/-! ## a step of `w` touches the results of an object root only from inside a test of that root -/

theorem startFrom_root_results {g : Graph} {w : Nat} {s1 s' : State} (h : StartFrom g w s1 s') (m : Nat)
    (hm : (g.node m).objectRoot = true) : (s'.nd m).results = (s1.nd m).results := by
  cases h with
  | plain n dir s0 evs gv hgv hn hroot hdec e =>
    have hmn : m ≠ n := by
      intro e'
      rw [e', hroot] at hm
      cases hm
    rw [e, startTest_nonpre_fst g s1 n w .plain dir (by decide), nd_setWd, nd_setNd_ne _ n m _ hmn]
    rfl
  | pre n dir hn hroot e =>
    rw [e, startTest_pre_fst]
    rfl

theorem tail_root_results {g : Graph} {w : Nat} {sd s' : State}
    (h : (Silent g w sd s' ∧ (s'.wd w).pc.isTest = false) ∨ ∃ s1, Silent g w sd s1 ∧ StartFrom g w s1 s') (m : Nat)
    (hm : (g.node m).objectRoot = true) : (s'.nd m).results = (sd.nd m).results := by
  rcases h with ⟨a, _⟩ | ⟨s1, a, hs⟩
  · exact a.results m
  · rw [startFrom_root_results hs m hm]
    exact a.results m

theorem contEff_root_results {g : Graph} {w n : Nat} {ph : Phase} {dir : Dir} {sc s' : State} {ok : Bool}
    (h : ContEff g w n ph dir sc ok s') (m : Nat) (hm : (g.node m).objectRoot = true) (hmn : m ≠ n) :
    (s'.nd m).results = (sc.nd m).results := by
  rcases h with ⟨_, _, e⟩ | ⟨_, hrest⟩
  · rw [e, startTest_nonpre_fst g sc n w .main dir (by decide), nd_setWd, nd_setNd_ne _ n m _ hmn]
    rfl
  · rw [tail_root_results hrest m hm]
    split
    · unfold appendPre
      rw [nd_setNd_ne sc n m _ hmn]
    · rfl

theorem testEff_root_results {g : Graph} {s : State} {w n : Nat} {ph : Phase} {dir : Dir} {uid : String} {tag wait : Nat}
    {out : Outcome} {s' : State} (h : TestEff g s w n ph dir uid tag wait out s') (m : Nat)
    (hm : (g.node m).objectRoot = true) (hmn : m ≠ n) : (s'.nd m).results = (s.nd m).results := by
  obtain ⟨sa, hrep, h⟩ := h
  have hsb : SameBook s sa := by
    rcases hrep with ⟨h, _⟩ | ⟨_, _, _, h, _⟩
    · rw [h]; exact ⟨rfl, rfl, rfl⟩
    · exact h
  rcases h with ⟨e, _, sb, res, ok, hsab, _, _, hc⟩ | ⟨_, h | hc⟩
  · rw [contEff_root_results hc m hm hmn]
    have : ((if ph = .pre then settlePre sb w res tag else settleNd sb n res tag).nd m).results = (sb.nd m).results := by
      split
      · rfl
      · rcases settleNd_results sb n res tag m with h | ⟨h, _⟩
        · exact h
        · exact absurd h hmn
    rw [this, hsab.nd, hsb.nd]
  · rw [h, nd_setWd, hsb.nd]
  · rw [contEff_root_results hc m hm hmn, hsb.nd]

/-- **a step of `w` changes the result list of an object root only if `w` is inside a test of that root** -/
theorem resume_root_results (g : Graph) (hwf : GraphWF g) (s : State) (w : Nat) (out : Outcome) (fuel : Nat) (hf : 0 < fuel)
    (hw : w < s.workers.length) (hpath : ∀ x ∈ (s.wd w).path, x < g.nodes.length) (m : Nat)
    (hm : (g.node m).objectRoot = true) (hnot : (s.wd w).pc.node? ≠ some m) :
    ((resume g s w out fuel).1.nd m).results = (s.nd m).results := by
  rcases resume_eff g hwf s w out fuel hf hw hpath with ⟨_, h⟩ | ⟨n, ph, dir, uid, tag, wait, hpc, h⟩
  · exact tail_root_results h m hm
  · refine testEff_root_results h m hm ?_
    intro e
    apply hnot
    rw [hpc, e]
    rfl

/-! ## the invariant for several workers -/

/-- an object root is cared for by at most one worker -/
def RootsOwned (g : Graph) : Prop :=
  ∀ n, n < g.nodes.length → (g.node n).objectRoot = true → ∀ u v, u < g.workers.length → v < g.workers.length →
    g.idIn u n = true → g.idIn v n = true → u = v

/-- the class hypotheses of the result bound imply that every object root has one carer -/
theorem rootsOwned_of_classesOKRB {g : Graph} (hcl : classesOKRB g = true) : RootsOwned g := by
  intro n hn hroot u v hu hv hiu hiv
  unfold classesOKRB at hcl
  rw [List.all_eq_true] at hcl
  have hc := hcl n (List.mem_range.mpr hn)
  rw [Bool.or_eq_true, Bool.and_eq_true, Bool.or_eq_true] at hc
  rcases hc with hc | ⟨hc | hc, _⟩
  · exfalso
    have hg := (statelessClass_spec hc).1
    unfold goodClass at hg
    rw [List.all_eq_true] at hg
    have := hg n ((mem_classNodes g _ n).mpr ⟨hn, rfl⟩)
    rw [hroot] at this
    cases this
  · exact (statefulClass_spec hc).uniq n hn rfl u v hu hv hiu hiv
  · exact (statefulClassRoots_spec hc).1.uniq n hn rfl u v hu hv hiu hiv

/-- the root clauses, and the creation copy of EVERY worker -/
structure RInvN (g : Graph) (s : State) : Prop where
  rn : RN g s
  r3 : ∀ w, R3 w s

theorem rinvN_init (g : Graph) (ncls : Nat) (store : List (String × List (String × String))) :
    RInvN g (initState g ncls store []) := by
  refine ⟨(rinv_init g ncls store).rn, ?_⟩
  intro w n dir uid tag wait e
  rw [init_pc] at e; cases e

/-- a step keeps the invariant and has the shape `ShapeR` -/
theorem rinvN_step (g : Graph) (hwf : GraphWF g) (hown : RootsOwned g) (s : State) (b : Basic g s All) (hp : PInv g s)
    (ri : RInvN g s) (w : Nat) (hw : w < g.workers.length) (out : Outcome) (fuel : Nat) (hf : 0 < fuel)
    (hoth : ∀ v, v ≠ w → (resume g s w out fuel).1.wd v = s.wd v) :
    RInvN g (resume g s w out fuel).1 ∧ ShapeR g w s (resume g s w out fuel).1 := by
  obtain ⟨x1, x2, x3⟩ := stepR g hwf s b w ri.rn (ri.r3 w) hw out fuel hf
  refine ⟨⟨x1, fun v => ?_⟩, x3⟩
  by_cases hv : v = w
  · rw [hv]; exact x2
  · intro n dir uid tag wait hpc
    rw [hoth v hv] at hpc ⊢
    obtain ⟨p1, p2⟩ := ri.r3 v n dir uid tag wait hpc
    have hok := b.pcOK v n .pre dir uid tag wait trivial hpc
    have hroot := root_of_pre hok.2.2.2.1 rfl
    have hvl : v < g.workers.length := by
      rw [← b.workersLen]
      exact lt_of_isTest s v (by rw [hpc]; rfl)
    have hidv := (hp.testOwn v n (by rw [hpc]; rfl)).1
    have hnot : (s.wd w).pc.node? ≠ some n := by
      intro hcon
      exact hv (hown n hok.1 hroot v w hvl hw hidv (hp.testOwn w n hcon).1)
    rw [resume_root_results g hwf s w out fuel hf (by rw [b.workersLen]; exact hw) (b.paths w) n hroot hnot]
    exact ⟨p1, p2⟩

/-! ## the counter -/

def qsumR (g : Graph) (s : State) : Nat := ((List.range g.workers.length).map (fun v => qR (s.wd v).pc)).sum

/-- the global step counter on graphs with object roots -/
def cntRN (g : Graph) (s : State) : Nat := 24 * total g s + qsumR g s

theorem qsumR_step {g : Graph} {s s' : State} {w : Nat} (hw : w < g.workers.length)
    (hoth : ∀ v, v ≠ w → s'.wd v = s.wd v) : qsumR g s' + qR (s.wd w).pc = qsumR g s + qR (s'.wd w).pc := by
  unfold qsumR
  have hm : w ∈ List.range g.workers.length := List.mem_range.mpr hw
  rw [← sum_map_split _ List.nodup_range w hm (fun v => qR (s'.wd v).pc),
    ← sum_map_split _ List.nodup_range w hm (fun v => qR (s.wd v).pc)]
  have : (((List.range g.workers.length).filter (· != w)).map (fun v => qR (s'.wd v).pc)).sum =
      (((List.range g.workers.length).filter (· != w)).map (fun v => qR (s.wd v).pc)).sum := by
    apply sum_map_congr
    intro j hj
    have hjw : j ≠ w := by simpa using (List.mem_filter.mp hj).2
    rw [hoth j hjw]
  omega

theorem qR_nonTest {pc : Pc} (h : pc.isTest = false) : 11 ≤ qR pc := by
  cases pc <;> first | (cases h; done) | simp [qR]

theorem qR_over {pc : Pc} (h1 : pc.isTest = false) (h2 : pcEnd pc = true) (h3 : pc ≠ .bounce) : qR pc = 23 := by
  cases pc <;> first | (cases h1; done) | (cases h2; done) | rfl | exact absurd rfl h3

theorem qR_le {pc : Pc} (h : ∀ n ph dir uid tag wait, pc = .test n ph dir uid tag wait → wait ≤ 10) : qR pc ≤ 23 := by
  cases pc with
  | test n ph dir uid tag wait =>
    have := h n ph dir uid tag wait rfl
    cases ph <;> simp only [qR] <;> omega
  | _ => simp [qR]

theorem productive_le_one (a b : Pc) : (if productive a b then 1 else 0) ≤ 1 := by split <;> omega

/-- the counter never falls and grows with every productive step, on graphs with object roots -/
theorem step_cntRN {g : Graph} {s s' : State} {w : Nat} (hw : w < g.workers.length)
    (hoth : ∀ v, v ≠ w → s'.wd v = s.wd v) (hsh : ShapeR g w s s')
    (hwait : ∀ n ph dir uid tag wait, (s.wd w).pc = .test n ph dir uid tag wait → wait ≤ 10)
    (hend : (s.wd w).pc.isTest = false → pcEnd (s'.wd w).pc = true)
    (hnov : isOver (s.wd w).pc = false) :
    cntRN g s + (if productive (s.wd w).pc (s'.wd w).pc then 1 else 0) ≤ cntRN g s' := by
  have hq := qsumR_step (g := g) hw hoth
  have hp1 := productive_le_one (s.wd w).pc (s'.wd w).pc
  unfold cntRN
  rcases hsh with ⟨hnt, ht⟩ | ⟨hit, h1, h2⟩ | ⟨⟨n, ph, dir, uid, tag, wait, hpc, hph⟩, ht⟩ | ⟨⟨n, dir, uid, tag, wait, hpc⟩, ht⟩
  · have ha := qR_loop hnt hnov
    rcases ht with ⟨h1, h2⟩ | ⟨h1, h2⟩ | ⟨h1, h2⟩
    · by_cases hbn : (s'.wd w).pc = .bounce
      · have hprod : productive (s.wd w).pc (s'.wd w).pc = false := by
          rw [hbn]
          cases hpc : (s.wd w).pc <;> rw [hpc] at hnt hnov <;> first | rfl | (cases hnt; done) | cases hnov
        rw [hprod]
        have : qR (s'.wd w).pc = 11 := by rw [hbn]; rfl
        simp only [Bool.false_eq_true, if_false]
        omega
      · have := qR_over h2 (hend hnt) hbn
        omega
    · omega
    · omega
  · omega
  · have ha : qR (s.wd w).pc ≤ 10 := by
      have := hwait n ph dir uid tag wait hpc
      rw [hpc]
      cases ph
      · exact this
      · exact absurd rfl hph
      · exact this
    rcases ht with ⟨h1, h2⟩ | ⟨h1, h2⟩ | ⟨h1, h2⟩
    · have := qR_nonTest h2
      omega
    · omega
    · omega
  · have ha : qR (s.wd w).pc ≤ 22 := qR_test_le hwait (by rw [hpc]; rfl)
    rcases ht with ⟨h1, h2⟩ | ⟨h1, h2⟩ | ⟨h1, h2⟩ | ⟨h1, h2⟩
    · omega
    · have := qR_nonTest h2
      omega
    · omega
    · omega


/-! ## runs: the invariant (WITHOUT `NoBump`) and admissible runs (WITHOUT the bump clause) -/

/-- the invariant of the runs of this file: as `GInvN` without `NoBump`, plus the root clauses -/
structure GInv2 (g : Graph) (ncls : Nat) (store : List (String × List (String × String))) (s : State) : Prop where
  reachR : ReachableR g ncls store s
  reachF : ReachableF g ncls store s
  wait : ∀ v n ph dir uid tag wait, (s.wd v).pc = .test n ph dir uid tag wait → wait ≤ 10
  rinv : RInvN g s

/-- every step of the run is a step of a real worker with `fuel ≥ bound g` (nothing is said about bumps) -/
def RunOK2 (g : Graph) : List StepN → Prop
  | [] => True
  | a :: r => (a.1 < g.workers.length ∧ Term.bound g ≤ a.2.2) ∧ RunOK2 g r

theorem runOK2_of (g : Graph) (steps : List StepN) (hreal : ∀ x ∈ steps, x.1 < g.workers.length)
    (hfuel : ∀ x ∈ steps, Term.bound g ≤ x.2.2) : RunOK2 g steps := by
  induction steps with
  | nil => trivial
  | cons a r ih =>
    exact ⟨⟨hreal a List.mem_cons_self, hfuel a List.mem_cons_self⟩,
      ih (fun x hx => hreal x (List.mem_cons_of_mem _ hx)) (fun x hx => hfuel x (List.mem_cons_of_mem _ hx))⟩

theorem runOK2_of_runOK (g : Graph) (steps : List StepN) (s : State) (h : RunOK g s steps) : RunOK2 g steps := by
  induction steps generalizing s with
  | nil => trivial
  | cons a r ih => exact ⟨⟨h.1.1, h.1.2.1⟩, ih _ h.2⟩

theorem runOK2_take (g : Graph) (k : Nat) (steps : List StepN) (h : RunOK2 g steps) : RunOK2 g (steps.take k) := by
  induction k generalizing steps with
  | zero => rw [List.take_zero]; trivial
  | succ k ih =>
    cases steps with
    | nil => trivial
    | cons a r => rw [List.take_succ_cons]; exact ⟨h.1, ih r h.2⟩

theorem runOK2_drop (g : Graph) (k : Nat) (steps : List StepN) (h : RunOK2 g steps) : RunOK2 g (steps.drop k) := by
  induction k generalizing steps with
  | zero => rw [List.drop_zero]; exact h
  | succ k ih =>
    cases steps with
    | nil => trivial
    | cons a r => rw [List.drop_succ_cons]; exact ih r h.2

theorem runOK2_append (g : Graph) (a b : List StepN) (h : RunOK2 g (a ++ b)) : RunOK2 g a ∧ RunOK2 g b := by
  induction a with
  | nil => exact ⟨trivial, h⟩
  | cons x r ih =>
    obtain ⟨y1, y2⟩ := ih h.2
    exact ⟨⟨h.1, y1⟩, y2⟩

theorem ginv2_init (g : Graph) (ncls : Nat) (store : List (String × List (String × String))) :
    GInv2 g ncls store (initState g ncls store []) :=
  ⟨.init [], .init [], (ginvN_init g ncls store).wait, rinvN_init g ncls store⟩

/-- one step: the invariant is kept, the counter does not fall and grows if the step is productive -/
theorem ginv2_step {g : Graph} {ncls : Nat} (st : StaticN g ncls) (hown : RootsOwned g)
    {store : List (String × List (String × String))} {s : State} (h : GInv2 g ncls store s) (w : Nat)
    (hw : w < g.workers.length) (out : Outcome) (fuel : Nat) (hf : Term.bound g ≤ fuel) :
    GInv2 g ncls store (resume g s w out fuel).1 ∧
      cntRN g s + (if productive (s.wd w).pc ((resume g s w out fuel).1.wd w).pc then 1 else 0) ≤
        cntRN g (resume g s w out fuel).1 := by
  have hf0 : 0 < fuel := Nat.lt_of_lt_of_le (bound_pos g) hf
  have hsym := edgeSymB_sound st.sym
  have hr := Term.rankedB_sound st.ranked
  have b := h.reachR.basic st.wf
  have hp := h.reachF.pinv hsym
  have hoth := resume_others st h.reachF w hw out fuel hf0
  obtain ⟨x1, x2⟩ := rinvN_step g (GraphWF.of_bool st.wf) hown s b hp h.rinv w hw out fuel hf0 hoth
  have hwait : ∀ v n ph dir uid tag wait, ((resume g s w out fuel).1.wd v).pc = .test n ph dir uid tag wait → wait ≤ 10 := by
    intro v
    by_cases hv : v = w
    · subst hv
      exact resume_wait g (GraphWF.of_bool st.wf) s v out fuel hf0 (by rw [b.workersLen]; exact hw) (b.paths v) (h.wait v)
    · rw [hoth v hv]
      exact h.wait v
  refine ⟨⟨.step w out fuel h.reachR hw hf0, .step s w out fuel h.reachF hw hf0, hwait, x1⟩, ?_⟩
  by_cases hov : isOver (s.wd w).pc = true
  · rw [resume_overN g s w out fuel hov]
    have : productive (s.wd w).pc (s.wd w).pc = false := by
      cases hpc : (s.wd w).pc <;> rw [hpc] at hov <;> first | (cases hov; done) | rfl
    rw [this]; simp
  · refine step_cntRN hw hoth x2 (h.wait w) (fun hnt => ?_) (by simpa using hov)
    have hg : Term.Good g (Term.depth g) w s :=
      Term.reachable_good hr hsym st.cls h.reachF (Term.explored_of_noFlat st.flat s) w
    obtain ⟨r, h2, h3⟩ := Term.runLoop_terminates g (Term.depth g) hr hsym w s [] hg fuel hf
    have he : resume g s w out fuel = runLoop g w fuel s [] := by
      unfold resume
      cases hpc : (s.wd w).pc with
      | test n ph dir uid tag wait => rw [hpc] at hnt; cases hnt
      | done => rw [hpc] at hov; exact absurd rfl hov
      | failed => rw [hpc] at hov; exact absurd rfl hov
      | loop => rfl
      | bounce => rfl
    rw [he, h3]
    exact runLoopO_pcEnd g (GraphWF.of_bool st.wf) w (Term.bound g) s [] r (by rw [b.workersLen]; exact hw) (b.paths w) h2

theorem ginv2_stepN {g : Graph} {ncls : Nat} (st : StaticN g ncls) (hown : RootsOwned g)
    {store : List (String × List (String × String))} {s : State} (h : GInv2 g ncls store s) (a : StepN) (r : List StepN)
    (ok : RunOK2 g (a :: r)) : GInv2 g ncls store (stepN g s a) :=
  (ginv2_step st hown h a.1 ok.1.1 a.2.1 a.2.2 ok.1.2).1

theorem ginv2_run {g : Graph} {ncls : Nat} (st : StaticN g ncls) (hown : RootsOwned g)
    {store : List (String × List (String × String))} (steps : List StepN) (s : State) (h : GInv2 g ncls store s)
    (ok : RunOK2 g steps) : GInv2 g ncls store (runStepsN g s steps) := by
  induction steps generalizing s with
  | nil => exact h
  | cons a r ih =>
    rw [runStepsN_cons]
    exact ih _ (ginv2_stepN st hown h a r ok) ok.2

/-- the counter grows by at least the number of productive steps along an admissible run -/
theorem run_cnt2 {g : Graph} {ncls : Nat} (st : StaticN g ncls) (hown : RootsOwned g)
    {store : List (String × List (String × String))} (steps : List StepN) (s : State) (h : GInv2 g ncls store s)
    (ok : RunOK2 g steps) : cntRN g s + productiveSteps g s steps ≤ cntRN g (runStepsN g s steps) := by
  induction steps generalizing s with
  | nil => exact Nat.le_refl _
  | cons a r ih =>
    have c1 := (ginv2_step st hown h a.1 ok.1.1 a.2.1 a.2.2 ok.1.2).2
    have c2 := ih _ (ginv2_stepN st hown h a r ok) ok.2
    rw [runStepsN_cons, productiveSteps_cons]
    unfold stepN at c2 ⊢
    omega

theorem qsumR_le {g : Graph} {s : State}
    (h : ∀ v n ph dir uid tag wait, (s.wd v).pc = .test n ph dir uid tag wait → wait ≤ 10) :
    qsumR g s ≤ 23 * g.workers.length := by
  have := sum_map_const_le (List.range g.workers.length) (fun v => qR (s.wd v).pc) 23 (fun v _ => qR_le (h v))
  rwa [List.length_range] at this

theorem qsumR_init (g : Graph) (ncls : Nat) (store : List (String × List (String × String))) :
    11 * g.workers.length ≤ qsumR g (initState g ncls store []) := by
  have := sum_map_const_ge (List.range g.workers.length) (fun v => qR ((initState g ncls store []).wd v).pc) 11
    (fun v _ => by rw [init_pc]; exact Nat.le_refl _)
  rwa [List.length_range] at this

theorem total_init (g : Graph) (ncls : Nat) (store : List (String × List (String × String))) :
    total g (initState g ncls store []) = 0 := by
  unfold total
  have : ∀ n, ((initState g ncls store []).nd n).results.length = 0 := by
    intro m
    unfold initState State.nd
    simp only [List.getD_eq_getElem?_getD, List.getElem?_map]
    cases g.nodes[m]? <;> rfl
  have h := sum_map_const_le (List.range g.nodes.length) (fun n => ((initState g ncls store []).nd n).results.length) 0
    (fun j _ => Nat.le_of_eq (this j))
  omega

/-- **the number of productive steps of a run from the initial state is at most `24·R + 12·|workers|`** when the run ends
with at most `R` results -/
theorem productive_le_run2 {g : Graph} {ncls : Nat} (st : StaticN g ncls) (hown : RootsOwned g)
    (store : List (String × List (String × String))) (steps : List StepN) (ok : RunOK2 g steps) (R : Nat)
    (hR : total g (runStepsN g (initState g ncls store []) steps) ≤ R) :
    productiveSteps g (initState g ncls store []) steps ≤ 24 * R + 12 * g.workers.length := by
  have c := run_cnt2 st hown steps _ (ginv2_init g ncls store) ok
  have y := ginv2_run st hown steps _ (ginv2_init g ncls store) ok
  have h2 := qsumR_le (g := g) y.wait
  have h3 := qsumR_init g ncls store
  have h4 := total_init g ncls store
  unfold cntRN at c
  omega

/-! ## what the steps of the others do to a worker -/

/-- a step of another worker leaves the record of `v` alone -/
theorem stepN_other2 {g : Graph} {ncls : Nat} (st : StaticN g ncls) (hown : RootsOwned g) {store : List (String × List (String × String))}
    {s : State} (h : GInv2 g ncls store s) (a : StepN) (r : List StepN) (ok : RunOK2 g (a :: r)) (v : Nat) (hv : v ≠ a.1) :
    (stepN g s a).wd v = s.wd v :=
  resume_others st h.reachF a.1 ok.1.1 a.2.1 a.2.2 (Nat.lt_of_lt_of_le (bound_pos g) ok.1.2) v hv

/-- a worker whose traversal is over keeps its record for ever -/
theorem over_run2 {g : Graph} {ncls : Nat} (st : StaticN g ncls) (hown : RootsOwned g) {store : List (String × List (String × String))}
    (steps : List StepN) (s : State) (h : GInv2 g ncls store s) (ok : RunOK2 g steps) (v : Nat)
    (hov : isOver (s.wd v).pc = true) : (runStepsN g s steps).wd v = s.wd v := by
  induction steps generalizing s with
  | nil => rfl
  | cons a r ih =>
    have e : (stepN g s a).wd v = s.wd v := by
      by_cases hv : v = a.1
      · subst hv
        unfold stepN
        rw [resume_overN g s a.1 a.2.1 a.2.2 hov]
      · exact stepN_other2 st hown h a r ok v hv
    rw [runStepsN_cons, ih _ (ginv2_stepN st hown h a r ok) ok.2 (by rw [e]; exact hov), e]

/-- if a run ends alive it started alive -/
theorem alive_of_run2 {g : Graph} {ncls : Nat} (st : StaticN g ncls) (hown : RootsOwned g) {store : List (String × List (String × String))}
    (steps : List StepN) (s : State) (h : GInv2 g ncls store s) (ok : RunOK2 g steps)
    (ha : Alive g (runStepsN g s steps)) : Alive g s := by
  obtain ⟨⟨u, hu, hno⟩, hnf⟩ := ha
  refine ⟨⟨u, hu, ?_⟩, fun v hv hf => ?_⟩
  · cases hov : isOver (s.wd u).pc with
    | false => rfl
    | true => rw [over_run2 st hown steps s h ok u hov, hov] at hno; cases hno
  · have hov : isOver (s.wd v).pc = true := by rw [hf]; rfl
    exact hnf v hv (by rw [over_run2 st hown steps s h ok v hov]; exact hf)

/-! ## a window that resumes everybody contains a productive step -/

/-- a worker that is inside a test and is resumed in the run makes a productive step -/
theorem test_worker_productive2 {g : Graph} {ncls : Nat} (st : StaticN g ncls) (hown : RootsOwned g)
    {store : List (String × List (String × String))} (steps : List StepN) (s : State) (h : GInv2 g ncls store s)
    (ok : RunOK2 g steps) (v : Nat) (ht : (s.wd v).pc.isTest = true) (hin : v ∈ steps.map (·.1)) :
    1 ≤ productiveSteps g s steps := by
  induction steps generalizing s with
  | nil => cases hin
  | cons a r ih =>
    rw [productiveSteps_cons]
    by_cases hv : v = a.1
    · subst hv
      rw [productive_of_isTest ht]
      simp
    · have e := stepN_other2 st hown h a r ok v hv
      have hin' : v ∈ r.map (·.1) := by
        rw [List.map_cons, List.mem_cons] at hin
        rcases hin with hin | hin
        · exact absurd hin hv
        · exact hin
      have := ih _ (ginv2_stepN st hown h a r ok) ok.2 (by rw [e]; exact ht) hin'
      omega

/-- **a window that resumes every worker which is not over contains a productive step**, provided nobody is dead and
somebody is not over at its beginning -/
theorem window_productive2 {g : Graph} {ncls : Nat} (st : StaticN g ncls) (hown : RootsOwned g)
    {store : List (String × List (String × String))} (s : State) (h : GInv2 g ncls store s) (win : List StepN)
    (ok : RunOK2 g win)
    (hcov : ∀ v, v < g.workers.length → isOver (s.wd v).pc = false → v ∈ win.map (·.1))
    (ha : Alive g s) : 1 ≤ productiveSteps g s win := by
  induction win with
  | nil =>
    obtain ⟨⟨u, hu, hno⟩, _⟩ := ha
    cases hcov u hu hno
  | cons a r ih =>
    by_cases hov : isOver (s.wd a.1).pc = true
    · -- a step of a finished worker changes nothing
      have e : stepN g s a = s := resume_overN g s a.1 a.2.1 a.2.2 hov
      have ok' : RunOK2 g r := ok.2
      have := ih ok' (fun v hv hno => by
        have hin := hcov v hv hno
        rw [List.map_cons, List.mem_cons] at hin
        rcases hin with hin | hin
        · rw [hin, hov] at hno; cases hno
        · exact hin)
      rw [productiveSteps_cons, e]
      omega
    · have hov' : isOver (s.wd a.1).pc = false := by simpa using hov
      by_cases ht : ∃ v, v < g.workers.length ∧ (s.wd v).pc.isTest = true
      · obtain ⟨v, hv, htv⟩ := ht
        exact test_worker_productive2 st hown (a :: r) s h ok v htv (hcov v hv (isOver_of_isTest htv))
      · -- nobody is inside a test, nobody is dead: the step of `a.1` finds no mark
        have hsym := edgeSymB_sound st.sym
        have hp := h.reachF.pinv hsym
        have hq : Quiet a.1 s := by
          intro v _
          by_cases hvl : v < g.workers.length
          · refine ⟨?_, ha.2 v hvl⟩
            cases hpc : (s.wd v).pc with
            | test n ph dir uid tag wait => exact absurd ⟨v, hvl, by rw [hpc]; rfl⟩ ht
            | _ => rfl
          · rw [wd_default_of_ge s v (by rw [hp.wlen]; exact hvl)]
            exact ⟨rfl, by simp⟩
        have hf0 : 0 < a.2.2 := Nat.lt_of_lt_of_le (bound_pos g) ok.1.2
        obtain ⟨x1, _⟩ := resume_quiet g hsym s a.1 a.2.1 a.2.2 hf0 ok.1.1 hp hq
        rw [productiveSteps_cons]
        have : productive (s.wd a.1).pc ((stepN g s a).wd a.1).pc = true := productive_of_not_bounce hov' x1
        rw [this]
        simp

/-! ## lively runs: every stretch of `K` steps that ends alive contains a productive step -/

/-- a lively run that ends alive has made at least `j` productive steps if it has `j·K` steps -/
theorem lively_productive2 {g : Graph} {ncls : Nat} (st : StaticN g ncls) (hown : RootsOwned g) {store : List (String × List (String × String))}
    (K : Nat) (hK : 0 < K) (j : Nat) (steps : List StepN) (s : State) (h : GInv2 g ncls store s) (ok : RunOK2 g steps)
    (hl : Lively g K s steps) (hlen : j * K ≤ steps.length) (ha : Alive g (runStepsN g s steps)) :
    j ≤ productiveSteps g s steps := by
  induction j generalizing s steps with
  | zero => exact Nat.zero_le _
  | succ j ih =>
    have hKl : K ≤ steps.length := by
      have : K ≤ (j + 1) * K := Nat.le_mul_of_pos_left K (Nat.succ_pos j)
      omega
    have hsplit : steps.take K ++ steps.drop K = steps := List.take_append_drop K steps
    have hfin : runStepsN g (runStepsN g s (steps.take K)) (steps.drop K) = runStepsN g s steps := by
      rw [← runStepsN_append, hsplit]
    have h1 := ginv2_run st hown _ s h (runOK2_take g K steps ok)
    have ok1 := runOK2_drop g K steps ok
    have ha1 : Alive g (runStepsN g s (steps.take K)) :=
      alive_of_run2 st hown (steps.drop K) _ h1 ok1 (by rw [hfin]; exact ha)
    have w : 1 ≤ productiveSteps g s (steps.take K) := by
      cases steps with
      | nil => simp at hKl; omega
      | cons a r => exact hl.1 hKl ha1
    have hl' : j * K ≤ (steps.drop K).length := by
      rw [List.length_drop]
      have : (j + 1) * K = j * K + K := Nat.succ_mul j K
      omega
    have r := ih (steps.drop K) (runStepsN g s (steps.take K)) h1 ok1 (lively_drop g K K steps s hl) hl'
      (by rw [hfin]; exact ha)
    have := productiveSteps_append g (steps.take K) (steps.drop K) s
    rw [hsplit] at this
    omega

/-! ## fair runs (windows) -/

/-- a fair run is lively -/
theorem fair_lively2 {g : Graph} {ncls : Nat} (st : StaticN g ncls) (hown : RootsOwned g) {store : List (String × List (String × String))}
    (K : Nat) (steps : List StepN) (s : State) (h : GInv2 g ncls store s) (ok : RunOK2 g steps)
    (hfair : FairW g K s steps) : Lively g K s steps := by
  induction steps generalizing s with
  | nil => trivial
  | cons a r ih =>
    refine ⟨fun hKl ha => ?_, ih _ (ginv2_stepN st hown h a r ok) ok.2 hfair.2⟩
    have okw := runOK2_take g K (a :: r) ok
    exact window_productive2 st hown s h _ okw (hfair.1 hKl) (alive_of_run2 st hown _ s h okw ha)

theorem due_step2 {g : Graph} {ncls : Nat} (st : StaticN g ncls) (hown : RootsOwned g) {store : List (String × List (String × String))}
    (q T : Nat) (wake : Nat → Nat) {s : State} (h : GInv2 g ncls store s) (x : TStepN) (r : List TStepN)
    (ok : RunOK2 g ((x :: r).map (·.1))) (ht : Timed g q T wake s (x :: r)) (hd : Due g T wake s) :
    Due g T (wakeAfter wake x.1.1 x.2) (stepN g s x.1) := by
  obtain ⟨⟨hno, hmin, _, hT⟩, _⟩ := ht
  rw [List.map_cons] at ok
  intro v u hv hu htv hnu
  unfold wakeAfter
  by_cases e1 : v = x.1.1
  · subst e1
    simp only [if_true]
    have hd' := hT htv
    by_cases e2 : u = x.1.1
    · rw [if_pos e2]; omega
    · rw [if_neg e2]
      rw [stepN_other2 st hown h x.1 _ ok u e2] at hnu
      have := hmin u hu hnu
      omega
  · rw [if_neg e1]
    rw [stepN_other2 st hown h x.1 _ ok v e1] at htv
    by_cases e2 : u = x.1.1
    · rw [if_pos e2]
      have := hd v x.1.1 hv ok.1.1 htv hno
      omega
    · rw [if_neg e2]
      rw [stepN_other2 st hown h x.1 _ ok u e2] at hnu
      exact hd v u hv hu htv hnu

/-- **a stretch of back-off steps is at most as long as the sleeps that fit before a running test is due**: while worker
`v` is inside a test, every unproductive step is a back-off sleep of a worker that is due before `v`, and lowers `phiT` -/
theorem backoff_stretch_le2 {g : Graph} {ncls : Nat} (st : StaticN g ncls) (hown : RootsOwned g)
    {store : List (String × List (String × String))} (q T : Nat) (hq : 0 < q) (steps : List TStepN) (wake : Nat → Nat)
    (s : State) (h : GInv2 g ncls store s) (ok : RunOK2 g (steps.map (·.1))) (ht : Timed g q T wake s steps) (v : Nat)
    (hv : v < g.workers.length) (htv : (s.wd v).pc.isTest = true)
    (hun : productiveSteps g s (steps.map (·.1)) = 0) : steps.length ≤ phiT g q wake s v := by
  induction steps generalizing wake s with
  | nil => exact Nat.zero_le _
  | cons x r ih =>
    rw [List.map_cons] at ok hun
    rw [productiveSteps_cons] at hun
    obtain ⟨⟨hno, hmin, hB, _⟩, ht'⟩ := ht
    have hvw : v ≠ x.1.1 := by
      intro e
      subst e
      rw [productive_of_isTest htv] at hun
      simp at hun
    have hp : productive (s.wd x.1.1).pc ((stepN g s x.1).wd x.1.1).pc = false := by
      cases hpp : productive (s.wd x.1.1).pc ((stepN g s x.1).wd x.1.1).pc with
      | false => rfl
      | true => rw [hpp] at hun; simp at hun
    have hb : ((stepN g s x.1).wd x.1.1).pc = .bounce := by
      rcases unproductive_step g s x.1.1 x.1.2.1 x.1.2.2 hp with ⟨h1, _⟩ | ⟨_, h2⟩
      · rw [h1] at hno; cases hno
      · exact h2
    have hqd : q ≤ x.2 := hB (by rw [hb]; rfl)
    have ev := stepN_other2 st hown h x.1 _ ok v hvw
    have h1 := ginv2_stepN st hown h x.1 _ ok
    have r1 := ih _ _ h1 ok.2 ht' (by rw [ev]; exact htv) (by omega)
    have hdec : phiT g q (wakeAfter wake x.1.1 x.2) (stepN g s x.1) v + 1 ≤ phiT g q wake s v := by
      unfold phiT
      refine sum_map_lt_of _ List.nodup_range x.1.1 (List.mem_range.mpr ok.1.1) _ _ ?_ ?_
      · -- the summand of the sleeping worker
        have hle := hmin v hv (isOver_of_isTest htv)
        unfold cap
        rw [hno, hb]
        simp only [isOver, Bool.false_eq_true, if_false]
        unfold wakeAfter
        rw [if_neg hvw, if_pos rfl]
        have e : wake v + q - wake x.1.1 = (wake v - wake x.1.1) + q := by omega
        rw [e, Nat.add_div_right _ hq]
        have : (wake v + q - (wake x.1.1 + x.2)) / q ≤ (wake v - wake x.1.1) / q := Nat.div_le_div_right (by omega)
        omega
      · intro u _ hu
        unfold cap
        rw [stepN_other2 st hown h x.1 _ ok u hu]
        unfold wakeAfter
        rw [if_neg hvw, if_neg hu]
        exact Nat.le_refl _
    simp only [List.length_cons]
    omega

/-- a step of a worker that is not over, while nobody is inside a test and nobody is dead, is productive -/
theorem quiet_step_productive2 {g : Graph} {ncls : Nat} (st : StaticN g ncls) (hown : RootsOwned g)
    {store : List (String × List (String × String))} {s : State} (h : GInv2 g ncls store s) (a : StepN) (r : List StepN)
    (ok : RunOK2 g (a :: r)) (hno : isOver (s.wd a.1).pc = false)
    (hnt : ¬ ∃ v, v < g.workers.length ∧ (s.wd v).pc.isTest = true)
    (hnf : ∀ v, v < g.workers.length → (s.wd v).pc ≠ .failed) :
    productive (s.wd a.1).pc ((stepN g s a).wd a.1).pc = true := by
  have hsym := edgeSymB_sound st.sym
  have hp := h.reachF.pinv hsym
  have hq : Quiet a.1 s := by
    intro v _
    by_cases hvl : v < g.workers.length
    · refine ⟨?_, hnf v hvl⟩
      cases hpc : (s.wd v).pc with
      | test n ph dir uid tag wait => exact absurd ⟨v, hvl, by rw [hpc]; rfl⟩ hnt
      | _ => rfl
    · rw [wd_default_of_ge s v (by rw [hp.wlen]; exact hvl)]
      exact ⟨rfl, by simp⟩
  have hf0 : 0 < a.2.2 := Nat.lt_of_lt_of_le (bound_pos g) ok.1.2
  obtain ⟨x1, _⟩ := resume_quiet g hsym s a.1 a.2.1 a.2.2 hf0 ok.1.1 hp hq
  exact productive_of_not_bounce hno x1

/-- **at most `|workers|·(T/q + 1)` consecutive back-off steps**: a longer stretch of a timed run, taken from a state where
nobody is dead, contains a productive step -/
theorem timed_window_productive2 {g : Graph} {ncls : Nat} (st : StaticN g ncls) (hown : RootsOwned g)
    {store : List (String × List (String × String))} (q T : Nat) (hq : 0 < q) (win : List TStepN) (wake : Nat → Nat)
    (s : State) (h : GInv2 g ncls store s) (ok : RunOK2 g (win.map (·.1))) (ht : Timed g q T wake s win)
    (hd : Due g T wake s) (hnf : ∀ v, v < g.workers.length → (s.wd v).pc ≠ .failed)
    (hlen : g.workers.length * (T / q + 1) + 1 ≤ win.length) : 1 ≤ productiveSteps g s (win.map (·.1)) := by
  cases hz : productiveSteps g s (win.map (·.1)) with
  | succ k => omega
  | zero =>
    exfalso
    by_cases hnt : ∃ v, v < g.workers.length ∧ (s.wd v).pc.isTest = true
    · obtain ⟨v, hv, htv⟩ := hnt
      have a := backoff_stretch_le2 st hown q T hq win wake s h ok ht v hv htv hz
      have b := phiT_le hq hd v hv htv
      omega
    · cases win with
      | nil => simp at hlen
      | cons x r =>
        rw [List.map_cons] at ok hz
        rw [productiveSteps_cons, quiet_step_productive2 st hown h x.1 _ ok ht.1.1 hnt hnf] at hz
        simp at hz

/-- a timed run is lively with `K = |workers|·(T/q + 1) + 1` -/
theorem timed_lively2 {g : Graph} {ncls : Nat} (st : StaticN g ncls) (hown : RootsOwned g) {store : List (String × List (String × String))}
    (q T : Nat) (hq : 0 < q) (steps : List TStepN) (wake : Nat → Nat) (s : State) (h : GInv2 g ncls store s)
    (ok : RunOK2 g (steps.map (·.1))) (ht : Timed g q T wake s steps) (hd : Due g T wake s) :
    Lively g (g.workers.length * (T / q + 1) + 1) s (steps.map (·.1)) := by
  induction steps generalizing wake s with
  | nil => trivial
  | cons x r ih =>
    have hd' := due_step2 st hown q T wake h x r ok ht hd
    rw [List.map_cons] at ok ⊢
    refine ⟨fun hKl ha => ?_, ih _ _ (ginv2_stepN st hown h x.1 _ ok) ok.2 ht.2 hd'⟩
    rw [← List.map_cons (f := fun y : TStepN => y.1), ← List.map_take] at ha ⊢
    have okw : RunOK2 g (((x :: r).take (g.workers.length * (T / q + 1) + 1)).map (·.1)) := by
      rw [List.map_take]; exact runOK2_take g _ _ ok
    have ha0 := alive_of_run2 st hown _ s h okw ha
    refine timed_window_productive2 st hown q T hq _ wake s h okw (timed_take g q T _ (x :: r) wake s ht) hd ha0.2 ?_
    rw [List.length_take]
    simp only [List.length_cons, List.length_map] at hKl ⊢
    omega

/-- **a lively run that ends with at most `R` results is over after `(24·R + 12·|workers| + 1)·K` steps** -/
theorem lively_run_over2 {g : Graph} {ncls : Nat} (st : StaticN g ncls) (hown : RootsOwned g)
    (store : List (String × List (String × String))) (K : Nat) (hK : 0 < K) (steps : List StepN) (ok : RunOK2 g steps)
    (hl : Lively g K (initState g ncls store []) steps) (R : Nat)
    (hR : total g (runStepsN g (initState g ncls store []) steps) ≤ R)
    (hlen : (24 * R + 12 * g.workers.length + 1) * K ≤ steps.length) :
    ¬ Alive g (runStepsN g (initState g ncls store []) steps) := by
  intro ha
  have h1 := lively_productive2 st hown K hK _ steps _ (ginv2_init g ncls store) ok hl hlen ha
  have h2 := productive_le_run2 st hown store steps ok R hR
  omega

theorem due_init (g : Graph) (ncls : Nat) (store : List (String × List (String × String))) (T : Nat) (wake : Nat → Nat) :
    Due g T wake (initState g ncls store []) := by
  intro v u _ _ htv _
  rw [init_pc] at htv; cases htv


/-! ## the bump counters are bounded

`max_concurrent_tries` of copy `n` is raised in the back-off branch only, i.e. when `n` is occupied: the number of DIFFERENT
workers holding a `started` mark in the scope is at least the threshold `max(mctOf n, 1)`; after the first bump the threshold
is `max_concurrent_tries₀ + bump` (`max_concurrent_tries₀` = the configured value or 0).  Marks belong to real workers, so a
copy is bumped at most `max(1, |workers| + 1 - max_concurrent_tries₀)` times. -/

/-- the bound on the bump counter of copy `n` -/
def bumpCap (g : Graph) (n : Nat) : Nat := max 1 ((g.workers.length : Int) + 1 - (g.node n).mct.getD 0).toNat

def BCap (g : Graph) (s : State) : Prop := ∀ i, (s.nd i).bump ≤ bumpCap g i

/-- every `started` mark belongs to a real worker other than `w` -/
def MarksOK (g : Graph) (w : Nat) (s : State) : Prop := ∀ i v, (s.nd i).started = some v → v ≠ w ∧ v < g.workers.length

theorem BCap.calm {g : Graph} {w : Nat} {s s' : State} (h : BCap g s) (a : Calm w s s') : BCap g s' :=
  fun i => by rw [a.bump i]; exact h i

theorem marksOK_of_pinvO {g : Graph} {s : State} {w : Nat} (ho : PInvO g s w) : MarksOK g w s := by
  intro i v hs
  obtain ⟨hv, hpc⟩ := ho.markPc i v hs
  refine ⟨hv, ?_⟩
  rw [← ho.wlen]
  apply real_of_runner
  rcases hpc with h | h
  · left; rw [h]; simp
  · right; exact h

theorem nodup_length_le (W : Nat) (l : List Nat) (hl : l.Nodup) (h : ∀ x ∈ l, x < W) : l.length ≤ W := by
  induction W generalizing l with
  | zero =>
    cases l with
    | nil => simp
    | cons a r => have := h a List.mem_cons_self; omega
  | succ W ih =>
    by_cases hW : W ∈ l
    · have := ih (l.erase W) (hl.erase W) (fun x hx => by
        have hx' := (hl.mem_erase_iff).mp hx
        have := h x hx'.2
        have := hx'.1
        omega)
      rw [List.length_erase_of_mem hW] at this
      omega
    · exact Nat.le_succ_of_le (ih l hl (fun x hx => by
        have := h x hx
        have : x ≠ W := fun e => hW (e ▸ hx)
        omega))

/-- an occupied copy that has been bumped before: its threshold is at most the number of workers -/
theorem occupied_bump {g gv : Graph} (hgv : SameNodes gv g) (s : State) (n w : Nat) (hm : MarksOK g w s)
    (hocc : isOccupied gv s n w = true) (hb : 0 < (s.nd n).bump) :
    (g.node n).mct.getD 0 + ((s.nd n).bump : Int) ≤ g.workers.length := by
  have hset : ∀ v ∈ sharedStarted gv s n, v ≠ w ∧ v < g.workers.length := by
    intro v hv
    unfold sharedStarted at hv
    rw [mem_dedupNat, List.mem_filterMap] at hv
    obtain ⟨i, _, hi⟩ := hv
    exact hm i v hi
  have hlen : (sharedStarted gv s n).length ≤ g.workers.length :=
    nodup_length_le _ _ (nodup_sharedStarted gv s n) (fun v hv => (hset v hv).2)
  have hthr : mctOf gv s n = (g.node n).mct.getD 0 + ((s.nd n).bump : Int) := by
    unfold mctOf
    dsimp only
    rw [hgv.mct']
    have : ((s.nd n).bump : Int) > 0 := by omega
    rw [if_pos this]
  unfold isOccupied isStarted at hocc
  rw [hthr] at hocc
  split at hocc
  · cases hocc
  · unfold scopeCount at hocc
    have hne : (max ((g.node n).mct.getD 0 + ((s.nd n).bump : Int)) 1 == -1) = false := by
      have : max ((g.node n).mct.getD 0 + ((s.nd n).bump : Int)) 1 ≠ -1 := by omega
      simpa using this
    cases hsh : (gv.node n).shape with
    | own =>
      rw [hsh] at hocc
      have : w ∈ sharedStarted gv s n := by simpa using hocc
      exact absurd rfl (hset w this).1
    | swarm =>
      rw [hsh] at hocc
      simp only [hne, Bool.false_eq_true, if_false, decide_eq_true_eq] at hocc
      have := List.length_filter_le (fun v => (gv.worker v).swarm == (gv.worker w).swarm) (sharedStarted gv s n)
      omega
    | global =>
      rw [hsh] at hocc
      simp only [hne, Bool.false_eq_true, if_false, decide_eq_true_eq] at hocc
      omega

theorem bump_succ_le {g gv : Graph} (hgv : SameNodes gv g) (s : State) (n w : Nat) (hm : MarksOK g w s)
    (hocc : isOccupied gv s n w = true) : (s.nd n).bump + 1 ≤ bumpCap g n := by
  unfold bumpCap
  by_cases hb : 0 < (s.nd n).bump
  · have := occupied_bump hgv s n w hm hocc hb
    omega
  · omega

/-- one iteration keeps the bump counters within their bounds -/
theorem iter_bcap {g gv : Graph} (hgv : SameNodes gv g) (s : State) (w : Nat) (hm : MarksOK g w s) (hc : BCap g s) :
    BCap g (iter gv s w).1 := by
  unfold iter
  dsimp only
  split
  · split
    · exact hc.calm (calm_setWd w s w _ (fun _ => rfl) (fun _ => rfl))
    · exact hc
  · cases hl : (s.wd w).path.getLast? with
    | none => exact hc
    | some next =>
      dsimp only
      split
      · cases hp : pickChild gv s next w with
        | none => exact hc
        | some r => obtain ⟨x, s2⟩ := r; exact hc.calm (calm_pickChild w gv s next w x s2 hp)
      · split
        · -- the bounce: the only place where a bump counter is written
          rename_i hocc
          intro i
          rw [nd_setWd]
          by_cases hcn : (s.wd w).occAt.contains next = true
          · by_cases hov : (s.wd w).occWait >
                Float.ofInt (((gv.node next).timeout : Int) * max ((gv.node next).maxTries.getD 1) 1)
            · simp only [hcn, if_true, hov, nd_setWd]
              rcases nd_setNd_cases s next (fun d => { d with bump := d.bump + 1 }) i with h | ⟨h1, _, h⟩
              · rw [h]; exact hc i
              · rw [h, h1]
                exact bump_succ_le hgv s next w hm hocc
            · simp only [hcn, if_true, hov, if_false, nd_setWd]
              exact hc i
          · simp only [hcn, Bool.false_eq_true, if_false, nd_setWd]
            exact hc i
        · split
          · split
            · exact hc.calm (calm_traverseNode w gv s w next _ .up)
            · cases hp : pickParent gv s next w with
              | none => exact hc
              | some r => obtain ⟨x, s2⟩ := r; exact hc.calm (calm_pickParent w gv s next w x s2 hp)
          · split
            · split
              · cases hp : pickParent gv s next w with
                | none => exact hc
                | some r => obtain ⟨x, s2⟩ := r; exact hc.calm (calm_pickParent w gv s next w x s2 hp)
              · exact hc.calm (calm_traverseNode w gv s w next _ .down)
            · exact hc

theorem iterL_bcap (g : Graph) (s : State) (w : Nat) (hm : MarksOK g w s) (hc : BCap g s) : BCap g (iterL g s w).1 := by
  unfold iterL
  split
  · exact iter_bcap (sameNodes_vis g s) s w hm hc
  · dsimp only
    have h0 := calm_prepare w g s w
    have hn := (prepare_frame g s w).1
    refine iter_bcap (sameNodes_vis g (prepare g s w)) (prepare g s w) w ?_ (hc.calm h0)
    intro i v hs
    rw [nd_of_nodes_eq' hn] at hs
    exact hm i v hs

theorem runLoop_bcap (g : Graph) (hsym : EdgeSym g) (w fuel : Nat) (s : State) (evs : List Event) (ho : PInvO g s w)
    (hp : PathOK (Adj (vis g s)) (fun x => relevant g w x = true) g.root (s.wd w).path)
    (hw : w < s.workers.length) (hc : BCap g s) : BCap g (runLoop g w fuel s evs).1 := by
  induction fuel generalizing s evs with
  | zero => exact hc
  | succ fuel ih =>
    unfold runLoop
    dsimp only
    have e0 : Eff w none s (s.setWd w (fun d => { d with pc := .loop })) := eff_setWd w none s _
    have c0 : Calm w s (s.setWd w (fun d => { d with pc := .loop })) := calm_setWd w s w _ (fun _ => rfl) (fun _ => rfl)
    have hwd := wd_setWd_eq s w (fun d => { d with pc := .loop }) hw
    have ho0 : PInvO g (s.setWd w (fun d => { d with pc := .loop })) w :=
      ho.transfer e0.workersLen (fun x hx => by rw [← e0.hidden]; exact hx)
        (fun v hv => by rw [e0.others v hv]; exact ⟨rfl, rfl⟩) (fun i => Or.inl rfl)
    have hp0 : PathOK (Adj (vis g (s.setWd w (fun d => { d with pc := .loop })))) (fun x => relevant g w x = true) g.root
        ((s.setWd w (fun d => { d with pc := .loop })).wd w).path := by
      rw [hwd]
      exact hp.mono (fun a b => adj_vis_mono g s _ (fun x hx => by rw [← e0.hidden]; exact hx) a b)
    have hw0 : w < (s.setWd w (fun d => { d with pc := .loop })).workers.length := by rw [e0.workersLen]; exact hw
    obtain ⟨hl, hcont, _, _⟩ := iterL_inv g hsym _ w ho0 hp0 (by rw [hwd]; rfl)
    have hit := iterL_bcap g _ w (marksOK_of_pinvO ho0) (hc.calm c0)
    split
    · next s1 e heq =>
      rw [heq] at hcont hl hit
      obtain ⟨a, b, _⟩ := hcont rfl
      exact ih s1 _ a b (by rw [hl]; exact hw0) hit
    · next s1 e heq =>
      rw [heq] at hit
      exact hit
    · next s1 e heq =>
      rw [heq] at hit
      exact hit
    · next s1 e what heq =>
      rw [heq] at hit
      intro i
      rw [nd_setWd]
      exact hit i

theorem continueAfter_bcap (g : Graph) (hsym : EdgeSym g) (w n : Nat) (phase : Phase) (dir : Dir) (fuel : Nat)
    (s : State) (ok : Bool) (evs : List Event) (h : PInv g s) (hpcw : (s.wd w).pc.node? = some n) (hc : BCap g s) :
    BCap g (resumeTest.continueAfter g w n phase dir fuel s ok evs).1 := by
  obtain ⟨hid, hlast, hlen⟩ := h.testOwn w n hpcw
  have hw : w < s.workers.length := lt_of_path_ne_nil s w (by intro h0; rw [h0] at hlen; simp at hlen)
  unfold resumeTest.continueAfter
  dsimp only
  split
  · exact hc.calm (calm_startTest w g s n w .main dir)
  · have q2 : Qt w none s (if (phase == Phase.pre) = true then
          s.setNd n (fun d => { d with results := d.results ++ (s.wd w).preResults.drop d.results.length })
        else s) := by
      split
      · refine qt_setNd w none s n _ ?_
        intro d; exact Or.inl rfl
      · exact Qt.refl _ _ _
    have c2 : Calm w s (if (phase == Phase.pre) = true then
          s.setNd n (fun d => { d with results := d.results ++ (s.wd w).preResults.drop d.results.length })
        else s) := by
      split
      · exact calm_setNd w s n _ (fun _ => rfl)
      · exact Calm.refl w s
    obtain ⟨hoF, hpF, hlF, hnF, hwF, _⟩ := h.finish hpcw q2
    have cF := c2.trans (calm_finishTraverse w _ n w)
    generalize hsF : finishTraverse (if (phase == Phase.pre) = true then
          s.setNd n (fun d => { d with results := d.results ++ (s.wd w).preResults.drop d.results.length })
        else s) n w = sF at hoF hpF hlF hnF hwF cF
    obtain ⟨a, b, c, _⟩ := afterTraverse_ok (vis g sF) (edgeSym_vis g sF hsym) sF w n
      ((s.wd w).path.getD ((s.wd w).path.length - 2) 0) dir hwF hlF hnF
    have cA := cF.trans (calm_afterTraverse w (vis g sF) sF w n ((s.wd w).path.getD ((s.wd w).path.length - 2) 0) dir)
    generalize afterTraverse (vis g sF) sF w n ((s.wd w).path.getD ((s.wd w).path.length - 2) 0) dir = r at a b c cA
    have hhid : ∀ x, x ∈ r.1.hidden → x ∈ sF.hidden := by intro x hx; rw [← a.hidden]; exact hx
    have ho' : PInvO g r.1 w := hoF.transfer a.workersLen hhid (fun v hv => by rw [a.others v hv]; exact ⟨rfl, rfl⟩)
      (fun i => by
        rcases a.marks i with h' | h' | h'
        · exact Or.inl h'
        · exact Or.inr h'
        · exact absurd h'.1 (by simp))
    have hp' := pathOK_eff g sF r.1 w _ _ hhid hpF c
    have hw' : w < r.1.workers.length := by rw [a.workersLen]; exact hwF
    obtain ⟨s1, e2, fl⟩ := r
    have loopCase : ∀ evs', BCap g (runLoop g w fuel s1 evs').1 :=
      fun evs' => runLoop_bcap g hsym w fuel s1 evs' ho' hp' hw' (hc.calm cA)
    cases fl with
    | raise what =>
      dsimp only
      intro i
      rw [nd_setWd]
      exact (hc.calm cA) i
    | cont => exact loopCase _
    | suspend => exact loopCase _
    | exit => exact loopCase _

theorem resumeTest_bcap (g : Graph) (hsym : EdgeSym g) (s : State) (w n : Nat) (phase : Phase) (dir : Dir) (uid : String)
    (tag wait : Nat) (out : Outcome) (fuel : Nat) (h : PInv g s) (hpcw : (s.wd w).pc.node? = some n) (hc : BCap g s) :
    BCap g (resumeTest g s w n phase dir uid tag wait out fuel).1 := by
  rw [resumeTest_eq]
  obtain ⟨r1, r2, r3⟩ := reportOutcome_frame g s w n phase uid wait out
  have bA : BookOnly s (reportOutcome g s w n phase uid wait out).1 :=
    ⟨by rw [r2], r3, fun v => by unfold State.wd; rw [r2]; exact ⟨rfl, rfl⟩, fun i => by unfold State.nd; rw [r1]⟩
  have hA := h.bookOnly bA
  have cA : Calm w s (reportOutcome g s w n phase uid wait out).1 := Calm.quiet r1 r2
  have hpcA : ((reportOutcome g s w n phase uid wait out).1.wd w).pc.node? = some n := by rw [(bA.wd w).2]; exact hpcw
  have hcA := hc.calm cA
  generalize (reportOutcome g s w n phase uid wait out).1 = sa at hA hpcA bA cA hcA
  have waitCase : ∀ k, BCap g (sa.setWd w (fun d => { d with pc := .test n phase dir uid tag k })) := by
    intro k i
    rw [nd_setWd]
    exact hcA i
  split
  · next st0 dur _ =>
    have bB := recordResult_frame sa w n phase (if (phase == Phase.pre) = true then (s.wd w).preName else (g.node n).name) uid tag st0 dur
    have cB := calm_recordResult w sa w n phase (if (phase == Phase.pre) = true then (s.wd w).preName else (g.node n).name) uid tag st0 dur
    exact continueAfter_bcap g hsym w n phase dir fuel _
      (recordResult sa w n phase (if (phase == Phase.pre) = true then (s.wd w).preName else (g.node n).name) uid tag st0 dur).2
      (reportOutcome g s w n phase uid wait out).2
      (hA.bookOnly bB) (by rw [(bB.wd w).2]; exact hpcA) (hcA.calm cB)
  · split
    · exact waitCase _
    · split
      · exact waitCase _
      · exact continueAfter_bcap g hsym w n phase dir fuel sa false
          (reportOutcome g s w n phase uid wait out).2 hA hpcA hcA

/-- **a step keeps every bump counter within `bumpCap`** -/
theorem resume_bcap (g : Graph) (hsym : EdgeSym g) (s : State) (w : Nat) (out : Outcome) (fuel : Nat)
    (hw : w < g.workers.length) (h : PInv g s) (hc : BCap g s) : BCap g (resume g s w out fuel).1 := by
  have hws : w < s.workers.length := by rw [h.wlen]; exact hw
  have loopCase : (s.wd w).pc.node? = none → (s.wd w).pc ≠ .failed → (s.wd w).pc ≠ .done →
      BCap g (runLoop g w fuel s []).1 := by
    intro h2 h3 h4
    refine runLoop_bcap g hsym w fuel s [] (h.toO h2 h3) ?_ hws hc
    rcases h.path w hws with h' | h'
    · exact absurd h'.2 h4
    · exact h'
  unfold resume
  split
  · next heq => exact loopCase (by rw [heq]; rfl) (by rw [heq]; simp) (by rw [heq]; simp)
  · next heq => exact loopCase (by rw [heq]; rfl) (by rw [heq]; simp) (by rw [heq]; simp)
  · next n phase dir uid tag wait heq =>
    exact resumeTest_bcap g hsym s w n phase dir uid tag wait out fuel h (by rw [heq]; rfl) hc
  · exact hc
  · exact hc

theorem bcap_init (g : Graph) (ncls : Nat) (store : List (String × List (String × String))) (hidden : List Nat) :
    BCap g (initState g ncls store hidden) := by
  intro i
  have : ((initState g ncls store hidden).nd i).bump = 0 := by
    unfold initState State.nd
    simp only [List.getD_eq_getElem?_getD, List.getElem?_map]
    cases g.nodes[i]? <;> rfl
  rw [this]
  exact Nat.zero_le _

/-- **in every reachable state every bump counter is within `bumpCap`** (any graph with edges recorded at both ends, lazily
expanded ones included; steps of real workers with positive fuel) -/
theorem reachable_bcap {g : Graph} (hsym : EdgeSym g) {ncls : Nat} {store : List (String × List (String × String))}
    {s : State} (h : ReachableF g ncls store s) : BCap g s := by
  induction h with
  | init hidden => exact bcap_init g ncls store hidden
  | step s w out fuel hr hw _ ih => exact resume_bcap g hsym s w out fuel hw (hr.pinv hsym) ih


/-! ## the number of results, with and without bumps; the run-level theorems -/

/-- `Σ_n max(max(max_tries n, 1) + 1, |workers| + 1)`: the bound on the number of results when bumps are allowed -/
def resultBoundB (g : Graph) : Nat :=
  ((List.range g.nodes.length).map
    (fun n => max ((max ((g.node n).maxTries.getD 1) 1).toNat + 1) (g.workers.length + 1))).sum

/-- with bump counters within `bumpCap` and `max_concurrent_tries₀ ≤ max(max_tries, 1)`, the largest threshold of a class is
at most `max(max(max_tries, 1) + 1, |workers| + 1)` -/
theorem classLimit_le_of_bcap {g : Graph} {c : Nat} {M : Option Int} {sh : Shape} (hc : BClass g c M sh)
    (hm : mctWithin g c M = true) (s : State) (hb : BCap g s) :
    classLimit g s c ≤ max ((max (M.getD 1) 1).toNat + 1) (g.workers.length + 1) := by
  unfold classLimit
  apply foldr_max_le
  intro m hm1
  rw [mem_classNodes] at hm1
  have hcap := hb m
  unfold bumpCap at hcap
  unfold mctWithin at hm
  rw [List.all_eq_true] at hm
  have hm' := hm m ((mem_classNodes g c m).mpr hm1)
  have hM := (hc.node m hm1.1 hm1.2).2.2.2.1
  unfold peakLimit limit limit0 mctOf
  dsimp only
  rw [hM]
  cases hk : (g.node m).mct with
  | none =>
    rw [hk] at hcap
    simp only [Option.getD_none] at hcap ⊢
    split <;> omega
  | some k =>
    rw [hk] at hm' hcap
    simp only [decide_eq_true_eq] at hm'
    simp only [Option.getD_some] at hcap ⊢
    split <;> omega

/-- **the number of results never exceeds `resultBoundB g`**, whatever has been bumped -/
theorem total_le_resultBoundB {g : Graph} (hwf : graphWF g = true) (hcl : classesOKRB g = true) {ncls : Nat}
    {store : List (String × List (String × String))} {s : State} (hR : ReachableR g ncls store s) (hb : BCap g s) :
    total g s ≤ resultBoundB g := by
  refine sum_map_le _ _ _ (fun n hn => ?_)
  have hn' : n < g.nodes.length := List.mem_range.mp hn
  unfold classesOKRB at hcl
  rw [List.all_eq_true] at hcl
  have hc := hcl n hn
  rw [Bool.or_eq_true, Bool.and_eq_true, Bool.or_eq_true] at hc
  have stateful : ∀ {M : Option Int} {sh : Shape}, M = (g.node n).maxTries → BClass g (g.node n).cls M sh →
      mctWithin g (g.node n).cls M = true →
      (s.nd n).results.length ≤ max ((max (M.getD 1) 1).toNat + 1) (g.workers.length + 1) := by
    intro M sh _ hC hm
    have b := hR.binv hwf hC
    by_cases hne : (s.nd n).results = []
    · rw [hne]; exact Nat.zero_le _
    · obtain ⟨u, hu, h1⟩ := len_le_scopedLen hC b n hn' rfl hne
      have h2 := b.budget u hu [] List.nodup_nil (fun v hv => by cases hv)
      have h3 := classLimit_le_of_bcap hC hm s hb
      simp only [List.length_nil, Nat.add_zero] at h2
      omega
  rcases hc with hc | ⟨hc | hc, hm⟩
  · have hle : (s.nd n).results.length ≤ classLen g s (g.node n).cls :=
      Term.le_sum_of_mem (g.classNodes (g.node n).cls) (fun j => (s.nd j).results.length) n
        ((mem_classNodes g _ n).mpr ⟨hn', rfl⟩)
    have := hR.budget hwf (g.node n).cls (g.node n).maxTries hc
    omega
  · exact stateful rfl (statefulClass_spec hc) hm
  · exact stateful rfl (statefulClassRoots_spec hc).1 hm

theorem noBump_init (g : Graph) (ncls : Nat) (store : List (String × List (String × String))) :
    NoBump (initState g ncls store []) := (ginvN_init g ncls store).noBump

theorem noBump_run (g : Graph) (steps : List StepN) (s : State) (hb : BumpFree g s steps) (h0 : NoBump s) :
    NoBump (runStepsN g s steps) := by
  induction steps generalizing s with
  | nil => exact h0
  | cons a r ih =>
    rw [runStepsN_cons]
    exact ih _ hb.2 (fun i => (hb.1 i).trans (h0 i))

/-- the number of results at the end of a run from the initial state: `resultBoundB` always, `resultBound` if nothing was
bumped -/
theorem total_run_le {g : Graph} {ncls : Nat} (st : StaticN g ncls) (hcl : classesOKRB g = true)
    (store : List (String × List (String × String))) (steps : List StepN) (ok : RunOK2 g steps) :
    total g (runStepsN g (initState g ncls store []) steps) ≤ resultBoundB g ∧
    (BumpFree g (initState g ncls store []) steps →
      total g (runStepsN g (initState g ncls store []) steps) ≤ resultBound g) := by
  have y := ginv2_run st (rootsOwned_of_classesOKRB hcl) steps _ (ginv2_init g ncls store) ok
  exact ⟨total_le_resultBoundB st.wf hcl y.reachR (reachable_bcap (edgeSymB_sound st.sym) y.reachF),
    fun hb => total_le_resultBoundR st.wf hcl y.reachR (noBump_run g steps _ hb (noBump_init g ncls store))⟩

/-- **fair runs, object roots allowed, nothing bumped** -/
theorem fair_run_over_roots {g : Graph} {ncls : Nat} (st : StaticN g ncls) (hcl : classesOKRB g = true)
    (store : List (String × List (String × String))) (K : Nat) (hK : 0 < K) (steps : List StepN) (ok : RunOK2 g steps)
    (hb : BumpFree g (initState g ncls store []) steps) (hfair : FairW g K (initState g ncls store []) steps)
    (hlen : (24 * resultBound g + 12 * g.workers.length + 1) * K ≤ steps.length) :
    ¬ Alive g (runStepsN g (initState g ncls store []) steps) :=
  lively_run_over2 st (rootsOwned_of_classesOKRB hcl) store K hK steps ok
    (fair_lively2 st (rootsOwned_of_classesOKRB hcl) K steps _ (ginv2_init g ncls store) ok hfair) _
    ((total_run_le st hcl store steps ok).2 hb) hlen

/-- **fair runs, object roots and bumps allowed** -/
theorem fair_run_over_bumps {g : Graph} {ncls : Nat} (st : StaticN g ncls) (hcl : classesOKRB g = true)
    (store : List (String × List (String × String))) (K : Nat) (hK : 0 < K) (steps : List StepN) (ok : RunOK2 g steps)
    (hfair : FairW g K (initState g ncls store []) steps)
    (hlen : (24 * resultBoundB g + 12 * g.workers.length + 1) * K ≤ steps.length) :
    ¬ Alive g (runStepsN g (initState g ncls store []) steps) :=
  lively_run_over2 st (rootsOwned_of_classesOKRB hcl) store K hK steps ok
    (fair_lively2 st (rootsOwned_of_classesOKRB hcl) K steps _ (ginv2_init g ncls store) ok hfair) _
    (total_run_le st hcl store steps ok).1 hlen

/-- **timed runs, object roots allowed, nothing bumped** -/
theorem timed_run_over_roots {g : Graph} {ncls : Nat} (st : StaticN g ncls) (hcl : classesOKRB g = true)
    (store : List (String × List (String × String))) (q T : Nat) (hq : 0 < q) (wake : Nat → Nat) (steps : List TStepN)
    (ok : RunOK2 g (steps.map (·.1))) (hb : BumpFree g (initState g ncls store []) (steps.map (·.1)))
    (ht : Timed g q T wake (initState g ncls store []) steps)
    (hlen : (24 * resultBound g + 12 * g.workers.length + 1) * (g.workers.length * (T / q + 1) + 1) ≤ steps.length) :
    ¬ Alive g (runStepsN g (initState g ncls store []) (steps.map (·.1))) :=
  lively_run_over2 st (rootsOwned_of_classesOKRB hcl) store _ (Nat.succ_pos _) _ ok
    (timed_lively2 st (rootsOwned_of_classesOKRB hcl) q T hq steps wake _ (ginv2_init g ncls store) ok ht
      (due_init g ncls store T wake)) _
    ((total_run_le st hcl store _ ok).2 hb) (by rw [List.length_map]; exact hlen)

/-- **timed runs, object roots and bumps allowed** -/
theorem timed_run_over_bumps {g : Graph} {ncls : Nat} (st : StaticN g ncls) (hcl : classesOKRB g = true)
    (store : List (String × List (String × String))) (q T : Nat) (hq : 0 < q) (wake : Nat → Nat) (steps : List TStepN)
    (ok : RunOK2 g (steps.map (·.1))) (ht : Timed g q T wake (initState g ncls store []) steps)
    (hlen : (24 * resultBoundB g + 12 * g.workers.length + 1) * (g.workers.length * (T / q + 1) + 1) ≤ steps.length) :
    ¬ Alive g (runStepsN g (initState g ncls store []) (steps.map (·.1))) :=
  lively_run_over2 st (rootsOwned_of_classesOKRB hcl) store _ (Nat.succ_pos _) _ ok
    (timed_lively2 st (rootsOwned_of_classesOKRB hcl) q T hq steps wake _ (ginv2_init g ncls store) ok ht
      (due_init g ncls store T wake)) _
    (total_run_le st hcl store _ ok).1 (by rw [List.length_map]; exact hlen)

/-- productive steps of any run (object roots, bumps): at most `24·resultBoundB g + 12·|workers|` -/
theorem productive_le_bumps {g : Graph} {ncls : Nat} (st : StaticN g ncls) (hcl : classesOKRB g = true)
    (store : List (String × List (String × String))) (steps : List StepN) (ok : RunOK2 g steps) :
    productiveSteps g (initState g ncls store []) steps ≤ 24 * resultBoundB g + 12 * g.workers.length :=
  productive_le_run2 st (rootsOwned_of_classesOKRB hcl) store steps ok _ (total_run_le st hcl store steps ok).1


/-! ## the sleeps of the result wait

A step that ends inside a test with a wait counter `≠ 0` is a tick of the result wait of the SAME test: the counter went from
`wait` to `wait + 1 ≤ 10`, and the last event of the step is the sleep of 3000 hundredths (`asyncio.sleep(30)`).  Every other
step that ends inside a test has just started it (counter 0).  So of the bound `T` of `Fair.Timed` only the duration of the
first suspension of a test — the test's own run — is an assumption; the ticks last what the model announces, at most ten
times per test. -/

theorem contEff_wait0 {g : Graph} {w n : Nat} {ph : Phase} {dir : Dir} {sc s' : State} {ok : Bool}
    (h : ContEff g w n ph dir sc ok s') (hw : w < sc.workers.length)
    {n' : Nat} {ph' : Phase} {dir' : Dir} {uid' : String} {tag' wait' : Nat}
    (hpc : (s'.wd w).pc = .test n' ph' dir' uid' tag' wait') : wait' = 0 := by
  rcases h with ⟨_, _, e⟩ | ⟨_, ⟨a, hp⟩ | ⟨s1, a, hs⟩⟩
  · rw [e, startTest_pc g sc n w .main dir hw] at hpc
    cases hpc
    rfl
  · rw [hpc] at hp; cases hp
  · have hl : (if ph = .pre then appendPre sc n w else sc).workers.length = sc.workers.length := by split <;> rfl
    obtain ⟨n2, ph2, dir2, uid2, tag2, e⟩ := startFrom_pc hs (by rw [a.workersLen, hl]; exact hw)
    rw [e] at hpc
    cases hpc
    rfl

theorem resumeTest_tick_sleep (g : Graph) (hwf : GraphWF g) (s : State) (w n : Nat) (ph : Phase) (dir : Dir) (uid : String)
    (tag wait : Nat) (out : Outcome) (fuel : Nat) (hf : 0 < fuel) (hw : w < s.workers.length)
    (hpath : ∀ x ∈ (s.wd w).path, x < g.nodes.length)
    {n' : Nat} {ph' : Phase} {dir' : Dir} {uid' : String} {tag' wait' : Nat}
    (hpc : ((resumeTest g s w n ph dir uid tag wait out fuel).1.wd w).pc = .test n' ph' dir' uid' tag' wait')
    (hne : wait' ≠ 0) :
    (resumeTest g s w n ph dir uid tag wait out fuel).2.getLast? = some (Event.sleep (g.worker w).id 3000) ∧
      n' = n ∧ tag' = tag ∧ wait' = wait + 1 ∧ wait' ≤ 10 := by
  revert hpc
  rw [resumeTest_eq]
  obtain ⟨_, r2, _⟩ := reportOutcome_frame g s w n ph uid wait out
  have hwA : w < (reportOutcome g s w n ph uid wait out).1.workers.length := by rw [r2]; exact hw
  have hpA : ∀ x ∈ ((reportOutcome g s w n ph uid wait out).1.wd w).path, x < g.nodes.length := by
    rw [wd_of_workers_eq r2]; exact hpath
  generalize (reportOutcome g s w n ph uid wait out).1 = sa at hwA hpA
  have tick : ∀ evs : List Event, (wait + 1 < 10 ∨ wait + 1 = 10) →
      ((sa.setWd w (fun d => { d with pc := .test n ph dir uid tag (wait + 1) })).wd w).pc = .test n' ph' dir' uid' tag' wait' →
      (evs ++ [Event.sleep (g.worker w).id 3000]).getLast? = some (Event.sleep (g.worker w).id 3000) ∧
        n' = n ∧ tag' = tag ∧ wait' = wait + 1 ∧ wait' ≤ 10 := by
    intro evs hlt hpc
    rw [wd_setWd_eq sa w _ hwA] at hpc
    cases hpc
    exact ⟨getLast?_append_singleton _ _, rfl, rfl, rfl, by omega⟩
  split
  · next st0 dur _ =>
    intro hpc
    exfalso
    have bB := recordResult_frame sa w n ph (if (ph == Phase.pre) = true then (s.wd w).preName else (g.node n).name) uid tag st0 dur
    have hc := continueAfter_eff g hwf w n ph dir fuel hf _
      (recordResult sa w n ph (if (ph == Phase.pre) = true then (s.wd w).preName else (g.node n).name) uid tag st0 dur).2
      (reportOutcome g s w n ph uid wait out).2 (by rw [bB.workersLen]; exact hwA) (by rw [(bB.wd w).1]; exact hpA)
    exact hne (contEff_wait0 hc (by rw [bB.workersLen]; exact hwA) hpc)
  · split
    · next hlt => exact tick _ (Or.inl hlt)
    · split
      · next heq => exact tick _ (Or.inr (by simpa using heq))
      · intro hpc
        exfalso
        have hc := continueAfter_eff g hwf w n ph dir fuel hf sa false (reportOutcome g s w n ph uid wait out).2 hwA hpA
        exact hne (contEff_wait0 hc hwA hpc)

/-- **a step that ends inside a test with wait counter `≠ 0` is a tick of the result wait**: the worker was inside the same
test with the counter one lower, the counter is at most 10, and the last event is the sleep of 30 s -/
theorem resume_tick_sleep (g : Graph) (hwf : GraphWF g) (s : State) (w : Nat) (out : Outcome) (fuel : Nat) (hf : 0 < fuel)
    (hw : w < s.workers.length) (hpath : ∀ x ∈ (s.wd w).path, x < g.nodes.length)
    {n' : Nat} {ph' : Phase} {dir' : Dir} {uid' : String} {tag' wait' : Nat}
    (hpc : ((resume g s w out fuel).1.wd w).pc = .test n' ph' dir' uid' tag' wait') (hne : wait' ≠ 0) :
    (resume g s w out fuel).2.getLast? = some (Event.sleep (g.worker w).id 3000) ∧ wait' ≤ 10 ∧
      ∃ ph dir uid wait, (s.wd w).pc = .test n' ph dir uid tag' wait ∧ wait' = wait + 1 := by
  have loopCase : ((runLoop g w fuel s []).1.wd w).pc = .test n' ph' dir' uid' tag' wait' → False := by
    intro hpc
    rcases runLoop_eff_pos g hwf w fuel hf s [] hw hpath with ⟨_, hp⟩ | ⟨s1, a, hs⟩
    · rw [hpc] at hp; cases hp
    · obtain ⟨n2, ph2, dir2, uid2, tag2, e⟩ := startFrom_pc hs (by rw [a.workersLen]; exact hw)
      rw [e] at hpc
      cases hpc
      exact hne rfl
  revert hpc
  unfold resume
  split
  · intro hpc; exact (loopCase hpc).elim
  · intro hpc; exact (loopCase hpc).elim
  · next n ph dir uid tag wait heq =>
    intro hpc
    obtain ⟨x1, x2, x3, x4, x5⟩ := resumeTest_tick_sleep g hwf s w n ph dir uid tag wait out fuel hf hw hpath hpc hne
    refine ⟨x1, x5, ph, dir, uid, wait, ?_, x4⟩
    rw [x2, x3]
    exact heq
  · next heq => intro hpc; rw [heq] at hpc; cases hpc
  · next heq => intro hpc; rw [heq] at hpc; cases hpc

end I2N.Trav.Fair2
