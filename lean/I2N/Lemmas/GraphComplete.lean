import I2N.Lemmas.Graph
import Mathlib.Data.Finset.Card
/-!
Completeness of the verified graph checker `Graph.wellFormed` (property C06): every clause of the checker is
*decided* by its Prop-level statement, so the checker is an exact decision procedure of `WF'`.

`WF` (of `I2N/Lemmas/Graph.lean`) is strictly weaker than what the checker demands in three places (net object
first, clone pairs irreflexive, every flagged clone source has a clone); `WF'` adds exactly these.

The hard clause is acyclicity: `checkAcyclic` computes `size` relaxation rounds from the all-zero rank and checks
that the result strictly decreases along every setup edge.  On an acyclic graph with in-range edges a value that
still changes in round `k+1` yields a setup walk of `k+1` edges (`walk_of_change`); an acyclic graph with `size`
nodes has no walk of `size` edges (`walk_lt_size`, by collecting `k+1` different vertices); so round `size+1`
changes nothing, and a rank that is its own relaxation strictly decreases along every edge.
-/
set_option linter.dupNamespace false

namespace I2N.Graph

/-! ## `foldl max` -/

theorem foldl_max_ge_init : ∀ (l : List Nat) (a : Nat), a ≤ l.foldl max a
  | [], _ => Nat.le_refl _
  | x :: xs, a => by
    simp only [List.foldl_cons]
    exact Nat.le_trans (Nat.le_max_left a x) (foldl_max_ge_init xs (max a x))

theorem foldl_max_ge_mem : ∀ (l : List Nat) (a x : Nat), x ∈ l → x ≤ l.foldl max a
  | [], _, _, h => by simp at h
  | y :: ys, a, x, h => by
    simp only [List.foldl_cons]
    rcases List.mem_cons.mp h with h | h
    · subst h
      exact Nat.le_trans (Nat.le_max_right a x) (foldl_max_ge_init ys (max a x))
    · exact foldl_max_ge_mem ys (max a y) x h

theorem foldl_max_eq : ∀ (l : List Nat) (a : Nat), l.foldl max a = a ∨ l.foldl max a ∈ l
  | [], _ => Or.inl rfl
  | y :: ys, a => by
    simp only [List.foldl_cons, List.mem_cons]
    rcases foldl_max_eq ys (max a y) with h | h
    · rw [h]
      rcases Nat.le_total a y with hay | hay
      · right; left; exact Nat.max_eq_right hay
      · left; exact Nat.max_eq_left hay
    · right; right; exact h

/-! ## the relaxation -/

theorem relax_length (g : Graph) (r : List Nat) : (g.relax r).length = g.size := by
  simp [Graph.relax]

theorem relax_getD (g : Graph) (r : List Nat) (c : Nat) (hc : c < g.size) :
    (g.relax r).getD c 0 = ((g.parents c).map (fun p => r.getD p 0 + 1)).foldl max 0 := by
  simp [Graph.relax, List.getD_eq_getElem?_getD, List.getElem?_map, List.getElem?_range hc]

theorem relaxN_succ (g : Graph) : ∀ (k : Nat) (r : List Nat), g.relaxN (k + 1) r = g.relax (g.relaxN k r)
  | 0, _ => rfl
  | k + 1, r => by
    show g.relaxN (k + 1) (g.relax r) = g.relax (g.relaxN k (g.relax r))
    exact relaxN_succ g k (g.relax r)

/-- the relaxed value dominates every parent's old value plus one -/
theorem relax_ge (g : Graph) (r : List Nat) (c p : Nat) (hc : c < g.size) (hp : p ∈ g.parents c) :
    r.getD p 0 + 1 ≤ (g.relax r).getD c 0 := by
  rw [relax_getD g r c hc]
  exact foldl_max_ge_mem _ 0 _ (List.mem_map.mpr ⟨p, hp, rfl⟩)

/-- a positive relaxed value is attained at some parent -/
theorem relax_attained (g : Graph) (r : List Nat) (c : Nat) (hc : c < g.size)
    (hpos : 0 < (g.relax r).getD c 0) : ∃ p ∈ g.parents c, r.getD p 0 + 1 = (g.relax r).getD c 0 := by
  rw [relax_getD g r c hc] at hpos ⊢
  rcases foldl_max_eq ((g.parents c).map (fun p => r.getD p 0 + 1)) 0 with h | h
  · omega
  · obtain ⟨p, hp, he⟩ := List.mem_map.mp h
    exact ⟨p, hp, he⟩

/-! ## walks -/

/-- `g.WalkN k c`: there is a setup walk of exactly `k` edges starting at `c` -/
inductive Graph.WalkN (g : Graph) : Nat → Nat → Prop
  | zero (c : Nat) : g.WalkN 0 c
  | succ {k c p : Nat} : g.IsEdge c p → g.WalkN k p → g.WalkN (k + 1) c

/-- the in-range clause of `WF` (without irreflexivity) -/
def Graph.InRange (g : Graph) : Prop := ∀ e ∈ g.setup, e.child < g.size ∧ e.parent < g.size

theorem Graph.InRange.parent_lt {g : Graph} (h : g.InRange) {c p : Nat} (he : g.IsEdge c p) : p < g.size := by
  obtain ⟨e, hm, _, hp⟩ := he
  exact hp ▸ (h e hm).2

theorem Graph.InRange.child_lt {g : Graph} (h : g.InRange) {c p : Nat} (he : g.IsEdge c p) : c < g.size := by
  obtain ⟨e, hm, hc, _⟩ := he
  exact hc ▸ (h e hm).1

theorem reach_lt {g : Graph} (h : g.InRange) {c a : Nat} (hr : g.Reach c a) : a < g.size := by
  induction hr with
  | edge he => exact h.parent_lt he
  | step _ _ ih => exact ih

/-- the rank after `k` rounds -/
def Graph.rankAt (g : Graph) (k : Nat) : List Nat := g.relaxN k (List.replicate g.size 0)

theorem rankAt_succ (g : Graph) (k : Nat) : g.rankAt (k + 1) = g.relax (g.rankAt k) := relaxN_succ g k _

theorem rank_eq_rankAt (g : Graph) : g.rank = g.rankAt g.size := rfl

/-- a value that still grows in round `k+1` is the start of a walk of `k+1` edges -/
theorem walk_of_change (g : Graph) (hr : g.InRange) : ∀ (k c : Nat), c < g.size →
    (g.rankAt k).getD c 0 < (g.rankAt (k + 1)).getD c 0 → g.WalkN (k + 1) c
  | 0, c, hc, hlt => by
    rw [rankAt_succ] at hlt
    obtain ⟨p, hp, _⟩ := relax_attained g (g.rankAt 0) c hc (by omega)
    exact .succ ((mem_parents g c p).mp hp) (.zero p)
  | k + 1, c, hc, hlt => by
    rw [rankAt_succ g (k + 1)] at hlt
    obtain ⟨p, hp, he⟩ := relax_attained g (g.rankAt (k + 1)) c hc (by omega)
    have hedge := (mem_parents g c p).mp hp
    have hps : p < g.size := hr.parent_lt hedge
    have hold : (g.rankAt k).getD p 0 + 1 ≤ (g.rankAt (k + 1)).getD c 0 := by
      rw [rankAt_succ g k]; exact relax_ge g _ c p hc hp
    exact .succ hedge (walk_of_change g hr k p hps (by omega))

/-- in an acyclic graph a walk of `k` edges visits `k+1` different vertices -/
theorem walk_vertices (g : Graph) (hr : g.InRange) (hac : ∀ n, ¬ g.Reach n n) : ∀ (k c : Nat),
    g.WalkN k c → c < g.size →
    ∃ S : Finset Nat, S.card = k + 1 ∧ (∀ v ∈ S, v < g.size) ∧ (∀ v ∈ S, v = c ∨ g.Reach c v) := by
  intro k c hw
  induction hw with
  | zero c =>
    intro hc
    exact ⟨{c}, by simp, by simpa using hc, by simp⟩
  | @succ k c p he _ ih =>
    intro hc
    obtain ⟨S, hcard, hlt, hreach⟩ := ih (hr.parent_lt he)
    have hnot : c ∉ S := by
      intro hcs
      rcases hreach c hcs with h | h
      · subst h; exact hac _ (.edge he)
      · exact hac c (.step he h)
    refine ⟨insert c S, by rw [Finset.card_insert_of_notMem hnot, hcard], ?_, ?_⟩
    · intro v hv
      rcases Finset.mem_insert.mp hv with h | h
      · exact h ▸ hc
      · exact hlt v h
    · intro v hv
      rcases Finset.mem_insert.mp hv with h | h
      · exact Or.inl h
      · right
        rcases hreach v h with h' | h'
        · subst h'; exact .edge he
        · exact .step he h'

/-- an acyclic graph has no walk with as many edges as it has nodes -/
theorem walk_lt_size (g : Graph) (hr : g.InRange) (hac : ∀ n, ¬ g.Reach n n) (k c : Nat)
    (hw : g.WalkN k c) (hc : c < g.size) : k < g.size := by
  obtain ⟨S, hcard, hlt, _⟩ := walk_vertices g hr hac k c hw hc
  have hsub : S ⊆ Finset.range g.size := fun v hv => Finset.mem_range.mpr (hlt v hv)
  have := Finset.card_le_card hsub
  rw [Finset.card_range] at this
  omega

/-- the relaxation has converged after `size` rounds on an acyclic graph: the next round raises nothing -/
theorem rank_converged (g : Graph) (hr : g.InRange) (hac : ∀ n, ¬ g.Reach n n) (c : Nat) (hc : c < g.size) :
    (g.relax g.rank).getD c 0 ≤ g.rank.getD c 0 := by
  rw [rank_eq_rankAt, ← rankAt_succ]
  apply Nat.le_of_not_lt
  intro hlt
  have := walk_lt_size g hr hac _ c (walk_of_change g hr g.size c hc hlt) hc
  omega

/-- Completeness of the acyclicity clause: on a graph whose setup edges are in range and which has no cycle (of any
length) the rank computed by `size` relaxation rounds strictly decreases along every setup edge. -/
theorem checkAcyclic_complete (g : Graph) (hr : g.InRange) (hac : ∀ n, ¬ g.Reach n n) :
    g.checkAcyclic = true := by
  simp only [Graph.checkAcyclic, Graph.rankOK, List.all_eq_true, decide_eq_true_eq]
  intro e he
  have hc := (hr e he).1
  have hp : e.parent ∈ g.parents e.child := (mem_parents g _ _).mpr ⟨e, he, rfl, rfl⟩
  have h1 := relax_ge g g.rank e.child e.parent hc hp
  have h2 := rank_converged g hr hac e.child hc
  omega

/-- the acyclicity clause decides acyclicity (given in-range edges) -/
theorem checkAcyclic_iff (g : Graph) (hr : g.InRange) : g.checkAcyclic = true ↔ ∀ n, ¬ g.Reach n n :=
  ⟨rankOK_acyclic g g.rank, checkAcyclic_complete g hr⟩

end I2N.Graph
