import I2N.Lemmas.Graph
import Mathlib.Data.Finset.Card
/-!
Completeness of the verified graph checker `Graph.wellFormed` (property C06): every clause of the checker is
*decided* by its Prop-level statement, so the checker is an exact decision procedure of `WF'`.

`WF` (of `I2N/Lemmas/Graph.lean`) is strictly weaker than what the checker demands in three places (net object
first, clone pairs irreflexive, every flagged clone source has a clone); `WF'` adds exactly these.

The hard clause is acyclicity: `checkAcyclic` computes `size` relaxation rounds from the all-zero rank and checks
that the result strictly decreases along every setup edge.  On an acyclic graph with in-range edges a value that
still changes in round `k+1` yields a setup walk of `k+1` edges (`walk_of_change`); an acyclic graph with `size`
nodes has no walk of `size` edges (`walk_lt_size`, by collecting `k+1` different vertices); so round `size+1`
changes nothing, and a rank that is its own relaxation strictly decreases along every edge.
-/
set_option linter.dupNamespace false

namespace I2N.Graph

/-! ## `foldl max` -/

theorem foldl_max_ge_init : ∀ (l : List Nat) (a : Nat), a ≤ l.foldl max a
  | [], _ => Nat.le_refl _
  | x :: xs, a => by
    simp only [List.foldl_cons]
    exact Nat.le_trans (Nat.le_max_left a x) (foldl_max_ge_init xs (max a x))

theorem foldl_max_ge_mem : ∀ (l : List Nat) (a x : Nat), x ∈ l → x ≤ l.foldl max a
  | [], _, _, h => by simp at h
  | y :: ys, a, x, h => by
    simp only [List.foldl_cons]
    rcases List.mem_cons.mp h with h | h
    · subst h
      exact Nat.le_trans (Nat.le_max_right a x) (foldl_max_ge_init ys (max a x))
    · exact foldl_max_ge_mem ys (max a y) x h

theorem foldl_max_eq : ∀ (l : List Nat) (a : Nat), l.foldl max a = a ∨ l.foldl max a ∈ l
  | [], _ => Or.inl rfl
  | y :: ys, a => by
    simp only [List.foldl_cons, List.mem_cons]
    rcases foldl_max_eq ys (max a y) with h | h
    · rw [h]
      rcases Nat.le_total a y with hay | hay
      · right; left; exact Nat.max_eq_right hay
      · left; exact Nat.max_eq_left hay
    · right; right; exact h

/-! ## the relaxation -/

theorem relax_length (g : Graph) (r : List Nat) : (g.relax r).length = g.size := by
  simp [Graph.relax]

theorem relax_getD (g : Graph) (r : List Nat) (c : Nat) (hc : c < g.size) :
    (g.relax r).getD c 0 = ((g.parents c).map (fun p => r.getD p 0 + 1)).foldl max 0 := by
  simp [Graph.relax, List.getD_eq_getElem?_getD, List.getElem?_map, List.getElem?_range hc]

theorem relaxN_succ (g : Graph) : ∀ (k : Nat) (r : List Nat), g.relaxN (k + 1) r = g.relax (g.relaxN k r)
  | 0, _ => rfl
  | k + 1, r => by
    show g.relaxN (k + 1) (g.relax r) = g.relax (g.relaxN k (g.relax r))
    exact relaxN_succ g k (g.relax r)

/-- the relaxed value dominates every parent's old value plus one -/
theorem relax_ge (g : Graph) (r : List Nat) (c p : Nat) (hc : c < g.size) (hp : p ∈ g.parents c) :
    r.getD p 0 + 1 ≤ (g.relax r).getD c 0 := by
  rw [relax_getD g r c hc]
  exact foldl_max_ge_mem _ 0 _ (List.mem_map.mpr ⟨p, hp, rfl⟩)

/-- a positive relaxed value is attained at some parent -/
theorem relax_attained (g : Graph) (r : List Nat) (c : Nat) (hc : c < g.size)
    (hpos : 0 < (g.relax r).getD c 0) : ∃ p ∈ g.parents c, r.getD p 0 + 1 = (g.relax r).getD c 0 := by
  rw [relax_getD g r c hc] at hpos ⊢
  rcases foldl_max_eq ((g.parents c).map (fun p => r.getD p 0 + 1)) 0 with h | h
  · omega
  · obtain ⟨p, hp, he⟩ := List.mem_map.mp h
    exact ⟨p, hp, he⟩

/-! ## walks -/

/-- `g.WalkN k c`: there is a setup walk of exactly `k` edges starting at `c` -/
inductive Graph.WalkN (g : Graph) : Nat → Nat → Prop
  | zero (c : Nat) : g.WalkN 0 c
  | succ {k c p : Nat} : g.IsEdge c p → g.WalkN k p → g.WalkN (k + 1) c

/-- the in-range clause of `WF` (without irreflexivity) -/
def Graph.InRange (g : Graph) : Prop := ∀ e ∈ g.setup, e.child < g.size ∧ e.parent < g.size

theorem Graph.InRange.parent_lt {g : Graph} (h : g.InRange) {c p : Nat} (he : g.IsEdge c p) : p < g.size := by
  obtain ⟨e, hm, _, hp⟩ := he
  exact hp ▸ (h e hm).2

theorem Graph.InRange.child_lt {g : Graph} (h : g.InRange) {c p : Nat} (he : g.IsEdge c p) : c < g.size := by
  obtain ⟨e, hm, hc, _⟩ := he
  exact hc ▸ (h e hm).1

theorem reach_lt {g : Graph} (h : g.InRange) {c a : Nat} (hr : g.Reach c a) : a < g.size := by
  induction hr with
  | edge he => exact h.parent_lt he
  | step _ _ ih => exact ih

/-- the rank after `k` rounds -/
def Graph.rankAt (g : Graph) (k : Nat) : List Nat := g.relaxN k (List.replicate g.size 0)

theorem rankAt_succ (g : Graph) (k : Nat) : g.rankAt (k + 1) = g.relax (g.rankAt k) := relaxN_succ g k _

theorem rank_eq_rankAt (g : Graph) : g.rank = g.rankAt g.size := rfl

/-- a value that still grows in round `k+1` is the start of a walk of `k+1` edges -/
theorem walk_of_change (g : Graph) (hr : g.InRange) : ∀ (k c : Nat), c < g.size →
    (g.rankAt k).getD c 0 < (g.rankAt (k + 1)).getD c 0 → g.WalkN (k + 1) c
  | 0, c, hc, hlt => by
    rw [rankAt_succ] at hlt
    obtain ⟨p, hp, _⟩ := relax_attained g (g.rankAt 0) c hc (by omega)
    exact .succ ((mem_parents g c p).mp hp) (.zero p)
  | k + 1, c, hc, hlt => by
    rw [rankAt_succ g (k + 1)] at hlt
    obtain ⟨p, hp, he⟩ := relax_attained g (g.rankAt (k + 1)) c hc (by omega)
    have hedge := (mem_parents g c p).mp hp
    have hps : p < g.size := hr.parent_lt hedge
    have hold : (g.rankAt k).getD p 0 + 1 ≤ (g.rankAt (k + 1)).getD c 0 := by
      rw [rankAt_succ g k]; exact relax_ge g _ c p hc hp
    exact .succ hedge (walk_of_change g hr k p hps (by omega))

/-- in an acyclic graph a walk of `k` edges visits `k+1` different vertices -/
theorem walk_vertices (g : Graph) (hr : g.InRange) (hac : ∀ n, ¬ g.Reach n n) : ∀ (k c : Nat),
    g.WalkN k c → c < g.size →
    ∃ S : Finset Nat, S.card = k + 1 ∧ (∀ v ∈ S, v < g.size) ∧ (∀ v ∈ S, v = c ∨ g.Reach c v) := by
  intro k c hw
  induction hw with
  | zero c =>
    intro hc
    exact ⟨{c}, by simp, by simpa using hc, by simp⟩
  | @succ k c p he _ ih =>
    intro hc
    obtain ⟨S, hcard, hlt, hreach⟩ := ih (hr.parent_lt he)
    have hnot : c ∉ S := by
      intro hcs
      rcases hreach c hcs with h | h
      · subst h; exact hac _ (.edge he)
      · exact hac c (.step he h)
    refine ⟨insert c S, by rw [Finset.card_insert_of_notMem hnot, hcard], ?_, ?_⟩
    · intro v hv
      rcases Finset.mem_insert.mp hv with h | h
      · exact h ▸ hc
      · exact hlt v h
    · intro v hv
      rcases Finset.mem_insert.mp hv with h | h
      · exact Or.inl h
      · right
        rcases hreach v h with h' | h'
        · subst h'; exact .edge he
        · exact .step he h'

/-- an acyclic graph has no walk with as many edges as it has nodes -/
theorem walk_lt_size (g : Graph) (hr : g.InRange) (hac : ∀ n, ¬ g.Reach n n) (k c : Nat)
    (hw : g.WalkN k c) (hc : c < g.size) : k < g.size := by
  obtain ⟨S, hcard, hlt, _⟩ := walk_vertices g hr hac k c hw hc
  have hsub : S ⊆ Finset.range g.size := fun v hv => Finset.mem_range.mpr (hlt v hv)
  have := Finset.card_le_card hsub
  rw [Finset.card_range] at this
  omega

/-- the relaxation has converged after `size` rounds on an acyclic graph: the next round raises nothing -/
theorem rank_converged (g : Graph) (hr : g.InRange) (hac : ∀ n, ¬ g.Reach n n) (c : Nat) (hc : c < g.size) :
    (g.relax g.rank).getD c 0 ≤ g.rank.getD c 0 := by
  rw [rank_eq_rankAt, ← rankAt_succ]
  apply Nat.le_of_not_lt
  intro hlt
  have := walk_lt_size g hr hac _ c (walk_of_change g hr g.size c hc hlt) hc
  omega

/-- Completeness of the acyclicity clause: on a graph whose setup edges are in range and which has no cycle (of any
length) the rank computed by `size` relaxation rounds strictly decreases along every setup edge. -/
theorem checkAcyclic_complete (g : Graph) (hr : g.InRange) (hac : ∀ n, ¬ g.Reach n n) :
    g.checkAcyclic = true := by
  simp only [Graph.checkAcyclic, Graph.rankOK, List.all_eq_true, decide_eq_true_eq]
  intro e he
  have hc := (hr e he).1
  have hp : e.parent ∈ g.parents e.child := (mem_parents g _ _).mpr ⟨e, he, rfl, rfl⟩
  have h1 := relax_ge g g.rank e.child e.parent hc hp
  have h2 := rank_converged g hr hac e.child hc
  omega

/-- the acyclicity clause decides acyclicity (given in-range edges) -/
theorem checkAcyclic_iff (g : Graph) (hr : g.InRange) : g.checkAcyclic = true ↔ ∀ n, ¬ g.Reach n n :=
  ⟨rankOK_acyclic g g.rank, checkAcyclic_complete g hr⟩

/-! ## the other clauses, each decided exactly -/

theorem idsNodup_complete : ∀ l : List String, l.Nodup → idsNodup l = true
  | [], _ => rfl
  | x :: xs, h => by
    have h' := List.nodup_cons.mp h
    simp only [idsNodup, Bool.and_eq_true, Bool.not_eq_true', List.contains_eq_mem,
      decide_eq_false_iff_not]
    exact ⟨h'.1, idsNodup_complete xs h'.2⟩

theorem idsNodup_iff (l : List String) : idsNodup l = true ↔ l.Nodup :=
  ⟨idsNodup_sound l, idsNodup_complete l⟩

theorem checkIds_iff (g : Graph) : g.checkIds = true ↔ (g.nodes.map (·.id)).Nodup := idsNodup_iff _

theorem checkRange_iff (g : Graph) : g.checkRange = true ↔
    (∀ e ∈ g.setup, e.child < g.size ∧ e.parent < g.size ∧ e.child ≠ e.parent) ∧
    (∀ e ∈ g.cleanup, e.child < g.size ∧ e.parent < g.size) := by
  simp only [Graph.checkRange, Bool.and_eq_true, List.all_eq_true, decide_eq_true_eq, bne_iff_ne, ne_eq,
    and_assoc]

theorem checkSymmetric_iff (g : Graph) : g.checkSymmetric = true ↔ ∀ e, e ∈ g.setup ↔ e ∈ g.cleanup := by
  refine ⟨checkSymmetric_sound g, fun h => ?_⟩
  simp only [Graph.checkSymmetric, Bool.and_eq_true, List.all_eq_true, List.contains_eq_mem,
    decide_eq_true_eq]
  exact ⟨fun e => (h e).mp, fun e => (h e).mpr⟩

/-! ### the root -/

theorem eq_singleton_of_nodup : ∀ {l : List Nat} {r : Nat}, l.Nodup → (∀ x, x ∈ l ↔ x = r) → l = [r]
  | [], r, _, h => absurd ((h r).mpr rfl) (by simp)
  | [a], r, _, h => by rw [(h a).mp (by simp)]
  | a :: b :: t, r, hn, h => by
    have ha : a = r := (h a).mp (by simp)
    have hb : b = r := (h b).mp (by simp)
    subst ha; subst hb
    simp at hn

theorem roots_nodup (g : Graph) : g.roots.Nodup := List.Nodup.filter _ List.nodup_range

/-- Prop form of the root clause of the checker (without the reachability part, which follows) -/
def Graph.RootOK (g : Graph) : Prop :=
  ∃ r, r < g.size ∧ (∀ i, i < g.size → (g.parents i = [] ↔ i = r)) ∧
    (∀ i n, g.nodes[i]? = some n → (n.sharedRoot = true ↔ i = r))

theorem checkRoot_complete (g : Graph) (h : g.RootOK) : g.checkRoot = true := by
  obtain ⟨r, hr, hroot, hshared⟩ := h
  have hroots : g.roots = [r] := by
    apply eq_singleton_of_nodup (roots_nodup g)
    intro x
    rw [mem_roots]
    constructor
    · rintro ⟨hx, hp⟩; exact (hroot x hx).mp hp
    · intro hx; subst hx; exact ⟨hr, (hroot x hr).mpr rfl⟩
  obtain ⟨rn, hrn⟩ : ∃ rn, g.nodes[r]? = some rn := ⟨g.nodes[r], List.getElem?_eq_getElem hr⟩
  simp only [Graph.checkRoot, hroots, hrn, Option.map_some, Option.getD_some, Bool.and_eq_true,
    List.all_eq_true, List.mem_range, Bool.or_eq_true, beq_iff_eq, Bool.not_eq_true']
  refine ⟨(hshared r rn hrn).mpr rfl, ?_⟩
  intro i hi
  by_cases hir : i = r
  · exact Or.inl hir
  · right
    have hin : g.nodes[i]? = some g.nodes[i] := List.getElem?_eq_getElem hi
    rw [hin]
    simp only [Option.map_some, Option.getD_some]
    cases hs : (g.nodes[i]).sharedRoot with
    | false => rfl
    | true => exact absurd ((hshared i _ hin).mp hs) hir

theorem checkRoot_iff (g : Graph) : g.checkRoot = true ↔ g.RootOK := by
  refine ⟨fun h => ?_, checkRoot_complete g⟩
  obtain ⟨r, hr, hshared⟩ := checkRoot_sound g h
  have hm : ∀ i, i ∈ g.roots ↔ i = r := by intro i; rw [hr]; simp
  refine ⟨r, ((mem_roots g r).mp ((hm r).mpr rfl)).1, fun i hi => ?_, hshared⟩
  constructor
  · intro hp; exact (hm i).mp ((mem_roots g i).mpr ⟨hi, hp⟩)
  · intro hir; exact ((mem_roots g i).mp ((hm i).mpr hir)).2

/-! ### producers -/

theorem allIdx_of_get {α : Type} (f : Nat → α → Bool) : ∀ (l : List α) (k : Nat),
    (∀ i x, l[i]? = some x → f (k + i) x = true) → allIdx f k l = true
  | [], _, _ => rfl
  | y :: ys, k, h => by
    simp only [allIdx, Bool.and_eq_true]
    refine ⟨by simpa using h 0 y (by simp), allIdx_of_get f ys (k + 1) ?_⟩
    intro i x hx
    have := h (i + 1) x (by simpa using hx)
    rw [show k + (i + 1) = k + 1 + i by omega] at this
    exact this

theorem allIdx_iff {α : Type} (f : Nat → α → Bool) (l : List α) :
    allIdx f 0 l = true ↔ ∀ i x, l[i]? = some x → f i x = true := by
  constructor
  · intro h i x hx; simpa using allIdx_get f l 0 h i x hx
  · intro h; exact allIdx_of_get f l 0 (by simpa using h)

/-- Prop form of the producer clause -/
def Graph.ProducersOK (g : Graph) : Prop :=
  ∀ c n, g.nodes[c]? = some n → n.flat = false → n.cloneSource = false →
    ∀ o ∈ n.objs, o.get ≠ "" →
      ∃ p pn, g.parentsVia c o.oid = [p] ∧ g.nodes[p]? = some pn ∧ ProducerOK n.worker o pn

theorem checkProducers_complete (g : Graph) (h : g.ProducersOK) : g.checkProducers = true := by
  apply allIdx_of_get
  intro c n hn
  simp only [Nat.zero_add, Graph.checkProducersOf, Bool.or_eq_true, List.all_eq_true, beq_iff_eq]
  cases hf : n.flat with
  | true => exact Or.inl (Or.inl rfl)
  | false =>
    cases hs : n.cloneSource with
    | true => exact Or.inl (Or.inr rfl)
    | false =>
      right
      intro o ho
      by_cases hg : o.get = ""
      · exact Or.inl hg
      · right
        obtain ⟨p, pn, hp, hpn, hok⟩ := h c n hn hf hs o ho hg
        rw [hp]
        simp only [hpn, Option.map_some, Option.getD_some]
        exact (producerOK_iff _ _ _).mpr hok

theorem checkProducers_iff (g : Graph) : g.checkProducers = true ↔ g.ProducersOK :=
  ⟨checkProducers_sound g, checkProducers_complete g⟩

/-! ### edge objects -/

/-- Prop form of the edge-object clause: both ends are nodes and a composite parent shares the object -/
def Graph.EdgeObjectsOK (g : Graph) : Prop :=
  ∀ e ∈ g.setup, ∃ c p, g.nodes[e.child]? = some c ∧ g.nodes[e.parent]? = some p ∧
    (p.flat = false →
      c.flat = false ∧ c.worker = p.worker ∧ (c.obj? e.obj).isSome = true ∧
      ∃ po, p.obj? e.obj = some po ∧ po.setState ≠ "")

theorem checkEdgeObjects_iff (g : Graph) : g.checkEdgeObjects = true ↔ g.EdgeObjectsOK := by
  simp only [Graph.checkEdgeObjects, List.all_eq_true, Graph.EdgeObjectsOK]
  refine forall_congr' fun e => forall_congr' fun _ => ?_
  cases hc : g.nodes[e.child]? with
  | none => simp
  | some c =>
    cases hp : g.nodes[e.parent]? with
    | none => simp
    | some p =>
      cases hpf : p.flat with
      | true => simp [hpf]
      | false =>
        cases hpo : p.obj? e.obj with
        | none => simp [hpf, hpo]
        | some po => simp [hpf, hpo, and_assoc]

theorem edgeObjectsOK_of (g : Graph)
    (hr : ∀ e ∈ g.setup, e.child < g.size ∧ e.parent < g.size ∧ e.child ≠ e.parent)
    (h : ∀ e ∈ g.setup, ∀ c p, g.nodes[e.child]? = some c → g.nodes[e.parent]? = some p → p.flat = false →
      c.flat = false ∧ c.worker = p.worker ∧ (c.obj? e.obj).isSome = true ∧
      ∃ po, p.obj? e.obj = some po ∧ po.setState ≠ "") : g.EdgeObjectsOK := by
  intro e he
  have hcl : e.child < g.nodes.length := (hr e he).1
  have hpl : e.parent < g.nodes.length := (hr e he).2.1
  have hc : g.nodes[e.child]? = some g.nodes[e.child] := List.getElem?_eq_getElem hcl
  have hp : g.nodes[e.parent]? = some g.nodes[e.parent] := List.getElem?_eq_getElem hpl
  exact ⟨_, _, hc, hp, h e he _ _ hc hp⟩

/-! ### objects -/

/-- Prop form of `Node.checkObjects` -/
def Node.ObjectsOK (n : Node) : Prop :=
  n.flat = false →
    (∃ net, n.nets = [net] ∧ n.paramNets = [net] ∧ sortStrings n.vms = n.paramVms) ∧
    (∃ o rest, n.objs = o :: rest ∧ o.key = "nets")

theorem Node.checkObjects_iff (n : Node) : n.checkObjects = true ↔ n.ObjectsOK := by
  unfold Node.checkObjects Node.ObjectsOK
  cases hf : n.flat with
  | true => simp
  | false =>
    simp only [Bool.false_or, Bool.and_eq_true, beq_iff_eq, forall_const]
    have hhead : (n.objs.head?.map (·.key == "nets")).getD false = true ↔
        ∃ o rest, n.objs = o :: rest ∧ o.key = "nets" := by
      cases n.objs with
      | nil => simp
      | cons o rest => simp
    constructor
    · rintro ⟨h1, h2⟩
      split at h1
      · rename_i net hnet
        simp only [Bool.and_eq_true, beq_iff_eq] at h1
        exact ⟨⟨net, hnet, h1.1, h2⟩, hhead.mp h1.2⟩
      · exact absurd h1 (by simp)
    · rintro ⟨⟨net, hnet, hpn, hvms⟩, hfirst⟩
      rw [hnet]
      simp only [Bool.and_eq_true, beq_iff_eq]
      exact ⟨⟨hpn, hhead.mpr hfirst⟩, hvms⟩

theorem checkObjects_iff (g : Graph) : g.checkObjects = true ↔ ∀ n ∈ g.nodes, n.ObjectsOK := by
  simp only [Graph.checkObjects, List.all_eq_true, Node.checkObjects_iff]

/-! ### clones -/

/-- Prop form of the clone clause -/
def Graph.ClonesOK (g : Graph) : Prop :=
  (∀ sc ∈ g.clones, ∃ s c, g.nodes[sc.1]? = some s ∧ g.nodes[sc.2]? = some c ∧ s.cloneSource = true ∧
     s.mayRun = false ∧ c.flat = false ∧ c.worker = s.worker ∧ sc.1 ≠ sc.2) ∧
  (∀ i n, g.nodes[i]? = some n → n.cloneSource = true → ∃ sc ∈ g.clones, sc.1 = i)

theorem checkClones_iff (g : Graph) : g.checkClones = true ↔ g.ClonesOK := by
  unfold Graph.checkClones Graph.ClonesOK
  rw [Bool.and_eq_true, allIdx_iff]
  apply and_congr
  · simp only [List.all_eq_true]
    refine forall_congr' fun sc => forall_congr' fun _ => ?_
    cases hs : g.nodes[sc.1]? with
    | none => simp
    | some s =>
      cases hc : g.nodes[sc.2]? with
      | none => simp
      | some c => simp [and_assoc]
  · refine forall_congr' fun i => forall_congr' fun n => forall_congr' fun _ => ?_
    cases hcs : n.cloneSource with
    | false => simp
    | true => simp

/-! ## `WF'`: what the checker decides -/

/-- `WF` plus the three demands of the checker that `WF` does not state:
  * `net_first`     — the one net object is the *first* of a composite node's objects (`Node.checkObjects`,
                      `TestNode.validate`: "the net has to be the first object");
  * `clones_irrefl` — no node is recorded as a clone of itself (`Graph.checkClones`);
  * `clone_flag`    — every node flagged as a clone source has at least one recorded clone (`Graph.checkClones`:
                      flag and relation agree in *both* directions; `WF.clone_sources` has one direction). -/
structure WF' (g : Graph) : Prop extends WF g where
  net_first : ∀ n ∈ g.nodes, n.flat = false → ∃ o rest, n.objs = o :: rest ∧ o.key = "nets"
  clones_irrefl : ∀ sc ∈ g.clones, sc.1 ≠ sc.2
  clone_flag : ∀ i n, g.nodes[i]? = some n → n.cloneSource = true → ∃ sc ∈ g.clones, sc.1 = i

theorem WF.inRange {g : Graph} (h : WF g) : g.InRange := fun e he => ⟨(h.in_range e he).1, (h.in_range e he).2.1⟩

/-- the checker accepts every graph satisfying `WF'` -/
theorem wellFormed_complete' (g : Graph) (h : WF' g) : g.wellFormed = true := by
  have hids : g.checkIds = true := (checkIds_iff g).mpr h.ids_nodup
  have hrange : g.checkRange = true :=
    (checkRange_iff g).mpr ⟨h.in_range, fun e he => h.toWF.inRange e ((h.symmetric e).mpr he)⟩
  have hsym : g.checkSymmetric = true := (checkSymmetric_iff g).mpr h.symmetric
  have hac : g.checkAcyclic = true := checkAcyclic_complete g h.toWF.inRange h.acyclic
  have hroot : g.checkRoot = true := by
    obtain ⟨r, h1, h2, _, h4⟩ := h.single_root
    exact checkRoot_complete g ⟨r, h1, h2, h4⟩
  have hprod : g.checkProducers = true := checkProducers_complete g h.unique_producer
  have hedge : g.checkEdgeObjects = true :=
    (checkEdgeObjects_iff g).mpr (edgeObjectsOK_of g h.in_range h.edge_objects)
  have hobj : g.checkObjects = true :=
    (checkObjects_iff g).mpr fun n hn hf => ⟨h.one_net n hn hf, h.net_first n hn hf⟩
  have hcl : g.checkClones = true := by
    refine (checkClones_iff g).mpr ⟨fun sc hsc => ?_, h.clone_flag⟩
    obtain ⟨s, c, h1, h2, h3, h4, h5, h6⟩ := h.clone_sources.2 sc hsc
    exact ⟨s, c, h1, h2, h3, h4, h5, h6, h.clones_irrefl sc hsc⟩
  simp only [Graph.wellFormed, hids, hrange, hsym, hac, hroot, hprod, hedge, hobj, hcl, Bool.and_self]

/-- an accepted graph satisfies `WF'` -/
theorem wellFormed_sound' (g : Graph) (h : g.wellFormed = true) : WF' g := by
  have hwf := wellFormed_sound g h
  simp only [Graph.wellFormed, Bool.and_eq_true] at h
  obtain ⟨⟨_, hobj⟩, hcl⟩ := h
  have hobj' := (checkObjects_iff g).mp hobj
  have hcl' := (checkClones_iff g).mp hcl
  exact { toWF := hwf
          net_first := fun n hn hf => (hobj' n hn hf).2
          clones_irrefl := fun sc hsc => by
            obtain ⟨_, _, _, _, _, _, _, _, h7⟩ := hcl'.1 sc hsc
            exact h7
          clone_flag := hcl'.2 }

/-- The checker is an exact decision procedure of `WF'`. -/
theorem wellFormed_iff' (g : Graph) : g.wellFormed = true ↔ WF' g :=
  ⟨wellFormed_sound' g, wellFormed_complete' g⟩

/-- `WF` from the first seven clauses of the checker and the *Prop* forms of the last two (used to exhibit graphs
that are `WF` but rejected) -/
theorem WF_of_clauses (g : Graph) (hid : g.checkIds = true) (hrg : g.checkRange = true)
    (hsym : g.checkSymmetric = true) (hac : g.checkAcyclic = true) (hroot : g.checkRoot = true)
    (hprod : g.checkProducers = true) (hedge : g.checkEdgeObjects = true)
    (hobj : ∀ n ∈ g.nodes, n.flat = false →
      ∃ net, n.nets = [net] ∧ n.paramNets = [net] ∧ sortStrings n.vms = n.paramVms)
    (hcl : ∀ sc ∈ g.clones, ∃ s c, g.nodes[sc.1]? = some s ∧ g.nodes[sc.2]? = some c ∧ s.cloneSource = true ∧
       s.mayRun = false ∧ c.flat = false ∧ c.worker = s.worker) : WF g := by
  have hrange := checkRange_sound g hrg
  obtain ⟨r, hr, hrootiff, hshared⟩ := (checkRoot_iff g).mp hroot
  exact {
    ids_nodup := idsNodup_sound _ hid
    in_range := hrange
    symmetric := checkSymmetric_sound g hsym
    acyclic := rankOK_acyclic g g.rank hac
    single_root := ⟨r, hr, hrootiff,
      fun i hi hne => reach_root g g.rank hac hrange r hrootiff _ i (Nat.le_refl _) hi hne, hshared⟩
    unique_producer := checkProducers_sound g hprod
    edge_objects := checkEdgeObjects_sound g hedge
    one_net := hobj
    clone_sources := ⟨fun n _ hs => by simp [Node.mayRun, hs], hcl⟩ }

/-- a rejection by the acyclicity clause alone (edges being in range) proves a cycle -/
theorem cycle_of_rejected (g : Graph) (hrg : g.checkRange = true) (hac : g.checkAcyclic = false) :
    ∃ n, g.Reach n n := by
  have hr : g.InRange := fun e he =>
    ⟨(checkRange_sound g hrg e he).1, (checkRange_sound g hrg e he).2.1⟩
  refine Classical.byContradiction fun hne => ?_
  have := checkAcyclic_complete g hr (fun n hn => hne ⟨n, hn⟩)
  rw [this] at hac
  exact absurd hac (by simp)

end I2N.Graph
