import I2N.Model.Tools
/-!
Lemmas about the star traversal of the manual steps (C20): an inductive invariant of `micro` under the star run
policy, lifted over every schedule.
-/
namespace I2N.Tools

/-- worker `w` is the one node `n` was parsed for -/
def owns (g : Star) (w n : Nat) : Prop := ∃ nd, g.nodes[n]? = some nd ∧ nd.owner = w

/-- Well-formed names: the substring test `worker.id in node.params["name"]` coincides with ownership
(every node name contains the id of exactly one worker of the graph, its own). -/
def NamesWF (g : Star) : Prop := ∀ w n, relevant g w n = true ↔ owns g w n

/-- number of executions by worker `w` of nodes of class `k` (bridged form) -/
def cnt (g : Star) (s : SState) (w : Nat) (k : String) : Nat :=
  (s.execs.filter (fun e => e.1 == w && keyOf g e.2 == k)).length

/-- the class is dropped by the worker or the worker is running one of its nodes -/
def busy (g : Star) (s : SState) (w : Nat) (k : String) : Bool :=
  s.dropped k w || (match s.pc w with | some n => keyOf g n == k | none => false)

structure Inv (g : Star) (s : SState) : Prop where
  execOwned : ∀ e ∈ s.execs, owns g e.1 e.2
  count : ∀ w k, cnt g s w k = if busy g s w k then 1 else 0
  pcOk : ∀ w n, s.pc w = some n → owns g w n ∧ s.dropped (keyOf g n) w = false
  finDropped : ∀ n w, s.finished n = some w → s.dropped (keyOf g n) w = true

theorem inv_init (g : Star) : Inv g {} := by
  constructor
  · intro e he; simp at he
  · intro w k; simp [cnt, busy]
  · intro w n h; simp at h
  · intro n w h; simp at h

theorem minByRank_mem (g : Star) : ∀ (l : List Nat) (n : Nat), minByRank g l = some n → n ∈ l
  | [], n, h => by simp [minByRank] at h
  | a :: rest, n, h => by
    unfold minByRank at h
    cases hr : minByRank g rest with
    | none => rw [hr] at h; simp at h; simp [h]
    | some m =>
      rw [hr] at h
      simp only at h
      split at h
      · simp at h; subst h; exact List.mem_cons_of_mem _ (minByRank_mem g rest m hr)
      · simp at h; simp [h]

theorem minByRank_none (g : Star) : ∀ (l : List Nat), minByRank g l = none → l = []
  | [], _ => rfl
  | a :: rest, h => by
    unfold minByRank at h
    cases hr : minByRank g rest with
    | none => rw [hr] at h; simp at h
    | some m => rw [hr] at h; simp only at h; split at h <;> simp at h

theorem mem_candidates {g : Star} {s : SState} {w n : Nat} :
    n ∈ candidates g s w ↔ n < g.nodes.length ∧ relevant g w n = true ∧ s.dropped (keyOf g n) w = false := by
  simp [candidates, List.mem_filter]

theorem upd_same {α : Type} (f : Nat → α) (k : Nat) (v : α) : upd f k v k = v := by simp [upd]
theorem upd_other {α : Type} (f : Nat → α) (k x : Nat) (v : α) (h : x ≠ k) : upd f k v x = f x := by simp [upd, h]

/-- under the star policy the end of a visit always drops the node's class -/
theorem finish_star (g : Star) (s : SState) (n w : Nat) :
    finish g .star s n w =
      { finished := upd s.finished n (some w), pc := upd s.pc w none,
        dropped := fun k w' => (k == keyOf g n && w' == w) || s.dropped k w', execs := s.execs } := by
  simp [finish, runFlag, upd_same]

theorem inv_finish {g : Star} {s : SState} {n w : Nat} (h : Inv g s) (hpc : s.pc w = some n ∨ s.pc w = none ∧ False) :
    Inv g (finish g .star s n w) := by
  rw [finish_star]
  have hpc' : s.pc w = some n := by rcases hpc with h1 | ⟨_, h2⟩; exact h1; exact h2.elim
  constructor
  · exact h.execOwned
  · intro w' k
    have hc := h.count w' k
    simp only [cnt] at hc ⊢
    rw [hc]
    by_cases hw : w' = w
    · subst hw
      simp only [busy, upd_same, hpc', beq_self_eq_true, Bool.and_true, Bool.or_false]
      by_cases hk : keyOf g n = k
      · simp [hk]
      · have : (k == keyOf g n) = false := by simp; exact fun h => hk h.symm
        simp [this, hk]
    · simp only [busy, upd_other _ _ _ _ hw]
      have : (w' == w) = false := by simp [hw]
      simp [this]
  · intro w' n' hp
    by_cases hw : w' = w
    · subst hw; simp [upd_same] at hp
    · simp only [upd_other _ _ _ _ hw] at hp
      have := h.pcOk w' n' hp
      refine ⟨this.1, ?_⟩
      have hb : (w' == w) = false := by simp [hw]
      simp [hb, this.2]
  · intro n' w' hf
    by_cases hn : n' = n
    · subst hn
      simp [upd_same] at hf
      subst hf
      simp
    · simp only [upd_other _ _ _ _ hn] at hf
      simp [h.finDropped n' w' hf]

theorem inv_start {g : Star} {s : SState} {n w : Nat} (hwf : NamesWF g) (h : Inv g s) (hpc : s.pc w = none)
    (hc : n ∈ candidates g s w) :
    Inv g { s with pc := upd s.pc w (some n), execs := s.execs ++ [(w, n)] } := by
  obtain ⟨_, hrel, hdrop⟩ := mem_candidates.mp hc
  constructor
  · intro e he
    simp only [List.mem_append, List.mem_singleton] at he
    rcases he with he | he
    · exact h.execOwned e he
    · subst he; exact (hwf w n).mp hrel
  · intro w' k
    have hcnt := h.count w' k
    simp only [cnt, List.filter_append, List.length_append] at hcnt ⊢
    rw [hcnt]
    by_cases hw : w' = w
    · subst hw
      simp only [busy, upd_same, hpc, Bool.or_false]
      by_cases hk : keyOf g n = k
      · subst hk
        simp [hdrop]
      · simp [hk]
    · have h1 : (w == w') = false := by simp; exact fun h => hw h.symm
      simp [busy, upd_other _ _ _ _ hw, h1]
  · intro w' n' hp
    by_cases hw : w' = w
    · subst hw
      simp [upd_same] at hp
      subst hp
      exact ⟨(hwf w' n).mp hrel, hdrop⟩
    · simp only [upd_other _ _ _ _ hw] at hp
      exact h.pcOk w' n' hp
  · exact h.finDropped

theorem inv_micro {g : Star} {s : SState} (hwf : NamesWF g) (h : Inv g s) (w : Nat) : Inv g (micro g .star s w) := by
  unfold micro
  cases hpc : s.pc w with
  | some n => exact inv_finish h (Or.inl hpc)
  | none =>
    simp only
    cases hp : pickChild g s w with
    | none => exact h
    | some n =>
      simp only
      have hc : n ∈ candidates g s w := minByRank_mem g _ n hp
      by_cases hr : runFlag .star s n w = true
      · simp only [hr, if_true]
        exact inv_start hwf h hpc hc
      · exfalso
        have hf : s.finished n = some w := by
          simp only [runFlag, bne_iff_ne, ne_eq, Decidable.not_not] at hr
          exact hr
        have := h.finDropped n w hf
        rw [(mem_candidates.mp hc).2.2] at this
        exact Bool.false_ne_true this

theorem inv_runSched {g : Star} (hwf : NamesWF g) : ∀ (sched : List Nat) (s : SState), Inv g s →
    Inv g (runSched g .star sched s)
  | [], s, h => h
  | w :: rest, s, h => by
    unfold runSched
    simp only [List.foldl_cons]
    exact inv_runSched hwf rest _ (inv_micro hwf h w)

/-- when every worker is done, every class of every worker is dropped -/
theorem done_dropped {g : Star} {s : SState} (hwf : NamesWF g) (hd : allDone g s = true) {w n : Nat}
    (ho : owns g w n) : s.dropped (keyOf g n) w = true := by
  have hrel : relevant g w n = true := (hwf w n).mpr ho
  have hw : w < g.workers.length := by
    unfold relevant at hrel
    cases hx : g.workers[w]? with
    | none => simp [hx] at hrel
    | some id => exact (List.getElem?_eq_some_iff.mp hx).1
  have hn : n < g.nodes.length := by
    obtain ⟨nd, hnd, _⟩ := ho
    exact (List.getElem?_eq_some_iff.mp hnd).1
  have hwd : workerDone g s w = true := by
    simp only [allDone, List.all_eq_true, List.mem_range] at hd
    exact hd w hw
  simp only [workerDone, Bool.and_eq_true, Option.isNone_iff_eq_none] at hwd
  have hcand : candidates g s w = [] := minByRank_none g _ hwd.2
  cases hdr : s.dropped (keyOf g n) w with
  | true => rfl
  | false =>
    have : n ∈ candidates g s w := mem_candidates.mpr ⟨hn, hrel, hdr⟩
    rw [hcand] at this
    simp at this

end I2N.Tools
