import I2N.Lemmas.Trav
import I2N.Extracted.GenBackoff
/-
Helper lemmas for the translator tie of the back-off branch of `traverse_object_trees` (Props/C04.lean,
`backoff_matches_source`): two facts about `State.setWd` and the closed form of the generated `genBackoff`.
-/
namespace I2N.Trav
open I2N.Extracted.GenBackoff

/-- `setWd` only looks at the function on the record it replaces -/
theorem setWd_congr (s : State) (w : Nat) (f h : WorkerD → WorkerD) (hf : f (s.wd w) = h (s.wd w)) :
    s.setWd w f = s.setWd w h := by
  unfold State.setWd
  congr 1
  unfold State.wd at hf
  by_cases hw : w < s.workers.length
  · apply List.ext_getElem (by simp)
    intro i h1 h2
    simp only [List.getElem_modify]
    split
    · subst_vars
      simpa [List.getD_eq_getElem?_getD, hw] using hf
    · rfl
  · rw [List.modify_eq_self (by omega), List.modify_eq_self (by omega)]

/-- two updates of one worker record -/
theorem setWd_setWd (s : State) (w : Nat) (f h : WorkerD → WorkerD) :
    (s.setWd w f).setWd w h = s.setWd w (h ∘ f) := by
  unfold State.setWd
  simp [List.modify_modify_eq]

/-- the generated branch in closed form: the frame and the state (bumped exactly when the node was bounced at before
AND the accumulated wait exceeds the budget) -/
theorem genBackoff_run (T : Int) (mt : Option Int) (next root : Nat) (occ : List Nat) (wait : Float) (s : State) :
    (genBackoff T mt next root occ wait).run s =
      ((setAdd occ next,
        (if occ.contains next then wait + Float.ofNat (hundredths (T * max (mt.getD 1) 1)) / 100.0 else 0.0),
        [root], hundredths (T * max (mt.getD 1) 1)),
       if occ.contains next && decide (wait > Float.ofInt (T * max (mt.getD 1) 1))
       then s.setNd next (fun d => { d with bump := d.bump + 1 }) else s) := by
  unfold genBackoff
  by_cases hin : occ.contains next = true
  · by_cases hgt : wait > Float.ofInt (T * max (mt.getD 1) 1)
    · simp only [hin, hgt, if_true, decide_true, Bool.and_self, bumpM]
      rfl
    · simp only [hin, hgt, if_true, if_false, decide_false, Bool.and_false, Bool.false_eq_true]
      rfl
  · simp only [hin, if_false, Bool.false_and, Bool.false_eq_true]
    rfl

end I2N.Trav
