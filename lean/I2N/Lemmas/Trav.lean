import I2N.Model.TravStep
/-! Frame lemmas for the traversal model: which component of the state a helper may change. -/
namespace I2N.Trav

@[simp] theorem nd_setWd (s : State) (w : Nat) (f : WorkerD → WorkerD) (n : Nat) : (s.setWd w f).nd n = s.nd n := rfl
@[simp] theorem nd_setCr (s : State) (c : Nat) (f : ClassRegs → ClassRegs) (n : Nat) : (s.setCr c f).nd n = s.nd n := rfl
@[simp] theorem wd_setNd (s : State) (m : Nat) (f : NodeD → NodeD) (w : Nat) : (s.setNd m f).wd w = s.wd w := rfl
@[simp] theorem wd_setCr (s : State) (c : Nat) (f : ClassRegs → ClassRegs) (w : Nat) : (s.setCr c f).wd w = s.wd w := rfl
@[simp] theorem cr_setNd (s : State) (m : Nat) (f : NodeD → NodeD) (c : Nat) : (s.setNd m f).cr c = s.cr c := rfl
@[simp] theorem cr_setWd (s : State) (w : Nat) (f : WorkerD → WorkerD) (c : Nat) : (s.setWd w f).cr c = s.cr c := rfl
@[simp] theorem store_setNd (s : State) (m : Nat) (f : NodeD → NodeD) : (s.setNd m f).store = s.store := rfl
@[simp] theorem store_setWd (s : State) (w : Nat) (f : WorkerD → WorkerD) : (s.setWd w f).store = s.store := rfl
@[simp] theorem store_setCr (s : State) (c : Nat) (f : ClassRegs → ClassRegs) : (s.setCr c f).store = s.store := rfl
@[simp] theorem nodes_length_setNd (s : State) (m : Nat) (f : NodeD → NodeD) :
    (s.setNd m f).nodes.length = s.nodes.length := by simp [State.setNd]

/-- a projection of a node's dynamic record that `f` preserves is preserved by `setNd _ f` at every node -/
theorem nd_setNd_proj {α} (P : NodeD → α) (s : State) (m : Nat) (f : NodeD → NodeD) (hf : ∀ d, P (f d) = P d) (n : Nat) :
    P ((s.setNd m f).nd n) = P (s.nd n) := by
  unfold State.setNd State.nd
  simp only [List.getD_eq_getElem?_getD, List.getElem?_modify]
  cases h : s.nodes[n]? with
  | none => simp
  | some d =>
    by_cases hm : m = n
    · simp [hm, hf]
    · simp [hm]

theorem nd_setNd_ne (s : State) (m n : Nat) (f : NodeD → NodeD) (h : n ≠ m) : (s.setNd m f).nd n = s.nd n := by
  unfold State.setNd State.nd
  simp only [List.getD_eq_getElem?_getD, List.getElem?_modify]
  cases h' : s.nodes[n]? with
  | none => simp
  | some d => simp [Ne.symm h]

theorem nd_setNd_eq (s : State) (m : Nat) (f : NodeD → NodeD) (h : m < s.nodes.length) : (s.setNd m f).nd m = f (s.nd m) := by
  unfold State.setNd State.nd
  simp only [List.getD_eq_getElem?_getD, List.getElem?_modify]
  have : s.nodes[m]? = some s.nodes[m] := List.getElem?_eq_getElem h
  simp [this]

theorem wd_setWd_ne (s : State) (v w : Nat) (f : WorkerD → WorkerD) (h : w ≠ v) : (s.setWd v f).wd w = s.wd w := by
  unfold State.setWd State.wd
  simp only [List.getD_eq_getElem?_getD, List.getElem?_modify]
  cases h' : s.workers[w]? with
  | none => simp
  | some d => simp [Ne.symm h]

theorem wd_setWd_eq (s : State) (w : Nat) (f : WorkerD → WorkerD) (h : w < s.workers.length) : (s.setWd w f).wd w = f (s.wd w) := by
  unfold State.setWd State.wd
  simp only [List.getD_eq_getElem?_getD, List.getElem?_modify]
  have : s.workers[w]? = some s.workers[w] := List.getElem?_eq_getElem h
  simp [this]

/-! ### `started` is touched only by entering and leaving a node -/

def startedOf (s : State) (n : Nat) : Option Nat := (s.nd n).started

theorem started_pickChild (g : Graph) (s : State) (n w c : Nat) (s' : State) (h : pickChild g s n w = some (c, s')) (m : Nat) :
    s'.nd m = s.nd m := by
  unfold pickChild at h
  dsimp only at h
  split at h
  · simp at h
  · simp only [Option.some.injEq, Prod.mk.injEq] at h
    rw [← h.2]; rfl

theorem started_pickParent (g : Graph) (s : State) (n w p : Nat) (s' : State) (h : pickParent g s n w = some (p, s')) (m : Nat) :
    s'.nd m = s.nd m := by
  unfold pickParent at h
  dsimp only at h
  split at h
  · simp at h
  · simp only [Option.some.injEq, Prod.mk.injEq] at h
    rw [← h.2]; rfl

theorem nd_dropParent (g : Graph) (s : State) (c p w m : Nat) : (dropParent g s c p w).nd m = s.nd m := rfl
theorem nd_dropChild (g : Graph) (s : State) (p c w m : Nat) : (dropChild g s p c w).nd m = s.nd m := rfl
theorem nd_popPath (s : State) (w m : Nat) : (popPath s w).nd m = s.nd m := rfl
theorem nd_pushPath (s : State) (w x m : Nat) : (pushPath s w x).nd m = s.nd m := rfl

theorem nd_dropChildren (g : Graph) (s : State) (next w : Nat) (l : List (Nat × List String)) (m : Nat) :
    (l.foldl (fun s (p, _) => dropChild g s p next w) s).nd m = s.nd m := by
  induction l generalizing s with
  | nil => rfl
  | cons a r ih => simp only [List.foldl_cons]; rw [ih]; rfl

theorem foldl_preserves {α β} (P : State → α) (f : State → β → State) (h : ∀ s b, P (f s b) = P s)
    (l : List β) (s : State) : P (l.foldl f s) = P s := by
  induction l generalizing s with
  | nil => rfl
  | cons a r ih => simp only [List.foldl_cons]; rw [ih, h]

theorem started_pullLocations (g : Graph) (s : State) (n m : Nat) :
    ((pullLocations g s n).nd m).started = (s.nd m).started := by
  unfold pullLocations
  split
  · rfl
  · apply foldl_preserves (fun s => (s.nd m).started)
    rintro s ⟨p, vms⟩
    apply foldl_preserves (fun s => (s.nd m).started)
    intro s loc
    apply foldl_preserves (fun s => (s.nd m).started)
    intro s vm
    exact nd_setNd_proj (·.started) s n (fun d => { d with getLoc := locAdd d.getLoc vm loc }) (fun _ => rfl) m


theorem runDecisionStatefulCore_state (g : Graph) (s : State) (n w : Nat) (scan : Bool) (sc : Bool × List Event)
    (b : Bool) (s1 : State) (e1 : List Event)
    (h : runDecisionStatefulCore g s n w scan sc = .ok (b, s1, e1)) : s1 = s ∨ s1 = disableRerun s n := by
  unfold runDecisionStatefulCore at h
  by_cases hc : ((sharedFilteredResults g s n (s.nd n).started).isEmpty && !sc.1) = true
  · simp only [hc, if_true] at h
    by_cases hx : (scan && sc.1) = true
    · simp only [hx, if_true, Except.ok.injEq, Prod.mk.injEq] at h; exact Or.inr h.2.1.symm
    · simp only [hx, Bool.false_eq_true, if_false] at h
      cases hr : shouldRerun g (disableRerun s n) n w with
      | error e => simp [hr, Except.map] at h
      | ok r => simp only [hr, Except.map, Except.ok.injEq, Prod.mk.injEq] at h; exact Or.inr h.2.1.symm
  · simp only [hc, Bool.false_eq_true, if_false] at h
    by_cases hx : (scan && sc.1) = true
    · simp only [hx, if_true, Except.ok.injEq, Prod.mk.injEq] at h; exact Or.inl h.2.1.symm
    · simp only [hx, Bool.false_eq_true, if_false] at h
      cases hr : shouldRerun g s n w with
      | error e => simp [hr, Except.map] at h
      | ok r => simp only [hr, Except.map, Except.ok.injEq, Prod.mk.injEq] at h; exact Or.inl h.2.1.symm

theorem runDecisionStateful_state (g : Graph) (s : State) (n w : Nat) (b : Bool) (s1 : State) (e1 : List Event)
    (h : runDecisionStateful g s n w = .ok (b, s1, e1)) : s1 = s ∨ s1 = disableRerun s n :=
  runDecisionStatefulCore_state g s n w _ _ b s1 e1 h

theorem runDecisionStateless_state (g : Graph) (s : State) (n w : Nat) (b : Bool) (s1 : State) (e1 : List Event)
    (h : runDecisionStateless g s n w = .ok (b, s1, e1)) : s1 = s := by
  unfold runDecisionStateless at h
  cases hc : (sharedResults g s n).isEmpty
  all_goals simp only [hc, Bool.false_eq_true, if_false, if_true] at h
  · cases hr : shouldRerun g s n w with
    | error e => simp [hr, Except.map] at h
    | ok r => simp only [hr, Except.map, Except.ok.injEq, Prod.mk.injEq] at h; exact h.2.1.symm
  · simp only [Except.ok.injEq, Prod.mk.injEq] at h; exact h.2.1.symm

/-- the run decision changes the state at most by switching reruns off for the examined copy -/
theorem runDecision_state (g : Graph) (s : State) (n w : Nat) (b : Bool) (s1 : State) (e1 : List Event)
    (h : runDecision g s n w = .ok (b, s1, e1)) : s1 = s ∨ s1 = disableRerun s n := by
  unfold runDecision at h
  dsimp only at h
  cases c1 : (g.node n).sharedRoot <;> cases c2 : (g.node n).dryRun <;> cases c3 : (g.node n).flat <;>
    cases c4 : (g.node n).cloneSource <;> cases c5 : g.idIn w n <;> cases c6 : (g.node n).sets.isEmpty
  all_goals simp only [c1, c2, c3, c4, c5, c6, Bool.false_eq_true, if_false, if_true, Bool.not_false, Bool.not_true,
    Except.ok.injEq, Prod.mk.injEq, reduceCtorEq] at h
  all_goals first
    | exact Or.inl h.2.1.symm
    | exact runDecisionStateful_state g s n w b s1 e1 h
    | exact Or.inl (runDecisionStateless_state g s n w b s1 e1 h)

theorem nd_disableRerun_proj {α} (P : NodeD → α) (hP : ∀ d, P { d with rerunDisabled := true } = P d) (s : State) (n m : Nat) :
    P ((disableRerun s n).nd m) = P (s.nd m) :=
  nd_setNd_proj P s n (fun d => { d with rerunDisabled := true }) hP m

theorem startTest_flow (g : Graph) (s : State) (n w : Nat) (ph : Phase) (dir : Dir) :
    (startTest g s n w ph dir).2.2 = Flow.suspend := by
  unfold startTest
  split <;> rfl

def Flow.isExit : Flow → Bool
  | .exit => true
  | _ => false

theorem afterTraverse_not_exit (g : Graph) (s : State) (w next prev : Nat) (dir : Dir) :
    (afterTraverse g s w next prev dir).2.2.isExit = false := by
  unfold afterTraverse
  cases runDecision g s next w with
  | error e => rfl
  | ok r =>
    obtain ⟨run, s1, evs⟩ := r
    cases dir with
    | up => rfl
    | down =>
      dsimp only
      by_cases hrun : run = true
      · simp [hrun]; rfl
      · simp only [hrun, Bool.false_eq_true, if_false]
        by_cases hc : isCleanupReady g s1 next w = true
        · simp only [hc, if_true]
          by_cases hpost : (!(g.node next).flat && (s1.wd w).unexplored) = true
          · simp only [hpost, if_true]; rfl
          · simp only [hpost, Bool.false_eq_true, if_false]
            cases reverseNode g (List.foldl (fun s x => dropChild g s x.1 next w) s1 (g.node next).setup) next w with
            | error e => rfl
            | ok r => rfl
        · simp only [hc, Bool.false_eq_true, if_false]
          cases pickChild g s1 next w with
          | none => rfl
          | some r => rfl

theorem traverseNode_not_exit (g : Graph) (s : State) (w next prev : Nat) (dir : Dir) :
    (traverseNode g s w next prev dir).2.2.isExit = false := by
  unfold traverseNode
  split
  · exact afterTraverse_not_exit _ _ _ _ _ _
  · dsimp only
    split
    · rfl
    · split
      · split
        · simp only [startTest_flow]; rfl
        · simp only [startTest_flow]; rfl
      · exact afterTraverse_not_exit _ _ _ _ _ _

theorem filterMap_ite_isEmpty {α β} (l : List α) (c : α → Bool) (f : α → β) :
    (l.filterMap (fun x => if c x then some (f x) else none)).isEmpty = true ↔ ∀ x ∈ l, c x = false := by
  simp only [List.isEmpty_iff, List.filterMap_eq_nil_iff]
  constructor
  · intro h x hx
    have := h x hx
    cases hc : c x
    · rfl
    · simp [hc] at this
  · intro h x hx
    simp [h x hx]

end I2N.Trav
