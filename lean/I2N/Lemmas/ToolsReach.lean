import Mathlib.Data.Fintype.Pigeonhole
import I2N.Lemmas.ToolsFlags
/-!
The bound of `reachWithin`: whatever is reachable along the cleanup edges is reachable within `|nodes|` steps
(a longer walk repeats a node and can be cut short; pigeonhole).  This discharges the gap of
`clean_flags_exact_partial` (C15).
-/
namespace I2N.Tools

theorem Steps.trans {g : UGraph} : ∀ {a b x y z : Nat}, Steps g a x y → Steps g b y z → Steps g (a + b) x z
  | _, b, _, _, _, .zero _, h2 => by simpa using h2
  | _, b, _, _, _, .succ (k := k) hb hs, h2 => by
    have := Steps.trans hs h2
    rw [show k + 1 + b = (k + b) + 1 by omega]
    exact Steps.succ hb this

theorem Steps.split {g : UGraph} : ∀ (a b : Nat) {x z : Nat}, Steps g (a + b) x z →
    ∃ y, Steps g a x y ∧ Steps g b y z
  | 0, b, x, z, h => ⟨x, Steps.zero x, by simpa using h⟩
  | a + 1, b, x, z, h => by
    rw [show a + 1 + b = (a + b) + 1 by omega] at h
    cases h with
    | succ hb hs =>
      obtain ⟨y, h1, h2⟩ := Steps.split a b hs
      exact ⟨y, Steps.succ hb h1, h2⟩

/-- only a node of the graph has children: a walk that goes on starts inside the node list -/
theorem Steps.start_lt {g : UGraph} {k a c : Nat} (h : Steps g (k + 1) a c) : a < g.nodes.length := by
  cases h with
  | succ hb _ =>
    rcases Nat.lt_or_ge a g.nodes.length with h | h
    · exact h
    · exfalso
      have : (g.node a).children = [] := by
        simp [UGraph.node, List.getD, List.getElem?_eq_none h]
      rw [this] at hb
      simp at hb

/-- **every walk can be cut to at most `|nodes|` steps** -/
theorem Steps.bounded {g : UGraph} : ∀ (j : Nat) {c m : Nat}, Steps g j c m →
    ∃ j', j' ≤ g.nodes.length ∧ Steps g j' c m := by
  intro j
  induction j using Nat.strong_induction_on with
  | _ j ih =>
    intro c m h
    rcases Nat.lt_or_ge g.nodes.length j with hj | hj
    · -- the vertices at positions 0..N all lie in the node list: two of them coincide
      have vert : ∀ i : Fin (g.nodes.length + 1), ∃ y : Fin g.nodes.length,
          Steps g i.val c y.val ∧ Steps g (j - i.val) y.val m := by
        intro i
        have hi : i.val + (j - i.val) = j := by have := i.isLt; omega
        obtain ⟨y, h1, h2⟩ := Steps.split i.val (j - i.val) (hi ▸ h)
        have hpos : j - i.val = (j - i.val - 1) + 1 := by have := i.isLt; omega
        have hy : y < g.nodes.length := Steps.start_lt (hpos ▸ h2)
        exact ⟨⟨y, hy⟩, h1, h2⟩
      let f : Fin (g.nodes.length + 1) → Fin g.nodes.length := fun i => Classical.choose (vert i)
      have hf : ∀ i, Steps g i.val c (f i).val ∧ Steps g (j - i.val) (f i).val m :=
        fun i => Classical.choose_spec (vert i)
      obtain ⟨a, b, hab, hfab⟩ := Fintype.exists_ne_map_eq_of_card_lt f (by simp)
      -- order the two positions
      have key : ∀ a b : Fin (g.nodes.length + 1), a.val < b.val → f a = f b →
          ∃ j', j' ≤ g.nodes.length ∧ Steps g j' c m := by
        intro a b hlt he
        have h1 := (hf a).1
        have h2 := (hf b).2
        rw [← he] at h2
        have hcut := Steps.trans h1 h2
        have hb := b.isLt
        exact ih (a.val + (j - b.val)) (by omega) hcut
      rcases Nat.lt_or_ge a.val b.val with hlt | hge
      · exact key a b hlt hfab
      · have : b.val < a.val := by
          rcases Nat.lt_or_ge b.val a.val with h' | h'
          · exact h'
          · exact absurd (Fin.ext (Nat.le_antisymm h' hge)) hab
        exact key b a this hfab.symm
    · exact ⟨j, hj, h⟩

/-- reachability along cleanup edges, any number of steps -/
def Reach (g : UGraph) (c m : Nat) : Prop := ∃ j, Steps g j c m

theorem reach_iff_within (g : UGraph) (c m : Nat) :
    Reach g c m ↔ ∃ j, j ≤ g.nodes.length ∧ Steps g j c m :=
  ⟨fun ⟨j, h⟩ => Steps.bounded j h, fun ⟨j, _, h⟩ => ⟨j, h⟩⟩

end I2N.Tools
