/-
Helper lemmas for the translator tie of `TestRunner.run_test_node` / `all_results_ok` (Props/C10.lean, section
"Regenerated runner"): the generated segments of `Extracted/GenRunner.lean` in closed form.
-/
import I2N.Model.Rules
import I2N.Extracted.GenRunner
namespace I2N.Lemmas.RunnerGen
open I2N.Rules I2N.Extracted.Rules I2N.Extracted.GenRunner

/-! ### `all_results_ok` -/

theorem anyM_filter_eq_anyOk (name : String) (tests : List JobRes) :
    (tests.filter (fun t => t.name == name)).anyM (fun t => statusOkM t.status) = anyOk name tests := by
  induction tests with
  | nil => rfl
  | cons t ts ih =>
    by_cases h : (t.name == name) = true
    · rw [List.filter_cons, if_pos h, List.anyM_cons, anyOk, if_pos h, ih]
      unfold statusOkM
      cases hs : statusOk t.status with
      | none => rfl
      | some b => cases b <;> rfl
    · rw [List.filter_cons, if_neg h, anyOk, if_neg h, ih]

theorem genAnyOk_eq (tests : List JobRes) (test : JobRes) : genAnyOk tests test = anyOk test.name tests := by
  unfold genAnyOk
  rw [anyM_filter_eq_anyOk]

theorem genAllOkLoop_eq (tests : List JobRes) (l : List JobRes) :
    genAllOkLoop tests true l = allOkLoop tests l := by
  induction l with
  | nil => rfl
  | cons t ts ih =>
    rw [genAllOkLoop, allOkLoop, genAnyOk_eq]
    cases h : anyOk t.name tests with
    | error e => rfl
    | ok b =>
      cases b
      · rfl
      · simpa [bind, Except.bind, pure, Except.pure] using ih

/-! ### `run_test_node`: the lookup -/

theorem genLookup_eq (tests : List JobRes) (name uid : String) :
    genLookup tests name uid = tests.filter (fun x => x.name == name && x.uid == uid) := by
  unfold genLookup
  simp [Id.run]
  rfl

theorem genLookup_head (tests : List JobRes) (name uid : String) :
    (genLookup tests name uid).head? = lookupJob tests name uid := by
  rw [genLookup_eq, List.head?_filter]; rfl

theorem lookupJob_name {job : List JobRes} {name uid : String} {x : JobRes}
    (h : lookupJob job name uid = some x) : x.name = name ∧ x.uid = uid := by
  unfold lookupJob at h
  have := List.find?_some h
  simpa using this

/-! ### the duration rule -/

theorem pyMaxDefault_eq (results : List Result) (d : Nat) :
    pyMaxDefault ((results.filter (fun r => r.status == "PASS")).map (fun r => r.time.getD 0)) d =
      maxAllowed results d := by
  unfold pyMaxDefault maxAllowed passStatus
  rfl

end I2N.Lemmas.RunnerGen
