import I2N.Lemmas.NetAlloc
/-! Helper lemmas for C18: the registry invariant of `VMNetwork`. -/
namespace I2N.Net

/-! ### association lists -/

theorem hasKey_iff {α : Type} (k : Nat) (l : List (Nat × α)) : hasKey k l = true ↔ ∃ v, (k, v) ∈ l := by
  simp only [hasKey, List.any_eq_true, beq_iff_eq]
  constructor
  · rintro ⟨⟨k', v⟩, hm, rfl⟩; exact ⟨v, hm⟩
  · rintro ⟨v, hm⟩; exact ⟨(k, v), hm, rfl⟩

theorem hasKey_false_iff {α : Type} (k : Nat) (l : List (Nat × α)) : hasKey k l = false ↔ ∀ v, (k, v) ∉ l := by
  rw [← Bool.not_eq_true, hasKey_iff]; simp

theorem hasKey_false_keys {α : Type} (k : Nat) (l : List (Nat × α)) (h : hasKey k l = false) : k ∉ l.map (·.1) := by
  rw [hasKey_false_iff] at h
  simp only [List.mem_map, not_exists, not_and]
  rintro ⟨k', v⟩ hm rfl
  exact h v hm

theorem mem_aset {α : Type} (k : Nat) (v : α) (l : List (Nat × α)) (p : Nat × α) :
    p ∈ aset k v l ↔ p = (k, v) ∨ (p.1 ≠ k ∧ p ∈ l) := by
  unfold aset
  split
  · rename_i h
    obtain ⟨w, hw⟩ := (hasKey_iff k l).1 h
    simp only [List.mem_map]
    constructor
    · rintro ⟨q, hq, rfl⟩
      by_cases hk : q.1 = k
      · simp [hk]
      · simp [hk, hq]
    · rintro (rfl | ⟨hne, hm⟩)
      · exact ⟨(k, w), hw, by simp⟩
      · exact ⟨p, hm, by simp [hne]⟩
  · rename_i h
    have h' := (hasKey_false_iff k l).1 (by simpa using h)
    simp only [List.mem_append, List.mem_singleton]
    constructor
    · rintro (hm | rfl)
      · right; refine ⟨?_, hm⟩; rintro rfl; exact h' p.2 hm
      · left; rfl
    · rintro (rfl | ⟨_, hm⟩)
      · right; rfl
      · left; exact hm

theorem aset_keys_nodup {α : Type} (k : Nat) (v : α) (l : List (Nat × α)) (h : (l.map (·.1)).Nodup) :
    ((aset k v l).map (·.1)).Nodup := by
  unfold aset
  split
  · have : (l.map (fun p => if p.1 = k then (k, v) else p)).map (·.1) = l.map (·.1) := by
      rw [List.map_map]; apply List.map_congr_left; intro p _; simp only [Function.comp]; split <;> simp_all
    rw [this]; exact h
  · rename_i hk
    rw [List.map_append, List.map_singleton]
    have hk' := hasKey_false_keys k l (by simpa using hk)
    rw [List.nodup_append]
    refine ⟨h, by simp, ?_⟩
    intro a ha b hb
    simp only [List.mem_singleton] at hb
    subst hb; rintro rfl; exact hk' ha

theorem aset_of_not_hasKey {α : Type} (k : Nat) (v : α) (l : List (Nat × α)) (h : hasKey k l = false) :
    aset k v l = l ++ [(k, v)] := by
  unfold aset; simp [h]

theorem mem_adel {α : Type} (k : Nat) (l : List (Nat × α)) (p : Nat × α) :
    p ∈ adel k l ↔ p.1 ≠ k ∧ p ∈ l := by
  unfold adel; simp only [List.mem_filter, bne_iff_ne]; exact And.comm

theorem adel_keys_nodup {α : Type} (k : Nat) (l : List (Nat × α)) (h : (l.map (·.1)).Nodup) :
    ((adel k l).map (·.1)).Nodup := by
  unfold adel
  exact h.sublist ((List.filter_sublist).map _)

/-! ### the invariant -/

/-- netconfig object `n` is a value of `self.netconfigs` -/
def Registered (s : Net) (n : Nat) : Prop := ∃ k, (k, n) ∈ s.reg

/-- consistency of the registries; `x` is an interface that is currently detached
    (`x ≥ s.nIf` for "none"). -/
structure PInvEx (s : Net) (x : Nat) : Prop where
  regKey : ∀ k n, (k, n) ∈ s.reg → n < s.nNc ∧ (s.nc n).netIp = k
  regNodup : (s.reg.map (·.1)).Nodup
  ifsNodup : ∀ n, ((s.nc n).ifs.map (·.1)).Nodup
  member : ∀ n, Registered s n → ∀ k i, (k, i) ∈ (s.nc n).ifs →
    i < s.nIf ∧ i ≠ x ∧ (s.iface i).nc = some n ∧ (s.iface i).ip = k
  placed : ∀ i n, i < s.nIf → i ≠ x → (s.iface i).nc = some n →
    Registered s n ∧ ((s.iface i).ip, i) ∈ (s.nc n).ifs ∧ inNet (s.nc n) (s.iface i).ip = true
  distinct : ∀ i j, i < s.nIf → j < s.nIf → (s.iface i).ip = (s.iface j).ip → i = j

/-- consistency of the registries for the interfaces that are attached (`nc ≠ none`) -/
def PInv (s : Net) : Prop := PInvEx s s.nIf

theorem inNet_congr (c c' : Netconfig) (x : Nat) (h1 : c'.netIp = c.netIp) (h2 : c'.netmask = c.netmask) :
    inNet c' x = inNet c x := by
  simp [inNet, Netconfig.bits, h1, h2]

/-- the state `add_interface` validates and returns -/
def attachState (s : Net) (n i : Nat) : Net :=
  (s.setNc n (fun c => { c with ifs := aset (s.iface i).ip i c.ifs })).setIface i (fun f => { f with nc := some n })

theorem addInterface_ok (s s' : Net) (n i : Nat) (h : addInterface s n i = .ok s') :
    s' = attachState s n i ∧ validate (attachState s n i) n = .ok () := by
  unfold addInterface at h
  simp only at h
  split at h
  · cases h
  · rename_i hv
    simp only [Except.ok.injEq] at h
    exact ⟨h.symm, hv⟩

theorem validateIfs_ok (s : Net) (n : Nat) (c : Netconfig) (l : List (Nat × Nat))
    (h : validateIfs s n c l = .ok ()) : ∀ k i, (k, i) ∈ l → inNet c (s.iface i).ip = true := by
  induction l with
  | nil => intro k i hm; cases hm
  | cons p l ih =>
    obtain ⟨k0, i0⟩ := p
    simp only [validateIfs] at h
    split at h
    · cases h
    · split at h
      · cases h
      · split at h
        · cases h
        · split at h
          · cases h
          · rename_i hin
            intro k i hm
            rcases List.mem_cons.1 hm with heq | hm
            · cases heq; simpa using hin
            · exact ih h k i hm

theorem validate_ok (s : Net) (n : Nat) (h : validate s n = .ok ()) :
    ∀ k i, (k, i) ∈ (s.nc n).ifs → inNet (s.nc n) (s.iface i).ip = true := by
  unfold validate at h
  simp only at h
  split at h
  · cases h
  · split at h
    · cases h
    · split at h
      · cases h
      · split at h
        · cases h
        · exact validateIfs_ok s n _ _ h

end I2N.Net
