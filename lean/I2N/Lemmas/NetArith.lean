import I2N.Model.Net
/-! Helper lemmas for C18: IPv4 arithmetic of `I2N.Model.Net`. -/
namespace I2N.Net

theorem tz_zero (w : Nat) : tz w 0 = w := by
  induction w with
  | zero => rfl
  | succ w ih => simp [tz, ih]

theorem tz_pow_mul_odd (j : Nat) : ∀ (w q : Nat), j ≤ w → q % 2 = 1 → tz w (2 ^ j * q) = j := by
  induction j with
  | zero =>
    intro w q _ hq
    cases w with
    | zero => rfl
    | succ w => simp [tz, hq]
  | succ j ih =>
    intro w q hw hq
    cases w with
    | zero => omega
    | succ w =>
      have h1 : 2 ^ (j + 1) * q = 2 * (2 ^ j * q) := by rw [Nat.pow_succ]; simp [Nat.mul_comm, Nat.mul_left_comm]
      have h2 : (2 ^ (j + 1) * q) % 2 = 0 := by rw [h1]; omega
      have h3 : (2 ^ (j + 1) * q) / 2 = 2 ^ j * q := by rw [h1]; omega
      simp only [tz, h2, h3, if_true]
      rw [ih w q (by omega) hq]

theorem pow_split (b : Nat) (hb : b ≤ 32) : 2 ^ (32 - b) * 2 ^ b = 2 ^ 32 := by
  rw [← Nat.pow_add]; congr 1; omega

theorem netmaskOfBits_eq_mul (b : Nat) (hb : b ≤ 32) :
    netmaskOfBits b = 2 ^ (32 - b) * (2 ^ b - 1) := by
  unfold netmaskOfBits
  rw [Nat.mul_sub, pow_split b hb, Nat.mul_one]

theorem two_pow_sub_one_odd (b : Nat) (hb : 1 ≤ b) : (2 ^ b - 1) % 2 = 1 := by
  obtain ⟨k, rfl⟩ : ∃ k, b = k + 1 := ⟨b - 1, by omega⟩
  have : 0 < 2 ^ k := Nat.pos_of_ne_zero (by simp)
  rw [Nat.pow_succ]; omega

theorem maskBit_netmaskOfBits (b : Nat) (hb : b ≤ 32) : maskBit (netmaskOfBits b) = b := by
  unfold maskBit
  by_cases h0 : b = 0
  · subst h0; simp [netmaskOfBits, tz_zero]
  · rw [netmaskOfBits_eq_mul b hb, tz_pow_mul_odd (32 - b) 32 _ (by omega) (two_pow_sub_one_odd b (by omega))]
    omega

theorem tz_le (w m : Nat) : tz w m ≤ w := by
  induction w generalizing m with
  | zero => simp [tz]
  | succ w ih =>
    simp only [tz]
    split
    · have := ih (m / 2); omega
    · omega

theorem maskBit_le (m : Nat) : maskBit m ≤ 32 := by unfold maskBit; omega

/-! `networkIp` -/

theorem networkIp_le (ip b : Nat) : networkIp ip b ≤ ip := by unfold networkIp; omega

theorem networkIp_mod (ip b : Nat) : networkIp ip b % 2 ^ (32 - b) = 0 := by
  unfold networkIp
  have hm : 0 < 2 ^ (32 - b) := Nat.pos_of_ne_zero (by simp)
  generalize 2 ^ (32 - b) = m at *
  have h := Nat.div_add_mod ip m
  have : ip - ip % m = m * (ip / m) := by omega
  rw [this]; exact Nat.mul_mod_right m (ip / m)

theorem lt_networkIp_add (ip b : Nat) : ip < networkIp ip b + 2 ^ (32 - b) := by
  unfold networkIp
  have hm : 0 < 2 ^ (32 - b) := Nat.pos_of_ne_zero (by simp)
  have := Nat.mod_lt ip hm
  have := Nat.mod_le ip (2 ^ (32 - b))
  omega

/-- the network address is characterised by alignment and the interval -/
theorem networkIp_eq_of (ip b n : Nat) (hal : n % 2 ^ (32 - b) = 0) (h1 : n ≤ ip) (h2 : ip < n + 2 ^ (32 - b)) :
    networkIp ip b = n := by
  unfold networkIp
  have hm : 0 < 2 ^ (32 - b) := Nat.pos_of_ne_zero (by simp)
  generalize 2 ^ (32 - b) = m at *
  obtain ⟨q, rfl⟩ : ∃ q, n = m * q := ⟨n / m, by have := Nat.div_add_mod n m; omega⟩
  have hd : ip = m * q + (ip - m * q) := by omega
  have : ip % m = ip - m * q := by
    rw [hd, Nat.mul_add_mod]; rw [Nat.mod_eq_of_lt (by omega)]; omega
  omega

theorem networkIp_idem (ip b : Nat) : networkIp (networkIp ip b) b = networkIp ip b := by
  have h := networkIp_mod ip b
  unfold networkIp at *
  rw [h]; rfl

theorem networkIp_eq_iff (ip b n : Nat) (hal : n % 2 ^ (32 - b) = 0) :
    networkIp ip b = n ↔ n ≤ ip ∧ ip < n + 2 ^ (32 - b) := by
  constructor
  · intro h; subst h; exact ⟨networkIp_le ip b, lt_networkIp_add ip b⟩
  · intro ⟨h1, h2⟩; exact networkIp_eq_of ip b n hal h1 h2

/-- a multiple of `2^(32-b)` below `2^32` leaves room for a whole block -/
theorem block_fits (t b : Nat) (ht : t < 2 ^ 32) (hal : t % 2 ^ (32 - b) = 0) : t + 2 ^ (32 - b) ≤ 2 ^ 32 := by
  have hk : 32 - b ≤ 32 := by omega
  have hsplit : 2 ^ 32 = 2 ^ (32 - b) * 2 ^ (32 - (32 - b)) := by
    rw [← Nat.pow_add]; congr 1; omega
  have hm : 0 < 2 ^ (32 - b) := Nat.pos_of_ne_zero (by simp)
  generalize 2 ^ (32 - b) = m at *
  generalize 2 ^ (32 - (32 - b)) = p at *
  obtain ⟨q, rfl⟩ : ∃ q, t = m * q := ⟨t / m, by have := Nat.div_add_mod t m; omega⟩
  rw [hsplit] at ht ⊢
  have hq : q < p := Nat.lt_of_mul_lt_mul_left ht
  calc m * q + m = m * (q + 1) := by rw [Nat.mul_add, Nat.mul_one]
    _ ≤ m * p := Nat.mul_le_mul_left m hq

end I2N.Net
