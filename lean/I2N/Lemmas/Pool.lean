/-
Helper lemmas for the C13 theorems: `dedup`, the stable descending insertion sort behind `get_sources`,
the loops of `show` and `get`.  Core only.
-/
import I2N.Model.Pool
namespace I2N.Pool

/-! ### `dedup` (= `Params.objects`) -/

theorem mem_dedup {a : Src} {l : List Src} : a ∈ dedup l ↔ a ∈ l := by
  induction l with
  | nil => simp [dedup]
  | cons x xs ih =>
    simp only [dedup, List.mem_cons, List.mem_filter, ih, bne_iff_ne, ne_eq]
    by_cases h : a = x <;> simp [h]

theorem nodup_dedup (l : List Src) : (dedup l).Nodup := by
  induction l with
  | nil => simp [dedup]
  | cons x xs ih =>
    simp only [dedup, List.nodup_cons, List.mem_filter, bne_iff_ne, ne_eq, not_true_eq_false, and_false,
      not_false_eq_true, true_and]
    exact ih.filter _

/-! ### `sortDesc` (= `sorted(..., key=proximity, reverse=True)`) -/

theorem perm_insertDesc (key : Src → Nat) (x : Src) (l : List Src) : (insertDesc key x l).Perm (x :: l) := by
  induction l with
  | nil => simp [insertDesc]
  | cons y ys ih =>
    simp only [insertDesc]
    split
    · exact (List.Perm.cons y ih).trans (List.Perm.swap x y ys)
    · exact List.Perm.refl _

theorem perm_sortDesc (key : Src → Nat) (l : List Src) : (sortDesc key l).Perm l := by
  induction l with
  | nil => simp [sortDesc]
  | cons x xs ih => exact (perm_insertDesc key x _).trans (List.Perm.cons x ih)

/-- descending by key -/
def Desc (key : Src → Nat) (l : List Src) : Prop := l.Pairwise (fun a b => key b ≤ key a)

theorem desc_insertDesc (key : Src → Nat) (x : Src) (l : List Src) (h : Desc key l) :
    Desc key (insertDesc key x l) := by
  induction l with
  | nil => simp [insertDesc, Desc]
  | cons y ys ih =>
    simp only [Desc, List.pairwise_cons] at h
    simp only [insertDesc]
    split
    · rename_i hlt
      simp only [Desc, List.pairwise_cons]
      refine ⟨?_, ih h.2⟩
      intro a ha
      have := (perm_insertDesc key x ys).mem_iff.mp ha
      rcases List.mem_cons.mp this with rfl | hm
      · omega
      · exact h.1 a hm
    · rename_i hge
      simp only [Desc, List.pairwise_cons]
      refine ⟨?_, h⟩
      intro a ha
      rcases List.mem_cons.mp ha with rfl | hm
      · omega
      · have := h.1 a hm; omega

theorem desc_sortDesc (key : Src → Nat) (l : List Src) : Desc key (sortDesc key l) := by
  induction l with
  | nil => simp [sortDesc, Desc]
  | cons x xs ih => exact desc_insertDesc key x _ ih

/-- stability: among the elements of one key the sort keeps the original order -/
theorem filter_insertDesc (key : Src → Nat) (k : Nat) (x : Src) (l : List Src) :
    (insertDesc key x l).filter (fun a => key a == k) = (x :: l).filter (fun a => key a == k) := by
  induction l with
  | nil => simp [insertDesc]
  | cons y ys ih =>
    simp only [insertDesc]
    split
    · rename_i hlt
      simp only [List.filter_cons, ih]
      by_cases hx : key x = k
      · have hy : ¬ key y = k := by omega
        simp [hx, hy]
      · simp [hx]
    · rfl

theorem filter_sortDesc (key : Src → Nat) (k : Nat) (l : List Src) :
    (sortDesc key l).filter (fun a => key a == k) = l.filter (fun a => key a == k) := by
  induction l with
  | nil => simp [sortDesc]
  | cons x xs ih =>
    simp only [sortDesc, filter_insertDesc]
    simp only [List.filter_cons, ih]

/-- the first `p` of a list is also the first `p` among the elements that share its key -/
theorem find_filter_key {key : Src → Nat} {p : Src → Bool} {l : List Src} {s : Src}
    (hf : l.find? p = some s) : (l.filter (fun a => key a == key s)).find? p = some s := by
  induction l with
  | nil => simp at hf
  | cons y ys ih =>
    by_cases hy : p y = true
    · simp only [List.find?_cons, hy, Option.some.injEq] at hf
      subst hf
      simp [hy]
    · have hy' : p y = false := by simpa using hy
      simp only [List.find?_cons, hy'] at hf
      simp only [List.filter_cons]
      split
      · simp only [List.find?_cons, hy']; exact ih hf
      · exact ih hf

/-! ### `get_sources` -/

theorem mem_getSources {e : Env} {locs : List Src} {s : Src} : s ∈ getSources e locs ↔ s ∈ locs := by
  unfold getSources
  rw [(perm_sortDesc _ _).mem_iff, mem_dedup]

theorem nodup_getSources (e : Env) (locs : List Src) : (getSources e locs).Nodup :=
  (perm_sortDesc _ _).nodup_iff.mpr (nodup_dedup locs)

theorem desc_getSources (e : Env) (locs : List Src) : Desc (proximity e) (getSources e locs) :=
  desc_sortDesc _ _

/-- in a descending list the first element satisfying `p` has the largest key among those satisfying `p` -/
theorem find_desc_max {key : Src → Nat} {p : Src → Bool} {l : List Src} {s : Src}
    (hd : Desc key l) (hf : l.find? p = some s) : ∀ t ∈ l, p t = true → key t ≤ key s := by
  induction l with
  | nil => simp at hf
  | cons y ys ih =>
    simp only [Desc, List.pairwise_cons] at hd
    intro t ht hpt
    by_cases hy : p y = true
    · simp only [List.find?_cons, hy, Option.some.injEq] at hf
      subst hf
      rcases List.mem_cons.mp ht with rfl | hm
      · exact Nat.le_refl _
      · exact hd.1 t hm
    · have hy' : p y = false := by simpa using hy
      simp only [List.find?_cons, hy'] at hf
      rcases List.mem_cons.mp ht with rfl | hm
      · exact absurd hpt hy
      · exact ih hd.2 hf t hm hpt

/-! ### `permitted` -/

theorem permitted_iff {skip : String} {e : Env} {scopes : List String} {s : Src} :
    permitted skip e scopes s = true ↔ sourceScope e s ≠ skip ∧ sourceScope e s ∈ scopes := by
  simp [permitted]

/-! ### the loop of `get` -/

theorem getLoop_eq (e : Env) (w : World) (scopes : List String) (state : String) (l : List Src) :
    getLoop e w scopes state l =
      match l.find? (permitted Extracted.Pool.getSkip e scopes) with
      | none => []
      | some s => getFrom w state s := by
  induction l with
  | nil => simp [getLoop]
  | cons y ys ih =>
    simp only [getLoop, List.find?_cons]
    by_cases hy : permitted Extracted.Pool.getSkip e scopes y = true
    · simp [hy]
    · have hy' : permitted Extracted.Pool.getSkip e scopes y = false := by simpa using hy
      simp [hy', ih]

/-! ### the loop of `show` -/

theorem mem_accumulate {x : String} {acc m : List String} (h : x ∈ accumulate acc m) : x ∈ acc ∨ x ∈ m := by
  unfold accumulate at h
  split at h
  · exact Or.inr h
  · exact Or.inl (List.mem_filter.mp h).1

theorem showLoop_contacts (e : Env) (w : World) (scopes : List String) (l : List Src) (acc : List String) :
    (showLoop e w scopes l acc).2 = (l.filter (permitted Extracted.Pool.showSkip e scopes)).map Contact.poolShow := by
  induction l generalizing acc with
  | nil => simp [showLoop]
  | cons y ys ih =>
    simp only [showLoop]
    by_cases hy : permitted Extracted.Pool.showSkip e scopes y = true
    · simp [hy, ih]
    · have hy' : permitted Extracted.Pool.showSkip e scopes y = false := by simpa using hy
      simp [hy', ih]

theorem showLoop_sound (e : Env) (w : World) (scopes : List String) (l : List Src) (acc : List String) (x : String)
    (h : x ∈ (showLoop e w scopes l acc).1) :
    x ∈ acc ∨ ∃ s ∈ l, permitted Extracted.Pool.showSkip e scopes s = true ∧ x ∈ w.mirror s := by
  induction l generalizing acc with
  | nil => exact Or.inl (by simpa [showLoop] using h)
  | cons y ys ih =>
    simp only [showLoop] at h
    by_cases hy : permitted Extracted.Pool.showSkip e scopes y = true
    · simp only [hy, if_true] at h
      rcases ih _ h with h1 | ⟨s, hs, hp, hx⟩
      · rcases mem_accumulate h1 with h2 | h2
        · exact Or.inl h2
        · exact Or.inr ⟨y, List.mem_cons_self, hy, h2⟩
      · exact Or.inr ⟨s, List.mem_cons_of_mem _ hs, hp, hx⟩
    · have hy' : permitted Extracted.Pool.showSkip e scopes y = false := by simpa using hy
      simp only [hy'] at h
      rcases ih _ h with h1 | ⟨s, hs, hp, hx⟩
      · exact Or.inl h1
      · exact Or.inr ⟨s, List.mem_cons_of_mem _ hs, hp, hx⟩

/-! ### the loop of `get_root` -/

theorem compareLoop_valid (vs : List Bool) (i : Nat) : (compareLoop vs i).2 = vs.all id := by
  induction vs generalizing i with
  | nil => simp [compareLoop]
  | cons v vs ih => cases v <;> simp [compareLoop, ih]

theorem compareLoop_contacts (vs : List Bool) (i : Nat) :
    ∀ c ∈ (compareLoop vs i).1, ∃ k, c = RContact.poolCompare k := by
  induction vs generalizing i with
  | nil => simp [compareLoop]
  | cons v vs ih =>
    cases v
    · simp [compareLoop]
    · intro c hc
      simp only [compareLoop, if_true, List.mem_cons] at hc
      rcases hc with rfl | hc
      · exact ⟨i, rfl⟩
      · exact ih _ c hc

/-! ### `compare_chain` -/

theorem compareFiles_iff (same : String → Bool) (fs : List String) :
    (compareFiles same fs).1 = true ↔ ∀ f ∈ fs, same f = true := by
  induction fs with
  | nil => simp [compareFiles]
  | cons f fs ih =>
    by_cases hf : same f = true
    · simp [compareFiles, hf, ih]
    · simp [compareFiles, hf]

theorem compareFiles_prefix (same : String → Bool) (fs : List String) : (compareFiles same fs).2 <+: fs := by
  induction fs with
  | nil => simp [compareFiles]
  | cons f fs ih =>
    by_cases hf : same f = true
    · simp only [compareFiles, hf, if_true]
      exact (List.prefix_cons_inj f).mpr ih
    · simp only [compareFiles, hf]
      exact ⟨fs, rfl⟩

theorem compareFiles_all (same : String → Bool) (fs : List String) (h : (compareFiles same fs).1 = true) :
    (compareFiles same fs).2 = fs := by
  induction fs with
  | nil => simp [compareFiles]
  | cons f fs ih =>
    by_cases hf : same f = true
    · simp only [compareFiles, hf, if_true] at h ⊢
      rw [ih h]
    · simp [compareFiles, hf] at h

/-- an invalid verdict is due to the last file compared; everything compared before it was equal -/
theorem compareFiles_stop (same : String → Bool) (fs : List String) (h : (compareFiles same fs).1 = false) :
    ∃ pre f, (compareFiles same fs).2 = pre ++ [f] ∧ same f = false ∧ ∀ g ∈ pre, same g = true := by
  induction fs with
  | nil => simp [compareFiles] at h
  | cons f fs ih =>
    by_cases hf : same f = true
    · simp only [compareFiles, hf, if_true] at h ⊢
      obtain ⟨pre, g, h1, h2, h3⟩ := ih h
      refine ⟨f :: pre, g, by simp [h1], h2, ?_⟩
      intro x hx
      rcases List.mem_cons.mp hx with rfl | hx
      · exact hf
      · exact h3 x hx
    · refine ⟨[], f, by simp [compareFiles, hf], by simpa using hf, by simp⟩

end I2N.Pool
