import I2N.Lemmas.Trav
/-!
Locations and ownership of the traversal model (property C08).

Part 1: the substring test (`strIn`), `locAdd` and the three nested folds of `pullLocations`:
every location of every setup edge ends up in the entry of every vm of the edge (`pullLocations_complete`),
and an entry is always the `" "`-join of a list of such locations (`pullLocations_sound`).
-/
namespace I2N.Trav

/-! ## the substring test -/

theorem isPrefixChars_self_append (p rest : List Char) : isPrefixChars p (p ++ rest) = true := by
  induction p with
  | nil => rfl
  | cons a p ih => simp [isPrefixChars, ih]

theorem isPrefixChars_append_right (x l b : List Char) (h : isPrefixChars x l = true) :
    isPrefixChars x (l ++ b) = true := by
  induction x generalizing l with
  | nil => rfl
  | cons a x ih =>
    cases l with
    | nil => simp [isPrefixChars] at h
    | cons c l =>
      simp only [isPrefixChars, Bool.and_eq_true, List.cons_append] at h ⊢
      exact ⟨h.1, ih l h.2⟩

theorem containsChars_nil (h : List Char) : containsChars h [] = true := by
  cases h <;> simp [containsChars, isPrefixChars]

theorem containsChars_self (l : List Char) : containsChars l l = true := by
  cases l with
  | nil => rfl
  | cons a l =>
    have := isPrefixChars_self_append (a :: l) []
    simp only [List.append_nil] at this
    simp [containsChars, this]

theorem containsChars_append_right (a b x : List Char) (h : containsChars a x = true) :
    containsChars (a ++ b) x = true := by
  induction a with
  | nil =>
    simp only [containsChars, List.isEmpty_iff] at h
    subst h
    exact containsChars_nil _
  | cons c r ih =>
    simp only [containsChars, Bool.or_eq_true, List.cons_append] at h ⊢
    rcases h with h | h
    · exact Or.inl (isPrefixChars_append_right x (c :: r) b h)
    · exact Or.inr (ih h)

theorem containsChars_append_left (a b x : List Char) (h : containsChars b x = true) :
    containsChars (a ++ b) x = true := by
  induction a with
  | nil => exact h
  | cons c r ih =>
    simp only [containsChars, Bool.or_eq_true, List.cons_append]
    exact Or.inr ih

/-- a string contains itself -/
theorem strIn_self (a : String) : strIn a a = true := containsChars_self _

theorem strIn_empty (a : String) : strIn "" a = true := containsChars_nil _

/-- what the left part of a joined entry contains, the joined entry contains -/
theorem strIn_join_left (x a b : String) (h : strIn x a = true) : strIn x (a ++ " " ++ b) = true := by
  unfold strIn at h ⊢
  simp only [String.toList_append, List.append_assoc]
  exact containsChars_append_right _ _ _ h

/-- … and the right part -/
theorem strIn_join_right (x a b : String) (h : strIn x b = true) : strIn x (a ++ " " ++ b) = true := by
  unfold strIn at h ⊢
  simp only [String.toList_append, List.append_assoc]
  exact containsChars_append_left _ _ _ (containsChars_append_left _ _ _ h)

theorem strIn_of_in_empty (x : String) (h : strIn x "" = true) : x = "" := by
  unfold strIn containsChars at h
  have h' : x.toList = "".toList := by simpa using h
  exact String.toList_inj.mp h'

/-! ## `locAdd` -/

/-- the entry of `vm` (what `params["get_location_<vm>"]` reads) -/
def locOf (cur : List (String × String)) (vm : String) : Option String :=
  (cur.find? (·.1 == vm)).map (·.2)

/-- the entry of `vm` exists and contains `loc` (Python's `loc in entry`) -/
def HasLoc (cur : List (String × String)) (vm loc : String) : Prop :=
  ∃ str, locOf cur vm = some str ∧ strIn loc str = true

/-- the `" "`-join that `locAdd` builds by appending one location at a time -/
def joinLocs (l : List String) : String :=
  l.foldl (fun acc loc => if acc == "" then loc else acc ++ " " ++ loc) ""

theorem joinLocs_append_singleton (l : List String) (b : String) :
    joinLocs (l ++ [b]) = if joinLocs l == "" then b else joinLocs l ++ " " ++ b := by
  unfold joinLocs
  rw [List.foldl_append]; rfl

theorem find?_key_some {cur : List (String × String)} {vm : String} {e : String × String}
    (h : cur.find? (·.1 == vm) = some e) : e.1 = vm := by
  have := List.find?_some h
  simpa using this

/-- the update of `locAdd` replaces the entry of `vm` and no other -/
theorem find?_map_upd (cur : List (String × String)) (vm new vm' : String) :
    (cur.map (fun e => if e.1 == vm then (vm, new) else e)).find? (·.1 == vm') =
      (cur.find? (·.1 == vm')).map (fun e => if e.1 == vm then (vm, new) else e) := by
  rw [List.find?_map]
  have : ((fun x : String × String => x.1 == vm') ∘ fun e => if e.1 == vm then (vm, new) else e) =
      (fun x : String × String => x.1 == vm') := by
    funext e
    simp only [Function.comp]
    by_cases he : e.1 = vm
    · simp [he]
    · simp [he]
  rw [this]

/-- the entry of every vm after `locAdd`, in terms of the entry before -/
theorem locOf_locAdd (cur : List (String × String)) (vm loc vm' : String) :
    locOf (locAdd cur vm loc) vm' =
      if vm' = vm then
        (match locOf cur vm with
         | none => some loc
         | some old => if strIn loc old then some old else some (if old == "" then loc else old ++ " " ++ loc))
      else locOf cur vm' := by
  unfold locAdd locOf
  cases hf : cur.find? (·.1 == vm) with
  | none =>
    simp only [List.find?_append, Option.map_none]
    by_cases hv : vm' = vm
    · subst hv
      simp [hf]
    · simp only [hv, if_false]
      have : ((vm == vm') = false) := by simpa using (Ne.symm hv)
      cases hf' : cur.find? (·.1 == vm') <;> simp [List.find?, this]
  | some e =>
    obtain ⟨k, old⟩ := e
    have hk : k = vm := find?_key_some hf
    subst hk
    simp only [Option.map_some]
    by_cases hin : strIn loc old = true
    · simp only [hin, if_true]
      by_cases hv : vm' = k
      · subst hv; simp [hf]
      · simp [hv]
    · simp only [hin, Bool.false_eq_true, if_false]
      rw [find?_map_upd]
      by_cases hv : vm' = k
      · subst hv; simp [hf]
      · simp only [hv, if_false]
        cases hf' : cur.find? (·.1 == vm') with
        | none => rfl
        | some e' =>
          have hk' : e'.1 = vm' := find?_key_some hf'
          have : ¬ e'.1 = k := by rw [hk']; exact hv
          simp [this]

/-- after `locAdd cur vm loc` the entry of `vm` contains `loc` -/
theorem hasLoc_locAdd (cur : List (String × String)) (vm loc : String) : HasLoc (locAdd cur vm loc) vm loc := by
  unfold HasLoc
  rw [locOf_locAdd]
  simp only [if_true]
  cases locOf cur vm with
  | none => exact ⟨loc, rfl, strIn_self loc⟩
  | some old =>
    dsimp only
    by_cases hin : strIn loc old = true
    · simp only [hin, if_true]; exact ⟨old, rfl, hin⟩
    · simp only [hin, Bool.false_eq_true, if_false]
      refine ⟨_, rfl, ?_⟩
      split
      · exact strIn_self loc
      · exact strIn_join_right loc old loc (strIn_self loc)

/-- entries only grow: what was contained stays contained, for every vm -/
theorem hasLoc_locAdd_mono (cur : List (String × String)) (vm loc vm' loc' : String) (h : HasLoc cur vm' loc') :
    HasLoc (locAdd cur vm loc) vm' loc' := by
  obtain ⟨str, hs, hin'⟩ := h
  unfold HasLoc
  rw [locOf_locAdd]
  by_cases hv : vm' = vm
  · subst hv
    simp only [if_true, hs]
    by_cases hin : strIn loc str = true
    · simp only [hin, if_true]; exact ⟨str, rfl, hin'⟩
    · simp only [hin, Bool.false_eq_true, if_false]
      refine ⟨_, rfl, ?_⟩
      split
      · next he =>
        have : str = "" := by simpa using he
        subst this
        rw [strIn_of_in_empty loc' hin']
        exact strIn_empty loc
      · exact strIn_join_left loc' str loc hin'
  · simp only [hv, if_false]
    exact ⟨str, hs, hin'⟩

/-! ## the folds of `pullLocations` -/

theorem foldl_inv {β} (I : State → Prop) (f : State → β → State) (h : ∀ s b, I s → I (f s b))
    (l : List β) (s : State) (hs : I s) : I (l.foldl f s) := by
  induction l generalizing s with
  | nil => exact hs
  | cons a r ih => simp only [List.foldl_cons]; exact ih _ (h s a hs)

/-- a fold establishes `Q` when the step for some member `b` of the list establishes it and every step keeps it
(`I`: a side invariant every step keeps) -/
theorem foldl_establish {β} (I Q : State → Prop) (f : State → β → State) (b : β)
    (hI : ∀ s x, I s → I (f s x)) (hQ : ∀ s x, I s → Q s → Q (f s x)) (hb : ∀ s, I s → Q (f s b))
    (l : List β) (hmem : b ∈ l) (s : State) (hs : I s) : Q (l.foldl f s) := by
  induction l generalizing s with
  | nil => simp at hmem
  | cons a r ih =>
    simp only [List.foldl_cons]
    rcases List.mem_cons.mp hmem with rfl | hr
    · have := foldl_inv (fun s => I s ∧ Q s) f (fun s x h => ⟨hI s x h.1, hQ s x h.1 h.2⟩) r (f s b) ⟨hI s b hs, hb s hs⟩
      exact this.2
    · exact ih hr _ (hI s a hs)

theorem sharedResults_congr (g : Graph) (s s' : State) (p : Nat) (h : ∀ m, (s'.nd m).results = (s.nd m).results) :
    sharedResults g s' p = sharedResults g s p := by
  unfold sharedResults
  simp only [h]

theorem sharedResultWorkerIds_congr (g : Graph) (s s' : State) (p : Nat) (h : ∀ m, (s'.nd m).results = (s.nd m).results) :
    sharedResultWorkerIds g s' p = sharedResultWorkerIds g s p := by
  unfold sharedResultWorkerIds
  rw [sharedResults_congr g s s' p h]

/-- one `locAdd` on the copy `n` -/
def locStep (n : Nat) (loc : String) (s : State) (vm : String) : State :=
  s.setNd n (fun d => { d with getLoc := locAdd d.getLoc vm loc })

/-- the locations `pull_locations` lists for setup parent `p` -/
def locsOf (g : Graph) (s : State) (p : Nat) : List String :=
  sharedLoc :: (sharedResultWorkerIds g s p).map (workerLoc g)

theorem pullLocations_eq (g : Graph) (s : State) (n : Nat) (hflat : (g.node n).flat = false) :
    pullLocations g s n =
      (g.node n).setup.foldl (fun s e => (locsOf g s e.1).foldl (fun s loc => e.2.foldl (locStep n loc) s) s) s := by
  unfold pullLocations
  simp only [hflat, Bool.false_eq_true, if_false]
  rfl

/-- side invariant of the folds: the copy exists and no result list changes -/
def LocFrame (s0 : State) (n : Nat) (s : State) : Prop :=
  n < s.nodes.length ∧ ∀ m, (s.nd m).results = (s0.nd m).results

theorem locFrame_locStep (s0 : State) (n : Nat) (loc : String) (s : State) (vm : String) (h : LocFrame s0 n s) :
    LocFrame s0 n (locStep n loc s vm) := by
  refine ⟨by unfold locStep; rw [nodes_length_setNd]; exact h.1, fun m => ?_⟩
  rw [← h.2 m]
  unfold locStep
  exact nd_setNd_proj (·.results) s n (fun d => { d with getLoc := locAdd d.getLoc vm loc }) (fun _ => rfl) m

theorem getLoc_locStep (n : Nat) (loc : String) (s : State) (vm : String) (h : n < s.nodes.length) :
    ((locStep n loc s vm).nd n).getLoc = locAdd (s.nd n).getLoc vm loc := by
  unfold locStep
  rw [nd_setNd_eq s n _ h]

theorem locFrame_inner (s0 : State) (n : Nat) (loc : String) (vms : List String) (s : State) (h : LocFrame s0 n s) :
    LocFrame s0 n (vms.foldl (locStep n loc) s) :=
  foldl_inv (LocFrame s0 n) _ (fun s vm h => locFrame_locStep s0 n loc s vm h) vms s h

theorem locFrame_middle (s0 : State) (n : Nat) (vms : List String) (locs : List String) (s : State) (h : LocFrame s0 n s) :
    LocFrame s0 n (locs.foldl (fun s loc => vms.foldl (locStep n loc) s) s) :=
  foldl_inv (LocFrame s0 n) _ (fun s loc h => locFrame_inner s0 n loc vms s h) locs s h

/-- `Q` is kept by every `locAdd` on the copy, hence by all three folds -/
theorem pull_keeps (s0 : State) (n : Nat) (Q : List (String × String) → Prop)
    (hQ : ∀ cur vm loc, Q cur → Q (locAdd cur vm loc)) :
    (∀ (loc : String) (vms : List String) s, LocFrame s0 n s → Q (s.nd n).getLoc →
      Q ((vms.foldl (locStep n loc) s).nd n).getLoc) ∧
    (∀ (locs vms : List String) s, LocFrame s0 n s → Q (s.nd n).getLoc →
      Q ((locs.foldl (fun s loc => vms.foldl (locStep n loc) s) s).nd n).getLoc) := by
  have h1 : ∀ (loc : String) (vms : List String) s, LocFrame s0 n s → Q (s.nd n).getLoc →
      Q ((vms.foldl (locStep n loc) s).nd n).getLoc := by
    intro loc vms s hf hq
    have := foldl_inv (fun s => LocFrame s0 n s ∧ Q (s.nd n).getLoc) (locStep n loc)
      (fun s vm h => ⟨locFrame_locStep s0 n loc s vm h.1, by rw [getLoc_locStep n loc s vm h.1.1]; exact hQ _ _ _ h.2⟩)
      vms s ⟨hf, hq⟩
    exact this.2
  refine ⟨h1, ?_⟩
  intro locs vms s hf hq
  have := foldl_inv (fun s => LocFrame s0 n s ∧ Q (s.nd n).getLoc) (fun s loc => vms.foldl (locStep n loc) s)
    (fun s loc h => ⟨locFrame_inner s0 n loc vms s h.1, h1 loc vms s h.1 h.2⟩) locs s ⟨hf, hq⟩
  exact this.2

/-- completeness of `pull_locations`: every location of every setup edge is contained in the entry of every vm
of the edge -/
theorem pullLocations_complete (g : Graph) (s : State) (n : Nat) (hflat : (g.node n).flat = false)
    (hn : n < s.nodes.length) (p : Nat) (vms : List String) (he : (p, vms) ∈ (g.node n).setup)
    (vm : String) (hvm : vm ∈ vms) (loc : String) (hloc : loc ∈ locsOf g s p) :
    HasLoc ((pullLocations g s n).nd n).getLoc vm loc := by
  rw [pullLocations_eq g s n hflat]
  have keep := pull_keeps s n (fun cur => HasLoc cur vm loc) (fun cur vm' loc' h => hasLoc_locAdd_mono cur vm' loc' vm loc h)
  have keep2 : ∀ (locs vms : List String) (s1 : State), LocFrame s n s1 → HasLoc (s1.nd n).getLoc vm loc →
      HasLoc ((locs.foldl (fun s loc => vms.foldl (locStep n loc) s) s1).nd n).getLoc vm loc := keep.2
  -- inner fold: the step for `vm` establishes the entry
  have inner : ∀ s', LocFrame s n s' → HasLoc ((vms.foldl (locStep n loc) s').nd n).getLoc vm loc := by
    intro s' hf
    refine foldl_establish (LocFrame s n) (fun s => HasLoc (s.nd n).getLoc vm loc) (locStep n loc) vm
      (fun s1 x h => locFrame_locStep s n loc s1 x h) ?_ ?_ vms hvm s' hf
    · intro s1 x h hq
      rw [getLoc_locStep n loc s1 x h.1]
      exact hasLoc_locAdd_mono _ _ _ _ _ hq
    · intro s1 h
      rw [getLoc_locStep n loc s1 vm h.1]
      exact hasLoc_locAdd _ _ _
  -- middle fold: the round for `loc`
  have middle : ∀ (locs : List String), loc ∈ locs → ∀ s', LocFrame s n s' →
      HasLoc ((locs.foldl (fun s loc => vms.foldl (locStep n loc) s) s').nd n).getLoc vm loc := by
    intro locs hl s' hf
    exact foldl_establish (LocFrame s n) (fun s => HasLoc (s.nd n).getLoc vm loc)
      (fun s loc => vms.foldl (locStep n loc) s) loc
      (fun s1 x h => locFrame_inner s n x vms s1 h) (fun s1 x h hq => keep.1 x vms s1 h hq) (fun s1 h => inner s1 h) locs hl s' hf
  -- outer fold: the round for the edge
  have rest : ∀ (l : List (Nat × List String)) (s1 : State), (LocFrame s n s1 ∧ HasLoc (s1.nd n).getLoc vm loc) →
      (LocFrame s n (l.foldl (fun s e => (locsOf g s e.1).foldl (fun s loc => e.2.foldl (locStep n loc) s) s) s1) ∧
       HasLoc ((l.foldl (fun s e => (locsOf g s e.1).foldl (fun s loc => e.2.foldl (locStep n loc) s) s) s1).nd n).getLoc
        vm loc) := by
    intro l
    induction l with
    | nil => intro s1 h; exact h
    | cons a r ih =>
      intro s1 h
      simp only [List.foldl_cons]
      apply ih
      exact ⟨locFrame_middle s n a.2 (locsOf g s1 a.1) s1 h.1, keep2 (locsOf g s1 a.1) a.2 s1 h.1 h.2⟩
  have outer : ∀ (l : List (Nat × List String)), (p, vms) ∈ l → ∀ s', LocFrame s n s' →
      HasLoc ((l.foldl (fun s e => (locsOf g s e.1).foldl (fun s loc => e.2.foldl (locStep n loc) s) s) s').nd n).getLoc
        vm loc := by
    intro l hl s' hf
    induction l generalizing s' with
    | nil => simp at hl
    | cons a r ih =>
      simp only [List.foldl_cons]
      have hfa : LocFrame s n ((locsOf g s' a.1).foldl (fun s loc => a.2.foldl (locStep n loc) s) s') :=
        locFrame_middle s n a.2 (locsOf g s' a.1) s' hf
      rcases List.mem_cons.mp hl with rfl | hr
      · have h1 : HasLoc (((locsOf g s' p).foldl (fun s loc => vms.foldl (locStep n loc) s) s').nd n).getLoc vm loc := by
          apply middle (locsOf g s' p) _ s' hf
          unfold locsOf at hloc ⊢
          rw [sharedResultWorkerIds_congr g s s' p hf.2]
          exact hloc
        exact (rest r _ ⟨hfa, h1⟩).2
      · exact ih hr _ hfa
  exact outer _ he s ⟨hn, fun _ => rfl⟩

/-! ## soundness: an entry is a join of locations of edges through the vm -/

theorem foldl_inv_mem {β} (I : State → Prop) (f : State → β → State) (l : List β)
    (h : ∀ s b, b ∈ l → I s → I (f s b)) (s : State) (hs : I s) : I (l.foldl f s) := by
  induction l generalizing s with
  | nil => exact hs
  | cons a r ih =>
    simp only [List.foldl_cons]
    exact ih (fun s b hb => h s b (List.mem_cons_of_mem _ hb)) _ (h s a List.mem_cons_self hs)

/-- every entry is the join of a non-empty list of locations that `A` allows for its vm -/
def JoinOf (A : String → String → Prop) (cur : List (String × String)) : Prop :=
  ∀ vm str, locOf cur vm = some str → ∃ L : List String, L ≠ [] ∧ str = joinLocs L ∧ ∀ l ∈ L, A vm l

theorem joinOf_locAdd (A : String → String → Prop) (cur : List (String × String)) (vm loc : String)
    (ha : A vm loc) (h : JoinOf A cur) : JoinOf A (locAdd cur vm loc) := by
  intro vm' str hs
  rw [locOf_locAdd] at hs
  by_cases hv : vm' = vm
  · subst hv
    simp only [if_true] at hs
    cases ho : locOf cur vm' with
    | none =>
      simp only [ho, Option.some.injEq] at hs
      exact ⟨[loc], by simp, by rw [← hs]; rfl, by simpa using ha⟩
    | some old =>
      obtain ⟨L, hne, hL, hall⟩ := h vm' old ho
      simp only [ho] at hs
      by_cases hin : strIn loc old = true
      · simp only [hin, if_true, Option.some.injEq] at hs
        exact ⟨L, hne, by rw [← hs]; exact hL, hall⟩
      · simp only [hin, Bool.false_eq_true, if_false, Option.some.injEq] at hs
        by_cases he : (old == "") = true
        · simp only [he, if_true] at hs
          exact ⟨[loc], by simp, by rw [← hs]; rfl, by simpa using ha⟩
        · simp only [he, Bool.false_eq_true, if_false] at hs
          refine ⟨L ++ [loc], by simp, ?_, ?_⟩
          · rw [joinLocs_append_singleton, ← hL]
            simp only [he, Bool.false_eq_true, if_false]
            exact hs.symm
          · intro l hl
            rcases List.mem_append.mp hl with hl | hl
            · exact hall l hl
            · rw [List.mem_singleton.mp hl]; exact ha
  · simp only [hv, if_false] at hs
    exact h vm' str hs

/-- soundness of `pull_locations`: starting from no entries, the entry of `vm` is the `" "`-join of a list of
locations each of which belongs to a setup edge through `vm` -/
theorem pullLocations_sound (g : Graph) (s : State) (n : Nat) (hflat : (g.node n).flat = false)
    (hn : n < s.nodes.length) (hempty : (s.nd n).getLoc = []) (vm str : String)
    (h : locOf ((pullLocations g s n).nd n).getLoc vm = some str) :
    ∃ L : List String, L ≠ [] ∧ str = joinLocs L ∧
      ∀ l ∈ L, ∃ p vms, (p, vms) ∈ (g.node n).setup ∧ vm ∈ vms ∧ l ∈ locsOf g s p := by
  rw [pullLocations_eq g s n hflat] at h
  let A : String → String → Prop := fun vm l => ∃ p vms, (p, vms) ∈ (g.node n).setup ∧ vm ∈ vms ∧ l ∈ locsOf g s p
  let I : State → Prop := fun s1 => LocFrame s n s1 ∧ JoinOf A (s1.nd n).getLoc
  have inner : ∀ (loc : String) (vms : List String), (∀ vm ∈ vms, A vm loc) → ∀ s1, I s1 →
      I (vms.foldl (locStep n loc) s1) := by
    intro loc vms ha s1 h1
    refine foldl_inv_mem I (locStep n loc) vms ?_ s1 h1
    intro s2 vm hvm h2
    refine ⟨locFrame_locStep s n loc s2 vm h2.1, ?_⟩
    rw [getLoc_locStep n loc s2 vm h2.1.1]
    exact joinOf_locAdd A _ vm loc (ha vm hvm) h2.2
  have middle : ∀ (locs vms : List String), (∀ loc ∈ locs, ∀ vm ∈ vms, A vm loc) → ∀ s1, I s1 →
      I (locs.foldl (fun s loc => vms.foldl (locStep n loc) s) s1) := by
    intro locs vms ha s1 h1
    refine foldl_inv_mem I (fun s loc => vms.foldl (locStep n loc) s) locs ?_ s1 h1
    intro s2 loc hloc h2
    exact inner loc vms (ha loc hloc) s2 h2
  have outer : ∀ (l : List (Nat × List String)), (∀ e ∈ l, e ∈ (g.node n).setup) → ∀ s1, I s1 →
      I (l.foldl (fun s e => (locsOf g s e.1).foldl (fun s loc => e.2.foldl (locStep n loc) s) s) s1) := by
    intro l hl s1 h1
    refine foldl_inv_mem I (fun s e => (locsOf g s e.1).foldl (fun s loc => e.2.foldl (locStep n loc) s) s) l ?_ s1 h1
    intro s2 e he h2
    apply middle (locsOf g s2 e.1) e.2 _ s2 h2
    intro loc hloc vm hvm
    refine ⟨e.1, e.2, hl e he, hvm, ?_⟩
    unfold locsOf at hloc ⊢
    rw [← sharedResultWorkerIds_congr g s s2 e.1 h2.1.2]
    exact hloc
  have hI : I s := by
    refine ⟨⟨hn, fun _ => rfl⟩, ?_⟩
    intro vm str hs
    rw [hempty] at hs
    simp [locOf] at hs
  exact (outer _ (fun _ he => he) s hI).2 vm str h

end I2N.Trav
