import I2N.Lemmas.NetInv
import I2N.Extracted.GenNet
/-! Helper lemmas for the translator tie of C18 (`I2N.Extracted.GenNet`, regenerated from
`avocado_i2n/vmnet/netconfig.py` on every run) with the hand model `I2N.Model.Net`. -/
namespace I2N.Net
open I2N.Extracted.GenNet

/-! ### dictionaries -/

theorem alookup_of_mem_nodup {α : Type} (l : List (Nat × α)) (h : (l.map (·.1)).Nodup) (p : Nat × α) (hp : p ∈ l) :
    alookup p.1 l = some p.2 := by
  induction l with
  | nil => cases hp
  | cons q r ih =>
    obtain ⟨k, v⟩ := q
    simp only [List.map_cons, List.nodup_cons, List.mem_map, not_exists, not_and] at h
    simp only [alookup]
    rcases List.mem_cons.mp hp with rfl | hm
    · simp
    · have : k ≠ p.1 := fun e => h.1 p hm e.symm
      simp only [this, if_false]
      exact ih h.2 hm

theorem alookup_isSome_iff_hasKey {α : Type} (k : Nat) (l : List (Nat × α)) : (alookup k l).isSome = hasKey k l := by
  induction l with
  | nil => rfl
  | cons q r ih =>
    obtain ⟨k', v⟩ := q
    by_cases h : k' = k
    · simp [alookup, hasKey, h]
    · have hb : (k' == k) = false := by simp [h]
      simp only [alookup, h, if_false, ih, hasKey, List.any_cons, hb, Bool.false_or]

theorem alookup_aset_self {α : Type} (k : Nat) (v : α) (l : List (Nat × α)) : alookup k (aset k v l) = some v := by
  unfold aset
  split
  · rename_i hk
    induction l with
    | nil => simp [hasKey] at hk
    | cons q r ih =>
      obtain ⟨k', w⟩ := q
      by_cases h : k' = k
      · simp [alookup, h]
      · have : hasKey k r = true := by simpa [hasKey, h] using hk
        simp only [List.map_cons, h, if_false, alookup]
        exact ih this
  · induction l with
    | nil => simp [alookup]
    | cons q r ih =>
      rename_i hk
      obtain ⟨k', w⟩ := q
      have hk' : ¬ k' = k := by intro e; apply hk; simp [hasKey, e]
      have hr : ¬ hasKey k r = true := by intro e; apply hk; simp only [hasKey, List.any_cons] at e ⊢; simp [e]
      simp only [List.cons_append, alookup, hk', if_false]
      exact ih hr

theorem aset_cons_ne {α : Type} (k k' : Nat) (v w : α) (r : List (Nat × α)) (hne : ¬ k' = k) (hk : hasKey k r = true) :
    aset k v ((k', w) :: r) = (k', w) :: aset k v r := by
  have hk2 : hasKey k ((k', w) :: r) = true := by
    simp only [hasKey, List.any_cons] at hk ⊢; simp [hk]
  unfold aset
  rw [if_pos hk2, if_pos hk]
  simp [hne]

theorem find?_congr_mem {α : Type} (l : List α) (p q : α → Bool) (h : ∀ x ∈ l, p x = q x) : l.find? p = l.find? q := by
  induction l with
  | nil => rfl
  | cons a r ih =>
    simp only [List.find?_cons, h a (List.mem_cons_self ..)]
    rw [ih (fun x hx => h x (List.mem_cons_of_mem _ hx))]

/-! ### `get_allocatable_address` -/

/-- the search of the generated loop on a dictionary: the first entry that is free, and the dictionary with
    that key set to `True` -/
theorem allocRange_eq_find (r : List (Nat × Bool)) (h : (r.map (·.1)).Nodup) :
    allocRange r = (r.find? (fun x => x.2 == false)).map (fun x => (x.1, aset x.1 true r)) := by
  induction r with
  | nil => rfl
  | cons q r ih =>
    obtain ⟨o, t⟩ := q
    simp only [List.map_cons, List.nodup_cons, List.mem_map, not_exists, not_and] at h
    have hno : ∀ p ∈ r, ¬ p.1 = o := fun p hp => h.1 p hp
    cases t with
    | false =>
      have hmap : r.map (fun p => if p.1 = o then (o, true) else p) = r := by
        conv => rhs; rw [← List.map_id r]
        apply List.map_congr_left
        intro p hp; simp [hno p hp]
      simp [allocRange, aset, hasKey, hmap]
    | true =>
      simp only [allocRange, if_true, ih h.2, List.find?_cons, Option.map_map]
      have : ((o, true).2 == false) = false := rfl
      simp only [this]
      cases hf : r.find? (fun x => x.2 == false) with
      | none => rfl
      | some x =>
        have hx : x ∈ r := List.mem_of_find?_eq_some hf
        have hxo : ¬ o = x.1 := fun e => hno x hx e.symm
        have hk : hasKey x.1 r = true := (hasKey_iff x.1 r).2 ⟨x.2, hx⟩
        simp only [Option.map_some, Function.comp]
        rw [aset_cons_ne x.1 o true true r hxo hk]

theorem find_rangeKeys (c : Netconfig) (h : (c.range.map (·.1)).Nodup) :
    (rangeKeys c).find? (fun val => genAllocTest c val)
      = (c.range.find? (fun x => x.2 == false)).map (fun x => Int.ofNat x.1) := by
  unfold rangeKeys
  rw [List.find?_map]
  congr 1
  apply find?_congr_mem
  intro x hx
  simp only [Function.comp, genAllocTest, Id.run, rangeFree, pure]
  have : (Int.ofNat x.1).toNat = x.1 := by simp
  rw [this, alookup_of_mem_nodup c.range h x hx]
  cases x.2 <;> rfl

end I2N.Net
