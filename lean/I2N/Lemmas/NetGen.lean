import I2N.Lemmas.NetInv
import I2N.Extracted.GenNet
/-! Helper lemmas for the translator tie of C18 (`I2N.Extracted.GenNet`, regenerated from
`avocado_i2n/vmnet/netconfig.py` on every run) with the hand model `I2N.Model.Net`. -/
namespace I2N.Net
open I2N.Extracted.GenNet

/-! ### dictionaries -/

theorem alookup_of_mem_nodup {α : Type} (l : List (Nat × α)) (h : (l.map (·.1)).Nodup) (p : Nat × α) (hp : p ∈ l) :
    alookup p.1 l = some p.2 := by
  induction l with
  | nil => cases hp
  | cons q r ih =>
    obtain ⟨k, v⟩ := q
    simp only [List.map_cons, List.nodup_cons, List.mem_map, not_exists, not_and] at h
    simp only [alookup]
    rcases List.mem_cons.mp hp with rfl | hm
    · simp
    · have : k ≠ p.1 := fun e => h.1 p hm e.symm
      simp only [this, if_false]
      exact ih h.2 hm

theorem alookup_isSome_iff_hasKey {α : Type} (k : Nat) (l : List (Nat × α)) : (alookup k l).isSome = hasKey k l := by
  induction l with
  | nil => rfl
  | cons q r ih =>
    obtain ⟨k', v⟩ := q
    by_cases h : k' = k
    · simp [alookup, hasKey, h]
    · have hb : (k' == k) = false := by simp [h]
      simp only [alookup, h, if_false, ih, hasKey, List.any_cons, hb, Bool.false_or]

theorem alookup_aset_self {α : Type} (k : Nat) (v : α) (l : List (Nat × α)) : alookup k (aset k v l) = some v := by
  unfold aset
  split
  · rename_i hk
    induction l with
    | nil => simp [hasKey] at hk
    | cons q r ih =>
      obtain ⟨k', w⟩ := q
      by_cases h : k' = k
      · simp [alookup, h]
      · have : hasKey k r = true := by simpa [hasKey, h] using hk
        simp only [List.map_cons, h, if_false, alookup]
        exact ih this
  · induction l with
    | nil => simp [alookup]
    | cons q r ih =>
      rename_i hk
      obtain ⟨k', w⟩ := q
      have hk' : ¬ k' = k := by intro e; apply hk; simp [hasKey, e]
      have hr : ¬ hasKey k r = true := by intro e; apply hk; simp only [hasKey, List.any_cons] at e ⊢; simp [e]
      simp only [List.cons_append, alookup, hk', if_false]
      exact ih hr

theorem aset_cons_ne {α : Type} (k k' : Nat) (v w : α) (r : List (Nat × α)) (hne : ¬ k' = k) (hk : hasKey k r = true) :
    aset k v ((k', w) :: r) = (k', w) :: aset k v r := by
  have hk2 : hasKey k ((k', w) :: r) = true := by
    simp only [hasKey, List.any_cons] at hk ⊢; simp [hk]
  unfold aset
  rw [if_pos hk2, if_pos hk]
  simp [hne]

theorem find?_congr_mem {α : Type} (l : List α) (p q : α → Bool) (h : ∀ x ∈ l, p x = q x) : l.find? p = l.find? q := by
  induction l with
  | nil => rfl
  | cons a r ih =>
    simp only [List.find?_cons, h a (List.mem_cons_self ..)]
    rw [ih (fun x hx => h x (List.mem_cons_of_mem _ hx))]

/-! ### `get_allocatable_address` -/

/-- the search of the generated loop on a dictionary: the first entry that is free, and the dictionary with
    that key set to `True` -/
theorem allocRange_eq_find (r : List (Nat × Bool)) (h : (r.map (·.1)).Nodup) :
    allocRange r = (r.find? (fun x => x.2 == false)).map (fun x => (x.1, aset x.1 true r)) := by
  induction r with
  | nil => rfl
  | cons q r ih =>
    obtain ⟨o, t⟩ := q
    simp only [List.map_cons, List.nodup_cons, List.mem_map, not_exists, not_and] at h
    have hno : ∀ p ∈ r, ¬ p.1 = o := fun p hp => h.1 p hp
    cases t with
    | false =>
      have hmap : r.map (fun p => if p.1 = o then (o, true) else p) = r := by
        conv => rhs; rw [← List.map_id r]
        apply List.map_congr_left
        intro p hp; simp [hno p hp]
      simp [allocRange, aset, hasKey, hmap]
    | true =>
      simp only [allocRange, if_true, ih h.2, List.find?_cons, Option.map_map]
      have : ((o, true).2 == false) = false := rfl
      simp only [this]
      cases hf : r.find? (fun x => x.2 == false) with
      | none => rfl
      | some x =>
        have hx : x ∈ r := List.mem_of_find?_eq_some hf
        have hxo : ¬ o = x.1 := fun e => hno x hx e.symm
        have hk : hasKey x.1 r = true := (hasKey_iff x.1 r).2 ⟨x.2, hx⟩
        simp only [Option.map_some, Function.comp]
        rw [aset_cons_ne x.1 o true true r hxo hk]

theorem find_rangeKeys (c : Netconfig) (h : (c.range.map (·.1)).Nodup) :
    (rangeKeys c).find? (fun val => genAllocTest c val)
      = (c.range.find? (fun x => x.2 == false)).map (fun x => Int.ofNat x.1) := by
  unfold rangeKeys
  rw [List.find?_map]
  congr 1
  apply find?_congr_mem
  intro x hx
  simp only [Function.comp, genAllocTest, Id.run, rangeFree, pure]
  have : (Int.ofNat x.1).toNat = x.1 := by simp
  rw [this, alookup_of_mem_nodup c.range h x hx]
  cases x.2 <;> rfl

/-! ### `mask_bit` -/

/-- the `w` lowest bits of `n`, least significant first -/
def bitsLE : Nat → Nat → List Bool
  | 0, _ => []
  | w + 1, n => (n % 2 == 1) :: bitsLE w (n / 2)

theorem bitsLE_length (w n : Nat) : (bitsLE w n).length = w := by
  induction w generalizing n with
  | zero => rfl
  | succ w ih => simp [bitsLE, ih]

theorem bitsLE_add (a b : Nat) : ∀ n, bitsLE (a + b) n = bitsLE a n ++ bitsLE b (n / 2 ^ a) := by
  induction a with
  | zero => intro n; simp [bitsLE]
  | succ a ih =>
    intro n
    have : a + 1 + b = (a + b) + 1 := by omega
    rw [this]
    simp only [bitsLE, List.cons_append, ih (n / 2), Nat.div_div_eq_div_mul]
    rw [show 2 * 2 ^ a = 2 ^ (a + 1) by rw [Nat.pow_succ]; omega]

theorem bitsLE_mod (w : Nat) : ∀ n, bitsLE w (n % 2 ^ w) = bitsLE w n := by
  induction w with
  | zero => intro n; rfl
  | succ w ih =>
    intro n
    simp only [bitsLE]
    have h1 : n % 2 ^ (w + 1) % 2 = n % 2 := by
      rw [Nat.pow_succ, Nat.mul_comm]; exact Nat.mod_mul_right_mod n 2 (2 ^ w)
    have h2 : n % 2 ^ (w + 1) / 2 = n / 2 % 2 ^ w := by
      rw [Nat.pow_succ, Nat.mul_comm]; exact Nat.mod_mul_right_div_self n 2 (2 ^ w)
    rw [h1, h2, ih]

/-- stripping the trailing zeros = dropping the leading `false`s of the little-endian expansion -/
theorem dropWhile_bitsLE_length (w : Nat) : ∀ m, ((bitsLE w m).dropWhile (fun b => !b)).length = w - tz w m := by
  induction w with
  | zero => intro m; rfl
  | succ w ih =>
    intro m
    simp only [bitsLE, tz]
    by_cases h : m % 2 = 0
    · simp only [h, if_true]
      have : ((0 : Nat) == 1) = false := rfl
      simp only [this, List.dropWhile_cons, Bool.not_false, if_true, ih]
      omega
    · have h1 : m % 2 = 1 := by omega
      simp [h1, bitsLE_length]

/-- an octet as `bin(octet)[2:].zfill(8)` is its eight bits, most significant first -/
theorem bitsLE_zero (w : Nat) : bitsLE w 0 = List.replicate w false := by
  induction w with
  | zero => rfl
  | succ w ih => simp only [bitsLE, Nat.zero_div, ih, List.replicate_succ]; rfl

/-- the digits of `bin(n)`, padded with zeros at the most significant end, are the `w` lowest bits when `n < 2^w` -/
theorem binDigitsLE_pad (fuel : Nat) : ∀ (w n : Nat), n < 2 ^ fuel → n < 2 ^ w → 1 ≤ w →
    binDigitsLE fuel n ++ List.replicate (w - (binDigitsLE fuel n).length) false = bitsLE w n := by
  induction fuel with
  | zero => intro w n h; simp only [Nat.pow_zero, Nat.lt_one_iff] at h; subst h; intro _ _; simp [binDigitsLE, bitsLE_zero]
  | succ f ih =>
    intro w n hf hw h1
    obtain ⟨w', rfl⟩ : ∃ w', w = w' + 1 := ⟨w - 1, by omega⟩
    simp only [binDigitsLE, bitsLE]
    by_cases h2 : n < 2
    · have hd : n / 2 = 0 := by omega
      have hm : n % 2 = n := by omega
      simp only [h2, if_true, hd, hm, bitsLE_zero, List.length_singleton, List.cons_append, List.nil_append]
      rw [show w' + 1 - 1 = w' by omega]
    · have hn2 : n / 2 < 2 ^ f := by rw [Nat.pow_succ] at hf; omega
      have hw2 : n / 2 < 2 ^ w' := by rw [Nat.pow_succ] at hw; omega
      have hw1 : 1 ≤ w' := by
        rcases Nat.eq_zero_or_pos w' with rfl | h
        · simp at hw2; omega
        · exact h
      simp only [h2, if_false, List.cons_append, List.length_cons]
      rw [show w' + 1 - ((binDigitsLE f (n / 2)).length + 1) = w' - (binDigitsLE f (n / 2)).length by omega]
      rw [ih w' (n / 2) hn2 hw2 hw1]

/-- an octet as `bin(octet)[2:].zfill(8)` is its eight bits, most significant first -/
theorem binZfill_octet (n : Nat) (h : n < 256) : binZfill 8 n = (bitsLE 8 n).reverse := by
  have hf : n < 2 ^ (n + 1) := Nat.lt_of_lt_of_le Nat.lt_two_pow_self (Nat.pow_le_pow_right (by omega) (by omega))
  have := binDigitsLE_pad (n + 1) 8 n hf h (by omega)
  rw [← this]
  simp only [binZfill, List.reverse_append, List.reverse_replicate, List.length_reverse]
  rfl

theorem genMaskBit_eq (m : Nat) : genMaskBit m = Int.ofNat (maskBit m) := by
  have h1 : m / 2 ^ 24 % 256 < 256 := Nat.mod_lt _ (by omega)
  have h2 : m / 2 ^ 16 % 256 < 256 := Nat.mod_lt _ (by omega)
  have h3 : m / 2 ^ 8 % 256 < 256 := Nat.mod_lt _ (by omega)
  have h4 : m % 256 < 256 := Nat.mod_lt _ (by omega)
  have e : ∀ k, bitsLE 8 (k % 256) = bitsLE 8 k := fun k => bitsLE_mod 8 k
  have hb : bitsLE 32 m = bitsLE 8 m ++ (bitsLE 8 (m / 2 ^ 8) ++ (bitsLE 8 (m / 2 ^ 16) ++ bitsLE 8 (m / 2 ^ 24))) := by
    rw [show (32 : Nat) = 8 + (8 + (8 + 8)) by rfl, bitsLE_add, bitsLE_add, bitsLE_add]
    simp only [Nat.div_div_eq_div_mul]
  simp only [genMaskBit, Id.run, pure, octets, List.foldl_cons, List.foldl_nil, List.nil_append, rstripZeros,
    binZfill_octet _ h1, binZfill_octet _ h2, binZfill_octet _ h3, binZfill_octet _ h4, e,
    List.reverse_append, List.reverse_reverse, List.length_reverse, ← List.append_assoc]
  simp only [List.append_assoc, ← hb, dropWhile_bitsLE_length, maskBit]

end I2N.Net
