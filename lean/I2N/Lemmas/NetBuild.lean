import I2N.Lemmas.NetInv
/-! Helper lemmas for C18: `add_interface`, `integrate_node`, `VMNetwork.__init__` keep the invariant. -/
namespace I2N.Net

@[simp] theorem attachState_nIf (s : Net) (n i : Nat) : (attachState s n i).nIf = s.nIf := rfl
@[simp] theorem attachState_nNc (s : Net) (n i : Nat) : (attachState s n i).nNc = s.nNc := rfl
@[simp] theorem attachState_reg (s : Net) (n i : Nat) : (attachState s n i).reg = s.reg := rfl
theorem attachState_nc (s : Net) (n i m : Nat) : (attachState s n i).nc m =
    if m = n then { s.nc m with ifs := aset (s.iface i).ip i (s.nc m).ifs } else s.nc m := rfl
theorem attachState_iface (s : Net) (n i j : Nat) : (attachState s n i).iface j =
    if j = i then { s.iface j with nc := some n } else s.iface j := rfl

theorem attachState_ip (s : Net) (n i j : Nat) : ((attachState s n i).iface j).ip = (s.iface j).ip := by
  rw [attachState_iface]; split <;> rfl

theorem attachState_netIp (s : Net) (n i m : Nat) : ((attachState s n i).nc m).netIp = (s.nc m).netIp := by
  rw [attachState_nc]; split <;> rfl

theorem attachState_netmask (s : Net) (n i m : Nat) : ((attachState s n i).nc m).netmask = (s.nc m).netmask := by
  rw [attachState_nc]; split <;> rfl

theorem attachState_inNet (s : Net) (n i m x : Nat) : inNet ((attachState s n i).nc m) x = inNet (s.nc m) x :=
  inNet_congr _ _ _ (attachState_netIp s n i m) (attachState_netmask s n i m)

/-- `add_interface` of a detached interface to a registered netconfig re-establishes the invariant -/
theorem attach_pinv (s s' : Net) (n i : Nat) (hs : PInvEx s i) (hi : i < s.nIf) (hn : Registered s n)
    (h : addInterface s n i = .ok s') : PInv s' := by
  obtain ⟨rfl, hval⟩ := addInterface_ok s s' n i h
  have hv := validate_ok _ _ hval
  have hreg : ∀ m, Registered (attachState s n i) m ↔ Registered s m := fun m => Iff.rfl
  refine ⟨?_, ?_, ?_, ?_, ?_, ?_⟩
  · intro k m hm
    have := hs.regKey k m hm
    exact ⟨this.1, by rw [attachState_netIp]; exact this.2⟩
  · exact hs.regNodup
  · intro m
    rw [attachState_nc]
    split
    · exact aset_keys_nodup _ _ _ (hs.ifsNodup m)
    · exact hs.ifsNodup m
  · intro m hm k j hj
    simp only [attachState_nIf]
    rw [attachState_nc] at hj
    have old : (k, j) ∈ (s.nc m).ifs → j < s.nIf ∧ j ≠ s.nIf ∧ ((attachState s n i).iface j).nc = some m ∧
        ((attachState s n i).iface j).ip = k := by
      intro hj'
      obtain ⟨h1, h2, h3, h4⟩ := hs.member m hm k j hj'
      refine ⟨h1, by omega, ?_, by rw [attachState_ip]; exact h4⟩
      rw [attachState_iface, if_neg h2]; exact h3
    split at hj
    · rename_i hmn
      subst hmn
      rcases (mem_aset _ _ _ _).1 hj with heq | ⟨_, hj'⟩
      · cases heq
        refine ⟨hi, by omega, ?_, by rw [attachState_ip]⟩
        rw [attachState_iface, if_pos rfl]
      · exact old hj'
    · exact old hj
  · intro j m hj _ hjm
    simp only [attachState_nIf] at hj
    rw [attachState_ip, attachState_inNet]
    by_cases hji : j = i
    · subst hji
      rw [attachState_iface, if_pos rfl] at hjm
      simp only [Option.some.injEq] at hjm
      subst hjm
      have hmem : ((s.iface j).ip, j) ∈ ((attachState s n j).nc n).ifs := by
        rw [attachState_nc, if_pos rfl]; exact (mem_aset _ _ _ _).2 (Or.inl rfl)
      refine ⟨hn, hmem, ?_⟩
      have := hv _ _ hmem
      rw [attachState_ip, attachState_inNet] at this
      exact this
    · rw [attachState_iface, if_neg hji] at hjm
      obtain ⟨h1, h2, h3⟩ := hs.placed j m hj hji hjm
      refine ⟨h1, ?_, h3⟩
      rw [attachState_nc]
      split
      · apply (mem_aset _ _ _ _).2
        right
        refine ⟨?_, h2⟩
        intro heq
        exact hji (hs.distinct j i hj hi heq)
      · exact h2
  · intro a b ha hb hab
    simp only [attachState_nIf] at ha hb
    rw [attachState_ip, attachState_ip] at hab
    exact hs.distinct a b ha hb hab

/-- an interface that was never attached is a detached interface -/
theorem pinvEx_of_unattached (s : Net) (i : Nat) (hs : PInv s) (hi : (s.iface i).nc = none) : PInvEx s i := by
  refine ⟨hs.regKey, hs.regNodup, hs.ifsNodup, ?_, ?_, hs.distinct⟩
  · intro n hn k j hj
    obtain ⟨h1, _, h3, h4⟩ := hs.member n hn k j hj
    refine ⟨h1, ?_, h3, h4⟩
    rintro rfl
    rw [hi] at h3; cases h3
  · intro j n hj _ hjn
    exact hs.placed j n hj (by omega) hjn

end I2N.Net

namespace I2N.Net

theorem canAdd_false (c : Netconfig) (i : Nat) (f : Iface) (h : canAdd c i f = .ok false) :
    networkIp f.ip c.bits ≠ c.netIp := by
  unfold canAdd at h
  split at h
  · cases h
  · split at h
    · cases h
    · simpa using h

theorem findNc_some (s : Net) (i n : Nat) (l : List (Nat × Nat)) (h : findNc s i l = .ok (some n)) :
    ∃ k, (k, n) ∈ l := by
  induction l with
  | nil => simp [findNc] at h
  | cons p l ih =>
    obtain ⟨k0, n0⟩ := p
    simp only [findNc] at h
    split at h
    · cases h
    · simp only [Except.ok.injEq, Option.some.injEq] at h
      subst h; exact ⟨k0, List.mem_cons_self⟩
    · obtain ⟨k, hk⟩ := ih h
      exact ⟨k, List.mem_cons_of_mem _ hk⟩

theorem findNc_none (s : Net) (i : Nat) (l : List (Nat × Nat)) (h : findNc s i l = .ok none) :
    ∀ k n, (k, n) ∈ l → networkIp (s.iface i).ip (s.nc n).bits ≠ (s.nc n).netIp := by
  induction l with
  | nil => intro k n hm; cases hm
  | cons p l ih =>
    obtain ⟨k0, n0⟩ := p
    simp only [findNc] at h
    split at h
    · cases h
    · cases h
    · rename_i hc
      intro k n hm
      rcases List.mem_cons.1 hm with heq | hm
      · cases heq; exact canAdd_false _ _ _ hc
      · exact ih h k n hm

/-- a new netconfig object `c` entered into the registry under a key that is not in use -/
def newNcState (s : Net) (c : Netconfig) : Net :=
  { s with nNc := s.nNc + 1, nc := fun m => if m = s.nNc then c else s.nc m, reg := s.reg ++ [(c.netIp, s.nNc)] }

theorem newNc_pinvEx (s : Net) (c : Netconfig) (i : Nat) (hs : PInv s) (hi : (s.iface i).nc = none)
    (hk : hasKey c.netIp s.reg = false) (hc : c.ifs = []) : PInvEx (newNcState s c) i := by
  have hex := pinvEx_of_unattached s i hs hi
  have hregd : ∀ m, Registered s m → m ≠ s.nNc := by
    rintro m ⟨k, hm⟩ rfl
    have := (hs.regKey k _ hm).1; omega
  have hnew : ∀ m, Registered (newNcState s c) m → Registered s m ∨ m = s.nNc := by
    rintro m ⟨k, hm⟩
    simp only [newNcState, List.mem_append, List.mem_singleton, Prod.mk.injEq] at hm
    rcases hm with hm | ⟨_, rfl⟩
    · exact Or.inl ⟨k, hm⟩
    · exact Or.inr rfl
  have hncold : ∀ m, m ≠ s.nNc → (newNcState s c).nc m = s.nc m := by
    intro m hm; simp [newNcState, hm]
  refine ⟨?_, ?_, ?_, ?_, ?_, hex.distinct⟩
  · intro k m hm
    simp only [newNcState, List.mem_append, List.mem_singleton, Prod.mk.injEq] at hm ⊢
    rcases hm with hm | ⟨rfl, rfl⟩
    · have := hs.regKey k m hm
      have hne : m ≠ s.nNc := by omega
      simp only [hne, if_false]
      exact ⟨by omega, this.2⟩
    · simp
  · simp only [newNcState, List.map_append, List.map_singleton]
    rw [List.nodup_append]
    refine ⟨hs.regNodup, by simp, ?_⟩
    intro a ha b hb
    simp only [List.mem_singleton] at hb
    subst hb; rintro rfl; exact hasKey_false_keys _ _ hk ha
  · intro m
    by_cases hm : m = s.nNc
    · subst hm; simp [newNcState, hc]
    · rw [hncold m hm]; exact hs.ifsNodup m
  · intro m hm k j hj
    rcases hnew m hm with hm' | rfl
    · rw [hncold m (hregd m hm')] at hj
      exact hex.member m hm' k j hj
    · simp [newNcState, hc] at hj
  · intro j m hj hji hjm
    obtain ⟨h1, h2, h3⟩ := hex.placed j m hj hji hjm
    have hne := hregd m h1
    rw [hncold m hne]
    refine ⟨?_, h2, h3⟩
    obtain ⟨k, hk'⟩ := h1
    exact ⟨k, by simp [newNcState, hk']⟩

theorem fromInterface_ifs (f : Iface) : (fromInterface f).ifs = [] := rfl

/-- what `place` returns in the two branches -/
theorem place_cases (s s' : Net) (i : Nat) (h : place s i = .ok s') :
    (∃ n, Registered s n ∧ addInterface s n i = .ok s') ∨
    ((∀ k n, (k, n) ∈ s.reg → networkIp (s.iface i).ip (s.nc n).bits ≠ (s.nc n).netIp) ∧
      ∃ t, addInterface { s with nNc := s.nNc + 1,
                                 nc := fun m => if m = s.nNc then fromInterface (s.iface i) else s.nc m } s.nNc i = .ok t ∧
        s' = { t with reg := aset (fromInterface (s.iface i)).netIp s.nNc t.reg }) := by
  unfold place at h
  split at h
  · cases h
  · rename_i n hf
    exact Or.inl ⟨n, findNc_some s i n s.reg hf, h⟩
  · rename_i hf
    right
    refine ⟨findNc_none s i s.reg hf, ?_⟩
    simp only at h
    split at h
    · cases h
    · rename_i t ht
      simp only [Except.ok.injEq] at h
      exact ⟨t, ht, h.symm⟩

theorem validateIfs_congr (s t : Net) (n : Nat) (c : Netconfig) (l : List (Nat × Nat)) (h : t.iface = s.iface) :
    validateIfs t n c l = validateIfs s n c l := by
  induction l with
  | nil => rfl
  | cons p l ih => obtain ⟨k, i⟩ := p; simp only [validateIfs, h, ih]

/-- `validate` reads the interface and netconfig objects only -/
theorem validate_congr (s t : Net) (n : Nat) (h1 : t.iface = s.iface) (h2 : t.nc = s.nc) :
    validate t n = validate s n := by
  unfold validate
  simp only [h2, validateIfs_congr s t n _ _ h1]

/-- one interface attached by `integrate_node`, provided a new netconfig does not take over the
    registry key of another one -/
theorem place_pinv (s s' : Net) (i : Nat) (hs : PInv s) (hi : i < s.nIf) (hnone : (s.iface i).nc = none)
    (hkey : (∀ k n, (k, n) ∈ s.reg → networkIp (s.iface i).ip (s.nc n).bits ≠ (s.nc n).netIp) →
      hasKey (fromInterface (s.iface i)).netIp s.reg = false)
    (h : place s i = .ok s') : PInv s' := by
  rcases place_cases s s' i h with ⟨n, hn, hadd⟩ | ⟨hno, t, hadd, rfl⟩
  · exact attach_pinv s s' n i (pinvEx_of_unattached s i hs hnone) hi hn hadd
  · have hk := hkey hno
    obtain ⟨rfl, hval⟩ := addInterface_ok _ _ _ _ hadd
    have hex := newNc_pinvEx s (fromInterface (s.iface i)) i hs hnone hk (fromInterface_ifs _)
    refine attach_pinv (newNcState s (fromInterface (s.iface i))) _ s.nNc i hex hi
      ⟨(fromInterface (s.iface i)).netIp, by simp [newNcState]⟩ ?_
    have hval' : validate (attachState (newNcState s (fromInterface (s.iface i))) s.nNc i) s.nNc = .ok () := by
      rw [← hval]; exact validate_congr _ _ _ rfl rfl
    unfold addInterface
    simp only
    rw [show validate (((newNcState s (fromInterface (s.iface i))).setNc s.nNc _).setIface i _) s.nNc = .ok ()
      from hval']
    simp only [attachState_reg, aset_of_not_hasKey _ _ _ hk]
    rfl

end I2N.Net

namespace I2N.Net

/-- every registered netconfig was constructed `from_interface` of some interface (build phase only:
    interface addresses do not change) -/
def Origin (s : Net) : Prop :=
  ∀ k n, (k, n) ∈ s.reg → ∃ j, j < s.nIf ∧ (s.nc n).netmask = (s.iface j).netmask ∧
    (s.nc n).netIp = networkIp (s.iface j).ip (maskBit (s.iface j).netmask)

/-- no two interfaces configure subnets with the same network address but different netmasks -/
def NoShadowS (s : Net) : Prop :=
  ∀ i j, i < s.nIf → j < s.nIf →
    networkIp (s.iface i).ip (maskBit (s.iface i).netmask) = networkIp (s.iface j).ip (maskBit (s.iface j).netmask) →
    (s.iface i).netmask = (s.iface j).netmask

theorem noShadow_key (s : Net) (i : Nat) (hs : PInv s) (ho : Origin s) (hsh : NoShadowS s) (hi : i < s.nIf)
    (hno : ∀ k n, (k, n) ∈ s.reg → networkIp (s.iface i).ip (s.nc n).bits ≠ (s.nc n).netIp) :
    hasKey (fromInterface (s.iface i)).netIp s.reg = false := by
  rw [hasKey_false_iff]
  intro n hm
  obtain ⟨j, hj, hmask, hip⟩ := ho _ n hm
  have hkey := (hs.regKey _ n hm).2
  have heq : networkIp (s.iface i).ip (maskBit (s.iface i).netmask) =
      networkIp (s.iface j).ip (maskBit (s.iface j).netmask) := by
    rw [← hip, hkey]; rfl
  have hmm := hsh i j hi hj heq
  apply hno _ n hm
  rw [Netconfig.bits, hmask, ← hmm, hkey]; rfl

/-- `place` changes neither addresses nor netmasks and attaches exactly interface `i` -/
theorem place_frame (s s' : Net) (i : Nat) (h : place s i = .ok s') :
    s'.nIf = s.nIf ∧ (∀ j, (s'.iface j).ip = (s.iface j).ip ∧ (s'.iface j).netmask = (s.iface j).netmask) ∧
    (∀ j, j ≠ i → (s'.iface j).nc = (s.iface j).nc) ∧ ((s'.iface i).nc).isSome = true := by
  rcases place_cases s s' i h with ⟨n, _, hadd⟩ | ⟨_, t, hadd, rfl⟩
  · obtain ⟨rfl, _⟩ := addInterface_ok _ _ _ _ hadd
    refine ⟨rfl, ?_, ?_, ?_⟩
    · intro j; rw [attachState_iface]; split <;> exact ⟨rfl, rfl⟩
    · intro j hj; rw [attachState_iface, if_neg hj]
    · rw [attachState_iface, if_pos rfl]; rfl
  · obtain ⟨rfl, _⟩ := addInterface_ok _ _ _ _ hadd
    refine ⟨rfl, ?_, ?_, ?_⟩
    · intro j; show ((attachState _ _ _).iface j).ip = _ ∧ _; rw [attachState_iface]; split <;> exact ⟨rfl, rfl⟩
    · intro j hj; show ((attachState _ _ _).iface j).nc = _; rw [attachState_iface, if_neg hj]
    · show (((attachState _ _ _).iface i).nc).isSome = true; rw [attachState_iface, if_pos rfl]; rfl

theorem place_origin (s s' : Net) (i : Nat) (hi : i < s.nIf) (ho : Origin s) (hs : PInv s)
    (h : place s i = .ok s') : Origin s' := by
  have hfr := place_frame s s' i h
  rcases place_cases s s' i h with ⟨n, _, hadd⟩ | ⟨_, t, hadd, rfl⟩
  · obtain ⟨rfl, _⟩ := addInterface_ok _ _ _ _ hadd
    intro k m hm
    obtain ⟨j, hj, h1, h2⟩ := ho k m hm
    refine ⟨j, hj, ?_, ?_⟩
    · rw [attachState_netmask, (hfr.2.1 j).2]; exact h1
    · rw [attachState_netIp, (hfr.2.1 j).1, (hfr.2.1 j).2]; exact h2
  · obtain ⟨rfl, _⟩ := addInterface_ok _ _ _ _ hadd
    intro k m hm
    have hm' : (k, m) ∈ s.reg ∨ (k, m) = ((fromInterface (s.iface i)).netIp, s.nNc) := by
      have := (mem_aset _ _ _ _).1 hm
      rcases this with h | ⟨_, h⟩
      · exact Or.inr h
      · exact Or.inl h
    show ∃ j, j < s.nIf ∧ ((attachState _ _ _).nc m).netmask = ((attachState _ _ _).iface j).netmask ∧
      ((attachState _ _ _).nc m).netIp = networkIp ((attachState _ _ _).iface j).ip (maskBit ((attachState _ _ _).iface j).netmask)
    rcases hm' with hm' | heq
    · obtain ⟨j, hj, h1, h2⟩ := ho k m hm'
      have hne : m ≠ s.nNc := by have := (hs.regKey k m hm').1; omega
      refine ⟨j, hj, ?_, ?_⟩
      · rw [attachState_netmask]
        have := (hfr.2.1 j).2
        simp only [hne, if_false]
        rw [h1]; exact this.symm
      · rw [attachState_netIp]
        have h3 := (hfr.2.1 j).1
        have h4 := (hfr.2.1 j).2
        simp only [hne, if_false]
        rw [h2]
        show _ = networkIp ((attachState _ _ _).iface j).ip (maskBit ((attachState _ _ _).iface j).netmask)
        rw [← h3, ← h4]
    · cases heq
      refine ⟨i, hi, ?_, ?_⟩
      · rw [attachState_netmask, attachState_iface, if_pos rfl]; simp [fromInterface]
      · rw [attachState_netIp, attachState_iface, if_pos rfl]; simp [fromInterface]

end I2N.Net

namespace I2N.Net

theorem placeAll_inv (ids : List Nat) : ∀ (s s' : Net), PInv s → Origin s → NoShadowS s → ids.Nodup →
    (∀ i ∈ ids, i < s.nIf ∧ (s.iface i).nc = none) → placeAll s ids = .ok s' →
    PInv s' ∧ s'.nIf = s.nIf ∧ (∀ i ∈ ids, ((s'.iface i).nc).isSome = true) ∧
      (∀ j, j ∉ ids → (s'.iface j).nc = (s.iface j).nc) := by
  induction ids with
  | nil =>
    intro s s' hs _ _ _ _ h
    simp only [placeAll, Except.ok.injEq] at h
    subst h
    exact ⟨hs, rfl, by simp, fun _ _ => rfl⟩
  | cons i ids ih =>
    intro s s' hs ho hsh hnd hids h
    simp only [placeAll] at h
    split at h
    · cases h
    · rename_i s1 h1
      have ⟨hi, hnone⟩ := hids i (by simp)
      have hfr := place_frame s s1 i h1
      have hs1 : PInv s1 := place_pinv s s1 i hs hi hnone (noShadow_key s i hs ho hsh hi) h1
      have ho1 : Origin s1 := place_origin s s1 i hi ho hs h1
      have hsh1 : NoShadowS s1 := by
        intro a b ha hb hab
        rw [hfr.1] at ha hb
        rw [(hfr.2.1 a).1, (hfr.2.1 a).2, (hfr.2.1 b).1, (hfr.2.1 b).2] at hab
        rw [(hfr.2.1 a).2, (hfr.2.1 b).2]
        exact hsh a b ha hb hab
      have hnd' := List.nodup_cons.1 hnd
      have hids1 : ∀ j ∈ ids, j < s1.nIf ∧ (s1.iface j).nc = none := by
        intro j hj
        have hji : j ≠ i := by rintro rfl; exact hnd'.1 hj
        rw [hfr.1, hfr.2.2.1 j hji]
        exact hids j (by simp [hj])
      obtain ⟨r1, r2, r3, r4⟩ := ih s1 s' hs1 ho1 hsh1 hnd'.2 hids1 h
      refine ⟨r1, by rw [r2, hfr.1], ?_, ?_⟩
      · intro j hj
        rcases List.mem_cons.1 hj with rfl | hj
        · by_cases hmem : j ∈ ids
          · exact r3 j hmem
          · rw [r4 j hmem]; exact hfr.2.2.2
        · exact r3 j hj
      · intro j hj
        simp only [List.mem_cons, not_or] at hj
        rw [r4 j hj.2, hfr.2.2.1 j hj.1]

theorem init_iface (inp : List Iface) (i : Nat) (hi : i < inp.length) :
    ((init inp).iface i).ip = inp[i].ip ∧ ((init inp).iface i).netmask = inp[i].netmask ∧
    ((init inp).iface i).nc = none := by
  simp [init, List.getD_eq_getElem?_getD, List.getElem?_eq_getElem hi]

theorem init_pinv (inp : List Iface) (hd : (inp.map (·.ip)).Nodup) : PInv (init inp) := by
  refine ⟨?_, ?_, ?_, ?_, ?_, ?_⟩
  · intro k n hm; simp [init] at hm
  · simp [init]
  · intro n; simp only [init]; exact List.nodup_nil
  · rintro n ⟨k, hm⟩; simp [init] at hm
  · intro i n hi _ hn
    have : ((init inp).iface i).nc = none := rfl
    rw [this] at hn; cases hn
  · intro i j hi hj hij
    have hi' : i < inp.length := hi
    have hj' : j < inp.length := hj
    rw [(init_iface inp i hi').1, (init_iface inp j hj').1] at hij
    have h1 : (inp.map (·.ip))[i]'(by simpa using hi') = (inp.map (·.ip))[j]'(by simpa using hj') := by
      simpa using hij
    exact (List.getElem_inj hd).1 h1

/-- input-level form of `NoShadowS`: equal network addresses imply equal netmasks -/
def NoShadow (inp : List Iface) : Prop :=
  ∀ a ∈ inp, ∀ b ∈ inp, networkIp a.ip (maskBit a.netmask) = networkIp b.ip (maskBit b.netmask) →
    a.netmask = b.netmask

theorem init_noShadow (inp : List Iface) (h : NoShadow inp) : NoShadowS (init inp) := by
  intro i j hi hj hij
  have hi' : i < inp.length := hi
  have hj' : j < inp.length := hj
  obtain ⟨a1, a2, _⟩ := init_iface inp i hi'
  obtain ⟨b1, b2, _⟩ := init_iface inp j hj'
  rw [a1, a2, b1, b2] at hij
  rw [a2, b2]
  exact h _ (List.getElem_mem hi') _ (List.getElem_mem hj') hij

/-- consistent registries and every interface attached -/
def Inv (s : Net) : Prop := PInv s ∧ ∀ i, i < s.nIf → ((s.iface i).nc).isSome = true

theorem build_inv (inp : List Iface) (s : Net) (hd : (inp.map (·.ip)).Nodup) (hsh : NoShadow inp)
    (h : build inp = .ok s) : Inv s ∧ s.nIf = inp.length := by
  unfold build at h
  have hids : ∀ i ∈ List.range inp.length, i < (init inp).nIf ∧ ((init inp).iface i).nc = none := by
    intro i hi
    exact ⟨by simpa [init] using hi, rfl⟩
  obtain ⟨r1, r2, r3, _⟩ := placeAll_inv (List.range inp.length) (init inp) s (init_pinv inp hd)
    (by intro k n hm; simp [init] at hm) (init_noShadow inp hsh) List.nodup_range hids h
  refine ⟨⟨r1, ?_⟩, r2⟩
  intro i hi
  rw [r2] at hi
  exact r3 i (by simpa [init] using hi)

end I2N.Net
