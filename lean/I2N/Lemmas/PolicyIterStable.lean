import I2N.Lemmas.PolicyGenIter
import I2N.Lemmas.Policy
/-!
# When is the chain stable?  (hypothesis `topStable` of `iterObjects_matches_source`, C12)

`Params.object_params(name)` overwrites `states_chain` only from a key `states_chain_<name>…`.  The configuration of
/repo (`tp_folder/configs/guest-base.cfg`: `states_chain = nets vms images`, no suffixed variant) and every caller in
`states/setup.py` (`state_params["states_chain"] = composite_types[-1]`, unsuffixed) only ever write the plain key.
`topStable_of_noSuffix`: a dictionary none of whose keys begins with `states_chain_`, and whose chain does not name a
type `states_chain` / `states_chain_…`, has a stable chain - at every depth.
-/
namespace I2N.PolicyGenIter
open I2N.Policy

/-- the key begins with `states_chain_` -/
def chainKey (k : String) : Bool := "states_chain_".toList.isPrefixOf k.toList

/-- no key of the dictionary begins with `states_chain_` -/
def NoSuffix (p : Params) : Prop := ∀ kv ∈ p, chainKey kv.1 = false

/-- a type name that does not interfere with the key `states_chain` -/
def okType (t : String) : Bool := t != "states_chain" && !chainKey t

theorem mem_set {p : Params} {k v : String} {kv : String × String} (h : kv ∈ p.set k v) : kv.1 = k ∨ kv ∈ p := by
  induction p with
  | nil => simp [Params.set] at h; left; rw [h]
  | cons a rest ih =>
    unfold Params.set at h
    split at h
    · rename_i hk
      rcases List.mem_cons.mp h with h | h
      · left; rw [h]; simpa using hk
      · right; exact List.mem_cons_of_mem _ h
    · rcases List.mem_cons.mp h with h | h
      · right; rw [h]; exact List.mem_cons_self
      · rcases ih h with h | h
        · left; exact h
        · right; exact List.mem_cons_of_mem _ h

theorem NoSuffix.set {p : Params} (h : NoSuffix p) {k : String} (v : String) (hk : chainKey k = false) :
    NoSuffix (p.set k v) := by
  intro kv hkv
  rcases mem_set hkv with e | e
  · rw [e]; exact hk
  · exact h kv e

theorem beforeFirst_prefix (suf : List Char) : ∀ l : List Char, beforeFirst suf l <+: l
  | [] => by simp [beforeFirst]
  | c :: cs => by
    unfold beforeFirst
    split
    · exact List.nil_prefix
    · exact (List.prefix_cons_inj c).mpr (beforeFirst_prefix suf cs)

theorem beforeFirst_append (suf : List Char) : ∀ l : List Char, suf <:+ l → (beforeFirst suf l ++ suf) <+: l
  | [], h => by
    have : suf = [] := List.suffix_nil.mp h
    subst this
    simp [beforeFirst]
  | c :: cs, h => by
    unfold beforeFirst
    split
    · rename_i hp
      simpa using List.isPrefixOf_iff_prefix.mp hp
    · rename_i hp
      have hs : suf <:+ cs := by
        rcases List.suffix_cons_iff.mp h with e | e
        · exfalso; apply hp; rw [e]; exact List.isPrefixOf_iff_prefix.mpr (List.prefix_refl _)
        · exact e
      simpa using (List.prefix_cons_inj c).mpr (beforeFirst_append suf cs hs)

/-- the key written by `object_params` from a key that does not begin with `states_chain_` is neither `states_chain`
nor begins with `states_chain_` -/
theorem written_key_ok (k name : String) (hk : chainKey k = false) (he : endsWith k ("_" ++ name) = true) :
    String.ofList (beforeFirst ("_" ++ name).toList k.toList) ≠ "states_chain" ∧
    chainKey (String.ofList (beforeFirst ("_" ++ name).toList k.toList)) = false := by
  have hsuf : ("_" ++ name).toList <:+ k.toList := List.isSuffixOf_iff_suffix.mp he
  have happ := beforeFirst_append _ _ hsuf
  have hpre := beforeFirst_prefix ("_" ++ name).toList k.toList
  constructor
  · intro e
    have e' : beforeFirst ("_" ++ name).toList k.toList = "states_chain".toList := by
      have := congrArg String.toList e
      simpa using this
    rw [e'] at happ
    have : "states_chain_".toList <+: k.toList := by
      refine List.IsPrefix.trans ?_ happ
      simp only [String.toList_append]
      exact ⟨name.toList, by simp⟩
    have : chainKey k = true := List.isPrefixOf_iff_prefix.mpr this
    rw [hk] at this
    exact Bool.false_ne_true this
  · cases hc : chainKey (String.ofList (beforeFirst ("_" ++ name).toList k.toList)) with
    | false => rfl
    | true =>
      exfalso
      have h1 : "states_chain_".toList <+: beforeFirst ("_" ++ name).toList k.toList := by
        have := List.isPrefixOf_iff_prefix.mp hc
        simpa using this
      have : chainKey k = true := List.isPrefixOf_iff_prefix.mpr (h1.trans hpre)
      rw [hk] at this
      exact Bool.false_ne_true this

/-- `object_params(name)` of a dictionary without `states_chain_…` keys: still none, same `states_chain` -/
theorem objectParams_stable (p : Params) (name : String) (h : NoSuffix p) :
    NoSuffix (p.objectParams name) ∧ (p.objectParams name).get? "states_chain" = p.get? "states_chain" := by
  unfold Params.objectParams
  -- invariant of the fold over any sub-list of `p`
  have key : ∀ (l : List (String × String)) (acc : Params), (∀ kv ∈ l, chainKey kv.1 = false) → NoSuffix acc →
      NoSuffix (l.foldl (fun acc kv =>
        if endsWith kv.1 ("_" ++ name) then acc.set (String.ofList (beforeFirst ("_" ++ name).toList kv.1.toList)) kv.2
        else acc) acc) ∧
      (l.foldl (fun acc kv =>
        if endsWith kv.1 ("_" ++ name) then acc.set (String.ofList (beforeFirst ("_" ++ name).toList kv.1.toList)) kv.2
        else acc) acc).get? "states_chain" = acc.get? "states_chain" := by
    intro l
    induction l with
    | nil => intro acc _ ha; exact ⟨ha, rfl⟩
    | cons kv rest ih =>
      intro acc hl ha
      simp only [List.foldl_cons]
      have hkv := hl kv List.mem_cons_self
      have hrest : ∀ x ∈ rest, chainKey x.1 = false := fun x hx => hl x (List.mem_cons_of_mem _ hx)
      split
      · rename_i he
        obtain ⟨hne, hck⟩ := written_key_ok kv.1 name hkv he
        obtain ⟨h1, h2⟩ := ih _ hrest (ha.set kv.2 hck)
        refine ⟨h1, ?_⟩
        rw [h2, Params.get?_set, if_neg hne]
      · exact ih acc hrest ha
  exact key p p h h

theorem objOf_stable (p : Params) (cs : List (String × String)) (t n : String) (h : NoSuffix p)
    (ht : okType t = true) :
    NoSuffix (objOf p cs t n) ∧ (objOf p cs t n).objects "states_chain" = p.objects "states_chain" := by
  obtain ⟨h1, h2⟩ := objectParams_stable p n h
  simp only [okType, Bool.and_eq_true, bne_iff_ne, ne_eq, Bool.not_eq_true'] at ht
  unfold objOf
  refine ⟨((h1.set n ht.2).set _ (by decide)).set _ (by decide), ?_⟩
  unfold Params.objects Params.getD
  have h3 : ¬ (t = "states_chain") := ht.1
  rw [Params.get?_set, Params.get?_set, Params.get?_set, h2, if_neg (by decide), if_neg (by decide), if_neg h3]

theorem chainStable_of_noSuffix (full : List String) (last : String) :
    ∀ (rest : List String) (cs : List (String × String)) (p : Params), NoSuffix p →
      p.objects "states_chain" = full → (∀ t ∈ rest, okType t = true) → chainStable full last rest cs p = true
  | [], _, _, _, _, _ => rfl
  | t :: rest, cs, p, h, hp, ht => by
    unfold chainStable
    rw [List.all_eq_true]
    intro n _
    obtain ⟨h1, h2⟩ := objOf_stable p cs t n h (ht t List.mem_cons_self)
    have ih := chainStable_of_noSuffix full last rest (cs ++ [(n, t)]) (objOf p cs t n) h1 (h2.trans hp)
      (fun x hx => ht x (List.mem_cons_of_mem _ hx))
    simp [h2, hp, ih]

/-- **what the callers provide is enough**: no key beginning with `states_chain_`, no type called `states_chain…` -/
theorem topStable_of_noSuffix (p : Params) (h : NoSuffix p) (ht : ∀ t ∈ p.objects "states_chain", okType t = true) :
    topStable p = true := by
  unfold topStable
  split
  · rfl
  · exact chainStable_of_noSuffix _ _ _ [] p h rfl ht

end I2N.PolicyGenIter
