import I2N.Lemmas.TunnelParts
/-! `_get_peer_variant` inversion, decomposition of a successful `VMTunnel.__init__`, the stems each part assigns,
and the projection lemma for `left_params` / `right_params`. -/
namespace I2N.Tunnel

theorem peerVariant_ok {ll lr lp rl rr rp : SDict} (h : peerVariant ll lr lp = .ok (rl, rr, rp)) :
    ∃ lt rt pt, ll.get? "type" = some lt ∧ lr.get? "type" = some rt ∧ lp.get? "type" = some pt ∧
      ((lt = "nic" ∧ ∃ nic, ll.get? "nic" = some nic ∧ rr = [("type", "custom"), ("nic", nic)]) ∨
       (lt = "internetip" ∧ rr = [("type", "externalip")]) ∨
       (lt ≠ "nic" ∧ lt ≠ "internetip" ∧ rr = [("type", "custom")])) ∧
      ((rt = "custom" ∧ lt = "custom" ∧ rl = [("type", "custom")]) ∨
       (rt = "custom" ∧ lt ≠ "custom" ∧ ∃ nic, lr.get? "nic" = some nic ∧ rl = [("type", "nic"), ("nic", nic)]) ∨
       (rt = "externalip" ∧ rl = [("type", "internetip")]) ∨
       (rt ≠ "custom" ∧ rt ≠ "externalip" ∧ rl = [("type", "nic")])) ∧
      (((pt = "dynip" ∨ pt = "ip") ∧ ∃ nic, lp.get? "nic" = some nic ∧ rp = [("type", "ip"), ("nic", nic)]) ∨
       (pt ≠ "dynip" ∧ pt ≠ "ip" ∧ rp = [("type", "ip")])) := by
  unfold peerVariant at h
  rw [bind_ok] at h
  obtain ⟨lt, hlt, h⟩ := h
  rw [bind_ok] at h
  obtain ⟨rr', hrr, h⟩ := h
  rw [bind_ok] at h
  obtain ⟨rt, hrt, h⟩ := h
  rw [bind_ok] at h
  obtain ⟨rl', hrl, h⟩ := h
  rw [bind_ok] at h
  obtain ⟨pt, hpt, h⟩ := h
  rw [bind_ok] at h
  obtain ⟨rp', hrp, h⟩ := h
  simp only [pure_ok, Prod.mk.injEq] at h
  obtain ⟨h1, h2, h3⟩ := h
  subst h1 h2 h3
  refine ⟨lt, rt, pt, (SDict.getItem_ok ..).1 hlt, (SDict.getItem_ok ..).1 hrt, (SDict.getItem_ok ..).1 hpt, ?_, ?_, ?_⟩
  · unfold variantRemote at hrr
    split at hrr
    · next hn =>
      simp only [bind_ok, pure_ok, SDict.getItem_ok] at hrr
      obtain ⟨nic, hnic, e⟩ := hrr
      exact Or.inl ⟨hn, nic, hnic, by rw [← e]; simp [SDict.set]⟩
    · split at hrr
      · next hn => simp only [pure_ok] at hrr; exact Or.inr (Or.inl ⟨hn, by rw [← hrr]; simp [SDict.set]⟩)
      · next h1 h2 => simp only [pure_ok] at hrr; exact Or.inr (Or.inr ⟨h1, h2, hrr.symm⟩)
  · unfold variantLocal at hrl
    split at hrl
    · next hn =>
      split at hrl
      · next hc => simp only [pure_ok] at hrl; exact Or.inl ⟨hn, hc, by rw [← hrl]; simp [SDict.set]⟩
      · next hc =>
        simp only [bind_ok, pure_ok, SDict.getItem_ok] at hrl
        obtain ⟨nic, hnic, e⟩ := hrl
        exact Or.inr (Or.inl ⟨hn, hc, nic, hnic, by rw [← e]; simp [SDict.set]⟩)
    · split at hrl
      · next hn => simp only [pure_ok] at hrl; exact Or.inr (Or.inr (Or.inl ⟨hn, by rw [← hrl]; simp [SDict.set]⟩))
      · next h1 h2 => simp only [pure_ok] at hrl; exact Or.inr (Or.inr (Or.inr ⟨h1, h2, hrl.symm⟩))
  · unfold variantPeer at hrp
    split at hrp
    · next hn =>
      simp only [bind_ok, pure_ok, SDict.getItem_ok] at hrp
      obtain ⟨nic, hnic, e⟩ := hrp
      exact Or.inl ⟨Or.inl hn, nic, hnic, by rw [← e]; simp [SDict.set]⟩
    · split at hrp
      · next hn =>
        simp only [bind_ok, pure_ok, SDict.getItem_ok] at hrp
        obtain ⟨nic, hnic, e⟩ := hrp
        exact Or.inl ⟨Or.inr hn, nic, hnic, by rw [← e]; simp [SDict.set]⟩
      · next h1 h2 => simp only [pure_ok] at hrp; exact Or.inr ⟨h1, h2, hrp.symm⟩

/-- what a successful constructor run consisted of -/
structure Built (name : String) (node1 node2 : Node) (local1 remote1 peer1 : SDict) (auth : Option SDict)
    (t : Tunnel) where
  local2 : SDict
  remote2 : SDict
  peer2 : SDict
  a0 : Assignments
  a1 : Assignments
  a2 : Assignments
  a3 : Assignments
  a4 : Assignments
  hv : peerVariant local1 remote1 peer1 = .ok (local2, remote2, peer2)
  h0 : mainPart name node1.name node2.name local1 remote1 local2 remote2 = .ok a0
  h1 : localPart name node1 node2 local1 = .ok (a1, t.leftNet)
  h2 : remotePart name node1 node2 local1 remote1 = .ok (a2, t.rightNet)
  h3 : peerPart name node1 node2 peer1 peer2 = .ok (a3, t.leftIface, t.rightIface)
  h4 : authPart name node1.name node2.name auth = .ok a4
  hname : t.name = name
  hparams : t.params = assign [] (a0 ++ a1 ++ a2 ++ a3 ++ a4)
  hleft : t.left = { node1 with params := (objectParams t.params node1.name).update node1.params }
  hright : t.right = { node2 with params := (objectParams t.params node2.name).update node2.params }

theorem tunnelParams_ok {name : String} {node1 node2 : Node} {local1 remote1 peer1 : SDict} {auth : Option SDict}
    {t : Tunnel} (h : tunnelParams name node1 node2 local1 remote1 peer1 auth = .ok t) :
    Nonempty (Built name node1 node2 local1 remote1 peer1 auth t) := by
  unfold tunnelParams at h
  rw [bind_ok] at h
  obtain ⟨⟨a, nc1, nc2, i1, i2⟩, ha, h⟩ := h
  simp only [pure_ok] at h
  unfold tunnelAssignments at ha
  rw [bind_ok] at ha
  obtain ⟨⟨l2, r2, p2⟩, hv, ha⟩ := ha
  rw [bind_ok] at ha
  obtain ⟨a0, h0, ha⟩ := ha
  rw [bind_ok] at ha
  obtain ⟨⟨a1, n1⟩, h1, ha⟩ := ha
  rw [bind_ok] at ha
  obtain ⟨⟨a2, n2⟩, h2, ha⟩ := ha
  rw [bind_ok] at ha
  obtain ⟨⟨a3, j1, j2⟩, h3, ha⟩ := ha
  rw [bind_ok] at ha
  obtain ⟨a4, h4, ha⟩ := ha
  simp only [pure_ok, Prod.mk.injEq] at ha
  obtain ⟨e1, e2, e3, e4, e5⟩ := ha
  subst e1 e2 e3 e4 e5 h
  exact ⟨{ local2 := l2, remote2 := r2, peer2 := p2, a0 := a0, a1 := a1, a2 := a2, a3 := a3, a4 := a4,
           hv := hv, h0 := h0, h1 := h1, h2 := h2, h3 := h3, h4 := h4, hname := rfl, hparams := rfl,
           hleft := rfl, hright := rfl }⟩

/-! ## stems and shapes of the assigned keys -/

def mainStems : List String := ["vpnconn", "vpn_side", "vpnconn_lan_type", "vpnconn_remote_type"]
def netStems : List String :=
  ["vpnconn_lan_net", "vpnconn_lan_netmask", "vpnconn_remote_net", "vpnconn_remote_netmask",
   "vpnconn_remote_modeconfig_ip"]
def peerStems : List String := ["vpnconn_peer_type", "vpnconn_peer_ip", "vpnconn_activation"]
def authStems : List String :=
  ["vpnconn_key_type", "vpnconn_psk", "vpnconn_psk_foreign_id", "vpnconn_psk_foreign_id_type",
   "vpnconn_psk_own_id", "vpnconn_psk_own_id_type"]
/-- all parameter names the constructor generates -/
def genStems : List String := mainStems ++ netStems ++ peerStems ++ authStems

/-- the node's own parameters do not overwrite any generated tunnel parameter -/
def Clean (n : Node) : Prop := ∀ p ∈ n.params, p.1.stem ∉ genStems

instance (n : Node) : Decidable (Clean n) := by unfold Clean; infer_instance

def Good (S : List String) (name n1 n2 : String) (a : Assignments) : Prop :=
  ∀ p ∈ a, p.1.stem ∈ S ∧ Shape name n1 n2 p.1

theorem good_nil (S : List String) (name n1 n2 : String) : Good S name n1 n2 [] := by
  intro p hp; cases hp

theorem mainPart_good {name n1 n2 : String} {l1 r1 l2 r2 : SDict} {a : Assignments}
    (h : mainPart name n1 n2 l1 r1 l2 r2 = .ok a) : Good mainStems name n1 n2 a := by
  obtain ⟨_, _, _, _, _, _, _, _, rfl⟩ := mainPart_ok h
  intro p hp
  simp only [List.mem_cons, List.not_mem_nil, or_false] at hp
  rcases hp with rfl | rfl | rfl | rfl | rfl | rfl | rfl | rfl <;> simp [k2, mainStems, Shape]

theorem localPart_good {name : String} {node1 node2 : Node} {local1 : SDict} {a : Assignments}
    {nc : Option Netconfig} (h : localPart name node1 node2 local1 = .ok (a, nc)) :
    Good netStems name node1.name node2.name a := by
  obtain ⟨t, _, h⟩ := localPart_ok h
  rcases h with ⟨_, i, _, _, rfl⟩ | ⟨_, rfl, _⟩ | ⟨_, lnet, lmask, _, _, _, rfl⟩
  · intro p hp
    simp only [List.mem_cons, List.not_mem_nil, or_false] at hp
    rcases hp with rfl | rfl | rfl | rfl <;> simp [k2, netStems, Shape]
  · exact good_nil _ _ _ _
  · intro p hp
    simp only [List.mem_cons, List.not_mem_nil, or_false] at hp
    rcases hp with rfl | rfl <;> simp [k2, netStems, Shape]

theorem remotePart_good {name : String} {node1 node2 : Node} {local1 remote1 : SDict} {a : Assignments}
    {nc : Option Netconfig} (h : remotePart name node1 node2 local1 remote1 = .ok (a, nc)) :
    Good netStems name node1.name node2.name a := by
  obtain ⟨t, _, h⟩ := remotePart_ok h
  rcases h with ⟨_, lt, _, h⟩ | ⟨_, rfl, _⟩ | ⟨_, ip, _, _, rfl⟩
  · rcases h with ⟨_, _, _, _, _, _, rfl⟩ | ⟨_, i, _, _, rfl⟩ <;>
    · intro p hp
      simp only [List.mem_cons, List.not_mem_nil, or_false] at hp
      rcases hp with rfl | rfl | rfl | rfl <;> simp [k2, netStems, Shape]
  · exact good_nil _ _ _ _
  · intro p hp
    simp only [List.mem_cons, List.not_mem_nil, or_false] at hp
    rcases hp with rfl <;> simp [k2, netStems, Shape]

theorem peerPart_good {name : String} {node1 node2 : Node} {peer1 peer2 : SDict} {a : Assignments}
    {i1 i2 : Iface} (h : peerPart name node1 node2 peer1 peer2 = .ok (a, i1, i2)) :
    Good peerStems name node1.name node2.name a := by
  obtain ⟨t, t2, _, _, _, _, h⟩ := peerPart_ok h
  rcases h with ⟨_, rfl⟩ | ⟨_, rfl⟩
  · intro p hp
    simp only [List.mem_cons, List.not_mem_nil, or_false] at hp
    rcases hp with rfl | rfl | rfl | rfl | rfl | rfl <;> simp [k2, peerStems, Shape]
  · intro p hp
    simp only [List.mem_cons, List.not_mem_nil, or_false] at hp
    rcases hp with rfl | rfl | rfl | rfl | rfl <;> simp [k2, peerStems, Shape]

theorem authPart_good {name n1 n2 : String} {auth : Option SDict} {a : Assignments}
    (h : authPart name n1 n2 auth = .ok a) : Good authStems name n1 n2 a := by
  rcases authPart_ok h with ⟨_, rfl⟩ | ⟨d, t, _, _, h⟩
  · intro p hp
    simp only [List.mem_cons, List.not_mem_nil, or_false] at hp
    rcases hp with rfl <;> simp [k1, authStems, Shape]
  · rcases h with ⟨_, rfl⟩ | ⟨_, psk, l, r, _, _, _, rfl⟩
    · intro p hp
      simp only [List.mem_cons, List.not_mem_nil, or_false] at hp
      rcases hp with rfl <;> simp [k1, authStems, Shape]
    · intro p hp
      simp only [List.mem_cons, List.not_mem_nil, or_false] at hp
      rcases hp with rfl | rfl | rfl | rfl | rfl | rfl | rfl | rfl | rfl | rfl <;>
        simp [k1, k2, authStems, Shape]

theorem lastVal_none_of_stem {S : List String} {name n1 n2 : String} {a : Assignments}
    (h : Good S name n1 n2 a) (s : String) (q : List String) (hs : s ∉ S) : lastVal a ⟨s, q⟩ = none := by
  rw [lastVal_eq_none]
  intro p hp he
  exact hs (by have := (h p hp).1; rw [he] at this; exact this)

theorem lastVal_none_of_shape {S : List String} {name n1 n2 : String} {a : Assignments}
    (h : Good S name n1 n2 a) (k : Key) (hk : ¬ Shape name n1 n2 k) : lastVal a k = none := by
  rw [lastVal_eq_none]
  intro p hp he
  exact hk (by have := (h p hp).2; rw [he] at this; exact this)

/-! ## the projection `node.params.object_params(tunnel name)` -/

/-- For a dictionary `P` that only has keys of the constructor's shapes, and node parameters `np` that do not
mention the stem `s`: the double projection (by node name `n`, then by tunnel name) reads the parameter
qualified by tunnel and node, else the one qualified by the tunnel only. -/
theorem proj_get? (P np : Dict) (name n1 n2 n s : String)
    (hP : ∀ k, ¬ Shape name n1 n2 k → P.get? k = none)
    (h1 : name ≠ n1) (h2 : name ≠ n2) (hn : name ≠ n)
    (hclean : ∀ p ∈ np, p.1.stem ≠ s) :
    (objectParams ((objectParams P n).update np) name).get? ⟨s, []⟩
      = (P.get? ⟨s, [name, n]⟩).or (P.get? ⟨s, [name]⟩) := by
  have hup : ∀ q, ((objectParams P n).update np).get? ⟨s, q⟩ = (objectParams P n).get? ⟨s, q⟩ := by
    intro q
    apply get?_update_of_not_mem
    intro p hp he
    exact hclean p hp (by rw [he])
  have hnone : ∀ q, ¬ Shape name n1 n2 ⟨s, q⟩ → P.get? ⟨s, q⟩ = none := fun q hq => hP _ hq
  have e1 : P.get? ⟨s, [name, name, n, n]⟩ = none := hnone _ (by simp [Shape])
  have e2 : P.get? ⟨s, [name, name, n]⟩ = none := hnone _ (by simp [Shape])
  have e3 : P.get? ⟨s, [name, name]⟩ = none := hnone _ (by simp [Shape, h1, h2])
  have e4 : P.get? ⟨s, [name, n, n]⟩ = none := hnone _ (by simp [Shape])
  have e5 : P.get? ⟨s, [n, n]⟩ = none := by
    apply hnone; simp only [Shape]; intro h
    rcases h with h | h | h <;> simp at h <;> exact hn h.1.symm
  have e6 : P.get? ⟨s, [n]⟩ = none := by
    apply hnone; simp only [Shape]; intro h
    rcases h with h | h | h <;> simp at h; exact hn h.symm
  have e7 : P.get? ⟨s, []⟩ = none := hnone _ (by simp [Shape])
  rw [objectParams_get?]
  · simp only [List.nil_append]
    rw [hup, hup, objectParams_get? P n ⟨s, [name]⟩ (by simpa using e4),
      objectParams_get? P n ⟨s, []⟩ (by simpa using e5)]
    simp [e6, e7]
  · simp only [List.nil_append]
    rw [hup, objectParams_get? P n ⟨s, [name, name]⟩ (by simpa using e1)]
    simp [e2, e3]

end I2N.Tunnel
