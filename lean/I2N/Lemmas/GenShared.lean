import I2N.Extracted.GenInvolved

/-! Closed form of the definition `harness/pygen_pxloc.py` generates from `TestNode.shared_results`
(`Extracted/GenInvolved.lean`).  The equality with the hand written model is in `Props/C05.lean`. -/
namespace I2N.GenShared
open I2N.Trav
open I2N.Extracted.GenInvolved

theorem foldl_append_flatMap {α β : Type} (l : List α) (f : α → List β) (init : List β) :
    l.foldl (fun acc x => acc ++ f x) init = init ++ l.flatMap f := by
  induction l generalizing init with
  | nil => simp
  | cons a l ih => rw [List.foldl_cons, ih, List.flatMap_cons, List.append_assoc]

/-- closed form of the generated `shared_results`: the own results, then those of the bridged copies in order -/
theorem genSharedResults_eq (own : List Result) (bridged : List Nat) (resultsOf : Nat → List Result) :
    genSharedResults own bridged resultsOf = own ++ bridged.flatMap resultsOf := by
  simp only [genSharedResults]
  exact foldl_append_flatMap bridged resultsOf own

/-- `[self] + self.bridged_nodes` starts with the node itself -/
theorem copies_cons (g : Graph) (n : Nat) : g.copies n = n :: (g.copies n).tail := by
  unfold Graph.copies
  cases (g.node n).flat <;> rfl

end I2N.GenShared
