/-! Helper for the translator tie of C17 (`I2N/Extracted/GenShow.lean`): two folds with pointwise equal step functions. -/
namespace I2N.Show

theorem foldl_congr_fun {α β : Type} {g1 g2 : β → α → β} (h : ∀ b a, g1 b a = g2 b a) (l : List α) (b : β) :
    l.foldl g1 b = l.foldl g2 b := by
  induction l generalizing b with
  | nil => rfl
  | cons a rest ih => simp only [List.foldl_cons, h, ih]

end I2N.Show
