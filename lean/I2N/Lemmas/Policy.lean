import I2N.Model.Policy
/-! Helper lemmas for engine E2 `policy`: dictionary algebra, store algebra, and how every function of the
model moves the store (`Same k` = object `k` keeps its content, `Eqv` = every object does). -/
namespace I2N.Policy
open I2N.Extracted.Policy

/-! ### parameters -/

theorem Params.get?_set (p : Params) (k v k' : String) :
    (p.set k v).get? k' = if k = k' then some v else p.get? k' := by
  induction p with
  | nil => simp [Params.set, Params.get?]
  | cons kv rest ih =>
    obtain ⟨a, b⟩ := kv
    simp only [Params.set, Params.get?, beq_iff_eq]
    grind [Params.get?]

theorem Params.getD_set (p : Params) (k v k' d : String) :
    (p.set k v).getD k' d = if k = k' then v else p.getD k' d := by
  simp only [Params.getD, Params.get?_set]; split <;> rfl

theorem Params.getD_set_ne (p : Params) {k k' : String} (v d : String) (h : k ≠ k') :
    (p.set k v).getD k' d = p.getD k' d := by
  rw [Params.getD_set]; simp [h]

theorem Params.getD_set_self (p : Params) (k v d : String) : (p.set k v).getD k d = v := by
  rw [Params.getD_set]; simp

/-- the keys the in-memory backend identifies an object by -/
def keyKeys : List String := ["object_type", "nets", "vms", "images"]

theorem keyOf_set (sp : Params) (k v : String) (h : k ∉ keyKeys) : keyOf (sp.set k v) = keyOf sp := by
  simp only [keyKeys, List.mem_cons, List.not_mem_nil, or_false, not_or] at h
  obtain ⟨h1, h2, h3, h4⟩ := h
  unfold keyOf lastType typeOf
  rw [Params.getD_set_ne _ _ _ h1, Params.getD_set_ne _ _ _ h2, Params.getD_set_ne _ _ _ h3,
    Params.getD_set_ne _ _ _ h4]

theorem typeOf_set (sp : Params) (k v : String) (h : k ≠ "object_type") : typeOf (sp.set k v) = typeOf sp := by
  simp only [typeOf, Params.getD_set_ne _ _ _ h]

theorem keyOf_checkDefaults (sp : Params) : keyOf (checkDefaults sp) = keyOf sp := by
  unfold checkDefaults
  rw [keyOf_set _ _ _ (by decide), keyOf_set _ _ _ (by decide)]

theorem checkMode_checkDefaults (sp : Params) (d : String) :
    (checkDefaults sp).getD "check_mode" d = sp.getD "check_mode" dCheckMode := by
  unfold checkDefaults
  rw [Params.getD_set_self]

/-! ### store -/

@[simp] theorem Store.obj_put (s : Store) (k : Key) (o : Obj) (k' : Key) :
    (s.put k o).obj k' = if k = k' then o else s.obj k' := by
  simp [Store.put, Store.obj]

@[simp] theorem St.log_store (st : St) (kind : CallKind) (b : String) (sp : Params) (arg : String) :
    (st.log kind b sp arg).store = st.store := rfl

theorem St.modify_obj (st : St) (k : Key) (f : Obj → Obj) (k' : Key) :
    (st.modify k f).store.obj k' = if k = k' then f (st.store.obj k) else st.store.obj k' := by
  simp [St.modify]

/-- object `k` has the same content in both states -/
def Same (k : Key) (a b : St) : Prop := b.store.obj k = a.store.obj k

/-- every object has the same content in both states (the lists may differ: shadowed entries) -/
def Eqv (a b : St) : Prop := ∀ k, Same k a b

theorem Same.refl (k : Key) (a : St) : Same k a a := rfl
theorem Same.trans {k : Key} {a b c : St} (h1 : Same k a b) (h2 : Same k b c) : Same k a c := by
  unfold Same at *; rw [h2, h1]
theorem Eqv.refl (a : St) : Eqv a a := fun _ => rfl
theorem Eqv.trans {a b c : St} (h1 : Eqv a b) (h2 : Eqv b c) : Eqv a c := fun k => (h1 k).trans (h2 k)

/-! ### backend primitives -/

@[simp] theorem bShow_store (b sp st) : (bShow b sp st).2.store = st.store := rfl
@[simp] theorem bShow_names (b sp st) : (bShow b sp st).1 = (st.store.obj (keyOf sp)).names := rfl
@[simp] theorem bCheckRoot_store (b sp st) : (bCheckRoot b sp st).2.store = st.store := rfl
@[simp] theorem bCheckRoot_val (b sp st) : (bCheckRoot b sp st).1 = (st.store.obj (keyOf sp)).root := rfl
@[simp] theorem bGet_store (b sp st) : (bGet b sp st).store = st.store := rfl
@[simp] theorem bGetRoot_store (b sp st) : (bGetRoot b sp st).store = st.store := rfl
@[simp] theorem bDestroy_store (sp g st) : (bDestroy sp g st).store = st.store := rfl

theorem bSet_obj (b sp st k) : (bSet b sp st).store.obj k =
    if keyOf sp = k then { st.store.obj (keyOf sp) with
      names := sp.getD "set_state" "" :: (st.store.obj (keyOf sp)).names } else st.store.obj k := by
  simp [bSet, St.modify_obj]
theorem bUnset_obj (b sp st k) : (bUnset b sp st).store.obj k =
    if keyOf sp = k then { st.store.obj (keyOf sp) with
      names := (st.store.obj (keyOf sp)).names.filter (· != sp.getD "unset_state" "") }
    else st.store.obj k := by
  simp [bUnset, St.modify_obj]
theorem bSetRoot_obj (b sp st k) : (bSetRoot b sp st).store.obj k =
    if keyOf sp = k then { st.store.obj (keyOf sp) with root := true } else st.store.obj k := by
  simp [bSetRoot, St.modify_obj]
theorem bUnsetRoot_obj (b sp st k) : (bUnsetRoot b sp st).store.obj k =
    if keyOf sp = k then { st.store.obj (keyOf sp) with root := false } else st.store.obj k := by
  simp [bUnsetRoot, St.modify_obj]

theorem bSet_same (b sp st k) (h : keyOf sp ≠ k) : Same k st (bSet b sp st) := by
  simp [Same, bSet_obj, h]
theorem bUnset_same (b sp st k) (h : keyOf sp ≠ k) : Same k st (bUnset b sp st) := by
  simp [Same, bUnset_obj, h]
theorem bSetRoot_same (b sp st k) (h : keyOf sp ≠ k) : Same k st (bSetRoot b sp st) := by
  simp [Same, bSetRoot_obj, h]
theorem bUnsetRoot_same (b sp st k) (h : keyOf sp ≠ k) : Same k st (bUnsetRoot b sp st) := by
  simp [Same, bUnsetRoot_obj, h]

end I2N.Policy
