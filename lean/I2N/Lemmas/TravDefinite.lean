import I2N.Lemmas.TravFair
/-!
C02, the "definite result" half: what holds at the END of a run.

(a) `Owner`/`Abandoned`: an in-flight UNKNOWN placeholder (status `UNKNOWN`, tag `≥ 1`) on a copy that is not an
object root exists only while the worker that started the execution is suspended inside it — or for ever, if the
report of that execution never arrived (the eleventh resumption of the result wait finds nothing: the runner's default
ERROR, `resume_abandon`).  One case analysis over `resume_eff` (`step_orphan`), lifted to runs (`run_orphan`).

(b) `DInv`: a worker is registered as having dropped a child class only after a copy of that class it cares for was
cleanup-ready for it and — if the copy is a stateless test that is selected for running — the class had a result.
Frame relation `DUpd`, one walk through `afterTraverse`, `traverseNode`, `iter`, `iterL`, `runLoop`,
`resumeTest.continueAfter`, `resumeTest`, `resume`.
-/
namespace I2N.Trav.Definite
open I2N.Trav I2N.Trav.GlobalN

/-! ## (a) placeholders -/

/-- some worker is suspended inside the execution `t` of the test proper of copy `m` -/
def Owner (s : State) (m t : Nat) : Prop := ∃ v dir uid wait, (s.wd v).pc = .test m .plain dir uid t wait

/-- the step `x` taken in state `s` gives up the execution `t` of copy `m`: the stepping worker is inside it, has
slept ten times waiting for the report, and the report is still not among the job results -/
def AbandonStep (g : Graph) (s : State) (x : StepN) (m t : Nat) : Prop :=
  ∃ dir uid wait, (s.wd x.1).pc = .test m .plain dir uid t wait ∧ 10 ≤ wait ∧
    s.jobResults.find? (fun r => r.1 == (g.node m).name && r.2.1 == uid) = none

/-- some step of the run from `s` gives up the execution `t` of copy `m` -/
def Abandoned (g : Graph) : State → List StepN → Nat → Nat → Prop
  | _, [], _, _ => False
  | s, x :: r, m, t => AbandonStep g s x m t ∨ Abandoned g (stepN g s x) r m t

theorem startFrom_results {g : Graph} {w : Nat} {s1 s' : State} (h : StartFrom g w s1 s') (hw : w < s1.workers.length)
    (m : Nat) (r : Result) (hr : r ∈ (s'.nd m).results) :
    r ∈ (s1.nd m).results ∨
      (r = phOf (g.node m).name s1.nextTag ∧ ∃ dir uid, (s'.wd w).pc = .test m .plain dir uid s1.nextTag 0) := by
  cases h with
  | plain n dir s0 evs gv hgv hn hroot hdec h =>
    subst h
    rcases startTest_results g s1 n w .plain dir m with e | ⟨_, hmn, _, e⟩
    · left; rw [e] at hr; exact hr
    · rw [e] at hr
      rcases List.mem_append.mp hr with hr | hr
      · exact Or.inl hr
      · right
        subst hmn
        exact ⟨List.mem_singleton.mp hr, dir, _, startTest_pc g s1 m w .plain dir hw⟩
  | pre n dir hn hroot h =>
    subst h
    left
    rcases startTest_results g (s1.setWd w (fun d => { d with preResults := (s1.nd n).results, preName := preNameOf g n w }))
      n w .pre dir m with e | ⟨hne, _⟩
    · rw [e] at hr; exact hr
    · exact absurd rfl hne

theorem startFrom_others {g : Graph} {w : Nat} {s1 s' : State} (h : StartFrom g w s1 s') (v : Nat) (hv : v ≠ w) :
    s'.wd v = s1.wd v := by
  cases h with
  | plain n dir s0 evs gv hgv hn hroot hdec h => subst h; exact startTest_wd_ne g s1 n w .plain dir v hv
  | pre n dir hn hroot h =>
    subst h
    rw [startTest_wd_ne g _ n w .pre dir v hv]
    exact wd_setWd_ne s1 w v _ hv

theorem startFrom_tag {g : Graph} {w : Nat} {s1 s' : State} (h : StartFrom g w s1 s') : s'.nextTag = s1.nextTag + 1 := by
  cases h with
  | plain n dir s0 evs gv hgv hn hroot hdec h => subst h; rfl
  | pre n dir hn hroot h => subst h; rfl

/-- the state the continuation after a test works on -/
theorem contBase_nd {sc : State} {n w : Nat} {ph : Phase} (m : Nat) (hmn : ph = .pre → m ≠ n) :
    ((if ph = .pre then appendPre sc n w else sc).nd m).results = (sc.nd m).results := by
  split
  · rename_i hp
    unfold appendPre
    rw [nd_setNd_ne sc n m _ (hmn hp)]
  · rfl

theorem contEff_results {g : Graph} {w n : Nat} {ph : Phase} {dir : Dir} {sc : State} {ok : Bool} {s' : State}
    (h : ContEff g w n ph dir sc ok s') (hw : w < sc.workers.length) (m : Nat) (hmn : ph = .pre → m ≠ n)
    (r : Result) (hr : r ∈ (s'.nd m).results) :
    r ∈ (sc.nd m).results ∨
      (r = phOf (g.node m).name sc.nextTag ∧ ∃ dir uid, (s'.wd w).pc = .test m .plain dir uid sc.nextTag 0) := by
  rcases h with ⟨hp, _, h⟩ | ⟨_, h⟩
  · left
    subst h
    rcases startTest_results g sc n w .main dir m with e | ⟨_, hmn', _, _⟩
    · rw [e] at hr; exact hr
    · exact absurd hmn' (hmn hp)
  · have hnd := contBase_nd (sc := sc) (n := n) (w := w) (ph := ph) m hmn
    have htag : (if ph = .pre then appendPre sc n w else sc).nextTag = sc.nextTag := by split <;> rfl
    have hlen : (if ph = .pre then appendPre sc n w else sc).workers.length = sc.workers.length := by split <;> rfl
    generalize (if ph = .pre then appendPre sc n w else sc) = sd at h hnd htag hlen
    rcases h with ⟨a, _⟩ | ⟨s1, a, hs⟩
    · left; rw [a.results, hnd] at hr; exact hr
    · rcases startFrom_results hs (by rw [a.workersLen, hlen]; exact hw) m r hr with h1 | h1
      · left; rw [a.results, hnd] at h1; exact h1
      · right; rw [a.tag, htag] at h1; exact h1

theorem contEff_others {g : Graph} {w n : Nat} {ph : Phase} {dir : Dir} {sc : State} {ok : Bool} {s' : State}
    (h : ContEff g w n ph dir sc ok s') (v : Nat) (hv : v ≠ w) : s'.wd v = sc.wd v := by
  rcases h with ⟨_, _, h⟩ | ⟨_, h⟩
  · subst h; exact startTest_wd_ne g sc n w .main dir v hv
  · have hwd : (if ph = .pre then appendPre sc n w else sc).wd v = sc.wd v := by split <;> rfl
    generalize (if ph = .pre then appendPre sc n w else sc) = sd at h hwd
    rcases h with ⟨a, _⟩ | ⟨s1, a, hs⟩
    · rw [a.others v hv, hwd]
    · rw [startFrom_others hs v hv, a.others v hv, hwd]

/-- a step of `w` leaves the records of the other workers alone -/
theorem resume_others' (g : Graph) (hwf : GraphWF g) (s : State) (w : Nat) (out : Outcome) (fuel : Nat) (hf : 0 < fuel)
    (hw : w < s.workers.length) (hpath : ∀ x ∈ (s.wd w).path, x < g.nodes.length) (v : Nat) (hv : v ≠ w) :
    (resume g s w out fuel).1.wd v = s.wd v := by
  rcases resume_eff g hwf s w out fuel hf hw hpath with ⟨_, h⟩ | ⟨n, ph, dir, uid, tag, wait, hpc, sa, hrep, h⟩
  · rcases h with ⟨a, _⟩ | ⟨s1, a, hs⟩
    · exact a.others v hv
    · rw [startFrom_others hs v hv, a.others v hv]
  · have hsb : SameBook s sa := by
      rcases hrep with ⟨h, _⟩ | ⟨_, _, _, h, _⟩
      · rw [h]; exact ⟨rfl, rfl, rfl⟩
      · exact h
    rcases h with ⟨e, _, sb, res, ok, hsab, _, _, hc⟩ | ⟨_, h | hc⟩
    · rw [contEff_others hc v hv]
      have : (if ph = .pre then settlePre sb w res tag else settleNd sb n res tag).wd v = sb.wd v := by
        split
        · exact wd_setWd_ne sb w v _ hv
        · rfl
      rw [this, hsab.wd, hsb.wd]
    · rw [h, wd_setWd_ne sa w v _ hv, hsb.wd]
    · rw [contEff_others hc v hv, hsb.wd]

/-! ### the result wait: tick, or the default after the tenth sleep -/

theorem name_eq (g : Graph) (s : State) (w n : Nat) (ph : Phase) :
    (if (ph == Phase.pre) = true then (s.wd w).preName else (g.node n).name) =
      (if ph = .pre then (s.wd w).preName else (g.node n).name) := by
  cases ph <;> rfl

theorem repEff_jobs {g : Graph} {s sa : State} {w n : Nat} {ph : Phase} {uid : String} {wait : Nat} {out : Outcome}
    (h : RepEff s (if ph = .pre then (s.wd w).preName else (g.node n).name) uid wait out sa) :
    sa.jobResults = (reportOutcome g s w n ph uid wait out).1.jobResults := by
  unfold reportOutcome
  dsimp only
  rw [name_eq]
  rcases h with ⟨h, h' | h'⟩ | ⟨h0, st, hst, _, hj⟩
  · have : ¬ (wait == 0) = true := by simpa using h'
    simp only [this, Bool.false_eq_true, if_false, h]
  · rw [h, h']
    split <;> rfl
  · subst h0
    rw [hst, hj]
    simp only [BEq.rfl, if_true]
    have hp : ∀ (c : Bool) (x : State), (if c = true then produce g x n w else x).jobResults = x.jobResults := by
      intro c x; cases c <;> rfl
    rw [hp]

theorem resume_test_eq (g : Graph) (s : State) (w : Nat) (out : Outcome) (fuel : Nat) {n : Nat} {ph : Phase} {dir : Dir}
    {uid : String} {tag wait : Nat} (hpc : (s.wd w).pc = .test n ph dir uid tag wait) :
    resume g s w out fuel = resumeTest g s w n ph dir uid tag wait out fuel := by
  unfold resume; rw [hpc]

/-- the report is not there and fewer than ten sleeps have been taken: one more sleep -/
theorem resumeTest_tick (g : Graph) (s : State) (w n : Nat) (ph : Phase) (dir : Dir) (uid : String) (tag wait : Nat)
    (out : Outcome) (fuel : Nat) (hw : w < s.workers.length) (hlt : wait < 10)
    (hnone : (reportOutcome g s w n ph uid wait out).1.jobResults.find?
      (fun r => r.1 == (if ph == .pre then (s.wd w).preName else (g.node n).name) && r.2.1 == uid) = none) :
    ((resumeTest g s w n ph dir uid tag wait out fuel).1.wd w).pc = .test n ph dir uid tag (wait + 1) := by
  rw [resumeTest_eq, hnone]
  dsimp only
  have hwA : w < (reportOutcome g s w n ph uid wait out).1.workers.length := by
    rw [(reportOutcome_frame g s w n ph uid wait out).2.1]; exact hw
  split
  · rw [wd_setWd_eq _ w _ hwA]
  · split
    · rw [wd_setWd_eq _ w _ hwA]
    · next h1 h2 => simp at h2; omega

/-- **what the model does when the report never arrives**: at the eleventh resumption of the result wait (`wait = 10`;
the task ended at `wait = 0`, ten sleeps of 30 s followed) with the report still missing, the step is the continuation
after a test that counts as FAILED (`ok = false`: the runner's default `error`), on the unchanged state: nothing is
filed, the placeholder is not removed. -/
theorem resume_abandon (g : Graph) (s : State) (w : Nat) (out : Outcome) (fuel : Nat) {n : Nat} {ph : Phase} {dir : Dir}
    {uid : String} {tag wait : Nat} (hpc : (s.wd w).pc = .test n ph dir uid tag wait) (hge : 10 ≤ wait)
    (hnone : s.jobResults.find?
      (fun r => r.1 == (if ph == .pre then (s.wd w).preName else (g.node n).name) && r.2.1 == uid) = none) :
    resume g s w out fuel = resumeTest.continueAfter g w n ph dir fuel s false [] := by
  have hrep : reportOutcome g s w n ph uid wait out = (s, []) := by
    unfold reportOutcome
    have : (wait == 0) = false := by simp; omega
    simp only [this, Bool.false_eq_true, if_false]
  rw [resume_test_eq g s w out fuel hpc, resumeTest_eq, hrep]
  dsimp only
  rw [hnone]
  dsimp only
  have h1 : ¬ wait + 1 < 10 := by omega
  have h2 : (wait + 1 == 10) = false := by simp; omega
  simp only [h1, h2, if_false, Bool.false_eq_true]

/-! ### one step -/

theorem owner_real {g : Graph} {s : State} (b : Basic g s All) {m t : Nat} (h : Owner s m t) :
    ∃ v, v < g.workers.length ∧ ∃ dir uid wait, (s.wd v).pc = .test m .plain dir uid t wait := by
  obtain ⟨v, dir, uid, wait, hv⟩ := h
  exact ⟨v, by rw [← b.workersLen]; exact lt_of_isTest s v (by rw [hv]; rfl), dir, uid, wait, hv⟩

theorem tag_phOf (nm : String) (t : Nat) : (phOf nm t).tag = t := rfl

/-- A placeholder that has no owner after a step of `w` was there before the step, and either had no owner before, or
the step gave its execution up. -/
theorem step_orphan {g : Graph} (hwf : GraphWF g) {s : State} (b : Basic g s All) (w : Nat) (out : Outcome) (fuel : Nat)
    (hw : w < g.workers.length) (hf : 0 < fuel) (m : Nat) (hm : (g.node m).objectRoot = false) (r : Result)
    (hr : r ∈ ((resume g s w out fuel).1.nd m).results) (hu : r.status = "UNKNOWN") (ht : 1 ≤ r.tag)
    (hno : ¬ Owner (resume g s w out fuel).1 m r.tag) :
    r ∈ (s.nd m).results ∧ (¬ Owner s m r.tag ∨ AbandonStep g s (w, out, fuel) m r.tag) := by
  have hws : w < s.workers.length := by rw [b.workersLen]; exact hw
  have hoth := resume_others' g hwf s w out fuel hf hws (b.paths w)
  -- an owner other than `w` is still an owner afterwards
  have hother : ∀ v dir uid wait, v ≠ w → (s.wd v).pc = .test m .plain dir uid r.tag wait → False := by
    intro v dir uid wait hv hp
    exact hno ⟨v, dir, uid, wait, by rw [hoth v hv]; exact hp⟩
  have hfresh : ∀ T, (r = phOf (g.node m).name T ∧ ∃ dir uid, ((resume g s w out fuel).1.wd w).pc = .test m .plain dir uid T 0) →
      False := by
    rintro T ⟨e, dir, uid, hp⟩
    exact hno ⟨w, dir, uid, 0, by rw [e, tag_phOf]; exact hp⟩
  rcases resume_eff g hwf s w out fuel hf hws (b.paths w) with ⟨hnt, h⟩ | ⟨n, ph, dir, uid, tag, wait, hpc, sa, hrep, h⟩
  · have hold : r ∈ (s.nd m).results := by
      rcases h with ⟨a, _⟩ | ⟨s1, a, hs⟩
      · rw [a.results] at hr; exact hr
      · rcases startFrom_results hs (by rw [a.workersLen]; exact hws) m r hr with h1 | h1
        · rw [a.results] at h1; exact h1
        · rw [a.tag] at h1; exact (hfresh _ h1).elim
    refine ⟨hold, Or.inl ?_⟩
    rintro ⟨v, dir, uid, wait, hp⟩
    by_cases hv : v = w
    · subst hv; rw [hp] at hnt; simp [Pc.isTest] at hnt
    · exact hother v dir uid wait hv hp
  · have hsb : SameBook s sa := by
      rcases hrep with ⟨h, _⟩ | ⟨_, _, _, h, _⟩
      · rw [h]; exact ⟨rfl, rfl, rfl⟩
      · exact h
    have hok := b.pcOK w n ph dir uid tag wait trivial hpc
    have hmn : ph = .pre → m ≠ n := by
      intro hp hmn
      subst hmn
      have := hok.2.2.2.1.mp hm
      rw [hp] at this; cases this
    -- an owner in `s` is `w` itself, with `n = m`, `ph = plain`, `tag = r.tag`
    have hown : Owner s m r.tag → n = m ∧ ph = .plain ∧ tag = r.tag := by
      rintro ⟨v, dir', uid', wait', hp⟩
      by_cases hv : v = w
      · subst hv
        rw [hpc] at hp
        simp only [Pc.test.injEq] at hp
        exact ⟨hp.1, hp.2.1, hp.2.2.2.2.1⟩
      · exact (hother v dir' uid' wait' hv hp).elim
    rcases h with ⟨e, _, sb, res, ok, hsab, _, ⟨hres, _⟩, hc⟩ | ⟨hnone, h | hc⟩
    · -- the report was found: the placeholder of `tag` is gone
      have hlen : (if ph = .pre then settlePre sb w res tag else settleNd sb n res tag).workers.length = s.workers.length := by
        split
        · unfold settlePre; rw [workers_length_setWd, hsab.2.1, hsb.2.1]
        · show sb.workers.length = _; rw [hsab.2.1, hsb.2.1]
      have htag : (if ph = .pre then settlePre sb w res tag else settleNd sb n res tag).nextTag = s.nextTag := by
        split
        · show sb.nextTag = _; rw [hsab.2.2, hsb.2.2]
        · show sb.nextTag = _; rw [hsab.2.2, hsb.2.2]
      rcases contEff_results hc (by rw [hlen]; exact hws) m hmn r hr with h1 | h1
      · have hnd : sb.nd m = s.nd m := by rw [hsab.nd, hsb.nd]
        by_cases hp : ph = .pre
        · simp only [hp, if_true] at h1
          have h1' : r ∈ (sb.nd m).results := h1
          rw [hnd] at h1'
          refine ⟨h1', Or.inl fun ho => ?_⟩
          have := (hown ho).2.1
          rw [hp] at this; cases this
        · simp only [hp, if_false] at h1
          by_cases hmn' : m = n
          · subst hmn'
            unfold settleNd at h1
            rw [nd_setNd_eq sb m _ (by rw [hsab.1, hsb.1, b.nodesLen]; exact hok.1)] at h1
            have h2 := List.mem_filter.mp h1
            rcases List.mem_append.mp h2.1 with h3 | h3
            · rw [hnd] at h3
              refine ⟨h3, Or.inl fun ho => ?_⟩
              have htg := (hown ho).2.2
              have h4 := h2.2
              rw [hu, htg] at h4
              simp at h4
            · rw [List.mem_singleton.mp h3, hres] at ht; omega
          · unfold settleNd at h1
            rw [nd_setNd_ne sb n m _ hmn', hnd] at h1
            exact ⟨h1, Or.inl fun ho => hmn' (hown ho).1.symm⟩
      · rw [htag] at h1; exact (hfresh _ h1).elim
    · -- one more sleep
      have hold : r ∈ (s.nd m).results := by
        rw [h] at hr
        have : r ∈ (sa.nd m).results := hr
        rw [hsb.nd] at this; exact this
      refine ⟨hold, Or.inl fun ho => ?_⟩
      obtain ⟨e1, e2, e3⟩ := hown ho
      subst e1 e2
      apply hno
      rw [← e3]
      refine ⟨w, dir, uid, wait + 1, ?_⟩
      rw [h, wd_setWd_eq sa w _ (by rw [hsb.2.1]; exact hws)]
    · -- the default
      have hold : r ∈ (s.nd m).results := by
        rcases contEff_results hc (by rw [hsb.2.1]; exact hws) m hmn r hr with h1 | h1
        · rw [hsb.nd] at h1; exact h1
        · rw [hsb.2.2] at h1; exact (hfresh _ h1).elim
      refine ⟨hold, ?_⟩
      by_cases ho : Owner s m r.tag
      · right
        obtain ⟨e1, e2, e3⟩ := hown ho
        subst e1 e2
        rw [← e3]
        simp only [reduceCtorEq, if_false] at hrep hnone
        by_cases hlt : wait < 10
        · exfalso
          apply hno
          rw [← e3]
          refine ⟨w, dir, uid, wait + 1, ?_⟩
          rw [resume_test_eq g s w out fuel hpc]
          refine resumeTest_tick g s w n .plain dir uid tag wait out fuel hws hlt ?_
          rw [← repEff_jobs (g := g) (w := w) (n := n) (ph := .plain) (by simpa using hrep)]
          exact hnone
        · have hsa : sa = s := by
            rcases hrep with ⟨h, _⟩ | ⟨h0, _⟩
            · exact h
            · omega
          rw [hsa] at hnone
          exact ⟨dir, uid, wait, hpc, by omega, hnone⟩
      · exact Or.inl ho

/-! ### runs -/

theorem init_results (g : Graph) (ncls : Nat) (store : List (String × List (String × String))) (hidden : List Nat) (m : Nat) :
    ((initState g ncls store hidden).nd m).results = [] := by
  unfold initState State.nd
  simp only [List.getD_eq_getElem?_getD, List.getElem?_map]
  cases g.nodes[m]? <;> rfl

theorem basic_run {g : Graph} (hwf : GraphWF g) (steps : List StepN) : ∀ s, Basic g s All →
    (∀ x ∈ steps, x.1 < g.workers.length) → (∀ x ∈ steps, 0 < x.2.2) → Basic g (runStepsN g s steps) All := by
  induction steps with
  | nil => intro s b _ _; exact b
  | cons x rest ih =>
    intro s b hreal hfuel
    rw [runStepsN_cons]
    exact ih _ (b.step hwf x.1 x.2.1 x.2.2 (hreal x (List.mem_cons_self ..)) (hfuel x (List.mem_cons_self ..)))
      (fun y hy => hreal y (List.mem_cons_of_mem _ hy)) (fun y hy => hfuel y (List.mem_cons_of_mem _ hy))

/-- along a run from any state with the bookkeeping invariant: a placeholder at the end has an owner, or was given
up on the way, or was an orphan at the beginning already -/
theorem run_orphan {g : Graph} (hwf : GraphWF g) (steps : List StepN) : ∀ s, Basic g s All →
    (∀ x ∈ steps, x.1 < g.workers.length) → (∀ x ∈ steps, 0 < x.2.2) →
    ∀ m, (g.node m).objectRoot = false → ∀ r ∈ ((runStepsN g s steps).nd m).results, r.status = "UNKNOWN" → 1 ≤ r.tag →
      Owner (runStepsN g s steps) m r.tag ∨ Abandoned g s steps m r.tag ∨ (r ∈ (s.nd m).results ∧ ¬ Owner s m r.tag) := by
  induction steps with
  | nil =>
    intro s _ _ _ m _ r hr _ _
    by_cases ho : Owner s m r.tag
    · exact Or.inl ho
    · exact Or.inr (Or.inr ⟨hr, ho⟩)
  | cons x rest ih =>
    intro s b hreal hfuel m hm r hr hu ht
    rw [runStepsN_cons] at hr ⊢
    have hx := hreal x (List.mem_cons_self ..)
    have hfx := hfuel x (List.mem_cons_self ..)
    have b1 : Basic g (stepN g s x) All := b.step hwf x.1 x.2.1 x.2.2 hx hfx
    rcases ih _ b1 (fun y hy => hreal y (List.mem_cons_of_mem _ hy)) (fun y hy => hfuel y (List.mem_cons_of_mem _ hy))
      m hm r hr hu ht with h | h | ⟨h1, h2⟩
    · exact Or.inl h
    · exact Or.inr (Or.inl (Or.inr h))
    · obtain ⟨h3, h4⟩ := step_orphan hwf b x.1 x.2.1 x.2.2 hx hfx m hm r h1 hu ht h2
      rcases h4 with h4 | h4
      · exact Or.inr (Or.inr ⟨h3, h4⟩)
      · exact Or.inr (Or.inl (Or.inl h4))

/-- from the initial state (any set of hidden nodes) -/
theorem run_placeholder {g : Graph} (hwf : GraphWF g) (ncls : Nat) (store : List (String × List (String × String)))
    (hidden : List Nat) (steps : List StepN) (hreal : ∀ x ∈ steps, x.1 < g.workers.length) (hfuel : ∀ x ∈ steps, 0 < x.2.2)
    (m : Nat) (hm : (g.node m).objectRoot = false) (r : Result)
    (hr : r ∈ ((runStepsN g (initState g ncls store hidden) steps).nd m).results) (hu : r.status = "UNKNOWN") (ht : 1 ≤ r.tag) :
    Owner (runStepsN g (initState g ncls store hidden) steps) m r.tag ∨
      Abandoned g (initState g ncls store hidden) steps m r.tag := by
  rcases run_orphan hwf steps _ (Basic.init g hwf ncls store hidden) hreal hfuel m hm r hr hu ht with h | h | ⟨h, _⟩
  · exact Or.inl h
  · exact Or.inr h
  · rw [init_results] at h; cases h

/-! ### when every task reports, nothing is ever given up -/

/-- nobody has slept waiting for a report -/
def W0 (s : State) : Prop := ∀ v n ph dir uid tag wait, (s.wd v).pc = .test n ph dir uid tag wait → wait = 0

theorem resume_w0 (g : Graph) (hwf : GraphWF g) (s : State) (w : Nat) (out : Outcome) (fuel : Nat) (hf : 0 < fuel)
    (hw : w < s.workers.length) (hpath : ∀ x ∈ (s.wd w).path, x < g.nodes.length) (hout : out.status ≠ none)
    (h0 : W0 s) : W0 (resume g s w out fuel).1 := by
  intro v n ph dir uid tag wait hp
  by_cases hv : v = w
  · subst hv
    rcases resume_eff g hwf s v out fuel hf hw hpath with ⟨_, h⟩ | ⟨n0, ph0, dir0, uid0, tag0, wait0, hpc, sa, hrep, h⟩
    · rcases h with ⟨_, hpcf⟩ | ⟨s1, a, hs⟩
      · rw [hp] at hpcf; simp [Pc.isTest] at hpcf
      · obtain ⟨_, _, _, _, _, e⟩ := Global.startFrom_pc hs (by rw [a.workersLen]; exact hw)
        rw [e] at hp; cases hp; rfl
    · have hw0 := h0 v _ _ _ _ _ _ hpc
      subst hw0
      rcases hrep with ⟨_, h' | h'⟩ | ⟨_, st, hst, hsb, hj⟩
      · exact absurd rfl h'
      · exact absurd h' hout
      · have hfind : sa.jobResults.find?
            (fun r => r.1 == (if ph0 = .pre then (s.wd v).preName else (g.node n0).name) && r.2.1 == uid0) ≠ none := by
          rw [hj]; exact find?_append_singleton_ne_none _ _ _ (by simp)
        rcases h with ⟨e, _, sb, res, ok, hsab, _, _, hc⟩ | ⟨hnone, _⟩
        · have hlen : v < (if ph0 = .pre then settlePre sb v res tag0 else settleNd sb n0 res tag0).workers.length := by
            split
            · unfold settlePre; rw [workers_length_setWd, hsab.2.1, hsb.2.1]; exact hw
            · show v < sb.workers.length; rw [hsab.2.1, hsb.2.1]; exact hw
          rcases Global.contEff_pc hc hlen with h1 | ⟨_, _, _, _, _, e1⟩
          · rw [hp] at h1; simp [Pc.isTest] at h1
          · rw [e1] at hp; cases hp; rfl
        · exact absurd hnone hfind
  · rw [resume_others' g hwf s w out fuel hf hw hpath v hv] at hp
    exact h0 v n ph dir uid tag wait hp

theorem init_pc' (g : Graph) (ncls : Nat) (store : List (String × List (String × String))) (hidden : List Nat) (v : Nat) :
    ((initState g ncls store hidden).wd v).pc = .loop := by
  unfold initState State.wd
  simp only [List.getD_eq_getElem?_getD, List.getElem?_map]
  cases g.workers[v]? <;> rfl

theorem w0_init (g : Graph) (ncls : Nat) (store : List (String × List (String × String))) (hidden : List Nat) :
    W0 (initState g ncls store hidden) := by
  intro v n ph dir uid tag wait hp
  rw [init_pc'] at hp; cases hp

/-- every step of the run is given a status (whenever a test task ends, it has reported) -/
def Reports (steps : List StepN) : Prop := ∀ x ∈ steps, x.2.1.status ≠ none

theorem not_abandoned {g : Graph} (hwf : GraphWF g) (steps : List StepN) : ∀ s, Basic g s All → W0 s →
    (∀ x ∈ steps, x.1 < g.workers.length) → (∀ x ∈ steps, 0 < x.2.2) → Reports steps →
    ∀ m t, ¬ Abandoned g s steps m t := by
  induction steps with
  | nil => intro s _ _ _ _ _ m t h; exact h
  | cons x rest ih =>
    intro s b h0 hreal hfuel hrep m t h
    have hx := hreal x (List.mem_cons_self ..)
    have hfx := hfuel x (List.mem_cons_self ..)
    rcases h with ⟨dir, uid, wait, hpc, hge, _⟩ | h
    · have := h0 _ _ _ _ _ _ _ hpc
      omega
    · exact ih _ (b.step hwf x.1 x.2.1 x.2.2 hx hfx)
        (resume_w0 g hwf s x.1 x.2.1 x.2.2 hfx (by rw [b.workersLen]; exact hx) (b.paths x.1)
          (hrep x (List.mem_cons_self ..)) h0)
        (fun y hy => hreal y (List.mem_cons_of_mem _ hy)) (fun y hy => hfuel y (List.mem_cons_of_mem _ hy))
        (fun y hy => hrep y (List.mem_cons_of_mem _ hy)) m t h

/-- the placeholder of the execution a worker is inside of is kept by a step that gives the execution up -/
theorem abandon_keeps {g : Graph} (hwf : GraphWF g) {s : State} (b : Basic g s All) (w : Nat) (out : Outcome) (fuel : Nat)
    (hf : 0 < fuel) {n : Nat} {dir : Dir} {uid : String} {tag wait : Nat}
    (hpc : (s.wd w).pc = .test n .plain dir uid tag wait) (hge : 10 ≤ wait)
    (hnone : s.jobResults.find? (fun r => r.1 == (g.node n).name && r.2.1 == uid) = none) :
    phOf (g.node n).name tag ∈ ((resume g s w out fuel).1.nd n).results ∧
      (s.nd n).results <+: ((resume g s w out fuel).1.nd n).results ∧
      ¬ Owner (resume g s w out fuel).1 n tag := by
  have hws : w < s.workers.length := lt_of_isTest s w (by rw [hpc]; rfl)
  have hab := resume_abandon g s w out fuel hpc hge hnone
  have hc := continueAfter_eff g hwf w n .plain dir fuel hf s false [] hws (b.paths w)
  rw [← hab] at hc
  have hpre : (s.nd n).results <+: ((resume g s w out fuel).1.nd n).results := hc.ext n
  refine ⟨hpre.subset ((b.placeholder w n .plain dir uid tag wait trivial hpc).1 (by decide)), hpre, ?_⟩
  rintro ⟨v, dir', uid', wait', hp⟩
  have hlt := (b.pcOK w n .plain dir uid tag wait trivial hpc).2.2.1
  by_cases hv : v = w
  · subst hv
    rcases Global.contEff_pc hc hws with h1 | ⟨n', ph', dir'', uid'', tag', e1⟩
    · rw [hp] at h1; simp [Pc.isTest] at h1
    · -- a fresh test has a fresh tag
      have b' := b.step hwf v out fuel (by rw [← b.workersLen]; exact hws) hf
      rcases hc with ⟨h, _⟩ | ⟨_, h⟩
      · cases h
      · simp only [reduceCtorEq, if_false] at h
        rcases h with ⟨_, hnt⟩ | ⟨s1, a, hs⟩
        · rw [hp] at hnt; simp [Pc.isTest] at hnt
        · have hw1 : v < s1.workers.length := by rw [a.workersLen]; exact hws
          have : (((resume g s v out fuel).1).wd v).pc = .test n .plain dir' uid' tag wait' := hp
          cases hs with
          | plain n2 dir2 s0 evs gv hgv hn hroot hdec e =>
            rw [e, startTest_pc g s1 n2 v .plain dir2 hw1] at this
            simp only [Pc.test.injEq] at this
            have := this.2.2.2.2.1
            rw [a.tag] at this; omega
          | pre n2 dir2 hn hroot e =>
            rw [e, startTest_pc g _ n2 v .pre dir2 (by simp [State.setWd]; exact hw1)] at this
            simp only [Pc.test.injEq] at this
            have := this.2.1; cases this
  · rw [resume_others' g hwf s w out fuel hf hws (b.paths w) v hv] at hp
    exact b.tagsDistinct v w n .plain dir' uid' tag wait' n .plain dir uid tag wait trivial trivial hv hp hpc rfl

end I2N.Trav.Definite
