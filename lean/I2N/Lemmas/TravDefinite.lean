import I2N.Lemmas.TravFair
/-!
C02, the "definite result" half: what holds at the END of a run.

(a) `Owner`/`Abandoned`: an in-flight UNKNOWN placeholder (status `UNKNOWN`, tag `≥ 1`) on a copy that is not an
object root exists only while the worker that started the execution is suspended inside it — or for ever, if the
report of that execution never arrived (the eleventh resumption of the result wait finds nothing: the runner's default
ERROR, `resume_abandon`).  One case analysis over `resume_eff` (`step_orphan`), lifted to runs (`run_orphan`).

(b) `DInv`: a worker is registered as having dropped a child class only after a copy of that class it cares for was
cleanup-ready for it and — if the copy is a stateless test that is selected for running — the class had a result.
Frame relation `DUpd`, one walk through `afterTraverse`, `traverseNode`, `iter`, `iterL`, `runLoop`,
`resumeTest.continueAfter`, `resumeTest`, `resume`.
-/
namespace I2N.Trav.Definite
open I2N.Trav I2N.Trav.GlobalN

/-! ## (a) placeholders -/

/-- some worker is suspended inside the execution `t` of the test proper of copy `m` -/
def Owner (s : State) (m t : Nat) : Prop := ∃ v dir uid wait, (s.wd v).pc = .test m .plain dir uid t wait

/-- the step `x` taken in state `s` gives up the execution `t` of copy `m`: the stepping worker is inside it, has
slept ten times waiting for the report, and the report is still not among the job results -/
def AbandonStep (g : Graph) (s : State) (x : StepN) (m t : Nat) : Prop :=
  ∃ dir uid wait, (s.wd x.1).pc = .test m .plain dir uid t wait ∧ 10 ≤ wait ∧
    s.jobResults.find? (fun r => r.1 == (g.node m).name && r.2.1 == uid) = none

/-- some step of the run from `s` gives up the execution `t` of copy `m` -/
def Abandoned (g : Graph) : State → List StepN → Nat → Nat → Prop
  | _, [], _, _ => False
  | s, x :: r, m, t => AbandonStep g s x m t ∨ Abandoned g (stepN g s x) r m t

theorem startFrom_results {g : Graph} {w : Nat} {s1 s' : State} (h : StartFrom g w s1 s') (hw : w < s1.workers.length)
    (m : Nat) (r : Result) (hr : r ∈ (s'.nd m).results) :
    r ∈ (s1.nd m).results ∨
      (r = phOf (g.node m).name s1.nextTag ∧ ∃ dir uid, (s'.wd w).pc = .test m .plain dir uid s1.nextTag 0) := by
  cases h with
  | plain n dir s0 evs gv hgv hn hroot hdec h =>
    subst h
    rcases startTest_results g s1 n w .plain dir m with e | ⟨_, hmn, _, e⟩
    · left; rw [e] at hr; exact hr
    · rw [e] at hr
      rcases List.mem_append.mp hr with hr | hr
      · exact Or.inl hr
      · right
        subst hmn
        exact ⟨List.mem_singleton.mp hr, dir, _, startTest_pc g s1 m w .plain dir hw⟩
  | pre n dir hn hroot h =>
    subst h
    left
    rcases startTest_results g (s1.setWd w (fun d => { d with preResults := (s1.nd n).results, preName := preNameOf g n w }))
      n w .pre dir m with e | ⟨hne, _⟩
    · rw [e] at hr; exact hr
    · exact absurd rfl hne

theorem startFrom_others {g : Graph} {w : Nat} {s1 s' : State} (h : StartFrom g w s1 s') (v : Nat) (hv : v ≠ w) :
    s'.wd v = s1.wd v := by
  cases h with
  | plain n dir s0 evs gv hgv hn hroot hdec h => subst h; exact startTest_wd_ne g s1 n w .plain dir v hv
  | pre n dir hn hroot h =>
    subst h
    rw [startTest_wd_ne g _ n w .pre dir v hv]
    exact wd_setWd_ne s1 w v _ hv

theorem startFrom_tag {g : Graph} {w : Nat} {s1 s' : State} (h : StartFrom g w s1 s') : s'.nextTag = s1.nextTag + 1 := by
  cases h with
  | plain n dir s0 evs gv hgv hn hroot hdec h => subst h; rfl
  | pre n dir hn hroot h => subst h; rfl

/-- the state the continuation after a test works on -/
theorem contBase_nd {sc : State} {n w : Nat} {ph : Phase} (m : Nat) (hmn : ph = .pre → m ≠ n) :
    ((if ph = .pre then appendPre sc n w else sc).nd m).results = (sc.nd m).results := by
  split
  · rename_i hp
    unfold appendPre
    rw [nd_setNd_ne sc n m _ (hmn hp)]
  · rfl

theorem contEff_results {g : Graph} {w n : Nat} {ph : Phase} {dir : Dir} {sc : State} {ok : Bool} {s' : State}
    (h : ContEff g w n ph dir sc ok s') (hw : w < sc.workers.length) (m : Nat) (hmn : ph = .pre → m ≠ n)
    (r : Result) (hr : r ∈ (s'.nd m).results) :
    r ∈ (sc.nd m).results ∨
      (r = phOf (g.node m).name sc.nextTag ∧ ∃ dir uid, (s'.wd w).pc = .test m .plain dir uid sc.nextTag 0) := by
  rcases h with ⟨hp, _, h⟩ | ⟨_, h⟩
  · left
    subst h
    rcases startTest_results g sc n w .main dir m with e | ⟨_, hmn', _, _⟩
    · rw [e] at hr; exact hr
    · exact absurd hmn' (hmn hp)
  · have hnd := contBase_nd (sc := sc) (n := n) (w := w) (ph := ph) m hmn
    have htag : (if ph = .pre then appendPre sc n w else sc).nextTag = sc.nextTag := by split <;> rfl
    have hlen : (if ph = .pre then appendPre sc n w else sc).workers.length = sc.workers.length := by split <;> rfl
    generalize (if ph = .pre then appendPre sc n w else sc) = sd at h hnd htag hlen
    rcases h with ⟨a, _⟩ | ⟨s1, a, hs⟩
    · left; rw [a.results, hnd] at hr; exact hr
    · rcases startFrom_results hs (by rw [a.workersLen, hlen]; exact hw) m r hr with h1 | h1
      · left; rw [a.results, hnd] at h1; exact h1
      · right; rw [a.tag, htag] at h1; exact h1

theorem contEff_others {g : Graph} {w n : Nat} {ph : Phase} {dir : Dir} {sc : State} {ok : Bool} {s' : State}
    (h : ContEff g w n ph dir sc ok s') (v : Nat) (hv : v ≠ w) : s'.wd v = sc.wd v := by
  rcases h with ⟨_, _, h⟩ | ⟨_, h⟩
  · subst h; exact startTest_wd_ne g sc n w .main dir v hv
  · have hwd : (if ph = .pre then appendPre sc n w else sc).wd v = sc.wd v := by split <;> rfl
    generalize (if ph = .pre then appendPre sc n w else sc) = sd at h hwd
    rcases h with ⟨a, _⟩ | ⟨s1, a, hs⟩
    · rw [a.others v hv, hwd]
    · rw [startFrom_others hs v hv, a.others v hv, hwd]

/-- a step of `w` leaves the records of the other workers alone -/
theorem resume_others' (g : Graph) (hwf : GraphWF g) (s : State) (w : Nat) (out : Outcome) (fuel : Nat) (hf : 0 < fuel)
    (hw : w < s.workers.length) (hpath : ∀ x ∈ (s.wd w).path, x < g.nodes.length) (v : Nat) (hv : v ≠ w) :
    (resume g s w out fuel).1.wd v = s.wd v := by
  rcases resume_eff g hwf s w out fuel hf hw hpath with ⟨_, h⟩ | ⟨n, ph, dir, uid, tag, wait, hpc, sa, hrep, h⟩
  · rcases h with ⟨a, _⟩ | ⟨s1, a, hs⟩
    · exact a.others v hv
    · rw [startFrom_others hs v hv, a.others v hv]
  · have hsb : SameBook s sa := by
      rcases hrep with ⟨h, _⟩ | ⟨_, _, _, h, _⟩
      · rw [h]; exact ⟨rfl, rfl, rfl⟩
      · exact h
    rcases h with ⟨e, _, sb, res, ok, hsab, _, _, hc⟩ | ⟨_, h | hc⟩
    · rw [contEff_others hc v hv]
      have : (if ph = .pre then settlePre sb w res tag else settleNd sb n res tag).wd v = sb.wd v := by
        split
        · exact wd_setWd_ne sb w v _ hv
        · rfl
      rw [this, hsab.wd, hsb.wd]
    · rw [h, wd_setWd_ne sa w v _ hv, hsb.wd]
    · rw [contEff_others hc v hv, hsb.wd]

/-! ### the result wait: tick, or the default after the tenth sleep -/

theorem name_eq (g : Graph) (s : State) (w n : Nat) (ph : Phase) :
    (if (ph == Phase.pre) = true then (s.wd w).preName else (g.node n).name) =
      (if ph = .pre then (s.wd w).preName else (g.node n).name) := by
  cases ph <;> rfl

theorem repEff_jobs {g : Graph} {s sa : State} {w n : Nat} {ph : Phase} {uid : String} {wait : Nat} {out : Outcome}
    (h : RepEff s (if ph = .pre then (s.wd w).preName else (g.node n).name) uid wait out sa) :
    sa.jobResults = (reportOutcome g s w n ph uid wait out).1.jobResults := by
  unfold reportOutcome
  dsimp only
  rw [name_eq]
  rcases h with ⟨h, h' | h'⟩ | ⟨h0, st, hst, _, hj⟩
  · have : ¬ (wait == 0) = true := by simpa using h'
    simp only [this, Bool.false_eq_true, if_false, h]
  · rw [h, h']
    split <;> rfl
  · subst h0
    rw [hst, hj]
    simp only [BEq.rfl, if_true]
    have hp : ∀ (c : Bool) (x : State), (if c = true then produce g x n w else x).jobResults = x.jobResults := by
      intro c x; cases c <;> rfl
    rw [hp]

theorem resume_test_eq (g : Graph) (s : State) (w : Nat) (out : Outcome) (fuel : Nat) {n : Nat} {ph : Phase} {dir : Dir}
    {uid : String} {tag wait : Nat} (hpc : (s.wd w).pc = .test n ph dir uid tag wait) :
    resume g s w out fuel = resumeTest g s w n ph dir uid tag wait out fuel := by
  unfold resume; rw [hpc]

/-- the report is not there and fewer than ten sleeps have been taken: one more sleep -/
theorem resumeTest_tick (g : Graph) (s : State) (w n : Nat) (ph : Phase) (dir : Dir) (uid : String) (tag wait : Nat)
    (out : Outcome) (fuel : Nat) (hw : w < s.workers.length) (hlt : wait < 10)
    (hnone : (reportOutcome g s w n ph uid wait out).1.jobResults.find?
      (fun r => r.1 == (if ph == .pre then (s.wd w).preName else (g.node n).name) && r.2.1 == uid) = none) :
    ((resumeTest g s w n ph dir uid tag wait out fuel).1.wd w).pc = .test n ph dir uid tag (wait + 1) := by
  rw [resumeTest_eq, hnone]
  dsimp only
  have hwA : w < (reportOutcome g s w n ph uid wait out).1.workers.length := by
    rw [(reportOutcome_frame g s w n ph uid wait out).2.1]; exact hw
  split
  · rw [wd_setWd_eq _ w _ hwA]
  · split
    · rw [wd_setWd_eq _ w _ hwA]
    · next h1 h2 => simp at h2; omega

/-- **what the model does when the report never arrives**: at the eleventh resumption of the result wait (`wait = 10`;
the task ended at `wait = 0`, ten sleeps of 30 s followed) with the report still missing, the step is the continuation
after a test that counts as FAILED (`ok = false`: the runner's default `error`), on the unchanged state: nothing is
filed, the placeholder is not removed. -/
theorem resume_abandon (g : Graph) (s : State) (w : Nat) (out : Outcome) (fuel : Nat) {n : Nat} {ph : Phase} {dir : Dir}
    {uid : String} {tag wait : Nat} (hpc : (s.wd w).pc = .test n ph dir uid tag wait) (hge : 10 ≤ wait)
    (hnone : s.jobResults.find?
      (fun r => r.1 == (if ph == .pre then (s.wd w).preName else (g.node n).name) && r.2.1 == uid) = none) :
    resume g s w out fuel = resumeTest.continueAfter g w n ph dir fuel s false [] := by
  have hrep : reportOutcome g s w n ph uid wait out = (s, []) := by
    unfold reportOutcome
    have : (wait == 0) = false := by simp; omega
    simp only [this, Bool.false_eq_true, if_false]
  rw [resume_test_eq g s w out fuel hpc, resumeTest_eq, hrep]
  dsimp only
  rw [hnone]
  dsimp only
  have h1 : ¬ wait + 1 < 10 := by omega
  have h2 : (wait + 1 == 10) = false := by simp; omega
  simp only [h1, h2, if_false, Bool.false_eq_true]

/-! ### one step -/

theorem owner_real {g : Graph} {s : State} (b : Basic g s All) {m t : Nat} (h : Owner s m t) :
    ∃ v, v < g.workers.length ∧ ∃ dir uid wait, (s.wd v).pc = .test m .plain dir uid t wait := by
  obtain ⟨v, dir, uid, wait, hv⟩ := h
  exact ⟨v, by rw [← b.workersLen]; exact lt_of_isTest s v (by rw [hv]; rfl), dir, uid, wait, hv⟩

theorem tag_phOf (nm : String) (t : Nat) : (phOf nm t).tag = t := rfl

/-- A placeholder that has no owner after a step of `w` was there before the step, and either had no owner before, or
the step gave its execution up. -/
theorem step_orphan {g : Graph} (hwf : GraphWF g) {s : State} (b : Basic g s All) (w : Nat) (out : Outcome) (fuel : Nat)
    (hw : w < g.workers.length) (hf : 0 < fuel) (m : Nat) (hm : (g.node m).objectRoot = false) (r : Result)
    (hr : r ∈ ((resume g s w out fuel).1.nd m).results) (hu : r.status = "UNKNOWN") (ht : 1 ≤ r.tag)
    (hno : ¬ Owner (resume g s w out fuel).1 m r.tag) :
    r ∈ (s.nd m).results ∧ (¬ Owner s m r.tag ∨ AbandonStep g s (w, out, fuel) m r.tag) := by
  have hws : w < s.workers.length := by rw [b.workersLen]; exact hw
  have hoth := resume_others' g hwf s w out fuel hf hws (b.paths w)
  -- an owner other than `w` is still an owner afterwards
  have hother : ∀ v dir uid wait, v ≠ w → (s.wd v).pc = .test m .plain dir uid r.tag wait → False := by
    intro v dir uid wait hv hp
    exact hno ⟨v, dir, uid, wait, by rw [hoth v hv]; exact hp⟩
  have hfresh : ∀ T, (r = phOf (g.node m).name T ∧ ∃ dir uid, ((resume g s w out fuel).1.wd w).pc = .test m .plain dir uid T 0) →
      False := by
    rintro T ⟨e, dir, uid, hp⟩
    exact hno ⟨w, dir, uid, 0, by rw [e, tag_phOf]; exact hp⟩
  rcases resume_eff g hwf s w out fuel hf hws (b.paths w) with ⟨hnt, h⟩ | ⟨n, ph, dir, uid, tag, wait, hpc, sa, hrep, h⟩
  · have hold : r ∈ (s.nd m).results := by
      rcases h with ⟨a, _⟩ | ⟨s1, a, hs⟩
      · rw [a.results] at hr; exact hr
      · rcases startFrom_results hs (by rw [a.workersLen]; exact hws) m r hr with h1 | h1
        · rw [a.results] at h1; exact h1
        · rw [a.tag] at h1; exact (hfresh _ h1).elim
    refine ⟨hold, Or.inl ?_⟩
    rintro ⟨v, dir, uid, wait, hp⟩
    by_cases hv : v = w
    · subst hv; rw [hp] at hnt; simp [Pc.isTest] at hnt
    · exact hother v dir uid wait hv hp
  · have hsb : SameBook s sa := by
      rcases hrep with ⟨h, _⟩ | ⟨_, _, _, h, _⟩
      · rw [h]; exact ⟨rfl, rfl, rfl⟩
      · exact h
    have hok := b.pcOK w n ph dir uid tag wait trivial hpc
    have hmn : ph = .pre → m ≠ n := by
      intro hp hmn
      subst hmn
      have := hok.2.2.2.1.mp hm
      rw [hp] at this; cases this
    -- an owner in `s` is `w` itself, with `n = m`, `ph = plain`, `tag = r.tag`
    have hown : Owner s m r.tag → n = m ∧ ph = .plain ∧ tag = r.tag := by
      rintro ⟨v, dir', uid', wait', hp⟩
      by_cases hv : v = w
      · subst hv
        rw [hpc] at hp
        simp only [Pc.test.injEq] at hp
        exact ⟨hp.1, hp.2.1, hp.2.2.2.2.1⟩
      · exact (hother v dir' uid' wait' hv hp).elim
    rcases h with ⟨e, _, sb, res, ok, hsab, _, ⟨hres, _⟩, hc⟩ | ⟨hnone, h | hc⟩
    · -- the report was found: the placeholder of `tag` is gone
      have hlen : (if ph = .pre then settlePre sb w res tag else settleNd sb n res tag).workers.length = s.workers.length := by
        split
        · unfold settlePre; rw [workers_length_setWd, hsab.2.1, hsb.2.1]
        · show sb.workers.length = _; rw [hsab.2.1, hsb.2.1]
      have htag : (if ph = .pre then settlePre sb w res tag else settleNd sb n res tag).nextTag = s.nextTag := by
        split
        · show sb.nextTag = _; rw [hsab.2.2, hsb.2.2]
        · show sb.nextTag = _; rw [hsab.2.2, hsb.2.2]
      rcases contEff_results hc (by rw [hlen]; exact hws) m hmn r hr with h1 | h1
      · have hnd : sb.nd m = s.nd m := by rw [hsab.nd, hsb.nd]
        by_cases hp : ph = .pre
        · simp only [hp, if_true] at h1
          have h1' : r ∈ (sb.nd m).results := h1
          rw [hnd] at h1'
          refine ⟨h1', Or.inl fun ho => ?_⟩
          have := (hown ho).2.1
          rw [hp] at this; cases this
        · simp only [hp, if_false] at h1
          by_cases hmn' : m = n
          · subst hmn'
            unfold settleNd at h1
            rw [nd_setNd_eq sb m _ (by rw [hsab.1, hsb.1, b.nodesLen]; exact hok.1)] at h1
            have h2 := List.mem_filter.mp h1
            rcases List.mem_append.mp h2.1 with h3 | h3
            · rw [hnd] at h3
              refine ⟨h3, Or.inl fun ho => ?_⟩
              have htg := (hown ho).2.2
              have h4 := h2.2
              rw [hu, htg] at h4
              simp at h4
            · rw [List.mem_singleton.mp h3, hres] at ht; omega
          · unfold settleNd at h1
            rw [nd_setNd_ne sb n m _ hmn', hnd] at h1
            exact ⟨h1, Or.inl fun ho => hmn' (hown ho).1.symm⟩
      · rw [htag] at h1; exact (hfresh _ h1).elim
    · -- one more sleep
      have hold : r ∈ (s.nd m).results := by
        rw [h] at hr
        have : r ∈ (sa.nd m).results := hr
        rw [hsb.nd] at this; exact this
      refine ⟨hold, Or.inl fun ho => ?_⟩
      obtain ⟨e1, e2, e3⟩ := hown ho
      subst e1 e2
      apply hno
      rw [← e3]
      refine ⟨w, dir, uid, wait + 1, ?_⟩
      rw [h, wd_setWd_eq sa w _ (by rw [hsb.2.1]; exact hws)]
    · -- the default
      have hold : r ∈ (s.nd m).results := by
        rcases contEff_results hc (by rw [hsb.2.1]; exact hws) m hmn r hr with h1 | h1
        · rw [hsb.nd] at h1; exact h1
        · rw [hsb.2.2] at h1; exact (hfresh _ h1).elim
      refine ⟨hold, ?_⟩
      by_cases ho : Owner s m r.tag
      · right
        obtain ⟨e1, e2, e3⟩ := hown ho
        subst e1 e2
        rw [← e3]
        simp only [reduceCtorEq, if_false] at hrep hnone
        by_cases hlt : wait < 10
        · exfalso
          apply hno
          rw [← e3]
          refine ⟨w, dir, uid, wait + 1, ?_⟩
          rw [resume_test_eq g s w out fuel hpc]
          refine resumeTest_tick g s w n .plain dir uid tag wait out fuel hws hlt ?_
          rw [← repEff_jobs (g := g) (w := w) (n := n) (ph := .plain) (by simpa using hrep)]
          exact hnone
        · have hsa : sa = s := by
            rcases hrep with ⟨h, _⟩ | ⟨h0, _⟩
            · exact h
            · omega
          rw [hsa] at hnone
          exact ⟨dir, uid, wait, hpc, by omega, hnone⟩
      · exact Or.inl ho

/-! ### runs -/

theorem init_results (g : Graph) (ncls : Nat) (store : List (String × List (String × String))) (hidden : List Nat) (m : Nat) :
    ((initState g ncls store hidden).nd m).results = [] := by
  unfold initState State.nd
  simp only [List.getD_eq_getElem?_getD, List.getElem?_map]
  cases g.nodes[m]? <;> rfl

theorem basic_run {g : Graph} (hwf : GraphWF g) (steps : List StepN) : ∀ s, Basic g s All →
    (∀ x ∈ steps, x.1 < g.workers.length) → (∀ x ∈ steps, 0 < x.2.2) → Basic g (runStepsN g s steps) All := by
  induction steps with
  | nil => intro s b _ _; exact b
  | cons x rest ih =>
    intro s b hreal hfuel
    rw [runStepsN_cons]
    exact ih _ (b.step hwf x.1 x.2.1 x.2.2 (hreal x (List.mem_cons_self ..)) (hfuel x (List.mem_cons_self ..)))
      (fun y hy => hreal y (List.mem_cons_of_mem _ hy)) (fun y hy => hfuel y (List.mem_cons_of_mem _ hy))

/-- along a run from any state with the bookkeeping invariant: a placeholder at the end has an owner, or was given
up on the way, or was an orphan at the beginning already -/
theorem run_orphan {g : Graph} (hwf : GraphWF g) (steps : List StepN) : ∀ s, Basic g s All →
    (∀ x ∈ steps, x.1 < g.workers.length) → (∀ x ∈ steps, 0 < x.2.2) →
    ∀ m, (g.node m).objectRoot = false → ∀ r ∈ ((runStepsN g s steps).nd m).results, r.status = "UNKNOWN" → 1 ≤ r.tag →
      Owner (runStepsN g s steps) m r.tag ∨ Abandoned g s steps m r.tag ∨ (r ∈ (s.nd m).results ∧ ¬ Owner s m r.tag) := by
  induction steps with
  | nil =>
    intro s _ _ _ m _ r hr _ _
    by_cases ho : Owner s m r.tag
    · exact Or.inl ho
    · exact Or.inr (Or.inr ⟨hr, ho⟩)
  | cons x rest ih =>
    intro s b hreal hfuel m hm r hr hu ht
    rw [runStepsN_cons] at hr ⊢
    have hx := hreal x (List.mem_cons_self ..)
    have hfx := hfuel x (List.mem_cons_self ..)
    have b1 : Basic g (stepN g s x) All := b.step hwf x.1 x.2.1 x.2.2 hx hfx
    rcases ih _ b1 (fun y hy => hreal y (List.mem_cons_of_mem _ hy)) (fun y hy => hfuel y (List.mem_cons_of_mem _ hy))
      m hm r hr hu ht with h | h | ⟨h1, h2⟩
    · exact Or.inl h
    · exact Or.inr (Or.inl (Or.inr h))
    · obtain ⟨h3, h4⟩ := step_orphan hwf b x.1 x.2.1 x.2.2 hx hfx m hm r h1 hu ht h2
      rcases h4 with h4 | h4
      · exact Or.inr (Or.inr ⟨h3, h4⟩)
      · exact Or.inr (Or.inl (Or.inl h4))

/-- from the initial state (any set of hidden nodes) -/
theorem run_placeholder {g : Graph} (hwf : GraphWF g) (ncls : Nat) (store : List (String × List (String × String)))
    (hidden : List Nat) (steps : List StepN) (hreal : ∀ x ∈ steps, x.1 < g.workers.length) (hfuel : ∀ x ∈ steps, 0 < x.2.2)
    (m : Nat) (hm : (g.node m).objectRoot = false) (r : Result)
    (hr : r ∈ ((runStepsN g (initState g ncls store hidden) steps).nd m).results) (hu : r.status = "UNKNOWN") (ht : 1 ≤ r.tag) :
    Owner (runStepsN g (initState g ncls store hidden) steps) m r.tag ∨
      Abandoned g (initState g ncls store hidden) steps m r.tag := by
  rcases run_orphan hwf steps _ (Basic.init g hwf ncls store hidden) hreal hfuel m hm r hr hu ht with h | h | ⟨h, _⟩
  · exact Or.inl h
  · exact Or.inr h
  · rw [init_results] at h; cases h

/-! ### when every task reports, nothing is ever given up -/

/-- nobody has slept waiting for a report -/
def W0 (s : State) : Prop := ∀ v n ph dir uid tag wait, (s.wd v).pc = .test n ph dir uid tag wait → wait = 0

theorem resume_w0 (g : Graph) (hwf : GraphWF g) (s : State) (w : Nat) (out : Outcome) (fuel : Nat) (hf : 0 < fuel)
    (hw : w < s.workers.length) (hpath : ∀ x ∈ (s.wd w).path, x < g.nodes.length) (hout : out.status ≠ none)
    (h0 : W0 s) : W0 (resume g s w out fuel).1 := by
  intro v n ph dir uid tag wait hp
  by_cases hv : v = w
  · subst hv
    rcases resume_eff g hwf s v out fuel hf hw hpath with ⟨_, h⟩ | ⟨n0, ph0, dir0, uid0, tag0, wait0, hpc, sa, hrep, h⟩
    · rcases h with ⟨_, hpcf⟩ | ⟨s1, a, hs⟩
      · rw [hp] at hpcf; simp [Pc.isTest] at hpcf
      · obtain ⟨_, _, _, _, _, e⟩ := Global.startFrom_pc hs (by rw [a.workersLen]; exact hw)
        rw [e] at hp; cases hp; rfl
    · have hw0 := h0 v _ _ _ _ _ _ hpc
      subst hw0
      rcases hrep with ⟨_, h' | h'⟩ | ⟨_, st, hst, hsb, hj⟩
      · exact absurd rfl h'
      · exact absurd h' hout
      · have hfind : sa.jobResults.find?
            (fun r => r.1 == (if ph0 = .pre then (s.wd v).preName else (g.node n0).name) && r.2.1 == uid0) ≠ none := by
          rw [hj]; exact find?_append_singleton_ne_none _ _ _ (by simp)
        rcases h with ⟨e, _, sb, res, ok, hsab, _, _, hc⟩ | ⟨hnone, _⟩
        · have hlen : v < (if ph0 = .pre then settlePre sb v res tag0 else settleNd sb n0 res tag0).workers.length := by
            split
            · unfold settlePre; rw [workers_length_setWd, hsab.2.1, hsb.2.1]; exact hw
            · show v < sb.workers.length; rw [hsab.2.1, hsb.2.1]; exact hw
          rcases Global.contEff_pc hc hlen with h1 | ⟨_, _, _, _, _, e1⟩
          · rw [hp] at h1; simp [Pc.isTest] at h1
          · rw [e1] at hp; cases hp; rfl
        · exact absurd hnone hfind
  · rw [resume_others' g hwf s w out fuel hf hw hpath v hv] at hp
    exact h0 v n ph dir uid tag wait hp

theorem init_pc' (g : Graph) (ncls : Nat) (store : List (String × List (String × String))) (hidden : List Nat) (v : Nat) :
    ((initState g ncls store hidden).wd v).pc = .loop := by
  unfold initState State.wd
  simp only [List.getD_eq_getElem?_getD, List.getElem?_map]
  cases g.workers[v]? <;> rfl

theorem w0_init (g : Graph) (ncls : Nat) (store : List (String × List (String × String))) (hidden : List Nat) :
    W0 (initState g ncls store hidden) := by
  intro v n ph dir uid tag wait hp
  rw [init_pc'] at hp; cases hp

/-- every step of the run is given a status (whenever a test task ends, it has reported) -/
def Reports (steps : List StepN) : Prop := ∀ x ∈ steps, x.2.1.status ≠ none

theorem not_abandoned {g : Graph} (hwf : GraphWF g) (steps : List StepN) : ∀ s, Basic g s All → W0 s →
    (∀ x ∈ steps, x.1 < g.workers.length) → (∀ x ∈ steps, 0 < x.2.2) → Reports steps →
    ∀ m t, ¬ Abandoned g s steps m t := by
  induction steps with
  | nil => intro s _ _ _ _ _ m t h; exact h
  | cons x rest ih =>
    intro s b h0 hreal hfuel hrep m t h
    have hx := hreal x (List.mem_cons_self ..)
    have hfx := hfuel x (List.mem_cons_self ..)
    rcases h with ⟨dir, uid, wait, hpc, hge, _⟩ | h
    · have := h0 _ _ _ _ _ _ _ hpc
      omega
    · exact ih _ (b.step hwf x.1 x.2.1 x.2.2 hx hfx)
        (resume_w0 g hwf s x.1 x.2.1 x.2.2 hfx (by rw [b.workersLen]; exact hx) (b.paths x.1)
          (hrep x (List.mem_cons_self ..)) h0)
        (fun y hy => hreal y (List.mem_cons_of_mem _ hy)) (fun y hy => hfuel y (List.mem_cons_of_mem _ hy))
        (fun y hy => hrep y (List.mem_cons_of_mem _ hy)) m t h

/-- the placeholder of the execution a worker is inside of is kept by a step that gives the execution up -/
theorem abandon_keeps {g : Graph} (hwf : GraphWF g) {s : State} (b : Basic g s All) (w : Nat) (out : Outcome) (fuel : Nat)
    (hf : 0 < fuel) {n : Nat} {dir : Dir} {uid : String} {tag wait : Nat}
    (hpc : (s.wd w).pc = .test n .plain dir uid tag wait) (hge : 10 ≤ wait)
    (hnone : s.jobResults.find? (fun r => r.1 == (g.node n).name && r.2.1 == uid) = none) :
    phOf (g.node n).name tag ∈ ((resume g s w out fuel).1.nd n).results ∧
      (s.nd n).results <+: ((resume g s w out fuel).1.nd n).results ∧
      ¬ Owner (resume g s w out fuel).1 n tag := by
  have hws : w < s.workers.length := lt_of_isTest s w (by rw [hpc]; rfl)
  have hab := resume_abandon g s w out fuel hpc hge hnone
  have hc := continueAfter_eff g hwf w n .plain dir fuel hf s false [] hws (b.paths w)
  rw [← hab] at hc
  have hpre : (s.nd n).results <+: ((resume g s w out fuel).1.nd n).results := hc.ext n
  refine ⟨hpre.subset ((b.placeholder w n .plain dir uid tag wait trivial hpc).1 (by decide)), hpre, ?_⟩
  rintro ⟨v, dir', uid', wait', hp⟩
  have hlt := (b.pcOK w n .plain dir uid tag wait trivial hpc).2.2.1
  by_cases hv : v = w
  · subst hv
    rcases Global.contEff_pc hc hws with h1 | ⟨n', ph', dir'', uid'', tag', e1⟩
    · rw [hp] at h1; simp [Pc.isTest] at h1
    · -- a fresh test has a fresh tag
      have b' := b.step hwf v out fuel (by rw [← b.workersLen]; exact hws) hf
      rcases hc with ⟨h, _⟩ | ⟨_, h⟩
      · cases h
      · simp only [reduceCtorEq, if_false] at h
        rcases h with ⟨_, hnt⟩ | ⟨s1, a, hs⟩
        · rw [hp] at hnt; simp [Pc.isTest] at hnt
        · have hw1 : v < s1.workers.length := by rw [a.workersLen]; exact hws
          have : (((resume g s v out fuel).1).wd v).pc = .test n .plain dir' uid' tag wait' := hp
          cases hs with
          | plain n2 dir2 s0 evs gv hgv hn hroot hdec e =>
            rw [e, startTest_pc g s1 n2 v .plain dir2 hw1] at this
            simp only [Pc.test.injEq] at this
            have := this.2.2.2.2.1
            rw [a.tag] at this; omega
          | pre n2 dir2 hn hroot e =>
            rw [e, startTest_pc g _ n2 v .pre dir2 (by simp [State.setWd]; exact hw1)] at this
            simp only [Pc.test.injEq] at this
            have := this.2.1; cases this
  · rw [resume_others' g hwf s w out fuel hf hws (b.paths w) v hv] at hp
    exact b.tagsDistinct v w n .plain dir' uid' tag wait' n .plain dir uid tag wait trivial trivial hv hp hpc rfl

/-! ## (b) a child leaves the to-do list only after the decision -/

/-- copy `p` is a test the stateless branch of `default_run_decision` decides about: not the shared root, not a dry
run, not flat, not a clone source, and it sets no state -/
def selected (g : Graph) (p : Nat) : Bool :=
  !(g.node p).sharedRoot && !(g.node p).dryRun && !(g.node p).flat && !(g.node p).cloneSource && (g.node p).sets.isEmpty

/-- worker `v` is through with a copy of class `c`: a copy of that class it cares for is cleanup-ready for it, and if
it is a selected stateless test, its class has a result -/
def Seen (g : Graph) (s : State) (v c : Nat) : Prop :=
  ∃ p, p < g.nodes.length ∧ (g.node p).cls = c ∧ relevant g v p = true ∧ isCleanupReady g s p v = true ∧
    (selected g p = true → sharedResults g s p ≠ [])

/-- the `droppedCleanup` registers only grow -/
def MonoC (s s' : State) : Prop :=
  ∀ c c' u, u ∈ regWorkers (s.cr c).droppedCleanup (some c') → u ∈ regWorkers (s'.cr c).droppedCleanup (some c')

/-- a result list that is not empty stays so -/
def NE (s s' : State) : Prop := ∀ i, (s.nd i).results ≠ [] → (s'.nd i).results ≠ []

/-- the nodes behind the first one on `w`'s path are nodes of the graph that `w` cares for -/
def TailOk (g : Graph) (w : Nat) (s : State) : Prop :=
  ∀ x ∈ (s.wd w).path.tail, x < g.nodes.length ∧ relevant g w x = true

theorem isCleanupReady_mono (g : Graph) (s s' : State) (n v : Nat) (hm : MonoC s s')
    (h : isCleanupReady g s n v = true) : isCleanupReady g s' n v = true := by
  unfold isCleanupReady at h ⊢
  rw [List.all_eq_true] at h ⊢
  intro p hp
  have := h p hp
  obtain ⟨p1, vms⟩ := p
  simp only [Bool.or_eq_true, Bool.not_eq_true', List.contains_iff_mem] at this ⊢
  rcases this with h1 | h1
  · exact Or.inl h1
  · exact Or.inr (hm _ _ _ h1)

theorem sharedResults_ne_mono (g : Graph) (s s' : State) (p : Nat) (hne : NE s s') (h : sharedResults g s p ≠ []) :
    sharedResults g s' p ≠ [] := by
  unfold sharedResults at h ⊢
  intro h'
  apply h
  rw [List.flatMap_eq_nil_iff] at h' ⊢
  intro i hi
  by_cases hc : (s.nd i).results = []
  · exact hc
  · exact absurd (h' i hi) (hne i hc)

theorem Seen.mono {g : Graph} {s s' : State} {v c : Nat} (h : Seen g s v c) (hne : NE s s') (hm : MonoC s s') :
    Seen g s' v c := by
  obtain ⟨p, h1, h2, h3, h4, h5⟩ := h
  exact ⟨p, h1, h2, h3, isCleanupReady_mono g s s' p v hm h4, fun hs => sharedResults_ne_mono g s s' p hne (h5 hs)⟩

/-- what a piece of a step of worker `w` may do to results, the hidden set, the `droppedCleanup` registers and `w`'s path -/
structure DUpd (g : Graph) (w : Nat) (s s' : State) : Prop where
  ne : NE s s'
  hid : s.hidden = [] → s'.hidden = []
  mono : MonoC s s'
  new : ∀ c c' u, u ∈ regWorkers (s'.cr c).droppedCleanup (some c') →
    u ∈ regWorkers (s.cr c).droppedCleanup (some c') ∨ (u = w ∧ Seen g s' w c')
  tail : TailOk g w s → TailOk g w s'
  done : (s'.wd w).pc = .done → (s.wd w).pc = .done ∨ isCleanupReady g s' g.root w = true

theorem DUpd.refl (g : Graph) (w : Nat) (s : State) : DUpd g w s s :=
  ⟨fun _ h => h, fun h => h, fun _ _ _ h => h, fun _ _ _ h => Or.inl h, fun h => h, fun h => Or.inl h⟩

theorem DUpd.trans {g : Graph} {w : Nat} {s s1 s2 : State} (a : DUpd g w s s1) (b : DUpd g w s1 s2) : DUpd g w s s2 where
  ne := fun i h => b.ne i (a.ne i h)
  hid := fun h => b.hid (a.hid h)
  mono := fun c c' u h => b.mono c c' u (a.mono c c' u h)
  new := fun c c' u h => by
    rcases b.new c c' u h with h1 | h1
    · rcases a.new c c' u h1 with h2 | ⟨h2, h3⟩
      · exact Or.inl h2
      · exact Or.inr ⟨h2, h3.mono b.ne b.mono⟩
    · exact Or.inr h1
  tail := fun h => b.tail (a.tail h)
  done := fun h => by
    rcases b.done h with h1 | h1
    · rcases a.done h1 with h2 | h2
      · exact Or.inl h2
      · exact Or.inr (isCleanupReady_mono g s1 s2 g.root w b.mono h2)
    · exact Or.inr h1

/-- nothing the relation reads changes -/
theorem DUpd.quiet {g : Graph} {w : Nat} {s s' : State} (hr : ∀ i, (s'.nd i).results = (s.nd i).results)
    (hh : s'.hidden = s.hidden) (hc : ∀ c, (s'.cr c).droppedCleanup = (s.cr c).droppedCleanup)
    (hp : (s'.wd w).path = (s.wd w).path) (hpc : (s'.wd w).pc = (s.wd w).pc) : DUpd g w s s' :=
  ⟨fun i h => by rw [hr i]; exact h, fun h => by rw [hh]; exact h, fun c c' u h => by rw [hc c]; exact h,
    fun c c' u h => Or.inl (by rw [← hc c]; exact h), fun h => by unfold TailOk; rw [hp]; exact h,
    fun h => Or.inl (by rw [← hpc]; exact h)⟩

theorem dupd_setNd (g : Graph) (w : Nat) (s : State) (m : Nat) (f : NodeD → NodeD) (hf : ∀ d, (f d).results = d.results) :
    DUpd g w s (s.setNd m f) :=
  DUpd.quiet (fun i => nd_setNd_proj (·.results) s m f hf i) rfl (fun _ => rfl) rfl rfl

theorem dupd_setCr (g : Graph) (w : Nat) (s : State) (c : Nat) (f : ClassRegs → ClassRegs)
    (hc : ∀ r, (f r).droppedCleanup = r.droppedCleanup) : DUpd g w s (s.setCr c f) := by
  refine DUpd.quiet (fun _ => rfl) rfl (fun c' => ?_) rfl rfl
  rcases Term.cr_setCr_cases s c f c' with h | ⟨_, h⟩
  · rw [h]
  · rw [h, hc]

theorem dupd_setWd (g : Graph) (w : Nat) (s : State) (f : WorkerD → WorkerD)
    (hpath : ∀ d, (∀ x ∈ d.path.tail, x < g.nodes.length ∧ relevant g w x = true) →
      ∀ x ∈ (f d).path.tail, x < g.nodes.length ∧ relevant g w x = true)
    (hpc : ∀ d, (f d).pc = d.pc ∨ (f d).pc ≠ .done) : DUpd g w s (s.setWd w f) := by
  refine ⟨fun _ h => h, fun h => h, fun _ _ _ h => h, fun _ _ _ h => Or.inl h, ?_, ?_⟩
  · intro hp
    unfold TailOk
    rcases wd_setWd_cases s w f with ⟨h, _⟩ | ⟨_, h⟩
    · rw [h]; exact hp
    · rw [h]; exact hpath _ hp
  · intro hd
    rcases wd_setWd_cases s w f with ⟨h, _⟩ | ⟨_, h⟩
    · rw [h] at hd; exact Or.inl hd
    · rw [h] at hd
      rcases hpc (s.wd w) with h1 | h1
      · rw [h1] at hd; exact Or.inl hd
      · exact absurd hd h1

theorem dupd_setWd_path (g : Graph) (w : Nat) (s : State) (f : WorkerD → WorkerD) (hf : ∀ d, (f d).path = d.path)
    (hpc : ∀ d, (f d).pc = d.pc ∨ (f d).pc ≠ .done) : DUpd g w s (s.setWd w f) :=
  dupd_setWd g w s f (fun d h => by rw [hf d]; exact h) hpc

theorem dupd_popPath (g : Graph) (w : Nat) (s : State) : DUpd g w s (popPath s w) :=
  dupd_setWd g w s _ (fun d h x hx => by
    apply h x
    have : d.path.dropLast.tail = d.path.tail.dropLast := by
      cases d.path with
      | nil => rfl
      | cons a l => cases l <;> simp
    rw [this] at hx
    exact List.dropLast_subset _ hx) (fun _ => Or.inl rfl)

theorem dupd_pushPath (g : Graph) (w : Nat) (s : State) (m : Nat) (hm : m < g.nodes.length) (hr : relevant g w m = true) :
    DUpd g w s (pushPath s w m) :=
  dupd_setWd g w s _ (fun d h x hx => by
    have hsub : ∀ y ∈ (d.path ++ [m]).tail, y ∈ d.path.tail ∨ y = m := by
      intro y hy
      cases hd : d.path with
      | nil => rw [hd] at hy; simp at hy
      | cons a l =>
        rw [hd] at hy
        simp only [List.cons_append, List.tail_cons, List.mem_append, List.mem_singleton] at hy
        simpa using hy
    rcases hsub x hx with h1 | h1
    · exact h x h1
    · rw [h1]; exact ⟨hm, hr⟩) (fun _ => Or.inl rfl)

theorem dupd_toRoot (g : Graph) (w : Nat) (s : State) (f : WorkerD → WorkerD) (hf : ∀ d, (f d).path = [g.root] ∨ (f d).path = [])
    (hpc : ∀ d, (f d).pc = d.pc ∨ (f d).pc ≠ .done) : DUpd g w s (s.setWd w f) :=
  dupd_setWd g w s f (fun d _ x hx => by
    rcases hf d with h | h <;> rw [h] at hx <;> simp at hx) hpc

/-- the exit through the shared root -/
theorem dupd_exit (g : Graph) (w : Nat) (s : State) (h : isCleanupReady g s g.root w = true) :
    DUpd g w s (s.setWd w (fun d => { d with pc := .done, path := [] })) := by
  refine ⟨fun _ h => h, fun h => h, fun _ _ _ h => h, fun _ _ _ h => Or.inl h, ?_, fun _ => Or.inr h⟩
  intro _
  unfold TailOk
  rcases wd_setWd_cases s w (fun d => { d with pc := .done, path := [] }) with ⟨h', hlt⟩ | ⟨_, h'⟩
  · rw [h', wd_default_of_ge s w hlt]; intro x hx; simp at hx
  · rw [h']; intro x hx; simp at hx

theorem dupd_store (g : Graph) (w : Nat) (s : State) (st : List (String × List (String × String))) :
    DUpd g w s { s with store := st } :=
  DUpd.quiet (fun _ => rfl) rfl (fun _ => rfl) rfl rfl

theorem dupd_jobResults (g : Graph) (w : Nat) (s : State) (j : List (String × String × String × Nat)) :
    DUpd g w s { s with jobResults := j } :=
  DUpd.quiet (fun _ => rfl) rfl (fun _ => rfl) rfl rfl

theorem dupd_nextTag (g : Graph) (w : Nat) (s : State) (t : Nat) : DUpd g w s { s with nextTag := t } :=
  DUpd.quiet (fun _ => rfl) rfl (fun _ => rfl) rfl rfl

theorem dupd_incompatible (g : Graph) (w : Nat) (s : State) (l : List (Nat × Nat)) : DUpd g w s { s with incompatible := l } :=
  DUpd.quiet (fun _ => rfl) rfl (fun _ => rfl) rfl rfl

theorem dupd_hidden (g : Graph) (w : Nat) (s : State) (p : Nat → Bool) : DUpd g w s { s with hidden := s.hidden.filter p } :=
  ⟨fun _ h => h, fun h => by show s.hidden.filter p = []; rw [h]; rfl, fun _ _ _ h => h, fun _ _ _ h => Or.inl h, fun h => h,
    fun h => Or.inl h⟩

theorem dupd_foldl {β} (g : Graph) (w : Nat) (f : State → β → State) (h : ∀ s b, DUpd g w s (f s b))
    (l : List β) (s : State) : DUpd g w s (l.foldl f s) := by
  induction l generalizing s with
  | nil => exact DUpd.refl g w s
  | cons a r ih => simp only [List.foldl_cons]; exact (h s a).trans (ih _)

theorem dupd_disableRerun (g : Graph) (w : Nat) (s : State) (n : Nat) : DUpd g w s (disableRerun s n) :=
  dupd_setNd g w s n _ (fun _ => rfl)

theorem dupd_runDecision (g : Graph) (w : Nat) (s : State) (n v : Nat) (b : Bool) (s1 : State) (e1 : List Event)
    (h : runDecision g s n v = .ok (b, s1, e1)) : DUpd g w s s1 := by
  rcases runDecision_state g s n v b s1 e1 h with h | h
  · rw [h]; exact DUpd.refl g w s
  · rw [h]; exact dupd_disableRerun g w s n

theorem dupd_pullLocations (g : Graph) (w : Nat) (s : State) (n : Nat) : DUpd g w s (pullLocations g s n) := by
  unfold pullLocations
  split
  · exact DUpd.refl g w s
  · apply dupd_foldl
    rintro s ⟨p, vms⟩
    apply dupd_foldl
    intro s loc
    apply dupd_foldl
    intro s vm
    exact dupd_setNd g w s n _ (fun _ => rfl)

theorem dupd_syncStates (g : Graph) (w : Nat) (s : State) (n v : Nat) (rv : Option (List String)) :
    DUpd g w s (syncStates g s n v rv).1 := by
  unfold syncStates
  dsimp only
  split
  · exact DUpd.refl g w s
  · split
    · exact dupd_store g w s _
    · exact dupd_store g w s _

theorem dupd_finishTraverse (g : Graph) (w : Nat) (s : State) (n v : Nat) : DUpd g w s (finishTraverse s n v) :=
  dupd_setNd g w s n _ (fun _ => rfl)

theorem dupd_reverseNode (g : Graph) (w : Nat) (s : State) (n v : Nat) (s' : State) (evs : List Event)
    (h : reverseNode g s n v = .ok (s', evs)) : DUpd g w s s' := by
  unfold reverseNode at h
  by_cases hocc : isOccupied g s n v = true
  · simp only [hocc, if_true, Except.ok.injEq, Prod.mk.injEq] at h
    rw [← h.1]; exact DUpd.refl g w s
  · simp only [hocc, Bool.false_eq_true, if_false, ite_self] at h
    have h0 : DUpd g w s (s.setNd n (fun d => { d with started := some v })) := dupd_setNd g w s n _ (fun _ => rfl)
    cases hd : cleanDecision g (s.setNd n (fun d => { d with started := some v })) n v with
    | error e => simp [hd] at h
    | ok clean =>
      simp only [hd, Except.ok.injEq, Prod.mk.injEq] at h
      rw [← h.1]
      refine h0.trans (DUpd.trans ?_ (dupd_setNd g w _ n _ (fun _ => rfl)))
      split
      · exact dupd_syncStates g w _ n v none
      · exact DUpd.refl g w _

theorem dupd_pickChild (g : Graph) (hwf : GraphWF g) (w : Nat) (s : State) (n c : Nat) (s' : State)
    (h : pickChild g s n w = some (c, s')) : DUpd g w s (pushPath s' w c) := by
  obtain ⟨hrel, hc⟩ := pickChild_rel g s n w c s' h
  obtain ⟨p, hp, hpc⟩ := List.mem_map.mp hc
  have hlt : c < g.nodes.length := by rw [← hpc]; exact hwf.cleanup_lt n p hp
  unfold pickChild at h
  dsimp only at h
  split at h
  · simp at h
  · simp only [Option.some.injEq, Prod.mk.injEq] at h
    have h0 : DUpd g w s s' := by
      rw [← h.2]; exact dupd_setCr g w s _ _ (fun _ => rfl)
    exact h0.trans (dupd_pushPath g w s' c hlt hrel)

theorem dupd_pickParent (g : Graph) (hwf : GraphWF g) (w : Nat) (s : State) (n c : Nat) (s' : State)
    (h : pickParent g s n w = some (c, s')) : DUpd g w s (pushPath s' w c) := by
  obtain ⟨hrel, hc⟩ := pickParent_rel g s n w c s' h
  obtain ⟨p, hp, hpc⟩ := List.mem_map.mp hc
  have hlt : c < g.nodes.length := by rw [← hpc]; exact hwf.setup_lt n p hp
  unfold pickParent at h
  dsimp only at h
  split at h
  · simp at h
  · simp only [Option.some.injEq, Prod.mk.injEq] at h
    have h0 : DUpd g w s s' := by
      rw [← h.2]; exact dupd_setCr g w s _ _ (fun _ => rfl)
    exact h0.trans (dupd_pushPath g w s' c hlt hrel)

/-- one more registration of `w` in a `droppedCleanup` register, for a class `w` is through with -/
theorem dupd_addDropC (g : Graph) (w : Nat) (s : State) (cc c0 : Nat) (hw : Seen g s w c0) :
    DUpd g w s (s.setCr cc (fun r => { r with droppedCleanup := regAdd r.droppedCleanup (c0, w) })) := by
  have hm : MonoC s (s.setCr cc (fun r => { r with droppedCleanup := regAdd r.droppedCleanup (c0, w) })) := by
    intro c c' u h
    rcases Term.cr_setCr_cases s cc (fun r => { r with droppedCleanup := regAdd r.droppedCleanup (c0, w) }) c with h' | ⟨_, h'⟩
    · rw [h']; exact h
    · rw [h']; exact (Term.mem_regWorkers_regAdd _ c0 w c' u).mpr (Or.inl h)
  refine ⟨fun _ h => h, fun h => h, hm, fun c c' u h => ?_, fun h => h, fun h => Or.inl h⟩
  rcases Term.cr_setCr_cases s cc (fun r => { r with droppedCleanup := regAdd r.droppedCleanup (c0, w) }) c with h' | ⟨_, h'⟩
  · rw [h'] at h; exact Or.inl h
  · rw [h'] at h
    rcases (Term.mem_regWorkers_regAdd _ c0 w c' u).mp h with h1 | ⟨h1, h2⟩
    · exact Or.inl h1
    · refine Or.inr ⟨h1, ?_⟩
      rw [h2]
      exact hw.mono (fun _ h => h) hm

theorem dupd_dropChildren (g : Graph) (w : Nat) (next : Nat) (l : List (Nat × List String)) :
    ∀ s, Seen g s w (g.node next).cls → DUpd g w s (l.foldl (fun s (p, _) => dropChild g s p next w) s) := by
  induction l with
  | nil => intro s _; exact DUpd.refl g w s
  | cons a r ih =>
    intro s hs
    obtain ⟨p, vms⟩ := a
    simp only [List.foldl_cons]
    have h1 : DUpd g w s (dropChild g s p next w) := dupd_addDropC g w s _ _ hs
    exact h1.trans (ih _ (hs.mono h1.ne h1.mono))

/-- the decision "do not run" on a selected stateless copy: its class has a result -/
theorem runDecision_false_selected (g : Graph) (s : State) (n w : Nat) (s1 : State) (evs : List Event)
    (h : runDecision g s n w = .ok (false, s1, evs)) (hsel : selected g n = true) : sharedResults g s n ≠ [] := by
  unfold selected at hsel
  simp only [Bool.and_eq_true, Bool.not_eq_true'] at hsel
  obtain ⟨⟨⟨⟨c1, c2⟩, c3⟩, c4⟩, c6⟩ := hsel
  unfold runDecision at h
  dsimp only at h
  cases c5 : g.idIn w n
  all_goals simp only [c1, c2, c3, c4, c5, c6, Bool.false_eq_true, if_false, if_true, Bool.not_false, Bool.not_true,
    reduceCtorEq] at h
  unfold runDecisionStateless at h
  intro he
  rw [he] at h
  simp at h

/-! ### the walk -/

theorem dupd_setNd_ne (g : Graph) (w : Nat) (s : State) (m : Nat) (f : NodeD → NodeD)
    (hf : ∀ d, d.results ≠ [] → (f d).results ≠ []) : DUpd g w s (s.setNd m f) := by
  refine ⟨fun i h => ?_, fun h => h, fun _ _ _ h => h, fun _ _ _ h => Or.inl h, fun h => h, fun h => Or.inl h⟩
  rcases nd_setNd_cases s m f i with h' | ⟨_, _, h'⟩
  · rw [h']; exact h
  · rw [h']; exact hf _ h

theorem dupd_dropParent (g : Graph) (w : Nat) (s : State) (child parent v : Nat) : DUpd g w s (dropParent g s child parent v) := by
  unfold dropParent
  exact dupd_setCr g w s _ _ (fun _ => rfl)

theorem afterTraverse_dupd (g : Graph) (hwf : GraphWF g) (s : State) (w next prev : Nat) (dir : Dir)
    (hn : next < g.nodes.length) (hrel : relevant g w next = true) :
    DUpd g w s (afterTraverse g s w next prev dir).1 := by
  unfold afterTraverse
  cases hd : runDecision g s next w with
  | error e => exact DUpd.refl g w s
  | ok r =>
    obtain ⟨run, s1, evs⟩ := r
    have h1 : DUpd g w s s1 := dupd_runDecision g w s next w run s1 evs hd
    cases dir with
    | up =>
      dsimp only
      refine h1.trans (DUpd.trans ?_ (dupd_popPath g w _))
      split
      · exact dupd_dropParent g w s1 prev next w
      · exact DUpd.refl g w s1
    | down =>
      dsimp only
      cases run with
      | true =>
        simp only [if_true]
        exact h1.trans (dupd_popPath g w _)
      | false =>
        simp only [Bool.false_eq_true, if_false]
        by_cases hc : isCleanupReady g s1 next w = true
        · simp only [hc, if_true]
          by_cases hpp : (!(g.node next).flat && (s1.wd w).unexplored) = true
          · simp only [hpp, if_true]
            exact h1.trans (dupd_toRoot g w s1 _ (fun _ => Or.inl rfl) (fun _ => Or.inl rfl))
          simp only [hpp, Bool.false_eq_true, if_false]
          have hseen : Seen g s1 w (g.node next).cls :=
            ⟨next, hn, rfl, hrel, hc, fun hsel =>
              sharedResults_ne_mono g s s1 next h1.ne (runDecision_false_selected g s next w s1 evs hd hsel)⟩
          have h2 := dupd_dropChildren g w next (g.node next).setup s1 hseen
          cases hr : reverseNode g (List.foldl (fun s x => dropChild g s x.1 next w) s1 (g.node next).setup) next w with
          | error e => exact h1.trans h2
          | ok r =>
            obtain ⟨s2, evs2⟩ := r
            exact h1.trans (h2.trans ((dupd_reverseNode g w _ next w s2 evs2 hr).trans (dupd_popPath g w _)))
        · simp only [hc, Bool.false_eq_true, if_false]
          cases hp : pickChild g s1 next w with
          | none => exact h1
          | some r =>
            obtain ⟨c, s2⟩ := r
            exact h1.trans (dupd_pickChild g hwf w s1 next c s2 hp)

theorem startTest_dupd (g : Graph) (s : State) (n w : Nat) (ph : Phase) (dir : Dir) :
    DUpd g w s (startTest g s n w ph dir).1 := by
  by_cases hph : ph = .pre
  · subst hph
    rw [startTest_pre_fst]
    exact (dupd_nextTag g w s _).trans (dupd_setWd_path g w _ _ (fun _ => rfl) (fun _ => Or.inr (by simp)))
  · rw [startTest_nonpre_fst g s n w ph dir hph]
    refine (dupd_nextTag g w s _).trans (DUpd.trans (dupd_setNd_ne g w _ n _ ?_)
      (dupd_setWd_path g w _ _ (fun _ => rfl) (fun _ => Or.inr (by simp))))
    intro d _
    simp

theorem traverseNode_dupd (g : Graph) (hwf : GraphWF g) (s : State) (w next prev : Nat) (dir : Dir)
    (hn : next < g.nodes.length) (hrel : relevant g w next = true) :
    DUpd g w s (traverseNode g s w next prev dir).1 := by
  unfold traverseNode
  by_cases hocc : isOccupied g s next w = true
  · simp only [hocc, if_true]
    exact afterTraverse_dupd g hwf s w next prev dir hn hrel
  · simp only [hocc, Bool.false_eq_true, if_false]
    have h0 : DUpd g w s (pullLocations g (s.setNd next (fun d => { d with started := some w })) next) :=
      (dupd_setNd g w s next (fun d => { d with started := some w }) (fun _ => rfl)).trans (dupd_pullLocations g w _ next)
    cases hd : runDecision g (pullLocations g (s.setNd next (fun d => { d with started := some w })) next) next w with
    | error e => exact h0
    | ok r =>
      obtain ⟨run, s1, evs⟩ := r
      have h1 : DUpd g w s s1 := h0.trans (dupd_runDecision g w _ next w run s1 evs hd)
      dsimp only
      cases run with
      | true =>
        simp only [if_true]
        by_cases hroot : (g.node next).objectRoot = true
        · simp only [hroot, if_true]
          refine h1.trans (DUpd.trans ?_ (startTest_dupd g _ next w .pre dir))
          exact dupd_setWd_path g w s1 _ (fun _ => rfl) (fun _ => Or.inl rfl)
        · simp only [hroot, Bool.false_eq_true, if_false]
          exact h1.trans (startTest_dupd g s1 next w .plain dir)
      | false =>
        simp only [Bool.false_eq_true, if_false]
        exact h1.trans ((dupd_finishTraverse g w s1 next w).trans (afterTraverse_dupd g hwf _ w next prev dir hn hrel))

theorem getLast?_mem_tail {l : List Nat} {x : Nat} (h : l.getLast? = some x) (hl : ¬ l.length = 1) : x ∈ l.tail := by
  cases l with
  | nil => simp at h
  | cons a r =>
    cases r with
    | nil => simp at hl
    | cons b r' =>
      simp only [List.tail_cons]
      rw [List.getLast?_cons_cons] at h
      exact List.mem_of_getLast? h

theorem iter_dupd (g : Graph) (hwf : GraphWF g) (s : State) (w : Nat) (ht : TailOk g w s) : DUpd g w s (iter g s w).1 := by
  unfold iter
  dsimp only
  split
  · next hready =>
    split
    · exact dupd_exit g w s hready
    · exact DUpd.refl g w s
  · cases hl : (s.wd w).path.getLast? with
    | none => exact DUpd.refl g w s
    | some next =>
      dsimp only
      split
      · cases hp : pickChild g s next w with
        | none => exact DUpd.refl g w s
        | some r => obtain ⟨c, s2⟩ := r; exact dupd_pickChild g hwf w s next c s2 hp
      · next hlen =>
        have hmem : next ∈ (s.wd w).path.tail := getLast?_mem_tail hl (by simpa using hlen)
        obtain ⟨hn, hrel⟩ := ht next hmem
        split
        · -- bounce
          dsimp only
          refine DUpd.trans ?_ (dupd_toRoot g w _ _ (fun _ => Or.inl rfl) (fun _ => Or.inr (by simp)))
          split
          · refine DUpd.trans ?_ (dupd_setWd_path g w _ _ (fun _ => rfl) (fun _ => Or.inl rfl))
            split
            · exact dupd_setNd g w s next _ (fun _ => rfl)
            · exact DUpd.refl g w s
          · exact dupd_setWd_path g w s _ (fun _ => rfl) (fun _ => Or.inl rfl)
        · split
          · split
            · exact traverseNode_dupd g hwf s w next _ .up hn hrel
            · cases hp : pickParent g s next w with
              | none => exact DUpd.refl g w s
              | some r => obtain ⟨c, s2⟩ := r; exact dupd_pickParent g hwf w s next c s2 hp
          · split
            · split
              · cases hp : pickParent g s next w with
                | none => exact DUpd.refl g w s
                | some r => obtain ⟨c, s2⟩ := r; exact dupd_pickParent g hwf w s next c s2 hp
              · exact traverseNode_dupd g hwf s w next _ .down hn hrel
            · exact DUpd.refl g w s

theorem vis_nil (g : Graph) (s : State) (h : s.hidden = []) : vis g s = g := by
  unfold vis; simp [h]

theorem dupd_reveal (g : Graph) (w : Nat) (s : State) (f v : Nat) : DUpd g w s (reveal g s f v) := by
  unfold reveal
  dsimp only
  split
  · exact dupd_incompatible g w s _
  · exact dupd_hidden g w s _

theorem dupd_prepare (g : Graph) (w : Nat) (s : State) : DUpd g w s (prepare g s w) := by
  unfold prepare
  dsimp only
  cases (s.wd w).path.getLast? with
  | none => exact DUpd.refl g w s
  | some next =>
    dsimp only
    have h0 : DUpd g w s (s.setWd w (fun d => { d with unexplored := !(unexploredNodes (vis g s) s).isEmpty })) :=
      dupd_setWd_path g w s _ (fun _ => rfl) (fun _ => Or.inl rfl)
    split
    · exact h0.trans (dupd_reveal g w _ next w)
    · exact h0

theorem iterL_dupd (g : Graph) (hwf : GraphWF g) (s : State) (w : Nat) (hh : s.hidden = []) (ht : TailOk g w s) :
    DUpd g w s (iterL g s w).1 := by
  unfold iterL
  split
  · rw [vis_nil g s hh]; exact iter_dupd g hwf s w ht
  · dsimp only
    have h0 := dupd_prepare g w s
    rw [vis_nil g _ (h0.hid hh)]
    exact h0.trans (iter_dupd g hwf _ w (h0.tail ht))

theorem dupd_setPc (g : Graph) (w : Nat) (s : State) (pc : Pc) (hpc : pc ≠ .done) :
    DUpd g w s (s.setWd w (fun d => { d with pc := pc })) :=
  dupd_setWd_path g w s _ (fun _ => rfl) (fun _ => Or.inr hpc)

theorem runLoop_dupd (g : Graph) (hwf : GraphWF g) (w : Nat) (fuel : Nat) : ∀ (s : State) (evs : List Event),
    s.hidden = [] → TailOk g w s → DUpd g w s (runLoop g w fuel s evs).1 := by
  induction fuel with
  | zero => intro s evs _ _; exact DUpd.refl g w s
  | succ fuel ih =>
    intro s evs hh ht
    unfold runLoop
    dsimp only
    have h0 : DUpd g w s (s.setWd w (fun d => { d with pc := .loop })) := dupd_setPc g w s .loop (by simp)
    have he := iterL_dupd g hwf _ w (h0.hid hh) (h0.tail ht)
    rcases hi : iterL g (s.setWd w (fun d => { d with pc := .loop })) w with ⟨s1, e, f⟩
    rw [hi] at he
    have h01 : DUpd g w s s1 := h0.trans he
    cases f with
    | cont => dsimp only; exact h01.trans (ih s1 _ (h01.hid hh) (h01.tail ht))
    | suspend => exact h01
    | exit => exact h01
    | raise what => dsimp only; exact h01.trans (dupd_setPc g w s1 .failed (by simp))

theorem reportOutcome_dupd (g : Graph) (s : State) (w n : Nat) (ph : Phase) (uid : String) (wait : Nat) (out : Outcome) :
    DUpd g w s (reportOutcome g s w n ph uid wait out).1 := by
  unfold reportOutcome
  dsimp only
  split
  · split
    · split
      · exact (dupd_jobResults g w s _).trans (dupd_store g w _ _)
      · exact dupd_jobResults g w s _
    · exact DUpd.refl g w s
  · exact DUpd.refl g w s

theorem settle_ne (l : List Result) (res : Result) (tag : Nat) (hres : res.tag = 0) (htag : 1 ≤ tag) :
    (l ++ [res]).filter (fun r => !(r.status == "UNKNOWN" && r.tag == tag)) ≠ [] := by
  intro hnil
  have hmem : res ∈ (l ++ [res]).filter (fun r => !(r.status == "UNKNOWN" && r.tag == tag)) := by
    refine List.mem_filter.mpr ⟨List.mem_append_right _ (List.mem_singleton.mpr rfl), ?_⟩
    have : (res.tag == tag) = false := by rw [hres]; simp; omega
    simp [this]
  rw [hnil] at hmem
  cases hmem

theorem recordResult_dupd (g : Graph) (s : State) (w n : Nat) (ph : Phase) (name uid : String) (tag : Nat) (st0 : String)
    (dur : Nat) (htag : 1 ≤ tag) : DUpd g w s (recordResult s w n ph name uid tag st0 dur).1 := by
  unfold recordResult
  dsimp only
  have hX : ∀ (c : Bool) (jr : List (String × String × String × Nat)),
      DUpd g w s (if c = true then { s with jobResults := jr } else s) := by
    intro c jr; cases c
    · exact DUpd.refl g w s
    · exact dupd_jobResults g w s jr
  split
  · exact (hX _ _).trans (dupd_setWd_path g w _ _ (fun _ => rfl) (fun _ => Or.inl rfl))
  · refine (hX _ _).trans (dupd_setNd_ne g w _ n _ ?_)
    intro d _
    exact settle_ne _ _ _ rfl htag

theorem continueAfter_dupd (g : Graph) (hwf : GraphWF g) (w n : Nat) (ph : Phase) (dir : Dir) (fuel : Nat)
    (sc : State) (ok : Bool) (evs : List Event) (hh : sc.hidden = []) (ht : TailOk g w sc)
    (hn : n < g.nodes.length) (hrel : relevant g w n = true) :
    DUpd g w sc (resumeTest.continueAfter g w n ph dir fuel sc ok evs).1 := by
  unfold resumeTest.continueAfter
  dsimp only
  by_cases hc : (ph == Phase.pre && ok) = true
  · simp only [hc, if_true]
    exact startTest_dupd g sc n w .main dir
  · simp only [hc, Bool.false_eq_true, if_false]
    have hd : DUpd g w sc (if (ph == Phase.pre) = true then
          sc.setNd n (fun d => { d with results := d.results ++ List.drop d.results.length (sc.wd w).preResults })
        else sc) := by
      split
      · exact dupd_setNd_ne g w sc n _ (fun d h => by simp [h])
      · exact DUpd.refl g w sc
    generalize (if (ph == Phase.pre) = true then
          sc.setNd n (fun d => { d with results := d.results ++ List.drop d.results.length (sc.wd w).preResults })
        else sc) = sd at hd
    have h0 : DUpd g w sc (finishTraverse sd n w) := hd.trans (dupd_finishTraverse g w sd n w)
    rw [vis_nil g _ (h0.hid hh)]
    have h1 := afterTraverse_dupd g hwf (finishTraverse sd n w) w n ((sc.wd w).path.getD ((sc.wd w).path.length - 2) 0) dir hn hrel
    rcases hat : afterTraverse g (finishTraverse sd n w) w n ((sc.wd w).path.getD ((sc.wd w).path.length - 2) 0) dir with ⟨s2, e2, f⟩
    rw [hat] at h1
    have h01 : DUpd g w sc s2 := h0.trans h1
    cases f with
    | raise what => dsimp only; exact h01.trans (dupd_setPc g w s2 .failed (by simp))
    | cont => exact h01.trans (runLoop_dupd g hwf w fuel s2 _ (h01.hid hh) (h01.tail ht))
    | suspend => exact h01.trans (runLoop_dupd g hwf w fuel s2 _ (h01.hid hh) (h01.tail ht))
    | exit => exact h01.trans (runLoop_dupd g hwf w fuel s2 _ (h01.hid hh) (h01.tail ht))

theorem resumeTest_dupd (g : Graph) (hwf : GraphWF g) (s : State) (w n : Nat) (ph : Phase) (dir : Dir) (uid : String)
    (tag wait : Nat) (out : Outcome) (fuel : Nat) (hh : s.hidden = []) (ht : TailOk g w s)
    (hn : n < g.nodes.length) (hrel : relevant g w n = true) (htag : 1 ≤ tag) :
    DUpd g w s (resumeTest g s w n ph dir uid tag wait out fuel).1 := by
  rw [resumeTest_eq]
  have hA := reportOutcome_dupd g s w n ph uid wait out
  generalize (reportOutcome g s w n ph uid wait out) = ra at hA
  split
  · next st0 dur _ =>
    have hB := recordResult_dupd g ra.1 w n ph (if (ph == Phase.pre) = true then (s.wd w).preName else (g.node n).name)
      uid tag st0 dur htag
    have hAB := hA.trans hB
    exact hAB.trans (continueAfter_dupd g hwf w n ph dir fuel _ _ _ (hAB.hid hh) (hAB.tail ht) hn hrel)
  · split
    · exact hA.trans (dupd_setPc g w _ _ (by simp))
    · split
      · exact hA.trans (dupd_setPc g w _ _ (by simp))
      · exact hA.trans (continueAfter_dupd g hwf w n ph dir fuel _ _ _ (hA.hid hh) (hA.tail ht) hn hrel)

theorem resume_dupd (g : Graph) (hwf : GraphWF g) (s : State) (w : Nat) (out : Outcome) (fuel : Nat)
    (hh : s.hidden = []) (ht : TailOk g w s)
    (hpc : ∀ n ph dir uid tag wait, (s.wd w).pc = .test n ph dir uid tag wait →
      n < g.nodes.length ∧ relevant g w n = true ∧ 1 ≤ tag) :
    DUpd g w s (resume g s w out fuel).1 := by
  unfold resume
  split
  · exact runLoop_dupd g hwf w fuel s [] hh ht
  · exact runLoop_dupd g hwf w fuel s [] hh ht
  · next n ph dir uid tag wait heq =>
    obtain ⟨h1, h2, h3⟩ := hpc n ph dir uid tag wait heq
    exact resumeTest_dupd g hwf s w n ph dir uid tag wait out fuel hh ht h1 h2 h3
  · exact DUpd.refl g w s
  · exact DUpd.refl g w s

/-! ### the invariant and the end of a run -/

structure DInv (g : Graph) (s : State) : Prop where
  hid : s.hidden = []
  /-- a worker registered as having dropped a child class is through with a copy of that class -/
  seen : ∀ c c' v, v ∈ regWorkers (s.cr c).droppedCleanup (some c') → Seen g s v c'
  /-- a worker left through the root only when the root was cleanup-ready for it -/
  done : ∀ v, (s.wd v).pc = .done → isCleanupReady g s g.root v = true

theorem DInv.upd {g : Graph} {w : Nat} {s s' : State} (h : DInv g s) (a : DUpd g w s s')
    (hoth : ∀ v, v ≠ w → s'.wd v = s.wd v) : DInv g s' where
  hid := a.hid h.hid
  seen := fun c c' v hv => by
    rcases a.new c c' v hv with h1 | ⟨h1, h2⟩
    · exact (h.seen c c' v h1).mono a.ne a.mono
    · rw [h1]; exact h2
  done := fun v hv => by
    by_cases hvw : v = w
    · subst hvw
      rcases a.done hv with h1 | h1
      · exact isCleanupReady_mono g s s' g.root v a.mono (h.done v h1)
      · exact h1
    · rw [hoth v hvw] at hv
      exact isCleanupReady_mono g s s' g.root v a.mono (h.done v hv)

theorem init_cr (g : Graph) (ncls : Nat) (store : List (String × List (String × String))) (hidden : List Nat) (c : Nat) :
    (initState g ncls store hidden).cr c = {} := by
  unfold initState State.cr
  simp only [List.getD_eq_getElem?_getD, List.getElem?_map]
  cases (List.range ncls)[c]? <;> rfl

theorem DInv.init (g : Graph) (ncls : Nat) (store : List (String × List (String × String))) :
    DInv g (initState g ncls store []) where
  hid := rfl
  seen := fun c c' v hv => by
    rw [init_cr] at hv
    simp [regWorkers] at hv
  done := fun v hv => by
    rw [init_pc'] at hv; cases hv

theorem pathOK_tail {R : Nat → Nat → Prop} {P : Nat → Prop} {root : Nat} {p : List Nat} (h : PathOK R P root p) :
    ∀ x ∈ p.tail, P x := by
  induction h with
  | root => intro x hx; simp at hx
  | push p last c _ hl _ hP ih =>
    intro x hx
    cases p with
    | nil => simp at hl
    | cons a l =>
      simp only [List.cons_append, List.tail_cons, List.mem_append, List.mem_singleton] at hx
      rcases hx with hx | hx
      · exact ih x (by simpa using hx)
      · rw [hx]; exact hP

theorem tail_of_pinv {g : Graph} {s : State} (b : Basic g s All) (p : PInv g s) (v : Nat) (hv : v < g.workers.length) :
    TailOk g v s := by
  intro x hx
  refine ⟨b.paths v x (List.mem_of_mem_tail hx), ?_⟩
  rcases p.path v (by rw [b.workersLen]; exact hv) with ⟨h, _⟩ | h
  · rw [h] at hx; simp at hx
  · exact pathOK_tail h x hx

theorem relevant_of_idIn {g : Graph} {w n : Nat} (h : g.idIn w n = true) : relevant g w n = true := by
  unfold relevant; rw [h]; simp

theorem dinv_step {g : Graph} (hwf : GraphWF g) {s : State} (b : Basic g s All) (p : PInv g s) (d : DInv g s)
    (w : Nat) (out : Outcome) (fuel : Nat) (hw : w < g.workers.length) (hf : 0 < fuel) :
    DInv g (resume g s w out fuel).1 := by
  have hws : w < s.workers.length := by rw [b.workersLen]; exact hw
  refine d.upd (resume_dupd g hwf s w out fuel d.hid (tail_of_pinv b p w hw) ?_)
    (resume_others' g hwf s w out fuel hf hws (b.paths w))
  intro n ph dir uid tag wait heq
  have hok := b.pcOK w n ph dir uid tag wait trivial heq
  exact ⟨hok.1, relevant_of_idIn (p.testOwn w n (by rw [heq]; rfl)).1, hok.2.1⟩

theorem dinv_run {g : Graph} (hwf : graphWF g = true) (hsym : EdgeSym g) (ncls : Nat)
    (store : List (String × List (String × String))) (steps : List StepN) : ∀ s, ReachableR g ncls store s →
    ReachableF g ncls store s → DInv g s → (∀ x ∈ steps, x.1 < g.workers.length) → (∀ x ∈ steps, 0 < x.2.2) →
    DInv g (runStepsN g s steps) := by
  induction steps with
  | nil => intro s _ _ d _ _; exact d
  | cons x rest ih =>
    intro s hR hF d hreal hfuel
    rw [runStepsN_cons]
    have hx := hreal x (List.mem_cons_self ..)
    have hfx := hfuel x (List.mem_cons_self ..)
    exact ih _ (.step x.1 x.2.1 x.2.2 hR hx hfx) (.step s x.1 x.2.1 x.2.2 hF hx hfx)
      (dinv_step (GraphWF.of_bool hwf) (hR.basic hwf) (hF.pinv hsym) d x.1 x.2.1 x.2.2 hx hfx)
      (fun y hy => hreal y (List.mem_cons_of_mem _ hy)) (fun y hy => hfuel y (List.mem_cons_of_mem _ hy))

theorem cleanup_ready_iff (g : Graph) (s : State) (n w : Nat) :
    isCleanupReady g s n w = true ↔
      ∀ c ∈ (g.node n).cleanup, relevant g w c.1 = true →
        w ∈ regWorkers (s.cr (g.node n).cls).droppedCleanup (some (g.node c.1).cls) := by
  unfold isCleanupReady
  rw [List.all_eq_true]
  constructor
  · intro h c hc hrel
    have := h c hc
    obtain ⟨c1, vms⟩ := c
    simp only at this hrel ⊢
    simpa [hrel] using this
  · intro h c hc
    obtain ⟨c1, vms⟩ := c
    simp only
    cases hrel : relevant g w c1
    · simp
    · have := h (c1, vms) hc hrel
      simpa using this

/-- the copies below the shared root that worker `w` is responsible for: reachable from the root through children `w`
cares for -/
inductive Below (g : Graph) (w : Nat) : Nat → Prop
  | root : Below g w g.root
  | child {p c : Nat} (vms : List String) : Below g w p → (c, vms) ∈ (g.node p).cleanup → relevant g w c = true → Below g w c

/-- In a state with the invariant in which the root is cleanup-ready for `w` (e.g. `w` is `done`): every copy `w` is
responsible for is cleanup-ready for `w`, and every such copy other than the root that is a selected stateless test has a
result in its class. -/
theorem below_done {g : Graph} (hwf : GraphWF g) {s : State} (d : DInv g s) (w : Nat) (hinj : Term.ClassInj g w)
    (hready : isCleanupReady g s g.root w = true) (n : Nat) (hb : Below g w n) :
    isCleanupReady g s n w = true ∧ (n ≠ g.root → selected g n = true → sharedResults g s n ≠ []) := by
  induction hb with
  | root => exact ⟨hready, fun h => absurd rfl h⟩
  | @child p c vms _ hc hrel ih =>
    have hreg := (cleanup_ready_iff g s p w).mp ih.1 (c, vms) hc hrel
    obtain ⟨p', h1, h2, h3, h4, h5⟩ := d.seen _ _ _ hreg
    have hclt : c < g.nodes.length := hwf.cleanup_lt p (c, vms) hc
    have : p' = c := hinj p' c h1 hclt h3 hrel h2
    subst this
    exact ⟨h4, fun _ hs => h5 hs⟩

end I2N.Trav.Definite
