import I2N.Lemmas.PolicyGen
/-! Equality of the regenerated `push_states` / `pop_states` iteration with the hand model.

Robustness note: the first version of this file began with `unfold genPushOne pushOne M.run`.  `unfold M.run` closes by a
definitional cast (`M.run x s` is `x s` by `rfl`), so the KERNEL had to check
`outOf (M.run (genPushOne B) s) = _  =?=  outOf (genPushOne B s) = _`; its lazy unfolding opens the side with the
bigger definitional height first, i.e. the whole generated `do` block (binds, `pySplitChar`, `List.foldl` over the zip,
`doStates` …) before it ever opens the one-line `M.run`: ~3 min of type checking for a 20 line proof (measured: the
statement + `unfold M.run; sorry` alone takes that long).  Rewriting with the proved equation `M.run_ap` instead gives a
`congrArg` term whose type the kernel matches syntactically: 17 ms. -/
set_option linter.unusedSimpArgs false
set_option linter.unusedVariables false
namespace I2N.PolicyGen
open I2N.Policy I2N.PolicyM I2N.Extracted.Policy I2N.Extracted.GenPolicy

/-- `M.run` as a rewrite rule (never `unfold M.run` on a generated definition: see the note at the top) -/
theorem M.run_ap {α : Type} (x : M α) (s : PS) : x.run s = x s := rfl

/-- the five statements "restrict parametric objects of this type in the subroutine" are the hand model's `restrict` -/
theorem restrict_def (sp : Params) :
    (List.foldl (fun acc tn => acc.set tn.1 tn.2) sp
        ((pySplitChar '/' (sp.getD "object_type" "")).zip (pySplitChar '/' (sp.getD "object_name" "")))).set
      "states_chain" ((pySplitChar '/' (sp.getD "object_type" "")).getLast?.getD "") = restrict sp := by
  simp only [restrict, splitSlash, pySplitChar, typeOf]

theorem outOf_eta {α : Type} (r : Except Err α × St) (sp rp : Params) :
    outOf (M.bindF (r.1, ({ sp := sp, rp := rp, st := r.2 } : PS)) fun _ => (pure () : M Unit)) =
      ((r.1.map fun _ => ()), r.2) := by
  rcases r with ⟨e | a, s⟩ <;> rfl

theorem pushOne_eq (B : Backends) (sp rp : Params) (st : St)
    (hk : (restrict sp).getD "push_state" "" = sp.getD "push_state" "") :
    outOf ((genPushOne B).run ⟨sp, rp, st⟩) = pushOne B sp st := by
  rw [M.run_ap]
  unfold genPushOne pushOne
  rcases ht : sp.truthy "push_state" with _ | state <;> m_simp [ht]
  have hs := truthy_getD ht
  by_cases hr : roots.contains state = true
  · have hr' := hr
    simp only [roots] at hr'
    m_simp [hs, hr, hr']
  · have hr' := hr
    simp only [roots] at hr'
    m_simp [hs, hr, hr', restrict_def, hk, pushParams, dPushMode]
    generalize doStates B Do.set _ st = r
    rcases r with ⟨e | a, s⟩ <;> rfl

/-- the key `pop_state` is still what it was when `pop_states` reads it for the second time (after `get_state`,
`get_mode` were written and `get_states` returned) -/
theorem popGetParams_pop_state (sp : Params) (state : String)
    (hk : (restrict sp).getD "pop_state" "" = sp.getD "pop_state" "") :
    (popGetParams sp state).getD "pop_state" "" = sp.getD "pop_state" "" := by
  unfold popGetParams
  rw [Params.getD_set_ne _ _ _ (by decide), Params.getD_set_ne _ _ _ (by decide), hk]

theorem popOne_eq (B : Backends) (sp rp : Params) (st : St)
    (hk : (restrict sp).getD "pop_state" "" = sp.getD "pop_state" "") :
    outOf ((genPopOne B).run ⟨sp, rp, st⟩) = popOne B sp st := by
  rw [M.run_ap]
  unfold genPopOne popOne
  rcases ht : sp.truthy "pop_state" with _ | state <;> m_simp [ht]
  have hs := truthy_getD ht
  by_cases hr : roots.contains state = true
  · have hr' := hr
    simp only [roots] at hr'
    m_simp [hs, hr, hr']
  · have hr' := hr
    simp only [roots] at hr'
    have hp := popGetParams_pop_state sp state hk
    rw [hs] at hp
    unfold popGetParams dPopGetMode at hp
    m_simp [hs, hr, hr', restrict_def, hk, popGetParams, popUnsetParams, dPopGetMode, dPopUnsetMode]
    generalize hg : doStates B Do.get _ st = r
    rcases r with ⟨e | a, s1⟩
    · rfl
    · m_simp [hp]
      generalize doStates B Do.unset _ s1 = r2
      rcases r2 with ⟨e | a, s⟩ <;> rfl

end I2N.PolicyGen
