import I2N.Lemmas.PolicyGen
/-! Equality of the regenerated `push_states` / `pop_states` iteration with the hand model. -/
set_option linter.unusedSimpArgs false
set_option linter.unusedVariables false
namespace I2N.PolicyGen
open I2N.Policy I2N.PolicyM I2N.Extracted.Policy I2N.Extracted.GenPolicy

/-- the five statements "restrict parametric objects of this type in the subroutine" are the hand model's `restrict` -/
theorem restrict_def (sp : Params) :
    (List.foldl (fun acc tn => acc.set tn.1 tn.2) sp
        ((pySplitChar '/' (sp.getD "object_type" "")).zip (pySplitChar '/' (sp.getD "object_name" "")))).set
      "states_chain" ((pySplitChar '/' (sp.getD "object_type" "")).getLast?.getD "") = restrict sp := by
  simp only [restrict, splitSlash, pySplitChar, typeOf]

theorem outOf_eta {α : Type} (r : Except Err α × St) (sp rp : Params) :
    outOf (M.bindF (r.1, ({ sp := sp, rp := rp, st := r.2 } : PS)) fun _ => (pure () : M Unit)) =
      ((r.1.map fun _ => ()), r.2) := by
  rcases r with ⟨e | a, s⟩ <;> rfl

theorem pushOne_eq (B : Backends) (sp rp : Params) (st : St)
    (hk : (restrict sp).getD "push_state" "" = sp.getD "push_state" "") :
    outOf ((genPushOne B).run ⟨sp, rp, st⟩) = pushOne B sp st := by
  unfold genPushOne pushOne M.run
  rcases ht : sp.truthy "push_state" with _ | state <;> m_simp [ht]
  have hs := truthy_getD ht
  by_cases hr : roots.contains state = true
  · have hr' := hr
    simp only [roots] at hr'
    m_simp [hs, hr, hr']
  · have hr' := hr
    simp only [roots] at hr'
    m_simp [hs, hr, hr', restrict_def, hk, pushParams, dPushMode]
    generalize doStates B Do.set _ st = r
    rcases r with ⟨e | a, s⟩ <;> rfl

end I2N.PolicyGen
