import I2N.Extracted.GenPolicy
import I2N.Lemmas.Policy
/-! Equality of the definitions regenerated from `avocado_i2n/states/setup.py` (`I2N.Extracted.GenPolicy`) with the
hand model `I2N.Policy`: helper lemmas. -/
set_option linter.unusedSimpArgs false
set_option linter.unusedVariables false
namespace I2N.PolicyGen
open I2N.Policy I2N.PolicyM I2N.Extracted.Policy I2N.Extracted.GenPolicy

/-- Python compares one character strings, the hand model compares characters -/
theorem letter_beq (ch c : Char) : (String.ofList [ch] == String.ofList [c]) = (c == ch) := by
  rw [Bool.eq_iff_iff, beq_iff_eq, beq_iff_eq]
  constructor
  · intro h2
    have := congrArg String.toList h2
    simp at this
    exact this.symm
  · intro h; rw [h]

theorem letter_beq' (ch c : Char) : (String.ofList [c] == String.ofList [ch]) = (c == ch) := by
  rw [letter_beq, Bool.eq_iff_iff, beq_iff_eq, beq_iff_eq]; exact eq_comm

theorem lit_a (c : Char) : ("a" == String.ofList [c]) = (c == 'a') := letter_beq 'a' c
theorem lit_i (c : Char) : ("i" == String.ofList [c]) = (c == 'i') := letter_beq 'i' c
theorem lit_r (c : Char) : ("r" == String.ofList [c]) = (c == 'r') := letter_beq 'r' c
theorem lit_f (c : Char) : ("f" == String.ofList [c]) = (c == 'f') := letter_beq 'f' c
theorem lit_f' (c : Char) : (String.ofList [c] == "f") = (c == 'f') := letter_beq' 'f' c
theorem lit_r' (c : Char) : (String.ofList [c] == "r") = (c == 'r') := letter_beq' 'r' c

theorem chainParams_mid (d : Do) (sp : Params) : chainParams d sp = restrict (midP d sp) := rfl

theorem midP_getD (d : Do) (sp : Params) (k dflt : String)
    (hk : k ≠ "check_state" ∧ k ≠ "show_location" ∧ k ≠ "check_opts" ∧ k ≠ "soft_boot") :
    (midP d sp).getD k dflt = sp.getD k dflt := by
  obtain ⟨h1, h2, h3, h4⟩ := hk
  unfold midP
  cases d <;> simp only [reduceCtorEq, if_true, if_false] <;> split <;>
    simp [Params.getD_set, Ne.symm h1, Ne.symm h2, Ne.symm h3, Ne.symm h4]

/-- the type and the name `_state_check_chain` is handed are the ones the hand model re-reads from the dictionary -/
theorem chainParamsWith_eq (d : Do) (sp : Params) :
    chainParamsWith d (sp.getD "object_type" "") (sp.getD "object_name" "")
      (sp.set d.modeKey (sp.getD d.modeKey d.dMode)) = doParams d sp := by
  unfold doParams chainParamsWith
  rw [chainParams_mid]
  unfold restrict restrictWith typeOf
  rw [midP_getD _ _ _ _ (by decide), midP_getD _ _ _ _ (by decide)]
  cases d <;> simp [Params.getD_set, Do.modeKey]

theorem truthy_getD {sp : Params} {k v : String} (h : sp.truthy k = some v) : sp.getD k "" = v := by
  unfold Params.truthy at h
  unfold Params.getD
  cases hg : sp.get? k with
  | none => simp [hg] at h
  | some w =>
    simp only [hg] at h
    split at h
    · simp at h
    · simpa using h

theorem foldl_set_getD (l : List (String × String)) (sp : Params) (k dflt : String) (h : ∀ tn ∈ l, tn.1 ≠ k) :
    (l.foldl (fun acc tn => acc.set tn.1 tn.2) sp).getD k dflt = sp.getD k dflt := by
  induction l generalizing sp with
  | nil => rfl
  | cons a rest ih =>
    rw [List.foldl_cons, ih _ (fun tn hm => h tn (List.mem_cons_of_mem _ hm)),
      Params.getD_set_ne _ _ _ (h a List.mem_cons_self)]

/-- `restrict` leaves a key alone that is neither `states_chain` nor a component of the object type -/
theorem restrict_getD (sp : Params) (k dflt : String) (h1 : k ≠ "states_chain") (h2 : k ∉ splitSlash (typeOf sp)) :
    (restrict sp).getD k dflt = sp.getD k dflt := by
  unfold restrict
  rw [Params.getD_set_ne _ _ _ (Ne.symm h1)]
  apply foldl_set_getD
  intro tn hm heq
  exact h2 (heq ▸ (List.of_mem_zip hm).1)

/-- the state key survives `_state_check_chain` when no component of the object type is called like it -/
theorem doParams_stateKey (d : Do) (sp : Params) (h : d.stateKey ∉ splitSlash (typeOf sp)) :
    (doParams d sp).getD d.stateKey "" = sp.getD d.stateKey "" := by
  unfold doParams
  rw [chainParams_mid, restrict_getD _ _ _ (by cases d <;> decide)]
  · rw [midP_getD _ _ _ _ (by cases d <;> decide)]
    cases d <;> exact Params.getD_set_ne _ _ _ (by decide)
  · unfold typeOf
    rw [midP_getD _ _ _ _ (by decide)]
    have : (sp.set d.modeKey (sp.getD d.modeKey d.dMode)).getD "object_type" "" = sp.getD "object_type" "" := by
      cases d <;> exact Params.getD_set_ne _ _ _ (by decide)
    rw [this]; exact h

/-- one step of the generated `do` blocks -/
macro "m_simp" " [" ts:Lean.Parser.Tactic.simpLemma,* "]" : tactic => `(tactic|
  simp only [M.bind_ap, M.pure_ap, M.throw_ap, M.ite_ap, M.bindF_ok, M.bindF_error, rd, setP, setRP, copyRootM,
    getBoolM, letterM, backendM, vmM, onSt, onRSt, bGetM, bSetM, bUnsetM, bGetRootM, bSetRootM, bUnsetRootM, bCheckRootM,
    bShowM, bGetRootRM, bSetRootRM, bUnsetRootRM, destroyRM, chainM, doStatesM, zipSetM, outOf_mk, outOf_ite, truthyP,
    Bool.not_true, Bool.not_false, Bool.true_and, Bool.false_and, Bool.and_true, Bool.and_false, if_true, if_false,
    Bool.false_eq_true, ite_true, ite_false, reduceIte, Option.isSome_none, Option.isSome_some, $ts,*])


-- everything behind the two guards of `get_states` / `set_states` / `unset_states` (progressive: every case
-- split is followed by one simplification step of the goal)
set_option hygiene false in
local macro "do_tail" d:term "," sk:str "," mk:str : tactic => `(tactic| (
  rcases ht : sp.truthy $sk with _ | state <;> m_simp [ht, Do.stateKey, hcp]
  rcases hc : checkStates B (doParams $d sp) st with ⟨r, st1⟩
  rcases r with e | exist <;> m_simp []
  rcases hb : backendOf B (doParams $d sp) with e | ⟨b, sourced⟩ <;> m_simp []
  rcases hv : (doParams $d sp).get? "vms" with _ | v <;> m_simp []
  rcases hm : ((doParams $d sp).getD $mk "").toList with _ | ⟨c1, _ | ⟨c2, rest⟩⟩ <;>
    m_simp [Do.modeKey, letters, hm, List.getElem?_nil, List.getElem?_cons_zero, List.getElem?_cons_succ]
  have hs := truthy_getD ht
  have hu : ((doParams $d sp).set "unset_state" state).getD "set_state" "" = (doParams $d sp).getD "set_state" "" :=
    Params.getD_set_ne _ _ _ (by decide)
  cases exist <;> cases sourced
  all_goals m_simp [act, getAct, setAct, unsetAct, lit_a, lit_i, lit_r, lit_f, hk, hs, hu, roots, bCheckRoot,
      Bool.not_eq_true']
  all_goals (repeat' split)
  all_goals first | rfl | simp_all))

set_option hygiene false in
local macro "do_head" : tactic => `(tactic| (
  by_cases h1 : (sp.objects "skip_types").contains (sp.getD "object_type" "") = true <;>
    m_simp [h1, guardSkip, typeOf, readonlyType]
  by_cases h2 : (sp.getD "object_type" "" == "nets/vms/images") = true <;> m_simp [h2]))

theorem getOne_eq (B : Backends) (sp rp : Params) (st : St)
    (hk : (doParams .get sp).getD "get_state" "" = sp.getD "get_state" "") :
    outOf ((genGetOne B).run ⟨sp, rp, st⟩) = doOne B .get sp st := by
  unfold genGetOne doOne M.run
  have hcp := chainParamsWith_eq .get sp
  simp only [Do.modeKey, Do.dMode, dGetMode] at hcp
  do_head
  · rcases h3 : boolParam (sp.get? "image_readonly") with e3 | (_ | _) <;> m_simp []
    do_tail Do.get, "get_state", "get_mode"
  · do_tail Do.get, "get_state", "get_mode"

theorem unsetOne_eq (B : Backends) (sp rp : Params) (st : St)
    (hk : (doParams .unset sp).getD "unset_state" "" = sp.getD "unset_state" "") :
    outOf ((genUnsetOne B).run ⟨sp, rp, st⟩) = doOne B .unset sp st := by
  unfold genUnsetOne doOne M.run
  have hcp := chainParamsWith_eq .unset sp
  simp only [Do.modeKey, Do.dMode, dUnsetMode] at hcp
  do_head
  · rcases h3 : boolParam (sp.get? "image_readonly") with e3 | (_ | _) <;> m_simp []
    do_tail Do.unset, "unset_state", "unset_mode"
  · do_tail Do.unset, "unset_state", "unset_mode"

theorem setOne_eq (B : Backends) (sp rp : Params) (st : St)
    (hk : (doParams .set sp).getD "set_state" "" = sp.getD "set_state" "") :
    outOf ((genSetOne B).run ⟨sp, rp, st⟩) = doOne B .set sp st := by
  unfold genSetOne doOne M.run
  have hcp := chainParamsWith_eq .set sp
  simp only [Do.modeKey, Do.dMode, dSetMode] at hcp
  do_head
  · rcases h3 : boolParam (sp.get? "image_readonly") with e3 | (_ | _) <;> m_simp []
    do_tail Do.set, "set_state", "set_mode"
  · do_tail Do.set, "set_state", "set_mode"

theorem checkDefaults_eq (sp : Params) :
    (sp.set "check_opts" (sp.getD "check_opts" "soft_boot=yes")).set "check_mode"
      ((sp.set "check_opts" (sp.getD "check_opts" "soft_boot=yes")).getD "check_mode" "rf") = checkDefaults sp := by
  unfold checkDefaults dCheckOpts dCheckMode
  rw [Params.getD_set_ne _ _ _ (by decide)]

theorem typeOf_checkDefaults (sp : Params) : (checkDefaults sp).getD "object_type" "" = sp.getD "object_type" "" := by
  unfold checkDefaults
  rw [Params.getD_set_ne _ _ _ (by decide), Params.getD_set_ne _ _ _ (by decide)]

set_option hygiene false in
local macro "check_tail" : tactic => `(tactic| (
  rcases ht : sp.truthy "check_state" with _ | state <;> m_simp [ht, hcd]
  rcases hb : backendOf B (checkDefaults sp) with e | ⟨b, sourced⟩ <;> m_simp []
  rcases hv : (checkDefaults sp).get? "vms" with _ | v <;> m_simp []
  rcases hm : ((checkDefaults sp).getD "check_mode" "").toList with _ | ⟨c1, _ | ⟨c2, rest⟩⟩ <;>
    m_simp [letters, hm, List.getElem?_nil, List.getElem?_cons_zero, List.getElem?_cons_succ]
  have hs := truthy_getD ht
  m_simp [checkCore, rootPhase, bCheckRoot, bShow, lit_f', lit_r', hs, roots, rootScope, destroyType, typeOf, htd]
  by_cases hroot : (st.store.obj (keyOf (checkDefaults sp))).root = true <;>
    by_cases hc2 : (c2 == 'f') = true <;> by_cases hc2' : (c2 == 'r') = true <;> by_cases hc1 : (c1 == 'f') = true <;>
    by_cases hty : (sp.getD "object_type" "" == "nets/vms") = true <;>
    m_simp [hroot, hc2, hc2', hc1, hty] <;> (repeat' split) <;> first | rfl | simp_all))

theorem checkOne_eq (B : Backends) (sp rp : Params) (st : St) :
    outOf ((genCheckOne B).run ⟨sp, rp, st⟩) = checkOne B sp st := by
  unfold genCheckOne checkOne M.run
  have hcd := checkDefaults_eq sp
  have htd := typeOf_checkDefaults sp
  do_head
  · rcases h3 : boolParam (sp.get? "image_readonly") with e3 | (_ | _) <;> m_simp []
    check_tail
  · check_tail

end I2N.PolicyGen
