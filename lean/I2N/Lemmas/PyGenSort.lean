import I2N.Model.Trav
/-!
# Support for the translator tie of `pick_parent` / `pick_child` / `is_*_ready`

* a search loop behind a `continue` guard is an `all`;
* Python sorts three times with a stable sort (`sorted(…, key=…)`), least significant key first; the hand model sorts
  once with the lexicographic key.  `stableSort_comp`: a stable sort by a key after a stable sort by a total preorder
  is the stable sort by the lexicographic combination — for the insertion sort of the model, any list.
-/
namespace I2N.PyGenSort
open I2N.Trav

/-- a search loop for a counterexample behind a `continue` guard is an `all` -/
theorem find_guard_all (l : List Nat) (skip bad : Nat → Bool) :
    ((l.filter (fun p => !skip p)).find? bad).isNone = l.all (fun p => skip p || !bad p) := by
  induction l with
  | nil => rfl
  | cons a r ih =>
    cases hs : skip a
    · have h1 : (a :: r).filter (fun p => !skip p) = a :: r.filter (fun p => !skip p) := by
        simp [hs]
      rw [h1, List.find?_cons]
      cases hb : bad a
      · simp only [List.all_cons, hs, hb, Bool.false_or, Bool.not_false, Bool.true_and]; exact ih
      · simp [List.all_cons, hs, hb]
    · have h1 : (a :: r).filter (fun p => !skip p) = r.filter (fun p => !skip p) := by
        simp [hs]
      rw [h1]; simp only [List.all_cons, hs, Bool.true_or, Bool.true_and]; exact ih

/-- the order of a stable sort by key `k` -/
def keyOrd (k : Nat → Nat) (a b : Nat) : Bool := decide (k a ≤ k b)

/-- key `k` first, ties by `le` -/
def lexLe (k : Nat → Nat) (le : Nat → Nat → Bool) (a b : Nat) : Bool :=
  decide (k a < k b) || (k a == k b && le a b)

theorem stableSort_cons (le : Nat → Nat → Bool) (a : Nat) (l : List Nat) :
    stableSort le (a :: l) = insertBy le a (stableSort le l) := rfl

/-- inserting where the two orders agree on every element of the list -/
theorem insertBy_congr (le le' : Nat → Nat → Bool) (a : Nat) (l : List Nat) (h : ∀ x ∈ l, le a x = le' a x) :
    insertBy le a l = insertBy le' a l := by
  induction l with
  | nil => rfl
  | cons b r ih =>
    simp only [insertBy]
    rw [h b (by simp), ih (fun x hx => h x (by simp [hx]))]

theorem mem_insertBy (le : Nat → Nat → Bool) (a x : Nat) (l : List Nat) : x ∈ insertBy le a l ↔ x = a ∨ x ∈ l := by
  induction l with
  | nil => simp [insertBy]
  | cons b r ih =>
    simp only [insertBy]
    split
    · simp
    · simp only [List.mem_cons, ih]
      constructor
      · rintro (h | h | h)
        · exact Or.inr (Or.inl h)
        · exact Or.inl h
        · exact Or.inr (Or.inr h)
      · rintro (h | h | h)
        · exact Or.inr (Or.inl h)
        · exact Or.inl h
        · exact Or.inr (Or.inr h)

theorem mem_stableSort (le : Nat → Nat → Bool) (x : Nat) (l : List Nat) : x ∈ stableSort le l ↔ x ∈ l := by
  induction l with
  | nil => simp [stableSort]
  | cons a r ih => rw [stableSort_cons, mem_insertBy, ih]; simp

/-- the two insertions commute when `b` (inserted by key only) comes strictly before `a` in the tie order -/
theorem insertBy_comm (k : Nat → Nat) (le : Nat → Nat → Bool) (a b : Nat) (hab : le a b = false) (m : List Nat) :
    insertBy (keyOrd k) b (insertBy (lexLe k le) a m) = insertBy (lexLe k le) a (insertBy (keyOrd k) b m) := by
  induction m with
  | nil =>
    simp only [insertBy, keyOrd, lexLe, hab, Bool.and_false, Bool.or_false]
    by_cases h : k b ≤ k a
    · have : ¬ k a < k b := by omega
      simp [h, this]
    · have : k a < k b := by omega
      simp [h, this]
  | cons c r ih =>
    by_cases h1 : lexLe k le a c = true <;> by_cases h2 : keyOrd k b c = true
    · -- a before c, b before c
      have hac : k a ≤ k c := by
        simp only [lexLe, Bool.or_eq_true, decide_eq_true_eq, Bool.and_eq_true, beq_iff_eq] at h1; omega
      have hbc : k b ≤ k c := by simpa [keyOrd] using h2
      simp only [insertBy, h1, h2, if_true]
      by_cases h : k b ≤ k a
      · have e1 : keyOrd k b a = true := by simp [keyOrd, h]
        have e2 : lexLe k le a b = false := by
          have : ¬ k a < k b := by omega
          simp [lexLe, hab, this]
        simp [e1, e2, insertBy, h1]
      · have e1 : keyOrd k b a = false := by simp [keyOrd, h]
        have e2 : lexLe k le a b = true := by
          have : k a < k b := by omega
          simp [lexLe, this]
        simp [e1, e2, insertBy, h2]
    · -- a before c, c strictly before b
      have hac : k a ≤ k c := by
        simp only [lexLe, Bool.or_eq_true, decide_eq_true_eq, Bool.and_eq_true, beq_iff_eq] at h1; omega
      have hcb : k c < k b := by
        have : ¬ k b ≤ k c := by simpa [keyOrd] using h2
        omega
      have e1 : keyOrd k b a = false := by
        have : ¬ k b ≤ k a := by omega
        simp [keyOrd, this]
      have h2' : keyOrd k b c = false := by simpa using h2
      simp [insertBy, h1, h2', e1]
    · -- c before a (lexicographically), b before c
      have hbc : k b ≤ k c := by simpa [keyOrd] using h2
      have h1' : lexLe k le a c = false := by simpa using h1
      have hca : k c ≤ k a := by
        simp only [lexLe, Bool.or_eq_false_iff, decide_eq_false_iff_not] at h1'
        omega
      have e2 : lexLe k le a b = false := by
        have : ¬ k a < k b := by omega
        simp [lexLe, hab, this]
      simp [insertBy, h1', h2, e2]
    · have h1' : lexLe k le a c = false := by simpa using h1
      have h2' : keyOrd k b c = false := by simpa using h2
      simp only [insertBy, h1', h2', Bool.false_eq_true, if_false]
      rw [ih]

/-- sorted for the purpose of insertion: every element is `le`-below all later ones -/
def SortedBy (le : Nat → Nat → Bool) : List Nat → Prop
  | [] => True
  | a :: l => (∀ x ∈ l, le a x = true) ∧ SortedBy le l

theorem sortedBy_insertBy (le : Nat → Nat → Bool) (htot : ∀ a b, le a b = false → le b a = true)
    (htr : ∀ a b c, le a b = true → le b c = true → le a c = true) (a : Nat) (l : List Nat) (h : SortedBy le l) :
    SortedBy le (insertBy le a l) := by
  induction l with
  | nil => simp [insertBy, SortedBy]
  | cons b r ih =>
    simp only [insertBy]
    by_cases hab : le a b = true
    · simp only [hab, if_true]
      refine ⟨?_, h⟩
      intro x hx
      rcases List.mem_cons.1 hx with rfl | hx
      · exact hab
      · exact htr _ _ _ hab (h.1 x hx)
    · simp only [hab, if_false]
      have hba : le b a = true := htot _ _ (by simpa using hab)
      refine ⟨?_, ih h.2⟩
      intro x hx
      rcases (mem_insertBy le a x r).1 hx with rfl | hx
      · exact hba
      · exact h.1 x hx

theorem sortedBy_stableSort (le : Nat → Nat → Bool) (htot : ∀ a b, le a b = false → le b a = true)
    (htr : ∀ a b c, le a b = true → le b c = true → le a c = true) (l : List Nat) : SortedBy le (stableSort le l) := by
  induction l with
  | nil => simp [stableSort, SortedBy]
  | cons a r ih => rw [stableSort_cons]; exact sortedBy_insertBy le htot htr a _ ih

/-- sorting by key a list into which `a` was inserted by `le` = inserting `a` lexicographically into the sorted list -/
theorem stableSort_insertBy (k : Nat → Nat) (le : Nat → Nat → Bool)
    (htr : ∀ a b c, le a b = true → le b c = true → le a c = true) (a : Nat) (l : List Nat) (h : SortedBy le l) :
    stableSort (keyOrd k) (insertBy le a l) = insertBy (lexLe k le) a (stableSort (keyOrd k) l) := by
  induction l with
  | nil => rfl
  | cons b r ih =>
    simp only [insertBy]
    by_cases hab : le a b = true
    · simp only [hab, if_true]
      rw [stableSort_cons (keyOrd k) a (b :: r)]
      apply insertBy_congr
      intro x hx
      have hx' : x ∈ b :: r := (mem_stableSort _ x _).1 hx
      have hax : le a x = true := by
        rcases List.mem_cons.1 hx' with rfl | hx'
        · exact hab
        · exact htr _ _ _ hab (h.1 x hx')
      simp only [keyOrd, lexLe, hax, Bool.and_true]
      by_cases h1 : k a < k x
      · have : k a ≤ k x := by omega
        simp [h1, this]
      · by_cases h2 : k a = k x
        · simp [h2]
        · have : ¬ k a ≤ k x := by omega
          simp [h1, h2, this]
    · have hab' : le a b = false := by simpa using hab
      simp only [hab', Bool.false_eq_true, if_false]
      rw [stableSort_cons, ih h.2, stableSort_cons, insertBy_comm k le a b hab']

/-- **three sorts are one**: a stable sort by a key after a stable sort by a total preorder is the stable sort by the
lexicographic combination -/
theorem stableSort_comp (k : Nat → Nat) (le : Nat → Nat → Bool) (htot : ∀ a b, le a b = false → le b a = true)
    (htr : ∀ a b c, le a b = true → le b c = true → le a c = true) (l : List Nat) :
    stableSort (keyOrd k) (stableSort le l) = stableSort (lexLe k le) l := by
  induction l with
  | nil => rfl
  | cons a r ih =>
    rw [stableSort_cons le, stableSort_insertBy k le htr a _ (sortedBy_stableSort le htot htr r), ih, stableSort_cons]

theorem keyOrd_total (k : Nat → Nat) (a b : Nat) (h : keyOrd k a b = false) : keyOrd k b a = true := by
  simp only [keyOrd, decide_eq_false_iff_not, decide_eq_true_eq] at *; omega

theorem keyOrd_trans (k : Nat → Nat) (a b c : Nat) (h1 : keyOrd k a b = true) (h2 : keyOrd k b c = true) :
    keyOrd k a c = true := by
  simp only [keyOrd, decide_eq_true_eq] at *; omega

theorem lexLe_total (k : Nat → Nat) (le : Nat → Nat → Bool) (htot : ∀ a b, le a b = false → le b a = true) (a b : Nat)
    (h : lexLe k le a b = false) : lexLe k le b a = true := by
  simp only [lexLe, Bool.or_eq_false_iff, decide_eq_false_iff_not, Bool.and_eq_false_iff, beq_eq_false_iff_ne,
    Bool.or_eq_true, decide_eq_true_eq, Bool.and_eq_true, beq_iff_eq] at *
  rcases h with ⟨h1, h2 | h2⟩
  · left; omega
  · by_cases h3 : k b < k a
    · exact Or.inl h3
    · exact Or.inr ⟨by omega, htot _ _ h2⟩

theorem lexLe_trans (k : Nat → Nat) (le : Nat → Nat → Bool)
    (htr : ∀ a b c, le a b = true → le b c = true → le a c = true) (a b c : Nat)
    (h1 : lexLe k le a b = true) (h2 : lexLe k le b c = true) : lexLe k le a c = true := by
  simp only [lexLe, Bool.or_eq_true, decide_eq_true_eq, Bool.and_eq_true, beq_iff_eq] at *
  rcases h1 with h1 | ⟨h1, h1'⟩ <;> rcases h2 with h2 | ⟨h2, h2'⟩
  · left; omega
  · left; omega
  · left; omega
  · exact Or.inr ⟨by omega, htr _ _ _ h1' h2'⟩

end I2N.PyGenSort
