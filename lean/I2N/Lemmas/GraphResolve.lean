import I2N.Model.GraphResolve
/-!
Lemmas about the independent resolver (`I2N/Model/GraphResolve.lean`): what the parents of a resolved node are
(soundness, completeness, one per declared requirement), cloning, the rank argument for acyclicity, closure of
revealed sets, worker independence.
-/
namespace I2N.Resolve

/-! ## generic list facts -/

theorem foldl_inv {α β : Type} (f : β → α → β) (P : β → Prop) :
    ∀ (l : List α) (b : β), P b → (∀ b a, a ∈ l → P b → P (f b a)) → P (l.foldl f b)
  | [], _, h0, _ => h0
  | a :: l, b, h0, hs =>
    foldl_inv f P l (f b a) (hs b a (List.mem_cons_self ..) h0)
      (fun b' a' ha' => hs b' a' (List.mem_cons_of_mem _ ha'))

theorem mem_dedup {α : Type} [DecidableEq α] (x : α) : ∀ l : List α, x ∈ dedup l ↔ x ∈ l
  | [] => by simp [dedup]
  | y :: ys => by
    have ih := mem_dedup x ys
    simp only [dedup]
    split
    · rename_i hy
      rw [ih]
      constructor
      · exact fun h => List.mem_cons_of_mem _ h
      · intro h
        rcases List.mem_cons.mp h with h | h
        · subst h; exact (mem_dedup x ys).mp hy
        · exact h
    · rw [List.mem_cons, List.mem_cons, ih]

theorem nodup_dedup {α : Type} [DecidableEq α] : ∀ l : List α, (dedup l).Nodup
  | [] => by simp [dedup]
  | y :: ys => by
    have ih := nodup_dedup ys
    simp only [dedup]
    split
    · exact ih
    · rename_i hy; exact List.nodup_cons.mpr ⟨hy, ih⟩

/-! ## producers of a slot -/

/-- the vms a producer test is composed with when needed for slot `s` -/
def vmsFor (t : Test) (s : Slot) : List String := if t.vms.isEmpty then [s.vm] else t.vms

theorem mem_cands (S : Suite) (allow : String → List String) (casg : Asg) (s : Slot) (t : Test) (a : Asg) :
    (t, a) ∈ cands S allow casg s ↔
      t ∈ S.tests ∧ s.get ≠ [] ∧ contig s.get t.name = true ∧ (t.vms = [] ∨ s.vm ∈ t.vms) ∧
      a ∈ asgs allow casg t (vmsFor t s) := by
  simp only [cands, vmsFor, List.mem_flatMap, List.mem_filter, List.mem_map, Bool.and_eq_true,
    Bool.not_eq_true', List.isEmpty_eq_false_iff, Bool.or_eq_true, List.isEmpty_iff, List.contains_eq_mem,
    decide_eq_true_eq, Prod.mk.injEq]
  constructor
  · rintro ⟨t', ⟨ht', ⟨hg, hc⟩, hv⟩, a', ha', rfl, rfl⟩
    exact ⟨ht', hg, hc, hv, ha'⟩
  · rintro ⟨ht, hg, hc, hv, ha⟩
    exact ⟨t, ⟨ht, ⟨hg, hc⟩, hv⟩, a, ha, rfl, rfl⟩

/-- the producer instances of slot `s` of a node with assignment `asg`, at fuel `f` -/
def prods (S : Suite) (allow : String → List String) (f : Nat) (asg : Asg) (s : Slot) : List Inst :=
  (cands S allow asg s).flatMap (fun ta => insts S allow f ta.1 ta.2)

theorem insts_succ (S : Suite) (allow : String → List String) (f : Nat) (t : Test) (asg : Asg) :
    insts S allow (f + 1) t asg =
      (instSlots t asg).foldl (fun acc s => addSlot acc s (prods S allow f asg s))
        [{ key := { test := t.name, asg := asg, labels := [] }, root := t.creation,
           slots := instSlots t asg, parents := [] }] := rfl

/-! ## `addSlot` -/

/-- the clone of `i` made for producer `p` of slot `s` -/
def cloneFor (i : Inst) (s : Slot) (p : Inst) : Inst :=
  let st := p.setOf s.vm s.kind
  { key := { i.key with labels := i.key.labels ++ [st] },
    root := i.root,
    slots := i.slots.map (fun x =>
      if x.vm == s.vm && x.kind == s.kind then
        { x with getState := st, setState := if x.setState == "" then "" else x.setState ++ "." ++ st }
      else x),
    parents := i.parents ++ [(s.vm, s.kind, p.key)] }

theorem addSlot_nil (acc : List Inst) (s : Slot) : addSlot acc s [] = acc := rfl

theorem addSlot_one (acc : List Inst) (s : Slot) (p : Inst) :
    addSlot acc s [p] = acc.map (fun i => { i with parents := i.parents ++ [(s.vm, s.kind, p.key)] }) := rfl

theorem addSlot_many (acc : List Inst) (s : Slot) (p q : Inst) (ps : List Inst) :
    addSlot acc s (p :: q :: ps) = acc.flatMap (fun i => (p :: q :: ps).map (cloneFor i s)) := rfl

/-- whatever `addSlot` returns comes from a partial instance by adding at most one parent for the slot, and that
parent is one of the producers -/
theorem addSlot_elim (acc : List Inst) (s : Slot) (ps : List Inst) (i : Inst) (h : i ∈ addSlot acc s ps) :
    ∃ i0 ∈ acc, i.key.test = i0.key.test ∧ i.key.asg = i0.key.asg ∧ i.root = i0.root ∧
      ((ps = [] ∧ i = i0) ∨ (∃ p ∈ ps, i.parents = i0.parents ++ [(s.vm, s.kind, p.key)])) := by
  match ps, h with
  | [], h => exact ⟨i, h, rfl, rfl, rfl, Or.inl ⟨rfl, rfl⟩⟩
  | [p], h =>
    rw [addSlot_one] at h
    obtain ⟨i0, hi0, rfl⟩ := List.mem_map.mp h
    exact ⟨i0, hi0, rfl, rfl, rfl, Or.inr ⟨p, List.mem_singleton.mpr rfl, rfl⟩⟩
  | p :: q :: ps, h =>
    rw [addSlot_many] at h
    obtain ⟨i0, hi0, hm⟩ := List.mem_flatMap.mp h
    obtain ⟨p', hp', rfl⟩ := List.mem_map.mp hm
    exact ⟨i0, hi0, rfl, rfl, rfl, Or.inr ⟨p', hp', rfl⟩⟩

/-- the tags (vm, kind) of the parents grow by exactly the slot's tag iff the slot has a producer -/
theorem addSlot_tags (acc : List Inst) (s : Slot) (ps : List Inst) (i : Inst) (h : i ∈ addSlot acc s ps) :
    ∃ i0 ∈ acc, i.parents.map (fun p => (p.1, p.2.1)) =
      i0.parents.map (fun p => (p.1, p.2.1)) ++ (if ps.isEmpty then [] else [(s.vm, s.kind)]) := by
  obtain ⟨i0, hi0, _, _, _, h'⟩ := addSlot_elim acc s ps i h
  refine ⟨i0, hi0, ?_⟩
  rcases h' with ⟨rfl, rfl⟩ | ⟨p, hp, hpar⟩
  · simp
  · have : ps.isEmpty = false := by cases ps <;> simp_all
    rw [hpar, this]; simp

theorem addSlot_length (acc : List Inst) (s : Slot) (ps : List Inst) :
    (addSlot acc s ps).length = acc.length * max 1 ps.length := by
  match ps with
  | [] => simp [addSlot_nil]
  | [p] => simp [addSlot_one]
  | p :: q :: ps =>
    rw [addSlot_many]
    have : max 1 (p :: q :: ps).length = (p :: q :: ps).length := by simp
    rw [this]
    induction acc with
    | nil => simp
    | cons a acc ih =>
      simp only [List.flatMap_cons, List.length_append, List.length_map, List.length_cons] at ih ⊢
      rw [ih]; rw [Nat.add_mul]; omega


/-! ## the instances of a test -/

abbrev tag (p : String × String × Key) : String × String := (p.1, p.2.1)

/-- `insts` with the fold made explicit over a remaining slot list -/
def foldSlots (S : Suite) (allow : String → List String) (f : Nat) (asg : Asg) (rest : List Slot)
    (acc : List Inst) : List Inst :=
  rest.foldl (fun acc s => addSlot acc s (prods S allow f asg s)) acc

theorem insts_eq_fold (S : Suite) (allow : String → List String) (f : Nat) (t : Test) (asg : Asg) :
    insts S allow (f + 1) t asg =
      foldSlots S allow f asg (instSlots t asg)
        [{ key := { test := t.name, asg := asg, labels := [] }, root := t.creation,
           slots := instSlots t asg, parents := [] }] := rfl

theorem insts_key (S : Suite) (allow : String → List String) (f : Nat) (t : Test) (asg : Asg) :
    ∀ i ∈ insts S allow f t asg, i.key.test = t.name ∧ i.key.asg = asg ∧ i.root = t.creation := by
  cases f with
  | zero => intro i h; simp [insts] at h
  | succ f =>
    rw [insts_succ]
    refine foldl_inv (fun acc s => addSlot acc s (prods S allow f asg s))
      (fun acc : List Inst => ∀ i ∈ acc, i.key.test = t.name ∧ i.key.asg = asg ∧ i.root = t.creation) _ _ ?_ ?_
    · intro i h
      simp only [List.mem_singleton] at h
      subst h; exact ⟨rfl, rfl, rfl⟩
    · intro acc s _ hacc i hi
      obtain ⟨i0, hi0, h1, h2, h3, _⟩ := addSlot_elim acc s _ i hi
      obtain ⟨g1, g2, g3⟩ := hacc i0 hi0
      exact ⟨h1.trans g1, h2.trans g2, h3.trans g3⟩

/-- **none spurious**: every parent of a resolved node is a producer instance of one of the node's declared
slots -/
theorem insts_parents_sound (S : Suite) (allow : String → List String) (f : Nat) (t : Test) (asg : Asg) :
    ∀ i ∈ insts S allow (f + 1) t asg, ∀ e ∈ i.parents,
      ∃ s ∈ instSlots t asg, s.vm = e.1 ∧ s.kind = e.2.1 ∧ ∃ p ∈ prods S allow f asg s, p.key = e.2.2 := by
  rw [insts_succ]
  refine foldl_inv (fun acc s => addSlot acc s (prods S allow f asg s))
    (fun acc : List Inst => ∀ i ∈ acc, ∀ e ∈ i.parents,
      ∃ s ∈ instSlots t asg, s.vm = e.1 ∧ s.kind = e.2.1 ∧ ∃ p ∈ prods S allow f asg s, p.key = e.2.2) _ _ ?_ ?_
  · intro i h e he
    simp only [List.mem_singleton] at h
    subst h; simp at he
  · intro acc s hs hacc i hi e he
    obtain ⟨i0, hi0, _, _, _, h'⟩ := addSlot_elim acc s _ i hi
    rcases h' with ⟨_, rfl⟩ | ⟨p, hp, hpar⟩
    · exact hacc i hi0 e he
    · rw [hpar] at he
      rcases List.mem_append.mp he with he | he
      · exact hacc i0 hi0 e he
      · simp only [List.mem_singleton] at he
        subst he
        exact ⟨s, hs, rfl, rfl, p, hp, rfl⟩

/-- the parent tags of everything the fold returns: those of a start instance plus one per remaining slot that
has a producer, in order -/
theorem foldSlots_tags (S : Suite) (allow : String → List String) (f : Nat) (asg : Asg) :
    ∀ (rest : List Slot) (acc : List Inst) (i : Inst), i ∈ foldSlots S allow f asg rest acc →
      ∃ i0 ∈ acc, i.parents.map tag =
        i0.parents.map tag ++
          (rest.filter (fun s => !(prods S allow f asg s).isEmpty)).map (fun s => (s.vm, s.kind))
  | [], acc, i, h => ⟨i, h, by simp⟩
  | s :: rest, acc, i, h => by
    simp only [foldSlots, List.foldl_cons] at h
    obtain ⟨i1, hi1, ht1⟩ := foldSlots_tags S allow f asg rest _ i h
    obtain ⟨i0, hi0, ht0⟩ := addSlot_tags acc s _ i1 hi1
    refine ⟨i0, hi0, ?_⟩
    rw [ht1]
    have ht0' : i1.parents.map tag = i0.parents.map tag ++
        (if (prods S allow f asg s).isEmpty then [] else [(s.vm, s.kind)]) := ht0
    rw [ht0']
    by_cases hp : (prods S allow f asg s).isEmpty = true
    · simp [hp]
    · simp only [Bool.not_eq_true] at hp
      simp [hp]

/-- **none missing, none duplicated**: the parents of a resolved node are, slot by slot and in order, exactly one
per declared slot that has a producer -/
theorem insts_parent_tags (S : Suite) (allow : String → List String) (f : Nat) (t : Test) (asg : Asg) :
    ∀ i ∈ insts S allow (f + 1) t asg,
      i.parents.map tag =
        ((instSlots t asg).filter (fun s => !(prods S allow f asg s).isEmpty)).map (fun s => (s.vm, s.kind)) := by
  intro i hi
  rw [insts_eq_fold] at hi
  obtain ⟨i0, hi0, h⟩ := foldSlots_tags S allow f asg _ _ i hi
  simp only [List.mem_singleton] at hi0
  subst hi0
  simpa using h

theorem foldSlots_length (S : Suite) (allow : String → List String) (f : Nat) (asg : Asg) :
    ∀ (rest : List Slot) (acc : List Inst),
      (foldSlots S allow f asg rest acc).length =
        rest.foldl (fun n s => n * max 1 (prods S allow f asg s).length) acc.length
  | [], _ => rfl
  | s :: rest, acc => by
    simp only [foldSlots, List.foldl_cons]
    have := foldSlots_length S allow f asg rest (addSlot acc s (prods S allow f asg s))
    simp only [foldSlots] at this
    rw [this, addSlot_length]

/-! ## acyclicity through a rank on tests -/

/-- the declared producer relation is acyclic: some rank strictly decreases from a test to every test one of its
`get` restrictions names -/
def RankOK (S : Suite) (rk : Name → Nat) : Prop :=
  ∀ t ∈ S.tests, ∀ s ∈ t.slots, ∀ t' ∈ S.tests, s.get ≠ [] → contig s.get t'.name = true →
    rk t'.name < rk t.name

theorem instSlots_get (t : Test) (asg : Asg) (s : Slot) (h : s ∈ instSlots t asg) :
    ∃ s0 ∈ t.slots, s.get = s0.get ∧ s.kind = s0.kind ∧ s.getState = s0.getState ∧ s.setState = s0.setState := by
  unfold instSlots at h
  split at h
  · split at h
    · obtain ⟨s0, hs0, rfl⟩ := List.mem_map.mp h
      exact ⟨s0, hs0, rfl, rfl, rfl, rfl⟩
    · exact ⟨s, h, rfl, rfl, rfl, rfl⟩
  · exact ⟨s, h, rfl, rfl, rfl, rfl⟩

theorem mem_prods (S : Suite) (allow : String → List String) (f : Nat) (asg : Asg) (s : Slot) (p : Inst)
    (h : p ∈ prods S allow f asg s) :
    ∃ t' a', (t', a') ∈ cands S allow asg s ∧ p ∈ insts S allow f t' a' := by
  obtain ⟨ta, hta, hp⟩ := List.mem_flatMap.mp h
  exact ⟨ta.1, ta.2, hta, hp⟩

/-- along every dependency of a resolved node the rank of the test strictly decreases -/
theorem insts_edge_rank (S : Suite) (allow : String → List String) (rk : Name → Nat) (hrk : RankOK S rk)
    (f : Nat) (t : Test) (ht : t ∈ S.tests) (asg : Asg) (i : Inst) (hi : i ∈ insts S allow f t asg)
    (e : String × String × Key) (he : e ∈ i.parents) : rk e.2.2.test < rk i.key.test := by
  cases f with
  | zero => simp [insts] at hi
  | succ f =>
    obtain ⟨s, hs, _, _, p, hp, hpk⟩ := insts_parents_sound S allow f t asg i hi e he
    obtain ⟨t', a', hc, hpi⟩ := mem_prods S allow f asg s p hp
    obtain ⟨ht', hg, hcon, _, _⟩ := (mem_cands S allow asg s t' a').mp hc
    obtain ⟨s0, hs0, hget, _⟩ := instSlots_get t asg s hs
    have h1 := (insts_key S allow f t' a' p hpi).1
    have h2 := (insts_key S allow (f + 1) t asg i hi).1
    rw [← hpk, h1, h2]
    exact hrk t ht s0 hs0 t' ht' (hget ▸ hg) (hget ▸ hcon)

theorem insts_subset_anc (S : Suite) (allow : String → List String) (f : Nat) (t : Test) (asg : Asg) :
    ∀ i ∈ insts S allow f t asg, i ∈ anc S allow f t asg := by
  cases f with
  | zero => intro i h; simp [insts] at h
  | succ f => intro i h; simp only [anc]; exact List.mem_append_left _ h

/-- everything `anc` returns is an instance of some test of the suite -/
theorem mem_anc (S : Suite) (allow : String → List String) :
    ∀ (f : Nat) (t : Test) (asg : Asg) (i : Inst), t ∈ S.tests → i ∈ anc S allow f t asg →
      ∃ f' t' a', t' ∈ S.tests ∧ i ∈ insts S allow f' t' a'
  | 0, _, _, i, _, h => by simp [anc] at h
  | f + 1, t, asg, i, ht, h => by
    simp only [anc] at h
    rcases List.mem_append.mp h with h | h
    · exact ⟨f + 1, t, asg, ht, h⟩
    · obtain ⟨s, _, h⟩ := List.mem_flatMap.mp h
      obtain ⟨ta, hta, h⟩ := List.mem_flatMap.mp h
      have ht' := ((mem_cands S allow asg s ta.1 ta.2).mp hta).1
      exact mem_anc S allow f ta.1 ta.2 i ht' h

/-- **transitively down to creation**: the revealed set is closed under "parent of" -/
theorem anc_closed (S : Suite) (allow : String → List String) :
    ∀ (f : Nat) (t : Test) (asg : Asg) (i : Inst), i ∈ anc S allow f t asg →
      ∀ e ∈ i.parents, ∃ j ∈ anc S allow f t asg, j.key = e.2.2
  | 0, _, _, i, h => by simp [anc] at h
  | f + 1, t, asg, i, h => by
    intro e he
    simp only [anc] at h ⊢
    rcases List.mem_append.mp h with h | h
    · obtain ⟨s, hs, _, _, p, hp, hpk⟩ := insts_parents_sound S allow f t asg i h e he
      obtain ⟨ta, hta, hpi⟩ := List.mem_flatMap.mp hp
      refine ⟨p, List.mem_append_right _ ?_, hpk⟩
      exact List.mem_flatMap.mpr ⟨s, hs, List.mem_flatMap.mpr ⟨ta, hta, insts_subset_anc S allow f ta.1 ta.2 p hpi⟩⟩
    · obtain ⟨s, hs, h⟩ := List.mem_flatMap.mp h
      obtain ⟨ta, hta, h⟩ := List.mem_flatMap.mp h
      obtain ⟨j, hj, hjk⟩ := anc_closed S allow f ta.1 ta.2 i h e he
      exact ⟨j, List.mem_append_right _
        (List.mem_flatMap.mpr ⟨s, hs, List.mem_flatMap.mpr ⟨ta, hta, hj⟩⟩), hjk⟩


/-! ## variants: a producer is composed with the child's own variant of every vm they share -/

theorem mem_product : ∀ (l : List (String × List String)) (a : Asg), a ∈ product l →
    ∀ e ∈ a, ∃ vs, (e.1, vs) ∈ l ∧ e.2 ∈ vs
  | [], a, h => by
    simp only [product, List.mem_singleton] at h
    subst h; intro e he; simp at he
  | (vm, vs) :: rest, a, h => by
    simp only [product, List.mem_flatMap, List.mem_map] at h
    obtain ⟨v, hv, a', ha', rfl⟩ := h
    intro e he
    rcases List.mem_cons.mp he with rfl | he
    · exact ⟨vs, List.mem_cons_self .., hv⟩
    · obtain ⟨vs', h1, h2⟩ := mem_product rest a' ha' e he
      exact ⟨vs', List.mem_cons_of_mem _ h1, h2⟩

theorem asgs_variant (allow : String → List String) (casg : Asg) (t : Test) (vms : List String) (a : Asg)
    (h : a ∈ asgs allow casg t vms) : ∀ e ∈ a, e.2 ∈ choices allow casg t e.1 := by
  intro e he
  obtain ⟨vs, h1, h2⟩ := mem_product _ a h e he
  obtain ⟨vm, _, hvm⟩ := List.mem_map.mp h1
  simp only [Prod.mk.injEq] at hvm
  obtain ⟨rfl, rfl⟩ := hvm
  exact h2

/-- a vm the child has keeps the child's variant in every producer; any vm is within what the worker and the
producer test allow -/
theorem choices_spec (allow : String → List String) (casg : Asg) (t : Test) (vm v : String)
    (h : v ∈ choices allow casg t vm) :
    v ∈ allowedFor allow t vm ∧ ∀ e, casg.find? (fun e => e.1 == vm) = some e → v = e.2 := by
  unfold choices at h
  split at h
  · rename_i e he
    split at h
    · rename_i hc
      simp only [List.mem_singleton] at h
      subst h
      refine ⟨by simpa using hc, ?_⟩
      intro e' he'
      rw [he] at he'
      cases he'; rfl
    · simp at h
  · rename_i hnone
    exact ⟨h, fun e he => by rw [hnone] at he; cases he⟩

/-! ## the graph of a worker -/

theorem mem_workerNodes (S : Suite) (allow : String → List String) (sel : List RLine) (i : Inst) :
    i ∈ workerNodes S allow sel ↔ ∃ t ∈ selected S sel, i ∈ reveal S allow t := by
  simp only [workerNodes, mem_dedup, List.mem_flatMap]

theorem selected_subset (S : Suite) (sel : List RLine) (t : Test) (h : t ∈ selected S sel) : t ∈ S.tests :=
  (List.mem_filter.mp h).1

theorem mem_reveal (S : Suite) (allow : String → List String) (t : Test) (i : Inst) :
    i ∈ reveal S allow t ↔ ∃ a ∈ leafAsgs S allow t, i ∈ anc S allow S.fuel t a := by
  simp only [reveal, List.mem_flatMap]

theorem workerNodes_inst (S : Suite) (allow : String → List String) (sel : List RLine) (i : Inst)
    (h : i ∈ workerNodes S allow sel) : ∃ f t a, t ∈ S.tests ∧ i ∈ insts S allow f t a := by
  obtain ⟨t, ht, hi⟩ := (mem_workerNodes S allow sel i).mp h
  obtain ⟨a, _, hi⟩ := (mem_reveal S allow t i).mp hi
  exact mem_anc S allow _ t a i (selected_subset S sel t ht) hi

/-- the revealed set of a flat node is closed under "parent of" -/
theorem reveal_closed (S : Suite) (allow : String → List String) (t : Test) (i : Inst)
    (h : i ∈ reveal S allow t) : ∀ e ∈ i.parents, ∃ j ∈ reveal S allow t, j.key = e.2.2 := by
  intro e he
  obtain ⟨a, ha, hi⟩ := (mem_reveal S allow t i).mp h
  obtain ⟨j, hj, hjk⟩ := anc_closed S allow _ t a i hi e he
  exact ⟨j, (mem_reveal S allow t j).mpr ⟨a, ha, hj⟩, hjk⟩

theorem mem_worker_edges (S : Suite) (user : List (String × VLine)) (sel : List RLine) (w : Worker) (e : GEdge) :
    e ∈ (resolveWorker S user sel w).edges ↔
      e.worker = w.name ∧ ∃ i ∈ workerNodes S (allowed S user w) sel, i.key = e.child ∧
        (e.vm, e.kind, e.parent) ∈ i.parents := by
  simp only [resolveWorker, List.mem_flatMap, edgesOf, List.mem_map]
  constructor
  · rintro ⟨i, hi, p, hp, rfl⟩
    exact ⟨rfl, i, hi, rfl, hp⟩
  · rintro ⟨hw, i, hi, hk, hp⟩
    refine ⟨i, hi, (e.vm, e.kind, e.parent), hp, ?_⟩
    cases e; simp_all

theorem mem_worker_nodes (S : Suite) (user : List (String × VLine)) (sel : List RLine) (w : Worker) (n : GNode) :
    n ∈ (resolveWorker S user sel w).nodes ↔ n.worker = w.name ∧ n.inst ∈ workerNodes S (allowed S user w) sel := by
  simp only [resolveWorker, List.mem_map]
  constructor
  · rintro ⟨i, hi, rfl⟩; exact ⟨rfl, hi⟩
  · rintro ⟨hw, hi⟩; exact ⟨n.inst, hi, by cases n; simp_all⟩

/-- reachability along the resolved edges (within a worker, any positive length) -/
inductive RReach (g : RGraph) : String × Key → String × Key → Prop
  | edge (e : GEdge) : e ∈ g.edges → RReach g (e.worker, e.child) (e.worker, e.parent)
  | step (e : GEdge) (a : String × Key) : e ∈ g.edges → RReach g (e.worker, e.parent) a →
      RReach g (e.worker, e.child) a

theorem rreach_rank (g : RGraph) (rk : Name → Nat)
    (h : ∀ e ∈ g.edges, rk e.parent.test < rk e.child.test) :
    ∀ x y, RReach g x y → rk y.2.test < rk x.2.test := by
  intro x y hr
  induction hr with
  | edge e he => exact h e he
  | step e a he _ ih => exact Nat.lt_trans ih (h e he)

theorem worker_edge_rank (S : Suite) (user : List (String × VLine)) (sel : List RLine) (w : Worker)
    (rk : Name → Nat) (hrk : RankOK S rk) :
    ∀ e ∈ (resolveWorker S user sel w).edges, rk e.parent.test < rk e.child.test := by
  intro e he
  obtain ⟨_, i, hi, hk, hp⟩ := (mem_worker_edges S user sel w e).mp he
  obtain ⟨f, t, a, ht, hins⟩ := workerNodes_inst S _ sel i hi
  have := insts_edge_rank S _ rk hrk f t ht a i hins _ hp
  rw [hk] at this
  exact this

theorem mem_resolve_edges (S : Suite) (user : List (String × VLine)) (sel : List RLine) (ws : List Worker)
    (e : GEdge) : e ∈ (resolve S user sel ws).edges ↔ ∃ w ∈ ws, e ∈ (resolveWorker S user sel w).edges := by
  simp only [resolve, List.mem_flatMap, List.mem_map]
  constructor
  · rintro ⟨g, ⟨w, hw, rfl⟩, he⟩; exact ⟨w, hw, he⟩
  · rintro ⟨w, hw, he⟩; exact ⟨_, ⟨w, hw, rfl⟩, he⟩

theorem mem_resolve_nodes (S : Suite) (user : List (String × VLine)) (sel : List RLine) (ws : List Worker)
    (n : GNode) : n ∈ (resolve S user sel ws).nodes ↔ ∃ w ∈ ws, n ∈ (resolveWorker S user sel w).nodes := by
  simp only [resolve, List.mem_flatMap, List.mem_map]
  constructor
  · rintro ⟨g, ⟨w, hw, rfl⟩, he⟩; exact ⟨w, hw, he⟩
  · rintro ⟨w, hw, he⟩; exact ⟨_, ⟨w, hw, rfl⟩, he⟩

/-! ## workers -/

theorem applyV_sublist (l : VLine) (vs : List String) : (applyV l vs).Sublist vs := List.filter_sublist

theorem foldl_applyV_sublist : ∀ (ls : List (String × VLine)) (vs : List String),
    (ls.foldl (fun acc e => applyV e.2 acc) vs).Sublist vs
  | [], _ => List.Sublist.refl _
  | l :: ls, vs => (foldl_applyV_sublist ls (applyV l.2 vs)).trans (applyV_sublist l.2 vs)

/-- the graph of a worker depends on the worker only through its name and its restrictions -/
theorem allowed_congr (S : Suite) (user : List (String × VLine)) (w v : Worker) (h : w.restr = v.restr) :
    allowed S user w = allowed S user v := by
  funext vm
  simp only [allowed, h]

theorem product_mono (f g : String → List String) (h : ∀ vm v, v ∈ f vm → v ∈ g vm) :
    ∀ (vms : List String) (a : Asg), a ∈ product (vms.map (fun vm => (vm, f vm))) →
      a ∈ product (vms.map (fun vm => (vm, g vm)))
  | [], a, ha => by simpa [product] using ha
  | vm :: rest, a, ha => by
    simp only [List.map_cons, product, List.mem_flatMap, List.mem_map] at ha ⊢
    obtain ⟨v, hv, a', ha', rfl⟩ := ha
    exact ⟨v, h vm v hv, a', product_mono f g h rest a' ha', rfl⟩

theorem allowedFor_mono (allow allow' : String → List String) (h : ∀ vm v, v ∈ allow' vm → v ∈ allow vm)
    (t : Test) (vm v : String) (hv : v ∈ allowedFor allow' t vm) : v ∈ allowedFor allow t vm := by
  unfold allowedFor at hv ⊢
  cases hfind : t.only.find? (fun e => e.1 == vm) with
  | none => rw [hfind] at hv; exact h vm v hv
  | some e =>
    rw [hfind] at hv
    simp only [List.mem_filter] at hv ⊢
    exact ⟨h vm v hv.1, hv.2⟩

/-- a worker that may use fewer variants selects fewer leaf nodes, never others -/
theorem leafAsgs_mono (S : Suite) (allow allow' : String → List String)
    (h : ∀ vm v, v ∈ allow' vm → v ∈ allow vm) (t : Test) (a : Asg) (ha : a ∈ leafAsgs S allow' t) :
    a ∈ leafAsgs S allow t := by
  unfold leafAsgs asgs at ha ⊢
  refine product_mono (fun vm => choices allow' [] t vm) (fun vm => choices allow [] t vm) ?_ _ a ha
  intro vm v hv
  simp only [choices, List.find?_nil] at hv ⊢
  exact allowedFor_mono allow allow' h t vm v hv

/-! ## lazy parsing -/

theorem mem_lazyNodes (S : Suite) (allow : String → List String) (order : List Test) (i : Inst) :
    i ∈ lazyNodes S allow order ↔ ∃ t ∈ order, i ∈ reveal S allow t := by
  simp only [lazyNodes, mem_dedup, List.mem_flatMap]

/-! ## a demo suite for the non-vacuity examples: a two-producer group `m`, a dependant `d` of the whole group,
a leaf depending on `d` -/
namespace Demo

def slotI (get : Name) (gs ss : String) : Slot := { vm := "", kind := "images", get := get, getState := gs, setState := ss }

def tInstall : Test := ⟨["original", "install"], [], true, [["all"]], [slotI [] "" "install"], []⟩
def tMa : Test := ⟨["internal", "m", "a"], [], false, [["all"]], [slotI ["install"] "install" "g.a"], []⟩
def tMb : Test := ⟨["internal", "m", "b"], [], false, [["all"]], [slotI ["install"] "install" "g.b"], []⟩
def tD : Test := ⟨["internal", "d"], [], false, [["all"]], [slotI ["m"] "" "dst"], []⟩
def tLeaf : Test := ⟨["quick", "t"], ["vm1"], false, [["all"], ["leaves"]], [⟨"vm1", "images", ["d"], "", ""⟩], []⟩

def demo : Suite := ⟨[("vm1", ["A", "B"])], "vm1", [tInstall, tMa, tMb, tD, tLeaf]⟩


def rk (n : Name) : Nat :=
  if n == ["original", "install"] then 0 else if n == ["quick", "t"] then 3 else if n == ["internal", "d"] then 2 else 1

end Demo

end I2N.Resolve
