import I2N.Lemmas.TravBasic
import Std.Data.String.ToNat
/-!
Bookkeeping invariants of the traversal model behind C03 (retry budget) and C10 (identifiers):
how `results`, `jobResults`, `preResults`, `nextTag` and the program counters evolve along `resume`.

Part 1: the effect of the loop part of a step (`afterTraverse`, `traverseNode`, `iter`, `runLoop`) is
either *silent* (no result list, job result, tag counter, creation copy or foreign worker record changes)
or a silent prefix followed by exactly one `startTest` whose guard is recorded.
-/
namespace I2N.Trav

/-! ## well-formed graphs -/

/-- the root and the end points of all edges are node indices -/
def graphWF (g : Graph) : Bool :=
  decide (g.root < g.nodes.length) &&
  g.nodes.all (fun nd => nd.setup.all (fun p => decide (p.1 < g.nodes.length)) &&
                         nd.cleanup.all (fun p => decide (p.1 < g.nodes.length)))

theorem node_mem_or_default (g : Graph) (n : Nat) :
    g.node n ∈ g.nodes ∨ g.node n = { cls := 0, owner := none, name := "", pfx := "" } := by
  unfold Graph.node
  by_cases h : n < g.nodes.length
  · left
    rw [List.getD_eq_getElem?_getD, List.getElem?_eq_getElem h]
    exact List.getElem_mem h
  · right
    rw [List.getD_eq_getElem?_getD, List.getElem?_eq_none (by omega)]
    rfl

theorem graphWF_root {g : Graph} (h : graphWF g = true) : g.root < g.nodes.length := by
  unfold graphWF at h
  simp only [Bool.and_eq_true, decide_eq_true_eq] at h
  exact h.1

theorem graphWF_setup {g : Graph} (h : graphWF g = true) (n : Nat) (p : Nat × List String)
    (hp : p ∈ (g.node n).setup) : p.1 < g.nodes.length := by
  unfold graphWF at h
  simp only [Bool.and_eq_true, decide_eq_true_eq, List.all_eq_true] at h
  rcases node_mem_or_default g n with hm | hd
  · exact (h.2 _ hm).1 p hp
  · rw [hd] at hp; simp at hp

theorem graphWF_cleanup {g : Graph} (h : graphWF g = true) (n : Nat) (p : Nat × List String)
    (hp : p ∈ (g.node n).cleanup) : p.1 < g.nodes.length := by
  unfold graphWF at h
  simp only [Bool.and_eq_true, decide_eq_true_eq, List.all_eq_true] at h
  rcases node_mem_or_default g n with hm | hd
  · exact (h.2 _ hm).2 p hp
  · rw [hd] at hp; simp at hp

/-- the same as a proposition about `Graph.node` (this is the form the walk uses; it also holds for the visible graph) -/
def GraphWF (g : Graph) : Prop :=
  g.root < g.nodes.length ∧ ∀ n (p : Nat × List String),
    (p ∈ (g.node n).setup → p.1 < g.nodes.length) ∧ (p ∈ (g.node n).cleanup → p.1 < g.nodes.length)

theorem GraphWF.of_bool {g : Graph} (h : graphWF g = true) : GraphWF g :=
  ⟨graphWF_root h, fun n p => ⟨graphWF_setup h n p, graphWF_cleanup h n p⟩⟩

/-! ## the visible graph of the lazy expansion -/

/-- a node without its edges -/
def Node.noEdges (nd : Node) : Node := { nd with setup := [], cleanup := [] }

/-- two graphs that differ in their edges only -/
structure SameNodes (gv g : Graph) : Prop where
  workers : gv.workers = g.workers
  root : gv.root = g.root
  len : gv.nodes.length = g.nodes.length
  node : ∀ n, (gv.node n).noEdges = (g.node n).noEdges

theorem SameNodes.refl (g : Graph) : SameNodes g g := ⟨rfl, rfl, rfl, fun _ => rfl⟩

theorem SameNodes.trans {a b c : Graph} (h1 : SameNodes a b) (h2 : SameNodes b c) : SameNodes a c :=
  ⟨h1.workers.trans h2.workers, h1.root.trans h2.root, h1.len.trans h2.len, fun n => (h1.node n).trans (h2.node n)⟩

theorem SameNodes.name {gv g : Graph} (h : SameNodes gv g) (n : Nat) : (gv.node n).name = (g.node n).name := by
  have := congrArg Node.name (h.node n); exact this
theorem SameNodes.pfx {gv g : Graph} (h : SameNodes gv g) (n : Nat) : (gv.node n).pfx = (g.node n).pfx := by
  have := congrArg Node.pfx (h.node n); exact this
theorem SameNodes.cls {gv g : Graph} (h : SameNodes gv g) (n : Nat) : (gv.node n).cls = (g.node n).cls := by
  have := congrArg Node.cls (h.node n); exact this
theorem SameNodes.flat {gv g : Graph} (h : SameNodes gv g) (n : Nat) : (gv.node n).flat = (g.node n).flat := by
  have := congrArg Node.flat (h.node n); exact this
theorem SameNodes.objectRoot {gv g : Graph} (h : SameNodes gv g) (n : Nat) : (gv.node n).objectRoot = (g.node n).objectRoot := by
  have := congrArg Node.objectRoot (h.node n); exact this
theorem SameNodes.sets {gv g : Graph} (h : SameNodes gv g) (n : Nat) : (gv.node n).sets = (g.node n).sets := by
  have := congrArg Node.sets (h.node n); exact this
theorem SameNodes.maxTries {gv g : Graph} (h : SameNodes gv g) (n : Nat) : (gv.node n).maxTries = (g.node n).maxTries := by
  have := congrArg Node.maxTries (h.node n); exact this
theorem SameNodes.objs {gv g : Graph} (h : SameNodes gv g) (n : Nat) : (gv.node n).objs = (g.node n).objs := by
  have := congrArg Node.objs (h.node n); exact this
theorem SameNodes.worker {gv g : Graph} (h : SameNodes gv g) (w : Nat) : gv.worker w = g.worker w := by
  unfold Graph.worker; rw [h.workers]

theorem vis_len (g : Graph) (s : State) : (vis g s).nodes.length = g.nodes.length := by
  unfold vis
  split
  · rfl
  · simp

theorem sameNodes_vis (g : Graph) (s : State) : SameNodes (vis g s) g := by
  refine ⟨?_, ?_, vis_len g s, fun n => ?_⟩
  · unfold vis; split <;> rfl
  · unfold vis; split <;> rfl
  · obtain ⟨su, cl, h, _⟩ := vis_node g s n
    rw [h]; rfl

theorem GraphWF.vis {g : Graph} (h : GraphWF g) (s : State) : GraphWF (vis g s) := by
  have hs := sameNodes_vis g s
  refine ⟨by rw [hs.root, hs.len]; exact h.1, fun n p => ?_⟩
  obtain ⟨su, cl, hn, hsu, hcl⟩ := vis_node g s n
  rw [hn, hs.len]
  exact ⟨fun hp => (h.2 n p).1 (hsu p hp), fun hp => (h.2 n p).2 (hcl p hp)⟩

theorem GraphWF.root_lt {g : Graph} (h : GraphWF g) : g.root < g.nodes.length := h.1
theorem GraphWF.setup_lt {g : Graph} (h : GraphWF g) (n : Nat) (p : Nat × List String) (hp : p ∈ (g.node n).setup) :
    p.1 < g.nodes.length := (h.2 n p).1 hp
theorem GraphWF.cleanup_lt {g : Graph} (h : GraphWF g) (n : Nat) (p : Nat × List String) (hp : p ∈ (g.node n).cleanup) :
    p.1 < g.nodes.length := (h.2 n p).2 hp

/-! ## access lemmas -/

theorem wd_setWd_cases (s : State) (w : Nat) (f : WorkerD → WorkerD) :
    ((s.setWd w f).wd w = s.wd w ∧ ¬ w < s.workers.length) ∨
    (w < s.workers.length ∧ (s.setWd w f).wd w = f (s.wd w)) := by
  by_cases hl : w < s.workers.length
  · right; exact ⟨hl, wd_setWd_eq s w f hl⟩
  · left
    refine ⟨?_, hl⟩
    unfold State.setWd State.wd
    simp only [List.getD_eq_getElem?_getD, List.getElem?_modify]
    rw [List.getElem?_eq_none (by omega)]; rfl

@[simp] theorem workers_length_setWd (s : State) (w : Nat) (f : WorkerD → WorkerD) :
    (s.setWd w f).workers.length = s.workers.length := by simp [State.setWd]

def Pc.isTest : Pc → Bool
  | .test .. => true
  | _ => false

/-- a worker whose pc is a test is a real worker -/
theorem wd_default_of_ge (s : State) (v : Nat) (h : ¬ v < s.workers.length) : s.wd v = {} := by
  unfold State.wd
  rw [List.getD_eq_getElem?_getD, List.getElem?_eq_none (by omega)]; rfl

theorem lt_of_isTest (s : State) (v : Nat) (h : (s.wd v).pc.isTest = true) : v < s.workers.length := by
  by_cases hl : v < s.workers.length
  · exact hl
  · rw [wd_default_of_ge s v hl] at h; simp [Pc.isTest] at h

/-! ## silent effects -/

/-- what the bookkeeping-free part of a step of worker `w` may do -/
structure Silent (g : Graph) (w : Nat) (s s' : State) : Prop where
  nodesLen : s'.nodes.length = s.nodes.length
  workersLen : s'.workers.length = s.workers.length
  results : ∀ m, (s'.nd m).results = (s.nd m).results
  job : s'.jobResults = s.jobResults
  tag : s'.nextTag = s.nextTag
  others : ∀ v, v ≠ w → s'.wd v = s.wd v
  preR : (s'.wd w).preResults = (s.wd w).preResults
  preN : (s'.wd w).preName = (s.wd w).preName
  pc : (s'.wd w).pc = (s.wd w).pc ∨ (s'.wd w).pc.isTest = false
  path : (∀ x ∈ (s.wd w).path, x < g.nodes.length) → ∀ x ∈ (s'.wd w).path, x < g.nodes.length

theorem Silent.refl (g : Graph) (w : Nat) (s : State) : Silent g w s s :=
  ⟨rfl, rfl, fun _ => rfl, rfl, rfl, fun _ _ => rfl, rfl, rfl, Or.inl rfl, fun h => h⟩

theorem Silent.trans {g : Graph} {w : Nat} {s s1 s2 : State} (a : Silent g w s s1) (b : Silent g w s1 s2) :
    Silent g w s s2 where
  nodesLen := b.nodesLen.trans a.nodesLen
  workersLen := b.workersLen.trans a.workersLen
  results := fun m => (b.results m).trans (a.results m)
  job := b.job.trans a.job
  tag := b.tag.trans a.tag
  others := fun v hv => (b.others v hv).trans (a.others v hv)
  preR := b.preR.trans a.preR
  preN := b.preN.trans a.preN
  pc := by
    rcases b.pc with h | h
    · rcases a.pc with h' | h'
      · exact Or.inl (h.trans h')
      · right; rw [h]; exact h'
    · exact Or.inr h
  path := fun h => b.path (a.path h)

theorem Silent.nonTest {g : Graph} {w : Nat} {s s' : State} (a : Silent g w s s') (h : (s.wd w).pc.isTest = false) :
    (s'.wd w).pc.isTest = false := by
  rcases a.pc with h' | h'
  · rw [h']; exact h
  · exact h'

theorem silent_setCr (g : Graph) (w : Nat) (s : State) (c : Nat) (f : ClassRegs → ClassRegs) :
    Silent g w s (s.setCr c f) :=
  ⟨rfl, rfl, fun _ => rfl, rfl, rfl, fun _ _ => rfl, rfl, rfl, Or.inl rfl, fun h => h⟩

theorem silent_store (g : Graph) (w : Nat) (s : State) (st : List (String × List (String × String))) :
    Silent g w s { s with store := st } :=
  ⟨rfl, rfl, fun _ => rfl, rfl, rfl, fun _ _ => rfl, rfl, rfl, Or.inl rfl, fun h => h⟩

theorem silent_setNd (g : Graph) (w : Nat) (s : State) (m : Nat) (f : NodeD → NodeD)
    (hf : ∀ d, (f d).results = d.results) : Silent g w s (s.setNd m f) :=
  ⟨nodes_length_setNd s m f, rfl, fun n => nd_setNd_proj (·.results) s m f hf n, rfl, rfl, fun _ _ => rfl, rfl, rfl,
    Or.inl rfl, fun h => h⟩

theorem silent_setWd (g : Graph) (w : Nat) (s : State) (f : WorkerD → WorkerD)
    (hpre : ∀ d, (f d).preResults = d.preResults) (hname : ∀ d, (f d).preName = d.preName)
    (hpc : ∀ d, (f d).pc = d.pc ∨ (f d).pc.isTest = false)
    (hpath : ∀ d, (∀ x ∈ d.path, x < g.nodes.length) → ∀ x ∈ (f d).path, x < g.nodes.length) :
    Silent g w s (s.setWd w f) := by
  rcases wd_setWd_cases s w f with ⟨h, _⟩ | ⟨_, h⟩
  · exact ⟨rfl, workers_length_setWd s w f, fun _ => rfl, rfl, rfl, fun v hv => wd_setWd_ne s w v f hv,
      by rw [h], by rw [h], Or.inl (by rw [h]), fun hp => by rw [h]; exact hp⟩
  · exact ⟨rfl, workers_length_setWd s w f, fun _ => rfl, rfl, rfl, fun v hv => wd_setWd_ne s w v f hv,
      by rw [h]; exact hpre _, by rw [h]; exact hname _, by rw [h]; exact hpc _, fun hp => by rw [h]; exact hpath _ hp⟩

theorem Silent.setWd_after {g : Graph} {w : Nat} {s s1 : State} {f : WorkerD → WorkerD} (a : Silent g w s s1)
    (hpre : ∀ d, (f d).preResults = d.preResults) (hname : ∀ d, (f d).preName = d.preName)
    (hpc : ∀ d, (f d).pc = d.pc ∨ (f d).pc.isTest = false)
    (hpath : ∀ d, (∀ x ∈ d.path, x < g.nodes.length) → ∀ x ∈ (f d).path, x < g.nodes.length) :
    Silent g w s (s1.setWd w f) := a.trans (silent_setWd g w s1 f hpre hname hpc hpath)

theorem silent_popPath (g : Graph) (w : Nat) (s : State) : Silent g w s (popPath s w) :=
  silent_setWd g w s _ (fun _ => rfl) (fun _ => rfl) (fun _ => Or.inl rfl)
    (fun _ h x hx => h x (List.dropLast_subset _ hx))

theorem silent_pushPath (g : Graph) (w : Nat) (s : State) (m : Nat) (hm : m < g.nodes.length) :
    Silent g w s (pushPath s w m) :=
  silent_setWd g w s _ (fun _ => rfl) (fun _ => rfl) (fun _ => Or.inl rfl)
    (fun _ h x hx => by
      rcases List.mem_append.mp hx with hx | hx
      · exact h x hx
      · rw [List.mem_singleton.mp hx]; exact hm)

theorem silent_disableRerun (g : Graph) (w : Nat) (s : State) (n : Nat) : Silent g w s (disableRerun s n) :=
  silent_setNd g w s n _ (fun _ => rfl)

theorem silent_runDecision (g : Graph) (w : Nat) (s : State) (n v : Nat) (b : Bool) (s1 : State) (e1 : List Event)
    (h : runDecision g s n v = .ok (b, s1, e1)) : Silent g w s s1 := by
  rcases runDecision_state g s n v b s1 e1 h with h | h
  · rw [h]; exact Silent.refl g w s
  · rw [h]; exact silent_disableRerun g w s n

theorem silent_foldl {β} (g : Graph) (w : Nat) (f : State → β → State) (h : ∀ s b, Silent g w s (f s b))
    (l : List β) (s : State) : Silent g w s (l.foldl f s) := by
  induction l generalizing s with
  | nil => exact Silent.refl g w s
  | cons a r ih => simp only [List.foldl_cons]; exact (h s a).trans (ih _)

theorem silent_pullLocations (g : Graph) (w : Nat) (s : State) (n : Nat) : Silent g w s (pullLocations g s n) := by
  unfold pullLocations
  split
  · exact Silent.refl g w s
  · apply silent_foldl
    rintro s ⟨p, vms⟩
    apply silent_foldl
    intro s loc
    apply silent_foldl
    intro s vm
    exact silent_setNd g w s n _ (fun _ => rfl)

theorem silent_syncStates (g : Graph) (w : Nat) (s : State) (n v : Nat) (rv : Option (List String)) :
    Silent g w s (syncStates g s n v rv).1 := by
  unfold syncStates
  dsimp only
  split
  · exact Silent.refl g w s
  · split
    · exact silent_store g w s _
    · exact silent_store g w s _

theorem silent_produce (g : Graph) (w : Nat) (s : State) (n v : Nat) : Silent g w s (produce g s n v) :=
  silent_store g w s _

theorem silent_finishTraverse (g : Graph) (w : Nat) (s : State) (n v : Nat) : Silent g w s (finishTraverse s n v) :=
  silent_setNd g w s n _ (fun _ => rfl)

theorem silent_reverseNode (g : Graph) (w : Nat) (s : State) (n v : Nat) (s' : State) (evs : List Event)
    (h : reverseNode g s n v = .ok (s', evs)) : Silent g w s s' := by
  unfold reverseNode at h
  by_cases hocc : isOccupied g s n v = true
  · simp only [hocc, if_true, Except.ok.injEq, Prod.mk.injEq] at h
    rw [← h.1]; exact Silent.refl g w s
  · simp only [hocc, Bool.false_eq_true, if_false, ite_self] at h
    have h0 : Silent g w s (s.setNd n (fun d => { d with started := some v })) := silent_setNd g w s n _ (fun _ => rfl)
    cases hd : cleanDecision g (s.setNd n (fun d => { d with started := some v })) n v with
    | error e => simp [hd] at h
    | ok clean =>
      simp only [hd, Except.ok.injEq, Prod.mk.injEq] at h
      rw [← h.1]
      refine h0.trans (Silent.trans ?_ (silent_setNd g w _ n _ (fun _ => rfl)))
      split
      · exact silent_syncStates g w _ n v none
      · exact Silent.refl g w _

/-! ## picks stay inside the graph -/

theorem mem_insertBy (le : Nat → Nat → Bool) (a x : Nat) (l : List Nat) (h : x ∈ insertBy le a l) : x = a ∨ x ∈ l := by
  induction l with
  | nil => simp [insertBy] at h; exact Or.inl h
  | cons b r ih =>
    unfold insertBy at h
    split at h
    · simpa using h
    · rcases List.mem_cons.mp h with h | h
      · right; rw [h]; exact List.mem_cons_self
      · rcases ih h with h | h
        · exact Or.inl h
        · right; exact List.mem_cons_of_mem _ h

theorem mem_stableSort (le : Nat → Nat → Bool) (x : Nat) (l : List Nat) (h : x ∈ stableSort le l) : x ∈ l := by
  induction l with
  | nil => simp [stableSort] at h
  | cons a r ih =>
    unfold stableSort at h
    simp only [List.foldr_cons] at h
    rcases mem_insertBy le a x _ h with h | h
    · rw [h]; exact List.mem_cons_self
    · exact List.mem_cons_of_mem _ (ih h)

theorem pickChild_spec (g : Graph) (s : State) (n w c : Nat) (s' : State) (h : pickChild g s n w = some (c, s')) :
    c ∈ (g.node n).cleanup.map (·.1) ∧ ∃ cc f, s' = s.setCr cc f := by
  unfold pickChild at h
  dsimp only at h
  split at h
  · simp at h
  · rename_i c' rest heq
    simp only [Option.some.injEq, Prod.mk.injEq] at h
    refine ⟨?_, _, _, h.2.symm⟩
    have : c' ∈ stableSort (fun a b => keyLe (pickKey g s false a) (pickKey g s false b))
        (((g.node n).cleanup.map (·.1)).filter (fun c =>
          relevant g w c && !(regWorkers (s.cr (g.node n).cls).droppedCleanup (some (g.node c).cls)).contains w)) := by
      rw [heq]; exact List.mem_cons_self
    have := mem_stableSort _ _ _ this
    rw [← h.1]
    exact (List.mem_filter.mp this).1

theorem pickParent_spec (g : Graph) (s : State) (n w c : Nat) (s' : State) (h : pickParent g s n w = some (c, s')) :
    c ∈ (g.node n).setup.map (·.1) ∧ ∃ cc f, s' = s.setCr cc f := by
  unfold pickParent at h
  dsimp only at h
  split at h
  · simp at h
  · rename_i c' rest heq
    simp only [Option.some.injEq, Prod.mk.injEq] at h
    refine ⟨?_, _, _, h.2.symm⟩
    have : c' ∈ stableSort (fun a b => keyLe (pickKey g s true a) (pickKey g s true b))
        (((g.node n).setup.map (·.1)).filter (fun p =>
          relevant g w p && !(regWorkers (s.cr (g.node n).cls).droppedSetup (some (g.node p).cls)).contains w)) := by
      rw [heq]; exact List.mem_cons_self
    have := mem_stableSort _ _ _ this
    rw [← h.1]
    exact (List.mem_filter.mp this).1

theorem pickChild_silent (g : Graph) (hwf : GraphWF g) (s : State) (n w c : Nat) (s' : State)
    (h : pickChild g s n w = some (c, s')) : Silent g w s (pushPath s' w c) := by
  obtain ⟨hc, cc, f, hs⟩ := pickChild_spec g s n w c s' h
  obtain ⟨p, hp, hpc⟩ := List.mem_map.mp hc
  have hlt : c < g.nodes.length := by rw [← hpc]; exact hwf.cleanup_lt n p hp
  rw [hs]
  exact (silent_setCr g w s cc f).trans (silent_pushPath g w _ c hlt)

theorem pickParent_silent (g : Graph) (hwf : GraphWF g) (s : State) (n w c : Nat) (s' : State)
    (h : pickParent g s n w = some (c, s')) : Silent g w s (pushPath s' w c) := by
  obtain ⟨hc, cc, f, hs⟩ := pickParent_spec g s n w c s' h
  obtain ⟨p, hp, hpc⟩ := List.mem_map.mp hc
  have hlt : c < g.nodes.length := by rw [← hpc]; exact hwf.setup_lt n p hp
  rw [hs]
  exact (silent_setCr g w s cc f).trans (silent_pushPath g w _ c hlt)

/-! ## the loop part of a step -/

theorem silent_dropChildren (g : Graph) (w : Nat) (s : State) (next v : Nat) (l : List (Nat × List String)) :
    Silent g w s (l.foldl (fun s (p, _) => dropChild g s p next v) s) := by
  apply silent_foldl
  rintro s ⟨p, _⟩
  exact silent_setCr g w s _ _

theorem afterTraverse_silent (g : Graph) (hwf : GraphWF g) (s : State) (w next prev : Nat) (dir : Dir) :
    Silent g w s (afterTraverse g s w next prev dir).1 := by
  unfold afterTraverse
  cases hd : runDecision g s next w with
  | error e => exact Silent.refl g w s
  | ok r =>
    obtain ⟨run, s1, evs⟩ := r
    have h1 : Silent g w s s1 := silent_runDecision g w s next w run s1 evs hd
    cases dir with
    | up =>
      dsimp only
      refine h1.trans (Silent.trans ?_ (silent_popPath g w _))
      split
      · exact silent_setCr g w s1 _ _
      · exact Silent.refl g w s1
    | down =>
      dsimp only
      by_cases hrun : run = true
      · simp only [hrun, if_true]
        exact h1.trans (silent_popPath g w _)
      · simp only [hrun, Bool.false_eq_true, if_false]
        by_cases hc : isCleanupReady g s1 next w = true
        · simp only [hc, if_true]
          by_cases hpp : (!(g.node next).flat && (s1.wd w).unexplored) = true
          · simp only [hpp, if_true]
            refine h1.trans (silent_setWd g w s1 _ (fun _ => rfl) (fun _ => rfl) (fun _ => Or.inl rfl) ?_)
            intro d _ x hx
            have hx' : x = g.root := by simpa using hx
            rw [hx']; exact hwf.root_lt
          simp only [hpp, Bool.false_eq_true, if_false]
          have h2 := silent_dropChildren g w s1 next w (g.node next).setup
          cases hr : reverseNode g (List.foldl (fun s x => dropChild g s x.1 next w) s1 (g.node next).setup) next w with
          | error e => exact h1.trans h2
          | ok r =>
            obtain ⟨s2, evs2⟩ := r
            exact h1.trans (h2.trans ((silent_reverseNode g w _ next w s2 evs2 hr).trans (silent_popPath g w _)))
        · simp only [hc, Bool.false_eq_true, if_false]
          cases hp : pickChild g s1 next w with
          | none => exact h1
          | some r =>
            obtain ⟨c, s2⟩ := r
            exact h1.trans (pickChild_silent g hwf s1 next w c s2 hp)

/-- the name of the creation pre-step of object root `n` for worker `w` (the expression of `traverseNode`) -/
def preNameOf (g : Graph) (n w : Nat) : String :=
  "all.internal.stateless.noop.vms." ++ " ".intercalate (g.node n).objs ++ ".nets." ++
    (g.worker w).swarm ++ "." ++ ((g.worker w).id.splitOn ".").getLast!

theorem sharedResults_sameNodes {gv g : Graph} (h : SameNodes gv g) (s : State) (n : Nat) :
    sharedResults gv s n = sharedResults g s n := by
  unfold sharedResults Graph.copies Graph.classNodes
  simp only [h.flat, h.cls, h.len]

theorem preNameOf_sameNodes {gv g : Graph} (h : SameNodes gv g) (n w : Nat) : preNameOf gv n w = preNameOf g n w := by
  unfold preNameOf
  rw [h.objs, h.worker]

theorem startTest_sameNodes {gv g : Graph} (h : SameNodes gv g) (s : State) (n w : Nat) (ph : Phase) (dir : Dir) :
    (startTest gv s n w ph dir).1 = (startTest g s n w ph dir).1 := by
  have e1 : (Phase.plain == Phase.pre) = false := rfl
  have e2 : (Phase.pre == Phase.pre) = true := rfl
  have e3 : (Phase.main == Phase.pre) = false := rfl
  cases ph <;> simp [startTest, e1, e2, e3, sharedResults_sameNodes h, h.pfx, h.name]

/-- a `startTest` at the end of the loop part, with what guarded it (the decision was taken on the graph `gv` as
parsed so far, which differs from `g` in its edges only) -/
inductive StartFrom (g : Graph) (w : Nat) (s1 s' : State) : Prop
  | plain (n : Nat) (dir : Dir) (s0 : State) (evs : List Event) (gv : Graph) (hgv : SameNodes gv g)
      (hn : n < g.nodes.length) (hroot : (g.node n).objectRoot = false)
      (hdec : runDecision gv s0 n w = .ok (true, s1, evs))
      (h : s' = (startTest g s1 n w .plain dir).1)
  | pre (n : Nat) (dir : Dir)
      (hn : n < g.nodes.length) (hroot : (g.node n).objectRoot = true)
      (h : s' = (startTest g (s1.setWd w (fun d => { d with preResults := (s1.nd n).results, preName := preNameOf g n w }))
              n w .pre dir).1)

theorem StartFrom.transport {gv g : Graph} {w : Nat} {s1 s' : State} (h : SameNodes gv g) (a : StartFrom gv w s1 s') :
    StartFrom g w s1 s' := by
  cases a with
  | plain n dir s0 evs gv' hgv' hn hroot hdec e =>
    exact .plain n dir s0 evs gv' (hgv'.trans h) (by rw [← h.len]; exact hn) (by rw [← h.objectRoot]; exact hroot) hdec
      (by rw [e, startTest_sameNodes h])
  | pre n dir hn hroot e =>
    exact .pre n dir (by rw [← h.len]; exact hn) (by rw [← h.objectRoot]; exact hroot)
      (by rw [e, startTest_sameNodes h, preNameOf_sameNodes h])

theorem Silent.transport {gv g : Graph} {w : Nat} {s s' : State} (h : gv.nodes.length = g.nodes.length) (a : Silent gv w s s') :
    Silent g w s s' :=
  ⟨a.nodesLen, a.workersLen, a.results, a.job, a.tag, a.others, a.preR, a.preN, a.pc, by rw [← h]; exact a.path⟩

/-- effect of a piece of the loop: silent, or silent followed by one start (and then the worker is suspended) -/
def StepEff (g : Graph) (w : Nat) (s : State) (r : Step) : Prop :=
  Silent g w s r.1 ∨ ((∃ s1, Silent g w s s1 ∧ StartFrom g w s1 r.1) ∧ r.2.2 = Flow.suspend)

theorem StepEff.of_silent {g : Graph} {w : Nat} {s s1 : State} {r : Step} (a : Silent g w s s1) (b : StepEff g w s1 r) :
    StepEff g w s r := by
  rcases b with b | ⟨⟨s2, b, c⟩, d⟩
  · exact Or.inl (a.trans b)
  · exact Or.inr ⟨⟨s2, a.trans b, c⟩, d⟩

theorem StepEff.transport {gv g : Graph} {w : Nat} {s : State} {r : Step} (h : SameNodes gv g) (a : StepEff gv w s r) :
    StepEff g w s r := by
  rcases a with a | ⟨⟨s1, a, b⟩, c⟩
  · exact Or.inl (a.transport h.len)
  · exact Or.inr ⟨⟨s1, a.transport h.len, b.transport h⟩, c⟩

theorem traverseNode_eff (g : Graph) (hwf : GraphWF g) (s : State) (w next prev : Nat) (dir : Dir)
    (hnext : next < g.nodes.length) : StepEff g w s (traverseNode g s w next prev dir) := by
  unfold traverseNode
  by_cases hocc : isOccupied g s next w = true
  · simp only [hocc, if_true]
    exact Or.inl (afterTraverse_silent g hwf s w next prev dir)
  · simp only [hocc, Bool.false_eq_true, if_false]
    have h0 : Silent g w s (pullLocations g (s.setNd next (fun d => { d with started := some w })) next) :=
      (silent_setNd g w s next (fun d => { d with started := some w }) (fun _ => rfl)).trans (silent_pullLocations g w _ next)
    cases hd : runDecision g (pullLocations g (s.setNd next (fun d => { d with started := some w })) next) next w with
    | error e => exact Or.inl h0
    | ok r =>
      obtain ⟨run, s1, evs⟩ := r
      have h1 : Silent g w s s1 := h0.trans (silent_runDecision g w _ next w run s1 evs hd)
      dsimp only
      by_cases hrun : run = true
      · subst hrun
        simp only [if_true]
        by_cases hroot : (g.node next).objectRoot = true
        · simp only [hroot, if_true]
          refine Or.inr ⟨⟨s1, h1, StartFrom.pre next dir hnext hroot rfl⟩, ?_⟩
          simp only [startTest_flow]
        · simp only [hroot, Bool.false_eq_true, if_false]
          refine Or.inr ⟨⟨s1, h1, StartFrom.plain next dir _ evs g (SameNodes.refl g) hnext (by simpa using hroot) hd rfl⟩, ?_⟩
          simp only [startTest_flow]
      · simp only [hrun, Bool.false_eq_true, if_false]
        exact Or.inl (h1.trans ((silent_finishTraverse g w s1 next w).trans (afterTraverse_silent g hwf _ w next prev dir)))

theorem iter_eff (g : Graph) (hwf : GraphWF g) (s : State) (w : Nat)
    (hpath : ∀ x ∈ (s.wd w).path, x < g.nodes.length) : StepEff g w s (iter g s w) := by
  unfold iter
  dsimp only
  split
  · split
    · exact Or.inl (silent_setWd g w s _ (fun _ => rfl) (fun _ => rfl) (fun _ => Or.inr rfl) (fun _ _ x hx => by simp at hx))
    · exact Or.inl (Silent.refl g w s)
  · cases hl : (s.wd w).path.getLast? with
    | none => exact Or.inl (Silent.refl g w s)
    | some next =>
      have hnext : next < g.nodes.length := hpath next (List.mem_of_getLast? hl)
      dsimp only
      split
      · cases hp : pickChild g s next w with
        | none => exact Or.inl (Silent.refl g w s)
        | some r => obtain ⟨c, s2⟩ := r; exact Or.inl (pickChild_silent g hwf s next w c s2 hp)
      · split
        · -- bounce
          left
          dsimp only
          apply Silent.setWd_after
          · split
            · apply Silent.setWd_after
              · split
                · exact silent_setNd g w s next _ (fun _ => rfl)
                · exact Silent.refl g w s
              · exact fun _ => rfl
              · exact fun _ => rfl
              · exact fun _ => Or.inl rfl
              · exact fun _ h => h
            · apply Silent.setWd_after (Silent.refl g w s)
              · exact fun _ => rfl
              · exact fun _ => rfl
              · exact fun _ => Or.inl rfl
              · exact fun _ h => h
          · exact fun _ => rfl
          · exact fun _ => rfl
          · exact fun _ => Or.inr rfl
          · intro d _ x hx
            have hx' : x = g.root := by simpa using hx
            rw [hx']; exact hwf.root_lt
        · split
          · split
            · exact traverseNode_eff g hwf s w next _ .up hnext
            · cases hp : pickParent g s next w with
              | none => exact Or.inl (Silent.refl g w s)
              | some r => obtain ⟨c, s2⟩ := r; exact Or.inl (pickParent_silent g hwf s next w c s2 hp)
          · split
            · split
              · cases hp : pickParent g s next w with
                | none => exact Or.inl (Silent.refl g w s)
                | some r => obtain ⟨c, s2⟩ := r; exact Or.inl (pickParent_silent g hwf s next w c s2 hp)
              · exact traverseNode_eff g hwf s w next _ .down hnext
            · exact Or.inl (Silent.refl g w s)

theorem silent_hidden (g : Graph) (w : Nat) (s : State) (h : List Nat) : Silent g w s { s with hidden := h } :=
  ⟨rfl, rfl, fun _ => rfl, rfl, rfl, fun _ _ => rfl, rfl, rfl, Or.inl rfl, fun h => h⟩

theorem silent_incompatible (g : Graph) (w : Nat) (s : State) (h : List (Nat × Nat)) : Silent g w s { s with incompatible := h } :=
  ⟨rfl, rfl, fun _ => rfl, rfl, rfl, fun _ _ => rfl, rfl, rfl, Or.inl rfl, fun h => h⟩

theorem silent_reveal (g : Graph) (w : Nat) (s : State) (f v : Nat) : Silent g w s (reveal g s f v) := by
  unfold reveal
  dsimp only
  split
  · exact silent_incompatible g w s _
  · exact silent_hidden g w s _

theorem silent_prepare (g : Graph) (w : Nat) (s : State) : Silent g w s (prepare g s w) := by
  unfold prepare
  dsimp only
  cases (s.wd w).path.getLast? with
  | none => exact Silent.refl g w s
  | some next =>
    dsimp only
    have h0 : Silent g w s (s.setWd w (fun d => { d with unexplored := !(unexploredNodes (vis g s) s).isEmpty })) :=
      silent_setWd g w s _ (fun _ => rfl) (fun _ => rfl) (fun _ => Or.inl rfl) (fun _ h => h)
    split
    · exact h0.trans (silent_reveal g w _ next w)
    · exact h0

/-- one iteration including the lazy expansion step -/
theorem iterL_eff (g : Graph) (hwf : GraphWF g) (s : State) (w : Nat)
    (hpath : ∀ x ∈ (s.wd w).path, x < g.nodes.length) : StepEff g w s (iterL g s w) := by
  unfold iterL
  split
  · exact (iter_eff (vis g s) (hwf.vis s) s w (by rw [vis_len]; exact hpath)).transport (sameNodes_vis g s)
  · dsimp only
    have h0 := silent_prepare g w s
    exact StepEff.of_silent h0
      ((iter_eff (vis g (prepare g s w)) (hwf.vis _) (prepare g s w) w (by rw [vis_len]; exact h0.path hpath)).transport
        (sameNodes_vis g _))

/-- effect of the loop part on the state alone -/
def LoopEff (g : Graph) (w : Nat) (s s' : State) : Prop :=
  Silent g w s s' ∨ ∃ s1, Silent g w s s1 ∧ StartFrom g w s1 s'

theorem LoopEff.of_silent {g : Graph} {w : Nat} {s s1 s' : State} (a : Silent g w s s1) (b : LoopEff g w s1 s') :
    LoopEff g w s s' := by
  rcases b with b | ⟨s2, b, c⟩
  · exact Or.inl (a.trans b)
  · exact Or.inr ⟨s2, a.trans b, c⟩

theorem silent_setPc (g : Graph) (w : Nat) (s : State) (pc : Pc) (h : pc.isTest = false) :
    Silent g w s (s.setWd w (fun d => { d with pc := pc })) :=
  silent_setWd g w s _ (fun _ => rfl) (fun _ => rfl) (fun _ => Or.inr h) (fun _ h => h)

theorem runLoop_eff (g : Graph) (hwf : GraphWF g) (w : Nat) (fuel : Nat) (s : State) (evs : List Event)
    (hpath : ∀ x ∈ (s.wd w).path, x < g.nodes.length) : LoopEff g w s (runLoop g w fuel s evs).1 := by
  induction fuel generalizing s evs with
  | zero => exact Or.inl (Silent.refl g w s)
  | succ fuel ih =>
    unfold runLoop
    dsimp only
    have h0 : Silent g w s (s.setWd w (fun d => { d with pc := .loop })) := silent_setPc g w s .loop rfl
    have hp0 := h0.path hpath
    have he := iterL_eff g hwf _ w hp0
    rcases hi : iterL g (s.setWd w (fun d => { d with pc := .loop })) w with ⟨s1, e, f⟩
    rw [hi] at he
    cases f with
    | cont =>
      dsimp only
      rcases he with he | ⟨_, hf⟩
      · exact LoopEff.of_silent (h0.trans he) (ih s1 _ (he.path hp0))
      · simp at hf
    | suspend =>
      dsimp only
      rcases he with he | ⟨⟨s2, he, hs⟩, _⟩
      · exact Or.inl (h0.trans he)
      · exact Or.inr ⟨s2, h0.trans he, hs⟩
    | exit =>
      dsimp only
      rcases he with he | ⟨_, hf⟩
      · exact Or.inl (h0.trans he)
      · simp at hf
    | raise what =>
      dsimp only
      rcases he with he | ⟨_, hf⟩
      · exact Or.inl (h0.trans (he.trans (silent_setPc g w s1 .failed rfl)))
      · simp at hf

/-- with fuel the loop leaves the worker either at a non-test pc or freshly started -/
theorem runLoop_eff_pos (g : Graph) (hwf : GraphWF g) (w : Nat) (fuel : Nat) (hf : 0 < fuel) (s : State) (evs : List Event)
    (hw : w < s.workers.length)
    (hpath : ∀ x ∈ (s.wd w).path, x < g.nodes.length) :
    (Silent g w s (runLoop g w fuel s evs).1 ∧ ((runLoop g w fuel s evs).1.wd w).pc.isTest = false) ∨
      ∃ s1, Silent g w s s1 ∧ StartFrom g w s1 (runLoop g w fuel s evs).1 := by
  cases fuel with
  | zero => omega
  | succ fuel =>
    have h0 : Silent g w s (s.setWd w (fun d => { d with pc := .loop })) := silent_setPc g w s .loop rfl
    have hpc0 : ((s.setWd w (fun d => { d with pc := .loop })).wd w).pc.isTest = false := by
      rw [wd_setWd_eq s w _ hw]; rfl
    have hp0 := h0.path hpath
    have he := iterL_eff g hwf _ w hp0
    unfold runLoop
    dsimp only
    rcases hi : iterL g (s.setWd w (fun d => { d with pc := .loop })) w with ⟨s1, e, f⟩
    rw [hi] at he
    cases f with
    | cont =>
      dsimp only
      rcases he with he | ⟨_, hf⟩
      · rcases runLoop_eff g hwf w fuel s1 (evs ++ e) (he.path hp0) with h | ⟨s2, h, hs⟩
        · exact Or.inl ⟨h0.trans (he.trans h), (he.trans h).nonTest hpc0⟩
        · exact Or.inr ⟨s2, h0.trans (he.trans h), hs⟩
      · simp at hf
    | suspend =>
      dsimp only
      rcases he with he | ⟨⟨s2, he, hs⟩, _⟩
      · exact Or.inl ⟨h0.trans he, he.nonTest hpc0⟩
      · exact Or.inr ⟨s2, h0.trans he, hs⟩
    | exit =>
      dsimp only
      rcases he with he | ⟨_, hf⟩
      · exact Or.inl ⟨h0.trans he, he.nonTest hpc0⟩
      · simp at hf
    | raise what =>
      dsimp only
      rcases he with he | ⟨_, hf⟩
      · exact Or.inl ⟨h0.trans (he.trans (silent_setPc g w s1 .failed rfl)),
          ((he.trans (silent_setPc g w s1 .failed rfl))).nonTest hpc0⟩
      · simp at hf

/-! ## the resumption part of a step -/

theorem phase_beq_pre (ph : Phase) : (ph == Phase.pre) = true ↔ ph = Phase.pre := by cases ph <;> decide

/-- the placeholder of execution `tag` is replaced by the result (test proper) -/
def settleNd (s : State) (n : Nat) (res : Result) (tag : Nat) : State :=
  s.setNd n (fun d => { d with results := (d.results ++ [res]).filter (fun r => !(r.status == "UNKNOWN" && r.tag == tag)) })

/-- … (creation pre-step: on the worker's copy) -/
def settlePre (s : State) (w : Nat) (res : Result) (tag : Nat) : State :=
  s.setWd w (fun d => { d with preResults := (d.preResults ++ [res]).filter (fun r => !(r.status == "UNKNOWN" && r.tag == tag)) })

/-- a failed creation pre-step is accounted to the object root -/
def appendPre (s : State) (n w : Nat) : State :=
  s.setNd n (fun d => { d with results := d.results ++ (s.wd w).preResults.drop d.results.length })

/-- same node records, worker records and tag counter -/
def SameBook (s s' : State) : Prop := s'.nodes = s.nodes ∧ s'.workers = s.workers ∧ s'.nextTag = s.nextTag

def keys (s : State) : List (String × String) := s.jobResults.map (fun r => (r.1, r.2.1))

/-- the continuation after the awaited test: second step of a creation, or back into the loop -/
def ContEff (g : Graph) (w n : Nat) (ph : Phase) (dir : Dir) (sc : State) (ok : Bool) (s' : State) : Prop :=
  (ph = .pre ∧ ok = true ∧ s' = (startTest g sc n w .main dir).1) ∨
  (¬(ph = .pre ∧ ok = true) ∧
    ((Silent g w (if ph = .pre then appendPre sc n w else sc) s' ∧ (s'.wd w).pc.isTest = false) ∨
      ∃ s1, Silent g w (if ph = .pre then appendPre sc n w else sc) s1 ∧ StartFrom g w s1 s'))

theorem continueAfter_eff (g : Graph) (hwf : GraphWF g) (w n : Nat) (ph : Phase) (dir : Dir) (fuel : Nat) (hf : 0 < fuel)
    (sc : State) (ok : Bool) (evs : List Event) (hw : w < sc.workers.length)
    (hpath : ∀ x ∈ (sc.wd w).path, x < g.nodes.length) :
    ContEff g w n ph dir sc ok (resumeTest.continueAfter g w n ph dir fuel sc ok evs).1 := by
  unfold resumeTest.continueAfter
  dsimp only
  by_cases hc : (ph == Phase.pre && ok) = true
  · simp only [hc, if_true]
    left
    rw [Bool.and_eq_true] at hc
    exact ⟨(phase_beq_pre ph).mp hc.1, hc.2, rfl⟩
  · simp only [hc, Bool.false_eq_true, if_false]
    right
    refine ⟨fun ⟨a, b⟩ => hc (by rw [a, b]; rfl), ?_⟩
    have hsd : (if (ph == Phase.pre) = true then
          sc.setNd n (fun d => { d with results := d.results ++ List.drop d.results.length (sc.wd w).preResults })
        else sc) = (if ph = .pre then appendPre sc n w else sc) := by
      by_cases hp : ph = .pre
      · simp only [hp, if_true]; rfl
      · have : ¬ (ph == Phase.pre) = true := fun h => hp ((phase_beq_pre ph).mp h)
        simp only [hp, this, Bool.false_eq_true, if_false]
    rw [hsd]
    have hwd : ((if ph = .pre then appendPre sc n w else sc).wd w) = sc.wd w := by split <;> rfl
    have hlen : (if ph = .pre then appendPre sc n w else sc).workers.length = sc.workers.length := by split <;> rfl
    generalize (if ph = .pre then appendPre sc n w else sc) = sd at hwd hlen ⊢
    have h0 := silent_finishTraverse g w sd n w
    have h1 := afterTraverse_silent (vis g (finishTraverse sd n w)) (hwf.vis _) (finishTraverse sd n w) w n
      ((sc.wd w).path.getD ((sc.wd w).path.length - 2) 0) dir
    rcases hat : afterTraverse (vis g (finishTraverse sd n w)) (finishTraverse sd n w) w n ((sc.wd w).path.getD ((sc.wd w).path.length - 2) 0) dir with ⟨s2, e2, f⟩
    rw [hat] at h1
    have h01 : Silent g w sd s2 := h0.trans (h1.transport (vis_len g _))
    have hw2 : w < s2.workers.length := by rw [h01.workersLen, hlen]; exact hw
    have hp2 : ∀ x ∈ (s2.wd w).path, x < g.nodes.length := h01.path (by rw [hwd]; exact hpath)
    have hloop : ∀ evs', ((Silent g w sd (runLoop g w fuel s2 evs').1 ∧ ((runLoop g w fuel s2 evs').1.wd w).pc.isTest = false) ∨
        ∃ s1, Silent g w sd s1 ∧ StartFrom g w s1 (runLoop g w fuel s2 evs').1) := by
      intro evs'
      rcases runLoop_eff_pos g hwf w fuel hf s2 evs' hw2 hp2 with ⟨h, hpc⟩ | ⟨s1, h, hs⟩
      · exact Or.inl ⟨h01.trans h, hpc⟩
      · exact Or.inr ⟨s1, h01.trans h, hs⟩
    cases f with
    | raise what =>
      dsimp only
      left
      refine ⟨h01.trans (silent_setPc g w s2 .failed rfl), ?_⟩
      rw [wd_setWd_eq s2 w _ hw2]; rfl
    | cont => exact hloop _
    | suspend => exact hloop _
    | exit => exact hloop _

/-- what the test stub did at the end of the task: nothing, or one record appended to the job results -/
def RepEff (s : State) (name uid : String) (wait : Nat) (out : Outcome) (sa : State) : Prop :=
  (sa = s ∧ (wait ≠ 0 ∨ out.status = none)) ∨ (wait = 0 ∧ ∃ st, out.status = some st ∧ SameBook s sa ∧ sa.jobResults = s.jobResults ++ [(name, uid, st, out.dur)])

/-- shape of `resumeTest` -/
def TestEff (g : Graph) (s : State) (w n : Nat) (ph : Phase) (dir : Dir) (uid : String) (tag wait : Nat) (out : Outcome)
    (s' : State) : Prop :=
  ∃ sa, RepEff s (if ph = .pre then (s.wd w).preName else (g.node n).name) uid wait out sa ∧
    ((∃ e, sa.jobResults.find? (fun r => r.1 == (if ph = .pre then (s.wd w).preName else (g.node n).name) && r.2.1 == uid) = some e ∧
        ∃ sb res ok, SameBook sa sb ∧ keys sb = keys sa ∧
          (res.tag = 0 ∧ res.uid = uid ∧ res.dur = e.2.2.2 ∧ (res.status = e.2.2.1 ∨ (e.2.2.1 = "PASS" ∧ res.status = "WARN"))) ∧
          ContEff g w n ph dir (if ph = .pre then settlePre sb w res tag else settleNd sb n res tag) ok s') ∨
     (sa.jobResults.find? (fun r => r.1 == (if ph = .pre then (s.wd w).preName else (g.node n).name) && r.2.1 == uid) = none ∧
        (s' = sa.setWd w (fun d => { d with pc := .test n ph dir uid tag (wait + 1) }) ∨ ContEff g w n ph dir sa false s')))

theorem SameBook.wd {s s' : State} (h : SameBook s s') (v : Nat) : s'.wd v = s.wd v := by
  unfold State.wd; rw [h.2.1]

theorem SameBook.nd {s s' : State} (h : SameBook s s') (m : Nat) : s'.nd m = s.nd m := by
  unfold State.nd; rw [h.1]

theorem keys_map_same (l : List (String × String × String × Nat)) (p : String × String × String × Nat → Bool) (st : String) :
    (l.map (fun r => if p r = true then (r.1, r.2.1, st, r.2.2.2) else r)).map (fun r => (r.1, r.2.1)) =
      l.map (fun r => (r.1, r.2.1)) := by
  induction l with
  | nil => rfl
  | cons a r ih =>
    simp only [List.map_cons, ih]
    by_cases h : p a = true <;> simp [h]

theorem resumeTest_eff (g : Graph) (hwf : GraphWF g) (s : State) (w n : Nat) (ph : Phase) (dir : Dir) (uid : String)
    (tag wait : Nat) (out : Outcome) (fuel : Nat) (hf : 0 < fuel) (hw : w < s.workers.length)
    (hpath : ∀ x ∈ (s.wd w).path, x < g.nodes.length) :
    TestEff g s w n ph dir uid tag wait out (resumeTest g s w n ph dir uid tag wait out fuel).1 := by
  have hnm : (if (ph == Phase.pre) = true then (s.wd w).preName else (g.node n).name) =
      (if ph = .pre then (s.wd w).preName else (g.node n).name) := by
    cases ph <;> rfl
  unfold resumeTest
  extract_lets wid name
  have hname : name = (if ph = .pre then (s.wd w).preName else (g.node n).name) := hnm
  split
  rename_i sa evs heq
  have hrep : RepEff s name uid wait out sa := by
    by_cases hw0 : wait = 0
    · cases hst : out.status with
      | none =>
        simp only [hw0, hst, BEq.rfl, if_true, Prod.mk.injEq] at heq
        exact Or.inl ⟨heq.1.symm, Or.inr hst⟩
      | some st =>
        simp only [hw0, hst, BEq.rfl, if_true, Prod.mk.injEq] at heq
        right
        refine ⟨hw0, st, hst, ?_⟩
        rw [← heq.1]
        split
        · exact ⟨⟨rfl, rfl, rfl⟩, rfl⟩
        · exact ⟨⟨rfl, rfl, rfl⟩, rfl⟩
    · have : ¬ (wait == 0) = true := by simpa using hw0
      simp only [this, Bool.false_eq_true, if_false, Prod.mk.injEq] at heq
      exact Or.inl ⟨heq.1.symm, Or.inl hw0⟩
  have hsaw : sa.workers = s.workers := by
    rcases hrep with ⟨h, _⟩ | ⟨_, _, _, h, _⟩
    · rw [h]
    · exact h.2.1
  have hsawd : sa.wd w = s.wd w := by unfold State.wd; rw [hsaw]
  refine ⟨sa, hname ▸ hrep, ?_⟩
  rw [← hname]
  cases hfind : List.find? (fun r => r.fst == name && r.snd.fst == uid) sa.jobResults with
  | some e =>
    left
    obtain ⟨e1, e2, st0, dur⟩ := e
    refine ⟨_, rfl, ?_⟩
    dsimp -zeta only
    extract_lets prior maxAllowed maxAllowed2 st sb res sc ok
    refine ⟨sb, res, ok, ?_, ?_, ⟨rfl, rfl, rfl, ?_⟩, ?_⟩
    · show SameBook sa (if (st != st0) = true then _ else sa)
      split
      · exact ⟨rfl, rfl, rfl⟩
      · exact ⟨rfl, rfl, rfl⟩
    · show keys (if (st != st0) = true then _ else sa) = keys sa
      split
      · exact keys_map_same _ _ _
      · rfl
    · show (if (st0 == "PASS" && decide (4 * dur > 5 * maxAllowed2)) = true then "WARN" else st0) = st0 ∨
        (st0 = "PASS" ∧ (if (st0 == "PASS" && decide (4 * dur > 5 * maxAllowed2)) = true then "WARN" else st0) = "WARN")
      split
      · rename_i hc
        rw [Bool.and_eq_true, beq_iff_eq] at hc
        exact Or.inr ⟨hc.1, rfl⟩
      · exact Or.inl rfl
    · have hsbw : sb.workers = sa.workers := by
        show (if (st != st0) = true then _ else sa).workers = sa.workers
        split <;> rfl
      have hsc : sc = (if ph = .pre then settlePre sb w res tag else settleNd sb n res tag) := by
        show (if (ph == Phase.pre) = true then _ else _) = _
        by_cases hp : ph = .pre
        · simp only [hp, if_true]; rfl
        · have : ¬ (ph == Phase.pre) = true := fun h => hp ((phase_beq_pre ph).mp h)
          simp only [hp, this, Bool.false_eq_true, if_false]; rfl
      rw [← hsc]
      have hscw : sc.workers.length = s.workers.length := by
        rw [hsc]
        split
        · show (sb.setWd w _).workers.length = _
          rw [workers_length_setWd, hsbw, hsaw]
        · show sb.workers.length = _
          rw [hsbw, hsaw]
      have hscp : (sc.wd w).path = (s.wd w).path := by
        have hsbwd : sb.wd w = s.wd w := by unfold State.wd; rw [hsbw, hsaw]
        rw [hsc]
        split
        · unfold settlePre
          rw [wd_setWd_eq sb w _ (by rw [hsbw, hsaw]; exact hw), hsbwd]
        · show (sb.wd w).path = _
          rw [hsbwd]
      exact continueAfter_eff g hwf w n ph dir fuel hf sc ok evs (by rw [hscw]; exact hw) (by rw [hscp]; exact hpath)
  | none =>
    right
    refine ⟨rfl, ?_⟩
    dsimp only
    have hc := continueAfter_eff g hwf w n ph dir fuel hf sa false evs (by rw [hsaw]; exact hw) (by rw [hsawd]; exact hpath)
    split
    · exact Or.inl rfl
    · split
      · exact Or.inl rfl
      · exact Or.inr hc

/-- shape of a whole step -/
theorem resume_eff (g : Graph) (hwf : GraphWF g) (s : State) (w : Nat) (out : Outcome) (fuel : Nat) (hf : 0 < fuel)
    (hw : w < s.workers.length) (hpath : ∀ x ∈ (s.wd w).path, x < g.nodes.length) :
    ((s.wd w).pc.isTest = false ∧
      (((Silent g w s (resume g s w out fuel).1 ∧ ((resume g s w out fuel).1.wd w).pc.isTest = false)) ∨
        ∃ s1, Silent g w s s1 ∧ StartFrom g w s1 (resume g s w out fuel).1)) ∨
    (∃ n ph dir uid tag wait, (s.wd w).pc = .test n ph dir uid tag wait ∧
      TestEff g s w n ph dir uid tag wait out (resume g s w out fuel).1) := by
  unfold resume
  cases hpc : (s.wd w).pc with
  | loop => left; exact ⟨rfl, runLoop_eff_pos g hwf w fuel hf s [] hw hpath⟩
  | bounce => left; exact ⟨rfl, runLoop_eff_pos g hwf w fuel hf s [] hw hpath⟩
  | done => left; exact ⟨rfl, Or.inl ⟨Silent.refl g w s, by rw [hpc]; rfl⟩⟩
  | failed => left; exact ⟨rfl, Or.inl ⟨Silent.refl g w s, by rw [hpc]; rfl⟩⟩
  | test n ph dir uid tag wait =>
    right
    exact ⟨n, ph, dir, uid, tag, wait, rfl, resumeTest_eff g hwf s w n ph dir uid tag wait out fuel hf hw hpath⟩

/-! ## the basic bookkeeping invariant -/

/-- the UNKNOWN placeholder of execution `tag` -/
def phOf (nm : String) (tag : Nat) : Result := { name := nm, status := "UNKNOWN", uid := "", tag := tag }

/-- "is the placeholder of execution `t`" -/
def isPh (t : Nat) (r : Result) : Bool := r.status == "UNKNOWN" && r.tag == t

def All : Nat → Prop := fun _ => True
def Ex (w : Nat) : Nat → Prop := fun v => v ≠ w

/-- Bookkeeping invariant; the clauses about a worker's pc are required for the workers in `L` only
(inside a step the stepping worker is exempt). -/
structure Basic (g : Graph) (s : State) (L : Nat → Prop) : Prop where
  nodesLen : s.nodes.length = g.nodes.length
  workersLen : s.workers.length = g.workers.length
  paths : ∀ v x, x ∈ (s.wd v).path → x < g.nodes.length
  tagPos : 1 ≤ s.nextTag
  pcOK : ∀ v n ph dir uid tag wait, L v → (s.wd v).pc = .test n ph dir uid tag wait →
    n < g.nodes.length ∧ 1 ≤ tag ∧ tag < s.nextTag ∧ ((g.node n).objectRoot = false ↔ ph = .plain) ∧
    (ph = .pre → (s.wd v).preName = preNameOf g n v)
  tagsDistinct : ∀ v v' n ph dir uid tag wait n' ph' dir' uid' tag' wait', L v → L v' → v ≠ v' →
    (s.wd v).pc = .test n ph dir uid tag wait → (s.wd v').pc = .test n' ph' dir' uid' tag' wait' → tag ≠ tag'
  placeholder : ∀ v n ph dir uid tag wait, L v → (s.wd v).pc = .test n ph dir uid tag wait →
    (ph ≠ .pre → phOf (g.node n).name tag ∈ (s.nd n).results) ∧
    (ph = .pre → phOf (s.wd v).preName tag ∈ (s.wd v).preResults)
  tagsBelow : ∀ m, (g.node m).objectRoot = false → ∀ r ∈ (s.nd m).results, r.tag < s.nextTag
  tagsOnce : ∀ m t, (g.node m).objectRoot = false → 1 ≤ t → ((s.nd m).results.filter (isPh t)).length ≤ 1

theorem Basic.mono {g : Graph} {s : State} {L L' : Nat → Prop} (b : Basic g s L) (h : ∀ v, L' v → L v) : Basic g s L' :=
  ⟨b.nodesLen, b.workersLen, b.paths, b.tagPos,
   fun v n ph dir uid tag wait hl => b.pcOK v n ph dir uid tag wait (h v hl),
   fun v v' n ph dir uid tag wait n' ph' dir' uid' tag' wait' hl hl' =>
     b.tagsDistinct v v' n ph dir uid tag wait n' ph' dir' uid' tag' wait' (h v hl) (h v' hl'),
   fun v n ph dir uid tag wait hl => b.placeholder v n ph dir uid tag wait (h v hl),
   b.tagsBelow, b.tagsOnce⟩

theorem Basic.of_eq {g : Graph} {s s' : State} {L : Nat → Prop} (b : Basic g s L)
    (hn : s'.nodes = s.nodes) (hw : s'.workers = s.workers) (ht : s'.nextTag = s.nextTag) : Basic g s' L := by
  obtain ⟨n1, r1, w1, st1, j1, t1⟩ := s
  obtain ⟨n2, r2, w2, st2, j2, t2⟩ := s'
  simp only at hn hw ht
  subst hn hw ht
  exact ⟨b.nodesLen, b.workersLen, b.paths, b.tagPos, b.pcOK, b.tagsDistinct, b.placeholder, b.tagsBelow, b.tagsOnce⟩

theorem Basic.sameBook {g : Graph} {s s' : State} {L : Nat → Prop} (b : Basic g s L) (h : SameBook s s') : Basic g s' L :=
  b.of_eq h.1 h.2.1 h.2.2

/-- a test pc after a silent effect is the old one, with the same creation copy -/
theorem Silent.back {g : Graph} {w : Nat} {s s' : State} (a : Silent g w s s') (v : Nat)
    {n : Nat} {ph : Phase} {dir : Dir} {uid : String} {tag wait : Nat}
    (h : (s'.wd v).pc = .test n ph dir uid tag wait) :
    (s.wd v).pc = .test n ph dir uid tag wait ∧ (s'.wd v).preName = (s.wd v).preName ∧
      (s'.wd v).preResults = (s.wd v).preResults := by
  by_cases hv : v = w
  · subst hv
    rcases a.pc with h' | h'
    · exact ⟨by rw [← h', h], a.preN, a.preR⟩
    · rw [h] at h'; simp [Pc.isTest] at h'
  · rw [a.others v hv] at h ⊢
    exact ⟨h, rfl, rfl⟩

theorem Basic.silent {g : Graph} {w : Nat} {s s' : State} {L : Nat → Prop} (b : Basic g s L) (a : Silent g w s s') :
    Basic g s' L where
  nodesLen := a.nodesLen.trans b.nodesLen
  workersLen := a.workersLen.trans b.workersLen
  paths := fun v x hx => by
    by_cases hv : v = w
    · subst hv; exact a.path (b.paths v) x hx
    · rw [a.others v hv] at hx; exact b.paths v x hx
  tagPos := by rw [a.tag]; exact b.tagPos
  pcOK := fun v n ph dir uid tag wait hl h => by
    obtain ⟨h0, hn, _⟩ := a.back v h
    rw [a.tag, hn]
    exact b.pcOK v n ph dir uid tag wait hl h0
  tagsDistinct := fun v v' n ph dir uid tag wait n' ph' dir' uid' tag' wait' hl hl' hne h h' =>
    b.tagsDistinct v v' n ph dir uid tag wait n' ph' dir' uid' tag' wait' hl hl' hne (a.back v h).1 (a.back v' h').1
  placeholder := fun v n ph dir uid tag wait hl h => by
    obtain ⟨h0, hn, hr⟩ := a.back v h
    rw [a.results, hn, hr]
    exact b.placeholder v n ph dir uid tag wait hl h0
  tagsBelow := fun m hm r hr => by rw [a.tag]; rw [a.results] at hr; exact b.tagsBelow m hm r hr
  tagsOnce := fun m t hm ht => by rw [a.results]; exact b.tagsOnce m t hm ht

theorem filter_isPh_nil (l : List Result) (T : Nat) (h : ∀ r ∈ l, r.tag < T) : l.filter (isPh T) = [] := by
  rw [List.filter_eq_nil_iff]
  intro r hr hp
  unfold isPh at hp
  simp only [Bool.and_eq_true, beq_iff_eq] at hp
  have := h r hr
  omega

/-- the tag counter advances and result lists stay or get the fresh placeholder appended -/
theorem Basic.grow {g : Graph} {s s' : State} {L : Nat → Prop} (b : Basic g s L)
    (hw : s'.workers = s.workers) (hl : s'.nodes.length = s.nodes.length) (ht : s'.nextTag = s.nextTag + 1)
    (x : Result) (hx : x.tag = s.nextTag)
    (hres : ∀ m, (s'.nd m).results = (s.nd m).results ∨ (s'.nd m).results = (s.nd m).results ++ [x]) : Basic g s' L := by
  have hwd : ∀ v, s'.wd v = s.wd v := fun v => by unfold State.wd; rw [hw]
  have hmem : ∀ m r, r ∈ (s.nd m).results → r ∈ (s'.nd m).results := by
    intro m r hr
    rcases hres m with h | h
    · rw [h]; exact hr
    · rw [h]; exact List.mem_append_left _ hr
  refine ⟨hl.trans b.nodesLen, by rw [hw]; exact b.workersLen, fun v x hx => by rw [hwd] at hx; exact b.paths v x hx,
    by rw [ht]; omega, ?_, ?_, ?_, ?_, ?_⟩
  · intro v n ph dir uid tag wait hlv h
    rw [hwd] at h ⊢
    have := b.pcOK v n ph dir uid tag wait hlv h
    rw [ht]
    exact ⟨this.1, this.2.1, by omega, this.2.2.2⟩
  · intro v v' n ph dir uid tag wait n' ph' dir' uid' tag' wait' hlv hlv' hne h h'
    rw [hwd] at h h'
    exact b.tagsDistinct v v' n ph dir uid tag wait n' ph' dir' uid' tag' wait' hlv hlv' hne h h'
  · intro v n ph dir uid tag wait hlv h
    rw [hwd] at h ⊢
    have := b.placeholder v n ph dir uid tag wait hlv h
    exact ⟨fun hp => hmem _ _ (this.1 hp), this.2⟩
  · intro m hm r hr
    rw [ht]
    rcases hres m with h | h
    · rw [h] at hr; have := b.tagsBelow m hm r hr; omega
    · rw [h] at hr
      rcases List.mem_append.mp hr with hr | hr
      · have := b.tagsBelow m hm r hr; omega
      · rw [List.mem_singleton.mp hr, hx]; omega
  · intro m t hm ht1
    rcases hres m with h | h
    · rw [h]; exact b.tagsOnce m t hm ht1
    · rw [h, List.filter_append, List.length_append]
      by_cases hxt : isPh t x = true
      · have : t = s.nextTag := by
          unfold isPh at hxt
          simp only [Bool.and_eq_true, beq_iff_eq] at hxt
          omega
        rw [this, filter_isPh_nil _ _ (b.tagsBelow m hm)]
        simp only [List.length_nil, Nat.zero_add]
        exact List.length_filter_le _ _
      · have : [x].filter (isPh t) = [] := by simp [hxt]
        rw [this]
        simp only [List.length_nil, Nat.add_zero]
        exact b.tagsOnce m t hm ht1

/-- any update of the stepping worker's record that keeps its path inside the graph -/
theorem Basic.setWd_ex {g : Graph} {s : State} {w : Nat} (b : Basic g s (Ex w)) (f : WorkerD → WorkerD)
    (hp : ∀ x ∈ (f (s.wd w)).path, x < g.nodes.length) : Basic g (s.setWd w f) (Ex w) := by
  have hwd : ∀ v, v ≠ w → (s.setWd w f).wd v = s.wd v := fun v hv => wd_setWd_ne s w v f hv
  refine ⟨b.nodesLen, (workers_length_setWd s w f).trans b.workersLen, ?_, b.tagPos, ?_, ?_, ?_, b.tagsBelow, b.tagsOnce⟩
  · intro v x hx
    by_cases hv : v = w
    · subst hv
      rcases wd_setWd_cases s v f with ⟨h, _⟩ | ⟨_, h⟩
      · rw [h] at hx; exact b.paths v x hx
      · rw [h] at hx; exact hp x hx
    · rw [hwd v hv] at hx; exact b.paths v x hx
  · intro v n ph dir uid tag wait hlv h
    rw [hwd v hlv] at h ⊢
    exact b.pcOK v n ph dir uid tag wait hlv h
  · intro v v' n ph dir uid tag wait n' ph' dir' uid' tag' wait' hlv hlv' hne h h'
    rw [hwd v hlv] at h; rw [hwd v' hlv'] at h'
    exact b.tagsDistinct v v' n ph dir uid tag wait n' ph' dir' uid' tag' wait' hlv hlv' hne h h'
  · intro v n ph dir uid tag wait hlv h
    rw [hwd v hlv] at h ⊢
    exact b.placeholder v n ph dir uid tag wait hlv h

theorem Basic.close_nontest {g : Graph} {s : State} {w : Nat} (b : Basic g s (Ex w)) (h : (s.wd w).pc.isTest = false) :
    Basic g s All := by
  have hne : ∀ v n ph dir uid tag wait, (s.wd v).pc = .test n ph dir uid tag wait → v ≠ w := by
    intro v n ph dir uid tag wait hv hvw
    subst hvw; rw [hv] at h; simp [Pc.isTest] at h
  exact ⟨b.nodesLen, b.workersLen, b.paths, b.tagPos,
    fun v n ph dir uid tag wait _ hp => b.pcOK v n ph dir uid tag wait (hne _ _ _ _ _ _ _ hp) hp,
    fun v v' n ph dir uid tag wait n' ph' dir' uid' tag' wait' _ _ hvv hp hp' =>
      b.tagsDistinct v v' n ph dir uid tag wait n' ph' dir' uid' tag' wait' (hne _ _ _ _ _ _ _ hp) (hne _ _ _ _ _ _ _ hp') hvv hp hp',
    fun v n ph dir uid tag wait _ hp => b.placeholder v n ph dir uid tag wait (hne _ _ _ _ _ _ _ hp) hp,
    b.tagsBelow, b.tagsOnce⟩

/-- the stepping worker ends in a test pc whose clauses are supplied -/
theorem Basic.close_test {g : Graph} {s : State} {w : Nat} (b : Basic g s (Ex w))
    {n : Nat} {ph : Phase} {dir : Dir} {uid : String} {tag wait : Nat}
    (hpc : (s.wd w).pc = .test n ph dir uid tag wait)
    (h1 : n < g.nodes.length ∧ 1 ≤ tag ∧ tag < s.nextTag ∧ ((g.node n).objectRoot = false ↔ ph = .plain) ∧
      (ph = .pre → (s.wd w).preName = preNameOf g n w))
    (h2 : ∀ v n' ph' dir' uid' tag' wait', v ≠ w → (s.wd v).pc = .test n' ph' dir' uid' tag' wait' → tag' ≠ tag)
    (h3 : (ph ≠ .pre → phOf (g.node n).name tag ∈ (s.nd n).results) ∧
      (ph = .pre → phOf (s.wd w).preName tag ∈ (s.wd w).preResults)) : Basic g s All := by
  refine ⟨b.nodesLen, b.workersLen, b.paths, b.tagPos, ?_, ?_, ?_, b.tagsBelow, b.tagsOnce⟩
  · intro v n' ph' dir' uid' tag' wait' _ hp
    by_cases hv : v = w
    · subst hv
      rw [hpc] at hp
      cases hp
      exact h1
    · exact b.pcOK v n' ph' dir' uid' tag' wait' hv hp
  · intro v v' n1 ph1 dir1 uid1 tag1 wait1 n2 ph2 dir2 uid2 tag2 wait2 _ _ hvv hp hp'
    by_cases hv : v = w
    · subst hv
      rw [hpc] at hp; cases hp
      exact fun e => h2 v' n2 ph2 dir2 uid2 tag2 wait2 (Ne.symm hvv) hp' e.symm
    · by_cases hv' : v' = w
      · subst hv'
        rw [hpc] at hp'; cases hp'
        exact h2 v n1 ph1 dir1 uid1 tag1 wait1 hv hp
      · exact b.tagsDistinct v v' n1 ph1 dir1 uid1 tag1 wait1 n2 ph2 dir2 uid2 tag2 wait2 hv hv' hvv hp hp'
  · intro v n' ph' dir' uid' tag' wait' _ hp
    by_cases hv : v = w
    · subst hv
      rw [hpc] at hp; cases hp
      exact h3
    · exact b.placeholder v n' ph' dir' uid' tag' wait' hv hp

theorem filter_filter_length_le (l : List Result) (p q : Result → Bool) :
    ((l.filter p).filter q).length ≤ (l.filter q).length := by
  rw [List.filter_filter]
  have : (l.filter (fun a => q a && p a)) = (l.filter q).filter p := by rw [List.filter_filter]; congr 1; funext a; exact Bool.and_comm _ _
  rw [this]
  exact List.length_filter_le _ _

theorem isPh_phOf (nm : String) (t t' : Nat) : isPh t (phOf nm t') = (t' == t) := by
  unfold isPh phOf
  simp

/-- the result of the awaited test replaces its placeholder (test proper) -/
theorem Basic.settle {g : Graph} {s : State} {w : Nat} (b : Basic g s All)
    {n : Nat} {ph : Phase} {dir : Dir} {uid : String} {tag wait : Nat}
    (hpc : (s.wd w).pc = .test n ph dir uid tag wait) (res : Result) (hres : res.tag = 0) :
    Basic g (settleNd s n res tag) (Ex w) := by
  unfold settleNd
  refine ⟨(nodes_length_setNd s n _).trans b.nodesLen, b.workersLen, b.paths, b.tagPos,
    fun v n' ph' dir' uid' tag' wait' _ hp => b.pcOK v n' ph' dir' uid' tag' wait' trivial hp,
    fun v v' n1 ph1 dir1 uid1 tag1 wait1 n2 ph2 dir2 uid2 tag2 wait2 _ _ hvv hp hp' =>
      b.tagsDistinct v v' n1 ph1 dir1 uid1 tag1 wait1 n2 ph2 dir2 uid2 tag2 wait2 trivial trivial hvv hp hp', ?_, ?_, ?_⟩
  · intro v n' ph' dir' uid' tag' wait' hv hp
    have old := b.placeholder v n' ph' dir' uid' tag' wait' trivial hp
    refine ⟨fun hph' => ?_, old.2⟩
    have hne : tag' ≠ tag := b.tagsDistinct v w n' ph' dir' uid' tag' wait' n ph dir uid tag wait trivial trivial hv hp hpc
    rcases nd_setNd_cases s n (fun d => { d with results := (d.results ++ [res]).filter (fun r => !(r.status == "UNKNOWN" && r.tag == tag)) }) n' with h | ⟨_, _, h⟩
    · rw [h]; exact old.1 hph'
    · rw [h]
      refine List.mem_filter.mpr ⟨List.mem_append_left _ (old.1 hph'), ?_⟩
      have := isPh_phOf (g.node n').name tag tag'
      unfold isPh at this
      rw [this]
      simp [hne]
  · intro m hm r hr
    rcases nd_setNd_cases s n (fun d => { d with results := (d.results ++ [res]).filter (fun r => !(r.status == "UNKNOWN" && r.tag == tag)) }) m with h | ⟨_, _, h⟩
    · rw [h] at hr; exact b.tagsBelow m hm r hr
    · rw [h] at hr
      rcases List.mem_append.mp (List.mem_filter.mp hr).1 with hr | hr
      · exact b.tagsBelow m hm r hr
      · rw [List.mem_singleton.mp hr, hres]; exact b.tagPos
  · intro m t hm ht
    rcases nd_setNd_cases s n (fun d => { d with results := (d.results ++ [res]).filter (fun r => !(r.status == "UNKNOWN" && r.tag == tag)) }) m with h | ⟨_, _, h⟩
    · rw [h]; exact b.tagsOnce m t hm ht
    · rw [h]
      refine Nat.le_trans (filter_filter_length_le _ _ _) ?_
      rw [List.filter_append, List.length_append]
      have : [res].filter (isPh t) = [] := by
        have : isPh t res = false := by
          unfold isPh; rw [hres]
          have : (0 == t) = false := by simp; omega
          rw [this]; simp
        simp [this]
      rw [this]
      simp only [List.length_nil, Nat.add_zero]
      exact b.tagsOnce m t hm ht

theorem Basic.settlePre {g : Graph} {s : State} {w : Nat} (b : Basic g s All) (res : Result) (tag : Nat) :
    Basic g (settlePre s w res tag) (Ex w) :=
  (b.mono (fun _ _ => trivial)).setWd_ex _ (fun x hx => b.paths w x hx)

/-- results are appended to an object root -/
theorem Basic.extendRoot {g : Graph} {s : State} {L : Nat → Prop} (b : Basic g s L) (n : Nat) (F : NodeD → List Result)
    (hroot : (g.node n).objectRoot = true) :
    Basic g (s.setNd n (fun d => { d with results := d.results ++ F d })) L := by
  have hnr : ∀ m, (g.node m).objectRoot = false → m ≠ n := by
    intro m hm hmn; subst hmn; rw [hroot] at hm; cases hm
  refine ⟨(nodes_length_setNd s n _).trans b.nodesLen, b.workersLen, b.paths, b.tagPos, b.pcOK, b.tagsDistinct, ?_, ?_, ?_⟩
  · intro v n' ph' dir' uid' tag' wait' hl hp
    have old := b.placeholder v n' ph' dir' uid' tag' wait' hl hp
    refine ⟨fun hph' => ?_, old.2⟩
    rcases nd_setNd_cases s n (fun d => { d with results := d.results ++ F d }) n' with h | ⟨_, _, h⟩
    · rw [h]; exact old.1 hph'
    · rw [h]; exact List.mem_append_left _ (old.1 hph')
  · intro m hm r hr
    rw [nd_setNd_ne s n m _ (hnr m hm)] at hr
    exact b.tagsBelow m hm r hr
  · intro m t hm ht
    rw [nd_setNd_ne s n m _ (hnr m hm)]
    exact b.tagsOnce m t hm ht

/-- the awaited result has not arrived: the worker sleeps once more -/
theorem Basic.wait {g : Graph} {s : State} {w : Nat} (b : Basic g s All)
    {n : Nat} {ph : Phase} {dir : Dir} {uid : String} {tag wait : Nat}
    (hpc : (s.wd w).pc = .test n ph dir uid tag wait) (hw : w < s.workers.length) (wait' : Nat) :
    Basic g (s.setWd w (fun d => { d with pc := .test n ph dir uid tag wait' })) All := by
  have b1 : Basic g (s.setWd w (fun d => { d with pc := .test n ph dir uid tag wait' })) (Ex w) :=
    (b.mono (fun _ _ => trivial)).setWd_ex _ (fun x hx => b.paths w x hx)
  have hwd : (s.setWd w (fun d => { d with pc := .test n ph dir uid tag wait' })).wd w =
      { s.wd w with pc := .test n ph dir uid tag wait' } := wd_setWd_eq s w _ hw
  refine b1.close_test (by rw [hwd]) ?_ ?_ ?_
  · rw [hwd]; exact b.pcOK w n ph dir uid tag wait trivial hpc
  · intro v n' ph' dir' uid' tag' wait'' hv hp
    rw [wd_setWd_ne s w v _ hv] at hp
    exact b.tagsDistinct v w n' ph' dir' uid' tag' wait'' n ph dir uid tag wait trivial trivial hv hp hpc
  · rw [hwd]; exact b.placeholder w n ph dir uid tag wait trivial hpc

theorem startTest_nonpre_fst (g : Graph) (s : State) (n w : Nat) (ph : Phase) (dir : Dir) (hph : ph ≠ .pre) :
    (startTest g s n w ph dir).1 =
      (({ s with nextTag := s.nextTag + 1 }).setNd n (fun d => { d with results := d.results ++ [phOf (g.node n).name s.nextTag] })).setWd w
        (fun d => { d with pc := .test n ph dir (uidOf (g.node n).pfx (sharedResults g s n).length) s.nextTag 0 }) := by
  cases ph
  · rfl
  · exact absurd rfl hph
  · rfl

theorem startTest_pre_fst (g : Graph) (s : State) (n w : Nat) (dir : Dir) :
    (startTest g s n w .pre dir).1 =
      ({ s with nextTag := s.nextTag + 1 }).setWd w (fun d => { d with
        preResults := d.preResults ++ [phOf (s.wd w).preName s.nextTag],
        pc := .test n .pre dir (uidOf "0" (s.wd w).preResults.length) s.nextTag 0 }) := rfl

theorem Basic.startNonPre {g : Graph} {s : State} {w : Nat} (b : Basic g s (Ex w)) (n : Nat) (ph : Phase) (dir : Dir)
    (hn : n < g.nodes.length) (hw : w < g.workers.length) (hph : ph ≠ .pre)
    (hroot : (g.node n).objectRoot = false ↔ ph = .plain) : Basic g (startTest g s n w ph dir).1 All := by
  rw [startTest_nonpre_fst g s n w ph dir hph]
  have hns : n < ({ s with nextTag := s.nextTag + 1 } : State).nodes.length := by show n < s.nodes.length; rw [b.nodesLen]; exact hn
  have ba : Basic g (({ s with nextTag := s.nextTag + 1 }).setNd n
      (fun d => { d with results := d.results ++ [phOf (g.node n).name s.nextTag] })) (Ex w) := by
    refine b.grow rfl (nodes_length_setNd _ _ _) rfl (phOf (g.node n).name s.nextTag) rfl (fun m => ?_)
    rcases nd_setNd_cases ({ s with nextTag := s.nextTag + 1 }) n
      (fun d => { d with results := d.results ++ [phOf (g.node n).name s.nextTag] }) m with h | ⟨_, _, h⟩
    · left; rw [h]; rfl
    · right; rw [h]; rfl
  generalize hsa : (({ s with nextTag := s.nextTag + 1 } : State).setNd n
      (fun d => { d with results := d.results ++ [phOf (g.node n).name s.nextTag] })) = sa at ba
  have hsaw : sa.workers = s.workers := by rw [← hsa]; rfl
  have hsat : sa.nextTag = s.nextTag + 1 := by rw [← hsa]; rfl
  have hsawd : ∀ v, sa.wd v = s.wd v := fun v => by rw [← hsa]; rfl
  have hsan : (sa.nd n).results = (s.nd n).results ++ [phOf (g.node n).name s.nextTag] := by
    rw [← hsa, nd_setNd_eq _ n _ hns]; rfl
  have hws : w < sa.workers.length := by rw [hsaw, b.workersLen]; exact hw
  have b1 := ba.setWd_ex (fun d => { d with pc := .test n ph dir (uidOf (g.node n).pfx (sharedResults g s n).length) s.nextTag 0 })
    (fun x hx => ba.paths w x hx)
  have hwd := wd_setWd_eq sa w (fun d => { d with pc := .test n ph dir (uidOf (g.node n).pfx (sharedResults g s n).length) s.nextTag 0 }) hws
  refine b1.close_test (by rw [hwd]) ?_ ?_ ?_
  · refine ⟨hn, b.tagPos, ?_, hroot, fun h => absurd h hph⟩
    show s.nextTag < sa.nextTag
    rw [hsat]; omega
  · intro v n' ph' dir' uid' tag' wait' hv hp
    rw [wd_setWd_ne sa w v _ hv, hsawd] at hp
    have := (b.pcOK v n' ph' dir' uid' tag' wait' hv hp).2.2.1
    omega
  · refine ⟨fun _ => ?_, fun h => absurd h hph⟩
    show phOf (g.node n).name s.nextTag ∈ (sa.nd n).results
    rw [hsan]; exact List.mem_append_right _ (List.mem_singleton.mpr rfl)

theorem Basic.startPre {g : Graph} {s : State} {w : Nat} (b : Basic g s (Ex w)) (n : Nat) (dir : Dir)
    (hn : n < g.nodes.length) (hw : w < g.workers.length) (hroot : (g.node n).objectRoot = true) :
    Basic g (startTest g (s.setWd w (fun d => { d with preResults := (s.nd n).results, preName := preNameOf g n w })) n w .pre dir).1 All := by
  rw [startTest_pre_fst]
  have hws : w < s.workers.length := by rw [b.workersLen]; exact hw
  have b0 := b.setWd_ex (fun d => { d with preResults := (s.nd n).results, preName := preNameOf g n w }) (fun x hx => b.paths w x hx)
  have hwd0 := wd_setWd_eq s w (fun d => { d with preResults := (s.nd n).results, preName := preNameOf g n w }) hws
  have hs0v : ∀ v, v ≠ w → (s.setWd w (fun d => { d with preResults := (s.nd n).results, preName := preNameOf g n w })).wd v = s.wd v :=
    fun v hv => wd_setWd_ne s w v _ hv
  have hs0t : (s.setWd w (fun d => { d with preResults := (s.nd n).results, preName := preNameOf g n w })).nextTag = s.nextTag := rfl
  generalize (s.setWd w (fun d => { d with preResults := (s.nd n).results, preName := preNameOf g n w })) = s0 at b0 hwd0 hs0v hs0t ⊢
  have b1 : Basic g ({ s0 with nextTag := s0.nextTag + 1 }) (Ex w) :=
    b0.grow rfl rfl rfl (phOf "" s0.nextTag) rfl (fun m => Or.inl rfl)
  have hws0 : w < ({ s0 with nextTag := s0.nextTag + 1 } : State).workers.length := by
    show w < s0.workers.length; rw [b0.workersLen]; exact hw
  have b2 := b1.setWd_ex (fun d => { d with
        preResults := d.preResults ++ [phOf (s0.wd w).preName s0.nextTag],
        pc := .test n .pre dir (uidOf "0" (s0.wd w).preResults.length) s0.nextTag 0 }) (fun x hx => b0.paths w x hx)
  have hwd := wd_setWd_eq ({ s0 with nextTag := s0.nextTag + 1 }) w (fun d => { d with
        preResults := d.preResults ++ [phOf (s0.wd w).preName s0.nextTag],
        pc := .test n .pre dir (uidOf "0" (s0.wd w).preResults.length) s0.nextTag 0 }) hws0
  have hpn : (s0.wd w).preName = preNameOf g n w := by rw [hwd0]
  refine b2.close_test (by rw [hwd]) ?_ ?_ ?_
  · refine ⟨hn, b0.tagPos, ?_, ?_, fun _ => ?_⟩
    · show s0.nextTag < s0.nextTag + 1
      omega
    · rw [hroot]; constructor <;> intro h <;> cases h
    · rw [hwd]; exact hpn
  · intro v n' ph' dir' uid' tag' wait' hv hp
    rw [wd_setWd_ne _ w v _ hv] at hp
    have hp' : (s.wd v).pc = .test n' ph' dir' uid' tag' wait' := by rw [← hs0v v hv]; exact hp
    have := (b.pcOK v n' ph' dir' uid' tag' wait' hv hp').2.2.1
    omega
  · refine ⟨fun h => absurd rfl h, fun _ => ?_⟩
    rw [hwd]
    exact List.mem_append_right _ (List.mem_singleton.mpr rfl)

theorem Basic.startFrom {g : Graph} {s1 s' : State} {w : Nat} (b : Basic g s1 (Ex w)) (h : StartFrom g w s1 s')
    (hw : w < g.workers.length) : Basic g s' All := by
  cases h with
  | plain n dir s0 evs gv hgv hn hroot hdec h =>
    rw [h]
    exact b.startNonPre n .plain dir hn hw (by decide) ⟨fun _ => rfl, fun _ => hroot⟩
  | pre n dir hn hroot h =>
    rw [h]
    exact b.startPre n dir hn hw hroot

theorem Basic.cont {g : Graph} {sc s' : State} {w n : Nat} {ph : Phase} {dir : Dir} {ok : Bool} (b : Basic g sc (Ex w))
    (h : ContEff g w n ph dir sc ok s') (hn : n < g.nodes.length) (hw : w < g.workers.length)
    (hroot : (g.node n).objectRoot = false ↔ ph = .plain) : Basic g s' All := by
  rcases h with ⟨hp, _, h⟩ | ⟨_, h⟩
  · rw [h]
    refine b.startNonPre n .main dir hn hw (by decide) ?_
    rw [hp] at hroot
    constructor
    · intro h; exact absurd (hroot.mp h) (by decide)
    · intro h; cases h
  · have bd : Basic g (if ph = .pre then appendPre sc n w else sc) (Ex w) := by
      split
      · rename_i hp
        rw [hp] at hroot
        have hr : (g.node n).objectRoot = true := by
          cases hc : (g.node n).objectRoot
          · exact absurd (hroot.mp hc) (by decide)
          · rfl
        exact b.extendRoot n _ hr
      · exact b
    rcases h with ⟨a, hpc⟩ | ⟨s1, a, hs⟩
    · exact (bd.silent a).close_nontest hpc
    · exact (bd.silent a).startFrom hs hw

theorem find?_append_singleton_ne_none {α} (l : List α) (x : α) (p : α → Bool) (hx : p x = true) :
    (l ++ [x]).find? p ≠ none := by
  intro h
  rw [List.find?_eq_none] at h
  have := h x (List.mem_append_right _ (List.mem_singleton.mpr rfl))
  exact this hx

/-- the basic invariant is preserved by every step with fuel -/
theorem Basic.step {g : Graph} (hwf : GraphWF g) {s : State} (b : Basic g s All) (w : Nat) (out : Outcome) (fuel : Nat)
    (hw : w < g.workers.length) (hf : 0 < fuel) : Basic g (resume g s w out fuel).1 All := by
  have hws : w < s.workers.length := by rw [b.workersLen]; exact hw
  rcases resume_eff g hwf s w out fuel hf hws (b.paths w) with ⟨_, h⟩ | ⟨n, ph, dir, uid, tag, wait, hpc, sa, hrep, h⟩
  · rcases h with ⟨a, _⟩ | ⟨s1, a, hs⟩
    · exact b.silent a
    · exact ((b.silent a).mono (fun _ _ => trivial)).startFrom hs hw
  · have hsb : SameBook s sa := by
      rcases hrep with ⟨h, _⟩ | ⟨_, _, _, h, _⟩
      · rw [h]; exact ⟨rfl, rfl, rfl⟩
      · exact h
    have ba : Basic g sa All := b.sameBook hsb
    have hpca : (sa.wd w).pc = .test n ph dir uid tag wait := by rw [hsb.wd]; exact hpc
    have hok := b.pcOK w n ph dir uid tag wait trivial hpc
    rcases h with ⟨e, _, sb, res, ok, hsab, _, ⟨hres, _⟩, hc⟩ | ⟨_, h | hc⟩
    · have bb : Basic g sb All := ba.sameBook hsab
      have hpcb : (sb.wd w).pc = .test n ph dir uid tag wait := by rw [hsab.wd]; exact hpca
      refine Basic.cont (sc := if ph = .pre then I2N.Trav.settlePre sb w res tag else settleNd sb n res tag) ?_ hc hok.1 hw hok.2.2.2.1
      split
      · exact bb.settlePre res tag
      · exact bb.settle hpcb res hres
    · rw [h]
      exact ba.wait hpca (by rw [hsb.2.1]; exact hws) (wait + 1)
    · exact (ba.mono (fun _ _ => trivial)).cont hc hok.1 hw hok.2.2.2.1

theorem Basic.init (g : Graph) (hwf : GraphWF g) (ncls : Nat) (store : List (String × List (String × String))) (hidden : List Nat) :
    Basic g (initState g ncls store hidden) All := by
  have hnd : ∀ m, ((initState g ncls store hidden).nd m).results = [] := by
    intro m
    unfold initState State.nd
    simp only [List.getD_eq_getElem?_getD, List.getElem?_map]
    cases g.nodes[m]? <;> rfl
  have hwd : ∀ v, ((initState g ncls store hidden).wd v) = { path := [g.root] } ∨ ((initState g ncls store hidden).wd v) = {} := by
    intro v
    unfold initState State.wd
    simp only [List.getD_eq_getElem?_getD, List.getElem?_map]
    cases g.workers[v]?
    · right; rfl
    · left; rfl
  have hpc : ∀ v, ((initState g ncls store hidden).wd v).pc.isTest = false := by
    intro v; rcases hwd v with h | h <;> rw [h] <;> rfl
  have hnt : ∀ v n ph dir uid tag wait, ((initState g ncls store hidden).wd v).pc ≠ .test n ph dir uid tag wait := by
    intro v n ph dir uid tag wait h
    have := hpc v; rw [h] at this; simp [Pc.isTest] at this
  refine ⟨by simp [initState], by simp [initState], ?_, by simp [initState], ?_, ?_, ?_, ?_, ?_⟩
  · intro v x hx
    rcases hwd v with h | h
    · rw [h] at hx
      have : x = g.root := by simpa using hx
      rw [this]; exact hwf.root_lt
    · rw [h] at hx; simp at hx
  · intro v n ph dir uid tag wait _ h; exact absurd h (hnt _ _ _ _ _ _ _)
  · intro v v' n ph dir uid tag wait n' ph' dir' uid' tag' wait' _ _ _ h; exact absurd h (hnt _ _ _ _ _ _ _)
  · intro v n ph dir uid tag wait _ h; exact absurd h (hnt _ _ _ _ _ _ _)
  · intro m _ r hr; rw [hnd] at hr; simp at hr
  · intro m t _ _; rw [hnd]; simp

/-- states reachable from the initial state by steps of real workers with fuel (the fuel only bounds the
number of loop iterations of one step in the driver; with fuel 0 a step may stop before the pc is reset) -/
inductive ReachableR (g : Graph) (ncls : Nat) (store : List (String × List (String × String))) : State → Prop
  | init (hidden : List Nat) : ReachableR g ncls store (initState g ncls store hidden)
  | step {s : State} (w : Nat) (out : Outcome) (fuel : Nat) :
      ReachableR g ncls store s → w < g.workers.length → 0 < fuel → ReachableR g ncls store (resume g s w out fuel).1

theorem ReachableR.basic {g : Graph} (hwf : graphWF g = true) {ncls : Nat} {store : List (String × List (String × String))}
    {s : State} (h : ReachableR g ncls store s) : Basic g s All := by
  induction h with
  | init hidden => exact Basic.init g (GraphWF.of_bool hwf) ncls store hidden
  | step w out fuel _ hw hf ih => exact ih.step (GraphWF.of_bool hwf) w out fuel hw hf

/-! ## counting the results of a class -/

/-- total number of results of the copies of class `c` -/
def classLen (g : Graph) (s : State) (c : Nat) : Nat :=
  ((g.classNodes c).map (fun j => (s.nd j).results.length)).sum

theorem nodup_classNodes (g : Graph) (c : Nat) : (g.classNodes c).Nodup := by
  unfold Graph.classNodes
  exact List.Nodup.sublist List.filter_sublist List.nodup_range

theorem sum_map_le (l : List Nat) (f f' : Nat → Nat) (h : ∀ j ∈ l, f j ≤ f' j) : (l.map f).sum ≤ (l.map f').sum := by
  induction l with
  | nil => simp
  | cons a r ih =>
    simp only [List.map_cons, List.sum_cons]
    have := h a List.mem_cons_self
    have := ih (fun j hj => h j (List.mem_cons_of_mem _ hj))
    omega

theorem sum_map_congr (l : List Nat) (f f' : Nat → Nat) (h : ∀ j ∈ l, f j = f' j) : (l.map f).sum = (l.map f').sum := by
  have a := sum_map_le l f f' (fun j hj => Nat.le_of_eq (h j hj))
  have b := sum_map_le l f' f (fun j hj => Nat.le_of_eq (h j hj).symm)
  omega

theorem sum_map_succ (l : List Nat) (hl : l.Nodup) (n : Nat) (hn : n ∈ l) (f f' : Nat → Nat) (h1 : f' n = f n + 1)
    (h2 : ∀ j ∈ l, j ≠ n → f' j = f j) : (l.map f').sum = (l.map f).sum + 1 := by
  induction l with
  | nil => simp at hn
  | cons a r ih =>
    simp only [List.map_cons, List.sum_cons]
    rw [List.nodup_cons] at hl
    by_cases ha : a = n
    · subst ha
      have : (r.map f').sum = (r.map f).sum :=
        sum_map_congr r f' f (fun j hj => h2 j (List.mem_cons_of_mem _ hj) (fun e => hl.1 (e ▸ hj)))
      omega
    · have hnr : n ∈ r := by
        rcases List.mem_cons.mp hn with h | h
        · exact absurd h.symm ha
        · exact h
      have := ih hl.2 hnr (fun j hj => h2 j (List.mem_cons_of_mem _ hj))
      have := h2 a List.mem_cons_self ha
      omega

theorem sum_map_split (l : List Nat) (hl : l.Nodup) (n : Nat) (hn : n ∈ l) (f : Nat → Nat) :
    f n + ((l.filter (· != n)).map f).sum = (l.map f).sum := by
  induction l with
  | nil => simp at hn
  | cons a r ih =>
    rw [List.nodup_cons] at hl
    by_cases ha : a = n
    · subst ha
      have : (a :: r).filter (· != a) = r := by
        rw [List.filter_cons]
        simp only [bne_self_eq_false, Bool.false_eq_true, if_false]
        rw [List.filter_eq_self]
        intro j hj
        simp only [bne_iff_ne, ne_eq]
        exact fun e => hl.1 (e ▸ hj)
      rw [this]; simp
    · have hnr : n ∈ r := by
        rcases List.mem_cons.mp hn with h | h
        · exact absurd h.symm ha
        · exact h
      have := ih hl.2 hnr
      rw [List.filter_cons]
      have hb : (a != n) = true := by simpa using ha
      simp only [hb, if_true, List.map_cons, List.sum_cons]
      omega

/-- the shared results of a (non-flat) copy number as many as the results of its class -/
theorem sharedResults_length (g : Graph) (s : State) (i : Nat) (hi : i < g.nodes.length) (hflat : (g.node i).flat = false) :
    (sharedResults g s i).length = classLen g s (g.node i).cls := by
  unfold sharedResults Graph.copies classLen
  simp only [hflat, Bool.false_eq_true, if_false, List.length_flatMap, List.map_cons, List.sum_cons]
  exact sum_map_split _ (nodup_classNodes g _) i ((mem_classNodes g _ i).mpr ⟨hi, rfl⟩) (fun j => (s.nd j).results.length)

/-- no copy of the class is an object root -/
def goodClass (g : Graph) (c : Nat) : Bool := (g.classNodes c).all (fun j => !(g.node j).objectRoot)

/-- a parsed (non-flat) copy of a class without object roots -/
def good (g : Graph) (i : Nat) : Bool := decide (i < g.nodes.length) && !(g.node i).flat && goodClass g (g.node i).cls

theorem good_spec {g : Graph} {i : Nat} (h : good g i = true) :
    i < g.nodes.length ∧ (g.node i).flat = false ∧ goodClass g (g.node i).cls = true ∧ (g.node i).objectRoot = false := by
  unfold good at h
  simp only [Bool.and_eq_true, decide_eq_true_eq, Bool.not_eq_true'] at h
  refine ⟨h.1.1, h.1.2, h.2, ?_⟩
  have := h.2
  unfold goodClass at this
  rw [List.all_eq_true] at this
  have := this i ((mem_classNodes g _ i).mpr ⟨h.1.1, rfl⟩)
  simpa using this

theorem goodClass_notRoot {g : Graph} {c j : Nat} (h : goodClass g c = true) (hj : j ∈ g.classNodes c) :
    (g.node j).objectRoot = false := by
  unfold goodClass at h
  rw [List.all_eq_true] at h
  simpa using h j hj

theorem classLen_mono {g : Graph} {s s' : State} {c : Nat} (hc : goodClass g c = true)
    (h : ∀ j, (g.node j).objectRoot = false → (s.nd j).results.length ≤ (s'.nd j).results.length) :
    classLen g s c ≤ classLen g s' c :=
  sum_map_le _ _ _ (fun j hj => h j (goodClass_notRoot hc hj))

theorem classLen_anti {g : Graph} {s s' : State} {c : Nat} (hc : goodClass g c = true)
    (h : ∀ j, (g.node j).objectRoot = false → (s'.nd j).results.length ≤ (s.nd j).results.length) :
    classLen g s' c ≤ classLen g s c :=
  sum_map_le _ _ _ (fun j hj => h j (goodClass_notRoot hc hj))

theorem classLen_succ {g : Graph} {s s' : State} {c n : Nat} (hn : n < g.nodes.length) (hc : (g.node n).cls = c)
    (h1 : (s'.nd n).results.length = (s.nd n).results.length + 1)
    (h2 : ∀ j, j ≠ n → (s'.nd j).results.length = (s.nd j).results.length) :
    classLen g s' c = classLen g s c + 1 :=
  sum_map_succ _ (nodup_classNodes g c) n ((mem_classNodes g c n).mpr ⟨hn, hc⟩) _ _ h1 (fun j _ hj => h2 j hj)

theorem classLen_other {g : Graph} {s s' : State} {c n : Nat} (hc : (g.node n).cls ≠ c)
    (h2 : ∀ j, j ≠ n → (s'.nd j).results.length = (s.nd j).results.length) :
    classLen g s' c = classLen g s c :=
  sum_map_congr _ _ _ (fun j hj => h2 j (fun e => hc (e ▸ ((mem_classNodes g c j).mp hj).2)))

/-- `uidOf` is injective in the retry counter -/
theorem uidOf_inj (p : String) {k k' : Nat} (h : uidOf p k = uidOf p k') : k = k' := by
  unfold uidOf at h
  have hlen : ∀ n : Nat, (p ++ "r" ++ toString n).length = p.length + 1 + (toString n).length := by
    intro n; simp only [String.length_append]; rfl
  by_cases hk : k > 0 <;> by_cases hk' : k' > 0
  · simp only [hk, hk', if_true] at h
    have h2 : (p ++ "r" ++ toString k).toList = (p ++ "r" ++ toString k').toList := by rw [h]
    simp only [String.toList_append, List.append_assoc] at h2
    have h3 := List.append_cancel_left (List.append_cancel_left h2)
    have h4 : toString k = toString k' := String.ext_iff.mpr h3
    exact Nat.repr_inj.mp h4
  · simp only [hk, hk', if_true, if_false] at h
    have := congrArg String.length h; rw [hlen] at this; omega
  · simp only [hk, hk', if_true, if_false] at h
    have := congrArg String.length h; rw [hlen] at this; omega
  · omega

theorem filter_length_split (l : List Result) (p : Result → Bool) :
    (l.filter p).length + (l.filter (fun r => !p r)).length = l.length := by
  induction l with
  | nil => rfl
  | cons a r ih =>
    simp only [List.filter_cons]
    cases hp : p a <;> simp <;> omega

theorem settle_len (l : List Result) (res : Result) (tag : Nat) (hres : isPh tag res = false) :
    ((l ++ [res]).filter (fun r => !isPh tag r)).length + (l.filter (isPh tag)).length = l.length + 1 := by
  rw [List.filter_append, List.length_append]
  have : [res].filter (fun r => !isPh tag r) = [res] := by simp [hres]
  rw [this]
  have := filter_length_split l (isPh tag)
  simp only [List.length_singleton]
  omega

theorem isPh_res_false (res : Result) (tag : Nat) (hres : res.tag = 0) (ht : 1 ≤ tag) : isPh tag res = false := by
  unfold isPh
  rw [hres]
  have : (0 == tag) = false := by simp; omega
  rw [this]; simp

/-- effect of `settleNd` on the length of every result list -/
theorem settleNd_results (s : State) (n : Nat) (res : Result) (tag : Nat) (j : Nat) :
    ((settleNd s n res tag).nd j).results = (s.nd j).results ∨
    (j = n ∧ ((settleNd s n res tag).nd j).results = ((s.nd j).results ++ [res]).filter (fun r => !isPh tag r)) := by
  unfold settleNd
  rcases nd_setNd_cases s n (fun d => { d with results := (d.results ++ [res]).filter (fun r => !(r.status == "UNKNOWN" && r.tag == tag)) }) j with h | ⟨h1, _, h⟩
  · left; rw [h]
  · right; exact ⟨h1, by rw [h]; rfl⟩

/-! ## identifiers -/

/-- names of distinct copies differ -/
def NamesInj (g : Graph) : Prop :=
  ∀ i j, i < g.nodes.length → j < g.nodes.length → (g.node i).name = (g.node j).name → i = j

/-- no test proper of a class without object roots is named like a creation pre-step -/
def PreNamesFresh (g : Graph) : Prop :=
  ∀ i m v, i < g.nodes.length → m < g.nodes.length → v < g.workers.length → good g i = true →
    (g.node i).name ≠ preNameOf g m v

/-- "is the name of a parsed copy of a class without object roots" -/
def goodName (g : Graph) (nm : String) : Bool :=
  (List.range g.nodes.length).any (fun i => good g i && (g.node i).name == nm)

theorem goodName_spec {g : Graph} {nm : String} (h : goodName g nm = true) : ∃ i, good g i = true ∧ (g.node i).name = nm := by
  unfold goodName at h
  rw [List.any_eq_true] at h
  obtain ⟨i, _, hi⟩ := h
  simp only [Bool.and_eq_true, beq_iff_eq] at hi
  exact ⟨i, hi.1, hi.2⟩

theorem goodName_of {g : Graph} {i : Nat} (h : good g i = true) : goodName g (g.node i).name = true := by
  unfold goodName
  rw [List.any_eq_true]
  exact ⟨i, List.mem_range.mpr (good_spec h).1, by simp [h]⟩

/-- Identifier invariant.  `recorded`: every job record under the name of a good copy carries a counter below
the current number of results of the class; `inflight`: so does every execution in flight; `nodup`: records
of good copies have distinct (name, uid); `unreported`: an execution in flight has no record yet;
`distinct`: executions in flight differ in (name, uid). -/
structure Uids (g : Graph) (s : State) (L : Nat → Prop) : Prop where
  recorded : ∀ i k, good g i = true → k ∈ keys s → k.1 = (g.node i).name →
    ∃ j, j < classLen g s (g.node i).cls ∧ k.2 = uidOf (g.node i).pfx j
  inflight : ∀ v n dir uid tag wait, L v → (s.wd v).pc = .test n .plain dir uid tag wait → good g n = true →
    ∃ j, j < classLen g s (g.node n).cls ∧ uid = uidOf (g.node n).pfx j
  nodup : ((keys s).filter (fun k => goodName g k.1)).Nodup
  unreported : ∀ v n dir uid tag wait, L v → (s.wd v).pc = .test n .plain dir uid tag wait → good g n = true →
    ((g.node n).name, uid) ∉ keys s
  distinct : ∀ v v' n dir uid tag wait n' dir' uid' tag' wait', L v → L v' → v ≠ v' →
    (s.wd v).pc = .test n .plain dir uid tag wait → (s.wd v').pc = .test n' .plain dir' uid' tag' wait' →
    good g n = true → ((g.node n).name, uid) ≠ ((g.node n').name, uid')

theorem Uids.mono {g : Graph} {s : State} {L L' : Nat → Prop} (u : Uids g s L) (h : ∀ v, L' v → L v) : Uids g s L' :=
  ⟨u.recorded, fun v n dir uid tag wait hl => u.inflight v n dir uid tag wait (h v hl), u.nodup,
   fun v n dir uid tag wait hl => u.unreported v n dir uid tag wait (h v hl),
   fun v v' n dir uid tag wait n' dir' uid' tag' wait' hl hl' =>
     u.distinct v v' n dir uid tag wait n' dir' uid' tag' wait' (h v hl) (h v' hl')⟩

/-- same records, the test pcs of the workers of `L` are old ones, the classes without object roots did not shrink -/
theorem Uids.transfer {g : Graph} {s s' : State} {L : Nat → Prop} (u : Uids g s L) (hk : keys s' = keys s)
    (hpc : ∀ v, L v → ∀ n dir uid tag wait, (s'.wd v).pc = .test n .plain dir uid tag wait →
      (s.wd v).pc = .test n .plain dir uid tag wait)
    (hlen : ∀ c, goodClass g c = true → classLen g s c ≤ classLen g s' c) : Uids g s' L := by
  refine ⟨?_, ?_, by rw [hk]; exact u.nodup, ?_, ?_⟩
  · intro i k hi hkm hnm
    rw [hk] at hkm
    obtain ⟨j, hj, he⟩ := u.recorded i k hi hkm hnm
    exact ⟨j, Nat.lt_of_lt_of_le hj (hlen _ (good_spec hi).2.2.1), he⟩
  · intro v n dir uid tag wait hl h hg
    obtain ⟨j, hj, he⟩ := u.inflight v n dir uid tag wait hl (hpc v hl _ _ _ _ _ h) hg
    exact ⟨j, Nat.lt_of_lt_of_le hj (hlen _ (good_spec hg).2.2.1), he⟩
  · intro v n dir uid tag wait hl h hg
    rw [hk]
    exact u.unreported v n dir uid tag wait hl (hpc v hl _ _ _ _ _ h) hg
  · intro v v' n dir uid tag wait n' dir' uid' tag' wait' hl hl' hvv h h' hg
    exact u.distinct v v' n dir uid tag wait n' dir' uid' tag' wait' hl hl' hvv (hpc v hl _ _ _ _ _ h) (hpc v' hl' _ _ _ _ _ h') hg

theorem Uids.silent {g : Graph} {w : Nat} {s s' : State} {L : Nat → Prop} (u : Uids g s L) (a : Silent g w s s') : Uids g s' L :=
  u.transfer (by unfold keys; rw [a.job]) (fun v _ _ _ _ _ _ h => (a.back v h).1)
    (fun c _ => Nat.le_of_eq (sum_map_congr _ _ _ (fun j _ => by rw [a.results])))

/-- the stepping worker's clauses are supplied (vacuous unless it is in a test proper) -/
theorem Uids.close {g : Graph} {s : State} {w : Nat} (u : Uids g s (Ex w))
    (h : ∀ n dir uid tag wait, (s.wd w).pc = .test n .plain dir uid tag wait →
      (good g n = true → (∃ j, j < classLen g s (g.node n).cls ∧ uid = uidOf (g.node n).pfx j) ∧ ((g.node n).name, uid) ∉ keys s) ∧
      (∀ v n' dir' uid' tag' wait', v ≠ w → (s.wd v).pc = .test n' .plain dir' uid' tag' wait' →
        good g n = true ∨ good g n' = true → ((g.node n).name, uid) ≠ ((g.node n').name, uid'))) : Uids g s All := by
  refine ⟨u.recorded, ?_, u.nodup, ?_, ?_⟩
  · intro v n dir uid tag wait _ hp hg
    by_cases hv : v = w
    · subst hv; exact ((h n dir uid tag wait hp).1 hg).1
    · exact u.inflight v n dir uid tag wait hv hp hg
  · intro v n dir uid tag wait _ hp hg
    by_cases hv : v = w
    · subst hv; exact ((h n dir uid tag wait hp).1 hg).2
    · exact u.unreported v n dir uid tag wait hv hp hg
  · intro v v' n dir uid tag wait n' dir' uid' tag' wait' _ _ hvv hp hp' hg
    by_cases hv : v = w
    · subst hv
      exact (h n dir uid tag wait hp).2 v' n' dir' uid' tag' wait' (Ne.symm hvv) hp' (Or.inl hg)
    · by_cases hv' : v' = w
      · subst hv'
        exact fun e => (h n' dir' uid' tag' wait' hp').2 v n dir uid tag wait hv hp (Or.inr hg) e.symm
      · exact u.distinct v v' n dir uid tag wait n' dir' uid' tag' wait' hv hv' hvv hp hp' hg

/-! ### what `startTest` does, field by field -/

theorem startTest_keys (g : Graph) (s : State) (n w : Nat) (ph : Phase) (dir : Dir) :
    keys (startTest g s n w ph dir).1 = keys s := by
  cases ph <;> rfl

theorem startTest_wd_ne (g : Graph) (s : State) (n w : Nat) (ph : Phase) (dir : Dir) (v : Nat) (hv : v ≠ w) :
    (startTest g s n w ph dir).1.wd v = s.wd v := by
  cases ph
  · rw [startTest_nonpre_fst g s n w .plain dir (by decide)]; exact wd_setWd_ne _ w v _ hv
  · rw [startTest_pre_fst]; exact wd_setWd_ne _ w v _ hv
  · rw [startTest_nonpre_fst g s n w .main dir (by decide)]; exact wd_setWd_ne _ w v _ hv

theorem startTest_pc (g : Graph) (s : State) (n w : Nat) (ph : Phase) (dir : Dir) (hw : w < s.workers.length) :
    ((startTest g s n w ph dir).1.wd w).pc =
      .test n ph dir (if ph = .pre then uidOf "0" (s.wd w).preResults.length else uidOf (g.node n).pfx (sharedResults g s n).length)
        s.nextTag 0 := by
  cases ph
  · rw [startTest_nonpre_fst g s n w .plain dir (by decide)]
    rw [wd_setWd_eq _ w _ (by exact hw)]; rfl
  · rw [startTest_pre_fst]
    rw [wd_setWd_eq _ w _ (by exact hw)]; rfl
  · rw [startTest_nonpre_fst g s n w .main dir (by decide)]
    rw [wd_setWd_eq _ w _ (by exact hw)]; rfl

theorem startTest_results (g : Graph) (s : State) (n w : Nat) (ph : Phase) (dir : Dir) (j : Nat) :
    ((startTest g s n w ph dir).1.nd j).results = (s.nd j).results ∨
    (ph ≠ .pre ∧ j = n ∧ n < s.nodes.length ∧
      ((startTest g s n w ph dir).1.nd j).results = (s.nd j).results ++ [phOf (g.node n).name s.nextTag]) := by
  by_cases hph : ph = .pre
  · subst hph; left; rfl
  · rw [startTest_nonpre_fst g s n w ph dir hph]
    rcases nd_setNd_cases ({ s with nextTag := s.nextTag + 1 }) n
      (fun d => { d with results := d.results ++ [phOf (g.node n).name s.nextTag] }) j with h | ⟨h1, h2, h⟩
    · left
      show ((({ s with nextTag := s.nextTag + 1 } : State).setNd n _).nd j).results = _
      rw [h]; rfl
    · right
      refine ⟨hph, h1, h2, ?_⟩
      show ((({ s with nextTag := s.nextTag + 1 } : State).setNd n _).nd j).results = _
      rw [h]; rfl

theorem startTest_results_le (g : Graph) (s : State) (n w : Nat) (ph : Phase) (dir : Dir) (j : Nat) :
    (s.nd j).results.length ≤ ((startTest g s n w ph dir).1.nd j).results.length := by
  rcases startTest_results g s n w ph dir j with h | ⟨_, _, _, h⟩
  · rw [h]; exact Nat.le_refl _
  · rw [h, List.length_append]; omega

theorem Uids.closeOther {g : Graph} {s : State} {w : Nat} (u : Uids g s (Ex w))
    (h : ∀ n dir uid tag wait, (s.wd w).pc ≠ .test n .plain dir uid tag wait) : Uids g s All :=
  u.close (fun n dir uid tag wait hp => absurd hp (h n dir uid tag wait))

/-- a start of a creation step (pre or main) hands out no identifier of a test proper -/
theorem Uids.startOther {g : Graph} {s : State} {w : Nat} (u : Uids g s (Ex w)) (n : Nat) (ph : Phase) (dir : Dir)
    (hph : ph ≠ .plain) (hw : w < s.workers.length) : Uids g (startTest g s n w ph dir).1 All := by
  have u1 : Uids g (startTest g s n w ph dir).1 (Ex w) :=
    u.transfer (startTest_keys g s n w ph dir)
      (fun v hv n' dir' uid tag wait h => by rw [startTest_wd_ne g s n w ph dir v hv] at h; exact h)
      (fun c hc => classLen_mono hc (fun j _ => startTest_results_le g s n w ph dir j))
  refine u1.closeOther (fun n' dir' uid tag wait h => ?_)
  rw [startTest_pc g s n w ph dir hw] at h
  cases h
  exact hph rfl

/-- a start of a test proper hands out a fresh identifier -/
theorem Uids.startPlain {g : Graph} {s : State} {w : Nat} (u : Uids g s (Ex w)) (b : Basic g s (Ex w)) (hN : NamesInj g)
    (n : Nat) (dir : Dir) (hn : n < g.nodes.length) (hw : w < g.workers.length) :
    Uids g (startTest g s n w .plain dir).1 All := by
  have hws : w < s.workers.length := by rw [b.workersLen]; exact hw
  have hns : n < s.nodes.length := by rw [b.nodesLen]; exact hn
  have u1 : Uids g (startTest g s n w .plain dir).1 (Ex w) :=
    u.transfer (startTest_keys g s n w .plain dir)
      (fun v hv n' dir' uid tag wait h => by rw [startTest_wd_ne g s n w .plain dir v hv] at h; exact h)
      (fun c hc => classLen_mono hc (fun j _ => startTest_results_le g s n w .plain dir j))
  have hcl : classLen g (startTest g s n w .plain dir).1 (g.node n).cls = classLen g s (g.node n).cls + 1 := by
    refine classLen_succ hn rfl ?_ ?_
    · rcases startTest_results g s n w .plain dir n with h | ⟨_, _, _, h⟩
      · rw [startTest_nonpre_fst g s n w .plain dir (by decide)] at h
        have h' : ((({ s with nextTag := s.nextTag + 1 } : State).setNd n
            (fun d => { d with results := d.results ++ [phOf (g.node n).name s.nextTag] })).nd n).results = (s.nd n).results := h
        rw [nd_setNd_eq _ n _ (by exact hns)] at h'
        have := congrArg List.length h'
        simp only [List.length_append, List.length_singleton] at this
        exact absurd this (by show ¬ (s.nd n).results.length + 1 = (s.nd n).results.length; omega)
      · rw [h, List.length_append]; rfl
    · intro j hj
      rcases startTest_results g s n w .plain dir j with h | ⟨_, h, _⟩
      · rw [h]
      · exact absurd h hj
  refine u1.close (fun n' dir' uid tag wait hp => ?_)
  rw [startTest_pc g s n w .plain dir hws] at hp
  simp only [reduceCtorEq, if_false, Pc.test.injEq] at hp
  obtain ⟨hn', _, _, huid, _, _⟩ := hp
  subst hn' huid
  refine ⟨fun hg => ?_, ?_⟩
  · have hsl := sharedResults_length g s n hn (good_spec hg).2.1
    refine ⟨⟨(sharedResults g s n).length, by rw [hcl, hsl]; omega, rfl⟩, ?_⟩
    rw [startTest_keys]
    intro hmem
    obtain ⟨j, hj, he⟩ := u.recorded n _ hg hmem rfl
    have := uidOf_inj _ he
    rw [hsl] at this
    omega
  · intro v n2 dir2 uid2 tag2 wait2 hv hp2 hgg heq
    rw [startTest_wd_ne g s n w .plain dir v hv] at hp2
    have hn2 := (b.pcOK v n2 .plain dir2 uid2 tag2 wait2 hv hp2).1
    simp only [Prod.mk.injEq] at heq
    have hnn : n = n2 := hN n n2 hn hn2 heq.1
    subst hnn
    have hg : good g n = true := by rcases hgg with h | h <;> exact h
    obtain ⟨j, hj, he⟩ := u.inflight v n dir2 uid2 tag2 wait2 hv hp2 hg
    have hsl := sharedResults_length g s n hn (good_spec hg).2.1
    have := uidOf_inj _ (heq.2.trans he)
    rw [hsl] at this
    omega

theorem classLen_sameBook {g : Graph} {s s' : State} (h : SameBook s s') (c : Nat) : classLen g s' c = classLen g s c :=
  sum_map_congr _ _ _ (fun j _ => by rw [h.nd])

/-- whose record is appended when worker `w` (in a test pc) reports: only a test proper reports under a good name -/
theorem report_name_good {g : Graph} {s : State} {w : Nat} (b : Basic g s All) (hN : NamesInj g) (hP : PreNamesFresh g)
    {n : Nat} {ph : Phase} {dir : Dir} {uid : String} {tag wait : Nat}
    (hpc : (s.wd w).pc = .test n ph dir uid tag wait) (i : Nat) (hi : good g i = true)
    (hnm : (g.node i).name = (if ph = .pre then (s.wd w).preName else (g.node n).name)) : ph = .plain ∧ i = n := by
  have hok := b.pcOK w n ph dir uid tag wait trivial hpc
  have hws : w < g.workers.length := by
    rw [← b.workersLen]; exact lt_of_isTest s w (by rw [hpc]; rfl)
  have hgi := good_spec hi
  cases ph with
  | pre =>
    simp only [if_true] at hnm
    rw [hok.2.2.2.2 rfl] at hnm
    exact absurd hnm (hP i n w hgi.1 hok.1 hws hi)
  | plain =>
    simp only [reduceCtorEq, if_false] at hnm
    exact ⟨rfl, hN i n hgi.1 hok.1 hnm⟩
  | main =>
    simp only [reduceCtorEq, if_false] at hnm
    have : i = n := hN i n hgi.1 hok.1 hnm
    subst this
    have := hok.2.2.2.1.mp hgi.2.2.2
    cases this

/-- the test stub reports the result of the awaited execution -/
theorem Uids.report {g : Graph} {s sa : State} {w : Nat} (u : Uids g s All) (b : Basic g s All) (hN : NamesInj g)
    (hP : PreNamesFresh g) {n : Nat} {ph : Phase} {dir : Dir} {uid : String} {tag wait : Nat}
    (hpc : (s.wd w).pc = .test n ph dir uid tag wait) (hsb : SameBook s sa)
    (hk : keys sa = keys s ++ [((if ph = .pre then (s.wd w).preName else (g.node n).name), uid)]) : Uids g sa (Ex w) := by
  have hcl : ∀ c, classLen g sa c = classLen g s c := classLen_sameBook hsb
  refine ⟨?_, ?_, ?_, ?_, ?_⟩
  · intro i k hi hkm hnm
    rw [hk] at hkm
    rw [hcl]
    rcases List.mem_append.mp hkm with hkm | hkm
    · exact u.recorded i k hi hkm hnm
    · rw [List.mem_singleton.mp hkm] at hnm ⊢
      obtain ⟨hph, hin⟩ := report_name_good b hN hP hpc i hi hnm.symm
      subst hph hin
      exact u.inflight w i dir uid tag wait trivial hpc hi
  · intro v n' dir' uid' tag' wait' hv hp hg
    rw [hsb.wd] at hp; rw [hcl]
    exact u.inflight v n' dir' uid' tag' wait' trivial hp hg
  · rw [hk, List.filter_append]
    generalize hnm0 : (if ph = .pre then (s.wd w).preName else (g.node n).name) = nm
    by_cases hgn : goodName g nm = true
    · have hf : [(nm, uid)].filter (fun k => goodName g k.1) = [(nm, uid)] := by simp [hgn]
      rw [hf]
      obtain ⟨i, hi, hnm⟩ := goodName_spec hgn
      obtain ⟨hph, hin⟩ := report_name_good b hN hP hpc i hi (hnm.trans hnm0.symm)
      subst hph hin
      have := u.unreported w i dir uid tag wait trivial hpc hi
      refine List.nodup_append.mpr ⟨u.nodup, by simp, ?_⟩
      intro a ha b' hb' e
      rw [List.mem_singleton] at hb'
      rw [e, hb', ← hnm] at ha
      exact this (List.mem_filter.mp ha).1
    · have hf : [(nm, uid)].filter (fun k => goodName g k.1) = [] := by simp [hgn]
      rw [hf, List.append_nil]; exact u.nodup
  · intro v n' dir' uid' tag' wait' hv hp hg
    rw [hsb.wd] at hp
    rw [hk]
    intro hmem
    rcases List.mem_append.mp hmem with hmem | hmem
    · exact u.unreported v n' dir' uid' tag' wait' trivial hp hg hmem
    · have heq := List.mem_singleton.mp hmem
      simp only [Prod.mk.injEq] at heq
      obtain ⟨hph, hin⟩ := report_name_good b hN hP hpc n' hg heq.1
      subst hph hin
      exact u.distinct v w n' dir' uid' tag' wait' n' dir uid tag wait trivial trivial hv hp hpc hg
        (by rw [heq.2])
  · intro v v' n1 dir1 uid1 tag1 wait1 n2 dir2 uid2 tag2 wait2 hv hv' hvv hp hp' hg
    rw [hsb.wd] at hp hp'
    exact u.distinct v v' n1 dir1 uid1 tag1 wait1 n2 dir2 uid2 tag2 wait2 trivial trivial hvv hp hp' hg

theorem Uids.sameKeys {g : Graph} {s s' : State} {L : Nat → Prop} (u : Uids g s L) (h : SameBook s s') (hk : keys s' = keys s) :
    Uids g s' L :=
  u.transfer hk (fun v _ _ _ _ _ _ hp => by rw [h.wd] at hp; exact hp) (fun c _ => Nat.le_of_eq (classLen_sameBook h c).symm)

theorem Uids.wait {g : Graph} {s : State} {w : Nat} (u : Uids g s All)
    {n : Nat} {ph : Phase} {dir : Dir} {uid : String} {tag wait : Nat}
    (hpc : (s.wd w).pc = .test n ph dir uid tag wait) (hw : w < s.workers.length) (wait' : Nat) :
    Uids g (s.setWd w (fun d => { d with pc := .test n ph dir uid tag wait' })) All := by
  have u1 : Uids g (s.setWd w (fun d => { d with pc := .test n ph dir uid tag wait' })) (Ex w) :=
    (u.mono (fun _ _ => trivial)).transfer rfl
      (fun v hv _ _ _ _ _ hp => by rw [wd_setWd_ne s w v _ hv] at hp; exact hp) (fun c _ => Nat.le_refl _)
  refine u1.close (fun n' dir' uid' tag' wait'' hp => ?_)
  rw [wd_setWd_eq s w _ hw] at hp
  simp only [Pc.test.injEq] at hp
  obtain ⟨hn, hph, hdir, huid, htag, _⟩ := hp
  subst hn hph hdir huid htag
  refine ⟨fun hg => ⟨u.inflight w n dir uid tag wait trivial hpc hg, u.unreported w n dir uid tag wait trivial hpc hg⟩, ?_⟩
  intro v n2 dir2 uid2 tag2 wait2 hv hp2 hgg
  rw [wd_setWd_ne s w v _ hv] at hp2
  rcases hgg with hg | hg
  · exact u.distinct w v n dir uid tag wait n2 dir2 uid2 tag2 wait2 trivial trivial (Ne.symm hv) hpc hp2 hg
  · exact fun e => u.distinct v w n2 dir2 uid2 tag2 wait2 n dir uid tag wait trivial trivial hv hp2 hpc hg e.symm

/-- the result replaces the placeholder: the classes without object roots do not shrink -/
theorem Uids.settle {g : Graph} {s : State} {w : Nat} (u : Uids g s (Ex w)) (b : Basic g s All)
    {n : Nat} {ph : Phase} {dir : Dir} {uid : String} {tag wait : Nat}
    (hpc : (s.wd w).pc = .test n ph dir uid tag wait) (res : Result) (hres : res.tag = 0) :
    Uids g (settleNd s n res tag) (Ex w) := by
  have hok := b.pcOK w n ph dir uid tag wait trivial hpc
  refine u.transfer rfl (fun v _ _ _ _ _ _ hp => hp) (fun c hc => classLen_mono hc (fun j hj => ?_))
  rcases settleNd_results s n res tag j with h | ⟨_, h⟩
  · rw [h]; exact Nat.le_refl _
  · rw [h]
    have h1 := settle_len (s.nd j).results res tag (isPh_res_false res tag hres hok.2.1)
    have h2 := b.tagsOnce j tag hj hok.2.1
    omega

theorem Uids.settlePre {g : Graph} {s : State} {w : Nat} (u : Uids g s (Ex w)) (res : Result) (tag : Nat) :
    Uids g (settlePre s w res tag) (Ex w) :=
  u.transfer rfl (fun v hv _ _ _ _ _ hp => by unfold I2N.Trav.settlePre at hp; rw [wd_setWd_ne s w v _ hv] at hp; exact hp)
    (fun c _ => Nat.le_refl _)

theorem Uids.appendPre {g : Graph} {s : State} {L : Nat → Prop} (u : Uids g s L) (n w : Nat) : Uids g (appendPre s n w) L := by
  refine u.transfer rfl (fun v _ _ _ _ _ _ hp => hp) (fun c hc => classLen_mono hc (fun j _ => ?_))
  unfold I2N.Trav.appendPre
  rcases nd_setNd_cases s n (fun d => { d with results := d.results ++ (s.wd w).preResults.drop d.results.length }) j with h | ⟨_, _, h⟩
  · rw [h]; exact Nat.le_refl _
  · rw [h]; simp only [List.length_append]; omega

theorem Uids.startFrom {g : Graph} {s1 s' : State} {w : Nat} (u : Uids g s1 (Ex w)) (b : Basic g s1 (Ex w)) (hN : NamesInj g)
    (h : StartFrom g w s1 s') (hw : w < g.workers.length) : Uids g s' All := by
  cases h with
  | plain n dir s0 evs gv hgv hn hroot hdec h =>
    rw [h]
    exact u.startPlain b hN n dir hn hw
  | pre n dir hn hroot h =>
    rw [h]
    have u0 : Uids g (s1.setWd w (fun d => { d with preResults := (s1.nd n).results, preName := preNameOf g n w })) (Ex w) :=
      u.transfer rfl (fun v hv _ _ _ _ _ hp => by rw [wd_setWd_ne s1 w v _ hv] at hp; exact hp) (fun c _ => Nat.le_refl _)
    exact u0.startOther n .pre dir (by decide) (by rw [workers_length_setWd, b.workersLen]; exact hw)

theorem Uids.cont {g : Graph} {sc s' : State} {w n : Nat} {ph : Phase} {dir : Dir} {ok : Bool} (u : Uids g sc (Ex w))
    (b : Basic g sc (Ex w)) (hN : NamesInj g)
    (h : ContEff g w n ph dir sc ok s') (hw : w < g.workers.length)
    (hroot : (g.node n).objectRoot = false ↔ ph = .plain) : Uids g s' All := by
  rcases h with ⟨hp, _, h⟩ | ⟨_, h⟩
  · rw [h]
    exact u.startOther n .main dir (by decide) (by rw [b.workersLen]; exact hw)
  · have ud : Uids g (if ph = .pre then I2N.Trav.appendPre sc n w else sc) (Ex w) := by
      split
      · exact u.appendPre n w
      · exact u
    have bd : Basic g (if ph = .pre then I2N.Trav.appendPre sc n w else sc) (Ex w) := by
      split
      · rename_i hp
        rw [hp] at hroot
        have hr : (g.node n).objectRoot = true := by
          cases hc : (g.node n).objectRoot
          · exact absurd (hroot.mp hc) (by decide)
          · rfl
        exact b.extendRoot n _ hr
      · exact b
    rcases h with ⟨a, hpc⟩ | ⟨s1, a, hs⟩
    · exact (ud.silent a).closeOther (fun n' dir' uid tag wait hp => by rw [hp] at hpc; simp [Pc.isTest] at hpc)
    · exact (ud.silent a).startFrom (bd.silent a) hN hs hw

/-- a step in which the awaited result was not found did not report it -/
theorem repEff_none {s sa : State} {name uid : String} {wait : Nat} {out : Outcome} (hrep : RepEff s name uid wait out sa)
    (hnone : sa.jobResults.find? (fun r => r.1 == name && r.2.1 == uid) = none) : sa = s := by
  rcases hrep with ⟨h, _⟩ | ⟨_, st, _, _, hj⟩
  · exact h
  · exfalso
    rw [hj] at hnone
    exact find?_append_singleton_ne_none _ _ _ (by simp) hnone

/-- the identifier invariant is preserved by every step with fuel -/
theorem Uids.step {g : Graph} (hwf : GraphWF g) (hN : NamesInj g) (hP : PreNamesFresh g) {s : State}
    (b : Basic g s All) (u : Uids g s All) (w : Nat) (out : Outcome) (fuel : Nat)
    (hw : w < g.workers.length) (hf : 0 < fuel) : Uids g (resume g s w out fuel).1 All := by
  have hws : w < s.workers.length := by rw [b.workersLen]; exact hw
  rcases resume_eff g hwf s w out fuel hf hws (b.paths w) with ⟨_, h⟩ | ⟨n, ph, dir, uid, tag, wait, hpc, sa, hrep, h⟩
  · rcases h with ⟨a, _⟩ | ⟨s1, a, hs⟩
    · exact u.silent a
    · exact ((u.silent a).mono (fun _ _ => trivial)).startFrom ((b.silent a).mono (fun _ _ => trivial)) hN hs hw
  · have hsb : SameBook s sa := by
      rcases hrep with ⟨h, _⟩ | ⟨_, _, _, h, _⟩
      · rw [h]; exact ⟨rfl, rfl, rfl⟩
      · exact h
    have ba : Basic g sa All := b.sameBook hsb
    have hpca : (sa.wd w).pc = .test n ph dir uid tag wait := by rw [hsb.wd]; exact hpc
    have hok := b.pcOK w n ph dir uid tag wait trivial hpc
    have ua : Uids g sa (Ex w) := by
      rcases hrep with ⟨h, _⟩ | ⟨_, st, _, hsb', hj⟩
      · rw [h]; exact u.mono (fun _ _ => trivial)
      · exact u.report b hN hP hpc hsb' (by unfold keys; rw [hj]; simp)
    rcases h with ⟨e, _, sb, res, ok, hsab, hkeys, ⟨hres, _⟩, hc⟩ | ⟨hnone, h | hc⟩
    · have bb : Basic g sb All := ba.sameBook hsab
      have ub : Uids g sb (Ex w) := ua.sameKeys hsab hkeys
      have hpcb : (sb.wd w).pc = .test n ph dir uid tag wait := by rw [hsab.wd]; exact hpca
      refine Uids.cont (sc := if ph = .pre then I2N.Trav.settlePre sb w res tag else settleNd sb n res tag) ?_ ?_ hN hc hw hok.2.2.2.1
      · split
        · exact ub.settlePre res tag
        · exact ub.settle bb hpcb res hres
      · split
        · exact bb.settlePre res tag
        · exact bb.settle hpcb res hres
    · have hsa := repEff_none hrep hnone
      subst hsa
      rw [h]
      exact u.wait hpc hws (wait + 1)
    · have hsa := repEff_none hrep hnone
      subst hsa
      exact (u.mono (fun _ _ => trivial)).cont (b.mono (fun _ _ => trivial)) hN hc hw hok.2.2.2.1

theorem Uids.init (g : Graph) (ncls : Nat) (store : List (String × List (String × String))) (hidden : List Nat) :
    Uids g (initState g ncls store hidden) All := by
  have hwd : ∀ v, ((initState g ncls store hidden).wd v).pc.isTest = false := by
    intro v
    unfold initState State.wd
    simp only [List.getD_eq_getElem?_getD, List.getElem?_map]
    cases g.workers[v]? <;> rfl
  have hnt : ∀ v n ph dir uid tag wait, ((initState g ncls store hidden).wd v).pc ≠ .test n ph dir uid tag wait := by
    intro v n ph dir uid tag wait h
    have := hwd v; rw [h] at this; simp [Pc.isTest] at this
  have hk : keys (initState g ncls store hidden) = [] := rfl
  refine ⟨?_, ?_, ?_, ?_, ?_⟩
  · intro i k _ hkm; rw [hk] at hkm; simp at hkm
  · intro v n dir uid tag wait _ h; exact absurd h (hnt _ _ _ _ _ _ _)
  · rw [hk]; simp
  · intro v n dir uid tag wait _ h; exact absurd h (hnt _ _ _ _ _ _ _)
  · intro v v' n dir uid tag wait n' dir' uid' tag' wait' _ _ _ h; exact absurd h (hnt _ _ _ _ _ _ _)

theorem ReachableR.uids {g : Graph} (hwf : graphWF g = true) (hN : NamesInj g) (hP : PreNamesFresh g) {ncls : Nat}
    {store : List (String × List (String × String))} {s : State} (h : ReachableR g ncls store s) : Uids g s All := by
  induction h with
  | init hidden => exact Uids.init g ncls store hidden
  | step w out fuel hr hw hf ih => exact ih.step (GraphWF.of_bool hwf) hN hP (hr.basic hwf) w out fuel hw hf

/-! ## the retry budget of stateless classes -/

theorem shouldRerun_true_stateless (g : Graph) (s : State) (n w : Nat) (hsets : (g.node n).sets.isEmpty = true)
    (h : shouldRerun g s n w = .ok true) :
    ((sharedResults g s n).length : Int) < (g.node n).maxTries.getD 1 ∧ (g.node n).flat = false := by
  unfold shouldRerun at h
  dsimp only at h
  by_cases c1 : (s.nd n).rerunDisabled = true
  · simp [c1] at h
  by_cases c2 : (g.node n).dryRun = true
  · simp [c1, c2] at h
  by_cases c3 : (g.node n).flat = true
  · simp [c1, c2, c3] at h
  by_cases c4 : (g.node n).cloneSource = true
  · simp [c1, c2, c3, c4] at h
  by_cases c5 : g.idIn w n = false
  · simp [c1, c2, c3, c4, c5] at h
  by_cases c6 : (g.node n).maxTries.getD 1 < 0
  · simp [c1, c2, c3, c4, c5, c6] at h
  simp only [c1, c2, c3, c4, c5, c6, hsets, Bool.false_eq_true, if_false, if_true, Bool.not_true] at h
  repeat' (split at h)
  all_goals first
    | (simp at h; done)
    | (simp only [Except.ok.injEq, decide_eq_true_eq, List.length_map] at h
       exact ⟨by omega, by simpa using c3⟩)

/-- a stateless test is run only while its class has fewer results (of whatever status, placeholders of
executions in flight included) than `max(max_tries, 1)`; the decision leaves the state alone -/
theorem runDecision_true_stateless (g : Graph) (s0 : State) (n w : Nat) (s1 : State) (evs : List Event)
    (hsets : (g.node n).sets.isEmpty = true) (h : runDecision g s0 n w = .ok (true, s1, evs)) :
    s1 = s0 ∧ (g.node n).flat = false ∧ ((sharedResults g s0 n).length : Int) < max ((g.node n).maxTries.getD 1) 1 := by
  unfold runDecision at h
  dsimp only at h
  by_cases c1 : (g.node n).sharedRoot = true
  · simp [c1] at h
  by_cases c2 : (g.node n).dryRun = true
  · simp [c1, c2] at h
  by_cases c3 : (g.node n).flat = true
  · simp [c1, c2, c3] at h
  by_cases c4 : (g.node n).cloneSource = true
  · simp [c1, c2, c3, c4] at h
  by_cases c5 : g.idIn w n = false
  · simp [c1, c2, c3, c4, c5] at h
  simp only [c1, c2, c3, c4, c5, hsets, Bool.false_eq_true, if_false, if_true, Bool.not_true] at h
  unfold runDecisionStateless at h
  by_cases he : (sharedResults g s0 n).isEmpty = true
  · simp only [he, if_true, Except.ok.injEq, Prod.mk.injEq, true_and] at h
    rw [List.isEmpty_iff] at he
    refine ⟨h.1.symm, by simpa using c3, ?_⟩
    rw [he]; simp only [List.length_nil, Int.natCast_zero]; omega
  · simp only [he, Bool.false_eq_true, if_false] at h
    cases hr : shouldRerun g s0 n w with
    | error e => simp [hr, Except.map] at h
    | ok r =>
      simp only [hr, Except.map, Except.ok.injEq, Prod.mk.injEq] at h
      rw [h.1] at hr
      have := shouldRerun_true_stateless g s0 n w hsets hr
      exact ⟨h.2.1.symm, this.2, by omega⟩

/-- class `c` consists of stateless tests proper (no object root) with the same `max_tries` setting `M` -/
def statelessClass (g : Graph) (c : Nat) (M : Option Int) : Bool :=
  goodClass g c && (g.classNodes c).all (fun j => (g.node j).sets.isEmpty && decide ((g.node j).maxTries = M))

theorem statelessClass_spec {g : Graph} {c : Nat} {M : Option Int} (h : statelessClass g c M = true) :
    goodClass g c = true ∧ ∀ j, j < g.nodes.length → (g.node j).cls = c → (g.node j).sets.isEmpty = true ∧ (g.node j).maxTries = M := by
  unfold statelessClass at h
  simp only [Bool.and_eq_true, List.all_eq_true, decide_eq_true_eq] at h
  exact ⟨h.1, fun j hj hc => h.2 j ((mem_classNodes g c j).mpr ⟨hj, hc⟩)⟩

/-- the budget invariant: a stateless class never has more results than `max(max_tries, 1)` -/
def Budget (g : Graph) (s : State) : Prop :=
  ∀ c M, statelessClass g c M = true → (classLen g s c : Int) ≤ max (M.getD 1) 1

theorem Budget.anti {g : Graph} {s s' : State} (j : Budget g s)
    (h : ∀ m, (g.node m).objectRoot = false → (s'.nd m).results.length ≤ (s.nd m).results.length) : Budget g s' := by
  intro c M hc
  have := j c M hc
  have := classLen_anti (s := s) (s' := s') (statelessClass_spec hc).1 h
  omega

theorem Budget.silent {g : Graph} {w : Nat} {s s' : State} (j : Budget g s) (a : Silent g w s s') : Budget g s' :=
  j.anti (fun m _ => by rw [a.results]; exact Nat.le_refl _)

theorem Budget.sameBook {g : Graph} {s s' : State} (j : Budget g s) (h : SameBook s s') : Budget g s' :=
  j.anti (fun m _ => by rw [h.nd]; exact Nat.le_refl _)

theorem startTest_nonpre_len (g : Graph) (s : State) (n w : Nat) (ph : Phase) (dir : Dir) (hph : ph ≠ .pre)
    (hn : n < s.nodes.length) :
    ((startTest g s n w ph dir).1.nd n).results.length = (s.nd n).results.length + 1 ∧
    ∀ j, j ≠ n → ((startTest g s n w ph dir).1.nd j).results.length = (s.nd j).results.length := by
  constructor
  · rw [startTest_nonpre_fst g s n w ph dir hph]
    show ((({ s with nextTag := s.nextTag + 1 } : State).setNd n _).nd n).results.length = _
    rw [nd_setNd_eq _ n _ (by exact hn)]
    simp only [List.length_append, List.length_singleton]
    rfl
  · intro j hj
    rcases startTest_results g s n w ph dir j with h | ⟨_, h, _⟩
    · rw [h]
    · exact absurd h hj

/-- a guarded start of a test proper keeps the budget -/
theorem Budget.startPlain {g gv : Graph} {s0 s1 : State} {w : Nat} (j : Budget g s1) (b : Basic g s1 (Ex w))
    (n : Nat) (dir : Dir) (evs : List Event) (hn : n < g.nodes.length) (hgv : SameNodes gv g)
    (hdec : runDecision gv s0 n w = .ok (true, s1, evs)) : Budget g (startTest g s1 n w .plain dir).1 := by
  intro c M hc
  have hns : n < s1.nodes.length := by rw [b.nodesLen]; exact hn
  obtain ⟨h1, h2⟩ := startTest_nonpre_len g s1 n w .plain dir (by decide) hns
  by_cases hcn : (g.node n).cls = c
  · rw [classLen_succ hn hcn h1 h2]
    obtain ⟨hsets, hM⟩ := (statelessClass_spec hc).2 n hn hcn
    obtain ⟨hs, hflat, hlt⟩ := runDecision_true_stateless gv s0 n w s1 evs (by rw [hgv.sets]; exact hsets) hdec
    rw [hgv.flat] at hflat
    rw [← hs, sharedResults_sameNodes hgv, hgv.maxTries, sharedResults_length g s1 n hn hflat, hcn, hM] at hlt
    push_cast
    omega
  · rw [classLen_other hcn h2]
    exact j c M hc

/-- starts of creation steps touch object roots only -/
theorem Budget.startOther {g : Graph} {s : State} (j : Budget g s) (n w : Nat) (ph : Phase) (dir : Dir)
    (h : ph = .pre ∨ (g.node n).objectRoot = true) : Budget g (startTest g s n w ph dir).1 := by
  refine j.anti (fun m hm => ?_)
  rcases startTest_results g s n w ph dir m with h' | ⟨hph, hmn, _, _⟩
  · rw [h']; exact Nat.le_refl _
  · subst hmn
    rcases h with h | h
    · exact absurd h hph
    · rw [h] at hm; cases hm

theorem Budget.settle {g : Graph} {s : State} {w : Nat} (j : Budget g s) (b : Basic g s All)
    {n : Nat} {ph : Phase} {dir : Dir} {uid : String} {tag wait : Nat}
    (hpc : (s.wd w).pc = .test n ph dir uid tag wait) (hph : ph ≠ .pre) (res : Result) (hres : res.tag = 0) :
    Budget g (settleNd s n res tag) := by
  have hok := b.pcOK w n ph dir uid tag wait trivial hpc
  refine j.anti (fun m _ => ?_)
  rcases settleNd_results s n res tag m with h | ⟨hmn, h⟩
  · rw [h]; exact Nat.le_refl _
  · rw [h]
    subst hmn
    have h1 := settle_len (s.nd m).results res tag (isPh_res_false res tag hres hok.2.1)
    have hmem := (b.placeholder w m ph dir uid tag wait trivial hpc).1 hph
    have h2 : 0 < ((s.nd m).results.filter (isPh tag)).length :=
      List.length_pos_of_mem (List.mem_filter.mpr ⟨hmem, by rw [isPh_phOf]; simp⟩)
    omega

theorem Budget.appendPre {g : Graph} {s : State} (j : Budget g s) (n w : Nat) (hroot : (g.node n).objectRoot = true) :
    Budget g (appendPre s n w) := by
  refine j.anti (fun m hm => ?_)
  have : m ≠ n := by intro e; subst e; rw [hroot] at hm; cases hm
  unfold I2N.Trav.appendPre
  rw [nd_setNd_ne s n m _ this]
  exact Nat.le_refl _

theorem Budget.startFrom {g : Graph} {s1 s' : State} {w : Nat} (j : Budget g s1) (b : Basic g s1 (Ex w))
    (h : StartFrom g w s1 s') : Budget g s' := by
  cases h with
  | plain n dir s0 evs gv hgv hn hroot hdec h => rw [h]; exact j.startPlain b n dir evs hn hgv hdec
  | pre n dir hn hroot h =>
    rw [h]
    have j0 : Budget g (s1.setWd w (fun d => { d with preResults := (s1.nd n).results, preName := preNameOf g n w })) :=
      j.anti (fun m _ => Nat.le_refl _)
    exact j0.startOther n w .pre dir (Or.inl rfl)

theorem Budget.cont {g : Graph} {sc s' : State} {w n : Nat} {ph : Phase} {dir : Dir} {ok : Bool} (j : Budget g sc)
    (b : Basic g sc (Ex w)) (h : ContEff g w n ph dir sc ok s')
    (hroot : (g.node n).objectRoot = false ↔ ph = .plain) : Budget g s' := by
  have hr : ph = .pre → (g.node n).objectRoot = true := by
    intro hp
    rw [hp] at hroot
    cases hc : (g.node n).objectRoot
    · exact absurd (hroot.mp hc) (by decide)
    · rfl
  rcases h with ⟨hp, _, h⟩ | ⟨_, h⟩
  · rw [h]
    exact j.startOther n w .main dir (Or.inr (hr hp))
  · have jd : Budget g (if ph = .pre then I2N.Trav.appendPre sc n w else sc) := by
      split
      · rename_i hp; exact j.appendPre n w (hr hp)
      · exact j
    have bd : Basic g (if ph = .pre then I2N.Trav.appendPre sc n w else sc) (Ex w) := by
      split
      · rename_i hp; exact b.extendRoot n _ (hr hp)
      · exact b
    rcases h with ⟨a, _⟩ | ⟨s1, a, hs⟩
    · exact jd.silent a
    · exact (jd.silent a).startFrom (bd.silent a) hs

/-- the budget invariant is preserved by every step with fuel -/
theorem Budget.step {g : Graph} (hwf : GraphWF g) {s : State} (b : Basic g s All) (j : Budget g s)
    (w : Nat) (out : Outcome) (fuel : Nat) (hw : w < g.workers.length) (hf : 0 < fuel) :
    Budget g (resume g s w out fuel).1 := by
  have hws : w < s.workers.length := by rw [b.workersLen]; exact hw
  rcases resume_eff g hwf s w out fuel hf hws (b.paths w) with ⟨_, h⟩ | ⟨n, ph, dir, uid, tag, wait, hpc, sa, hrep, h⟩
  · rcases h with ⟨a, _⟩ | ⟨s1, a, hs⟩
    · exact j.silent a
    · exact (j.silent a).startFrom ((b.silent a).mono (fun _ _ => trivial)) hs
  · have hsb : SameBook s sa := by
      rcases hrep with ⟨h, _⟩ | ⟨_, _, _, h, _⟩
      · rw [h]; exact ⟨rfl, rfl, rfl⟩
      · exact h
    have ba : Basic g sa All := b.sameBook hsb
    have ja : Budget g sa := j.sameBook hsb
    have hpca : (sa.wd w).pc = .test n ph dir uid tag wait := by rw [hsb.wd]; exact hpc
    have hok := b.pcOK w n ph dir uid tag wait trivial hpc
    rcases h with ⟨e, _, sb, res, ok, hsab, _, ⟨hres, _⟩, hc⟩ | ⟨_, h | hc⟩
    · have bb : Basic g sb All := ba.sameBook hsab
      have jb : Budget g sb := ja.sameBook hsab
      have hpcb : (sb.wd w).pc = .test n ph dir uid tag wait := by rw [hsab.wd]; exact hpca
      refine Budget.cont (sc := if ph = .pre then I2N.Trav.settlePre sb w res tag else settleNd sb n res tag) ?_ ?_ hc hok.2.2.2.1
      · split
        · exact jb.anti (fun m _ => Nat.le_refl _)
        · rename_i hph; exact jb.settle bb hpcb hph res hres
      · split
        · exact bb.settlePre res tag
        · exact bb.settle hpcb res hres
    · rw [h]
      exact ja.anti (fun m _ => Nat.le_refl _)
    · exact ja.cont (ba.mono (fun _ _ => trivial)) hc hok.2.2.2.1

theorem Budget.init (g : Graph) (ncls : Nat) (store : List (String × List (String × String))) (hidden : List Nat) :
    Budget g (initState g ncls store hidden) := by
  intro c M _
  have : classLen g (initState g ncls store hidden) c = 0 := by
    unfold classLen
    have : ∀ m, ((initState g ncls store hidden).nd m).results.length = 0 := by
      intro m
      unfold initState State.nd
      simp only [List.getD_eq_getElem?_getD, List.getElem?_map]
      cases g.nodes[m]? <;> rfl
    rw [sum_map_congr _ _ (fun _ => 0) (fun j _ => this j)]
    generalize g.classNodes c = l
    induction l with
    | nil => rfl
    | cons a r ih => simp only [List.map_cons, List.sum_cons, ih]
  rw [this]
  omega

theorem ReachableR.budget {g : Graph} (hwf : graphWF g = true) {ncls : Nat}
    {store : List (String × List (String × String))} {s : State} (h : ReachableR g ncls store s) : Budget g s := by
  induction h with
  | init hidden => exact Budget.init g ncls store hidden
  | step w out fuel hr hw hf ih => exact ih.step (GraphWF.of_bool hwf) (hr.basic hwf) w out fuel hw hf

/-! ## result lists only grow -/

/-- every result list of `s` is an initial segment of the corresponding list of `s'` -/
def Ext (s s' : State) : Prop := ∀ m, (s.nd m).results <+: (s'.nd m).results

theorem Ext.refl (s : State) : Ext s s := fun _ => List.prefix_refl _
theorem Ext.trans {s s1 s2 : State} (a : Ext s s1) (b : Ext s1 s2) : Ext s s2 := fun m => (a m).trans (b m)

theorem Silent.ext {g : Graph} {w : Nat} {s s' : State} (a : Silent g w s s') : Ext s s' :=
  fun m => by rw [a.results]; exact List.prefix_refl _

theorem startTest_ext (g : Graph) (s : State) (n w : Nat) (ph : Phase) (dir : Dir) : Ext s (startTest g s n w ph dir).1 := by
  intro m
  rcases startTest_results g s n w ph dir m with h | ⟨_, _, _, h⟩
  · rw [h]; exact List.prefix_refl _
  · rw [h]; exact List.prefix_append _ _

theorem StartFrom.ext {g : Graph} {w : Nat} {s1 s' : State} (h : StartFrom g w s1 s') : Ext s1 s' := by
  cases h with
  | plain n dir s0 evs gv hgv hn hroot hdec h => rw [h]; exact startTest_ext g s1 n w .plain dir
  | pre n dir hn hroot h =>
    rw [h]
    exact Ext.trans (s1 := s1.setWd w (fun d => { d with preResults := (s1.nd n).results, preName := preNameOf g n w }))
      (fun _ => List.prefix_refl _) (startTest_ext g _ n w .pre dir)

theorem appendPre_ext (s : State) (n w : Nat) : Ext s (appendPre s n w) := by
  intro m
  unfold appendPre
  rcases nd_setNd_cases s n (fun d => { d with results := d.results ++ (s.wd w).preResults.drop d.results.length }) m with h | ⟨_, _, h⟩
  · rw [h]; exact List.prefix_refl _
  · rw [h]; exact List.prefix_append _ _

theorem ContEff.ext {g : Graph} {w n : Nat} {ph : Phase} {dir : Dir} {sc : State} {ok : Bool} {s' : State}
    (h : ContEff g w n ph dir sc ok s') : Ext sc s' := by
  rcases h with ⟨_, _, h⟩ | ⟨_, h⟩
  · rw [h]; exact startTest_ext g sc n w .main dir
  · have hd : Ext sc (if ph = .pre then appendPre sc n w else sc) := by
      split
      · exact appendPre_ext sc n w
      · exact Ext.refl sc
    rcases h with ⟨a, _⟩ | ⟨s1, a, hs⟩
    · exact hd.trans a.ext
    · exact hd.trans (a.ext.trans hs.ext)

/-- the only results a step of worker `w` may take away from node `m`: the placeholder of the test proper
that `w` is awaiting at `m` -/
def removable (s : State) (w m : Nat) (r : Result) : Bool :=
  match (s.wd w).pc with
  | .test _ .pre _ _ _ _ => false
  | .test n _ _ _ tag _ => n == m && isPh tag r
  | _ => false

/-- Along a step every result list keeps its elements in order, except that the placeholder of the awaited
test proper may disappear from the node it was run on; whatever is new is appended behind. -/
theorem resume_results_sublist (g : Graph) (hwf : GraphWF g) (s : State) (w : Nat) (out : Outcome) (fuel : Nat)
    (hf : 0 < fuel) (hw : w < s.workers.length) (hpath : ∀ x ∈ (s.wd w).path, x < g.nodes.length) (m : Nat) :
    ((s.nd m).results.filter (fun r => !removable s w m r)).Sublist ((resume g s w out fuel).1.nd m).results := by
  rcases resume_eff g hwf s w out fuel hf hw hpath with ⟨_, h⟩ | ⟨n, ph, dir, uid, tag, wait, hpc, sa, hrep, h⟩
  · have he : Ext s (resume g s w out fuel).1 := by
      rcases h with ⟨a, _⟩ | ⟨s1, a, hs⟩
      · exact a.ext
      · exact a.ext.trans hs.ext
    exact List.filter_sublist.trans (he m).sublist
  · have hsb : SameBook s sa := by
      rcases hrep with ⟨h, _⟩ | ⟨_, _, _, h, _⟩
      · rw [h]; exact ⟨rfl, rfl, rfl⟩
      · exact h
    rcases h with ⟨e, _, sb, res, ok, hsab, _, ⟨hres, _⟩, hc⟩ | ⟨_, h | hc⟩
    · refine List.Sublist.trans ?_ (hc.ext m).sublist
      have hnd : sb.nd m = s.nd m := by rw [hsab.nd, hsb.nd]
      by_cases hp : ph = .pre
      · simp only [hp, if_true]
        show List.Sublist _ (sb.nd m).results
        rw [hnd]; exact List.filter_sublist
      · simp only [hp, if_false]
        rcases settleNd_results sb n res tag m with h | ⟨hmn, h⟩
        · rw [h, hnd]; exact List.filter_sublist
        · rw [h, hnd, List.filter_append]
          refine List.Sublist.trans ?_ (List.sublist_append_left _ _)
          have : (fun r => !removable s w m r) = (fun r => !isPh tag r) := by
            funext r
            unfold removable
            rw [hpc, hmn]
            cases ph
            · simp
            · exact absurd rfl hp
            · simp
          rw [this]
          exact List.Sublist.refl _
    · rw [h]
      show List.Sublist _ (sa.nd m).results
      rw [hsb.nd]; exact List.filter_sublist
    · refine List.Sublist.trans ?_ (hc.ext m).sublist
      rw [hsb.nd]; exact List.filter_sublist

/-- … in particular: unless `w` awaits a test proper at `m`, the list of `m` is only extended -/
theorem resume_results_prefix (g : Graph) (hwf : GraphWF g) (s : State) (w : Nat) (out : Outcome) (fuel : Nat)
    (hf : 0 < fuel) (hw : w < s.workers.length) (hpath : ∀ x ∈ (s.wd w).path, x < g.nodes.length) (m : Nat)
    (hm : ∀ n ph dir uid tag wait, (s.wd w).pc = .test n ph dir uid tag wait → ph = .pre ∨ n ≠ m) :
    (s.nd m).results <+: ((resume g s w out fuel).1.nd m).results := by
  rcases resume_eff g hwf s w out fuel hf hw hpath with ⟨_, h⟩ | ⟨n, ph, dir, uid, tag, wait, hpc, sa, hrep, h⟩
  · rcases h with ⟨a, _⟩ | ⟨s1, a, hs⟩
    · exact a.ext m
    · exact (a.ext.trans hs.ext) m
  · have hsb : SameBook s sa := by
      rcases hrep with ⟨h, _⟩ | ⟨_, _, _, h, _⟩
      · rw [h]; exact ⟨rfl, rfl, rfl⟩
      · exact h
    rcases h with ⟨e, _, sb, res, ok, hsab, _, ⟨hres, _⟩, hc⟩ | ⟨_, h | hc⟩
    · refine List.IsPrefix.trans ?_ (hc.ext m)
      have hnd : sb.nd m = s.nd m := by rw [hsab.nd, hsb.nd]
      by_cases hp : ph = .pre
      · simp only [hp, if_true]
        show _ <+: (sb.nd m).results
        rw [hnd]; exact List.prefix_refl _
      · simp only [hp, if_false]
        rcases settleNd_results sb n res tag m with h | ⟨hmn, h⟩
        · rw [h, hnd]; exact List.prefix_refl _
        · rcases hm n ph dir uid tag wait hpc with h' | h'
          · exact absurd h' hp
          · exact absurd hmn.symm h'
    · rw [h]
      show _ <+: (sa.nd m).results
      rw [hsb.nd]; exact List.prefix_refl _
    · refine List.IsPrefix.trans ?_ (hc.ext m)
      rw [hsb.nd]; exact List.prefix_refl _

/-! ## decidable forms of the hypotheses on the graph -/

def namesInjB (g : Graph) : Bool :=
  (List.range g.nodes.length).all (fun i => (List.range g.nodes.length).all (fun j =>
    (g.node i).name != (g.node j).name || i == j))

theorem namesInjB_sound {g : Graph} (h : namesInjB g = true) : NamesInj g := by
  intro i j hi hj hnm
  unfold namesInjB at h
  rw [List.all_eq_true] at h
  have := h i (List.mem_range.mpr hi)
  rw [List.all_eq_true] at this
  have := this j (List.mem_range.mpr hj)
  simpa [hnm] using this

theorem isPrefixChars_append (p rest : List Char) : isPrefixChars p (p ++ rest) = true := by
  induction p with
  | nil => rfl
  | cons a r ih => simp [isPrefixChars, ih]

/-- the stem every creation pre-step name starts with -/
def preStem : String := "all.internal.stateless.noop.vms."

/-- no parsed test proper of a class without object roots has a name starting with the pre-step stem -/
def preFreshB (g : Graph) : Bool :=
  (List.range g.nodes.length).all (fun i => !good g i || !isPrefixChars preStem.toList (g.node i).name.toList)

theorem preFreshB_sound {g : Graph} (h : preFreshB g = true) : PreNamesFresh g := by
  intro i m v hi _ _ hg heq
  unfold preFreshB at h
  rw [List.all_eq_true] at h
  have := h i (List.mem_range.mpr hi)
  rw [hg, heq] at this
  have hp : isPrefixChars preStem.toList (preNameOf g m v).toList = true := by
    unfold preNameOf preStem
    simp only [String.toList_append, List.append_assoc]
    exact isPrefixChars_append _ _
  rw [hp] at this
  simp at this

/-! ## the copies a worker's decision looks at -/

theorem mem_copies_of_cls (g : Graph) (n n' : Nat) (hn : n < g.nodes.length) (hflat : (g.node n').flat = false)
    (hcls : (g.node n).cls = (g.node n').cls) : n ∈ g.copies n' := by
  unfold Graph.copies
  simp only [hflat, Bool.false_eq_true, if_false]
  by_cases h : n = n'
  · rw [h]; exact List.mem_cons_self
  · refine List.mem_cons_of_mem _ (List.mem_filter.mpr ⟨(mem_classNodes g _ n).mpr ⟨hn, hcls⟩, ?_⟩)
    simpa using h

theorem mem_sharedResults (g : Graph) (s : State) (n n' : Nat) (r : Result) (hn : n < g.nodes.length)
    (hflat : (g.node n').flat = false) (hcls : (g.node n).cls = (g.node n').cls) (hr : r ∈ (s.nd n).results) :
    r ∈ sharedResults g s n' := by
  unfold sharedResults
  exact List.mem_flatMap.mpr ⟨n, mem_copies_of_cls g n n' hn hflat hcls, hr⟩

/-! ## the run decision of stateful tests (one step) -/

/-- the worker whose scope filters the results in `should_rerun` -/
def scopeWorker (s : State) (n w : Nat) : Option Nat :=
  match (s.nd n).started with | some v => some v | none => some w

/-- the results `should_rerun` counts -/
def countedResults (g : Graph) (s : State) (n w : Nat) : List Result :=
  if (g.node n).sets.isEmpty then sharedResults g s n else sharedFilteredResults g s n (scopeWorker s n w)

theorem shouldRerun_true (g : Graph) (s : State) (n w : Nat) (h : shouldRerun g s n w = .ok true) :
    ((countedResults g s n w).length : Int) < (g.node n).maxTries.getD 1 ∧ (g.node n).maxTries.getD 1 ≠ 1 ∧
      (g.node n).flat = false ∧ (s.nd n).rerunDisabled = false := by
  unfold shouldRerun at h
  unfold countedResults scopeWorker
  dsimp only at h
  by_cases c1 : (s.nd n).rerunDisabled = true
  · simp [c1] at h
  by_cases c2 : (g.node n).dryRun = true
  · simp [c1, c2] at h
  by_cases c3 : (g.node n).flat = true
  · simp [c1, c2, c3] at h
  by_cases c4 : (g.node n).cloneSource = true
  · simp [c1, c2, c3, c4] at h
  by_cases c5 : g.idIn w n = false
  · simp [c1, c2, c3, c4, c5] at h
  by_cases c6 : (g.node n).maxTries.getD 1 < 0
  · simp [c1, c2, c3, c4, c5, c6] at h
  simp only [c1, c2, c3, c4, c5, c6, Bool.false_eq_true, if_false, Bool.not_true] at h
  generalize (if (g.node n).sets.isEmpty = true then sharedResults g s n
    else sharedFilteredResults g s n (match (s.nd n).started with | some v => some v | none => some w)) = rs at h ⊢
  repeat' (split at h)
  all_goals first
    | (simp at h; done)
    | (simp only [Except.ok.injEq, decide_eq_true_eq, List.length_map] at h
       rename_i hne
       exact ⟨by omega, by simpa using hne, by simpa using c3, by simpa using c1⟩)

theorem runDecisionStatefulCore_true (g : Graph) (s : State) (n w : Nat) (scan : Bool) (sc : Bool × List Event)
    (s1 : State) (e1 : List Event) (h : runDecisionStatefulCore g s n w scan sc = .ok (true, s1, e1)) :
    (scan && sc.1) = true ∨ shouldRerun g s1 n w = .ok true := by
  unfold runDecisionStatefulCore at h
  by_cases hc : ((sharedFilteredResults g s n (s.nd n).started).isEmpty && !sc.1) = true
  · simp only [hc, if_true] at h
    by_cases hx : (scan && sc.1) = true
    · exact Or.inl hx
    · simp only [hx, Bool.false_eq_true, if_false] at h
      cases hr : shouldRerun g (disableRerun s n) n w with
      | error e => simp [hr, Except.map] at h
      | ok r =>
        simp only [hr, Except.map, Except.ok.injEq, Prod.mk.injEq] at h
        right; rw [← h.2.1, ← h.1]; exact hr
  · simp only [hc, Bool.false_eq_true, if_false] at h
    by_cases hx : (scan && sc.1) = true
    · exact Or.inl hx
    · simp only [hx, Bool.false_eq_true, if_false] at h
      cases hr : shouldRerun g s n w with
      | error e => simp [hr, Except.map] at h
      | ok r =>
        simp only [hr, Except.map, Except.ok.injEq, Prod.mk.injEq] at h
        right; rw [← h.2.1, ← h.1]; exact hr

/-- A stateful test is run only (a) on the scan path — nobody of the scope finished the class and the state
control says a set state is missing; in-flight and earlier results are NOT looked at — or (b) by the rerun
rule: `max_tries ≠ 1` and the results counted in the reuse scope (placeholders included) number less than
`max_tries`. -/
theorem runDecision_true_stateful (g : Graph) (s : State) (n w : Nat) (s1 : State) (evs : List Event)
    (hsets : (g.node n).sets.isEmpty = false) (h : runDecision g s n w = .ok (true, s1, evs)) :
    (isFinished g s n w 1 = false ∧ (scanStates g s n w).1 = true) ∨
    (((countedResults g s1 n w).length : Int) < (g.node n).maxTries.getD 1 ∧ (g.node n).maxTries.getD 1 ≠ 1) := by
  unfold runDecision at h
  dsimp only at h
  by_cases c1 : (g.node n).sharedRoot = true
  · simp [c1] at h
  by_cases c2 : (g.node n).dryRun = true
  · simp [c1, c2] at h
  by_cases c3 : (g.node n).flat = true
  · simp [c1, c2, c3] at h
  by_cases c4 : (g.node n).cloneSource = true
  · simp [c1, c2, c3, c4] at h
  by_cases c5 : g.idIn w n = false
  · simp [c1, c2, c3, c4, c5] at h
  simp only [c1, c2, c3, c4, c5, hsets, Bool.false_eq_true, if_false, Bool.not_true] at h
  unfold runDecisionStateful at h
  rcases runDecisionStatefulCore_true g s n w _ _ s1 evs h with hx | hr
  · left
    by_cases hf : isFinished g s n w 1 = true
    · simp [hf] at hx
    · have hf' : isFinished g s n w 1 = false := by simpa using hf
      simp only [hf', Bool.not_false, if_true, Bool.true_and] at hx
      exact ⟨hf', hx⟩
  · right
    have := shouldRerun_true g s1 n w hr
    exact ⟨this.1, this.2.1⟩

/-! ## the result filed is the one this execution reported -/

theorem resume_files_own_result {g : Graph} (hwf : GraphWF g) {s : State}
    (b : Basic g s All) (u : Uids g s All) (w n : Nat) (dir : Dir) (uid : String) (tag : Nat)
    (hpc : (s.wd w).pc = .test n .plain dir uid tag 0) (hg : good g n = true) (out : Outcome) (st : String)
    (hst : out.status = some st) (fuel : Nat) (hf : 0 < fuel) :
    ∃ res ∈ ((resume g s w out fuel).1.nd n).results, res.uid = uid ∧ res.dur = out.dur ∧
      (res.status = st ∨ (st = "PASS" ∧ res.status = "WARN")) := by
  have hws : w < s.workers.length := lt_of_isTest s w (by rw [hpc]; rfl)
  have hok := b.pcOK w n .plain dir uid tag 0 trivial hpc
  rcases resume_eff g hwf s w out fuel hf hws (b.paths w) with ⟨hnt, _⟩ | ⟨n', ph, dir', uid', tag', wait, hpc', sa, hrep, h⟩
  · rw [hpc] at hnt; simp [Pc.isTest] at hnt
  · rw [hpc] at hpc'
    simp only [Pc.test.injEq] at hpc'
    obtain ⟨hn, hph, hdir, huid, htag, hwait⟩ := hpc'
    subst hn hph hdir huid htag hwait
    simp only [reduceCtorEq, if_false] at hrep h
    have hunrep := u.unreported w n dir uid tag 0 trivial hpc hg
    rcases hrep with ⟨_, h0 | h0⟩ | ⟨_, st', hst', hsb, hj⟩
    · exact absurd rfl h0
    · rw [hst] at h0; cases h0
    · rw [hst] at hst'; cases hst'
      have hfind : sa.jobResults.find? (fun r => r.1 == (g.node n).name && r.2.1 == uid) = some ((g.node n).name, uid, st, out.dur) := by
        rw [hj, List.find?_append]
        have : s.jobResults.find? (fun r => r.1 == (g.node n).name && r.2.1 == uid) = none := by
          rw [List.find?_eq_none]
          intro x hx hp
          simp only [Bool.and_eq_true, beq_iff_eq] at hp
          apply hunrep
          unfold keys
          exact List.mem_map.mpr ⟨x, hx, by rw [hp.1, hp.2]⟩
        rw [this]; simp
      rcases h with ⟨e, he, sb, res, ok, hsab, _, ⟨hres, huid, hdur, hstat⟩, hc⟩ | ⟨hnone, _⟩
      · rw [hfind] at he
        cases he
        refine ⟨res, ?_, huid, hdur, hstat⟩
        refine (hc.ext n).subset ?_
        have hns : n < sb.nodes.length := by rw [hsab.1, hsb.1, b.nodesLen]; exact hok.1
        unfold settleNd
        rw [nd_setNd_eq sb n _ hns]
        refine List.mem_filter.mpr ⟨List.mem_append_right _ (List.mem_singleton.mpr rfl), ?_⟩
        have := isPh_res_false res tag hres hok.2.1
        unfold isPh at this
        rw [this]; rfl
      · rw [hfind] at hnone; cases hnone

end I2N.Trav
