import I2N.Model.Index
/-! Helper lemmas for C16 (engine E1). -/
namespace I2N.Index

def paths (t : Trie) : List (List String) := t.map (·.path)

/-- the trie has a node with path `p` whose end marker is `id` -/
def HasFin (t : Trie) (p : List String) (id : Nat) : Prop := ∃ e ∈ t, e.path = p ∧ e.fin = some id

theorem hasPath_iff (t : Trie) (p : List String) : hasPath t p = true ↔ p ∈ paths t := by
  simp [hasPath, paths, List.any_eq_true]

theorem mem_labelled (t : Trie) (v : String) (p : List String) :
    p ∈ labelled t v ↔ p ∈ paths t ∧ p.getLast? = some v := by
  simp [labelled, paths, endsWith]

theorem paths_append (t : Trie) (e : Entry) : paths (t ++ [e]) = paths t ++ [e.path] := by
  simp [paths]

theorem paths_setEnd (t : Trie) (p : List String) (id : Nat) : paths (setEnd t p id) = paths t := by
  unfold paths setEnd
  rw [List.map_map]
  apply List.map_congr_left
  intro e _
  simp only [Function.comp]
  split <;> rfl

theorem hasFin_setEnd (t : Trie) (p q : List String) (id id' : Nat) :
    HasFin (setEnd t p id) q id' ↔ (q = p ∧ id' = id ∧ p ∈ paths t) ∨ (q ≠ p ∧ HasFin t q id') := by
  unfold HasFin setEnd paths
  constructor
  · rintro ⟨e, he, hq, hf⟩
    rw [List.mem_map] at he
    obtain ⟨e0, he0, rfl⟩ := he
    by_cases h : e0.path = p
    · simp [h] at hq hf
      left; exact ⟨hq.symm, hf.symm, List.mem_map.2 ⟨e0, he0, h⟩⟩
    · have : (e0.path == p) = false := by simpa using h
      simp [this] at hq hf
      right; exact ⟨by rw [← hq]; exact h, e0, he0, hq, hf⟩
  · rintro (⟨rfl, rfl, hp⟩ | ⟨hne, e, he, hq, hf⟩)
    · rw [List.mem_map] at hp
      obtain ⟨e0, he0, h0⟩ := hp
      refine ⟨{ e0 with fin := some id' }, ?_, h0, rfl⟩
      rw [List.mem_map]
      exact ⟨e0, he0, by simp [h0]⟩
    · refine ⟨e, ?_, hq, hf⟩
      rw [List.mem_map]
      refine ⟨e, he, ?_⟩
      have : (e.path == p) = false := by simpa [hq] using hne
      simp [this]

theorem hasFin_append_none (t : Trie) (p q : List String) (id : Nat) :
    HasFin (t ++ [⟨p, none⟩]) q id ↔ HasFin t q id := by
  unfold HasFin
  constructor
  · rintro ⟨e, he, hq, hf⟩
    rw [List.mem_append] at he
    rcases he with he | he
    · exact ⟨e, he, hq, hf⟩
    · simp at he; subst he; simp at hf
  · rintro ⟨e, he, hq, hf⟩
    exact ⟨e, List.mem_append_left _ he, hq, hf⟩


/-! ### walk -/

theorem walk_paths (t : Trie) (p rest : List String) (id : Nat) (q : List String) :
    q ∈ paths (walk t p rest id) ↔ q ∈ paths t ∨ ∃ r, r ≠ [] ∧ r <+: rest ∧ q = p ++ r := by
  induction rest generalizing t p with
  | nil =>
    simp only [walk, paths_setEnd]
    constructor
    · intro h; exact Or.inl h
    · rintro (h | ⟨r, hr, hpre, _⟩)
      · exact h
      · exact absurd (List.prefix_nil.1 hpre) hr
  | cons v rs ih =>
    simp only [walk]
    rw [ih]
    constructor
    · rintro (h | ⟨r, hr, hpre, rfl⟩)
      · split at h
        · exact Or.inl h
        · rw [paths_append, List.mem_append] at h
          rcases h with h | h
          · exact Or.inl h
          · right
            refine ⟨[v], by simp, ?_, by simpa using h⟩
            exact ⟨rs, rfl⟩
      · right
        refine ⟨v :: r, by simp, ?_, by simp⟩
        obtain ⟨s, rfl⟩ := hpre
        exact ⟨s, rfl⟩
    · rintro (h | ⟨r, hr, hpre, rfl⟩)
      · left
        split
        · exact h
        · rw [paths_append]; exact List.mem_append_left _ h
      · cases r with
        | nil => exact absurd rfl hr
        | cons a r' =>
          obtain ⟨s, hs⟩ := hpre
          simp only [List.cons_append, List.cons.injEq] at hs
          obtain ⟨rfl, hs⟩ := hs
          by_cases hr' : r' = []
          · subst hr'
            left
            split
            · rename_i hh; rw [hasPath_iff] at hh; simpa using hh
            · rw [paths_append]; simp
          · right
            exact ⟨r', hr', ⟨s, hs⟩, by simp⟩

theorem walk_nodup (t : Trie) (p rest : List String) (id : Nat) (h : (paths t).Nodup) :
    (paths (walk t p rest id)).Nodup := by
  induction rest generalizing t p with
  | nil => simpa only [walk, paths_setEnd] using h
  | cons v rs ih =>
    simp only [walk]
    apply ih
    split
    · exact h
    · rename_i hh
      rw [paths_append]
      rw [List.nodup_append]
      refine ⟨h, by simp, ?_⟩
      intro a ha b hb
      simp at hb; subst hb
      intro hab; subst hab
      exact hh ((hasPath_iff _ _).2 ha)

theorem walk_hasFin (t : Trie) (p rest : List String) (id : Nat) (hp : p ∈ paths t) (q : List String) (id' : Nat) :
    HasFin (walk t p rest id) q id' ↔ (q = p ++ rest ∧ id' = id) ∨ (q ≠ p ++ rest ∧ HasFin t q id') := by
  induction rest generalizing t p with
  | nil =>
    simp only [walk, List.append_nil]
    rw [hasFin_setEnd]
    constructor
    · rintro (⟨a, b, _⟩ | h)
      · exact Or.inl ⟨a, b⟩
      · exact Or.inr h
    · rintro (⟨a, b⟩ | h)
      · exact Or.inl ⟨a, b, hp⟩
      · exact Or.inr h
  | cons v rs ih =>
    simp only [walk]
    have hassoc : p ++ v :: rs = (p ++ [v]) ++ rs := by simp
    rw [hassoc]
    split
    · rename_i hh
      exact ih t (p ++ [v]) ((hasPath_iff _ _).1 hh)
    · rw [ih _ (p ++ [v]) (by rw [paths_append]; simp), hasFin_append_none]


/-! ### well-formed (parser-shaped) name sets and the trie invariant -/

/-- the part of parser-shapedness the lookup *membership* needs: names pairwise distinct, non-empty, and the
    first (set) variant of a name occurs in no name at a later position.  (Really parsed multi-vm names repeat
    inner variants — e.g. the `nets.<swarm>.<net>` block once per vm — and still satisfy this.) -/
structure WFb (ns : List (List String × Nat)) : Prop where
  names_nodup : (ns.map (·.1)).Nodup
  nonempty : ∀ n ∈ ns, n.1 ≠ []
  head_not_later : ∀ n ∈ ns, ∀ m ∈ ns, ∀ h, n.1.head? = some h → h ∉ m.1.tail

/-- parser-shaped names as the property quantifies them: `WFb` and no variant repeated within a name -/
structure WF (ns : List (List String × Nat)) : Prop extends WFb ns where
  var_nodup : ∀ n ∈ ns, n.1.Nodup

/-- decidable form of `WF` (used for the non-vacuity examples and by monitors) -/
def wfCheck (ns : List (List String × Nat)) : Bool :=
  decide ((ns.map (·.1)).Nodup) &&
  ns.all (fun n => decide (n.1 ≠ []) && decide (n.1.Nodup)) &&
  ns.all (fun n => ns.all (fun m => match n.1.head? with | none => true | some h => !(m.1.tail.contains h)))

theorem wfCheck_sound (ns : List (List String × Nat)) (h : wfCheck ns = true) : WF ns := by
  simp only [wfCheck, Bool.and_eq_true, decide_eq_true_eq, List.all_eq_true] at h
  obtain ⟨⟨h1, h2⟩, h3⟩ := h
  refine ⟨⟨h1, fun n hn => (h2 n hn).1, ?_⟩, fun n hn => (h2 n hn).2⟩
  intro n hn m hm hd hhd
  have := h3 n hn m hm
  rw [hhd] at this
  simpa using this

structure Inv (t : Trie) (ns : List (List String × Nat)) : Prop where
  nodup : (paths t).Nodup
  paths_iff : ∀ p, p ∈ paths t ↔ p ≠ [] ∧ ∃ n ∈ ns, p <+: n.1
  fin_iff : ∀ p id, HasFin t p id ↔ (p, id) ∈ ns

theorem inv_nil : Inv [] [] := by
  refine ⟨by simp [paths], ?_, ?_⟩
  · intro p; simp [paths]
  · intro p id; simp [HasFin]

theorem wf_prefix {ns r : List (List String × Nat)} (h : WFb (ns ++ r)) : WFb ns := by
  refine ⟨?_, ?_, ?_⟩
  · have := h.names_nodup
    rw [List.map_append, List.nodup_append] at this
    exact this.1
  · intro m hm; exact h.nonempty m (List.mem_append_left _ hm)
  · intro a ha b hb; exact h.head_not_later a (List.mem_append_left _ ha) b (List.mem_append_left _ hb)

/-- a list without duplicates, all of whose elements equal `a`, and which contains `a`, is `[a]` -/
theorem eq_singleton_of_nodup {α} (l : List α) (a : α) (hn : l.Nodup) (hall : ∀ x ∈ l, x = a) (hne : l ≠ []) :
    l = [a] := by
  match l, hn, hall, hne with
  | [x], _, hall, _ => rw [hall x (by simp)]
  | x :: y :: r, hn, hall, _ =>
    have hx := hall x (by simp)
    have hy := hall y (by simp)
    rw [List.nodup_cons] at hn
    exact absurd (by rw [hx, hy]; simp) hn.1

/-- under WF, the only trie node labelled with a name's first variant is the root of that variant -/
theorem labelled_head {t : Trie} {ns : List (List String × Nat)} (hinv : Inv t ns)
    (v0 : String) (hv0 : ∀ m ∈ ns, v0 ∉ m.1.tail) (p : List String) (hp : p ∈ labelled t v0) : p = [v0] := by
  rw [mem_labelled] at hp
  obtain ⟨hp1, hlast⟩ := hp
  obtain ⟨hne, m, hm, hpre⟩ := (hinv.paths_iff p).1 hp1
  match p, hne, hlast, hpre with
  | [a], _, hlast, _ => simp at hlast; rw [hlast]
  | a :: b :: r, _, hlast, hpre =>
    exfalso
    apply hv0 m hm
    obtain ⟨s, hs⟩ := hpre
    rw [← hs]
    have : v0 ∈ b :: r := by
      have := List.mem_of_getLast? (l := b :: r) (a := v0) (by simpa using hlast)
      exact this
    simp only [List.cons_append, List.tail_cons]
    exact List.mem_append_left _ this

theorem insert_eq_walk {t : Trie} {ns : List (List String × Nat)} (hinv : Inv t ns)
    (v0 : String) (rest : List String) (id : Nat) (hv0 : ∀ m ∈ ns, v0 ∉ m.1.tail) :
    ∃ t1, insert t (v0 :: rest) id = walk t1 [v0] rest id ∧ (paths t1).Nodup ∧
      (∀ q, q ∈ paths t1 ↔ q ∈ paths t ∨ q = [v0]) ∧ (∀ q id', HasFin t1 q id' ↔ HasFin t q id') := by
  unfold insert
  by_cases hemp : (labelled t v0).isEmpty = true
  · refine ⟨t ++ [⟨[v0], none⟩], ?_, ?_, ?_, ?_⟩
    · simp only [hemp, if_true]
      have : labelled (t ++ [⟨[v0], none⟩]) v0 = [[v0]] := by
        have h0 : labelled t v0 = [] := by simpa using hemp
        unfold labelled at h0 ⊢
        rw [List.map_append, List.filter_append, h0]
        simp [endsWith]
      rw [this]; rfl
    · rw [paths_append, List.nodup_append]
      refine ⟨hinv.nodup, by simp, ?_⟩
      intro a ha b hb
      simp at hb; subst hb
      intro hab; subst hab
      have : [v0] ∈ labelled t v0 := (mem_labelled _ _ _).2 ⟨ha, by simp⟩
      have h0 : labelled t v0 = [] := by simpa using hemp
      rw [h0] at this; simp at this
    · intro q; rw [paths_append]; simp
    · intro q id'; exact hasFin_append_none _ _ _ _
  · refine ⟨t, ?_, hinv.nodup, ?_, fun _ _ => Iff.rfl⟩
    · simp only [hemp]
      have hne : labelled t v0 ≠ [] := by simpa using hemp
      have hnd : (labelled t v0).Nodup := by
        unfold labelled; exact List.Nodup.sublist List.filter_sublist hinv.nodup
      have := eq_singleton_of_nodup (labelled t v0) [v0] hnd (labelled_head hinv v0 hv0) hne
      simp only [Bool.false_eq_true, if_false]
      rw [this]; rfl
    · intro q
      constructor
      · exact Or.inl
      · rintro (h | rfl)
        · exact h
        · have hne : labelled t v0 ≠ [] := by simpa using hemp
          obtain ⟨x, hx⟩ := List.exists_mem_of_ne_nil _ hne
          have := labelled_head hinv v0 hv0 x hx
          subst this
          exact ((mem_labelled _ _ _).1 hx).1


theorem prefix_cons_iff (q : List String) (v0 : String) (rest : List String) :
    (q ≠ [] ∧ q <+: v0 :: rest) ↔ (q = [v0] ∨ ∃ r, r ≠ [] ∧ r <+: rest ∧ q = [v0] ++ r) := by
  constructor
  · rintro ⟨hne, s, hs⟩
    cases q with
    | nil => exact absurd rfl hne
    | cons a q' =>
      simp only [List.cons_append, List.cons.injEq] at hs
      obtain ⟨rfl, hs⟩ := hs
      by_cases hq' : q' = []
      · left; rw [hq']
      · right; exact ⟨q', hq', ⟨s, hs⟩, rfl⟩
  · rintro (rfl | ⟨r, _, ⟨s, hs⟩, rfl⟩)
    · exact ⟨by simp, rest, rfl⟩
    · exact ⟨by simp, s, by simp [hs]⟩

theorem inv_insert {t : Trie} {ns : List (List String × Nat)} (hinv : Inv t ns) (name : List String) (id : Nat)
    (hwf : WFb (ns ++ [(name, id)])) : Inv (insert t name id) (ns ++ [(name, id)]) := by
  have hmem : (name, id) ∈ ns ++ [(name, id)] := by simp
  have hne := hwf.nonempty _ hmem
  match name, hne with
  | v0 :: rest, _ =>
    have hv0 : ∀ m ∈ ns, v0 ∉ m.1.tail := fun m hm =>
      hwf.head_not_later _ hmem m (List.mem_append_left _ hm) v0 rfl
    obtain ⟨t1, heq, hnd1, hp1, hf1⟩ := insert_eq_walk hinv v0 rest id hv0
    rw [heq]
    have hroot : [v0] ∈ paths t1 := (hp1 _).2 (Or.inr rfl)
    refine ⟨walk_nodup _ _ _ _ hnd1, ?_, ?_⟩
    · intro p
      rw [walk_paths, hp1, hinv.paths_iff]
      constructor
      · rintro ((⟨hne, n, hn, hpre⟩ | rfl) | hr)
        · exact ⟨hne, n, List.mem_append_left _ hn, hpre⟩
        · exact ⟨by simp, _, hmem, ⟨rest, rfl⟩⟩
        · have := (prefix_cons_iff p v0 rest).2 (Or.inr hr)
          exact ⟨this.1, _, hmem, this.2⟩
      · rintro ⟨hne, n, hn, hpre⟩
        rw [List.mem_append] at hn
        rcases hn with hn | hn
        · exact Or.inl (Or.inl ⟨hne, n, hn, hpre⟩)
        · simp at hn; subst hn
          rcases (prefix_cons_iff p v0 rest).1 ⟨hne, hpre⟩ with h | h
          · exact Or.inl (Or.inr h)
          · exact Or.inr h
    · intro p id'
      rw [walk_hasFin _ _ _ _ hroot, hf1, hinv.fin_iff]
      have hnew : ∀ i, (v0 :: rest, i) ∉ ns := by
        intro i hi
        have := hwf.names_nodup
        rw [List.map_append, List.nodup_append] at this
        exact this.2.2 (v0 :: rest) (List.mem_map.2 ⟨_, hi, rfl⟩) (v0 :: rest) (by simp) rfl
      constructor
      · rintro (⟨rfl, rfl⟩ | ⟨_, h⟩)
        · simp
        · exact List.mem_append_left _ h
      · intro h
        rw [List.mem_append] at h
        rcases h with h | h
        · right
          refine ⟨?_, h⟩
          intro hp; subst hp
          exact hnew _ h
        · simp at h; left; exact ⟨h.1, h.2⟩

theorem inv_foldl (done rest : List (List String × Nat)) (t : Trie) (hinv : Inv t done) (hwf : WFb (done ++ rest)) :
    Inv (rest.foldl (fun t n => insert t n.1 n.2) t) (done ++ rest) := by
  induction rest generalizing done t with
  | nil => simpa using hinv
  | cons n rs ih =>
    simp only [List.foldl_cons]
    have hassoc : done ++ n :: rs = (done ++ [n]) ++ rs := by simp
    rw [hassoc] at hwf ⊢
    apply ih
    · have hw : WFb (done ++ [n]) := wf_prefix hwf
      obtain ⟨a, b⟩ := n
      exact inv_insert hinv a b hw
    · exact hwf

theorem inv_insertAll (ns : List (List String × Nat)) (hwf : WFb ns) : Inv (insertAll ns) ns := by
  have := inv_foldl [] ns [] inv_nil (by simpa using hwf)
  simpa [insertAll] using this


/-! ### get / contains -/

theorem follow_some (t : Trie) (p qs p' : List String) (h : follow t p qs = some p') :
    p' = p ++ qs ∧ (qs ≠ [] → p ++ qs ∈ paths t) := by
  induction qs generalizing p with
  | nil => simp [follow] at h; simp [h]
  | cons v rs ih =>
    simp only [follow] at h
    split at h
    · rename_i hh
      obtain ⟨h1, h2⟩ := ih _ h
      refine ⟨by simp [h1], fun _ => ?_⟩
      by_cases hrs : rs = []
      · subst hrs; simpa using (hasPath_iff _ _).1 hh
      · simpa using h2 hrs
    · simp at h

theorem follow_of_prefixes (t : Trie) (p qs : List String)
    (h : ∀ r, r ≠ [] → r <+: qs → p ++ r ∈ paths t) : follow t p qs = some (p ++ qs) := by
  induction qs generalizing p with
  | nil => simp [follow]
  | cons v rs ih =>
    simp only [follow]
    have h1 : hasPath t (p ++ [v]) = true := (hasPath_iff _ _).2 (h [v] (by simp) ⟨rs, rfl⟩)
    rw [if_pos h1, ih]
    · simp
    · intro r hr ⟨s, hs⟩
      have := h (v :: r) (by simp) ⟨s, by simp [hs]⟩
      simpa using this

theorem mem_below (t : Trie) (p : List String) (id : Nat) :
    id ∈ below t p ↔ ∃ q, p <+: q ∧ HasFin t q id := by
  unfold below HasFin
  rw [List.mem_filterMap]
  constructor
  · rintro ⟨e, he, hf⟩
    split at hf
    · rename_i hpre
      exact ⟨e.path, List.isPrefixOf_iff_prefix.1 hpre, e, he, rfl, hf⟩
    · simp at hf
  · rintro ⟨q, hpre, e, he, rfl, hf⟩
    refine ⟨e, he, ?_⟩
    rw [if_pos (List.isPrefixOf_iff_prefix.2 hpre)]
    exact hf

theorem mem_get (t : Trie) (q0 : String) (qs : List String) (id : Nat) :
    id ∈ get t (q0 :: qs) ↔ ∃ p ∈ labelled t q0, ∃ p', follow t p qs = some p' ∧ id ∈ below t p' := by
  simp only [get, List.mem_flatMap]
  constructor
  · rintro ⟨p, hp, h⟩
    split at h
    · rename_i p' hf; exact ⟨p, hp, p', hf, h⟩
    · simp at h
  · rintro ⟨p, hp, p', hf, h⟩
    refine ⟨p, hp, ?_⟩
    rw [hf]; exact h

/-- a nonempty prefix of a path of the trie is a path of the trie -/
theorem Inv.prefix_closed {t : Trie} {ns} (hinv : Inv t ns) (p q : List String) (hq : q ∈ paths t)
    (hne : p ≠ []) (hpre : p <+: q) : p ∈ paths t := by
  obtain ⟨_, n, hn, hqn⟩ := (hinv.paths_iff q).1 hq
  exact (hinv.paths_iff p).2 ⟨hne, n, hn, List.IsPrefix.trans hpre hqn⟩

theorem mem_get_iff {t : Trie} {ns : List (List String × Nat)} (hinv : Inv t ns) (q0 : String) (qs : List String)
    (id : Nat) : id ∈ get t (q0 :: qs) ↔ ∃ name, (name, id) ∈ ns ∧ (q0 :: qs) <:+: name := by
  rw [mem_get]
  constructor
  · rintro ⟨p, hp, p', hf, hb⟩
    obtain ⟨hp1, hlast⟩ := (mem_labelled _ _ _).1 hp
    obtain ⟨rfl, _⟩ := follow_some _ _ _ _ hf
    obtain ⟨name, hpre, hfin⟩ := (mem_below _ _ _).1 hb
    refine ⟨name, (hinv.fin_iff _ _).1 hfin, ?_⟩
    obtain ⟨a, rfl⟩ := List.getLast?_eq_some_iff.1 hlast
    obtain ⟨s, rfl⟩ := hpre
    exact ⟨a, s, by simp⟩
  · rintro ⟨name, hmem, a, s, hname⟩
    have hnamep : ∀ r, r ≠ [] → r <+: name → r ∈ paths t := fun r hr hpre =>
      (hinv.paths_iff r).2 ⟨hr, _, hmem, hpre⟩
    refine ⟨a ++ [q0], (mem_labelled _ _ _).2 ⟨hnamep _ (by simp) ⟨qs ++ s, by simp [← hname]⟩, by simp⟩,
      (a ++ [q0]) ++ qs, ?_, ?_⟩
    · apply follow_of_prefixes
      intro r _ ⟨s', hs'⟩
      apply hnamep _ (by simp)
      exact ⟨s' ++ s, by simp [← hname, ← hs']⟩
    · rw [mem_below]
      exact ⟨name, ⟨s, by simp [← hname]⟩, (hinv.fin_iff _ _).2 hmem⟩

theorem contains_iff (t : Trie) (q0 : String) (qs : List String) :
    contains t (q0 :: qs) = true ↔ ∃ p ∈ labelled t q0, ∃ p', follow t p qs = some p' := by
  simp [contains, List.any_eq_true, Option.isSome_iff_exists]

theorem snd_inj_of_nodup {α} (ns : List (α × Nat)) (h : (ns.map (·.2)).Nodup) (x y : α) (i : Nat)
    (hx : (x, i) ∈ ns) (hy : (y, i) ∈ ns) : x = y := by
  induction ns with
  | nil => simp at hx
  | cons n rs ih =>
    simp only [List.map_cons, List.nodup_cons] at h
    rcases List.mem_cons.1 hx with hx | hx <;> rcases List.mem_cons.1 hy with hy | hy
    · rw [← hx] at hy; exact (Prod.mk.inj hy).1.symm
    · exfalso; apply h.1; rw [← hx]; exact List.mem_map.2 ⟨_, hy, rfl⟩
    · exfalso; apply h.1; rw [← hy]; exact List.mem_map.2 ⟨_, hx, rfl⟩
    · exact ih h.2 hx hy

/-- two prefixes of a duplicate-free list that end in the same element are equal -/
theorem prefix_same_last_eq (n p1 p2 : List String) (v : String) (hn : n.Nodup)
    (h1 : p1 ++ [v] <+: n) (h2 : p2 ++ [v] <+: n) : p1 = p2 := by
  induction n generalizing p1 p2 with
  | nil =>
    obtain ⟨s, hs⟩ := h1
    simp at hs
  | cons a n ih =>
    rw [List.nodup_cons] at hn
    obtain ⟨s1, hs1⟩ := h1
    obtain ⟨s2, hs2⟩ := h2
    cases p1 with
    | nil =>
      cases p2 with
      | nil => rfl
      | cons b p2' =>
        exfalso
        simp only [List.nil_append, List.cons_append, List.cons.injEq] at hs1 hs2
        apply hn.1
        rw [← hs2.2, ← hs1.1]; simp
    | cons b p1' =>
      cases p2 with
      | nil =>
        exfalso
        simp only [List.nil_append, List.cons_append, List.cons.injEq] at hs1 hs2
        apply hn.1
        rw [← hs1.2, ← hs2.1]; simp
      | cons c p2' =>
        simp only [List.cons_append, List.cons.injEq] at hs1 hs2
        rw [ih p1' p2' hn.2 ⟨s1, hs1.2⟩ ⟨s2, hs2.2⟩, ← hs1.1.symm, hs2.1]

theorem get_nodup {t : Trie} {ns : List (List String × Nat)} (hinv : Inv t ns) (hwf : WF ns)
    (hids : (ns.map (·.2)).Nodup) (q : List String) : (get t q).Nodup := by
  cases q with
  | nil => simp [get]
  | cons q0 qs =>
    unfold get
    simp only
    rw [List.Nodup, List.pairwise_flatMap]
    constructor
    · intro p _
      split
      · -- below is duplicate free
        rename_i p' _
        unfold below
        have hp : List.Pairwise (fun a b : Entry => a ∈ t ∧ b ∈ t ∧ a.path ≠ b.path) t := by
          rw [← List.Pairwise.and_mem]
          have := hinv.nodup
          unfold paths at this
          rw [List.Nodup, List.pairwise_map] at this
          exact this
        refine List.Pairwise.filterMap _ ?_ hp
        rintro e e' ⟨he, he', hne⟩ b hb b' hb' hbb
        subst hbb
        have hb1 : e.fin = some b := by
          by_cases c : p'.isPrefixOf e.path = true
          · simpa [c] using hb
          · simp [c] at hb
        have hb2 : e'.fin = some b := by
          by_cases c : p'.isPrefixOf e'.path = true
          · simpa [c] using hb'
          · simp [c] at hb'
        apply hne
        exact snd_inj_of_nodup ns hids _ _ b ((hinv.fin_iff _ _).1 ⟨e, he, rfl, hb1⟩)
          ((hinv.fin_iff _ _).1 ⟨e', he', rfl, hb2⟩)
      · simp
    · have hl : (labelled t q0).Nodup := by
        unfold labelled; exact List.Nodup.sublist List.filter_sublist hinv.nodup
      rw [List.Nodup, List.Pairwise.and_mem] at hl
      refine hl.imp ?_
      rintro p1 p2 ⟨h1, h2, hne⟩ x hx y hy hxy
      subst hxy
      apply hne
      cases hf1 : follow t p1 qs with
      | none => simp [hf1] at hx
      | some p1' =>
      cases hf2 : follow t p2 qs with
      | none => simp [hf2] at hy
      | some p2' =>
      simp only [hf1] at hx
      simp only [hf2] at hy
      obtain ⟨rfl, _⟩ := follow_some _ _ _ _ hf1
      obtain ⟨rfl, _⟩ := follow_some _ _ _ _ hf2
      obtain ⟨n1, hpre1, hfin1⟩ := (mem_below _ _ _).1 hx
      obtain ⟨n2, hpre2, hfin2⟩ := (mem_below _ _ _).1 hy
      have hm1 := (hinv.fin_iff _ _).1 hfin1
      have hm2 := (hinv.fin_iff _ _).1 hfin2
      have : n1 = n2 := snd_inj_of_nodup ns hids _ _ x hm1 hm2
      subst this
      obtain ⟨a1, rfl⟩ := List.getLast?_eq_some_iff.1 ((mem_labelled _ _ _).1 h1).2
      obtain ⟨a2, rfl⟩ := List.getLast?_eq_some_iff.1 ((mem_labelled _ _ _).1 h2).2
      have := prefix_same_last_eq n1 a1 a2 q0 (hwf.var_nodup _ hm1)
        (List.IsPrefix.trans ⟨qs, rfl⟩ hpre1) (List.IsPrefix.trans ⟨qs, rfl⟩ hpre2)
      rw [this]

end I2N.Index
