import I2N.Lemmas.TunnelEnds
/-! Concrete instances used by the non-vacuity `example`s of `Props/C19.lean` (the network of
selftests/isolation/test_vm_network.py: vm1 10.1.0.1 + 172.17.0.1, vm2 10.2.0.1 + 172.18.0.1, all /16). -/
namespace I2N.Tunnel.Ex

def nc (ip : String) (id : Nat) (net : String) : Netconfig := ⟨net, "255.255.0.0", [(ip, id)]⟩

def vm1 : Node := Node.mk 1 "vm1" [(Key.mk "internet_nic" [], "b1"), (Key.mk "lan_nic" [], "b2")]
  [("b1", Iface.mk 11 "10.1.0.1" "255.255.0.0" (nc "10.1.0.1" 11 "10.1.0.0")),
   ("b2", Iface.mk 12 "172.17.0.1" "255.255.0.0" (nc "172.17.0.1" 12 "172.17.0.0"))]

def vm2 : Node := Node.mk 2 "vm2" [(Key.mk "internet_nic" [], "b1"), (Key.mk "lan_nic" [], "b2")]
  [("b1", Iface.mk 21 "10.2.0.1" "255.255.0.0" (nc "10.2.0.1" 21 "10.2.0.0")),
   ("b2", Iface.mk 22 "172.18.0.1" "255.255.0.0" (nc "172.18.0.1" 22 "172.18.0.0"))]

/-- the forwarding configuration of `configure_vpn_route` -/
def customLocal : SDict :=
  [("type", "custom"), ("lnet", "10.0.0.0"), ("lmask", "255.0.0.0"), ("rnet", "192.168.0.0"),
   ("rmask", "255.255.255.0")]

def pskAuth : SDict := [("type", "psk"), ("psk", "secret"), ("left_id", "arnold@vm1"), ("right_id", "")]

theorem wf : WF "vpn1" vm1 vm2 := ⟨by decide, by decide, by decide, by decide, by decide⟩

end I2N.Tunnel.Ex
