import I2N.Lemmas.TravResults
/-!
The "inverse DFS" invariants of the traversal model behind C01 (a test starts only after this worker traversed all
its parents) and C05 (a state is removed only after the clean decision saw every involved worker cleanup-ready).

Technique (as in `TravExcl.lean` / `TravResults.lean`): a relation `Upd g H0 w s s'` describes what a piece of a step of
worker `w` may do to the marks `finished`, to the `dropped*` registers, to `hidden` and to the worker records; it is
reflexive and transitive, every function of the loop satisfies it, and the invariant `Trv` is preserved along it.
The events of a step are described next to it (`EvOk`): an `unset` request stems from a positive clean decision, a
`start` from a setup-ready node.

`H0` is the set of nodes hidden initially (lazy expansion); `visH g hid` is the graph as visible with `hid` hidden.
-/
namespace I2N.Trav

/-! ## registers -/

theorem mem_regWorkers_some (r : Reg) (c v : Nat) : v ∈ regWorkers r (some c) ↔ ∃ n, ((c, v), n) ∈ r := by
  unfold regWorkers
  simp only [List.mem_map, List.mem_filter, beq_iff_eq]
  constructor
  · rintro ⟨⟨⟨a, b⟩, n⟩, ⟨hm, ha⟩, hb⟩
    simp only at ha hb
    subst ha hb
    exact ⟨n, hm⟩
  · rintro ⟨n, hm⟩
    exact ⟨((c, v), n), ⟨hm, rfl⟩, rfl⟩

theorem exists_mem_regAdd (r : Reg) (k k' : Nat × Nat) :
    (∃ n, (k', n) ∈ regAdd r k) ↔ (∃ n, (k', n) ∈ r) ∨ k' = k := by
  induction r with
  | nil =>
    simp only [regAdd, List.mem_singleton, Prod.mk.injEq, List.not_mem_nil, exists_false, false_or]
    constructor
    · rintro ⟨n, h, _⟩; exact h
    · intro h; exact ⟨1, h, rfl⟩
  | cons e r ih =>
    obtain ⟨k0, c0⟩ := e
    unfold regAdd
    by_cases h : k0 = k
    · subst h
      simp only [BEq.rfl, if_true, List.mem_cons, Prod.mk.injEq]
      constructor
      · rintro ⟨n, ⟨h1, _⟩ | h1⟩
        · exact Or.inr h1
        · exact Or.inl ⟨n, Or.inr h1⟩
      · rintro (⟨n, ⟨h1, h2⟩ | h1⟩ | h1)
        · exact ⟨c0 + 1, Or.inl ⟨h1, rfl⟩⟩
        · exact ⟨n, Or.inr h1⟩
        · exact ⟨c0 + 1, Or.inl ⟨h1, rfl⟩⟩
    · have hb : (k0 == k) = false := by simpa using h
      simp only [hb, Bool.false_eq_true, if_false, List.mem_cons, Prod.mk.injEq]
      constructor
      · rintro ⟨n, ⟨h1, h2⟩ | h1⟩
        · exact Or.inl ⟨n, Or.inl ⟨h1, h2⟩⟩
        · rcases ih.mp ⟨n, h1⟩ with ⟨m, hm⟩ | hk
          · exact Or.inl ⟨m, Or.inr hm⟩
          · exact Or.inr hk
      · rintro (⟨n, ⟨h1, h2⟩ | h1⟩ | h1)
        · exact ⟨n, Or.inl ⟨h1, h2⟩⟩
        · obtain ⟨m, hm⟩ := ih.mpr (Or.inl ⟨n, h1⟩)
          exact ⟨m, Or.inr hm⟩
        · obtain ⟨m, hm⟩ := ih.mpr (Or.inr h1)
          exact ⟨m, Or.inr hm⟩

/-- the workers registered under key `c` after one more registration -/
theorem mem_regWorkers_regAdd (r : Reg) (c0 w0 c v : Nat) :
    v ∈ regWorkers (regAdd r (c0, w0)) (some c) ↔ v ∈ regWorkers r (some c) ∨ (v = w0 ∧ c = c0) := by
  rw [mem_regWorkers_some, mem_regWorkers_some, exists_mem_regAdd]
  simp only [Prod.mk.injEq]
  constructor
  · rintro (h | ⟨h1, h2⟩)
    · exact Or.inl h
    · exact Or.inr ⟨h2, h1⟩
  · rintro (h | ⟨h1, h2⟩)
    · exact Or.inl h
    · exact Or.inr ⟨h2, h1⟩

theorem cr_setCr_cases (s : State) (c : Nat) (f : ClassRegs → ClassRegs) (c' : Nat) :
    (s.setCr c f).cr c' = s.cr c' ∨ (c' = c ∧ (s.setCr c f).cr c' = f (s.cr c')) := by
  unfold State.setCr State.cr
  simp only [List.getD_eq_getElem?_getD, List.getElem?_modify]
  by_cases h : c = c'
  · subst h
    cases h' : s.regs[c]? with
    | none => left; simp
    | some d => right; simp
  · left
    cases h' : s.regs[c']? with
    | none => simp
    | some d => simp [h]

/-! ## the visible graph for a given hidden set -/

/-- the graph as parsed when exactly the nodes `hid` are not parsed yet (`vis` reads the `hidden` field only) -/
def visH (g : Graph) (hid : List Nat) : Graph :=
  vis g { nodes := [], regs := [], workers := [], store := [], hidden := hid }

theorem vis_eq_visH (g : Graph) (s : State) : vis g s = visH g s.hidden := rfl

theorem visH_nil (g : Graph) : visH g [] = g := rfl

theorem sameNodes_visH (g : Graph) (hid : List Nat) : SameNodes (visH g hid) g := sameNodes_vis g _

theorem GraphWF.visH {g : Graph} (h : GraphWF g) (hid : List Nat) : GraphWF (visH g hid) := h.vis _

theorem idIn_sameNodes {gv g : Graph} (h : SameNodes gv g) (w n : Nat) : gv.idIn w n = g.idIn w n := by
  unfold Graph.idIn; rw [h.worker, h.name]

theorem relevant_sameNodes {gv g : Graph} (h : SameNodes gv g) (w n : Nat) : relevant gv w n = relevant g w n := by
  unfold relevant; rw [h.flat, idIn_sameNodes h]

theorem clsName_sameNodes {gv g : Graph} (h : SameNodes gv g) (n : Nat) (ph : Phase) : clsName gv n ph = clsName g n ph := by
  unfold clsName; rw [h.cls]

/-! ## vocabulary of the invariant -/

/-- every node on worker `v`'s path is a node of the graph that `v` has to care about -/
def PathOk (g : Graph) (v : Nat) (s : State) : Prop :=
  ∀ x ∈ (s.wd v).path, x < g.nodes.length ∧ relevant g v x = true

/-- worker `v` has a traversed node of class `c`: a node of that class it has to care about, and if the node is a
parsed copy it carries `v`'s own `finished` mark -/
def Wit (g : Graph) (s : State) (v c : Nat) : Prop :=
  ∃ p, p < g.nodes.length ∧ (g.node p).cls = c ∧ relevant g v p = true ∧
    ((g.node p).flat = false → (s.nd p).finished = some v)

/-- node `n` is `v`'s own parsed copy and was setup-ready for `v` on the graph visible with `hid` hidden, where `hid`
lies between what is hidden now and what was hidden initially -/
def ReadyAt (g : Graph) (H0 : List Nat) (s : State) (v n : Nat) : Prop :=
  n < g.nodes.length ∧ g.idIn v n = true ∧ (g.node n).flat = false ∧
    ∃ hid, (∀ h ∈ s.hidden, h ∈ hid) ∧ (∀ h ∈ hid, h ∈ H0) ∧ isSetupReady (visH g hid) s n v = true

/-- a worker that awaits a test awaits it on a node that was setup-ready when the test was started -/
def PcOk (g : Graph) (H0 : List Nat) (v : Nat) (s : State) : Prop :=
  ∀ n ph dir uid tag wait, (s.wd v).pc = .test n ph dir uid tag wait → ReadyAt g H0 s v n

/-- the `droppedSetup` registers only grow -/
def MonoS (s s' : State) : Prop :=
  ∀ c c' u, u ∈ regWorkers (s.cr c).droppedSetup (some c') → u ∈ regWorkers (s'.cr c).droppedSetup (some c')

theorem isSetupReady_mono (g : Graph) (s s' : State) (n v : Nat) (hm : MonoS s s')
    (h : isSetupReady g s n v = true) : isSetupReady g s' n v = true := by
  unfold isSetupReady at h ⊢
  rw [List.all_eq_true] at h ⊢
  intro p hp
  have := h p hp
  obtain ⟨p1, vms⟩ := p
  simp only [Bool.or_eq_true, Bool.not_eq_true', List.contains_iff_mem] at this ⊢
  rcases this with h1 | h1
  · exact Or.inl h1
  · exact Or.inr (hm _ _ _ h1)

theorem ReadyAt.mono {g : Graph} {H0 : List Nat} {s s' : State} {v n : Nat} (h : ReadyAt g H0 s v n)
    (hh : ∀ x ∈ s'.hidden, x ∈ s.hidden) (hm : MonoS s s') : ReadyAt g H0 s' v n := by
  obtain ⟨h1, h2, h3, hid, h4, h5, h6⟩ := h
  exact ⟨h1, h2, h3, hid, fun x hx => h4 x (hh x hx), h5, isSetupReady_mono _ s s' n v hm h6⟩

/-! ## what a piece of a step of worker `w` may do -/

structure Upd (g : Graph) (H0 : List Nat) (w : Nat) (s s' : State) : Prop where
  nodesLen : s'.nodes.length = s.nodes.length
  hidden : ∀ h ∈ s'.hidden, h ∈ s.hidden
  fin : ∀ i, (s'.nd i).finished = (s.nd i).finished ∨
    (i < g.nodes.length ∧ relevant g w i = true ∧ (s'.nd i).finished = some w)
  dropS : ∀ c c' v, v ∈ regWorkers (s'.cr c).droppedSetup (some c') →
    v ∈ regWorkers (s.cr c).droppedSetup (some c') ∨ (v = w ∧ Wit g s' w c')
  dropC : ∀ c c' v, v ∈ regWorkers (s'.cr c).droppedCleanup (some c') →
    v ∈ regWorkers (s.cr c).droppedCleanup (some c') ∨ (v = w ∧ Wit g s' w c')
  monoS : MonoS s s'
  others : ∀ v, v ≠ w → s'.wd v = s.wd v
  path : PathOk g w s → PathOk g w s'
  pc : (s'.wd w).pc = (s.wd w).pc ∨ (s'.wd w).pc.isTest = false ∨ PcOk g H0 w s'

theorem Upd.refl (g : Graph) (H0 : List Nat) (w : Nat) (s : State) : Upd g H0 w s s :=
  ⟨rfl, fun _ h => h, fun _ => Or.inl rfl, fun _ _ _ h => Or.inl h, fun _ _ _ h => Or.inl h, fun _ _ _ h => h,
    fun _ _ => rfl, fun h => h, Or.inl rfl⟩

/-- `w`'s own mark on a node survives whatever `w` does -/
theorem Upd.keepFin {g : Graph} {H0 : List Nat} {w : Nat} {s s' : State} (a : Upd g H0 w s s') (p : Nat)
    (h : (s.nd p).finished = some w) : (s'.nd p).finished = some w := by
  rcases a.fin p with h' | ⟨_, _, h'⟩
  · rw [h', h]
  · exact h'

theorem Upd.keepWit {g : Graph} {H0 : List Nat} {w : Nat} {s s' : State} (a : Upd g H0 w s s') {c : Nat}
    (h : Wit g s w c) : Wit g s' w c := by
  obtain ⟨p, h1, h2, h3, h4⟩ := h
  exact ⟨p, h1, h2, h3, fun hf => a.keepFin p (h4 hf)⟩

theorem PcOk.keep {g : Graph} {H0 : List Nat} {v : Nat} {s s' : State} (h : PcOk g H0 v s)
    (hpc : (s'.wd v).pc = (s.wd v).pc) (hh : ∀ x ∈ s'.hidden, x ∈ s.hidden) (hm : MonoS s s') : PcOk g H0 v s' := by
  intro n ph dir uid tag wait hp
  rw [hpc] at hp
  exact (h n ph dir uid tag wait hp).mono hh hm

theorem PcOk.of_nonTest {g : Graph} {H0 : List Nat} {v : Nat} {s : State} (h : (s.wd v).pc.isTest = false) :
    PcOk g H0 v s := by
  intro n ph dir uid tag wait hp
  rw [hp] at h; simp [Pc.isTest] at h

theorem Upd.trans {g : Graph} {H0 : List Nat} {w : Nat} {s s1 s2 : State} (a : Upd g H0 w s s1) (b : Upd g H0 w s1 s2) :
    Upd g H0 w s s2 where
  nodesLen := b.nodesLen.trans a.nodesLen
  hidden := fun h hh => a.hidden h (b.hidden h hh)
  fin := fun i => by
    rcases b.fin i with h | h
    · rcases a.fin i with h' | ⟨h1, h2, h3⟩
      · exact Or.inl (h.trans h')
      · exact Or.inr ⟨h1, h2, h.trans h3⟩
    · exact Or.inr h
  dropS := fun c c' v hv => by
    rcases b.dropS c c' v hv with h | h
    · rcases a.dropS c c' v h with h' | ⟨h1, h2⟩
      · exact Or.inl h'
      · exact Or.inr ⟨h1, b.keepWit h2⟩
    · exact Or.inr h
  dropC := fun c c' v hv => by
    rcases b.dropC c c' v hv with h | h
    · rcases a.dropC c c' v h with h' | ⟨h1, h2⟩
      · exact Or.inl h'
      · exact Or.inr ⟨h1, b.keepWit h2⟩
    · exact Or.inr h
  monoS := fun c c' u h => b.monoS c c' u (a.monoS c c' u h)
  others := fun v hv => (b.others v hv).trans (a.others v hv)
  path := fun h => b.path (a.path h)
  pc := by
    rcases b.pc with h | h | h
    · rcases a.pc with h' | h' | h'
      · exact Or.inl (h.trans h')
      · right; left; rw [h]; exact h'
      · right; right; exact h'.keep h b.hidden b.monoS
    · exact Or.inr (Or.inl h)
    · exact Or.inr (Or.inr h)

theorem Upd.pcOk {g : Graph} {H0 : List Nat} {w : Nat} {s s' : State} (a : Upd g H0 w s s') (h : PcOk g H0 w s) :
    PcOk g H0 w s' := by
  rcases a.pc with h' | h' | h'
  · exact h.keep h' a.hidden a.monoS
  · exact PcOk.of_nonTest h'
  · exact h'

theorem Upd.pcOk_other {g : Graph} {H0 : List Nat} {w : Nat} {s s' : State} (a : Upd g H0 w s s') (v : Nat) (hv : v ≠ w)
    (h : PcOk g H0 v s) : PcOk g H0 v s' :=
  h.keep (by rw [a.others v hv]) a.hidden a.monoS

theorem Upd.pathOk_other {g : Graph} {H0 : List Nat} {w : Nat} {s s' : State} (a : Upd g H0 w s s') (v : Nat) (hv : v ≠ w)
    (h : PathOk g v s) : PathOk g v s' := by
  unfold PathOk; rw [a.others v hv]; exact h

/-! ### primitive updates -/

/-- nothing the invariant reads changes, except that `hidden` may shrink -/
theorem Upd.quiet {g : Graph} {H0 : List Nat} {w : Nat} {s s' : State} (hn : s'.nodes.length = s.nodes.length)
    (hh : ∀ h ∈ s'.hidden, h ∈ s.hidden) (hf : ∀ i, (s'.nd i).finished = (s.nd i).finished)
    (hs : ∀ c, (s'.cr c).droppedSetup = (s.cr c).droppedSetup) (hc : ∀ c, (s'.cr c).droppedCleanup = (s.cr c).droppedCleanup)
    (hw : ∀ v, s'.wd v = s.wd v) : Upd g H0 w s s' :=
  ⟨hn, hh, fun i => Or.inl (hf i), fun c c' v h => Or.inl (by rw [← hs c]; exact h),
    fun c c' v h => Or.inl (by rw [← hc c]; exact h), fun c c' u h => by rw [hs c]; exact h,
    fun v _ => hw v, fun h => by unfold PathOk; rw [hw w]; exact h, Or.inl (by rw [hw w])⟩

theorem upd_setNd (g : Graph) (H0 : List Nat) (w : Nat) (s : State) (m : Nat) (f : NodeD → NodeD)
    (hf : ∀ d, (f d).finished = d.finished) : Upd g H0 w s (s.setNd m f) :=
  Upd.quiet (nodes_length_setNd s m f) (fun _ h => h) (fun i => nd_setNd_proj (·.finished) s m f hf i)
    (fun _ => rfl) (fun _ => rfl) (fun _ => rfl)

theorem upd_setCr (g : Graph) (H0 : List Nat) (w : Nat) (s : State) (c : Nat) (f : ClassRegs → ClassRegs)
    (hs : ∀ r, (f r).droppedSetup = r.droppedSetup) (hc : ∀ r, (f r).droppedCleanup = r.droppedCleanup) :
    Upd g H0 w s (s.setCr c f) := by
  refine Upd.quiet rfl (fun _ h => h) (fun _ => rfl) (fun c' => ?_) (fun c' => ?_) (fun _ => rfl)
  · rcases cr_setCr_cases s c f c' with h | ⟨_, h⟩
    · rw [h]
    · rw [h, hs]
  · rcases cr_setCr_cases s c f c' with h | ⟨_, h⟩
    · rw [h]
    · rw [h, hc]

theorem upd_setWd (g : Graph) (H0 : List Nat) (w : Nat) (s : State) (f : WorkerD → WorkerD)
    (hpath : ∀ d, (∀ x ∈ d.path, x < g.nodes.length ∧ relevant g w x = true) →
      ∀ x ∈ (f d).path, x < g.nodes.length ∧ relevant g w x = true)
    (hpc : ∀ d, (f d).pc = d.pc ∨ (f d).pc.isTest = false) : Upd g H0 w s (s.setWd w f) := by
  refine ⟨rfl, fun _ h => h, fun _ => Or.inl rfl, fun _ _ _ h => Or.inl h, fun _ _ _ h => Or.inl h, fun _ _ _ h => h,
    fun v hv => wd_setWd_ne s w v f hv, ?_, ?_⟩
  · intro hp
    unfold PathOk
    rcases wd_setWd_cases s w f with ⟨h, _⟩ | ⟨_, h⟩
    · rw [h]; exact hp
    · rw [h]; exact hpath _ hp
  · rcases wd_setWd_cases s w f with ⟨h, _⟩ | ⟨_, h⟩
    · exact Or.inl (by rw [h])
    · rw [h]
      rcases hpc (s.wd w) with h' | h'
      · exact Or.inl h'
      · exact Or.inr (Or.inl h')

theorem upd_popPath (g : Graph) (H0 : List Nat) (w : Nat) (s : State) : Upd g H0 w s (popPath s w) :=
  upd_setWd g H0 w s _ (fun _ h x hx => h x (List.dropLast_subset _ hx)) (fun _ => Or.inl rfl)

theorem upd_pushPath (g : Graph) (H0 : List Nat) (w : Nat) (s : State) (m : Nat) (hm : m < g.nodes.length)
    (hr : relevant g w m = true) : Upd g H0 w s (pushPath s w m) :=
  upd_setWd g H0 w s _ (fun _ h x hx => by
    rcases List.mem_append.mp hx with hx | hx
    · exact h x hx
    · rw [List.mem_singleton.mp hx]; exact ⟨hm, hr⟩) (fun _ => Or.inl rfl)

theorem upd_setPc (g : Graph) (H0 : List Nat) (w : Nat) (s : State) (pc : Pc) (h : pc.isTest = false) :
    Upd g H0 w s (s.setWd w (fun d => { d with pc := pc })) :=
  upd_setWd g H0 w s _ (fun _ hp => hp) (fun _ => Or.inr h)

theorem upd_finishTraverse (g : Graph) (H0 : List Nat) (w : Nat) (s : State) (n : Nat) (hn : n < g.nodes.length)
    (hr : relevant g w n = true) : Upd g H0 w s (finishTraverse s n w) := by
  refine ⟨nodes_length_setNd s n _, fun _ h => h, fun i => ?_, fun _ _ _ h => Or.inl h, fun _ _ _ h => Or.inl h,
    fun _ _ _ h => h, fun _ _ => rfl, fun h => h, Or.inl rfl⟩
  unfold finishTraverse
  rcases nd_setNd_cases s n (fun d => { d with finished := some w, started := none }) i with h | ⟨h1, _, h2⟩
  · exact Or.inl (by rw [h])
  · exact Or.inr ⟨h1 ▸ hn, h1 ▸ hr, by rw [h2]⟩

/-- one more registration of `w` in a `droppedSetup` register, for a class `w` has traversed -/
theorem upd_addDropS (g : Graph) (H0 : List Nat) (w : Nat) (s : State) (cc c0 : Nat) (hw : Wit g s w c0) :
    Upd g H0 w s (s.setCr cc (fun r => { r with droppedSetup := regAdd r.droppedSetup (c0, w) })) := by
  refine ⟨rfl, fun _ h => h, fun _ => Or.inl rfl, fun c c' v h => ?_, fun c c' v h => ?_, fun c c' u h => ?_,
    fun _ _ => rfl, fun h => h, Or.inl rfl⟩
  · rcases cr_setCr_cases s cc (fun r => { r with droppedSetup := regAdd r.droppedSetup (c0, w) }) c with h' | ⟨_, h'⟩
    · rw [h'] at h; exact Or.inl h
    · rw [h'] at h
      rcases (mem_regWorkers_regAdd _ c0 w c' v).mp h with h1 | ⟨h1, h2⟩
      · exact Or.inl h1
      · exact Or.inr ⟨h1, h2 ▸ hw⟩
  · rcases cr_setCr_cases s cc (fun r => { r with droppedSetup := regAdd r.droppedSetup (c0, w) }) c with h' | ⟨_, h'⟩
    · rw [h'] at h; exact Or.inl h
    · rw [h'] at h; exact Or.inl h
  · rcases cr_setCr_cases s cc (fun r => { r with droppedSetup := regAdd r.droppedSetup (c0, w) }) c with h' | ⟨_, h'⟩
    · rw [h']; exact h
    · rw [h']; exact (mem_regWorkers_regAdd _ c0 w c' u).mpr (Or.inl h)

theorem upd_addDropC (g : Graph) (H0 : List Nat) (w : Nat) (s : State) (cc c0 : Nat) (hw : Wit g s w c0) :
    Upd g H0 w s (s.setCr cc (fun r => { r with droppedCleanup := regAdd r.droppedCleanup (c0, w) })) := by
  refine ⟨rfl, fun _ h => h, fun _ => Or.inl rfl, fun c c' v h => ?_, fun c c' v h => ?_, fun c c' u h => ?_,
    fun _ _ => rfl, fun h => h, Or.inl rfl⟩
  · rcases cr_setCr_cases s cc (fun r => { r with droppedCleanup := regAdd r.droppedCleanup (c0, w) }) c with h' | ⟨_, h'⟩
    · rw [h'] at h; exact Or.inl h
    · rw [h'] at h; exact Or.inl h
  · rcases cr_setCr_cases s cc (fun r => { r with droppedCleanup := regAdd r.droppedCleanup (c0, w) }) c with h' | ⟨_, h'⟩
    · rw [h'] at h; exact Or.inl h
    · rw [h'] at h
      rcases (mem_regWorkers_regAdd _ c0 w c' v).mp h with h1 | ⟨h1, h2⟩
      · exact Or.inl h1
      · exact Or.inr ⟨h1, h2 ▸ hw⟩
  · rcases cr_setCr_cases s cc (fun r => { r with droppedCleanup := regAdd r.droppedCleanup (c0, w) }) c with h' | ⟨_, h'⟩
    · rw [h']; exact h
    · rw [h']; exact h

theorem upd_foldl {β} (g : Graph) (H0 : List Nat) (w : Nat) (f : State → β → State) (h : ∀ s b, Upd g H0 w s (f s b))
    (l : List β) (s : State) : Upd g H0 w s (l.foldl f s) := by
  induction l generalizing s with
  | nil => exact Upd.refl g H0 w s
  | cons a r ih => simp only [List.foldl_cons]; exact (h s a).trans (ih _)

/-! ## the invariant -/

/-- a parsed copy is cared for by one worker only (follows from `OwnerNames`) -/
def UniqueId (g : Graph) : Prop :=
  ∀ n, n < g.nodes.length → (g.node n).flat = false → ∀ v w, g.idIn v n = true → g.idIn w n = true → v = w

theorem relevant_nonflat {g : Graph} {v n : Nat} (h : relevant g v n = true) (hf : (g.node n).flat = false) :
    g.idIn v n = true := by
  unfold relevant at h
  rw [hf] at h
  simpa using h

structure Trv (g : Graph) (H0 : List Nat) (s : State) : Prop where
  nodesLen : s.nodes.length = g.nodes.length
  hidden : ∀ h ∈ s.hidden, h ∈ H0
  /-- `finished` of a parsed copy is only ever written with a worker that cares for the copy -/
  finOwner : ∀ i v, i < g.nodes.length → (g.node i).flat = false → (s.nd i).finished = some v → g.idIn v i = true
  /-- a worker registered as having dropped a parent class has traversed a node of that class -/
  dropS : ∀ c c' v, v ∈ regWorkers (s.cr c).droppedSetup (some c') → Wit g s v c'
  /-- a worker registered as having dropped a child class has traversed a node of that class -/
  dropC : ∀ c c' v, v ∈ regWorkers (s.cr c).droppedCleanup (some c') → Wit g s v c'
  path : ∀ v, PathOk g v s
  pc : ∀ v, PcOk g H0 v s

theorem Wit.upd {g : Graph} {H0 : List Nat} {w : Nat} {s s' : State} (hu : UniqueId g) (a : Upd g H0 w s s') {v c : Nat}
    (h : Wit g s v c) : Wit g s' v c := by
  obtain ⟨p, h1, h2, h3, h4⟩ := h
  refine ⟨p, h1, h2, h3, fun hf => ?_⟩
  rcases a.fin p with h' | ⟨_, h5, h6⟩
  · rw [h', h4 hf]
  · rw [h6, hu p h1 hf v w (relevant_nonflat h3 hf) (relevant_nonflat h5 hf)]

theorem Trv.upd {g : Graph} {H0 : List Nat} {w : Nat} {s s' : State} (hu : UniqueId g) (t : Trv g H0 s)
    (a : Upd g H0 w s s') : Trv g H0 s' where
  nodesLen := a.nodesLen.trans t.nodesLen
  hidden := fun h hh => t.hidden h (a.hidden h hh)
  finOwner := fun i v hi hf h => by
    rcases a.fin i with h' | ⟨_, h1, h2⟩
    · rw [h'] at h; exact t.finOwner i v hi hf h
    · rw [h2] at h
      cases h
      exact relevant_nonflat h1 hf
  dropS := fun c c' v h => by
    rcases a.dropS c c' v h with h' | ⟨h1, h2⟩
    · exact (t.dropS c c' v h').upd hu a
    · rw [h1]; exact h2
  dropC := fun c c' v h => by
    rcases a.dropC c c' v h with h' | ⟨h1, h2⟩
    · exact (t.dropC c c' v h').upd hu a
    · rw [h1]; exact h2
  path := fun v => by
    by_cases hv : v = w
    · subst hv; exact a.path (t.path v)
    · exact a.pathOk_other v hv (t.path v)
  pc := fun v => by
    by_cases hv : v = w
    · subst hv; exact a.pcOk (t.pc v)
    · exact a.pcOk_other v hv (t.pc v)

/-! ## events -/

/-- an event that is neither an `unset` request nor a test start -/
def Plain (e : Event) : Prop :=
  (∀ wid reqs sc ok, e ≠ .door wid "unset" reqs sc ok) ∧ (∀ wid cname uid locs k, e ≠ .start wid cname uid locs k)

/-- where the interesting events of a piece of a step of worker `w` that began in state `s` come from:
an `unset` request was sent by `sync_states` for a node whose clean decision (taken in a state `sd` that `w` produced,
on the graph visible at that time) was positive; a test was started on a node that was setup-ready for `w` -/
def EvOk (g : Graph) (H0 : List Nat) (w : Nat) (s : State) (e : Event) : Prop :=
  (∀ wid reqs sc ok, e = .door wid "unset" reqs sc ok →
    ∃ hid sd n, (∀ h ∈ sd.hidden, h ∈ hid) ∧ (∀ h ∈ hid, h ∈ H0) ∧ Upd g H0 w s sd ∧ n < g.nodes.length ∧
      (sd.nd n).started = some w ∧
      cleanDecision (visH g hid) sd n w = .ok true ∧ e ∈ (syncStates (visH g hid) sd n w none).2) ∧
  (∀ wid cname uid locs k, e = .start wid cname uid locs k →
    wid = (g.worker w).id ∧ ∃ n ph sd, cname = clsName g n ph ∧ Upd g H0 w s sd ∧ ReadyAt g H0 sd w n)

theorem EvOk.of_plain {g : Graph} {H0 : List Nat} {w : Nat} {s : State} {e : Event} (h : Plain e) : EvOk g H0 w s e :=
  ⟨fun wid reqs sc ok he => absurd he (h.1 wid reqs sc ok), fun wid cname uid locs k he => absurd he (h.2 wid cname uid locs k)⟩

theorem EvOk.mono {g : Graph} {H0 : List Nat} {w : Nat} {s0 s : State} {e : Event} (a : Upd g H0 w s0 s)
    (h : EvOk g H0 w s e) : EvOk g H0 w s0 e := by
  refine ⟨fun wid reqs sc ok he => ?_, fun wid cname uid locs k he => ?_⟩
  · obtain ⟨hid, sd, n, h1, h2, h3, h4⟩ := h.1 wid reqs sc ok he
    exact ⟨hid, sd, n, h1, h2, a.trans h3, h4⟩
  · obtain ⟨h0, n, ph, sd, h1, h2, h3⟩ := h.2 wid cname uid locs k he
    exact ⟨h0, n, ph, sd, h1, a.trans h2, h3⟩

/-- a piece of a step: the state effect and the provenance of its events -/
def Ok (g : Graph) (H0 : List Nat) (w : Nat) (s s' : State) (evs : List Event) : Prop :=
  Upd g H0 w s s' ∧ ∀ e ∈ evs, EvOk g H0 w s e

theorem Ok.trans {g : Graph} {H0 : List Nat} {w : Nat} {s s1 s2 : State} {e1 e2 : List Event}
    (a : Ok g H0 w s s1 e1) (b : Ok g H0 w s1 s2 e2) : Ok g H0 w s s2 (e1 ++ e2) := by
  refine ⟨a.1.trans b.1, fun e he => ?_⟩
  rcases List.mem_append.mp he with he | he
  · exact a.2 e he
  · exact (b.2 e he).mono a.1

theorem Ok.of_upd {g : Graph} {H0 : List Nat} {w : Nat} {s s1 s2 : State} {e2 : List Event}
    (a : Upd g H0 w s s1) (b : Ok g H0 w s1 s2 e2) : Ok g H0 w s s2 e2 :=
  ⟨a.trans b.1, fun e he => (b.2 e he).mono a⟩

theorem Ok.then_upd {g : Graph} {H0 : List Nat} {w : Nat} {s s1 s2 : State} {e1 : List Event}
    (a : Ok g H0 w s s1 e1) (b : Upd g H0 w s1 s2) : Ok g H0 w s s2 e1 :=
  ⟨a.1.trans b, a.2⟩

theorem Ok.silent {g : Graph} {H0 : List Nat} {w : Nat} {s s1 : State} (a : Upd g H0 w s s1) : Ok g H0 w s s1 [] :=
  ⟨a, fun _ h => by simp at h⟩

/-! ### the events of the decisions -/

theorem plain_check (wid : String) (reqs : List (String × String)) (sc : List String) (ok : Bool) :
    Plain (.door wid "check" reqs sc ok) :=
  ⟨fun _ _ _ _ h => by simp at h, fun _ _ _ _ _ h => by simp at h⟩

theorem scanStates_plain (g : Graph) (s : State) (n w : Nat) : ∀ e ∈ (scanStates g s n w).2, Plain e := by
  unfold scanStates
  dsimp only
  split
  · intro e he; simp at he
  · intro e he
    rw [List.mem_singleton.mp he]
    exact plain_check _ _ _ _

theorem runDecisionStatefulCore_events (g : Graph) (s : State) (n w : Nat) (scan : Bool) (sc : Bool × List Event)
    (b : Bool) (s1 : State) (e1 : List Event)
    (h : runDecisionStatefulCore g s n w scan sc = .ok (b, s1, e1)) : e1 = sc.2 := by
  unfold runDecisionStatefulCore at h
  split at h
  · simp only [Except.ok.injEq, Prod.mk.injEq] at h; exact h.2.2.symm
  · generalize shouldRerun g _ n w = r at h
    cases r with
    | error e => simp [Except.map] at h
    | ok r => simp only [Except.map, Except.ok.injEq, Prod.mk.injEq] at h; exact h.2.2.symm

theorem runDecisionStateless_events (g : Graph) (s : State) (n w : Nat) (b : Bool) (s1 : State) (e1 : List Event)
    (h : runDecisionStateless g s n w = .ok (b, s1, e1)) : e1 = [] := by
  unfold runDecisionStateless at h
  split at h
  · simp only [Except.ok.injEq, Prod.mk.injEq] at h; exact h.2.2.symm
  · cases hr : shouldRerun g s n w with
    | error e => simp [hr, Except.map] at h
    | ok r => simp only [hr, Except.map, Except.ok.injEq, Prod.mk.injEq] at h; exact h.2.2.symm

/-- the run decision emits `check` requests only; a positive decision is about the worker's own parsed copy -/
theorem runDecision_events (g : Graph) (s : State) (n w : Nat) (b : Bool) (s1 : State) (e1 : List Event)
    (h : runDecision g s n w = .ok (b, s1, e1)) :
    (∀ e ∈ e1, Plain e) ∧ (b = true → (g.node n).flat = false ∧ g.idIn w n = true) := by
  unfold runDecision at h
  dsimp only at h
  cases c1 : (g.node n).sharedRoot <;> cases c2 : (g.node n).dryRun <;> cases c3 : (g.node n).flat <;>
    cases c4 : (g.node n).cloneSource <;> cases c5 : g.idIn w n <;> cases c6 : (g.node n).sets.isEmpty
  all_goals simp only [c1, c2, c3, c4, c5, c6, Bool.false_eq_true, if_false, if_true, Bool.not_false, Bool.not_true,
    Except.ok.injEq, Prod.mk.injEq, reduceCtorEq] at h
  all_goals first
    | (refine ⟨?_, ?_⟩
       · rw [← h.2.2]; intro e he; simp at he
       · intro hb; rw [← h.1] at hb; simp at hb)
    | (refine ⟨?_, fun _ => ⟨rfl, rfl⟩⟩
       have := runDecisionStatefulCore_events g s n w _ _ b s1 e1 h
       rw [this]
       split
       · exact scanStates_plain g s n w
       · intro e he; simp at he)
    | (refine ⟨?_, fun _ => ⟨rfl, rfl⟩⟩
       rw [runDecisionStateless_events g s n w b s1 e1 h]
       intro e he; simp at he)

theorem upd_disableRerun (g : Graph) (H0 : List Nat) (w : Nat) (s : State) (n : Nat) : Upd g H0 w s (disableRerun s n) :=
  upd_setNd g H0 w s n _ (fun _ => rfl)

theorem upd_runDecision (g : Graph) (H0 : List Nat) (w : Nat) (gv : Graph) (s : State) (n v : Nat) (b : Bool) (s1 : State)
    (e1 : List Event) (h : runDecision gv s n v = .ok (b, s1, e1)) : Upd g H0 w s s1 := by
  rcases runDecision_state gv s n v b s1 e1 h with h | h
  · rw [h]; exact Upd.refl g H0 w s
  · rw [h]; exact upd_disableRerun g H0 w s n

theorem upd_pullLocations (g : Graph) (H0 : List Nat) (w : Nat) (gv : Graph) (s : State) (n : Nat) :
    Upd g H0 w s (pullLocations gv s n) := by
  unfold pullLocations
  split
  · exact Upd.refl g H0 w s
  · apply upd_foldl
    rintro s ⟨p, vms⟩
    apply upd_foldl
    intro s loc
    apply upd_foldl
    intro s vm
    exact upd_setNd g H0 w s n _ (fun _ => rfl)

theorem upd_store (g : Graph) (H0 : List Nat) (w : Nat) (s : State) (st : List (String × List (String × String))) :
    Upd g H0 w s { s with store := st } :=
  Upd.quiet rfl (fun _ h => h) (fun _ => rfl) (fun _ => rfl) (fun _ => rfl) (fun _ => rfl)

theorem upd_syncStates (g : Graph) (H0 : List Nat) (w : Nat) (gv : Graph) (s : State) (n v : Nat) (rv : Option (List String)) :
    Upd g H0 w s (syncStates gv s n v rv).1 := by
  unfold syncStates
  dsimp only
  split
  · exact Upd.refl g H0 w s
  · split
    · exact upd_store g H0 w s _
    · exact upd_store g H0 w s _

/-- `sync_states` emits door requests only -/
theorem syncStates_events (g : Graph) (s : State) (n v : Nat) (rv : Option (List String)) :
    ∀ e ∈ (syncStates g s n v rv).2, ∃ act reqs sc, e = .door (g.worker v).id act reqs sc true := by
  unfold syncStates
  dsimp only
  split
  · intro e he; simp at he
  · split
    · intro e he; rw [List.mem_singleton.mp he]; exact ⟨_, _, _, rfl⟩
    · intro e he; rw [List.mem_singleton.mp he]; exact ⟨_, _, _, rfl⟩

end I2N.Trav
